/-
C08 — helper definitions and lemmas for the filter theorems.
-/
import Verif.C08.Model
namespace Verif.C08

/-! ## stripping -/

@[simp] theorem strip_paren (k x) : strip (.paren k x) = strip x := by simp [strip]
@[simp] theorem peel_paren (k x) : peel (.paren k x) = peel x := by simp [peel]
@[simp] theorem strip_block (fl es) : strip (.block fl es) = .list es := by simp [strip]
@[simp] theorem strip_node (k o fs) : strip (.node k o fs) = .node k o fs := by simp [strip]
@[simp] theorem strip_list (es) : strip (.list es) = .list es := by simp [strip]
@[simp] theorem strip_str (s) : strip (.str s) = .str s := by simp [strip]
@[simp] theorem strip_nil : strip .nil = .nil := by simp [strip]
@[simp] theorem peel_node (k o fs) : peel (.node k o fs) = .node k o fs := by simp [peel]
@[simp] theorem peel_str (s) : peel (.str s) = .str s := by simp [peel]
@[simp] theorem peel_nil : peel .nil = .nil := by simp [peel]
@[simp] theorem peel_block_single (fl y) : peel (.block fl [y]) = peel y := by simp [peel]
@[simp] theorem peel_list_single (y) : peel (.list [y]) = peel y := by simp [peel]

theorem peel_block_not_single (fl es) (h : es.length ≠ 1) : peel (.block fl es) = .list es := by
  match es, h with
  | [], _ => simp [peel]
  | _ :: _ :: _, _ => simp [peel]

mutual
/-- the matcher looks at its subject only through `strip` and `peel` -/
theorem matchP_congr (W : World) (p : Pat) (t1 t2 : Tree) (σ : State)
    (h1 : strip t1 = strip t2) (h2 : peel t1 = peel t2) : matchP W p t1 σ = matchP W p t2 σ := by
  cases p with
  | any => simp [matchP, h1]
  | nilp => simp [matchP, h1]
  | str s => simp [matchP, h1]
  | bindAny n => simp [matchP, h1]
  | bind n q => simp [matchP, matchP_congr W q t1 t2 σ h1 h2]
  | or qs => simp [matchP, matchOr_congr W qs t1 t2 σ h1 h2]
  | not q => simp [matchP, matchP_congr W q t1 t2 σ h1 h2, h1]
  | lnil => simp [matchP, h1]
  | lcons h tl => simp [matchP, h1]
  | symbol nm => simp [matchP, h2]
  | builtin nm => simp [matchP, h2]
  | object nm => simp [matchP, h2]
  | intLit v => simp [matchP, h2]
  | tce v => simp [matchP, h1]
  | node name fs => simp [matchP, h2]
theorem matchOr_congr (W : World) (qs : List Pat) (t1 t2 : Tree) (σ : State)
    (h1 : strip t1 = strip t2) (h2 : peel t1 = peel t2) : matchOr W qs t1 σ = matchOr W qs t2 σ := by
  cases qs with
  | nil => simp [matchOr]
  | cons q qs => simp [matchOr, matchP_congr W q t1 t2 σ h1 h2, matchOr_congr W qs t1 t2 σ h1 h2]
end

/-- match.go: `case *ast.ParenExpr: return match(m, l, r.X)` (same for ExprStmt, DeclStmt,
LabeledStmt): the match at the wrapper IS the match at the wrapped node. -/
theorem match_paren (W : World) (p : Pat) (k : Kind) (x : Tree) (σ : State) :
    matchP W p (.paren k x) σ = matchP W p x σ :=
  matchP_congr W p _ _ σ (by simp) (by simp)

/-! ## normalisation: the innermost node at which the matcher performs the very same match -/

open Classical in
/-- `paren` wrappers are always removed; a one-element BlockStmt/FieldList is replaced by its
element iff the pattern matches the element with the same result. -/
noncomputable def norm (W : World) (p : Pat) (σ : State) : Tree → Tree
  | .paren _ x => norm W p σ x
  | .block fl es =>
    match es with
    | [y] => if matchP W p y σ = matchP W p (.block fl [y]) σ then norm W p σ y else .block fl [y]
    | _ => .block fl es
  | t => t

theorem norm_paren (W p σ k x) : norm W p σ (.paren k x) = norm W p σ x := by simp [norm]
theorem norm_node (W p σ k o fs) : norm W p σ (.node k o fs) = .node k o fs := by simp [norm]
theorem norm_list (W p σ es) : norm W p σ (.list es) = .list es := by simp [norm]
theorem norm_str (W p σ s) : norm W p σ (.str s) = .str s := by simp [norm]
theorem norm_nil (W p σ) : norm W p σ .nil = .nil := by simp [norm]
theorem norm_block_single_eq (W p σ fl y) (h : matchP W p y σ = matchP W p (.block fl [y]) σ) :
    norm W p σ (.block fl [y]) = norm W p σ y := by simp [norm, h]
theorem norm_block_single_ne (W p σ fl y) (h : matchP W p y σ ≠ matchP W p (.block fl [y]) σ) :
    norm W p σ (.block fl [y]) = .block fl [y] := by simp [norm, h]
theorem norm_block_not_single (W p σ fl es) (h : es.length ≠ 1) :
    norm W p σ (.block fl es) = .block fl es := by
  match es, h with
  | [], _ => simp [norm]
  | _ :: _ :: _, _ => simp [norm]

/-- the match at the normalised node is the match at the node -/
theorem norm_match (W : World) (p : Pat) (σ : State) :
    ∀ t : Tree, matchP W p (norm W p σ t) σ = matchP W p t σ
  | .node k o fs => by rw [norm_node]
  | .list es => by rw [norm_list]
  | .str s => by rw [norm_str]
  | .nil => by rw [norm_nil]
  | .paren k x => by rw [norm_paren, norm_match W p σ x, match_paren]
  | .block fl [] => by rw [norm_block_not_single _ _ _ _ _ (by simp)]
  | .block fl (a :: b :: r) => by rw [norm_block_not_single _ _ _ _ _ (by simp)]
  | .block fl [y] => by
    by_cases h : matchP W p y σ = matchP W p (.block fl [y]) σ
    · rw [norm_block_single_eq _ _ _ _ _ h, norm_match W p σ y, h]
    · rw [norm_block_single_ne _ _ _ _ _ h]

theorem norm_idem (W : World) (p : Pat) (σ : State) :
    ∀ t : Tree, norm W p σ (norm W p σ t) = norm W p σ t
  | .node k o fs => by simp [norm_node]
  | .list es => by simp [norm_list]
  | .str s => by simp [norm_str]
  | .nil => by simp [norm_nil]
  | .paren k x => by rw [norm_paren, norm_idem W p σ x]
  | .block fl [] => by simp [norm_block_not_single]
  | .block fl (a :: b :: r) => by simp [norm_block_not_single]
  | .block fl [y] => by
    by_cases h : matchP W p y σ = matchP W p (.block fl [y]) σ
    · rw [norm_block_single_eq _ _ _ _ _ h, norm_idem W p σ y]
    · rw [norm_block_single_ne _ _ _ _ _ h, norm_block_single_ne _ _ _ _ _ h]

/-! ## inversion lemmas -/

theorem firstSome_some {α β : Type} (f : α → Option β) (l : List α) (b : β)
    (h : firstSome f l = some b) : ∃ a ∈ l, f a = some b := by
  induction l with
  | nil => simp [firstSome] at h
  | cons a as ih =>
    unfold firstSome at h
    cases hfa : f a with
    | some b' =>
      rw [hfa] at h
      simp at h
      exact ⟨a, by simp, by rw [hfa, h]⟩
    | none =>
      rw [hfa] at h
      simp at h
      obtain ⟨a', ha', hf⟩ := ih h
      exact ⟨a', by simp [ha'], hf⟩

theorem matchP_symbol_some (W : World) (nm : Pat) (t : Tree) (σ : State) (r : Tree × State)
    (h : matchP W (.symbol nm) t σ = some r) :
    ∃ o, symObj (peel t) = some o ∧ ∃ n ∈ W.names o, ∃ r', matchP W nm (.str n) σ = some r' := by
  simp only [matchP] at h
  cases ho : symObj (peel t) with
  | none => rw [ho] at h; simp at h
  | some o =>
    rw [ho] at h
    simp only at h
    cases hf : firstSome (fun n => matchP W nm (.str n) σ) (W.names o) with
    | none => rw [hf] at h; simp at h
    | some r' =>
      obtain ⟨n, hn, hm⟩ := firstSome_some _ _ _ hf
      exact ⟨o, rfl, n, hn, r', hm⟩

theorem symObj_kind (k o fs ob) (h : symObj (.node k o fs) = some ob) :
    k ∈ ["Ident", "SelectorExpr", "IndexExpr", "IndexListExpr"] := by
  simp only [symObj] at h
  by_cases h1 : k = "Ident" ∨ k = "SelectorExpr"
  · rcases h1 with h1 | h1 <;> simp [h1]
  · rw [if_neg h1] at h
    by_cases h2 : k = "IndexExpr" ∨ k = "IndexListExpr"
    · rcases h2 with h2 | h2 <;> simp [h2]
    · rw [if_neg h2] at h; simp at h

theorem matchP_node_some (W : World) (name : String) (fs : List Pat) (t : Tree) (σ : State)
    (r : Tree × State) (h : matchP W (.node name fs) t σ = some r) :
    ∃ o ts σ', peel t = .node name o ts ∧ matchFields W fs ts σ = some σ' := by
  simp only [matchP] at h
  cases hp : peel t with
  | node k o ts =>
    rw [hp] at h
    simp only at h
    by_cases hk : k = name
    · rw [if_pos hk] at h
      cases hm : matchFields W fs ts σ with
      | none => rw [hm] at h; simp at h
      | some σ' => exact ⟨o, ts, σ', by rw [hk], hm⟩
    · rw [if_neg hk] at h; simp at h
  | paren k x => rw [hp] at h; simp at h
  | block fl es => rw [hp] at h; simp at h
  | list es => rw [hp] at h; simp at h
  | str s => rw [hp] at h; simp at h
  | nil => rw [hp] at h; simp at h

/-! ## the node-kind tables (obligations on `Verif.C08.Generated`) -/

/-- What the filter theorems need from nodeToASTTypes / allTypes. Proved by `decide` over the
tables regenerated from the real parser (`tables_ok` in Theorems.lean). -/
structure TablesOK : Prop where
  univ_all : ∀ u ∈ Generated.universeKinds, u ∈ Generated.allKinds
  univ_not : ∀ u ∈ Generated.universeKinds, u ∈ Generated.notKinds
  univ_any : ∀ u ∈ Generated.universeKinds, u ∈ tableKinds "Any"
  univ_tce : ∀ u ∈ Generated.universeKinds, u ∈ tableKinds "TrulyConstantExpression"
  self : ∀ u ∈ Generated.universeKinds, ∀ ks, Generated.nodeKinds.lookup u = some ks → u ∈ ks
  symbol : ∀ k ∈ ["Ident", "SelectorExpr", "IndexExpr", "IndexListExpr"], k ∈ tableKinds "Symbol"
  builtin : "Ident" ∈ tableKinds "Builtin"
  object : "Ident" ∈ tableKinds "Object"
  intlit : "BasicLit" ∈ tableKinds "IntegerLiteral" ∧ "UnaryExpr" ∈ tableKinds "IntegerLiteral"
  list : "BlockStmt" ∈ tableKinds "List" ∧ "FieldList" ∈ tableKinds "List"
  no_empty : "" ∉ Generated.universeKinds

mutual
/-- The pattern is one Parser.Parse returns: every plain node in root position (below Or and
Binding) has a row in nodeToASTTypes — for any other node type collectEntryNodes panics
("internal error: unhandled type") instead of returning a Pattern. -/
def rootOk : Pat → Bool
  | .node name _ => (Generated.nodeKinds.lookup name).isSome
  | .bind _ p => rootOk p
  | .or ps => rootOkL ps
  | _ => true
def rootOkL : List Pat → Bool
  | [] => true
  | p :: ps => rootOk p && rootOkL ps
end

/-- `k` is acceptable for `p`: if it is a kind of the universe, it is an entry kind of `p`. -/
def Ok (p : Pat) (k : Kind) : Prop := k ∈ Generated.universeKinds → k ∈ entryKinds p
def OkL (ps : List Pat) (k : Kind) : Prop := k ∈ Generated.universeKinds → k ∈ entryKindsL ps

theorem blockKind_list (T : TablesOK) (fl : Bool) : blockKind fl ∈ tableKinds "List" := by
  cases fl <;> simp [blockKind, T.list.1, T.list.2]

/-! ## entry kinds: a match at a plain node -/

mutual
theorem entry_node (T : TablesOK) (W : World) (p : Pat) (k : Kind) (o : Option Nat) (fs : List Tree)
    (σ : State) (r : Tree × State) (hk : k ≠ "BlockStmt" ∧ k ≠ "FieldList") (hr : rootOk p = true)
    (h : matchP W p (.node k o fs) σ = some r) : Ok p k := by
  intro hu
  cases p with
  | any => simpa [entryKinds] using T.univ_any k hu
  | nilp => simpa [entryKinds] using T.univ_all k hu
  | str s => simp [matchP] at h
  | bindAny n => simpa [entryKinds] using T.univ_all k hu
  | bind n q =>
    simp only [matchP] at h
    cases hl : List.lookup n σ with
    | some v => rw [hl] at h; simp at h
    | none =>
      rw [hl] at h
      simp only at h
      cases hm : matchP W q (.node k o fs) σ with
      | none => rw [hm] at h; simp at h
      | some r' =>
        have := entry_node T W q k o fs σ r' hk (by simpa [rootOk] using hr) hm hu
        simpa [entryKinds] using this
  | or qs =>
    simp only [matchP] at h
    have := entry_node_or T W qs k o fs σ r hk (by simpa [rootOk] using hr) h hu
    simpa [entryKinds] using this
  | not q => simpa [entryKinds] using T.univ_all k hu
  | lnil => simp [matchP] at h
  | lcons a b => simp [matchP] at h
  | symbol nm =>
    obtain ⟨ob, hob, _⟩ := matchP_symbol_some W nm _ σ r h
    rw [peel_node] at hob
    simpa [entryKinds] using T.symbol k (symObj_kind k o fs ob hob)
  | builtin nm =>
    simp only [matchP, peel_node] at h
    match fs, h with
    | [name], h =>
      by_cases hi : k = "Ident"
      · subst hi; simpa [entryKinds] using T.builtin
      · simp [hi] at h
    | [], h => simp at h
    | _ :: _ :: _, h => simp at h
  | object nm =>
    simp only [matchP, peel_node] at h
    match fs, h with
    | [name], h =>
      by_cases hi : k = "Ident"
      · subst hi; simpa [entryKinds] using T.object
      · simp [hi] at h
    | [], h => simp at h
    | _ :: _ :: _, h => simp at h
  | intLit v =>
    simp only [matchP, peel_node] at h
    by_cases hi : k = "BasicLit" ∨ k = "UnaryExpr"
    · rcases hi with hi | hi
      · subst hi; simpa [entryKinds] using T.intlit.1
      · subst hi; simpa [entryKinds] using T.intlit.2
    · rw [if_neg hi] at h; simp at h
  | tce v => simpa [entryKinds] using T.univ_tce k hu
  | node name ps =>
    obtain ⟨o', ts, σ', hp, _⟩ := matchP_node_some W name ps _ σ r h
    rw [peel_node] at hp
    injection hp with hkn _ _
    subst hkn
    simp only [rootOk] at hr
    cases hl : Generated.nodeKinds.lookup k with
    | none => rw [hl] at hr; simp at hr
    | some ks =>
      have := T.self k hu ks hl
      simpa [entryKinds, tableKinds, hl] using this
theorem entry_node_or (T : TablesOK) (W : World) (qs : List Pat) (k : Kind) (o : Option Nat)
    (fs : List Tree) (σ : State) (r : Tree × State) (hk : k ≠ "BlockStmt" ∧ k ≠ "FieldList")
    (hr : rootOkL qs = true) (h : matchOr W qs (.node k o fs) σ = some r) : OkL qs k := by
  intro hu
  cases qs with
  | nil => simp [matchOr] at h
  | cons q qs =>
    simp only [matchOr] at h
    simp only [rootOkL, Bool.and_eq_true] at hr
    cases hm : matchP W q (.node k o fs) σ with
    | some r' =>
      have := entry_node T W q k o fs σ r' hk hr.1 hm hu
      simp [entryKindsL, this]
    | none =>
      rw [hm] at h
      simp only at h
      have := entry_node_or T W qs k o fs σ r hk hr.2 h hu
      simp [entryKindsL, this]
end

/-! ## entry kinds: a match at a BlockStmt / FieldList -/

theorem symObj_list (es) : symObj (.list es) = none := by simp [symObj]

mutual
/-- a block that does not have exactly one element can only be matched by list-like patterns -/
theorem entry_block_ns (T : TablesOK) (W : World) (p : Pat) (fl : Bool) (es : List Tree)
    (σ : State) (r : Tree × State) (hn : es.length ≠ 1)
    (h : matchP W p (.block fl es) σ = some r) : Ok p (blockKind fl) := by
  intro hu
  have hp := peel_block_not_single fl es hn
  cases p with
  | any => simpa [entryKinds] using T.univ_any _ hu
  | nilp => simpa [entryKinds] using T.univ_all _ hu
  | str s => simp [matchP] at h
  | bindAny n => simpa [entryKinds] using T.univ_all _ hu
  | bind n q =>
    simp only [matchP] at h
    cases hl : List.lookup n σ with
    | some v => rw [hl] at h; simp at h
    | none =>
      rw [hl] at h
      simp only at h
      cases hm : matchP W q (.block fl es) σ with
      | none => rw [hm] at h; simp at h
      | some r' =>
        have := entry_block_ns T W q fl es σ r' hn hm hu
        simpa [entryKinds] using this
  | or qs =>
    simp only [matchP] at h
    have := entry_block_ns_or T W qs fl es σ r hn h hu
    simpa [entryKinds] using this
  | not q => simpa [entryKinds] using T.univ_all _ hu
  | lnil => simpa [entryKinds] using blockKind_list T fl
  | lcons a b => simpa [entryKinds] using blockKind_list T fl
  | symbol nm =>
    obtain ⟨ob, hob, _⟩ := matchP_symbol_some W nm _ σ r h
    rw [hp, symObj_list] at hob
    simp at hob
  | builtin nm => simp [matchP, hp] at h
  | object nm => simp [matchP, hp] at h
  | intLit v => simp [matchP, hp] at h
  | tce v => simpa [entryKinds] using T.univ_tce _ hu
  | node name ps =>
    obtain ⟨o', ts, σ', hp', _⟩ := matchP_node_some W name ps _ σ r h
    rw [hp] at hp'
    simp at hp'
theorem entry_block_ns_or (T : TablesOK) (W : World) (qs : List Pat) (fl : Bool) (es : List Tree)
    (σ : State) (r : Tree × State) (hn : es.length ≠ 1)
    (h : matchOr W qs (.block fl es) σ = some r) : OkL qs (blockKind fl) := by
  intro hu
  cases qs with
  | nil => simp [matchOr] at h
  | cons q qs =>
    simp only [matchOr] at h
    cases hm : matchP W q (.block fl es) σ with
    | some r' =>
      have := entry_block_ns T W q fl es σ r' hn hm hu
      simp [entryKindsL, this]
    | none =>
      rw [hm] at h
      simp only at h
      have := entry_block_ns_or T W qs fl es σ r hn h hu
      simp [entryKindsL, this]
end

/-- `strip t` is a node or a list (never a string or nil): what a statement / field / expression is -/
def nodeLike (t : Tree) : Bool :=
  match strip t with
  | .node _ _ _ => true
  | .list _ => true
  | _ => false

mutual
/-- if a pattern tells a one-element block from its element, the block's kind is among its
entry kinds -/
theorem entry_block_single (T : TablesOK) (W : World) (p : Pat) (fl : Bool) (y : Tree) (σ : State)
    (hy : nodeLike y = true)
    (h : matchP W p (.block fl [y]) σ ≠ matchP W p y σ) : Ok p (blockKind fl) := by
  intro hu
  cases p with
  | any => simpa [entryKinds] using T.univ_any _ hu
  | nilp => simpa [entryKinds] using T.univ_all _ hu
  | str s =>
    exfalso
    apply h
    unfold nodeLike at hy
    cases hs : strip y with
    | node k o fs => simp [matchP, hs]
    | list es => simp [matchP, hs]
    | paren k x => rw [hs] at hy; simp at hy
    | block fl' es => rw [hs] at hy; simp at hy
    | str s' => rw [hs] at hy; simp at hy
    | nil => rw [hs] at hy; simp at hy
  | bindAny n => simpa [entryKinds] using T.univ_all _ hu
  | bind n q =>
    by_cases heq : matchP W q (.block fl [y]) σ = matchP W q y σ
    · exfalso; apply h; simp [matchP, heq]
    · have := entry_block_single T W q fl y σ hy heq hu
      simpa [entryKinds] using this
  | or qs =>
    have h' : matchOr W qs (.block fl [y]) σ ≠ matchOr W qs y σ := by simpa [matchP] using h
    have := entry_block_single_or T W qs fl y σ hy h' hu
    simpa [entryKinds] using this
  | not q => simpa [entryKinds] using T.univ_all _ hu
  | lnil => simpa [entryKinds] using blockKind_list T fl
  | lcons a b => simpa [entryKinds] using blockKind_list T fl
  | symbol nm => exfalso; apply h; simp [matchP]
  | builtin nm => exfalso; apply h; simp [matchP]
  | object nm => exfalso; apply h; simp [matchP]
  | intLit v => exfalso; apply h; simp [matchP]
  | tce v => simpa [entryKinds] using T.univ_tce _ hu
  | node name ps => exfalso; apply h; simp [matchP]
theorem entry_block_single_or (T : TablesOK) (W : World) (qs : List Pat) (fl : Bool) (y : Tree)
    (σ : State) (hy : nodeLike y = true)
    (h : matchOr W qs (.block fl [y]) σ ≠ matchOr W qs y σ) : OkL qs (blockKind fl) := by
  intro hu
  cases qs with
  | nil => simp [matchOr] at h
  | cons q qs =>
    by_cases h1 : matchP W q (.block fl [y]) σ = matchP W q y σ
    · by_cases h2 : matchOr W qs (.block fl [y]) σ = matchOr W qs y σ
      · exfalso; apply h; simp [matchOr, h1, h2]
      · have := entry_block_single_or T W qs fl y σ hy h2 hu
        simp [entryKindsL, this]
    · have := entry_block_single T W q fl y σ hy h1 hu
      simp [entryKindsL, this]
end

/-! ## well-formedness along the wrapper chain -/

def isNode : Tree → Bool
  | .node _ _ _ => true
  | .paren _ _ => true
  | .block _ _ => true
  | _ => false

/-- what go/ast guarantees about the wrappers the matcher looks through: a ParenExpr/ExprStmt/…
wraps a node, the element of a one-element BlockStmt/FieldList is a node, and no plain node has
the kind of a BlockStmt/FieldList -/
def WFc : Tree → Prop
  | .node k _ _ => k ≠ "BlockStmt" ∧ k ≠ "FieldList"
  | .paren _ x => isNode x = true ∧ WFc x
  | .block _ es =>
    match es with
    | [y] => isNode y = true ∧ WFc y
    | _ => True
  | _ => True

theorem nodeLike_of_isNode : ∀ t : Tree, isNode t = true → WFc t → nodeLike t = true
  | .node k o fs, _, _ => by simp [nodeLike]
  | .paren k x, _, hw => by
    simp only [WFc] at hw
    have := nodeLike_of_isNode x hw.1 hw.2
    simpa [nodeLike] using this
  | .block fl es, _, _ => by simp [nodeLike]
  | .list es, h, _ => by simp [isNode] at h
  | .str s, h, _ => by simp [isNode] at h
  | .nil, h, _ => by simp [isNode] at h

/-- entry_complete, by recursion along the wrapper chain -/
theorem entry_complete_aux (T : TablesOK) (W : World) (p : Pat) (hr : rootOk p = true) (σ : State) :
    ∀ t : Tree, WFc t → ∀ r, matchP W p t σ = some r → Ok p (kindOf (norm W p σ t))
  | .node k o fs, hw, r, h => by
    rw [norm_node]
    exact entry_node T W p k o fs σ r hw hr h
  | .paren k x, hw, r, h => by
    rw [norm_paren]
    rw [match_paren] at h
    exact entry_complete_aux T W p hr σ x hw.2 r h
  | .block fl [], _, r, h => by
    rw [norm_block_not_single _ _ _ _ _ (by simp)]
    exact entry_block_ns T W p fl [] σ r (by simp) h
  | .block fl (a :: b :: es), _, r, h => by
    rw [norm_block_not_single _ _ _ _ _ (by simp)]
    exact entry_block_ns T W p fl _ σ r (by simp) h
  | .block fl [y], hw, r, h => by
    simp only [WFc] at hw
    by_cases heq : matchP W p y σ = matchP W p (.block fl [y]) σ
    · rw [norm_block_single_eq _ _ _ _ _ heq]
      rw [← heq] at h
      exact entry_complete_aux T W p hr σ y hw.2 r h
    · rw [norm_block_single_ne _ _ _ _ _ heq]
      exact entry_block_single T W p fl y σ (nodeLike_of_isNode y hw.1 hw.2) (fun e => heq e.symm)
  | .list es, _, r, h => by
    intro hu
    rw [norm_list] at hu
    exact absurd hu T.no_empty
  | .str s, _, r, h => by
    intro hu
    rw [norm_str] at hu
    exact absurd hu T.no_empty
  | .nil, _, r, h => by
    intro hu
    rw [norm_nil] at hu
    exact absurd hu T.no_empty

/-! ## more inversion lemmas -/

theorem matchP_bind_some (W : World) (n : String) (q : Pat) (t : Tree) (σ : State) (r : Tree × State)
    (h : matchP W (.bind n q) t σ = some r) : ∃ r', matchP W q t σ = some r' := by
  simp only [matchP] at h
  cases hl : List.lookup n σ with
  | some v => rw [hl] at h; simp at h
  | none =>
    rw [hl] at h
    simp only at h
    cases hm : matchP W q t σ with
    | none => rw [hm] at h; simp at h
    | some r' => exact ⟨r', rfl⟩

theorem matchP_lcons_some (W : World) (a b : Pat) (t : Tree) (σ : State) (r : Tree × State)
    (ha : isNilp a = false) (h : matchP W (.lcons a b) t σ = some r) :
    ∃ x xs r1 r2, strip t = .list (x :: xs) ∧ matchP W a x σ = some r1 ∧
      matchP W b (.list xs) r1.2 = some r2 := by
  simp only [matchP, ha] at h
  cases hs : strip t with
  | list es =>
    rw [hs] at h
    simp only at h
    match es, h with
    | [], h => simp at h
    | x :: xs, h =>
      simp only [Bool.false_eq_true, if_false] at h
      cases h1 : matchP W a x σ with
      | none => rw [h1] at h; simp at h
      | some r1 =>
        rw [h1] at h
        simp only at h
        cases h2 : matchP W b (.list xs) r1.2 with
        | none => rw [h2] at h; simp at h
        | some r2 => exact ⟨x, xs, r1, r2, rfl, h1, h2⟩
  | node k o fs => rw [hs] at h; simp at h
  | paren k x => rw [hs] at h; simp at h
  | block fl es => rw [hs] at h; simp at h
  | str s => rw [hs] at h; simp at h
  | nil => rw [hs] at h; simp at h

theorem matchP_builtin_some (W : World) (nm : Pat) (t : Tree) (σ : State) (r : Tree × State)
    (h : matchP W (.builtin nm) t σ = some r) :
    ∃ o name r', peel t = .node "Ident" o [name] ∧ matchP W nm name σ = some r' := by
  simp only [matchP] at h
  cases hp : peel t with
  | node k o fs =>
    rw [hp] at h
    match fs, h with
    | [name], h =>
      simp only at h
      by_cases hk : k = "Ident"
      · rw [if_pos hk] at h
        cases hm : matchP W nm name σ with
        | none => rw [hm] at h; simp at h
        | some r' => exact ⟨o, name, r', by rw [hk], hm⟩
      · rw [if_neg hk] at h; simp at h
    | [], h => simp at h
    | _ :: _ :: _, h => simp at h
  | paren k x => rw [hp] at h; simp at h
  | block fl es => rw [hp] at h; simp at h
  | list es => rw [hp] at h; simp at h
  | str s => rw [hp] at h; simp at h
  | nil => rw [hp] at h; simp at h

theorem matchP_object_some (W : World) (nm : Pat) (t : Tree) (σ : State) (r : Tree × State)
    (h : matchP W (.object nm) t σ = some r) :
    ∃ o name r', peel t = .node "Ident" o [name] ∧ matchP W nm name σ = some r' := by
  simp only [matchP] at h
  cases hp : peel t with
  | node k o fs =>
    rw [hp] at h
    match fs, h with
    | [name], h =>
      simp only at h
      by_cases hk : k = "Ident"
      · rw [if_pos hk] at h
        cases hm : matchP W nm name σ with
        | none => rw [hm] at h; simp at h
        | some r' => exact ⟨o, name, r', by rw [hk], hm⟩
      · rw [if_neg hk] at h; simp at h
    | [], h => simp at h
    | _ :: _ :: _, h => simp at h
  | paren k x => rw [hp] at h; simp at h
  | block fl es => rw [hp] at h; simp at h
  | list es => rw [hp] at h; simp at h
  | str s => rw [hp] at h; simp at h
  | nil => rw [hp] at h; simp at h

theorem matchP_intLit_some (W : World) (v : Pat) (t : Tree) (σ : State) (r : Tree × State)
    (h : matchP W (.intLit v) t σ = some r) : ∃ c r', matchP W v (.str c) σ = some r' := by
  simp only [matchP] at h
  cases hp : peel t with
  | node k o fs =>
    rw [hp] at h
    simp only at h
    by_cases hk : k = "BasicLit" ∨ k = "UnaryExpr"
    · rw [if_pos hk] at h
      cases hc : W.constVal (.node k o fs) with
      | none => rw [hc] at h; simp at h
      | some c =>
        rw [hc] at h
        simp only at h
        cases hm : matchP W v (.str c) σ with
        | none => rw [hm] at h; simp at h
        | some r' => exact ⟨c, r', hm⟩
    · rw [if_neg hk] at h; simp at h
  | paren k x => rw [hp] at h; simp at h
  | block fl es => rw [hp] at h; simp at h
  | list es => rw [hp] at h; simp at h
  | str s => rw [hp] at h; simp at h
  | nil => rw [hp] at h; simp at h

theorem matchP_tce_some (W : World) (v : Pat) (t : Tree) (σ : State) (r : Tree × State)
    (h : matchP W (.tce v) t σ = some r) : ∃ c r', matchP W v (.str c) σ = some r' := by
  simp only [matchP] at h
  cases hp : strip t with
  | node k o fs =>
    rw [hp] at h
    simp only at h
    cases hc : W.constVal (.node k o fs) with
    | none => rw [hc] at h; simp at h
    | some c =>
      rw [hc] at h
      simp only at h
      cases hm : matchP W v (.str c) σ with
      | none => rw [hm] at h; simp at h
      | some r' => exact ⟨c, r', hm⟩
  | paren k x => rw [hp] at h; simp at h
  | block fl es => rw [hp] at h; simp at h
  | list es => rw [hp] at h; simp at h
  | str s => rw [hp] at h; simp at h
  | nil => rw [hp] at h; simp at h

/-! ## evaluation of symbol formulas -/

theorem evalAny_of_mem (idx : IndexSymbol → Bool) : ∀ (l : List SymPat) (c : SymPat),
    c ∈ l → evalSym idx c = true → evalAny idx l = true
  | [], _, h, _ => by simp at h
  | x :: xs, c, h, hc => by
    simp only [evalAny, Bool.or_eq_true]
    rcases List.mem_cons.mp h with h | h
    · left; rw [← h]; exact hc
    · right; exact evalAny_of_mem idx xs c h hc

theorem evalAny_exists (idx : IndexSymbol → Bool) : ∀ (l : List SymPat),
    evalAny idx l = true → ∃ c ∈ l, evalSym idx c = true
  | [], h => by simp [evalAny] at h
  | x :: xs, h => by
    simp only [evalAny, Bool.or_eq_true] at h
    rcases h with h | h
    · exact ⟨x, by simp, h⟩
    · obtain ⟨c, hc, he⟩ := evalAny_exists idx xs h
      exact ⟨c, by simp [hc], he⟩

theorem evalAll_of_forall (idx : IndexSymbol → Bool) : ∀ (l : List SymPat),
    (∀ c ∈ l, evalSym idx c = true) → evalAll idx l = true
  | [], _ => by simp [evalAll]
  | x :: xs, h => by
    simp only [evalAll, Bool.and_eq_true]
    exact ⟨h x (by simp), evalAll_of_forall idx xs (fun c hc => h c (by simp [hc]))⟩

theorem evalAll_forall (idx : IndexSymbol → Bool) : ∀ (l : List SymPat),
    evalAll idx l = true → ∀ c ∈ l, evalSym idx c = true
  | [], _ => by simp
  | x :: xs, h => by
    simp only [evalAll, Bool.and_eq_true] at h
    intro c hc
    rcases List.mem_cons.mp hc with hc | hc
    · rw [hc]; exact h.1
    · exact evalAll_forall idx xs h.2 c hc

/-- the `Or` case of collectSymbols keeps a satisfied alternative satisfied -/
theorem orComb (idx : IndexSymbol → Bool) : ∀ (cs acc : List SymPat),
    ((∃ c ∈ acc, evalSym idx c = true) ∨ (∃ c ∈ cs, evalSym idx c = true)) →
    evalSym idx (orFinish (orFold acc cs)) = true
  | [], acc, h => by
    have hw : ∃ c ∈ acc, evalSym idx c = true := by
      rcases h with h | h
      · exact h
      · obtain ⟨c, hc, _⟩ := h; simp at hc
    obtain ⟨c, hc, he⟩ := hw
    match acc, hc with
    | [x], hc =>
      simp only [orFold, orFinish]
      simp at hc
      rw [← hc]; exact he
    | x :: y :: l, hc =>
      simp only [orFold, orFinish, evalSym]
      exact evalAny_of_mem idx _ c hc he
  | c :: cs, acc, h => by
    cases c with
    | any => simp [orFold, orFinish, evalSym]
    | none =>
      simp only [orFold]
      apply orComb idx cs acc
      rcases h with h | h
      · left; exact h
      · obtain ⟨c', hc', he'⟩ := h
        rcases List.mem_cons.mp hc' with hc' | hc'
        · rw [hc'] at he'; simp [evalSym] at he'
        · right; exact ⟨c', hc', he'⟩
    | or l =>
      simp only [orFold]
      apply orComb idx cs (acc ++ l)
      rcases h with h | h
      · obtain ⟨c', hc', he'⟩ := h
        left; exact ⟨c', by simp [hc'], he'⟩
      · obtain ⟨c', hc', he'⟩ := h
        rcases List.mem_cons.mp hc' with hc' | hc'
        · rw [hc'] at he'
          simp only [evalSym] at he'
          obtain ⟨d, hd, hde⟩ := evalAny_exists idx l he'
          left; exact ⟨d, by simp [hd], hde⟩
        · right; exact ⟨c', hc', he'⟩
    | sym s =>
      simp only [orFold]
      apply orComb idx cs (acc ++ [SymPat.sym s])
      rcases h with h | h
      · obtain ⟨c', hc', he'⟩ := h
        left; exact ⟨c', by simp [hc'], he'⟩
      · obtain ⟨c', hc', he'⟩ := h
        rcases List.mem_cons.mp hc' with hc' | hc'
        · left; exact ⟨c', by simp [hc'], he'⟩
        · right; exact ⟨c', hc', he'⟩
    | and l =>
      simp only [orFold]
      apply orComb idx cs (acc ++ [SymPat.and l])
      rcases h with h | h
      · obtain ⟨c', hc', he'⟩ := h
        left; exact ⟨c', by simp [hc'], he'⟩
      · obtain ⟨c', hc', he'⟩ := h
        rcases List.mem_cons.mp hc' with hc' | hc'
        · left; exact ⟨c', by simp [hc'], he'⟩
        · right; exact ⟨c', hc', he'⟩

theorem andAdd_all (idx : IndexSymbol → Bool) (acc : List SymPat) (c : SymPat)
    (ha : ∀ x ∈ acc, evalSym idx x = true) (hc : evalSym idx c = true) :
    ∀ x ∈ andAdd acc c, evalSym idx x = true := by
  intro x hx
  cases c with
  | any => exact ha x (by simpa [andAdd] using hx)
  | none => exact ha x (by simpa [andAdd] using hx)
  | and l =>
    simp only [andAdd, List.mem_append] at hx
    rcases hx with hx | hx
    · exact ha x hx
    · simp only [evalSym] at hc
      exact evalAll_forall idx l hc x hx
  | sym s =>
    simp only [andAdd, List.mem_append, List.mem_singleton] at hx
    rcases hx with hx | hx
    · exact ha x hx
    · rw [hx]; exact hc
  | or l =>
    simp only [andAdd, List.mem_append, List.mem_singleton] at hx
    rcases hx with hx | hx
    · exact ha x hx
    · rw [hx]; exact hc

/-- the `And` of the children's formulas is satisfied if every child's formula is -/
theorem andComb (idx : IndexSymbol → Bool) : ∀ (cs acc : List SymPat),
    (∀ x ∈ acc, evalSym idx x = true) → (∀ c ∈ cs, evalSym idx c = true) →
    evalSym idx (andFinish (cs.foldl andAdd acc)) = true
  | [], acc, ha, _ => by
    simp only [List.foldl]
    match acc, ha with
    | [], _ => simp [andFinish, evalSym]
    | [x], ha => simpa [andFinish] using ha x (by simp)
    | x :: y :: l, ha =>
      simp only [andFinish, evalSym]
      exact evalAll_of_forall idx _ ha
  | c :: cs, acc, ha, hc => by
    simp only [List.foldl]
    apply andComb idx cs (andAdd acc c)
    · exact andAdd_all idx acc c ha (hc c (by simp))
    · intro c' hc'; exact hc c' (by simp [hc'])

/-! ## symbols: a successful match references a satisfying set of the pattern's symbols -/

/-- the index resolves the symbol -/
def idxOf (W : World) : IndexSymbol → Bool := fun s => (W.lookup s).isSome

/-- Where "the symbols named by the pattern are not declared in the analysed package" enters:
every name under which Symbol.Match knows an object the package refers to is resolved by the
package's type index, unless it is a universe-scope name (no package path).  The index holds
the packages the analysed package imports or reaches through fields/methods, never the
analysed package itself; alias chains that end in a package the analysed package does not
import violate this (known finding alias-cross-package). -/
def Visible (W : World) : Prop :=
  ∀ o n, n ∈ W.names o → (symbolToIndexSymbol n).path ≠ "" →
    (W.lookup (symbolToIndexSymbol n)).isSome = true

/-- a name is "good" if CouldMatchAny accepts its IndexSymbol -/
def goodName (W : World) (n : String) : Prop :=
  evalSym (idxOf W) (.sym (symbolToIndexSymbol n)) = true

theorem goodName_of_visible (W : World) (hv : Visible W) (o : Nat) (n : String)
    (hn : n ∈ W.names o) : goodName W n := by
  unfold goodName
  simp only [evalSym]
  by_cases hp : (symbolToIndexSymbol n).path = ""
  · simp [hp]
  · simp only [hp, if_false]
    exact hv o n hn hp

mutual
theorem sym_complete (W : World) (hv : Visible W) (p : Pat) (t : Tree) (σ : State) (r : Tree × State)
    (h : matchP W p t σ = some r) :
    evalSym (idxOf W) (collectSymbols p false) = true := by
  cases p with
  | any => simp [collectSymbols, evalSym]
  | nilp => simp [collectSymbols, evalSym]
  | str s => simp [collectSymbols, evalSym]
  | bindAny n => simp [collectSymbols, evalSym]
  | not q => simp [collectSymbols, evalSym]
  | lnil => simp [collectSymbols, evalSym]
  | bind n q =>
    obtain ⟨r', hm⟩ := matchP_bind_some W n q t σ r h
    simpa [collectSymbols] using sym_complete W hv q t σ r' hm
  | or qs =>
    simp only [matchP] at h
    obtain ⟨c, hc, he⟩ := sym_complete_or W hv qs t σ r h
    simp only [collectSymbols]
    exact orComb _ _ [] (Or.inr ⟨c, hc, he⟩)
  | lcons a b =>
    cases hna : isNilp a with
    | true => simp [collectSymbols, hna, evalSym]
    | false =>
    obtain ⟨x, xs, r1, r2, _, h1, h2⟩ := matchP_lcons_some W a b t σ r hna h
    have ea := sym_complete W hv a x σ r1 h1
    have eb := sym_complete W hv b (.list xs) r1.2 r2 h2
    simp only [collectSymbols, hna]
    have := andComb (idxOf W) [collectSymbols a false, collectSymbols b false] [] (by simp)
      (by intro c hc; simp at hc; rcases hc with hc | hc <;> rw [hc] <;> assumption)
    simpa [List.foldl] using this
  | symbol nm =>
    obtain ⟨o, _, n, hn, r', hm⟩ := matchP_symbol_some W nm t σ r h
    simpa [collectSymbols] using
      sym_complete_name W hv nm n σ r' (goodName_of_visible W hv o n hn) hm
  | builtin nm =>
    obtain ⟨o, name, r', _, hm⟩ := matchP_builtin_some W nm t σ r h
    have e := sym_complete W hv nm name σ r' hm
    have := andComb (idxOf W) [collectSymbols nm false] [] (by simp) (by simpa using e)
    simpa [collectSymbols, List.foldl] using this
  | object nm =>
    obtain ⟨o, name, r', _, hm⟩ := matchP_object_some W nm t σ r h
    have e := sym_complete W hv nm name σ r' hm
    have := andComb (idxOf W) [collectSymbols nm false] [] (by simp) (by simpa using e)
    simpa [collectSymbols, List.foldl] using this
  | intLit v =>
    obtain ⟨c, r', hm⟩ := matchP_intLit_some W v t σ r h
    have e := sym_complete W hv v (.str c) σ r' hm
    have := andComb (idxOf W) [collectSymbols v false] [] (by simp) (by simpa using e)
    simpa [collectSymbols, List.foldl] using this
  | tce v =>
    obtain ⟨c, r', hm⟩ := matchP_tce_some W v t σ r h
    have e := sym_complete W hv v (.str c) σ r' hm
    have := andComb (idxOf W) [collectSymbols v false] [] (by simp) (by simpa using e)
    simpa [collectSymbols, List.foldl] using this
  | node name fs =>
    obtain ⟨o, ts, σ', _, hm⟩ := matchP_node_some W name fs t σ r h
    have e := sym_complete_fields W hv fs ts σ σ' hm
    simp only [collectSymbols]
    exact andComb (idxOf W) _ [] (by simp) e
/-- the name position of a Symbol: the pattern is matched against the object's name -/
theorem sym_complete_name (W : World) (hv : Visible W) (q : Pat) (n : String) (σ : State)
    (r : Tree × State) (hg : goodName W n) (h : matchP W q (.str n) σ = some r) :
    evalSym (idxOf W) (collectSymbols q true) = true := by
  cases q with
  | any => simp [collectSymbols, evalSym]
  | nilp => simp [collectSymbols, evalSym]
  | str s =>
    simp only [matchP, strip_str] at h
    by_cases hsn : s = n
    · subst hsn; unfold goodName at hg; simpa [collectSymbols] using hg
    · simp [hsn] at h
  | bindAny m => simp [collectSymbols, evalSym]
  | not q => simp [collectSymbols, evalSym]
  | lnil => simp [collectSymbols, evalSym]
  | bind m q =>
    obtain ⟨r', hm⟩ := matchP_bind_some W m q _ σ r h
    simpa [collectSymbols] using sym_complete_name W hv q n σ r' hg hm
  | or qs =>
    simp only [matchP] at h
    obtain ⟨c, hc, he⟩ := sym_complete_name_or W hv qs n σ r hg h
    simp only [collectSymbols]
    exact orComb _ _ [] (Or.inr ⟨c, hc, he⟩)
  | lcons a b => simp [matchP] at h
  | symbol nm =>
    obtain ⟨o, ho, _⟩ := matchP_symbol_some W nm _ σ r h
    simp [symObj] at ho
  | builtin nm => simp [matchP] at h
  | object nm => simp [matchP] at h
  | intLit v => simp [matchP] at h
  | tce v => simp [matchP] at h
  | node name fs =>
    obtain ⟨o, ts, σ', hp, _⟩ := matchP_node_some W name fs _ σ r h
    simp at hp
theorem sym_complete_or (W : World) (hv : Visible W) (qs : List Pat) (t : Tree) (σ : State)
    (r : Tree × State) (h : matchOr W qs t σ = some r) :
    ∃ c ∈ collectSymbolsL qs false, evalSym (idxOf W) c = true := by
  cases qs with
  | nil => simp [matchOr] at h
  | cons q qs =>
    simp only [matchOr] at h
    cases hm : matchP W q t σ with
    | some r' =>
      exact ⟨_, by simp [collectSymbolsL], sym_complete W hv q t σ r' hm⟩
    | none =>
      rw [hm] at h
      simp only at h
      obtain ⟨c, hc, he⟩ := sym_complete_or W hv qs t σ r h
      exact ⟨c, by simp [collectSymbolsL, hc], he⟩
theorem sym_complete_name_or (W : World) (hv : Visible W) (qs : List Pat) (n : String) (σ : State)
    (r : Tree × State) (hg : goodName W n) (h : matchOr W qs (.str n) σ = some r) :
    ∃ c ∈ collectSymbolsL qs true, evalSym (idxOf W) c = true := by
  cases qs with
  | nil => simp [matchOr] at h
  | cons q qs =>
    simp only [matchOr] at h
    cases hm : matchP W q (.str n) σ with
    | some r' =>
      exact ⟨_, by simp [collectSymbolsL], sym_complete_name W hv q n σ r' hg hm⟩
    | none =>
      rw [hm] at h
      simp only at h
      obtain ⟨c, hc, he⟩ := sym_complete_name_or W hv qs n σ r hg h
      exact ⟨c, by simp [collectSymbolsL, hc], he⟩
theorem sym_complete_fields (W : World) (hv : Visible W) (fs : List Pat) (ts : List Tree)
    (σ σ' : State) (h : matchFields W fs ts σ = some σ') :
    ∀ c ∈ collectSymbolsL fs false, evalSym (idxOf W) c = true := by
  cases fs with
  | nil => simp [collectSymbolsL]
  | cons p ps =>
    match ts, h with
    | [], h => simp [matchFields] at h
    | t :: ts, h =>
      simp only [matchFields] at h
      cases hm : matchP W p t σ with
      | none => rw [hm] at h; simp at h
      | some r' =>
        rw [hm] at h
        simp only at h
        have e1 := sym_complete W hv p t σ r' hm
        have e2 := sym_complete_fields W hv ps ts r'.2 σ' h
        intro c hc
        simp only [collectSymbolsL, List.mem_cons] at hc
        rcases hc with hc | hc
        · rw [hc]; exact e1
        · exact e2 c hc
end

/-! ## root call symbols -/

theorem strsOf_mem (W : World) : ∀ (ps : List Pat) (ns : List String), strsOf ps = some ns →
    ∀ n σ r, matchOr W ps (.str n) σ = some r → n ∈ ns
  | [], _, _, n, σ, r, h => by simp [matchOr] at h
  | .str s :: rest, ns, hs, n, σ, r, h => by
    simp only [strsOf] at hs
    cases hr : strsOf rest with
    | none => rw [hr] at hs; simp at hs
    | some ns' =>
      rw [hr] at hs
      simp at hs
      subst hs
      simp only [matchOr, matchP, strip_str] at h
      by_cases hsn : s = n
      · simp [hsn]
      · simp only [hsn, if_false] at h
        exact List.mem_cons_of_mem _ (strsOf_mem W rest ns' hr n σ r h)
  | .any :: _, _, hs, _, _, _, _ => by simp [strsOf] at hs
  | .nilp :: _, _, hs, _, _, _, _ => by simp [strsOf] at hs
  | .bindAny _ :: _, _, hs, _, _, _, _ => by simp [strsOf] at hs
  | .bind _ _ :: _, _, hs, _, _, _, _ => by simp [strsOf] at hs
  | .or _ :: _, _, hs, _, _, _, _ => by simp [strsOf] at hs
  | .not _ :: _, _, hs, _, _, _, _ => by simp [strsOf] at hs
  | .lnil :: _, _, hs, _, _, _, _ => by simp [strsOf] at hs
  | .lcons _ _ :: _, _, hs, _, _, _, _ => by simp [strsOf] at hs
  | .symbol _ :: _, _, hs, _, _, _, _ => by simp [strsOf] at hs
  | .builtin _ :: _, _, hs, _, _, _, _ => by simp [strsOf] at hs
  | .object _ :: _, _, hs, _, _, _, _ => by simp [strsOf] at hs
  | .intLit _ :: _, _, hs, _, _, _, _ => by simp [strsOf] at hs
  | .tce _ :: _, _, hs, _, _, _, _ => by simp [strsOf] at hs
  | .node _ _ :: _, _, hs, _, _, _, _ => by simp [strsOf] at hs

theorem symNames_mem (W : World) : ∀ (nm : Pat) (ns : List String), symNames nm = some ns →
    ∀ n σ r, matchP W nm (.str n) σ = some r → n ∈ ns
  | .str s, ns, hs, n, σ, r, h => by
    simp only [symNames] at hs
    simp at hs
    subst hs
    simp only [matchP, strip_str] at h
    by_cases hsn : s = n
    · simp [hsn]
    · simp [hsn] at h
  | .or ps, ns, hs, n, σ, r, h => by
    simp only [symNames] at hs
    simp only [matchP] at h
    exact strsOf_mem W ps ns hs n σ r h
  | .bind m q, ns, hs, n, σ, r, h => by
    simp only [symNames] at hs
    obtain ⟨r', hm⟩ := matchP_bind_some W m q _ σ r h
    exact symNames_mem W q ns hs n σ r' hm
  | .any, _, hs, _, _, _, _ => by simp [symNames] at hs
  | .nilp, _, hs, _, _, _, _ => by simp [symNames] at hs
  | .bindAny _, _, hs, _, _, _, _ => by simp [symNames] at hs
  | .not _, _, hs, _, _, _, _ => by simp [symNames] at hs
  | .lnil, _, hs, _, _, _, _ => by simp [symNames] at hs
  | .lcons _ _, _, hs, _, _, _, _ => by simp [symNames] at hs
  | .symbol _, _, hs, _, _, _, _ => by simp [symNames] at hs
  | .builtin _, _, hs, _, _, _, _ => by simp [symNames] at hs
  | .object _, _, hs, _, _, _, _ => by simp [symNames] at hs
  | .intLit _, _, hs, _, _, _, _ => by simp [symNames] at hs
  | .tce _, _, hs, _, _, _, _ => by simp [symNames] at hs
  | .node _ _, _, hs, _, _, _, _ => by simp [symNames] at hs

/-- what a match of a root-function pattern against `t` tells: `t` is (a parenthesised /
instantiated) identifier or selector of an object one of whose names is listed -/
def FunHit (W : World) (t : Tree) (ns : List String) : Prop :=
  ∃ ob n, symObj (peel t) = some ob ∧ n ∈ W.names ob ∧ n ∈ ns

theorem rootOrNames_mem (W : World) : ∀ (ps : List Pat) (ns : List String), rootOrNames ps = some ns →
    ∀ t σ r, matchOr W ps t σ = some r → FunHit W t ns
  | [], _, _, t, σ, r, h => by simp [matchOr] at h
  | .symbol nm :: rest, ns, hs, t, σ, r, h => by
    simp only [rootOrNames] at hs
    cases ha : symNames nm with
    | none => rw [ha] at hs; simp at hs
    | some a =>
      cases hb : rootOrNames rest with
      | none => rw [ha, hb] at hs; simp at hs
      | some b =>
        rw [ha, hb] at hs
        simp at hs
        subst hs
        simp only [matchOr] at h
        cases hm : matchP W (.symbol nm) t σ with
        | some r' =>
          obtain ⟨ob, hob, n, hn, r'', hmn⟩ := matchP_symbol_some W nm t σ r' hm
          exact ⟨ob, n, hob, hn, List.mem_append_left _ (symNames_mem W nm a ha n σ r'' hmn)⟩
        | none =>
          rw [hm] at h
          simp only at h
          obtain ⟨ob, n, hob, hn, hmem⟩ := rootOrNames_mem W rest b hb t σ r h
          exact ⟨ob, n, hob, hn, List.mem_append_right _ hmem⟩
  | .any :: _, _, hs, _, _, _, _ => by simp [rootOrNames] at hs
  | .nilp :: _, _, hs, _, _, _, _ => by simp [rootOrNames] at hs
  | .str _ :: _, _, hs, _, _, _, _ => by simp [rootOrNames] at hs
  | .bindAny _ :: _, _, hs, _, _, _, _ => by simp [rootOrNames] at hs
  | .bind _ _ :: _, _, hs, _, _, _, _ => by simp [rootOrNames] at hs
  | .or _ :: _, _, hs, _, _, _, _ => by simp [rootOrNames] at hs
  | .not _ :: _, _, hs, _, _, _, _ => by simp [rootOrNames] at hs
  | .lnil :: _, _, hs, _, _, _, _ => by simp [rootOrNames] at hs
  | .lcons _ _ :: _, _, hs, _, _, _, _ => by simp [rootOrNames] at hs
  | .builtin _ :: _, _, hs, _, _, _, _ => by simp [rootOrNames] at hs
  | .object _ :: _, _, hs, _, _, _, _ => by simp [rootOrNames] at hs
  | .intLit _ :: _, _, hs, _, _, _, _ => by simp [rootOrNames] at hs
  | .tce _ :: _, _, hs, _, _, _, _ => by simp [rootOrNames] at hs
  | .node _ _ :: _, _, hs, _, _, _, _ => by simp [rootOrNames] at hs

theorem rootFunNames_mem (W : World) : ∀ (f : Pat) (ns : List String), rootFunNames f = some ns →
    ∀ t σ r, matchP W f t σ = some r → FunHit W t ns
  | .bind m q, ns, hs, t, σ, r, h => by
    simp only [rootFunNames] at hs
    obtain ⟨r', hm⟩ := matchP_bind_some W m q t σ r h
    exact rootFunNames_mem W q ns hs t σ r' hm
  | .symbol nm, ns, hs, t, σ, r, h => by
    simp only [rootFunNames] at hs
    obtain ⟨ob, hob, n, hn, r', hmn⟩ := matchP_symbol_some W nm t σ r h
    exact ⟨ob, n, hob, hn, symNames_mem W nm ns hs n σ r' hmn⟩
  | .or ps, ns, hs, t, σ, r, h => by
    simp only [rootFunNames] at hs
    simp only [matchP] at h
    exact rootOrNames_mem W ps ns hs t σ r h
  | .any, _, hs, _, _, _, _ => by simp [rootFunNames] at hs
  | .nilp, _, hs, _, _, _, _ => by simp [rootFunNames] at hs
  | .str _, _, hs, _, _, _, _ => by simp [rootFunNames] at hs
  | .bindAny _, _, hs, _, _, _, _ => by simp [rootFunNames] at hs
  | .not _, _, hs, _, _, _, _ => by simp [rootFunNames] at hs
  | .lnil, _, hs, _, _, _, _ => by simp [rootFunNames] at hs
  | .lcons _ _, _, hs, _, _, _, _ => by simp [rootFunNames] at hs
  | .builtin _, _, hs, _, _, _, _ => by simp [rootFunNames] at hs
  | .object _, _, hs, _, _, _, _ => by simp [rootFunNames] at hs
  | .intLit _, _, hs, _, _, _, _ => by simp [rootFunNames] at hs
  | .tce _, _, hs, _, _, _, _ => by simp [rootFunNames] at hs
  | .node _ _, _, hs, _, _, _, _ => by simp [rootFunNames] at hs

/-- a pattern with root call names is a CallExpr pattern with two operands -/
theorem rootCallNames_shape (p : Pat) (ns : List String) (h : rootCallNames p = some ns) :
    ∃ f a, p = .node "CallExpr" [f, a] ∧ rootFunNames f = some ns := by
  cases p with
  | node name fs =>
    match fs, h with
    | [f, a], h =>
      simp only [rootCallNames] at h
      by_cases hn : name = "CallExpr"
      · rw [if_pos hn] at h; exact ⟨f, a, by rw [hn], h⟩
      · rw [if_neg hn] at h; simp at h
    | [], h => simp [rootCallNames] at h
    | [_], h => simp [rootCallNames] at h
    | _ :: _ :: _ :: _, h => simp [rootCallNames] at h
  | any => simp [rootCallNames] at h
  | nilp => simp [rootCallNames] at h
  | str s => simp [rootCallNames] at h
  | bindAny n => simp [rootCallNames] at h
  | bind n q => simp [rootCallNames] at h
  | or qs => simp [rootCallNames] at h
  | not q => simp [rootCallNames] at h
  | lnil => simp [rootCallNames] at h
  | lcons a b => simp [rootCallNames] at h
  | symbol nm => simp [rootCallNames] at h
  | builtin nm => simp [rootCallNames] at h
  | object nm => simp [rootCallNames] at h
  | intLit v => simp [rootCallNames] at h
  | tce v => simp [rootCallNames] at h

theorem rootcalls_aux (W : World) (p : Pat) (ns : List String) (t : Tree) (σ : State)
    (r : Tree × State) (hn : rootCallNames p = some ns) (h : matchP W p t σ = some r) :
    ∃ o f a, peel t = .node "CallExpr" o [f, a] ∧ FunHit W f ns := by
  obtain ⟨pf, pa, hp, hf⟩ := rootCallNames_shape p ns hn
  subst hp
  obtain ⟨o, ts, σ', hpeel, hm⟩ := matchP_node_some W _ _ t σ r h
  match ts, hm with
  | [], hm => simp [matchFields] at hm
  | [_], hm =>
    simp only [matchFields] at hm
    split at hm
    · simp at hm
    · simp at hm
  | f :: a :: rest, hm =>
    simp only [matchFields] at hm
    cases hmf : matchP W pf f σ with
    | none => rw [hmf] at hm; simp at hm
    | some r1 =>
      rw [hmf] at hm
      simp only at hm
      cases hma : matchP W pa a r1.2 with
      | none => rw [hma] at hm; simp at hm
      | some r2 =>
        rw [hma] at hm
        simp only at hm
        match rest, hm with
        | [], _ => exact ⟨o, f, a, hpeel, rootFunNames_mem W pf ns hf f σ r1 hmf⟩
        | _ :: _, hm => simp [matchFields] at hm

/-- typeutil.Callee agrees with Symbol.Match on the callee of a call, for functions -/
theorem calleeObj_of_symObj (W : World) (o : Option Nat) (f a : Tree) (ob : Nat)
    (h : symObj (peel f) = some ob) (hty : W.isType ob = false) (hfn : W.isFunc ob = true) :
    calleeObj W (.node "CallExpr" o [f, a]) = some ob := by
  cases hp : peel f with
  | node k o' fs =>
    rw [hp] at h
    simp only [calleeObj, hp]
    simp only [symObj] at h
    by_cases h1 : k = "Ident" ∨ k = "SelectorExpr"
    · rw [if_pos h1] at h
      simp only [identObj, if_pos h1] at h
      simp [h1, h, hty]
    · rw [if_neg h1] at h
      by_cases h2 : k = "IndexExpr" ∨ k = "IndexListExpr"
      · rw [if_pos h2] at h
        match fs, h with
        | [x, _], h =>
          simp only at h
          simp [h1, h2, h, hfn]
        | [], h => simp at h
        | [_], h => simp at h
        | _ :: _ :: _ :: _, h => simp at h
      · rw [if_neg h2] at h; simp at h
  | paren k x => rw [hp] at h; simp [symObj] at h
  | block fl es => rw [hp] at h; simp [symObj] at h
  | list es => rw [hp] at h; simp [symObj] at h
  | str s => rw [hp] at h; simp [symObj] at h
  | nil => rw [hp] at h; simp [symObj] at h

/-! ## the nodes of a package -/

mutual
theorem subtrees_trans : ∀ (u t : Tree), t ∈ subtrees u → ∀ s, s ∈ subtrees t → s ∈ subtrees u
  | .node k o fs, t, ht, s, hs => by
    simp only [subtrees, List.mem_cons] at ht ⊢
    rcases ht with ht | ht
    · subst ht; simpa [subtrees] using hs
    · right; exact subtreesL_trans fs t ht s hs
  | .paren k x, t, ht, s, hs => by
    simp only [subtrees, List.mem_cons] at ht ⊢
    rcases ht with ht | ht
    · subst ht; simpa [subtrees] using hs
    · right; exact subtrees_trans x t ht s hs
  | .block fl es, t, ht, s, hs => by
    simp only [subtrees, List.mem_cons] at ht ⊢
    rcases ht with ht | ht
    · subst ht; simpa [subtrees] using hs
    · right; exact subtreesL_trans es t ht s hs
  | .list es, t, ht, s, hs => by
    simp only [subtrees] at ht ⊢
    exact subtreesL_trans es t ht s hs
  | .str _, t, ht, _, _ => by simp [subtrees] at ht
  | .nil, t, ht, _, _ => by simp [subtrees] at ht
theorem subtreesL_trans : ∀ (us : List Tree) (t : Tree), t ∈ subtreesL us → ∀ s, s ∈ subtrees t →
    s ∈ subtreesL us
  | [], t, ht, _, _ => by simp [subtreesL] at ht
  | u :: us, t, ht, s, hs => by
    simp only [subtreesL, List.mem_append] at ht ⊢
    rcases ht with ht | ht
    · left; exact subtrees_trans u t ht s hs
    · right; exact subtreesL_trans us t ht s hs
end

mutual
theorem isNode_of_mem : ∀ (u t : Tree), t ∈ subtrees u → isNode t = true
  | .node k o fs, t, ht => by
    simp only [subtrees, List.mem_cons] at ht
    rcases ht with ht | ht
    · subst ht; simp [isNode]
    · exact isNode_of_memL fs t ht
  | .paren k x, t, ht => by
    simp only [subtrees, List.mem_cons] at ht
    rcases ht with ht | ht
    · subst ht; simp [isNode]
    · exact isNode_of_mem x t ht
  | .block fl es, t, ht => by
    simp only [subtrees, List.mem_cons] at ht
    rcases ht with ht | ht
    · subst ht; simp [isNode]
    · exact isNode_of_memL es t ht
  | .list es, t, ht => by
    simp only [subtrees] at ht
    exact isNode_of_memL es t ht
  | .str _, t, ht => by simp [subtrees] at ht
  | .nil, t, ht => by simp [subtrees] at ht
theorem isNode_of_memL : ∀ (us : List Tree) (t : Tree), t ∈ subtreesL us → isNode t = true
  | [], t, ht => by simp [subtreesL] at ht
  | u :: us, t, ht => by
    simp only [subtreesL, List.mem_append] at ht
    rcases ht with ht | ht
    · exact isNode_of_mem u t ht
    · exact isNode_of_memL us t ht
end

theorem self_mem_subtrees : ∀ t : Tree, isNode t = true → t ∈ subtrees t
  | .node k o fs, _ => by simp [subtrees]
  | .paren k x, _ => by simp [subtrees]
  | .block fl es, _ => by simp [subtrees]
  | .list es, h => by simp [isNode] at h
  | .str s, h => by simp [isNode] at h
  | .nil, h => by simp [isNode] at h

/-- the normalised node is a node of the same file -/
theorem norm_mem (W : World) (p : Pat) (σ : State) :
    ∀ t : Tree, isNode t = true → WFc t → norm W p σ t ∈ subtrees t
  | .node k o fs, _, _ => by rw [norm_node]; simp [subtrees]
  | .paren k x, _, hw => by
    rw [norm_paren]
    simp only [subtrees, List.mem_cons]
    right
    exact norm_mem W p σ x hw.1 hw.2
  | .block fl [], _, _ => by rw [norm_block_not_single _ _ _ _ _ (by simp)]; simp [subtrees]
  | .block fl (a :: b :: es), _, _ => by
    rw [norm_block_not_single _ _ _ _ _ (by simp)]; simp [subtrees]
  | .block fl [y], _, hw => by
    simp only [WFc] at hw
    by_cases heq : matchP W p y σ = matchP W p (.block fl [y]) σ
    · rw [norm_block_single_eq _ _ _ _ _ heq]
      simp only [subtrees, subtreesL, List.mem_cons, List.append_nil]
      right
      exact norm_mem W p σ y hw.1 hw.2
    · rw [norm_block_single_ne _ _ _ _ _ heq]; simp [subtrees]
  | .list es, h, _ => by simp [isNode] at h
  | .str s, h, _ => by simp [isNode] at h
  | .nil, h, _ => by simp [isNode] at h

/-- the normalised node is a plain node, or a block the pattern tells from its only element -/
theorem norm_shape (W : World) (p : Pat) (σ : State) :
    ∀ t : Tree, isNode t = true → WFc t →
      (∃ k o fs, norm W p σ t = .node k o fs) ∨
      (∃ fl es, norm W p σ t = .block fl es ∧
        (es.length ≠ 1 ∨ ∃ y, es = [y] ∧ matchP W p y σ ≠ matchP W p (.block fl [y]) σ))
  | .node k o fs, _, _ => by left; exact ⟨k, o, fs, norm_node ..⟩
  | .paren k x, _, hw => by
    rw [norm_paren]
    exact norm_shape W p σ x hw.1 hw.2
  | .block fl [], _, _ => by
    right; exact ⟨fl, [], norm_block_not_single _ _ _ _ _ (by simp), Or.inl (by simp)⟩
  | .block fl (a :: b :: es), _, _ => by
    right; exact ⟨fl, _, norm_block_not_single _ _ _ _ _ (by simp), Or.inl (by simp)⟩
  | .block fl [y], _, hw => by
    simp only [WFc] at hw
    by_cases heq : matchP W p y σ = matchP W p (.block fl [y]) σ
    · rw [norm_block_single_eq _ _ _ _ _ heq]
      exact norm_shape W p σ y hw.1 hw.2
    · right; exact ⟨fl, [y], norm_block_single_ne _ _ _ _ _ heq, Or.inr ⟨y, rfl, heq⟩⟩
  | .list es, h, _ => by simp [isNode] at h
  | .str s, h, _ => by simp [isNode] at h
  | .nil, h, _ => by simp [isNode] at h

end Verif.C08
