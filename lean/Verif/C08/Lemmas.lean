/-
C08 — helper definitions and lemmas for the filter theorems.
-/
import Verif.C08.Model
namespace Verif.C08

/-! ## stripping -/

@[simp] theorem strip_paren (k x) : strip (.paren k x) = strip x := by simp [strip]
@[simp] theorem peel_paren (k x) : peel (.paren k x) = peel x := by simp [peel]
@[simp] theorem strip_block (fl es) : strip (.block fl es) = .list es := by simp [strip]
@[simp] theorem strip_node (k o fs) : strip (.node k o fs) = .node k o fs := by simp [strip]
@[simp] theorem strip_list (es) : strip (.list es) = .list es := by simp [strip]
@[simp] theorem strip_str (s) : strip (.str s) = .str s := by simp [strip]
@[simp] theorem strip_nil : strip .nil = .nil := by simp [strip]
@[simp] theorem peel_node (k o fs) : peel (.node k o fs) = .node k o fs := by simp [peel]
@[simp] theorem peel_str (s) : peel (.str s) = .str s := by simp [peel]
@[simp] theorem peel_nil : peel .nil = .nil := by simp [peel]
@[simp] theorem peel_block_single (fl y) : peel (.block fl [y]) = peel y := by simp [peel]
@[simp] theorem peel_list_single (y) : peel (.list [y]) = peel y := by simp [peel]

theorem peel_block_not_single (fl es) (h : es.length ≠ 1) : peel (.block fl es) = .list es := by
  match es, h with
  | [], _ => simp [peel]
  | _ :: _ :: _, _ => simp [peel]

mutual
/-- the matcher looks at its subject only through `strip` and `peel` -/
theorem matchP_congr (W : World) (p : Pat) (t1 t2 : Tree) (σ : State)
    (h1 : strip t1 = strip t2) (h2 : peel t1 = peel t2) : matchP W p t1 σ = matchP W p t2 σ := by
  cases p with
  | any => simp [matchP, h1]
  | nilp => simp [matchP, h1]
  | str s => simp [matchP, h1]
  | bindAny n => simp [matchP, h1]
  | bind n q => simp [matchP, matchP_congr W q t1 t2 σ h1 h2]
  | or qs => simp [matchP, matchOr_congr W qs t1 t2 σ h1 h2]
  | not q => simp [matchP, matchP_congr W q t1 t2 σ h1 h2, h1]
  | lnil => simp [matchP, h1]
  | lcons h tl => simp [matchP, h1]
  | symbol nm => simp [matchP, h2]
  | builtin nm => simp [matchP, h2]
  | object nm => simp [matchP, h2]
  | intLit v => simp [matchP, h2]
  | tce v => simp [matchP, h1]
  | node name fs => simp [matchP, h2]
theorem matchOr_congr (W : World) (qs : List Pat) (t1 t2 : Tree) (σ : State)
    (h1 : strip t1 = strip t2) (h2 : peel t1 = peel t2) : matchOr W qs t1 σ = matchOr W qs t2 σ := by
  cases qs with
  | nil => simp [matchOr]
  | cons q qs => simp [matchOr, matchP_congr W q t1 t2 σ h1 h2, matchOr_congr W qs t1 t2 σ h1 h2]
end

/-- match.go: `case *ast.ParenExpr: return match(m, l, r.X)` (same for ExprStmt, DeclStmt,
LabeledStmt): the match at the wrapper IS the match at the wrapped node. -/
theorem match_paren (W : World) (p : Pat) (k : Kind) (x : Tree) (σ : State) :
    matchP W p (.paren k x) σ = matchP W p x σ :=
  matchP_congr W p _ _ σ (by simp) (by simp)

/-! ## normalisation: the innermost node at which the matcher performs the very same match -/

open Classical in
/-- `paren` wrappers are always removed; a one-element BlockStmt/FieldList is replaced by its
element iff the pattern matches the element with the same result. -/
noncomputable def norm (W : World) (p : Pat) (σ : State) : Tree → Tree
  | .paren _ x => norm W p σ x
  | .block fl es =>
    match es with
    | [y] => if matchP W p y σ = matchP W p (.block fl [y]) σ then norm W p σ y else .block fl [y]
    | _ => .block fl es
  | t => t

theorem norm_paren (W p σ k x) : norm W p σ (.paren k x) = norm W p σ x := by simp [norm]
theorem norm_node (W p σ k o fs) : norm W p σ (.node k o fs) = .node k o fs := by simp [norm]
theorem norm_list (W p σ es) : norm W p σ (.list es) = .list es := by simp [norm]
theorem norm_str (W p σ s) : norm W p σ (.str s) = .str s := by simp [norm]
theorem norm_nil (W p σ) : norm W p σ .nil = .nil := by simp [norm]
theorem norm_block_single_eq (W p σ fl y) (h : matchP W p y σ = matchP W p (.block fl [y]) σ) :
    norm W p σ (.block fl [y]) = norm W p σ y := by simp [norm, h]
theorem norm_block_single_ne (W p σ fl y) (h : matchP W p y σ ≠ matchP W p (.block fl [y]) σ) :
    norm W p σ (.block fl [y]) = .block fl [y] := by simp [norm, h]
theorem norm_block_not_single (W p σ fl es) (h : es.length ≠ 1) :
    norm W p σ (.block fl es) = .block fl es := by
  match es, h with
  | [], _ => simp [norm]
  | _ :: _ :: _, _ => simp [norm]

/-- the match at the normalised node is the match at the node -/
theorem norm_match (W : World) (p : Pat) (σ : State) :
    ∀ t : Tree, matchP W p (norm W p σ t) σ = matchP W p t σ
  | .node k o fs => by rw [norm_node]
  | .list es => by rw [norm_list]
  | .str s => by rw [norm_str]
  | .nil => by rw [norm_nil]
  | .paren k x => by rw [norm_paren, norm_match W p σ x, match_paren]
  | .block fl [] => by rw [norm_block_not_single _ _ _ _ _ (by simp)]
  | .block fl (a :: b :: r) => by rw [norm_block_not_single _ _ _ _ _ (by simp)]
  | .block fl [y] => by
    by_cases h : matchP W p y σ = matchP W p (.block fl [y]) σ
    · rw [norm_block_single_eq _ _ _ _ _ h, norm_match W p σ y, h]
    · rw [norm_block_single_ne _ _ _ _ _ h]

theorem norm_idem (W : World) (p : Pat) (σ : State) :
    ∀ t : Tree, norm W p σ (norm W p σ t) = norm W p σ t
  | .node k o fs => by simp [norm_node]
  | .list es => by simp [norm_list]
  | .str s => by simp [norm_str]
  | .nil => by simp [norm_nil]
  | .paren k x => by rw [norm_paren, norm_idem W p σ x]
  | .block fl [] => by simp [norm_block_not_single]
  | .block fl (a :: b :: r) => by simp [norm_block_not_single]
  | .block fl [y] => by
    by_cases h : matchP W p y σ = matchP W p (.block fl [y]) σ
    · rw [norm_block_single_eq _ _ _ _ _ h, norm_idem W p σ y]
    · rw [norm_block_single_ne _ _ _ _ _ h, norm_block_single_ne _ _ _ _ _ h]

end Verif.C08
