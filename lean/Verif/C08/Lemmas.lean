/-
C08 — helper definitions and lemmas for the filter theorems.
-/
import Verif.C08.Model
namespace Verif.C08

/-! ## stripping -/

@[simp] theorem strip_paren (k x) : strip (.paren k x) = strip x := by simp [strip]
@[simp] theorem peel_paren (k x) : peel (.paren k x) = peel x := by simp [peel]
@[simp] theorem strip_block (fl es) : strip (.block fl es) = .list es := by simp [strip]
@[simp] theorem strip_node (k o fs) : strip (.node k o fs) = .node k o fs := by simp [strip]
@[simp] theorem strip_list (es) : strip (.list es) = .list es := by simp [strip]
@[simp] theorem strip_str (s) : strip (.str s) = .str s := by simp [strip]
@[simp] theorem strip_nil : strip .nil = .nil := by simp [strip]
@[simp] theorem peel_node (k o fs) : peel (.node k o fs) = .node k o fs := by simp [peel]
@[simp] theorem peel_str (s) : peel (.str s) = .str s := by simp [peel]
@[simp] theorem peel_nil : peel .nil = .nil := by simp [peel]
@[simp] theorem peel_block_single (fl y) : peel (.block fl [y]) = peel y := by simp [peel]
@[simp] theorem peel_list_single (y) : peel (.list [y]) = peel y := by simp [peel]

theorem peel_block_not_single (fl es) (h : es.length ≠ 1) : peel (.block fl es) = .list es := by
  match es, h with
  | [], _ => simp [peel]
  | _ :: _ :: _, _ => simp [peel]

mutual
/-- the matcher looks at its subject only through `strip` and `peel` -/
theorem matchP_congr (W : World) (p : Pat) (t1 t2 : Tree) (σ : State)
    (h1 : strip t1 = strip t2) (h2 : peel t1 = peel t2) : matchP W p t1 σ = matchP W p t2 σ := by
  cases p with
  | any => simp [matchP, h1]
  | nilp => simp [matchP, h1]
  | str s => simp [matchP, h1]
  | bindAny n => simp [matchP, h1]
  | bind n q => simp [matchP, matchP_congr W q t1 t2 σ h1 h2]
  | or qs => simp [matchP, matchOr_congr W qs t1 t2 σ h1 h2]
  | not q => simp [matchP, matchP_congr W q t1 t2 σ h1 h2, h1]
  | lnil => simp [matchP, h1]
  | lcons h tl => simp [matchP, h1]
  | symbol nm => simp [matchP, h2]
  | builtin nm => simp [matchP, h2]
  | object nm => simp [matchP, h2]
  | intLit v => simp [matchP, h2]
  | tce v => simp [matchP, h1]
  | node name fs => simp [matchP, h2]
theorem matchOr_congr (W : World) (qs : List Pat) (t1 t2 : Tree) (σ : State)
    (h1 : strip t1 = strip t2) (h2 : peel t1 = peel t2) : matchOr W qs t1 σ = matchOr W qs t2 σ := by
  cases qs with
  | nil => simp [matchOr]
  | cons q qs => simp [matchOr, matchP_congr W q t1 t2 σ h1 h2, matchOr_congr W qs t1 t2 σ h1 h2]
end

/-- match.go: `case *ast.ParenExpr: return match(m, l, r.X)` (same for ExprStmt, DeclStmt,
LabeledStmt): the match at the wrapper IS the match at the wrapped node. -/
theorem match_paren (W : World) (p : Pat) (k : Kind) (x : Tree) (σ : State) :
    matchP W p (.paren k x) σ = matchP W p x σ :=
  matchP_congr W p _ _ σ (by simp) (by simp)

/-! ## normalisation: the innermost node at which the matcher performs the very same match -/

open Classical in
/-- `paren` wrappers are always removed; a one-element BlockStmt/FieldList is replaced by its
element iff the pattern matches the element with the same result. -/
noncomputable def norm (W : World) (p : Pat) (σ : State) : Tree → Tree
  | .paren _ x => norm W p σ x
  | .block fl es =>
    match es with
    | [y] => if matchP W p y σ = matchP W p (.block fl [y]) σ then norm W p σ y else .block fl [y]
    | _ => .block fl es
  | t => t

theorem norm_paren (W p σ k x) : norm W p σ (.paren k x) = norm W p σ x := by simp [norm]
theorem norm_node (W p σ k o fs) : norm W p σ (.node k o fs) = .node k o fs := by simp [norm]
theorem norm_list (W p σ es) : norm W p σ (.list es) = .list es := by simp [norm]
theorem norm_str (W p σ s) : norm W p σ (.str s) = .str s := by simp [norm]
theorem norm_nil (W p σ) : norm W p σ .nil = .nil := by simp [norm]
theorem norm_block_single_eq (W p σ fl y) (h : matchP W p y σ = matchP W p (.block fl [y]) σ) :
    norm W p σ (.block fl [y]) = norm W p σ y := by simp [norm, h]
theorem norm_block_single_ne (W p σ fl y) (h : matchP W p y σ ≠ matchP W p (.block fl [y]) σ) :
    norm W p σ (.block fl [y]) = .block fl [y] := by simp [norm, h]
theorem norm_block_not_single (W p σ fl es) (h : es.length ≠ 1) :
    norm W p σ (.block fl es) = .block fl es := by
  match es, h with
  | [], _ => simp [norm]
  | _ :: _ :: _, _ => simp [norm]

/-- the match at the normalised node is the match at the node -/
theorem norm_match (W : World) (p : Pat) (σ : State) :
    ∀ t : Tree, matchP W p (norm W p σ t) σ = matchP W p t σ
  | .node k o fs => by rw [norm_node]
  | .list es => by rw [norm_list]
  | .str s => by rw [norm_str]
  | .nil => by rw [norm_nil]
  | .paren k x => by rw [norm_paren, norm_match W p σ x, match_paren]
  | .block fl [] => by rw [norm_block_not_single _ _ _ _ _ (by simp)]
  | .block fl (a :: b :: r) => by rw [norm_block_not_single _ _ _ _ _ (by simp)]
  | .block fl [y] => by
    by_cases h : matchP W p y σ = matchP W p (.block fl [y]) σ
    · rw [norm_block_single_eq _ _ _ _ _ h, norm_match W p σ y, h]
    · rw [norm_block_single_ne _ _ _ _ _ h]

theorem norm_idem (W : World) (p : Pat) (σ : State) :
    ∀ t : Tree, norm W p σ (norm W p σ t) = norm W p σ t
  | .node k o fs => by simp [norm_node]
  | .list es => by simp [norm_list]
  | .str s => by simp [norm_str]
  | .nil => by simp [norm_nil]
  | .paren k x => by rw [norm_paren, norm_idem W p σ x]
  | .block fl [] => by simp [norm_block_not_single]
  | .block fl (a :: b :: r) => by simp [norm_block_not_single]
  | .block fl [y] => by
    by_cases h : matchP W p y σ = matchP W p (.block fl [y]) σ
    · rw [norm_block_single_eq _ _ _ _ _ h, norm_idem W p σ y]
    · rw [norm_block_single_ne _ _ _ _ _ h, norm_block_single_ne _ _ _ _ _ h]

/-! ## inversion lemmas -/

theorem firstSome_some {α β : Type} (f : α → Option β) (l : List α) (b : β)
    (h : firstSome f l = some b) : ∃ a ∈ l, f a = some b := by
  induction l with
  | nil => simp [firstSome] at h
  | cons a as ih =>
    unfold firstSome at h
    cases hfa : f a with
    | some b' =>
      rw [hfa] at h
      simp at h
      exact ⟨a, by simp, by rw [hfa, h]⟩
    | none =>
      rw [hfa] at h
      simp at h
      obtain ⟨a', ha', hf⟩ := ih h
      exact ⟨a', by simp [ha'], hf⟩

theorem matchP_symbol_some (W : World) (nm : Pat) (t : Tree) (σ : State) (r : Tree × State)
    (h : matchP W (.symbol nm) t σ = some r) :
    ∃ o, symObj (peel t) = some o ∧ ∃ n ∈ W.names o, ∃ r', matchP W nm (.str n) σ = some r' := by
  simp only [matchP] at h
  cases ho : symObj (peel t) with
  | none => rw [ho] at h; simp at h
  | some o =>
    rw [ho] at h
    simp only at h
    cases hf : firstSome (fun n => matchP W nm (.str n) σ) (W.names o) with
    | none => rw [hf] at h; simp at h
    | some r' =>
      obtain ⟨n, hn, hm⟩ := firstSome_some _ _ _ hf
      exact ⟨o, rfl, n, hn, r', hm⟩

theorem symObj_kind (k o fs ob) (h : symObj (.node k o fs) = some ob) :
    k ∈ ["Ident", "SelectorExpr", "IndexExpr", "IndexListExpr"] := by
  simp only [symObj] at h
  by_cases h1 : k = "Ident" ∨ k = "SelectorExpr"
  · rcases h1 with h1 | h1 <;> simp [h1]
  · rw [if_neg h1] at h
    by_cases h2 : k = "IndexExpr" ∨ k = "IndexListExpr"
    · rcases h2 with h2 | h2 <;> simp [h2]
    · rw [if_neg h2] at h; simp at h

theorem matchP_node_some (W : World) (name : String) (fs : List Pat) (t : Tree) (σ : State)
    (r : Tree × State) (h : matchP W (.node name fs) t σ = some r) :
    ∃ o ts σ', peel t = .node name o ts ∧ matchFields W fs ts σ = some σ' := by
  simp only [matchP] at h
  cases hp : peel t with
  | node k o ts =>
    rw [hp] at h
    simp only at h
    by_cases hk : k = name
    · rw [if_pos hk] at h
      cases hm : matchFields W fs ts σ with
      | none => rw [hm] at h; simp at h
      | some σ' => exact ⟨o, ts, σ', by rw [hk], hm⟩
    · rw [if_neg hk] at h; simp at h
  | paren k x => rw [hp] at h; simp at h
  | block fl es => rw [hp] at h; simp at h
  | list es => rw [hp] at h; simp at h
  | str s => rw [hp] at h; simp at h
  | nil => rw [hp] at h; simp at h

/-! ## the node-kind tables (obligations on `Verif.C08.Generated`) -/

/-- What the filter theorems need from nodeToASTTypes / allTypes. Proved by `decide` over the
tables regenerated from the real parser (`tables_ok` in Theorems.lean). -/
structure TablesOK : Prop where
  univ_all : ∀ u ∈ Generated.universeKinds, u ∈ Generated.allKinds
  univ_not : ∀ u ∈ Generated.universeKinds, u ∈ Generated.notKinds
  univ_any : ∀ u ∈ Generated.universeKinds, u ∈ tableKinds "Any"
  univ_tce : ∀ u ∈ Generated.universeKinds, u ∈ tableKinds "TrulyConstantExpression"
  self : ∀ u ∈ Generated.universeKinds, u = "BlockStmt" ∨ u = "FieldList" ∨ u ∈ tableKinds u
  symbol : ∀ k ∈ ["Ident", "SelectorExpr", "IndexExpr", "IndexListExpr"], k ∈ tableKinds "Symbol"
  builtin : "Ident" ∈ tableKinds "Builtin"
  object : "Ident" ∈ tableKinds "Object"
  intlit : "BasicLit" ∈ tableKinds "IntegerLiteral" ∧ "UnaryExpr" ∈ tableKinds "IntegerLiteral"
  list : "BlockStmt" ∈ tableKinds "List" ∧ "FieldList" ∈ tableKinds "List"
  no_empty : "" ∉ Generated.universeKinds

/-- `k` is acceptable for `p`: if it is a kind of the universe, it is an entry kind of `p`. -/
def Ok (p : Pat) (k : Kind) : Prop := k ∈ Generated.universeKinds → k ∈ entryKinds p
def OkL (ps : List Pat) (k : Kind) : Prop := k ∈ Generated.universeKinds → k ∈ entryKindsL ps

theorem blockKind_list (T : TablesOK) (fl : Bool) : blockKind fl ∈ tableKinds "List" := by
  cases fl <;> simp [blockKind, T.list.1, T.list.2]

/-! ## entry kinds: a match at a plain node -/

mutual
theorem entry_node (T : TablesOK) (W : World) (p : Pat) (k : Kind) (o : Option Nat) (fs : List Tree)
    (σ : State) (r : Tree × State) (hk : k ≠ "BlockStmt" ∧ k ≠ "FieldList")
    (h : matchP W p (.node k o fs) σ = some r) : Ok p k := by
  intro hu
  cases p with
  | any => simpa [entryKinds] using T.univ_any k hu
  | nilp => simpa [entryKinds] using T.univ_all k hu
  | str s => simp [matchP] at h
  | bindAny n => simpa [entryKinds] using T.univ_all k hu
  | bind n q =>
    simp only [matchP] at h
    cases hl : List.lookup n σ with
    | some v => rw [hl] at h; simp at h
    | none =>
      rw [hl] at h
      simp only at h
      cases hm : matchP W q (.node k o fs) σ with
      | none => rw [hm] at h; simp at h
      | some r' =>
        have := entry_node T W q k o fs σ r' hk hm hu
        simpa [entryKinds] using this
  | or qs =>
    simp only [matchP] at h
    have := entry_node_or T W qs k o fs σ r hk h hu
    simpa [entryKinds] using this
  | not q => simpa [entryKinds] using T.univ_all k hu
  | lnil => simp [matchP] at h
  | lcons a b => simp [matchP] at h
  | symbol nm =>
    obtain ⟨ob, hob, _⟩ := matchP_symbol_some W nm _ σ r h
    rw [peel_node] at hob
    simpa [entryKinds] using T.symbol k (symObj_kind k o fs ob hob)
  | builtin nm =>
    simp only [matchP, peel_node] at h
    match fs, h with
    | [name], h =>
      by_cases hi : k = "Ident"
      · subst hi; simpa [entryKinds] using T.builtin
      · simp [hi] at h
    | [], h => simp at h
    | _ :: _ :: _, h => simp at h
  | object nm =>
    simp only [matchP, peel_node] at h
    match fs, h with
    | [name], h =>
      by_cases hi : k = "Ident"
      · subst hi; simpa [entryKinds] using T.object
      · simp [hi] at h
    | [], h => simp at h
    | _ :: _ :: _, h => simp at h
  | intLit v =>
    simp only [matchP, peel_node] at h
    by_cases hi : k = "BasicLit" ∨ k = "UnaryExpr"
    · rcases hi with hi | hi
      · subst hi; simpa [entryKinds] using T.intlit.1
      · subst hi; simpa [entryKinds] using T.intlit.2
    · rw [if_neg hi] at h; simp at h
  | tce v => simpa [entryKinds] using T.univ_tce k hu
  | node name ps =>
    obtain ⟨o', ts, σ', hp, _⟩ := matchP_node_some W name ps _ σ r h
    rw [peel_node] at hp
    injection hp with hkn _ _
    subst hkn
    rcases T.self k hu with h1 | h1 | h1
    · exact absurd h1 hk.1
    · exact absurd h1 hk.2
    · simpa [entryKinds] using h1
theorem entry_node_or (T : TablesOK) (W : World) (qs : List Pat) (k : Kind) (o : Option Nat)
    (fs : List Tree) (σ : State) (r : Tree × State) (hk : k ≠ "BlockStmt" ∧ k ≠ "FieldList")
    (h : matchOr W qs (.node k o fs) σ = some r) : OkL qs k := by
  intro hu
  cases qs with
  | nil => simp [matchOr] at h
  | cons q qs =>
    simp only [matchOr] at h
    cases hm : matchP W q (.node k o fs) σ with
    | some r' =>
      have := entry_node T W q k o fs σ r' hk hm hu
      simp [entryKindsL, this]
    | none =>
      rw [hm] at h
      simp only at h
      have := entry_node_or T W qs k o fs σ r hk h hu
      simp [entryKindsL, this]
end

/-! ## entry kinds: a match at a BlockStmt / FieldList -/

theorem symObj_list (es) : symObj (.list es) = none := by simp [symObj]

mutual
/-- a block that does not have exactly one element can only be matched by list-like patterns -/
theorem entry_block_ns (T : TablesOK) (W : World) (p : Pat) (fl : Bool) (es : List Tree)
    (σ : State) (r : Tree × State) (hn : es.length ≠ 1)
    (h : matchP W p (.block fl es) σ = some r) : Ok p (blockKind fl) := by
  intro hu
  have hp := peel_block_not_single fl es hn
  cases p with
  | any => simpa [entryKinds] using T.univ_any _ hu
  | nilp => simpa [entryKinds] using T.univ_all _ hu
  | str s => simp [matchP] at h
  | bindAny n => simpa [entryKinds] using T.univ_all _ hu
  | bind n q =>
    simp only [matchP] at h
    cases hl : List.lookup n σ with
    | some v => rw [hl] at h; simp at h
    | none =>
      rw [hl] at h
      simp only at h
      cases hm : matchP W q (.block fl es) σ with
      | none => rw [hm] at h; simp at h
      | some r' =>
        have := entry_block_ns T W q fl es σ r' hn hm hu
        simpa [entryKinds] using this
  | or qs =>
    simp only [matchP] at h
    have := entry_block_ns_or T W qs fl es σ r hn h hu
    simpa [entryKinds] using this
  | not q => simpa [entryKinds] using T.univ_all _ hu
  | lnil => simpa [entryKinds] using blockKind_list T fl
  | lcons a b => simpa [entryKinds] using blockKind_list T fl
  | symbol nm =>
    obtain ⟨ob, hob, _⟩ := matchP_symbol_some W nm _ σ r h
    rw [hp, symObj_list] at hob
    simp at hob
  | builtin nm => simp [matchP, hp] at h
  | object nm => simp [matchP, hp] at h
  | intLit v => simp [matchP, hp] at h
  | tce v => simpa [entryKinds] using T.univ_tce _ hu
  | node name ps =>
    obtain ⟨o', ts, σ', hp', _⟩ := matchP_node_some W name ps _ σ r h
    rw [hp] at hp'
    simp at hp'
theorem entry_block_ns_or (T : TablesOK) (W : World) (qs : List Pat) (fl : Bool) (es : List Tree)
    (σ : State) (r : Tree × State) (hn : es.length ≠ 1)
    (h : matchOr W qs (.block fl es) σ = some r) : OkL qs (blockKind fl) := by
  intro hu
  cases qs with
  | nil => simp [matchOr] at h
  | cons q qs =>
    simp only [matchOr] at h
    cases hm : matchP W q (.block fl es) σ with
    | some r' =>
      have := entry_block_ns T W q fl es σ r' hn hm hu
      simp [entryKindsL, this]
    | none =>
      rw [hm] at h
      simp only at h
      have := entry_block_ns_or T W qs fl es σ r hn h hu
      simp [entryKindsL, this]
end

/-- `strip t` is a node or a list (never a string or nil): what a statement / field / expression is -/
def nodeLike (t : Tree) : Bool :=
  match strip t with
  | .node _ _ _ => true
  | .list _ => true
  | _ => false

mutual
/-- if a pattern tells a one-element block from its element, the block's kind is among its
entry kinds -/
theorem entry_block_single (T : TablesOK) (W : World) (p : Pat) (fl : Bool) (y : Tree) (σ : State)
    (hy : nodeLike y = true)
    (h : matchP W p (.block fl [y]) σ ≠ matchP W p y σ) : Ok p (blockKind fl) := by
  intro hu
  cases p with
  | any => simpa [entryKinds] using T.univ_any _ hu
  | nilp => simpa [entryKinds] using T.univ_all _ hu
  | str s =>
    exfalso
    apply h
    unfold nodeLike at hy
    cases hs : strip y with
    | node k o fs => simp [matchP, hs]
    | list es => simp [matchP, hs]
    | paren k x => rw [hs] at hy; simp at hy
    | block fl' es => rw [hs] at hy; simp at hy
    | str s' => rw [hs] at hy; simp at hy
    | nil => rw [hs] at hy; simp at hy
  | bindAny n => simpa [entryKinds] using T.univ_all _ hu
  | bind n q =>
    by_cases heq : matchP W q (.block fl [y]) σ = matchP W q y σ
    · exfalso; apply h; simp [matchP, heq]
    · have := entry_block_single T W q fl y σ hy heq hu
      simpa [entryKinds] using this
  | or qs =>
    have h' : matchOr W qs (.block fl [y]) σ ≠ matchOr W qs y σ := by simpa [matchP] using h
    have := entry_block_single_or T W qs fl y σ hy h' hu
    simpa [entryKinds] using this
  | not q => simpa [entryKinds] using T.univ_all _ hu
  | lnil => simpa [entryKinds] using blockKind_list T fl
  | lcons a b => simpa [entryKinds] using blockKind_list T fl
  | symbol nm => exfalso; apply h; simp [matchP]
  | builtin nm => exfalso; apply h; simp [matchP]
  | object nm => exfalso; apply h; simp [matchP]
  | intLit v => exfalso; apply h; simp [matchP]
  | tce v => simpa [entryKinds] using T.univ_tce _ hu
  | node name ps => exfalso; apply h; simp [matchP]
theorem entry_block_single_or (T : TablesOK) (W : World) (qs : List Pat) (fl : Bool) (y : Tree)
    (σ : State) (hy : nodeLike y = true)
    (h : matchOr W qs (.block fl [y]) σ ≠ matchOr W qs y σ) : OkL qs (blockKind fl) := by
  intro hu
  cases qs with
  | nil => simp [matchOr] at h
  | cons q qs =>
    by_cases h1 : matchP W q (.block fl [y]) σ = matchP W q y σ
    · by_cases h2 : matchOr W qs (.block fl [y]) σ = matchOr W qs y σ
      · exfalso; apply h; simp [matchOr, h1, h2]
      · have := entry_block_single_or T W qs fl y σ hy h2 hu
        simp [entryKindsL, this]
    · have := entry_block_single T W q fl y σ hy h1 hu
      simp [entryKindsL, this]
end

/-! ## well-formedness along the wrapper chain -/

def isNode : Tree → Bool
  | .node _ _ _ => true
  | .paren _ _ => true
  | .block _ _ => true
  | _ => false

/-- what go/ast guarantees about the wrappers the matcher looks through: a ParenExpr/ExprStmt/…
wraps a node, the element of a one-element BlockStmt/FieldList is a node, and no plain node has
the kind of a BlockStmt/FieldList -/
def WFc : Tree → Prop
  | .node k _ _ => k ≠ "BlockStmt" ∧ k ≠ "FieldList"
  | .paren _ x => isNode x = true ∧ WFc x
  | .block _ es =>
    match es with
    | [y] => isNode y = true ∧ WFc y
    | _ => True
  | _ => True

theorem nodeLike_of_isNode : ∀ t : Tree, isNode t = true → WFc t → nodeLike t = true
  | .node k o fs, _, _ => by simp [nodeLike]
  | .paren k x, _, hw => by
    simp only [WFc] at hw
    have := nodeLike_of_isNode x hw.1 hw.2
    simpa [nodeLike] using this
  | .block fl es, _, _ => by simp [nodeLike]
  | .list es, h, _ => by simp [isNode] at h
  | .str s, h, _ => by simp [isNode] at h
  | .nil, h, _ => by simp [isNode] at h

/-- entry_complete, by recursion along the wrapper chain -/
theorem entry_complete_aux (T : TablesOK) (W : World) (p : Pat) (σ : State) :
    ∀ t : Tree, WFc t → ∀ r, matchP W p t σ = some r → Ok p (kindOf (norm W p σ t))
  | .node k o fs, hw, r, h => by
    rw [norm_node]
    exact entry_node T W p k o fs σ r hw h
  | .paren k x, hw, r, h => by
    rw [norm_paren]
    rw [match_paren] at h
    exact entry_complete_aux T W p σ x hw.2 r h
  | .block fl [], _, r, h => by
    rw [norm_block_not_single _ _ _ _ _ (by simp)]
    exact entry_block_ns T W p fl [] σ r (by simp) h
  | .block fl (a :: b :: es), _, r, h => by
    rw [norm_block_not_single _ _ _ _ _ (by simp)]
    exact entry_block_ns T W p fl _ σ r (by simp) h
  | .block fl [y], hw, r, h => by
    simp only [WFc] at hw
    by_cases heq : matchP W p y σ = matchP W p (.block fl [y]) σ
    · rw [norm_block_single_eq _ _ _ _ _ heq]
      rw [← heq] at h
      exact entry_complete_aux T W p σ y hw.2 r h
    · rw [norm_block_single_ne _ _ _ _ _ heq]
      exact entry_block_single T W p fl y σ (nodeLike_of_isNode y hw.1 hw.2) (fun e => heq e.symm)
  | .list es, _, r, h => by
    intro hu
    rw [norm_list] at hu
    exact absurd hu T.no_empty
  | .str s, _, r, h => by
    intro hu
    rw [norm_str] at hu
    exact absurd hu T.no_empty
  | .nil, _, r, h => by
    intro hu
    rw [norm_nil] at hu
    exact absurd hu T.no_empty

end Verif.C08
