/-
C08 line-protocol driver.

  collect <serialised Pattern.Root>   ->  entry=<k1,k2,…> symbols=<formula> rootcalls=<symbols>
  could <k> (<hexpath> <hextype> <hexident> none|func|other)*k <serialised Pattern.Root>
                                      ->  could=<0|1> useindex=<0|1>
      (code.CouldMatchAny and the choice of code.Matches between call sites and entry nodes, for a
       package whose index resolves the listed symbols as stated; unlisted symbols do not resolve)

The Root tree is serialised by harness/cmd/c08match (`ser`): prefix tokens
`0` (Go nil) `A` (Any) `Z` (Nil) `S <hex>` `B <hexname> <child>` `O <n> …` `! <child>`
`L <head> <tail>` `N <Name> <k> <fields…>`.  Malformed input is rejected with `bad-op`.
-/
import Verif.Common.Proto
import Verif.C08.Model
namespace Verif.C08
open Verif.Proto

mutual
/-- parse one tree; `none` inside = Go nil -/
def parseNode : Nat → List String → Option (Option Pat × List String)
  | 0, _ => none
  | fuel + 1, toks =>
    match toks with
    | "0" :: r => some (none, r)
    | "A" :: r => some (some .any, r)
    | "Z" :: r => some (some .nilp, r)
    | "S" :: h :: r => do
      let s ← hexDecode h
      pure (some (.str s), r)
    | "B" :: h :: r => do
      let n ← hexDecode h
      let (c, r') ← parseNode fuel r
      match c with
      | none => pure (some (.bindAny n), r')
      | some q => pure (some (.bind n q), r')
    | "O" :: n :: r => do
      let k ← n.toNat?
      let (cs, r') ← parseMany fuel k r
      pure (some (.or cs), r')
    | "!" :: r => do
      let (c, r') ← parseNode fuel r
      match c with
      | some q => pure (some (.not q), r')
      | none => none
    | "L" :: r => do
      let (h, r1) ← parseNode fuel r
      let (t, r2) ← parseNode fuel r1
      match h, t with
      | none, none => pure (some .lnil, r2)
      | some h, some t => pure (some (.lcons h t), r2)
      | _, _ => none
    | "N" :: name :: n :: r => do
      let k ← n.toNat?
      let (cs, r') ← parseMany fuel k r
      match name, cs with
      | "Symbol", [c] => pure (some (.symbol c), r')
      | "Builtin", [c] => pure (some (.builtin c), r')
      | "Object", [c] => pure (some (.object c), r')
      | "IntegerLiteral", [c] => pure (some (.intLit c), r')
      | "TrulyConstantExpression", [c] => pure (some (.tce c), r')
      | "Symbol", _ => none
      | "Builtin", _ => none
      | "Object", _ => none
      | "IntegerLiteral", _ => none
      | "TrulyConstantExpression", _ => none
      | _, _ => pure (some (.node name cs), r')
    | _ => none
/-- parse `k` non-nil trees -/
def parseMany : Nat → Nat → List String → Option (List Pat × List String)
  | 0, _, _ => none
  | _ + 1, 0, r => some ([], r)
  | fuel + 1, k + 1, r => do
    let (c, r1) ← parseNode fuel r
    match c with
    | none => none
    | some q =>
      let (cs, r2) ← parseMany fuel k r1
      pure (q :: cs, r2)
end

def parseRoot (toks : List String) : Option Pat :=
  match parseNode (toks.length + 1) toks with
  | some (some p, []) => some p
  | _ => none

def showSym (s : IndexSymbol) : List String :=
  ["I", hexEncode s.path, hexEncode s.type, hexEncode s.ident]

mutual
def showSymPat : SymPat → List String
  | .any => ["A"]
  | .none => ["0"]
  | .sym s => showSym s
  | .or l => ["O", toString l.length] ++ showSymPatL l
  | .and l => ["&", toString l.length] ++ showSymPatL l
def showSymPatL : List SymPat → List String
  | [] => []
  | c :: cs => showSymPat c ++ showSymPatL cs
end

def insertSorted (x : String) : List String → List String
  | [] => [x]
  | y :: ys => if x < y then x :: y :: ys else if x = y then y :: ys else y :: insertSorted x ys

def sortDedup (l : List String) : List String := l.foldr insertSorted []

/-- parse `k` index-lookup facts -/
def parseFacts : Nat → List String → Option (List (IndexSymbol × Nat) × List String)
  | 0, r => some ([], r)
  | k + 1, p :: t :: i :: res :: r => do
    let p ← hexDecode p
    let t ← hexDecode t
    let i ← hexDecode i
    let o ← match res with
      | "none" => some 0
      | "func" => some 1
      | "other" => some 2
      | _ => none
    let (fs, r') ← parseFacts k r
    pure ((⟨p, t, i⟩, o) :: fs, r')
  | _, _ => none

/-- the world the facts describe: object 1 is a function, object 2 is not -/
def factsWorld (fs : List (IndexSymbol × Nat)) : World where
  names := fun _ => []
  isUniverse := fun _ => false
  lookup := fun s => match fs.lookup s with
    | some 1 => some 1
    | some 2 => some 2
    | _ => none
  isFunc := fun o => o == 1
  isType := fun _ => false
  eqv := fun _ _ => false
  constVal := fun _ => none

def b01 (b : Bool) : String := if b then "1" else "0"

def step (line : String) : String :=
  match tokens line with
  | "could" :: k :: rest =>
    match k.toNat? with
    | none => "bad-op"
    | some k =>
      match parseFacts k rest with
      | none => "bad-op"
      | some (fs, toks) =>
        match parseRoot toks with
        | none => "bad-op"
        | some p =>
          let W := factsWorld fs
          s!"could={b01 (couldMatchAny W p)} useindex={b01 (couldMatchAny W p && useIndex W (rootCallSymbols p))}"
  | "collect" :: toks =>
    match parseRoot toks with
    | some p =>
      let e := ",".intercalate (sortDedup (entryKinds p))
      let s := "_".intercalate (showSymPat (symbolsPattern p))
      let r := "_".intercalate ((rootCallSymbols p).flatMap showSym)
      s!"entry={e} symbols={s} rootcalls={r}"
    | none => "bad-op"
  | _ => "bad-op"

end Verif.C08
