/-
C08 — model of the pattern pre-filters (pattern/parser.go: collectEntryNodes,
collectSymbols, symbolToIndexSymbol, collectRootCallSymbols; analysis/code/visit.go:
CouldMatchAny, Matches) and of the matcher's dispatch (pattern/match.go) as far as the
filter theorems need it.  Core Lean only.

The node-kind tables (nodeToASTTypes, allTypes) are not written here: they are
regenerated from the real parser into `Verif.C08.Generated` on every check run.
-/
import Verif.C08.Generated
namespace Verif.C08

abbrev Kind := String

/-- pattern.IndexSymbol -/
structure IndexSymbol where
  path : String
  type : String
  ident : String
deriving DecidableEq, Repr, Inhabited

/-- pattern.Node as produced by the parser (Root trees).  `bindAny n` is
`Binding{Name: n, Node: nil}`, `lnil` is `List{}` (both operands Go-nil), `nilp` is `Nil{}`.
`node name fields` is every plain struct node (CallExpr, Ident, …). -/
inductive Pat where
  | any
  | nilp
  | str (s : String)
  | bindAny (name : String)
  | bind (name : String) (p : Pat)
  | or (ps : List Pat)
  | not (p : Pat)
  | lnil
  | lcons (h t : Pat)
  | symbol (nm : Pat)
  | builtin (nm : Pat)
  | object (nm : Pat)
  | intLit (v : Pat)
  | tce (v : Pat)
  | node (name : String) (fields : List Pat)
deriving Repr, Inhabited

/-- The formula language of Pattern.SymbolsPattern: Any, Go-nil, IndexSymbol, Or, And. -/
inductive SymPat where
  | any
  | none
  | sym (s : IndexSymbol)
  | or (l : List SymPat)
  | and (l : List SymPat)
deriving Repr, Inhabited

/-! ## symbolToIndexSymbol -/

def indexOfChar (c : Char) : List Char → Option Nat
  | [] => none
  | x :: xs => if x = c then some 0 else (indexOfChar c xs).map (· + 1)

/-- strings.LastIndex for a one-character needle -/
def lastIndexOfChar (c : Char) (l : List Char) : Option Nat :=
  match indexOfChar c l.reverse with
  | none => none
  | some i => some (l.length - 1 - i)

def symbolToIndexSymbol (name : String) : IndexSymbol :=
  let cs := name.toList
  match cs with
  | [] => ⟨"", "", ""⟩
  | c0 :: _ =>
    -- names with type parameters / arguments are not looked up in the index
    if cs.contains '[' then ⟨"", "", ""⟩ else
    if c0 = '(' then
      match indexOfChar ')' cs with
      | none => ⟨"", "", ""⟩
      | some e =>
        if e + 2 > cs.length then ⟨"", "", ""⟩ else
        let inner := (cs.take e).drop 1
        let pt := match inner with
          | '*' :: r => r
          | r => r
        match lastIndexOfChar '.' pt with
        | none => ⟨"", "", ""⟩
        | some d => ⟨String.ofList (pt.take d), String.ofList (pt.drop (d + 1)), String.ofList (cs.drop (e + 2))⟩
    else
      match lastIndexOfChar '.' cs with
      | none => ⟨"", "", name⟩
      | some d => ⟨String.ofList (cs.take d), "", String.ofList (cs.drop (d + 1))⟩

/-! ## collectSymbols -/

/-- match.go `isNil` on a pattern node that is not Go-nil: it is `Nil{}` -/
def isNilp : Pat → Bool
  | .nilp => true
  | _ => false

/-- the closure `and` of collectSymbols -/
def andAdd (out : List SymPat) (c : SymPat) : List SymPat :=
  match c with
  | .and l => out ++ l
  | .any => out
  | .none => out
  | c => out ++ [c]

def andFinish (out : List SymPat) : SymPat :=
  match out with
  | [] => .any
  | [x] => x
  | _ => .and out

/-- the loop of the `Or` case; `none` = the loop returned `Any{}` early -/
def orFold : List SymPat → List SymPat → Option (List SymPat)
  | acc, [] => some acc
  | acc, c :: cs =>
    match c with
    | .or l => orFold (acc ++ l) cs
    | .any => none
    | .none => orFold acc cs
    | c => orFold (acc ++ [c]) cs

def orFinish : Option (List SymPat) → SymPat
  | none => .any
  | some [] => .none
  | some [x] => x
  | some l => .or l

mutual
def collectSymbols : Pat → Bool → SymPat
  | .or ps, b => orFinish (orFold [] (collectSymbolsL ps b))
  | .not _, _ => .any
  | .symbol nm, _ => collectSymbols nm true
  | .str s, b => if b then .sym (symbolToIndexSymbol s) else .any
  | .bind _ p, b => collectSymbols p b
  | .bindAny _, _ => .any
  | .any, _ => .any
  | .lnil, _ => .any
  | .lcons h t, b =>
    -- `isNil(node.Head)`: a list without a head matches the empty list and ignores its tail
    if isNilp h then .any
    else andFinish (andAdd (andAdd [] (collectSymbols h b)) (collectSymbols t b))
  | .nilp, _ => .any
  | .builtin nm, b => andFinish (andAdd [] (collectSymbols nm b))
  | .object nm, b => andFinish (andAdd [] (collectSymbols nm b))
  | .intLit v, b => andFinish (andAdd [] (collectSymbols v b))
  | .tce v, b => andFinish (andAdd [] (collectSymbols v b))
  | .node _ fs, b => andFinish ((collectSymbolsL fs b).foldl andAdd [])
def collectSymbolsL : List Pat → Bool → List SymPat
  | [], _ => []
  | p :: ps, b => collectSymbols p b :: collectSymbolsL ps b
end

/-- Parser.Parse: `collectSymbols(root, isSymbol)`; for a Symbol root the flag is irrelevant. -/
def symbolsPattern (p : Pat) : SymPat := collectSymbols p false

/-! ## CouldMatchAny -/

mutual
/-- the closure `do` of code.CouldMatchAny; `idx s` = the index resolves `s`
(index.Object / index.Selection is non-nil).  Go panics on a nil formula; modelled as false. -/
def evalSym (idx : IndexSymbol → Bool) : SymPat → Bool
  | .any => true
  | .none => false
  | .sym s => if s.path = "" then true else idx s
  | .or l => evalAny idx l
  | .and l => evalAll idx l
def evalAny (idx : IndexSymbol → Bool) : List SymPat → Bool
  | [] => false
  | c :: cs => evalSym idx c || evalAny idx cs
def evalAll (idx : IndexSymbol → Bool) : List SymPat → Bool
  | [] => true
  | c :: cs => evalSym idx c && evalAll idx cs
end

/-! ## collectRootCallSymbols -/

def strsOf : List Pat → Option (List String)
  | [] => some []
  | .str s :: r => (strsOf r).map (s :: ·)
  | _ :: _ => none

/-- handleSymName -/
def symNames : Pat → Option (List String)
  | .str s => some [s]
  | .or ps => strsOf ps
  | .bind _ p => symNames p
  | _ => none

def rootOrNames : List Pat → Option (List String)
  | [] => some []
  | .symbol nm :: r =>
    match symNames nm, rootOrNames r with
    | some a, some b => some (a ++ b)
    | _, _ => none
  | _ :: _ => none

/-- handleRootFun -/
def rootFunNames : Pat → Option (List String)
  | .bind _ p => rootFunNames p
  | .symbol nm => symNames nm
  | .or ps => rootOrNames ps
  | _ => none

def rootCallNames : Pat → Option (List String)
  | .node name [f, _] => if name = "CallExpr" then rootFunNames f else none
  | _ => none

def rootCallSymbols (p : Pat) : List IndexSymbol :=
  match rootCallNames p with
  | some ns => ns.map symbolToIndexSymbol
  | none => []

/-! ## collectEntryNodes -/

def tableKinds (name : String) : List Kind :=
  match Generated.nodeKinds.lookup name with
  | some ks => ks
  | none => []

mutual
def entryKinds : Pat → List Kind
  | .or ps => entryKindsL ps
  | .not _ => Generated.allKinds
  | .bind _ p => entryKinds p
  | .bindAny _ => Generated.allKinds
  | .nilp => Generated.allKinds
  | .any => tableKinds "Any"
  | .str _ => tableKinds "String"
  | .lnil => tableKinds "List"
  | .lcons _ _ => tableKinds "List"
  | .symbol _ => tableKinds "Symbol"
  | .builtin _ => tableKinds "Builtin"
  | .object _ => tableKinds "Object"
  | .intLit _ => tableKinds "IntegerLiteral"
  | .tce _ => tableKinds "TrulyConstantExpression"
  | .node name _ => tableKinds name
def entryKindsL : List Pat → List Kind
  | [] => []
  | p :: ps => entryKinds p ++ entryKindsL ps
end

/-! ## syntax trees -/

/-- A go/ast value as the matcher sees it.  `node kind obj fields`: a syntax node with the
fields the pattern language names, in the order of the pattern struct; `obj` is
`TypesInfo.ObjectOf` of an Ident, resp. of `Sel` for a SelectorExpr.  `paren`: the wrappers
`match` always looks through (ParenExpr, ExprStmt, DeclStmt, LabeledStmt).  `block fl es`:
BlockStmt (`fl = false`) / FieldList (`fl = true`), which `match` replaces by their list.
`list`: a []Expr / []Stmt / []*Field field value.  `str`: string or token. -/
inductive Tree where
  | node (kind : Kind) (obj : Option Nat) (fields : List Tree)
  | paren (kind : Kind) (x : Tree)
  | block (fl : Bool) (elems : List Tree)
  | list (elems : List Tree)
  | str (s : String)
  | nil
deriving Repr, Inhabited

def blockKind (fl : Bool) : Kind := if fl then "FieldList" else "BlockStmt"

def kindOf : Tree → Kind
  | .node k _ _ => k
  | .paren k _ => k
  | .block fl _ => blockKind fl
  | _ => ""

/-- the right-hand-side switch at the top of `match` -/
def strip : Tree → Tree
  | .paren _ x => strip x
  | .block _ es => .list es
  | t => t

/-- `strip`, interleaved with matchNodeAST's replacement of a one-element list by its element -/
def peel : Tree → Tree
  | .paren _ x => peel x
  | .block _ es =>
    match es with
    | [y] => peel y
    | _ => .list es
  | .list es =>
    match es with
    | [y] => peel y
    | _ => .list es
  | t => t

/-- What go/types and the type index say about the analysed package. Objects are numbered. -/
structure World where
  /-- the names Symbol.Match compares with the pattern for an object: FullName of a function,
      name of a builtin, the type strings along the alias chain of a type name, path.Name of a
      package-level const/var; empty for everything else -/
  names : Nat → List String
  /-- the object is the universe-scope object of its name (Builtin.Match) -/
  isUniverse : Nat → Bool
  /-- index.Object / index.Selection -/
  lookup : IndexSymbol → Option Nat
  isFunc : Nat → Bool
  /-- *types.TypeName: typeutil.Callee returns nil for conversions -/
  isType : Nat → Bool
  /-- recall of a bound variable: `match(m, v, node)` on two go/ast values -/
  eqv : Tree → Tree → Bool
  /-- TypesInfo.Types[expr].Value -/
  constVal : Tree → Option String

abbrev State := List (String × Tree)

/-- the object Symbol.Match resolves a (peeled) expression to -/
def identObj : Tree → Option Nat
  | .node k o _ => if k = "Ident" ∨ k = "SelectorExpr" then o else none
  | _ => none

def symObj (t : Tree) : Option Nat :=
  match t with
  | .node k _ fs =>
    if k = "Ident" ∨ k = "SelectorExpr" then identObj t
    else if k = "IndexExpr" ∨ k = "IndexListExpr" then
      match fs with
      | [x, _] => identObj (peel x)
      | _ => none
    else none
  | _ => none

def firstSome {α β : Type} (f : α → Option β) : List α → Option β
  | [] => none
  | a :: as => match f a with
    | some b => some b
    | none => firstSome f as

mutual
/-- `match(m, p, t)` for a pattern node `p`; result = (returned value, bindings). -/
def matchP (W : World) : Pat → Tree → State → Option (Tree × State)
  | .any, t, σ => some (strip t, σ)
  | .nilp, t, σ =>
    match strip t with
    | .nil => some (.nil, σ)
    | _ => none
  | .str s, t, σ =>
    match strip t with
    | .str o => if s = o then some (.str o, σ) else none
    | _ => none
  | .bindAny n, t, σ =>
    match σ.lookup n with
    | some v => if W.eqv v (strip t) then some (strip t, σ) else none
    | none => some (strip t, (n, strip t) :: σ)
  | .bind n q, t, σ =>
    match σ.lookup n with
    | some _ => none
    | none =>
      match matchP W q t σ with
      | some (v, σ') => some (v, (n, v) :: σ')
      | none => none
  | .or qs, t, σ => matchOr W qs t σ
  | .not q, t, σ =>
    match matchP W q t σ with
    | some _ => none
    | none => some (strip t, σ)
  | .lnil, t, σ =>
    match strip t with
    | .list [] => some (.list [], σ)
    | _ => none
  | .lcons h tl, t, σ =>
    match strip t with
    | .list es =>
      if isNilp h then (if es.isEmpty then some (.list es, σ) else none)
      else
        match es with
        | [] => none
        | x :: xs =>
          match matchP W h x σ with
          | none => none
          | some (_, σ1) =>
            match matchP W tl (.list xs) σ1 with
            | none => none
            | some (_, σ2) => some (.list es, σ2)
    | _ => none
  | .symbol nm, t, σ =>
    match symObj (peel t) with
    | none => none
    | some o =>
      match firstSome (fun n => matchP W nm (.str n) σ) (W.names o) with
      | some (_, σ') => some (peel t, σ')
      | none => none
  | .builtin nm, t, σ =>
    match peel t with
    | .node k o [name] =>
      if k = "Ident" then
        match matchP W nm name σ with
        | some (_, σ') =>
          match o with
          | some ob => if W.isUniverse ob then some (peel t, σ') else none
          | none => none
        | none => none
      else none
    | _ => none
  | .object nm, t, σ =>
    match peel t with
    | .node k _ [name] =>
      if k = "Ident" then
        match matchP W nm name σ with
        | some (_, σ') =>
          match matchP W nm name σ' with
          | some (_, σ'') => some (peel t, σ'')
          | none => none
        | none => none
      else none
    | _ => none
  | .intLit v, t, σ =>
    match peel t with
    | .node k o fs =>
      if k = "BasicLit" ∨ k = "UnaryExpr" then
        match W.constVal (.node k o fs) with
        | some c =>
          match matchP W v (.str c) σ with
          | some (_, σ') => some (.node k o fs, σ')
          | none => none
        | none => none
      else none
    | _ => none
  | .tce v, t, σ =>
    match strip t with
    | .node k o fs =>
      match W.constVal (.node k o fs) with
      | some c =>
        match matchP W v (.str c) σ with
        | some (_, σ') => some (.node k o fs, σ')
        | none => none
      | none => none
    | _ => none
  | .node name fs, t, σ =>
    match peel t with
    | .node k o ts =>
      if k = name then
        match matchFields W fs ts σ with
        | some σ' => some (.node k o ts, σ')
        | none => none
      else none
    | _ => none
def matchOr (W : World) : List Pat → Tree → State → Option (Tree × State)
  | [], _, _ => none
  | q :: qs, t, σ =>
    match matchP W q t σ with
    | some r => some r
    | none => matchOr W qs t σ
def matchFields (W : World) : List Pat → List Tree → State → Option State
  | [], [], σ => some σ
  | p :: ps, t :: ts, σ =>
    match matchP W p t σ with
    | some (_, σ') => matchFields W ps ts σ'
    | none => none
  | _, _, _ => none
end

/-! ## candidate enumeration (code.Matches) -/

mutual
/-- every syntax node below (and including) `t`, as `ast.Inspect` / the inspector visits them -/
def subtrees : Tree → List Tree
  | .node k o fs => .node k o fs :: subtreesL fs
  | .paren k x => .paren k x :: subtrees x
  | .block fl es => .block fl es :: subtreesL es
  | .list es => subtreesL es
  | .str _ => []
  | .nil => []
def subtreesL : List Tree → List Tree
  | [] => []
  | t :: ts => subtrees t ++ subtreesL ts
end

/-- typeutil.Callee of a CallExpr node (fields: Fun, Args) -/
def calleeObj (W : World) : Tree → Option Nat
  | .node k _ (f :: _) =>
    if k = "CallExpr" then
      match peel f with
      | .node k' o fs =>
        if k' = "Ident" ∨ k' = "SelectorExpr" then
          match o with
          | some ob => if W.isType ob then none else some ob
          | none => none
        else if k' = "IndexExpr" ∨ k' = "IndexListExpr" then
          match fs with
          | [x, _] =>
            match identObj (peel x) with
            | some ob => if W.isFunc ob then some ob else none
            | none => none
          | _ => none
        else none
      | _ => none
    else none
  | _ => none

/-- code.rootCallees: call sites from the index are used only if there are root symbols and
every one of them has a package path and resolves to nothing or to a function -/
def useIndex (W : World) (rs : List IndexSymbol) : Bool :=
  !rs.isEmpty && rs.all (fun s => s.path ≠ "" && (match W.lookup s with
    | none => true
    | some o => W.isFunc o))

def couldMatchAny (W : World) (p : Pat) : Bool :=
  evalSym (fun s => (W.lookup s).isSome) (symbolsPattern p)

/-- the nodes code.Matches tries the pattern on; `files` are the roots of the package's files -/
def candidates (W : World) (files : List Tree) (p : Pat) : List Tree :=
  if !couldMatchAny W p then []
  else
    let rs := rootCallSymbols p
    if useIndex W rs then
      (subtreesL files).filter (fun c =>
        match calleeObj W c with
        | some o => (rs.filterMap W.lookup).contains o
        | none => false)
    else
      let ks := entryKinds p
      (subtreesL files).filter (fun t => ks.isEmpty || ks.contains (kindOf t))

end Verif.C08
