/-
C08 — Pattern pre-filtering never changes what a pattern matches.

Statement (properties.jsonl): the nodes (and bindings) a check obtains by searching a package
for a pattern are exactly those obtained by trying the pattern on every syntax node of the
package: restricting the search by entry node kinds, by the symbol index and by call sites
of root symbols never drops a match — whenever the symbols named by the pattern are not
declared in the package being analysed.

Reading.  A match is identified by the innermost node at which match.go performs the very
same match (`norm`): ParenExpr/ExprStmt/DeclStmt/LabeledStmt are looked through by `match`
itself (`match_strip`), a one-element BlockStmt/FieldList is replaced by its element when the
element matches with the same result.  "Every syntax node" = the nodes of the kinds the
pattern language has a node for, plus BlockStmt, FieldList and IndexListExpr
(`Generated.universeKinds`).

Hypotheses of the theorems (what the world has to supply, never axioms):
* `rootOk p` — p is a pattern Parser.Parse returns (a plain node in root position has a row in
  nodeToASTTypes; otherwise Parse panics);
* `Visible W` — the statement's proviso: every name under which Symbol.Match knows an object
  the package refers to is resolved by the package's type index unless it has no package path
  (false for symbols declared in the analysed package, and for the known finding
  alias-cross-package);
* `FuncNames W` — an object whose name the index resolves to a function is that function;
* `WFc t` — go/ast shape: wrappers wrap nodes;
* typeindex.Calls is modelled by its specification: the CallExpr nodes whose typeutil.Callee
  is the object (`calleeObj`).

The model (`Model.lean`) is the code after the eight `fix:` commits listed in notes/C08.md.
-/
import Verif.C08.Lemmas
namespace Verif.C08

/-- tie G: the obligations on the node-kind tables of pattern/parser.go, over the tables
regenerated from the real parser at check time. -/
theorem tables_ok : TablesOK where
  univ_all := by decide
  univ_not := by decide
  univ_any := by decide
  univ_tce := by decide
  self := by decide
  symbol := by decide
  builtin := by decide
  object := by decide
  intlit := by decide
  list := by decide
  no_empty := by decide

/-- `match` looks through ParenExpr, ExprStmt, DeclStmt and LabeledStmt: the match at the
wrapper is the match at the wrapped node (result and bindings). -/
theorem match_strip (W : World) (p : Pat) (k : Kind) (x : Tree) (σ : State) :
    matchP W p (.paren k x) σ = matchP W p x σ :=
  match_paren W p k x σ

example : matchP ⟨fun _ => [], fun _ => false, fun _ => none, fun _ => false, fun _ => false,
      fun _ _ => false, fun _ => none⟩ (.node "CallExpr" [.any, .any])
      (.paren "ExprStmt" (.node "CallExpr" none [.node "Ident" (some 0) [.str "f"], .list []])) [] ≠ none := by
  simp [matchP, matchFields]

/-- normalising a matched node does not change the match (result and bindings) -/
theorem norm_exact (W : World) (p : Pat) (σ : State) (t : Tree) :
    matchP W p (norm W p σ t) σ = matchP W p t σ ∧ norm W p σ (norm W p σ t) = norm W p σ t :=
  ⟨norm_match W p σ t, norm_idem W p σ t⟩

/-- **entry_complete**: if the pattern matches at a node, the kind of the (normalised) node is
among the pattern's entry kinds — for every node whose kind belongs to the universe. -/
theorem entry_complete (W : World) (p : Pat) (hp : rootOk p = true) (σ : State) (t : Tree)
    (r : Tree × State) (hw : WFc t) (hm : matchP W p t σ = some r)
    (hu : kindOf (norm W p σ t) ∈ Generated.universeKinds) :
    kindOf (norm W p σ t) ∈ entryKinds p :=
  entry_complete_aux tables_ok W p hp σ t hw r hm hu

/-- a world in which nothing resolves: enough for the syntactic examples -/
def W0 : World := ⟨fun _ => [], fun _ => false, fun _ => none, fun _ => false, fun _ => false,
  fun _ _ => false, fun _ => none⟩

/-- non-vacuity: `(Not (CallExpr _ _))` matches an identifier wrapped in parentheses; its kind
is an entry kind (the defect of DESIGN.md §6 row 13 made this false). -/
example : matchP W0 (.not (.node "CallExpr" [.any, .any]))
      (.paren "ParenExpr" (.node "Ident" (some 0) [.str "x"])) [] ≠ none ∧
    "Ident" ∈ entryKinds (.not (.node "CallExpr" [.any, .any])) := by
  constructor
  · simp [matchP]
  · decide

/-- **symbols_complete**: a successful match references a satisfying set of the pattern's
symbols, so CouldMatchAny cannot reject the package. -/
theorem symbols_complete (W : World) (hv : Visible W) (p : Pat)
    (t : Tree) (σ : State) (r : Tree × State) (hm : matchP W p t σ = some r) :
    couldMatchAny W p = true :=
  sym_complete W hv p t σ r hm

/-- a world with one function object `0` named "fmt.Sprintf" that the index resolves, and the
builtin `1` named "len" -/
def W1 : World where
  names := fun o => if o = 0 then ["fmt.Sprintf"] else if o = 1 then ["len"] else []
  isUniverse := fun o => o = 1
  lookup := fun s => if s = ⟨"fmt", "", "Sprintf"⟩ then some 0 else none
  isFunc := fun o => o = 0
  isType := fun _ => false
  eqv := fun _ _ => false
  constVal := fun _ => none

def sprintfCall : Tree :=
  .node "CallExpr" none [.node "SelectorExpr" (some 0) [.node "Ident" none [.str "fmt"], .node "Ident" (some 0) [.str "Sprintf"]], .list []]

def sprintfPat : Pat := .node "CallExpr" [.symbol (.str "fmt.Sprintf"), .any]

theorem sti_sprintf : symbolToIndexSymbol "fmt.Sprintf" = ⟨"fmt", "", "Sprintf"⟩ := by decide
theorem sti_len : symbolToIndexSymbol "len" = ⟨"", "", "len"⟩ := by decide

theorem W1_visible : Visible W1 := by
  intro o n hn hp
  simp only [W1] at hn
  by_cases h0 : o = 0
  · simp [h0] at hn; subst hn; simp [W1, sti_sprintf]
  · by_cases h1 : o = 1
    · simp [h1] at hn; subst hn; rw [sti_len] at hp; simp at hp
    · simp [h0, h1] at hn

/-- non-vacuity: the hypotheses are satisfiable and the pattern matches -/
example : Visible W1 ∧ matchP W1 sprintfPat sprintfCall [] ≠ none ∧
    couldMatchAny W1 sprintfPat = true := by
  refine ⟨W1_visible, ?_, ?_⟩
  · simp [sprintfPat, sprintfCall, matchP, matchFields, symObj, identObj, firstSome, W1]
  · simp [couldMatchAny, symbolsPattern, sprintfPat, collectSymbols, collectSymbolsL, andAdd,
      andFinish, evalSym, sti_sprintf, W1]

/-- the index knows the functions it resolves by name: an object one of whose names the index
resolves to a function IS that function, and functions are not types -/
structure FuncNames (W : World) : Prop where
  ident : ∀ o n, n ∈ W.names o → ∀ o', W.lookup (symbolToIndexSymbol n) = some o' →
    W.isFunc o' = true → o' = o
  notType : ∀ o, W.isFunc o = true → W.isType o = false

/-- **rootcalls_complete**: if the call sites of the root symbols are used (all root symbols
have a package and resolve to nothing or to functions), a match is at a call whose callee,
as typeutil.Callee computes it, is one of the resolved root symbols. -/
theorem rootcalls_complete (W : World) (hv : Visible W) (hf : FuncNames W) (p : Pat)
    (hui : useIndex W (rootCallSymbols p) = true)
    (t : Tree) (hn : isNode t = true) (hw : WFc t) (σ : State) (r : Tree × State)
    (hm : matchP W p t σ = some r) :
    ∃ ob, calleeObj W (norm W p σ t) = some ob ∧
      ob ∈ (rootCallSymbols p).filterMap W.lookup := by
  -- the pattern is a CallExpr pattern with root names
  cases hns : rootCallNames p with
  | none => simp [rootCallSymbols, hns, useIndex] at hui
  | some ns =>
    have hrs : rootCallSymbols p = ns.map symbolToIndexSymbol := by simp [rootCallSymbols, hns]
    obtain ⟨pf, pa, hp, _⟩ := rootCallNames_shape p ns hns
    -- the normalised node is the call itself
    have hm' : matchP W p (norm W p σ t) σ = some r := by rw [norm_match]; exact hm
    obtain ⟨o, f, a, hpeel, ob, n, hob, hnames, hmem⟩ := rootcalls_aux W p ns _ σ r hns hm'
    have hnode : norm W p σ t = .node "CallExpr" o [f, a] := by
      rcases norm_shape W p σ t hn hw with ⟨k, o', fs, he⟩ | ⟨fl, es, he, hes⟩
      · rw [he, peel_node] at hpeel; rw [he, hpeel]
      · exfalso
        rcases hes with hes | ⟨y, hy, hne⟩
        · rw [he, peel_block_not_single fl es hes] at hpeel; simp at hpeel
        · apply hne
          subst hp
          simp [matchP]
    -- its callee is the object the index resolves the name to
    have hsym : symbolToIndexSymbol n ∈ rootCallSymbols p := by
      rw [hrs]; exact List.mem_map_of_mem hmem
    simp only [useIndex, Bool.and_eq_true, List.all_eq_true] at hui
    have hall := hui.2 _ hsym
    simp only [decide_eq_true_eq] at hall
    have hlk := hv ob n hnames hall.1
    cases hl : W.lookup (symbolToIndexSymbol n) with
    | none => rw [hl] at hlk; simp at hlk
    | some o' =>
      have hfn : W.isFunc o' = true := by simpa [hl] using hall.2
      have heq : o' = ob := hf.ident ob n hnames o' hl hfn
      subst heq
      refine ⟨o', ?_, ?_⟩
      · rw [hnode]
        exact calleeObj_of_symObj W o f a o' hob (hf.notType o' hfn) hfn
      · exact List.mem_filterMap.mpr ⟨_, hsym, hl⟩

theorem W1_funcNames : FuncNames W1 where
  ident := by
    intro o n hn o' hl _
    simp only [W1] at hn hl
    by_cases h0 : o = 0
    · simp [h0] at hn; subst hn; simp [sti_sprintf] at hl; omega
    · by_cases h1 : o = 1
      · simp [h1] at hn; subst hn; simp [sti_len] at hl
      · simp [h0, h1] at hn
  notType := by intro o _; simp [W1]

/-- non-vacuity: the index is used for `(CallExpr (Symbol "fmt.Sprintf") _)` in W1 and the
callee of the call is the resolved object -/
example : useIndex W1 (rootCallSymbols sprintfPat) = true ∧ calleeObj W1 sprintfCall = some 0 := by
  constructor
  · simp [rootCallSymbols, rootCallNames, sprintfPat, rootFunNames, symNames, useIndex, sti_sprintf, W1]
  · simp [calleeObj, sprintfCall, W1]

/-- every candidate of code.Matches is a node of the package -/
theorem candidates_sub (W : World) (files : List Tree) (p : Pat) (c : Tree)
    (h : c ∈ candidates W files p) : c ∈ subtreesL files := by
  unfold candidates at h
  split at h
  · simp at h
  · simp only at h
    split at h
    · exact (List.mem_filter.mp h).1
    · exact (List.mem_filter.mp h).1

/-- **filter_exact** (the property): under the hypotheses of the statement, the (normalised
node, result+bindings) pairs obtained from the candidates of code.Matches are exactly those
obtained from all syntax nodes of the package. -/
theorem filter_exact (W : World) (hv : Visible W) (hf : FuncNames W) (files : List Tree)
    (hwf : ∀ t ∈ subtreesL files, WFc t) (p : Pat) (hp : rootOk p = true)
    (n : Tree) (r : Tree × State) (hu : kindOf n ∈ Generated.universeKinds) :
    (∃ t ∈ subtreesL files, norm W p [] t = n ∧ matchP W p t [] = some r) ↔
    (∃ t ∈ candidates W files p, norm W p [] t = n ∧ matchP W p t [] = some r) := by
  constructor
  · rintro ⟨t, ht, hn, hm⟩
    have hnode := isNode_of_memL files t ht
    have hw := hwf t ht
    refine ⟨norm W p [] t, ?_, by rw [norm_idem]; exact hn, by rw [norm_match]; exact hm⟩
    have hmem : norm W p [] t ∈ subtreesL files :=
      subtreesL_trans files t ht _ (norm_mem W p [] t hnode hw)
    have hcould : couldMatchAny W p = true := symbols_complete W hv p t [] r hm
    unfold candidates
    simp only [hcould, Bool.not_true, Bool.false_eq_true, if_false]
    by_cases hui : useIndex W (rootCallSymbols p) = true
    · simp only [hui, if_true]
      obtain ⟨ob, hc, hob⟩ := rootcalls_complete W hv hf p hui t hnode hw [] r hm
      refine List.mem_filter.mpr ⟨hmem, ?_⟩
      rw [hc]
      simpa using hob
    · simp only [hui, Bool.false_eq_true, if_false]
      refine List.mem_filter.mpr ⟨hmem, ?_⟩
      have hk := entry_complete W p hp [] t r hw hm (by rw [hn]; exact hu)
      simp only [Bool.or_eq_true, List.contains_iff_mem]
      right; exact hk
  · rintro ⟨t, ht, hn, hm⟩
    exact ⟨t, candidates_sub W files p t ht, hn, hm⟩

/-- non-vacuity of filter_exact: a one-file package whose only statement is
`(fmt.Sprintf())` wrapped in an ExprStmt inside a one-element block; brute force finds the
match at four nodes, all normalising to the call, which is the candidate the index yields. -/
def file1 : Tree := .block false [.paren "ExprStmt" (.paren "ParenExpr" sprintfCall)]

example : matchP W1 sprintfPat file1 [] ≠ none ∧ sprintfCall ∈ candidates W1 [file1] sprintfPat := by
  constructor
  · simp [file1, sprintfPat, sprintfCall, matchP, matchFields, symObj, identObj, firstSome, W1]
  · have hc : couldMatchAny W1 sprintfPat = true := by
      simp [couldMatchAny, symbolsPattern, sprintfPat, collectSymbols, collectSymbolsL, andAdd,
        andFinish, evalSym, sti_sprintf, W1]
    have hu : useIndex W1 (rootCallSymbols sprintfPat) = true := by
      simp [rootCallSymbols, rootCallNames, sprintfPat, rootFunNames, symNames, useIndex, sti_sprintf, W1]
    unfold candidates
    simp only [hc, hu, Bool.not_true, Bool.false_eq_true, if_false, if_true]
    refine List.mem_filter.mpr ⟨by simp [file1, subtreesL, subtrees, sprintfCall], ?_⟩
    simp [calleeObj, sprintfCall, W1, rootCallSymbols, rootCallNames, sprintfPat, rootFunNames,
      symNames, sti_sprintf]

/-- non-vacuity of filter_exact, with every hypothesis discharged on a concrete package: the
brute-force match at the outer block of `file1` is found among the candidates the index yields -/
example : ∃ t ∈ candidates W1 [file1] sprintfPat, norm W1 sprintfPat [] t = sprintfCall ∧
    (matchP W1 sprintfPat t []).isSome = true := by
  have hb : matchP W1 sprintfPat file1 [] = some (sprintfCall, []) := by
    simp [file1, sprintfPat, sprintfCall, matchP, matchFields, symObj, identObj, firstSome, W1, peel, strip]
  have hwf : ∀ t ∈ subtreesL [file1], WFc t := by
    intro t ht
    simp [subtreesL, subtrees, file1, sprintfCall] at ht
    rcases ht with h | h | h | h | h | h | h <;> subst h <;> simp [WFc, isNode]
  have hn : norm W1 sprintfPat [] file1 = sprintfCall := by
    have hi : matchP W1 sprintfPat (.paren "ExprStmt" (.paren "ParenExpr" sprintfCall)) [] =
        some (sprintfCall, []) := by
      simp [sprintfPat, sprintfCall, matchP, matchFields, symObj, identObj, firstSome, W1, peel, strip]
    have e : matchP W1 sprintfPat (.paren "ExprStmt" (.paren "ParenExpr" sprintfCall)) [] =
        matchP W1 sprintfPat (.block false [.paren "ExprStmt" (.paren "ParenExpr" sprintfCall)]) [] := by
      rw [hi]; exact hb.symm
    unfold file1
    rw [norm_block_single_eq _ _ _ _ _ e, norm_paren, norm_paren]
    unfold sprintfCall
    rw [norm_node]
  have h := (filter_exact W1 W1_visible W1_funcNames [file1] hwf sprintfPat (by decide) sprintfCall
    (sprintfCall, []) (by decide)).mp ⟨file1, by simp [subtreesL, subtrees, file1], hn, hb⟩
  obtain ⟨t, ht, hnt, hmt⟩ := h
  exact ⟨t, ht, hnt, by simp [hmt]⟩

end Verif.C08
