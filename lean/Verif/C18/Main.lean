import Verif.C18.Driver
def main : IO UInt32 := do
  Verif.Proto.runLines Verif.C18.step'
  return 0
