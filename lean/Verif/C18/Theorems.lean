import Verif.C18.Lemmas
/-!
C18 — property theorems over the protocol model (`Model.lean`), for ALL programs, ALL
interleavings of the builders (any scheduler, any `cpuLimit` capacity, any order in which
`wait` walks the edge maps).  `Reachable P s` = `s` is reachable from the initial state by
transitions of `Trans`.
-/
namespace Verif.C18

variable {P : Prog} {s : St}

/-! ### created exactly once -/

/-- Every shared function is created at most once per key: the memo tables never hold two
entries for one key, and a key that is present keeps its creator. (Together with
`program_build_complete`: every needed key is present when the builders have returned, so
"exactly once".) -/
theorem created_once (h : Reachable P s) :
    (s.memo.map Prod.fst).Nodup ∧
    ∀ k o o', (k, o) ∈ s.memo → (k, o') ∈ s.memo → o = o' :=
  have hc := InvC_of_reachable h
  ⟨hc.memo_nodup, fun _ _ _ h1 h2 => fst_unique hc.memo_nodup h1 h2⟩

/-- A created shared function is never replaced: later states keep the entry. -/
theorem created_stable {t : St} {p : Pid} {l : Label} (ht : Trans P s p l t) :
    ∀ e, e ∈ s.memo → e ∈ t.memo := memo_mono ht

/-- Every function body is built at most once, and only by the builder responsible for it
(the package for a declared function, the creator for a shared one). -/
theorem built_once (h : Reachable P s) :
    (s.built.map Prod.fst).Nodup ∧ ∀ f o, (f, o) ∈ s.built → Owns P s o f :=
  have hc := InvC_of_reachable h
  ⟨hc.built_nodup, hc.own_b⟩

/-- `panic("cannot add an edge to a done task")` is unreachable. -/
theorem no_panic (h : Reachable P s) : s.panicked = false := (InvA_of_reachable h).nopanic

/-! ### wait / build completeness -/

/-- When `wait` has returned for builder `p`, every task reachable from `p`'s task through
edges — cycles included — is done. -/
theorem wait_complete (h : Reachable P s) {p : Pid} (hp : s.phase p = .finished) :
    ∀ u, Reach s.edges p u → s.done u = true :=
  (InvB_of_reachable h).closed p (((InvA_of_reachable h).trans_iff p).2 hp)

/-- all tasks reachable from `o` are done -/
def TDone (s : St) (o : Pid) : Prop := ∀ u, Reach s.edges o u → s.done u = true

theorem built_of_done_owner (h : Reachable P s) {k : Key} {o : Pid} (hm : (k, o) ∈ s.memo)
    (hd : s.done o = true) : (FnId.shared k, o) ∈ s.built := by
  rcases (InvC_of_reachable h).memo_q k o hm with hb | hq
  · exact hb
  · exfalso
    have := ((InvA_of_reachable h).done_iff o).1 hd
    unfold InQueue at hq
    rcases this with ⟨w, i, r, hw⟩ | hf
    · rw [hw] at hq; exact hq
    · rw [hf] at hq; exact hq

/-- When `Package.Build` of package `p` has returned (its builder has finished, however the
other builders are scheduled and whether or not they have finished), every function the
package depends on — its own functions and, transitively, every shared function their bodies
refer to, whoever created it — has been built. -/
theorem build_complete (h : Reachable P s) {p : Pid} (hp : s.phase p = .finished) :
    ∀ f, Needs P p f → Built s f := by
  have ha := InvA_of_reachable h
  have hb := InvB_of_reachable h
  have hc := InvC_of_reachable h
  have hd := InvD_of_reachable h
  have key : ∀ f, Needs P p f → ∃ o, TDone s o ∧ (f, o) ∈ s.built := by
    intro f hn
    induction hn with
    | @root n hn =>
      refine ⟨p, wait_complete h hp, ?_⟩
      rcases hc.roots_q p n hn with hi | hb' | hq
      · rw [hp] at hi; cases hi
      · exact hb'
      · unfold InQueue at hq; rw [hp] at hq; exact hq.elim
    | @ref f k _ hk ih =>
      obtain ⟨o, hto, hbo⟩ := ih
      obtain ⟨o', hl, hdep⟩ := hd.built_dep f o hbo k hk
      have hto' : TDone s o' := by
        rcases hdep with e | he | htr
        · subst e; exact hto
        · exact fun u hr => hto u (.head he hr)
        · exact hb.closed o' htr
      exact ⟨o', hto', built_of_done_owner h (lookup_mem hl) (hto' o' (.refl o'))⟩
  intro f hn
  obtain ⟨o, _, hbo⟩ := key f hn
  exact ⟨o, hbo⟩

/-- `Program.Build` has returned: every function any package needs is built. -/
theorem program_build_complete (h : Reachable P s) (hf : allFinished P s) :
    ∀ f, Needed P f → Built s f := by
  rintro f ⟨p, hp, hn⟩
  exact build_complete h (hf p hp) f hn

/-- ... and nothing else was created or built: the set of functions a complete build leaves
behind is exactly the set the program needs, whatever the schedule. -/
theorem final_functions (h : Reachable P s) (hf : allFinished P s) (f : FnId) :
    Built s f ↔ Needed P f :=
  ⟨fun ⟨o, hb⟩ => (InvE_of_reachable h).built_needed f o hb, program_build_complete h hf f⟩

theorem final_memo (h : Reachable P s) (hf : allFinished P s) (k : Key) :
    (∃ o, (k, o) ∈ s.memo) ↔ Needed P (.shared k) := by
  constructor
  · rintro ⟨o, hm⟩
    rcases (InvC_of_reachable h).memo_q k o hm with hb | hq
    · exact (InvE_of_reachable h).built_needed _ _ hb
    · exact (InvE_of_reachable h).q_needed _ _ hq
  · intro hn
    obtain ⟨o, hb⟩ := program_build_complete h hf _ hn
    exact ⟨o, (InvC_of_reachable h).own_b _ _ hb⟩

/-- Serial, parallel, any capacity, any interleaving: two complete builds of the same program
create the same shared functions and build the same functions (as sets; the contents of the
bodies are outside the protocol model). `P'` may differ from `P` in `cap` and `tok` only. -/
theorem schedule_independent {P' : Prog} {s' : St}
    (hn : P'.nproc = P.nproc) (hr : P'.roots = P.roots) (hrf : P'.refs = P.refs)
    (h : Reachable P s) (hf : allFinished P s) (h' : Reachable P' s') (hf' : allFinished P' s') :
    (∀ f, Built s f ↔ Built s' f) ∧ (∀ k, (∃ o, (k, o) ∈ s.memo) ↔ ∃ o, (k, o) ∈ s'.memo) := by
  have needs_eq : ∀ p f, Needs P p f ↔ Needs P' p f := by
    intro p f
    constructor
    · intro hN; induction hN with
      | root hn' => exact .root (by rw [hr]; exact hn')
      | ref _ hk ih => exact .ref ih (by rw [hrf]; exact hk)
    · intro hN; induction hN with
      | root hn' => exact .root (by rw [← hr]; exact hn')
      | ref _ hk ih => exact .ref ih (by rw [← hrf]; exact hk)
  have needed_eq : ∀ f, Needed P f ↔ Needed P' f := by
    intro f; unfold Needed; rw [hn]
    constructor
    · rintro ⟨p, hp, hN⟩; exact ⟨p, hp, (needs_eq p f).1 hN⟩
    · rintro ⟨p, hp, hN⟩; exact ⟨p, hp, (needs_eq p f).2 hN⟩
  constructor
  · intro f; rw [final_functions h hf, final_functions h' hf', needed_eq]
  · intro k; rw [final_memo h hf, final_memo h' hf', needed_eq]


/-! ### no deadlock -/

/-- A builder that is iterating over its queue is never blocked. -/
theorem building_enabled {p : Pid} {q : List FnId} {cur : Option (FnId × List Key)}
    (hp : s.phase p = .building q cur) : ∃ l t, Trans P s p l t := by
  match cur, q with
  | none, [] => exact ⟨_, _, .markDone hp⟩
  | none, f :: q' =>
    cases hb : isBuilt s f with
    | true => exact ⟨_, _, .skip hp hb⟩
    | false => exact ⟨_, _, .pick hp hb⟩
  | some (f, []), q => exact ⟨_, _, .fnDone hp⟩
  | some (f, k :: ks), q =>
    cases hl : s.memo.lookup k with
    | none => exact ⟨_, _, .create hp hl⟩
    | some o =>
      by_cases h1 : o = p ∨ s.trans o = true
      · exact ⟨_, _, .hitNoEdge hp hl h1⟩
      · have ho : o ≠ p := fun e => h1 (.inl e)
        have htr : s.trans o = false := by
          cases ht : s.trans o with
          | false => rfl
          | true => exact absurd (.inr ht) h1
        cases hd : s.done p with
        | true => exact ⟨_, _, .hitPanic hp hl ho htr hd⟩
        | false => exact ⟨_, _, .hitEdge hp hl ho htr hd⟩

theorem running_zero (hno : ∀ q, q < P.nproc → (s.phase q).isRunning = false) : running P s = 0 := by
  unfold running
  rw [List.length_eq_zero_iff, List.filter_eq_nil_iff]
  intro q hq
  have := hno q (List.mem_range.1 hq)
  simp [this]

/-- No reachable state is stuck while work remains: unless every builder has finished, some
builder can take a step (for every capacity ≥ 1 of the CPU semaphore, cyclic waits included). -/
theorem no_deadlock (h : Reachable P s) (hcap : 0 < P.cap) (hnf : ¬ allFinished P s) :
    ∃ p l t, Trans P s p l t := by
  have ha := InvA_of_reachable h
  by_cases hB : ∃ p q cur, s.phase p = .building q cur
  · obtain ⟨p, q, cur, hp⟩ := hB
    obtain ⟨l, t, ht⟩ := building_enabled (P := P) hp
    exact ⟨p, l, t, ht⟩
  · by_cases hW : ∃ p w i r, s.phase p = .waiting w i r
    · obtain ⟨p, w, i, r, hp⟩ := hW
      cases r with
      | false =>
        cases hu : w[i]? with
        | none => exact ⟨p, _, _, .waitEnd hp hu⟩
        | some u =>
          cases htr : s.trans u with
          | true => exact ⟨p, _, _, .waitSkip hp hu htr⟩
          | false => exact ⟨p, _, _, .waitCheck hp hu htr⟩
      | true =>
        obtain ⟨hst, _, hlt, _⟩ := ha.work p w i true hp
        have hlt := hlt rfl
        have hu : w[i]? = some w[i] := List.getElem?_eq_getElem hlt
        have hui : s.phase w[i] ≠ .idle := hst _ (List.getElem_mem hlt)
        have hd : s.done w[i] = true := by
          rw [ha.done_iff]
          cases hph : s.phase w[i] with
          | idle => exact absurd hph hui
          | building q cur => exact absurd ⟨_, _, _, hph⟩ hB
          | waiting w' i' r' => exact .inl ⟨_, _, _, rfl⟩
          | finished => exact .inr rfl
        refine ⟨p, _, _, .waitRecv (new := (s.edges w[i]).filter fun v => !(w.contains v)) hp hu hd
          (nodup_filter _ (ha.edges_nodup _)) ?_⟩
        intro v; simp [List.mem_filter]
    · -- every process is idle or finished
      have hcls : ∀ q, s.phase q = .idle ∨ s.phase q = .finished := by
        intro q
        cases hph : s.phase q with
        | idle => exact .inl rfl
        | building q' cur => exact absurd ⟨_, _, _, hph⟩ hB
        | waiting w i r => exact absurd ⟨_, _, _, _, hph⟩ hW
        | finished => exact .inr rfl
      have : ∃ p, p < P.nproc ∧ s.phase p = .idle := by
        apply Classical.byContradiction
        intro hne
        apply hnf
        intro p hp
        rcases hcls p with hi | hf
        · exact absurd ⟨p, hp, hi⟩ hne
        · exact hf
      obtain ⟨p, hp, hi⟩ := this
      have hr : running P s = 0 := running_zero fun q _ => by
        rcases hcls q with h' | h' <;> simp [h', Phase.isRunning]
      exact ⟨p, _, _, .start hp hi (.inr (by omega))⟩

/-- A builder blocked in `wait` on the channel of task `u` is waiting for a builder that is
still iterating over its queue, and that builder can take a step (it is never itself
blocked): no wait is ever on a builder that waits. -/
theorem blocked_on_active_builder (h : Reachable P s) {p : Pid} {w : List Pid} {i : Nat} {u : Pid}
    (hp : s.phase p = .waiting w i true) (hu : w[i]? = some u) (hd : s.done u = false) :
    (∃ q cur, s.phase u = .building q cur) ∧ ∃ l t, Trans P s u l t := by
  have ha := InvA_of_reachable h
  have hmem : u ∈ w := List.mem_iff_getElem?.2 ⟨i, hu⟩
  have hui := (ha.work p w i true hp).1 u hmem
  have hb : ∃ q cur, s.phase u = .building q cur := by
    cases hph : s.phase u with
    | idle => exact absurd hph hui
    | building q cur => exact ⟨_, _, rfl⟩
    | waiting w' i' r' =>
      have := (ha.done_iff u).2 (.inl ⟨_, _, _, hph⟩); simp [hd] at this
    | finished => have := (ha.done_iff u).2 (.inr hph); simp [hd] at this
  obtain ⟨q, cur, hq⟩ := hb
  exact ⟨⟨q, cur, hq⟩, building_enabled hq⟩

/-! ### idempotence -/

/-- `Package.Build` called again (the Once is taken): no effect on the shared state, at any
time — while the first call is still running or after it has returned. -/
theorem build_call_noop {p : Pid} (hp : s.phase p ≠ .idle) : callBuild P s p = s := by
  unfold callBuild
  split
  · rename_i hi; exact absurd hi hp
  · rfl

/-- the first call of `Package.Build` is the `start` transition -/
theorem build_call_first {p : Pid} (hp : p < P.nproc) (hi : s.phase p = .idle)
    (hc : P.tok p = false ∨ running P s < P.cap) : Trans P s p .start (callBuild P s p) := by
  have := Trans.start (P := P) hp hi hc
  unfold callBuild; rw [hi]; exact this

theorem rebuild_noop (q : Pid) : ∀ fs : List FnId, (∀ f ∈ fs, isBuilt s f = true) → rebuildFns s q fs = s
  | [], _ => rfl
  | f :: fs, h => by
    unfold rebuildFns
    rw [if_pos (h f (List.mem_cons_self ..))]
    exact rebuild_noop q fs fun g hg => h g (List.mem_cons_of_mem _ hg)

/-- After `Program.Build` has returned, building again changes nothing: every `Package.Build`
finds its Once taken, no builder has a step left (the state is terminal), and
`buildFunction` — even called directly, by any builder, on any function of the program —
finds `build == nil`. -/
theorem build_idempotent (h : Reachable P s) (hf : allFinished P s) :
    (∀ p, p < P.nproc → callBuild P s p = s) ∧
    (∀ p l t, ¬ Trans P s p l t) ∧
    (∀ q fs, (∀ f ∈ fs, Needed P f) → rebuildFns s q fs = s) := by
  have ha := InvA_of_reachable h
  have hph : ∀ p, s.phase p = .idle ∧ P.nproc ≤ p ∨ s.phase p = .finished := by
    intro p
    by_cases hp : p < P.nproc
    · exact .inr (hf p hp)
    · exact .inl ⟨ha.range p (Nat.le_of_not_lt hp), Nat.le_of_not_lt hp⟩
  refine ⟨fun p hp => build_call_noop (by rw [hf p hp]; simp), ?_, ?_⟩
  · intro p l t ht
    rcases hph p with ⟨hi, hge⟩ | hfin
    · cases ht with
      | start hp' _ _ => exact absurd hp' (Nat.not_lt.2 hge)
      | _ => simp_all
    · cases ht <;> simp_all
  · intro q fs hfs
    apply rebuild_noop
    intro f hm
    exact isBuilt_true_iff.2 (program_build_complete h hf f (hfs f hm))


/-! ### the executable step used by the driver is the LTS -/

/-- the executable step only takes transitions of the LTS -/
theorem step_sound {p : Pid} {hint : Option (List Pid)} {l : Label} {t : St}
    (h : step P s p hint = some (l, t)) : Trans P s p l t := by
  unfold step at h
  split at h
  · rename_i hph
    split at h
    · rename_i hc; simp at h; obtain ⟨rfl, rfl⟩ := h; exact .start hc.1 hph hc.2
    · simp at h
  · rename_i hph; simp at h; obtain ⟨rfl, rfl⟩ := h; exact .markDone hph
  · rename_i f q hph
    split at h
    · rename_i hb; simp at h; obtain ⟨rfl, rfl⟩ := h; exact .skip hph hb
    · rename_i hb; simp at h; obtain ⟨rfl, rfl⟩ := h; exact .pick hph (by simpa using hb)
  · rename_i q f hph; simp at h; obtain ⟨rfl, rfl⟩ := h; exact .fnDone hph
  · rename_i q f k ks hph
    split at h
    · rename_i hl; simp at h; obtain ⟨rfl, rfl⟩ := h; exact .create hph hl
    · rename_i o hl
      split at h
      · rename_i hc; simp at h; obtain ⟨rfl, rfl⟩ := h; exact .hitNoEdge hph hl hc
      · rename_i hc
        have ho : o ≠ p := fun e => hc (.inl e)
        have htr : s.trans o = false := by
          cases ht : s.trans o with
          | false => rfl
          | true => exact absurd (.inr ht) hc
        split at h
        · rename_i hd; simp at h; obtain ⟨rfl, rfl⟩ := h; exact .hitPanic hph hl ho htr hd
        · rename_i hd; simp at h; obtain ⟨rfl, rfl⟩ := h
          exact .hitEdge hph hl ho htr (by simpa using hd)
  · rename_i w i hph
    split at h
    · rename_i hu; simp at h; obtain ⟨rfl, rfl⟩ := h; exact .waitEnd hph hu
    · rename_i u hu
      split at h
      · rename_i htr; simp at h; obtain ⟨rfl, rfl⟩ := h; exact .waitSkip hph hu htr
      · rename_i htr; simp at h; obtain ⟨rfl, rfl⟩ := h; exact .waitCheck hph hu (by simpa using htr)
  · rename_i w i hph
    split at h
    · simp at h
    · rename_i u hu
      split at h
      · rename_i hd
        generalize hint.getD (List.filter (fun v => !w.contains v) (s.edges u)) = new at h
        unfold recvStep at h
        split at h
        · rename_i hc
          simp at h; obtain ⟨rfl, rfl⟩ := h
          refine .waitRecv hph hu hd hc.1 ?_
          intro v
          constructor
          · intro hv; have := hc.2.1 v hv; simpa [List.mem_filter] using this
          · intro hv; exact hc.2.2 v (by simpa [List.mem_filter] using hv)
        · simp at h
      · simp at h
  · simp at h

/-- the only nondeterminism of a process: the order in which `wait` appends new edges -/
def hintOf : Label → Option (List Pid)
  | .waitRecv _ new => some new
  | _ => none

/-- every transition of the LTS is the executable step (given the order of the map walk) -/
theorem step_exact {p : Pid} {l : Label} {t : St} (h : Trans P s p l t) :
    step P s p (hintOf l) = some (l, t) := by
  cases h with
  | start hp hi hc => simp [step, hi, hp, hc]
  | pick hph hb => simp [step, hph, hb]
  | skip hph hb => simp [step, hph, hb]
  | create hph hl => simp [step, hph, hl]
  | hitNoEdge hph hl ho => simp [step, hph, hl, ho]
  | hitPanic hph hl ho htr hd => simp [step, hph, hl, ho, htr, hd]
  | hitEdge hph hl ho htr hd => simp [step, hph, hl, ho, htr, hd]
  | fnDone hph => simp [step, hph]
  | markDone hph => simp [step, hph]
  | waitSkip hph hu htr => simp [step, hph, hu, htr]
  | waitCheck hph hu htr => simp [step, hph, hu, htr]
  | @waitRecv w i u new hph hu hd hn hm =>
    have hc : new.Nodup ∧ (∀ v ∈ new, v ∈ (s.edges u).filter fun v => !(w.contains v)) ∧
        (∀ v ∈ (s.edges u).filter fun v => !(w.contains v), v ∈ new) := by
      refine ⟨hn, ?_, ?_⟩
      · intro v hv; have := (hm v).1 hv; simpa [List.mem_filter] using this
      · intro v hv; exact (hm v).2 (by simpa [List.mem_filter] using hv)
    simp only [step, hph, hu, hd, hintOf, Option.getD_some, if_true]
    unfold recvStep
    exact if_pos hc
  | waitEnd hph hu => simp [step, hph, hu]

/-- in reachable states the default order (insertion order of the edges) is always possible:
a process has a transition iff the executable step is defined -/
theorem step_enabled (h : Reachable P s) {p : Pid} {l : Label} {t : St} (ht : Trans P s p l t) :
    ∃ l' t', step P s p = some (l', t') := by
  have ha := InvA_of_reachable h
  cases ht with
  | @waitRecv w i u new hph hu hd hn hm =>
    have hc : ((s.edges u).filter fun v => !(w.contains v)).Nodup ∧
        (∀ v ∈ (s.edges u).filter fun v => !(w.contains v), v ∈ (s.edges u).filter fun v => !(w.contains v)) ∧
        (∀ v ∈ (s.edges u).filter fun v => !(w.contains v), v ∈ (s.edges u).filter fun v => !(w.contains v)) :=
      ⟨nodup_filter _ (ha.edges_nodup _), fun _ h => h, fun _ h => h⟩
    refine ⟨.waitRecv u ((s.edges u).filter fun v => !(w.contains v)),
      { s with phase := upd s.phase p (.waiting (w ++ (s.edges u).filter fun v => !(w.contains v)) (i + 1) false) }, ?_⟩
    simp only [step, hph, hu, hd, Option.getD_none, if_true]
    unfold recvStep
    exact if_pos hc
  | start hp hi hc => exact ⟨_, _, step_exact (.start hp hi hc)⟩
  | pick hph hb => exact ⟨_, _, step_exact (.pick hph hb)⟩
  | skip hph hb => exact ⟨_, _, step_exact (.skip hph hb)⟩
  | create hph hl => exact ⟨_, _, step_exact (.create hph hl)⟩
  | hitNoEdge hph hl ho => exact ⟨_, _, step_exact (.hitNoEdge hph hl ho)⟩
  | hitPanic hph hl ho htr hd => exact ⟨_, _, step_exact (.hitPanic hph hl ho htr hd)⟩
  | hitEdge hph hl ho htr hd => exact ⟨_, _, step_exact (.hitEdge hph hl ho htr hd)⟩
  | fnDone hph => exact ⟨_, _, step_exact (.fnDone hph)⟩
  | markDone hph => exact ⟨_, _, step_exact (.markDone hph)⟩
  | waitSkip hph hu htr => exact ⟨_, _, step_exact (.waitSkip hph hu htr)⟩
  | waitCheck hph hu htr => exact ⟨_, _, step_exact (.waitCheck hph hu htr)⟩
  | waitEnd hph hu => exact ⟨_, _, step_exact (.waitEnd hph hu)⟩

theorem runSched_reachable : ∀ (sched : List Pid) (s : St), Reachable P s →
    Reachable P (runSched P sched s)
  | [], _, h => h
  | p :: ps, s, h => by
    unfold runSched
    cases hs : step P s p with
    | none => simpa using runSched_reachable ps s h
    | some lt =>
      obtain ⟨l, t⟩ := lt
      simpa using runSched_reachable ps t (.step h (step_sound hs))


/-! ### the validator for the task graph a real build leaves behind -/

def FinalView.edgesOf (a : FinalView) (t : Nat) : List Nat := a.edges.getD t []

/-- what a task graph left behind by a finished build must satisfy -/
structure FinalOK (a : FinalView) : Prop where
  /-- every task reachable from any task is a task of the program and is done -/
  closed : ∀ t u, t < a.ntask → Reach a.edgesOf t u → u < a.ntask ∧ a.done.getD u false = true
  /-- every function is built, and every shared function its body refers to was created by
  its own builder, by a task the builder waited for, or by a task that is transitively done -/
  fns : ∀ f ∈ a.fns, f.2.1 = true ∧ ∀ o ∈ f.2.2, o < a.ntask ∧
      match f.1 with
      | none => a.trans.getD o false = true
      | some t => t < a.ntask ∧ (o = t ∨ o ∈ a.edgesOf t ∨ a.trans.getD o false = true)

theorem all_true_getD {l : List Bool} (h : l.all (· == true) = true) {i : Nat} (hi : i < l.length) :
    l.getD i false = true := by
  rw [List.all_eq_true] at h
  have := h l[i] (List.getElem_mem hi)
  simp [List.getD, List.getElem?_eq_getElem hi] at this ⊢
  exact this

/-- The validator run on the task graph a real build leaves behind is sound for `FinalOK`. -/
theorem checkFinal_sound {a : FinalView} (h : checkFinal a = true) : FinalOK a := by
  unfold checkFinal at h
  simp only [Bool.and_eq_true] at h
  obtain ⟨⟨⟨⟨hdone, hlt⟩, hle⟩, hedges⟩, hfns⟩ := h
  have hrange : ∀ t, t < a.ntask → ∀ e ∈ a.edgesOf t, e < a.ntask := by
    intro t ht e he
    rw [List.all_eq_true] at hedges
    have := hedges t (List.mem_range.2 ht)
    rw [List.all_eq_true] at this
    have := this e he
    simp at this; exact this.1
  constructor
  · intro t u ht hr
    have hu : u < a.ntask := by
      induction hr with
      | refl x => exact ht
      | head hy _ ih => exact ih (hrange _ ht _ hy)
    exact ⟨hu, all_true_getD hdone hu⟩
  · intro f hf
    rw [List.all_eq_true] at hfns
    have hc := hfns f hf
    unfold checkFn at hc
    simp only [Bool.and_eq_true] at hc
    obtain ⟨⟨hb, hr⟩, hm⟩ := hc
    refine ⟨hb, ?_⟩
    intro o ho
    rw [List.all_eq_true] at hr
    have hon : o < a.ntask := by simpa using hr o ho
    refine ⟨hon, ?_⟩
    split at hm
    · rename_i hnone; rw [hnone]
      rw [List.all_eq_true] at hm
      exact hm o ho
    · rename_i t hsome; rw [hsome]
      simp only [Bool.and_eq_true, decide_eq_true_eq] at hm
      refine ⟨hm.1, ?_⟩
      have := hm.2
      rw [List.all_eq_true] at this
      have := this o ho
      simp only [Bool.or_eq_true, beq_iff_eq, List.contains_eq_mem, decide_eq_true_eq] at this
      rcases this with (h1 | h2) | h3
      · exact .inl h1
      · exact .inr (.inl h2)
      · exact .inr (.inr h3)

theorem getD_map_range {α : Type} (f : Nat → α) (d : α) {n t : Nat} (h : t < n) :
    ((List.range n).map f).getD t d = f t := by
  simp [List.getD, h]

theorem lt_of_not_idle (ha : InvA P s) {p : Pid} (h : s.phase p ≠ .idle) : p < P.nproc := by
  apply Classical.byContradiction
  intro hn
  exact h (ha.range p (Nat.le_of_not_lt hn))

/-- the check of one function of the view, from the model invariants -/
theorem checkFn_ok (h : Reachable P s) {f : FnId} {o : Pid}
    (hb : (f, o) ∈ s.built) (ho : o < P.nproc) :
    checkFn (viewOf P s) (some o, isBuilt s f, (P.refs f).map (ownerOf s)) = true := by
  have ha := InvA_of_reachable h
  have hd := InvD_of_reachable h
  have hnt : (viewOf P s).ntask = P.nproc := by simp [viewOf, FinalView.ntask]
  have hdep : ∀ k ∈ P.refs f, ownerOf s k < P.nproc ∧
      (ownerOf s k = o ∨ ownerOf s k ∈ s.edges o ∨ s.trans (ownerOf s k) = true) := by
    intro k hk
    obtain ⟨o', hl, hdep⟩ := hd.built_dep f o hb k hk
    have : ownerOf s k = o' := by simp [ownerOf, hl]
    rw [this]
    exact ⟨lt_of_not_idle ha (ha.memo_started k o' (lookup_mem hl)), hdep⟩
  unfold checkFn
  simp only [Bool.and_eq_true, List.all_eq_true, List.mem_map, decide_eq_true_eq, hnt]
  refine ⟨⟨isBuilt_true_iff.2 ⟨o, hb⟩, ?_⟩, ho, ?_⟩
  · rintro x ⟨k, hk, rfl⟩; exact (hdep k hk).1
  · rintro x ⟨k, hk, rfl⟩
    obtain ⟨hlt, hc⟩ := hdep k hk
    simp only [viewOf, getD_map_range _ _ ho, getD_map_range _ _ hlt, Bool.or_eq_true, beq_iff_eq,
      List.contains_eq_mem, decide_eq_true_eq]
    rcases hc with h1 | h2 | h3
    · exact .inl (.inl h1)
    · exact .inl (.inr h2)
    · exact .inr h3

/-- The validator accepts every final state of the model. -/
theorem final_check_complete (h : Reachable P s) (hf : allFinished P s) :
    checkFinal (viewOf P s) = true := by
  have ha := InvA_of_reachable h
  have hc := InvC_of_reachable h
  have hnt : (viewOf P s).ntask = P.nproc := by simp [viewOf, FinalView.ntask]
  have hdone : ∀ p, p < P.nproc → s.done p = true := fun p hp => (ha.done_iff p).2 (.inr (hf p hp))
  unfold checkFinal
  simp only [Bool.and_eq_true, hnt]
  refine ⟨⟨⟨⟨?_, by simp [viewOf]⟩, by simp [viewOf]⟩, ?_⟩, ?_⟩
  · simp only [viewOf, List.all_eq_true, List.mem_map, List.mem_range]
    rintro x ⟨p, hp, rfl⟩; simp [hdone p hp]
  · simp only [List.all_eq_true, List.mem_range]
    intro t ht e he
    simp only [viewOf, getD_map_range _ _ ht] at he
    have := ha.edges_started t e he
    simp [lt_of_not_idle ha this.1, this.2]
  · simp only [List.all_eq_true]
    intro f hfm
    simp only [viewOf, List.mem_append, List.mem_map, List.mem_flatMap, List.mem_range] at hfm
    rcases hfm with ⟨⟨k, o⟩, hm, rfl⟩ | ⟨p, hp, n, hn, rfl⟩
    · have ho := lt_of_not_idle ha (ha.memo_started k o hm)
      exact checkFn_ok h (built_of_done_owner h hm (hdone o ho)) ho
    · have hb : (FnId.decl p n, p) ∈ s.built := by
        rcases hc.roots_q p n hn with hi | hb | hq
        · rw [hf p hp] at hi; cases hi
        · exact hb
        · unfold InQueue at hq; rw [hf p hp] at hq; exact hq.elim
      exact checkFn_ok h hb hp


/-! ### Non-vacuity: a concrete program, concrete interleavings -/

/-- three packages; `0` and `1` both need the mutually recursive shared functions 10 and 11
(created by whoever comes first — a cyclic wait), 12 is needed by `0` and `2`, 13 only
through 11 -/
def exProg : Prog :=
  { nproc := 3, cap := 2, tok := fun _ => true,
    roots := fun p => match p with | 0 => [0, 1] | 1 => [0] | 2 => [0] | _ => [],
    refs := fun f => match f with
      | .decl 0 0 => [10, 11]
      | .decl 0 1 => [12]
      | .decl 1 0 => [11, 10]
      | .decl 2 0 => [12, 10]
      | .shared 10 => [11]
      | .shared 11 => [10, 13]
      | .shared 12 => [10]
      | _ => [] }

def rr : Nat → List Pid
  | 0 => []
  | n + 1 => [0, 1, 2] ++ rr n

/-- round robin: builders 0 and 1 create 10 resp. 11 and wait for each other -/
def exFinal : St := runSched exProg (rr 40) init
/-- serial: capacity 1, lowest package first -/
def exProg1 : Prog := { exProg with cap := 1 }
def exSerial : St := runSched exProg1 (List.replicate 40 0 ++ List.replicate 40 1 ++ List.replicate 40 2) init
/-- builder 1 has created 11 and stalls; builder 0 runs until it blocks on 1's task -/
def exBlocked : St := runSched exProg ([1, 1, 1] ++ List.replicate 30 0) init

theorem exFinal_reachable : Reachable exProg exFinal := runSched_reachable _ _ .init
theorem exSerial_reachable : Reachable exProg1 exSerial := runSched_reachable _ _ .init
theorem exBlocked_reachable : Reachable exProg exBlocked := runSched_reachable _ _ .init
theorem exFinal_finished : allFinished exProg exFinal := by decide +kernel
theorem exSerial_finished : allFinished exProg1 exSerial := by decide +kernel

/-- `created_once`, `built_once`: four shared functions, eight functions built -/
example : exFinal.memo.length = 4 ∧ exFinal.built.length = 8 ∧ (exFinal.memo.map Prod.fst).Nodup :=
  ⟨by decide +kernel, by decide +kernel, (created_once exFinal_reachable).1⟩

/-- `wait_complete` on a cyclic task graph: 0 → 1 → 0 -/
example : exFinal.edges 0 = [1] ∧ exFinal.edges 1 = [0] ∧ exFinal.done 1 = true :=
  ⟨by decide +kernel, by decide +kernel,
   wait_complete exFinal_reachable (exFinal_finished 0 (by decide)) 1
     (.head (by decide +kernel) (.refl 1))⟩

/-- `build_complete`: package 0 needs 13 only through 10 → 11 → 13, created by builder 1 -/
example : Built exFinal (.shared 13) :=
  build_complete exFinal_reachable (exFinal_finished 0 (by decide)) _
    (.ref (.ref (.ref (.root (n := 0) (by decide)) (k := 10) (by decide)) (k := 11) (by decide)) (k := 13) (by decide))
example : (FnId.shared 13, 1) ∈ exFinal.built := by decide +kernel

/-- `no_deadlock`: the initial state is not finished and has a step -/
example : ∃ p l t, Trans exProg init p l t :=
  no_deadlock .init (by decide) (fun h => by have := h 0 (by decide); simp [init] at this)

/-- `blocked_on_active_builder`: builder 0 is blocked on the task of builder 1, which builds -/
example : exBlocked.phase 0 = .waiting [0, 1] 1 true ∧ exBlocked.done 1 = false := by decide +kernel
example : ∃ l t, Trans exProg exBlocked 1 l t :=
  (blocked_on_active_builder exBlocked_reachable (p := 0) (w := [0, 1]) (i := 1) (u := 1)
    (by decide +kernel) (by decide) (by decide +kernel)).2

/-- `build_idempotent`, `schedule_independent`, `final_check_complete` have their hypotheses met -/
example : ∀ p l t, ¬ Trans exProg exFinal p l t := (build_idempotent exFinal_reachable exFinal_finished).2.1
example : ∀ f, Built exFinal f ↔ Built exSerial f :=
  (schedule_independent (P := exProg) (P' := exProg1) rfl rfl rfl
    exFinal_reachable exFinal_finished exSerial_reachable exSerial_finished).1
example : exSerial.edges 0 = [] ∧ exSerial.edges 1 = [] := by decide +kernel
example : checkFinal (viewOf exProg exFinal) = true := final_check_complete exFinal_reachable exFinal_finished
/-- the validator rejects a graph with a task that is not done, and one with a missing edge -/
def exViewUndone : FinalView := { done := [true, false], trans := [true, false], edges := [[1], []], fns := [] }
def exViewNoEdge : FinalView :=
  { done := [true, true], trans := [false, false], edges := [[], []], fns := [(some 0, true, [1])] }
def exViewEdge : FinalView :=
  { done := [true, true], trans := [false, false], edges := [[1], []], fns := [(some 0, true, [1])] }
example : checkFinal exViewUndone = false ∧ checkFinal exViewNoEdge = false ∧ checkFinal exViewEdge = true := by
  decide
/-- `no_panic` is about a reachable flag: the transition exists in the LTS -/
example : ∃ (s : St) (t : St), Trans exProg s 0 .panic t :=
  ⟨{ init with phase := upd init.phase 0 (.building [] (some (.decl 0 0, [7]))), memo := [(7, 1)],
                done := upd init.done 0 true }, _,
   .hitPanic (f := .decl 0 0) (k := 7) (ks := []) (q := []) (o := 1) (by simp [upd]) (by simp [List.lookup])
     (by decide) (by simp [init]) (by simp [upd])⟩

end Verif.C18
