import Verif.C18.Driver
import Verif.C18.Theorems
/-!
C18 — what an accepted trace means: if the driver's `traceLoop` accepts the protocol events of a
real build, the states it went through are reachable states of the LTS (every accepted event is a
transition, `step_sound`), so every theorem about `Reachable` applies to them; in particular at
each `return` event (code 11, checked `finished`) `build_complete` holds for that builder.
-/
namespace Verif.C18

theorem traceLoop_reachable {P : Prog} : ∀ (evs : List Ev) (s : St) (n : Nat) {t : St} {m : Nat},
    traceLoop P evs s n = .ok (t, m) → Reachable P s → Reachable P t
  | [], s, n, t, m, h, hr => by
    simp only [traceLoop, Except.ok.injEq, Prod.mk.injEq] at h
    rw [← h.1]; exact hr
  | e :: es, s, n, t, m, h, hr => by
    unfold traceLoop at h
    split at h
    · split at h
      · exact traceLoop_reachable es s (n + 1) h hr
      · cases h
    · simp only at h
      split at h
      · cases h
      · rename_i l t' hs
        split at h
        · exact traceLoop_reachable es t' (n + 1) h (.step hr (step_sound hs))
        · cases h

/-- An accepted trace that ends with every builder finished: everything the program needs is
built, exactly once, and nothing else. -/
theorem accepted_trace_complete {P : Prog} {evs : List Ev} {t : St} {m : Nat}
    (h : traceLoop P evs init 0 = .ok (t, m)) (hf : allFinished P t) :
    (∀ f, Built t f ↔ Needed P f) ∧ (t.built.map Prod.fst).Nodup ∧ (t.memo.map Prod.fst).Nodup ∧
    t.panicked = false :=
  have hr := traceLoop_reachable evs init 0 h .init
  ⟨final_functions hr hf, (built_once hr).1, (created_once hr).1, no_panic hr⟩


/-! non-vacuity: a one-package program whose only function instantiates one shared function; the
events a real build produces for it are accepted, a trace with a premature `markDone` is not -/
def tinyProg : Prog := mkProg 1 0 [] [(0, 0)] [(.decl 0 0, [5]), (.shared 5, [])]
def tinyTrace : List Ev :=
  [⟨0, 0, []⟩, ⟨0, 1, [0, 0, 0]⟩, ⟨0, 3, [5]⟩, ⟨0, 5, [0, 0, 0]⟩, ⟨0, 1, [1, 5, 0]⟩, ⟨0, 5, [1, 5, 0]⟩,
   ⟨0, 6, []⟩, ⟨0, 8, [0]⟩, ⟨0, 9, [0]⟩, ⟨0, 10, []⟩, ⟨0, 11, []⟩]
def accepted (r : Except String (St × Nat)) : Bool := match r with | .ok _ => true | .error _ => false

example : accepted (traceLoop tinyProg tinyTrace init 0) = true := by decide +kernel
example : accepted (traceLoop tinyProg (tinyTrace.take 4 ++ tinyTrace.drop 6) init 0) = false := by
  decide +kernel

end Verif.C18
