import Verif.C18.Model
namespace Verif.C18

attribute [grind =] upd_apply
attribute [grind] insertEdge

theorem nodup_filter {α : Type} (p : α → Bool) : ∀ {l : List α}, l.Nodup → (l.filter p).Nodup := by
  intro l h
  induction l with
  | nil => simp
  | cons a l ih =>
    simp only [List.nodup_cons] at h
    simp only [List.filter_cons]
    split
    · simp only [List.nodup_cons, List.mem_filter]; exact ⟨fun h' => h.1 h'.1, ih h.2⟩
    · exact ih h.2

theorem nodup_insertEdge {es : List Pid} {y : Pid} (h : es.Nodup) : (insertEdge es y).Nodup := by
  unfold insertEdge
  split
  · exact h
  · rw [List.nodup_append]; refine ⟨h, by simp, ?_⟩
    intro a ha b hb; simp at hb; subst hb; intro e; subst e; contradiction

theorem mem_insertEdge {es : List Pid} {y v : Pid} : v ∈ insertEdge es y ↔ v ∈ es ∨ v = y := by
  unfold insertEdge
  split <;> simp <;> grind

/-- Group A: basic shape invariants -/
structure InvA (P : Prog) (s : St) : Prop where
  range : ∀ p, P.nproc ≤ p → s.phase p = .idle
  nopanic : s.panicked = false
  done_iff : ∀ p, s.done p = true ↔ ((∃ w i r, s.phase p = .waiting w i r) ∨ s.phase p = .finished)
  trans_iff : ∀ p, s.trans p = true ↔ s.phase p = .finished
  edges_started : ∀ p o, o ∈ s.edges p → s.phase o ≠ .idle ∧ o ≠ p
  edges_nodup : ∀ p, (s.edges p).Nodup
  memo_started : ∀ k o, (k, o) ∈ s.memo → s.phase o ≠ .idle
  work : ∀ p w i r, s.phase p = .waiting w i r →
    (∀ u ∈ w, s.phase u ≠ .idle) ∧ i ≤ w.length ∧ (r = true → i < w.length) ∧ w.Nodup

theorem InvA_init (P : Prog) : InvA P init := by
  constructor <;> simp [init]

theorem lookup_mem {l : List (Key × Pid)} {k : Key} {o : Pid} (h : l.lookup k = some o) : (k, o) ∈ l := by
  induction l with
  | nil => simp at h
  | cons a l ih =>
    obtain ⟨k', o'⟩ := a
    rw [List.lookup_cons] at h
    split at h
    · simp_all
    · simp [ih h]


section A
variable {P : Prog} {s t : St} {p : Pid} {l : Label}

theorem InvA_range (h : InvA P s) (ht : Trans P s p l t) : ∀ p, P.nproc ≤ p → t.phase p = .idle := by
  obtain ⟨h1, h2, h3, h4, h5, h6, h7, h8⟩ := h
  cases ht <;> grind

theorem InvA_nopanic (h : InvA P s) (ht : Trans P s p l t) : t.panicked = false := by
  obtain ⟨h1, h2, h3, h4, h5, h6, h7, h8⟩ := h
  cases ht <;> grind

theorem InvA_done_iff (h : InvA P s) (ht : Trans P s p l t) :
    ∀ p, t.done p = true ↔ ((∃ w i r, t.phase p = .waiting w i r) ∨ t.phase p = .finished) := by
  obtain ⟨h1, h2, h3, h4, h5, h6, h7, h8⟩ := h
  cases ht <;> grind

theorem InvA_trans_iff (h : InvA P s) (ht : Trans P s p l t) :
    ∀ p, t.trans p = true ↔ t.phase p = .finished := by
  obtain ⟨h1, h2, h3, h4, h5, h6, h7, h8⟩ := h
  cases ht <;> grind

theorem InvA_edges_started (h : InvA P s) (ht : Trans P s p l t) :
    ∀ p o, o ∈ t.edges p → t.phase o ≠ .idle ∧ o ≠ p := by
  obtain ⟨h1, h2, h3, h4, h5, h6, h7, h8⟩ := h
  have := @mem_insertEdge
  cases ht with
  | hitEdge hph hl ho htr hd => have hm := h7 _ _ (lookup_mem hl); grind
  | _ => grind

theorem InvA_edges_nodup (h : InvA P s) (ht : Trans P s p l t) : ∀ p, (t.edges p).Nodup := by
  obtain ⟨h1, h2, h3, h4, h5, h6, h7, h8⟩ := h
  have := @nodup_insertEdge
  cases ht <;> grind

theorem InvA_memo_started (h : InvA P s) (ht : Trans P s p l t) :
    ∀ k o, (k, o) ∈ t.memo → t.phase o ≠ .idle := by
  obtain ⟨h1, h2, h3, h4, h5, h6, h7, h8⟩ := h
  cases ht <;> grind

theorem InvA_work (h : InvA P s) (ht : Trans P s p l t) :
    ∀ p w i r, t.phase p = .waiting w i r →
      (∀ u ∈ w, t.phase u ≠ .idle) ∧ i ≤ w.length ∧ (r = true → i < w.length) ∧ w.Nodup := by
  obtain ⟨h1, h2, h3, h4, h5, h6, h7, h8⟩ := h
  cases ht with
  | waitSkip hph hu htr =>
    have := (List.getElem?_eq_some_iff (l := _) (i := _) (a := _)).1 hu
    grind
  | waitCheck hph hu htr =>
    have := (List.getElem?_eq_some_iff (l := _) (i := _) (a := _)).1 hu
    grind
  | @waitRecv w i u new hph hu hd hn hm =>
    have := (List.getElem?_eq_some_iff (l := _) (i := _) (a := _)).1 hu
    have hlt : i < w.length := this.1
    intro p' w' i' r' hp'
    by_cases hpp : p' = p
    · subst hpp
      simp only [upd_same] at hp'
      injection hp' with e1 e2 e3
      subst e1 e2 e3
      have hw := h8 _ _ _ _ hph
      refine ⟨?_, ?_, by simp, ?_⟩
      · intro v hv
        rw [List.mem_append] at hv
        rcases hv with hv | hv
        · have := hw.1 v hv; grind
        · have := (hm v).1 hv; have := h5 _ _ this.1; grind
      · simp; omega
      · rw [List.nodup_append]; refine ⟨hw.2.2.2, hn, ?_⟩
        intro a ha b hb e; subst e; exact ((hm a).1 hb).2 ha
    · have hq : s.phase p' = .waiting w' i' r' := by simpa [upd_apply, hpp] using hp'
      have hw := h8 _ _ _ _ hq
      refine ⟨?_, hw.2⟩
      intro v hv; have := hw.1 v hv; grind
  | _ => grind

theorem InvA_step (h : InvA P s) (ht : Trans P s p l t) : InvA P t :=
  ⟨InvA_range h ht, InvA_nopanic h ht, InvA_done_iff h ht, InvA_trans_iff h ht,
   InvA_edges_started h ht, InvA_edges_nodup h ht, InvA_memo_started h ht, InvA_work h ht⟩

theorem InvA_of_reachable (h : Reachable P s) : InvA P s := by
  induction h with
  | init => exact InvA_init P
  | step _ ht ih => exact InvA_step ih ht

end A

/-! ### Group B: the BFS of `wait` and the meaning of `transitive` -/

theorem reach_upd {e : Pid → List Pid} {p : Pid} {es : List Pid} {o u : Pid}
    (h : Reach (upd e p es) o u) : Reach e o u ∨ Reach e o p := by
  induction h with
  | refl x => exact .inl (.refl x)
  | @head x y z hy _ ih =>
    by_cases hx : x = p
    · subst hx; exact .inr (.refl _)
    · rw [upd_other _ _ _ _ hx] at hy
      rcases ih with ih | ih
      · exact .inl (.head hy ih)
      · exact .inr (.head hy ih)

theorem reach_trans {e : Pid → List Pid} {x y z : Pid} (h1 : Reach e x y) (h2 : Reach e y z) :
    Reach e x z := by
  induction h1 with
  | refl => exact h2
  | head hy _ ih => exact .head hy (ih h2)

structure InvB (s : St) : Prop where
  bfs : ∀ p w i r, s.phase p = .waiting w i r → w[0]? = some p ∧
        ∀ j u, j < i → w[j]? = some u →
          s.trans u = true ∨ (s.done u = true ∧ ∀ v ∈ s.edges u, v ∈ w)
  closed : ∀ o, s.trans o = true → ∀ u, Reach s.edges o u → s.done u = true

theorem InvB_init : InvB init := by
  constructor
  · simp [init]
  · simp [init]

/-- a work list all of whose members have been processed is closed under edges up to
transitively done tasks, hence everything reachable from a member is done -/
theorem bfs_closed {s : St} {w : List Pid}
    (hc : ∀ o, s.trans o = true → ∀ u, Reach s.edges o u → s.done u = true)
    (hw : ∀ x ∈ w, s.trans x = true ∨ (s.done x = true ∧ ∀ v ∈ s.edges x, v ∈ w))
    {x u : Pid} (hr : Reach s.edges x u) (hx : x ∈ w) : s.done u = true := by
  induction hr with
  | refl x =>
    rcases hw x hx with h | h
    · exact hc x h x (.refl x)
    · exact h.1
  | @head x y z hy hyz ih =>
    rcases hw x hx with h | h
    · exact hc x h z (.head hy hyz)
    · exact ih (h.2 y hy)

section B
variable {P : Prog} {s t : St} {p : Pid} {l : Label}

theorem InvB_bfs (ha : InvA P s) (h : InvB s) (ht : Trans P s p l t) :
    ∀ p w i r, t.phase p = .waiting w i r → w[0]? = some p ∧
        ∀ j u, j < i → w[j]? = some u →
          t.trans u = true ∨ (t.done u = true ∧ ∀ v ∈ t.edges u, v ∈ w) := by
  obtain ⟨h1, h2, h3, h4, h5, h6, h7, h8⟩ := ha
  obtain ⟨b1, b2⟩ := h
  cases ht with
  | @waitRecv w i u new hph hu hd hn hm =>
    have hlt := ((List.getElem?_eq_some_iff (l := _) (i := _) (a := _)).1 hu).1
    intro p' w' i' r' hp'
    by_cases hpp : p' = p
    · subst hpp
      simp only [upd_same] at hp'
      injection hp' with e1 e2 e3
      subst e1 e2 e3
      have hb := b1 _ _ _ _ hph
      refine ⟨?_, ?_⟩
      · rw [List.getElem?_append]; have := hb.1; grind
      · intro j x hj hx
        by_cases hji : j = i
        · subst hji
          have : (w ++ new)[j]? = w[j]? := by rw [List.getElem?_append]; simp [hlt]
          rw [this, hu] at hx; injection hx with hx; subst hx
          right; refine ⟨hd, ?_⟩
          intro v hv
          by_cases hvw : v ∈ w
          · exact List.mem_append_left _ hvw
          · exact List.mem_append_right _ ((hm v).2 ⟨hv, hvw⟩)
        · have hj' : j < i := by omega
          have : (w ++ new)[j]? = w[j]? := by rw [List.getElem?_append]; simp; omega
          rw [this] at hx
          rcases hb.2 j x hj' hx with h | h
          · exact .inl h
          · exact .inr ⟨h.1, fun v hv => List.mem_append_left _ (h.2 v hv)⟩
    · have hq : s.phase p' = .waiting w' i' r' := by simpa [upd_apply, hpp] using hp'
      exact b1 _ _ _ _ hq
  | @waitSkip w i u hph hu htr =>
    intro p' w' i' r' hp'
    by_cases hpp : p' = p
    · subst hpp
      simp only [upd_same] at hp'
      injection hp' with e1 e2 e3
      subst e1 e2 e3
      have hb := b1 _ _ _ _ hph
      refine ⟨hb.1, ?_⟩
      intro j x hj hx
      by_cases hji : j = i
      · subst hji; rw [hu] at hx; injection hx with hx; subst hx; exact .inl htr
      · exact hb.2 j x (by omega) hx
    · have hq : s.phase p' = .waiting w' i' r' := by simpa [upd_apply, hpp] using hp'
      exact b1 _ _ _ _ hq
  | hitEdge hph hl ho htr hd =>
    intro p' w' i' r' hp'
    have hpp : p' ≠ p := by intro e; subst e; simp at hp'
    have hq : s.phase p' = .waiting w' i' r' := by simpa [upd_apply, hpp] using hp'
    have hb := b1 _ _ _ _ hq
    refine ⟨hb.1, ?_⟩
    intro j x hj hx
    rcases hb.2 j x hj hx with h | h
    · exact .inl h
    · right; refine ⟨h.1, ?_⟩
      have : x ≠ p := by intro e; subst e; simp [hd] at h
      simpa [upd_apply, this] using h.2
  | _ => grind

theorem InvB_closed (_ha : InvA P s) (h : InvB s) (ht : Trans P s p l t) :
    ∀ o, t.trans o = true → ∀ u, Reach t.edges o u → t.done u = true := by
  obtain ⟨b1, b2⟩ := h
  cases ht with
  | hitEdge hph hl ho htr hd =>
    intro o' ho' u hr
    rcases reach_upd hr with h | h
    · exact b2 o' ho' u h
    · have := b2 o' ho' _ h; simp [hd] at this
  | @waitEnd w i hph hu =>
    intro o' ho' u hr
    by_cases hop : o' = p
    · subst hop
      have hb := b1 _ _ _ _ hph
      have hlen : w.length ≤ i := List.getElem?_eq_none_iff.1 hu
      have hw : ∀ x ∈ w, s.trans x = true ∨ (s.done x = true ∧ ∀ v ∈ s.edges x, v ∈ w) := by
        intro x hx
        obtain ⟨j, hj⟩ := List.mem_iff_getElem?.1 hx
        have hjl := ((List.getElem?_eq_some_iff (l := _) (i := _) (a := _)).1 hj).1
        exact hb.2 j x (by omega) hj
      have hpw : o' ∈ w := List.mem_iff_getElem?.2 ⟨0, hb.1⟩
      exact bfs_closed b2 hw hr hpw
    · have : s.trans o' = true := by simpa [upd_apply, hop] using ho'
      exact b2 o' this u hr
  | markDone hph =>
    intro o' ho' u hr
    have := b2 o' ho' u hr
    simp [upd_apply]; grind
  | _ => exact b2

theorem InvB_step (ha : InvA P s) (h : InvB s) (ht : Trans P s p l t) : InvB t :=
  ⟨InvB_bfs ha h ht, InvB_closed ha h ht⟩

theorem InvB_of_reachable (h : Reachable P s) : InvB s := by
  induction h with
  | init => exact InvB_init
  | step hs ht ih => exact InvB_step (InvA_of_reachable hs) ih ht

end B
end Verif.C18
