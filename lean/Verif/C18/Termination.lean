import Verif.C18.Theorems
/-!
C18 — every build terminates: a measure on states that every transition strictly decreases
(for programs whose shared-function keys are bounded, i.e. finitely many instantiations —
go/types rejects infinitely expanding instantiation cycles).  Together with
`no_deadlock` (Theorems.lean): every maximal run is finite and ends with all builders
finished, i.e. `Program.Build` returns, under every scheduler.
-/
namespace Verif.C18

/-- steps needed for one function: pick, one per lookup, done -/
def cost (P : Prog) (f : FnId) : Nat := (P.refs f).length + 2

def qcost (P : Prog) (q : List FnId) : Nat := (q.map (cost P)).sum

def curCost : Option (FnId × List Key) → Nat
  | none => 0
  | some (_, ks) => ks.length + 1

/-- budget of a builder: remaining queue, current function, `markDone`, the whole `wait` -/
def pm (P : Prog) (p : Pid) : Phase → Nat
  | .idle => qcost P ((P.roots p).map (FnId.decl p)) + 2 * P.nproc + 4
  | .building q cur => qcost P q + curCost cur + 2 * P.nproc + 3
  | .waiting _ i r => 2 * (P.nproc - i) + (if r then 0 else 1)
  | .finished => 0

/-- cost of the shared functions (keys below `K`) that do not exist yet -/
def gm (P : Prog) (K : Nat) (memo : List (Key × Pid)) : Nat :=
  (((List.range K).filter fun k => (memo.lookup k).isNone).map fun k => cost P (.shared k)).sum

def mu (P : Prog) (K : Nat) (s : St) : Nat :=
  gm P K s.memo + ((List.range P.nproc).map fun p => pm P p (s.phase p)).sum

theorem sum_change {h h' : Nat → Nat} {p : Nat} : ∀ {l : List Nat}, l.Nodup → p ∈ l →
    (∀ q ∈ l, q ≠ p → h' q = h q) → (l.map h').sum + h p = (l.map h).sum + h' p
  | [], _, hp, _ => by simp at hp
  | a :: l, hn, hp, hq => by
    simp only [List.nodup_cons] at hn
    simp only [List.map_cons, List.sum_cons]
    by_cases hap : a = p
    · subst hap
      have : l.map h' = l.map h := by
        apply List.map_congr_left
        intro q hq'
        exact hq q (List.mem_cons_of_mem _ hq') (fun e => hn.1 (e ▸ hq'))
      rw [this]; omega
    · have hp' : p ∈ l := by
        rcases List.mem_cons.1 hp with e | e
        · exact absurd e.symm hap
        · exact e
      have ih := sum_change hn.2 hp' (fun q hq' hne => hq q (List.mem_cons_of_mem _ hq') hne)
      have := hq a (List.mem_cons_self ..) hap
      omega

theorem sum_filter_remove {g : Nat → Nat} {pr pr' : Nat → Bool} {k : Nat} : ∀ {l : List Nat}, l.Nodup → k ∈ l →
    pr k = true → pr' k = false → (∀ q ∈ l, q ≠ k → pr' q = pr q) →
    ((l.filter pr').map g).sum + g k = ((l.filter pr).map g).sum
  | [], _, hk, _, _, _ => by simp at hk
  | a :: l, hn, hk, h1, h2, hq => by
    simp only [List.nodup_cons] at hn
    by_cases hak : a = k
    · subst hak
      have : l.filter pr' = l.filter pr := by
        apply List.filter_congr
        intro q hq'
        exact hq q (List.mem_cons_of_mem _ hq') (fun e => hn.1 (e ▸ hq'))
      simp [h1, h2, this]; omega
    · have hk' : k ∈ l := by
        rcases List.mem_cons.1 hk with e | e
        · exact absurd e.symm hak
        · exact e
      have ih := sum_filter_remove (g := g) hn.2 hk' h1 h2 (fun q hq' hne => hq q (List.mem_cons_of_mem _ hq') hne)
      have hpa := hq a (List.mem_cons_self ..) hak
      simp only [List.filter_cons, hpa]
      split
      · simp only [List.map_cons, List.sum_cons]; omega
      · exact ih

/-- a duplicate-free list of numbers below `n` has at most `n` elements -/
theorem nodup_length_le : ∀ (n : Nat) (l : List Nat), l.Nodup → (∀ x ∈ l, x < n) → l.length ≤ n
  | 0, l, _, h => by
    cases l with
    | nil => simp
    | cons a l => exact absurd (h a (List.mem_cons_self ..)) (Nat.not_lt_zero _)
  | n + 1, l, hn, h => by
    have ih := nodup_length_le n (l.erase n) (hn.erase n) (by
      intro x hx
      have := (hn.mem_erase_iff).1 hx
      have := h x this.2
      omega)
    by_cases hm : n ∈ l
    · have := List.length_erase_of_mem hm; omega
    · have : l.erase n = l := List.erase_of_not_mem hm
      rw [this] at ih; omega

section T
variable {P : Prog} {s t : St} {p : Pid} {l : Label} {K : Nat}

/-- local change of one builder's phase, memo untouched -/
theorem mu_local (hp : p < P.nproc) {ph : Phase} (hm : t.memo = s.memo) (hph : t.phase = upd s.phase p ph)
    (hlt : pm P p ph < pm P p (s.phase p)) : mu P K t < mu P K s := by
  have key := sum_change (h := fun q => pm P q (s.phase q)) (h' := fun q => pm P q (upd s.phase p ph q))
    (p := p) (l := List.range P.nproc) List.nodup_range (List.mem_range.2 hp)
    (fun q _ hne => by simp [upd_apply, hne])
  simp only [upd_same] at key
  unfold mu
  rw [hm, hph]
  generalize ((List.range P.nproc).map fun q => pm P q (upd s.phase p ph q)).sum = A at key ⊢
  generalize ((List.range P.nproc).map fun q => pm P q (s.phase q)).sum = B at key ⊢
  omega

theorem qcost_cons (f : FnId) (q : List FnId) : qcost P (f :: q) = cost P f + qcost P q := by
  simp [qcost]

theorem qcost_append (q : List FnId) (f : FnId) : qcost P (q ++ [f]) = qcost P q + cost P f := by
  simp [qcost]

/-- Every transition from a reachable state strictly decreases the measure. -/
theorem mu_decreases (hK : ∀ f k, k ∈ P.refs f → k < K) (h : Reachable P s) (ht : Trans P s p l t) :
    mu P K t < mu P K s := by
  have ha := InvA_of_reachable h
  have hd := InvD_of_reachable h
  have hpn : s.phase p ≠ .idle → p < P.nproc := fun hne => by
    apply Classical.byContradiction
    intro hn
    exact hne (ha.range p (Nat.le_of_not_lt hn))
  cases ht with
  | start hp hi hc =>
    exact mu_local hp rfl rfl (by rw [hi]; simp [pm, curCost] <;> omega)
  | @pick f q hph hb =>
    exact mu_local (hpn (by simp [hph])) rfl rfl (by rw [hph]; simp [pm, curCost, qcost_cons, cost] <;> omega)
  | @skip f q hph hb =>
    exact mu_local (hpn (by simp [hph])) rfl rfl (by rw [hph]; simp [pm, curCost, qcost_cons, cost] <;> omega)
  | @create f k ks q hph hl =>
    have hp := hpn (by simp [hph])
    have hk : k < K := by
      obtain ⟨pre, hpre, _⟩ := hd.cur_dep _ _ _ _ hph
      exact hK f k (by rw [hpre]; simp)
    have hg := sum_filter_remove (g := fun k => cost P (.shared k))
      (pr := fun k' => (s.memo.lookup k').isNone)
      (pr' := fun k' => ((s.memo ++ [(k, p)]).lookup k').isNone) (k := k) (l := List.range K)
      List.nodup_range (List.mem_range.2 hk) (by simp [hl]) (by rw [lookup_append_of_none hl]; rfl)
      (by
        intro q' _ hne
        rw [List.lookup_append]
        cases hq : List.lookup q' s.memo with
        | some o => simp
        | none =>
          have : (q' == k) = false := by simpa using hne
          simp [List.lookup_cons, this])
    have hs := sum_change (h := fun q' => pm P q' (s.phase q'))
      (h' := fun q' => pm P q' (upd s.phase p (.building (q ++ [.shared k]) (some (f, ks))) q'))
      (p := p) (l := List.range P.nproc) List.nodup_range (List.mem_range.2 hp)
      (fun q' _ hne => by simp [upd_apply, hne])
    simp only [upd_same] at hs
    unfold mu gm
    simp only at hg ⊢
    generalize ((List.range P.nproc).map fun q' =>
      pm P q' (upd s.phase p (.building (q ++ [.shared k]) (some (f, ks))) q')).sum = A at hs ⊢
    generalize ((List.range P.nproc).map fun q' => pm P q' (s.phase q')).sum = B at hs ⊢
    generalize (((List.range K).filter fun k' => ((s.memo ++ [(k, p)]).lookup k').isNone).map
      fun k => cost P (.shared k)).sum = C at hg ⊢
    generalize (((List.range K).filter fun k' => (s.memo.lookup k').isNone).map
      fun k => cost P (.shared k)).sum = D at hg ⊢
    rw [hph] at hs
    simp only [pm, curCost, qcost_append, List.length_cons, cost] at hs hg
    omega
  | @hitNoEdge f k ks q o hph hl ho =>
    exact mu_local (hpn (by simp [hph])) rfl rfl (by rw [hph]; simp [pm, curCost])
  | hitPanic hph hl ho htr hd' =>
    exfalso
    have := (ha.done_iff p).1 hd'
    rw [hph] at this; simp at this
  | @hitEdge f k ks q o hph hl ho htr hd' =>
    exact mu_local (hpn (by simp [hph])) rfl rfl (by rw [hph]; simp [pm, curCost])
  | @fnDone f q hph =>
    exact mu_local (hpn (by simp [hph])) rfl rfl (by rw [hph]; simp [pm, curCost])
  | markDone hph =>
    exact mu_local (hpn (by simp [hph])) rfl rfl (by rw [hph]; simp [pm, curCost, qcost] <;> omega)
  | @waitSkip w i u hph hu htr =>
    have hp := hpn (by simp [hph])
    have hw := ha.work p w i false hph
    have hi : i < w.length := ((List.getElem?_eq_some_iff (l := _) (i := _) (a := _)).1 hu).1
    have hlen : w.length ≤ P.nproc := nodup_length_le _ w hw.2.2.2 (fun x hx => by
      apply Classical.byContradiction
      intro hn
      exact hw.1 x hx (ha.range x (Nat.le_of_not_lt hn)))
    exact mu_local hp rfl rfl (by rw [hph]; simp [pm] <;> omega)
  | @waitCheck w i u hph hu htr =>
    exact mu_local (hpn (by simp [hph])) rfl rfl (by rw [hph]; simp [pm])
  | @waitRecv w i u new hph hu hd' hn hm =>
    have hp := hpn (by simp [hph])
    have hw := ha.work p w i true hph
    have hi : i < w.length := ((List.getElem?_eq_some_iff (l := _) (i := _) (a := _)).1 hu).1
    have hlen : w.length ≤ P.nproc := nodup_length_le _ w hw.2.2.2 (fun x hx => by
      apply Classical.byContradiction
      intro hn'
      exact hw.1 x hx (ha.range x (Nat.le_of_not_lt hn')))
    exact mu_local hp rfl rfl (by rw [hph]; simp [pm] <;> omega)
  | @waitEnd w i hph hu =>
    exact mu_local (hpn (by simp [hph])) rfl rfl (by rw [hph]; simp [pm])

end T

/-- runs of `n` transitions -/
inductive Run (P : Prog) : St → Nat → St → Prop
  | nil (s : St) : Run P s 0 s
  | cons {s t u : St} {p : Pid} {l : Label} {n : Nat} : Trans P s p l t → Run P t n u → Run P s (n + 1) u

theorem run_bound {P : Prog} {K : Nat} (hK : ∀ f k, k ∈ P.refs f → k < K) {s u : St} {n : Nat}
    (hs : Reachable P s) (hr : Run P s n u) : n + mu P K u ≤ mu P K s := by
  induction hr with
  | nil s => simp
  | cons ht _ ih =>
    have := mu_decreases hK hs ht
    have := ih (.step hs ht)
    omega

/-- Every run of a build — under every scheduler, every capacity — has at most `mu P K init`
transitions: `Program.Build` cannot run forever. -/
theorem build_terminates {P : Prog} {K : Nat} (hK : ∀ f k, k ∈ P.refs f → k < K) {u : St} {n : Nat}
    (hr : Run P init n u) : n ≤ mu P K init := by
  have := run_bound hK .init hr; omega

theorem run_reachable {P : Prog} {s u : St} {n : Nat} (hs : Reachable P s) (hr : Run P s n u) : Reachable P u := by
  induction hr with
  | nil s => exact hs
  | cons ht _ ih => exact ih (.step hs ht)


/-- ... and when no builder can step any more, every builder has finished: a maximal run of a
build is a complete build (`Program.Build` returns, everything of `program_build_complete`
holds for the final state). -/
theorem build_returns {P : Prog} (hcap : 0 < P.cap) {u : St} {n : Nat} (hr : Run P init n u)
    (hmax : ∀ p l t, ¬ Trans P u p l t) : allFinished P u := by
  apply Classical.byContradiction
  intro hnf
  obtain ⟨p, l, t, ht⟩ := no_deadlock (run_reachable .init hr) hcap hnf
  exact hmax p l t ht

/-! non-vacuity: the example program of Theorems.lean has keys below 14; at most 77 steps -/
theorem exProg_keys : ∀ f k, k ∈ exProg.refs f → k < 14 := by
  intro f k hk
  unfold exProg at hk
  simp only at hk
  split at hk <;> simp at hk
  all_goals (first | (subst hk; decide) | (rcases hk with h | h <;> subst h <;> decide))

example : mu exProg 14 init = 77 := by decide +kernel
example {u : St} {n : Nat} (hr : Run exProg init n u) : n ≤ 77 := by
  have := build_terminates exProg_keys hr
  have e : mu exProg 14 init = 77 := by decide +kernel
  omega
/-- a run exists: the first step -/
example : ∃ u, Run exProg init 1 u :=
  ⟨_, .cons (.start (p := 0) (by decide) rfl (.inr (by decide))) (.nil _)⟩

end Verif.C18
