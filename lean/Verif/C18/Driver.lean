import Verif.Common.Proto
import Verif.C18.Model
/-!
Line protocol of the C18 model driver (all tokens after the command are natural numbers).

`run  nproc cap tok*nproc  nroots (p n)*  nrefs (tag a b cnt k*cnt)*  nsched p*`
    the abstraction of a program (a function is `0 p n` = declared `n` of package `p`, or
    `1 k 0` = shared with key `k`); the schedule is replayed (disabled processes are skipped),
    then the run is completed by the lowest-enabled-first scheduler.
    → `fin=<0|1> panic=<0|1> steps=<n> built=<n> check=<0|1> edges=<n> memo=<k>:<o>,...`
`trace nproc  nroots (p n)*  nrefs (tag a b cnt k*cnt)*  nevents (pid code nargs arg*nargs)*`
    the protocol events of a real traced build, in the order they took effect; every event must
    be the step the model takes for that process in the current state. codes: 0 start, 1 pick f,
    2 skip f, 3 create k, 4 hit k o added, 5 fnDone f, 6 markDone, 7 waitSkip u, 8 waitCheck u,
    9 waitRecv u new*, 10 waitEnd, 11 (no step) the builder has returned: its phase is finished.
    → `ok steps=<n> fin=<0|1> check=<0|1> memo=<n> built=<n>` / `mismatch ev=<i> pid=<p> ...`
`final ntask done*ntask trans*ntask (cnt e*cnt)*ntask  nfns (task+1 built cnt o*cnt)*`
    the task graph a real build left behind → `ok` / `reject`
-/
namespace Verif.C18
open Verif.Proto

abbrev Toks := List Nat

def takeN : Nat → Toks → Option (List Nat × Toks)
  | 0, ts => some ([], ts)
  | _ + 1, [] => none
  | n + 1, t :: ts => do
    let (xs, r) ← takeN n ts
    pure (t :: xs, r)

def parseRoots : Nat → Toks → Option (List (Nat × Nat) × Toks)
  | 0, ts => some ([], ts)
  | n + 1, p :: m :: ts => do
    let (xs, r) ← parseRoots n ts
    pure ((p, m) :: xs, r)
  | _ + 1, _ => none

def mkFn (tag a b : Nat) : Option FnId :=
  if tag = 0 then some (.decl a b) else if tag = 1 ∧ b = 0 then some (.shared a) else none

def parseRefs : Nat → Toks → Option (List (FnId × List Key) × Toks)
  | 0, ts => some ([], ts)
  | n + 1, tag :: a :: b :: cnt :: ts => do
    let f ← mkFn tag a b
    let (ks, r) ← takeN cnt ts
    let (xs, r') ← parseRefs n r
    pure ((f, ks) :: xs, r')
  | _ + 1, _ => none

def parseLists : Nat → Toks → Option (List (List Nat) × Toks)
  | 0, ts => some ([], ts)
  | _ + 1, [] => none
  | n + 1, cnt :: ts => do
    let (xs, r) ← takeN cnt ts
    let (ys, r') ← parseLists n r
    pure (xs :: ys, r')

def parseFns : Nat → Toks → Option (List (Option Nat × Bool × List Nat) × Toks)
  | 0, ts => some ([], ts)
  | n + 1, t :: b :: cnt :: ts => do
    if b > 1 then none
    let (os, r) ← takeN cnt ts
    let (ys, r') ← parseFns n r
    pure ((if t = 0 then none else some (t - 1), b == 1, os) :: ys, r')
  | _ + 1, _ => none

def bits (xs : List Nat) : Option (List Bool) :=
  xs.mapM fun x => if x = 0 then some false else if x = 1 then some true else none

def mkProg (nproc cap : Nat) (tok : List Bool) (roots : List (Nat × Nat)) (refs : List (FnId × List Key)) : Prog :=
  { nproc := nproc, cap := cap,
    tok := fun p => tok.getD p false,
    roots := fun p => roots.filterMap fun e => if e.1 = p then some e.2 else none,
    refs := fun f => ((refs.find? fun e => e.1 == f).map (·.2)).getD [] }

def countSteps (P : Prog) : Nat → St → Nat → St × Nat
  | 0, s, n => (s, n)
  | fuel + 1, s, n =>
    match firstStep P s with
    | none => (s, n)
    | some t => countSteps P fuel t (n + 1)

def insertSorted (e : Nat × Nat) : List (Nat × Nat) → List (Nat × Nat)
  | [] => [e]
  | x :: xs => if e.1 ≤ x.1 then e :: x :: xs else x :: insertSorted e xs

def runCmd (ts : Toks) : Option String := do
  let (hd, r) ← takeN 2 ts
  let nproc := hd.getD 0 0
  let cap := hd.getD 1 0
  let (tk, r) ← takeN nproc r
  let tok ← bits tk
  let (nr, r) ← takeN 1 r
  let (roots, r) ← parseRoots (nr.getD 0 0) r
  let (nf, r) ← takeN 1 r
  let (refs, r) ← parseRefs (nf.getD 0 0) r
  let (ns, r) ← takeN 1 r
  let (sched, r) ← takeN (ns.getD 0 0) r
  if r ≠ [] then none
  let P := mkProg nproc cap tok roots refs
  let s₁ := runSched P sched init
  let fuel := 64 * (roots.length + refs.length + nproc + 4) * (nproc + 4)
  let (s, n) := countSteps P fuel s₁ 0
  let memo := s.memo.foldl (fun acc e => insertSorted e acc) []
  let nedges := ((List.range nproc).map fun p => (s.edges p).length).foldl (· + ·) 0
  pure s!"fin={showBool (decide (allFinished P s))} panic={showBool s.panicked} steps={n} built={s.built.length} check={showBool (checkFinal (viewOf P s))} edges={nedges} memo={",".intercalate (memo.map fun e => s!"{e.1}:{e.2}")}"

def finalCmd (ts : Toks) : Option String := do
  let (hd, r) ← takeN 1 ts
  let n := hd.getD 0 0
  let (d, r) ← takeN n r
  let (t, r) ← takeN n r
  let done ← bits d
  let trans ← bits t
  let (edges, r) ← parseLists n r
  let (nf, r) ← takeN 1 r
  let (fns, r) ← parseFns (nf.getD 0 0) r
  if r ≠ [] then none
  pure (if checkFinal { done := done, trans := trans, edges := edges, fns := fns } then "ok" else "reject")

def showFn : FnId → String
  | .decl p n => s!"decl({p},{n})"
  | .shared k => s!"shared({k})"

def showLabel : Label → String
  | .start => "start"
  | .pick f => s!"pick {showFn f}"
  | .skip f => s!"skip {showFn f}"
  | .create k => s!"create {k}"
  | .hit k o e => s!"hit {k} owner={o} edge={showBool e}"
  | .fnDone f => s!"fnDone {showFn f}"
  | .markDone => "markDone"
  | .waitSkip u => s!"waitSkip {u}"
  | .waitCheck u => s!"waitCheck {u}"
  | .waitRecv u new => s!"waitRecv {u} new={new}"
  | .waitEnd => "waitEnd"
  | .panic => "panic"

structure Ev where
  pid : Nat
  code : Nat
  args : List Nat

def parseEvents : Nat → Toks → Option (List Ev × Toks)
  | 0, ts => some ([], ts)
  | n + 1, pid :: code :: na :: ts => do
    let (args, r) ← takeN na ts
    let (es, r') ← parseEvents n r
    pure ({ pid := pid, code := code, args := args } :: es, r')
  | _ + 1, _ => none

/-- does the model's step (label `l`, from `s` to `t`) match the real event? -/
def evMatches (e : Ev) (s t : St) (l : Label) : Bool :=
  match e.code, e.args, l with
  | 0, [], .start => true
  | 1, [tag, a, b], .pick f => mkFn tag a b == some f
  | 2, [tag, a, b], .skip f => mkFn tag a b == some f
  | 3, [k], .create k' => k == k'
  | 4, [k, o, added], .hit k' o' _ =>
    k == k' && o == o' && (added == 1) == decide ((s.edges e.pid).length < (t.edges e.pid).length) && added ≤ 1
  | 5, [tag, a, b], .fnDone f => mkFn tag a b == some f
  | 6, [], .markDone => true
  | 7, [u], .waitSkip u' => u == u'
  | 8, [u], .waitCheck u' => u == u'
  | 9, u :: new, .waitRecv u' new' => u == u' && new == new'
  | 10, [], .waitEnd => true
  | _, _, _ => false

def traceLoop (P : Prog) : List Ev → St → Nat → Except String (St × Nat)
  | [], s, n => .ok (s, n)
  | e :: es, s, n =>
    if e.code = 11 then
      if s.phase e.pid = .finished then traceLoop P es s (n + 1)
      else .error s!"mismatch ev={n} pid={e.pid} real=returned model=not-finished"
    else
      let hint := if e.code = 9 then some (e.args.drop 1) else none
      match step P s e.pid hint with
      | none => .error s!"mismatch ev={n} pid={e.pid} real=code{e.code}{e.args} model=disabled"
      | some (l, t) =>
        if evMatches e s t l then traceLoop P es t (n + 1)
        else .error s!"mismatch ev={n} pid={e.pid} real=code{e.code}{e.args} model={showLabel l}"

def traceCmd (ts : Toks) : Option String := do
  let (hd, r) ← takeN 1 ts
  let nproc := hd.getD 0 0
  let (nr, r) ← takeN 1 r
  let (roots, r) ← parseRoots (nr.getD 0 0) r
  let (nf, r) ← takeN 1 r
  let (refs, r) ← parseRefs (nf.getD 0 0) r
  let (ne, r) ← takeN 1 r
  let (evs, r) ← parseEvents (ne.getD 0 0) r
  if r ≠ [] then none
  let P := mkProg nproc 0 [] roots refs
  match traceLoop P evs init 0 with
  | .error m => pure m
  | .ok (s, n) =>
    pure s!"ok steps={n} fin={showBool (decide (allFinished P s))} panic={showBool s.panicked} check={showBool (checkFinal (viewOf P s))} memo={s.memo.length} built={s.built.length}"

def step' (line : String) : String :=
  match tokens line with
  | cmd :: rest =>
    match rest.mapM parseNat with
    | none => "bad-op"
    | some ts =>
      if cmd = "run" then (runCmd ts).getD "bad-op"
      else if cmd = "final" then (finalCmd ts).getD "bad-op"
      else if cmd = "trace" then (traceCmd ts).getD "bad-op"
      else "bad-op"
  | [] => "bad-op"

end Verif.C18
