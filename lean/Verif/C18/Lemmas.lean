import Verif.C18.Basic
namespace Verif.C18

/-! ### Group C: memo tables, queues, ownership, every function built at most once -/

theorem lookup_none_not_mem {l : List (Key × Pid)} {k : Key} (h : l.lookup k = none) (o : Pid) :
    (k, o) ∉ l := by
  induction l with
  | nil => simp
  | cons a l ih =>
    obtain ⟨k', o'⟩ := a
    rw [List.lookup_cons] at h
    split at h
    · simp at h
    · rename_i hne
      simp only [List.mem_cons, Prod.mk.injEq, not_or, not_and]
      exact ⟨fun e => by subst e; simp at hne, ih h⟩

theorem lookup_of_mem_nodup {l : List (Key × Pid)} {k : Key} {o : Pid}
    (hn : (l.map Prod.fst).Nodup) (h : (k, o) ∈ l) : l.lookup k = some o := by
  induction l with
  | nil => simp at h
  | cons a l ih =>
    obtain ⟨k', o'⟩ := a
    simp only [List.map_cons, List.nodup_cons, List.mem_map, not_exists, not_and] at hn
    rw [List.lookup_cons]
    simp only [List.mem_cons, Prod.mk.injEq] at h
    rcases h with ⟨e1, e2⟩ | h
    · subst e1 e2; simp
    · have : k ≠ k' := by
        intro e; subst e; exact hn.1 (k, o) h rfl
      have : (k == k') = false := by simpa using this
      rw [this]; exact ih hn.2 h

theorem fst_unique {α : Type} {l : List (α × Pid)} {k : α} {o o' : Pid}
    (hn : (l.map Prod.fst).Nodup) (h : (k, o) ∈ l) (h' : (k, o') ∈ l) : o = o' := by
  induction l with
  | nil => simp at h
  | cons a l ih =>
    simp only [List.map_cons, List.nodup_cons, List.mem_map, not_exists, not_and] at hn
    simp only [List.mem_cons] at h h'
    rcases h with h | h <;> rcases h' with h' | h'
    · subst h; injection h' with _ e; exact e.symm
    · subst h; exact absurd rfl (hn.1 (k, o') h')
    · subst h'; exact absurd rfl (hn.1 (k, o) h)
    · exact ih hn.2 h h'

theorem nodup_fst_append {α : Type} {l : List (α × Pid)} {k : α} {p : Pid}
    (hn : (l.map Prod.fst).Nodup) (h : ∀ o, (k, o) ∉ l) : ((l ++ [(k, p)]).map Prod.fst).Nodup := by
  rw [List.map_append, List.nodup_append]
  refine ⟨hn, by simp, ?_⟩
  intro a ha b hb
  simp at hb; subst hb
  intro e; subst e
  obtain ⟨⟨k', o'⟩, hm, he⟩ := List.mem_map.1 ha
  simp at he; subst he
  exact h o' hm

theorem isBuilt_true_iff {s : St} {f : FnId} : isBuilt s f = true ↔ ∃ o, (f, o) ∈ s.built := by
  unfold isBuilt
  rw [List.any_eq_true]
  constructor
  · rintro ⟨⟨f', o⟩, hm, he⟩
    simp at he; subst he; exact ⟨o, hm⟩
  · rintro ⟨o, hm⟩; exact ⟨(f, o), hm, by simp⟩

theorem isBuilt_false_iff {s : St} {f : FnId} : isBuilt s f = false ↔ ∀ o, (f, o) ∉ s.built := by
  have := @isBuilt_true_iff s f
  constructor
  · intro h o hm
    have : isBuilt s f = true := this.2 ⟨o, hm⟩
    simp [h] at this
  · intro h
    cases hb : isBuilt s f with
    | false => rfl
    | true => obtain ⟨o, hm⟩ := this.1 hb; exact absurd hm (h o)

/-- `f` is in the queue described by the phase or is the function being built -/
def Phase.has : Phase → FnId → Prop
  | .building q cur, f => f ∈ q ∨ ∃ ks, cur = some (f, ks)
  | _, _ => False

/-- `f` is in the queue of builder `o` or is the function `o` is building -/
def InQueue (s : St) (o : Pid) (f : FnId) : Prop := (s.phase o).has f

/-- `o` is the builder responsible for `f`: the creator of a shared function, the package of a
declared one -/
def Owns (P : Prog) (s : St) (o : Pid) : FnId → Prop
  | .shared k => (k, o) ∈ s.memo
  | .decl p n => p = o ∧ n ∈ P.roots p

structure InvC (P : Prog) (s : St) : Prop where
  memo_nodup : (s.memo.map Prod.fst).Nodup
  memo_q : ∀ k o, (k, o) ∈ s.memo → (FnId.shared k, o) ∈ s.built ∨ InQueue s o (.shared k)
  roots_q : ∀ p n, n ∈ P.roots p →
    s.phase p = .idle ∨ (FnId.decl p n, p) ∈ s.built ∨ InQueue s p (.decl p n)
  own_q : ∀ o f, InQueue s o f → Owns P s o f
  own_b : ∀ f o, (f, o) ∈ s.built → Owns P s o f
  cur_unbuilt : ∀ o q f ks, s.phase o = .building q (some (f, ks)) → isBuilt s f = false
  built_nodup : (s.built.map Prod.fst).Nodup

theorem InvC_init (P : Prog) : InvC P init := by
  constructor <;> simp [init, InQueue, Phase.has]

theorem owns_unique {P : Prog} {s : St} (hn : (s.memo.map Prod.fst).Nodup) {o o' : Pid} {f : FnId}
    (h : Owns P s o f) (h' : Owns P s o' f) : o = o' := by
  cases f with
  | shared k => exact fst_unique hn h h'
  | decl p n => exact h.1.symm.trans h'.1

theorem owns_mono {P : Prog} {s t : St} {o : Pid} {f : FnId}
    (hm : ∀ e, e ∈ s.memo → e ∈ t.memo) (h : Owns P s o f) : Owns P t o f := by
  cases f with
  | shared k => exact hm _ h
  | decl p n => exact h

section C
variable {P : Prog} {s t : St} {p : Pid} {l : Label}

theorem memo_mono (ht : Trans P s p l t) : ∀ e, e ∈ s.memo → e ∈ t.memo := by
  cases ht <;> simp_all

theorem built_mono (ht : Trans P s p l t) : ∀ e, e ∈ s.built → e ∈ t.built := by
  cases ht <;> simp_all

theorem InvC_memo_nodup (h : InvC P s) (ht : Trans P s p l t) : (t.memo.map Prod.fst).Nodup := by
  cases ht with
  | create hph hl => exact nodup_fst_append h.memo_nodup (lookup_none_not_mem hl)
  | _ => exact h.memo_nodup

theorem InvC_memo_q (h : InvC P s) (ht : Trans P s p l t) :
    ∀ k o, (k, o) ∈ t.memo → (FnId.shared k, o) ∈ t.built ∨ InQueue t o (.shared k) := by
  obtain ⟨c1, c2, c3, c4, c5, c6, c7⟩ := h
  intro k o hm
  cases ht with
  | @skip f q hph hb =>
    obtain ⟨o', ho'⟩ := isBuilt_true_iff.1 hb
    have := c5 _ _ ho'
    have := @fst_unique
    grind [InQueue, Phase.has, Owns]
  | _ => grind [InQueue, Phase.has]

theorem InvC_roots_q (h : InvC P s) (ht : Trans P s p l t) :
    ∀ p n, n ∈ P.roots p →
      t.phase p = .idle ∨ (FnId.decl p n, p) ∈ t.built ∨ InQueue t p (.decl p n) := by
  obtain ⟨c1, c2, c3, c4, c5, c6, c7⟩ := h
  intro p' n hn
  have h3 := c3 p' n hn
  cases ht with
  | @skip f q hph hb =>
    obtain ⟨o', ho'⟩ := isBuilt_true_iff.1 hb
    have := c5 _ _ ho'
    grind [InQueue, Phase.has, Owns]
  | _ => grind [InQueue, Phase.has]

theorem InvC_own_q (h : InvC P s) (ht : Trans P s p l t) : ∀ o f, InQueue t o f → Owns P t o f := by
  obtain ⟨c1, c2, c3, c4, c5, c6, c7⟩ := h
  intro o f hq
  have hmm := memo_mono ht
  have hom := @owns_mono P s t
  cases ht with
  | start hp hi hc => grind [InQueue, Phase.has, Owns]
  | create hph hl => grind [InQueue, Phase.has, Owns]
  | _ => grind [InQueue, Phase.has]

theorem InvC_own_b (h : InvC P s) (ht : Trans P s p l t) : ∀ f o, (f, o) ∈ t.built → Owns P t o f := by
  obtain ⟨c1, c2, c3, c4, c5, c6, c7⟩ := h
  intro f o hb
  have hmm := memo_mono ht
  have hom := @owns_mono P s t
  cases ht with
  | fnDone hph => grind [InQueue, Phase.has]
  | _ => grind

theorem InvC_cur_unbuilt (h : InvC P s) (ht : Trans P s p l t) :
    ∀ o q f ks, t.phase o = .building q (some (f, ks)) → isBuilt t f = false := by
  obtain ⟨c1, c2, c3, c4, c5, c6, c7⟩ := h
  intro o q f ks hph'
  cases ht with
  | @fnDone f' q' hph =>
    have hop : o ≠ p := by intro e; subst e; simp at hph'
    have hq : s.phase o = .building q (some (f, ks)) := by simpa [upd_apply, hop] using hph'
    have h1 := c6 _ _ _ _ hq
    have hne : f ≠ f' := by
      intro e; subst e
      have o1 : Owns P s o f := c4 o f (by simp [InQueue, Phase.has, hq])
      have o2 : Owns P s p f := c4 p f (by simp [InQueue, Phase.has, hph])
      exact hop (owns_unique c1 o1 o2)
    rw [isBuilt_false_iff] at h1 ⊢
    intro o' hm
    simp only [List.mem_append, List.mem_singleton, Prod.mk.injEq] at hm
    rcases hm with hm | ⟨e, _⟩
    · exact h1 o' hm
    · exact hne e
  | _ => grind [isBuilt]

theorem InvC_built_nodup (h : InvC P s) (ht : Trans P s p l t) : (t.built.map Prod.fst).Nodup := by
  cases ht with
  | fnDone hph =>
    exact nodup_fst_append h.built_nodup (isBuilt_false_iff.1 (h.cur_unbuilt _ _ _ _ hph))
  | _ => exact h.built_nodup

theorem InvC_step (h : InvC P s) (ht : Trans P s p l t) : InvC P t :=
  ⟨InvC_memo_nodup h ht, InvC_memo_q h ht, InvC_roots_q h ht, InvC_own_q h ht, InvC_own_b h ht,
   InvC_cur_unbuilt h ht, InvC_built_nodup h ht⟩

theorem InvC_of_reachable (h : Reachable P s) : InvC P s := by
  induction h with
  | init => exact InvC_init P
  | step _ ht ih => exact InvC_step ih ht

end C

/-! ### Group D: every lookup leaves a dependency the builder will wait for -/

/-- builder `o` has secured the shared function `k`: it exists and its creator is `o` itself,
a task `o` will wait for, or a task that was transitively done -/
def Dep (s : St) (o : Pid) (k : Key) : Prop :=
  ∃ o', s.memo.lookup k = some o' ∧ (o' = o ∨ o' ∈ s.edges o ∨ s.trans o' = true)

structure InvD (P : Prog) (s : St) : Prop where
  built_dep : ∀ f o, (f, o) ∈ s.built → ∀ k ∈ P.refs f, Dep s o k
  cur_dep : ∀ o q f ks, s.phase o = .building q (some (f, ks)) →
    ∃ pre, P.refs f = pre ++ ks ∧ ∀ k ∈ pre, Dep s o k

theorem InvD_init (P : Prog) : InvD P init := by
  constructor <;> simp [init]

theorem lookup_append_of_some {l l' : List (Key × Pid)} {k : Key} {o : Pid}
    (h : l.lookup k = some o) : (l ++ l').lookup k = some o := by
  rw [List.lookup_append, h]; rfl

theorem lookup_append_of_none {l : List (Key × Pid)} {k : Key} {o : Pid}
    (h : l.lookup k = none) : (l ++ [(k, o)]).lookup k = some o := by
  rw [List.lookup_append, h]; simp

section D
variable {P : Prog} {s t : St} {p : Pid} {l : Label}

theorem Dep_mono (ht : Trans P s p l t) {o : Pid} {k : Key} (h : Dep s o k) : Dep t o k := by
  obtain ⟨o', hl, hd⟩ := h
  have := @mem_insertEdge
  cases ht with
  | create hph hl' => exact ⟨o', lookup_append_of_some hl, hd⟩
  | hitEdge hph hl' ho htr hd' => refine ⟨o', hl, ?_⟩; grind
  | waitEnd hph hu => refine ⟨o', hl, ?_⟩; grind
  | _ => exact ⟨o', hl, hd⟩

theorem InvD_built_dep (h : InvD P s) (ht : Trans P s p l t) :
    ∀ f o, (f, o) ∈ t.built → ∀ k ∈ P.refs f, Dep t o k := by
  obtain ⟨d1, d2⟩ := h
  intro f o hb k hk
  have hmono := @Dep_mono P s t p l ht
  cases ht with
  | @fnDone f' q hph =>
    simp only [List.mem_append, List.mem_singleton, Prod.mk.injEq] at hb
    rcases hb with hb | ⟨e1, e2⟩
    · exact hmono (d1 f o hb k hk)
    · subst e1 e2
      obtain ⟨pre, hp, hd⟩ := d2 _ _ _ _ hph
      simp at hp; subst hp
      exact hmono (hd k hk)
  | _ => exact hmono (d1 f o hb k hk)

theorem InvD_cur_dep (h : InvD P s) (ht : Trans P s p l t) :
    ∀ o q f ks, t.phase o = .building q (some (f, ks)) →
      ∃ pre, P.refs f = pre ++ ks ∧ ∀ k ∈ pre, Dep t o k := by
  obtain ⟨d1, d2⟩ := h
  intro o q f ks hph'
  have hmono := @Dep_mono P s t p l ht
  have keep : ∀ q', s.phase o = .building q' (some (f, ks)) →
      ∃ pre, P.refs f = pre ++ ks ∧ ∀ k ∈ pre, Dep t o k := by
    intro q' hq
    obtain ⟨pre, hp, hd⟩ := d2 _ _ _ _ hq
    exact ⟨pre, hp, fun k hk => hmono (hd k hk)⟩
  have lookupStep : ∀ q' k', p = o → s.phase o = .building q' (some (f, k' :: ks)) → Dep t o k' →
      ∃ pre, P.refs f = pre ++ ks ∧ ∀ k ∈ pre, Dep t o k := by
    intro q' k' _ hq hdep
    obtain ⟨pre, hp, hd⟩ := d2 _ _ _ _ hq
    refine ⟨pre ++ [k'], by simp [hp], ?_⟩
    intro k hk
    simp only [List.mem_append, List.mem_singleton] at hk
    rcases hk with hk | hk
    · exact hmono (hd k hk)
    · subst hk; exact hdep
  have := @mem_insertEdge
  cases ht with
  | start hp hi hc => grind
  | pick hph hb =>
    by_cases hop : o = p
    · subst hop
      simp only [upd_same] at hph'
      injection hph' with e1 e2; injection e2 with e2; injection e2 with e2 e3
      subst e2 e3
      exact ⟨[], by simp, by simp⟩
    · exact keep q (by simpa [upd_apply, hop] using hph')
  | skip hph hb => grind
  | @create f' k' ks' q' hph hl =>
    by_cases hop : o = p
    · subst hop
      simp only [upd_same] at hph'
      injection hph' with e1 e2; injection e2 with e2; injection e2 with e2 e3
      subst e2 e3
      exact lookupStep _ k' rfl hph ⟨o, lookup_append_of_none hl, .inl rfl⟩
    · exact keep q (by simpa [upd_apply, hop] using hph')
  | @hitNoEdge f' k' ks' q' o' hph hl ho =>
    by_cases hop : o = p
    · subst hop
      simp only [upd_same] at hph'
      injection hph' with e1 e2; injection e2 with e2; injection e2 with e2 e3
      subst e2 e3
      exact lookupStep _ k' rfl hph ⟨o', hl, by grind⟩
    · exact keep q (by simpa [upd_apply, hop] using hph')
  | hitPanic hph hl ho htr hd => exact keep q hph'
  | @hitEdge f' k' ks' q' o' hph hl ho htr hd =>
    by_cases hop : o = p
    · subst hop
      simp only [upd_same] at hph'
      injection hph' with e1 e2; injection e2 with e2; injection e2 with e2 e3
      subst e2 e3
      exact lookupStep _ k' rfl hph ⟨o', hl, by grind⟩
    · exact keep q (by simpa [upd_apply, hop] using hph')
  | fnDone hph => grind
  | markDone hph => grind
  | waitSkip hph hu htr => grind
  | waitCheck hph hu htr => grind
  | waitRecv hph hu hd hn hm => grind
  | waitEnd hph hu => grind

theorem InvD_step (h : InvD P s) (ht : Trans P s p l t) : InvD P t :=
  ⟨InvD_built_dep h ht, InvD_cur_dep h ht⟩

theorem InvD_of_reachable (h : Reachable P s) : InvD P s := by
  induction h with
  | init => exact InvD_init P
  | step _ ht ih => exact InvD_step ih ht

end D

/-! ### Group E: nothing is created or built that the program does not need -/

/-- some package of the program depends on `f` -/
def Needed (P : Prog) (f : FnId) : Prop := ∃ p, p < P.nproc ∧ Needs P p f

structure InvE (P : Prog) (s : St) : Prop where
  q_needed : ∀ o f, InQueue s o f → Needed P f
  built_needed : ∀ f o, (f, o) ∈ s.built → Needed P f

theorem InvE_init (P : Prog) : InvE P init := by
  constructor <;> simp [init, InQueue, Phase.has]

section E
variable {P : Prog} {s t : St} {p : Pid} {l : Label}

theorem InvE_q_needed (hd : InvD P s) (h : InvE P s) (ht : Trans P s p l t) :
    ∀ o f, InQueue t o f → Needed P f := by
  obtain ⟨e1, e2⟩ := h
  have e1' : ∀ o f q cur, s.phase o = .building q cur → (f ∈ q ∨ ∃ ks, cur = some (f, ks)) →
      Needed P f := by
    intro o f q cur hq hm
    exact e1 o f (by simpa [InQueue, Phase.has, hq] using hm)
  have e1'' : ∀ o f, (s.phase o).has f → Needed P f := fun o f h => e1 o f h
  intro o f hq
  cases ht with
  | start hp hi hc =>
    by_cases hop : o = p
    · subst hop
      simp only [InQueue, upd_same, Phase.has, List.mem_map] at hq
      rcases hq with ⟨n, hn, e⟩ | ⟨ks, hks⟩
      · subst e; exact ⟨o, hp, .root hn⟩
      · simp at hks
    · exact e1 o f (by simpa [InQueue, upd_apply, hop] using hq)
  | @create f' k ks q hph hl =>
    by_cases hop : o = p
    · subst hop
      simp only [InQueue, upd_same, Phase.has, List.mem_append, List.mem_singleton] at hq
      rcases hq with (hq | e) | ⟨ks', hks⟩
      · exact e1' o f _ _ hph (.inl hq)
      · subst e
        obtain ⟨p', hp', hn⟩ := e1' o f' _ _ hph (.inr ⟨_, rfl⟩)
        obtain ⟨pre, hpre, _⟩ := hd.cur_dep _ _ _ _ hph
        exact ⟨p', hp', .ref hn (by rw [hpre]; simp)⟩
      · injection hks with hks; injection hks with a b; subst a
        exact e1' o f' _ _ hph (.inr ⟨_, rfl⟩)
    · exact e1 o f (by simpa [InQueue, upd_apply, hop] using hq)
  | _ => grind [InQueue, Phase.has]

theorem InvE_built_needed (h : InvE P s) (ht : Trans P s p l t) :
    ∀ f o, (f, o) ∈ t.built → Needed P f := by
  obtain ⟨e1, e2⟩ := h
  intro f o hb
  cases ht with
  | @fnDone f' q hph =>
    simp only [List.mem_append, List.mem_singleton, Prod.mk.injEq] at hb
    rcases hb with hb | ⟨a, _⟩
    · exact e2 f o hb
    · subst a; exact e1 p f (by simp [InQueue, Phase.has, hph])
  | _ => exact e2 f o hb

theorem InvE_step (hd : InvD P s) (h : InvE P s) (ht : Trans P s p l t) : InvE P t :=
  ⟨InvE_q_needed hd h ht, InvE_built_needed h ht⟩

theorem InvE_of_reachable (h : Reachable P s) : InvE P s := by
  induction h with
  | init => exact InvE_init P
  | step hs ht ih => exact InvE_step (InvD_of_reachable hs) ih ht

end E
end Verif.C18
