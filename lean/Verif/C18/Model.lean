/-!
C18 — model of the build protocol of `go/ir` (task.go, builder.go, methods.go,
instantiate.go).

What is modelled (transliterated from the Go code):

* `task` (task.go): `done` (closed channel), `edges` (added before `markDone`, only by the
  task's own builder; `addEdge` skips `x == y` and targets that are transitively done),
  `transitive`; `wait` as the BFS over done tasks (`work`, index `i`, blocking receive on
  `u.done`), storing `x.transitive` at the end.
* builders (builder.go `iterate`/`buildFunction`, `Package.build`, `Program.MethodValue`):
  a process per builder. It builds the functions of its queue `b.fns` in order; building a
  body looks shared functions up by key (`Function.instance`, `Program.objectMethod`,
  `Program.MethodValue`: generic instances, on-demand methods, wrappers). A lookup is ONE
  atomic step because it happens under the table's mutex: a missing key is created with
  `fn.buildshared = b.shared()` and enqueued on the creator's queue, an existing one makes
  the builder `waitForSharedFunction` (= `addEdge` to the creator's task).  After the queue
  is exhausted: `markDone`, then `wait`.
* `Program.Build`: one goroutine per package holding a `cpuLimit` token (`cap`) from start
  to finish (BuildSerially = capacity 1); `Package.Build` = `sync.Once`.

Processes are natural numbers below `nproc`; process `p` owns task `p` (`b.shared()`).
The state uses functions `Pid → _` so that proofs are by `if`-splitting; everything is
computable (the driver replays schedules).
-/
namespace Verif.C18

abbrev Pid := Nat
abbrev Key := Nat

/-- Functions: declared in a package (`p.created`) or shared (memoised by key). -/
inductive FnId where
  | decl (n : Nat)
  | shared (k : Key)
  deriving DecidableEq, Repr

/-- A program as the protocol sees it. -/
structure Prog where
  nproc : Nat
  /-- capacity of the `cpuLimit` semaphore -/
  cap : Nat
  /-- the process is a goroutine of `Program.Build` (holds a token while it runs) -/
  tok : Pid → Bool
  /-- `p.created`: the declared functions of package `p` -/
  roots : Pid → List Nat
  /-- keys of the shared functions looked up while the body of a function is built -/
  refs : FnId → List Key

inductive Phase where
  | idle
  /-- `iterate`: remaining queue; the function being built with the lookups still to do -/
  | building (queue : List FnId) (cur : Option (FnId × List Key))
  /-- `wait`: the BFS work list and the index of the task being received from -/
  | waiting (work : List Pid) (i : Nat)
  | finished
  deriving DecidableEq, Repr

structure St where
  phase : Pid → Phase
  done : Pid → Bool
  trans : Pid → Bool
  edges : Pid → List Pid
  /-- the memo tables, in creation order: key ↦ creator (whose task is `fn.buildshared`) -/
  memo : List (Key × Pid)
  /-- log of `fn.build = nil` events: function, builder -/
  built : List (FnId × Pid)

def upd {α : Type} (f : Pid → α) (p : Pid) (v : α) : Pid → α := fun q => if q = p then v else f q

@[simp] theorem upd_same {α : Type} (f : Pid → α) (p : Pid) (v : α) : upd f p v p = v := by simp [upd]
theorem upd_other {α : Type} (f : Pid → α) (p q : Pid) (v : α) (h : q ≠ p) : upd f p v q = f q := by
  simp [upd, h]

def init (_P : Prog) : St :=
  { phase := fun _ => .idle, done := fun _ => false, trans := fun _ => false,
    edges := fun _ => [], memo := [], built := [] }

def Phase.isRunning : Phase → Bool
  | .building _ _ => true
  | .waiting _ _ => true
  | _ => false

/-- number of `cpuLimit` tokens taken -/
def running (P : Prog) (s : St) : Nat :=
  ((List.range P.nproc).filter fun q => P.tok q && (s.phase q).isRunning).length

/-- `x.addEdge(y)` (the caller has checked `fn.buildshared != nil`). -/
def addEdge (s : St) (x y : Pid) : St :=
  if x = y ∨ s.trans y = true ∨ y ∈ s.edges x then s
  else { s with edges := upd s.edges x (s.edges x ++ [y]) }

/-- One atomic step of process `p`; `none` = not enabled (blocked, finished, or the
`panic("cannot add an edge to a done task")`). -/
def step (P : Prog) (s : St) (p : Pid) : Option St :=
  if p < P.nproc then
    match s.phase p with
    | .idle =>
      if P.tok p = false ∨ running P s < P.cap then
        some { s with phase := upd s.phase p (.building ((P.roots p).map .decl) none) }
      else none
    | .building [] none =>
      -- b.buildshared.markDone(); b.buildshared.wait() starts its BFS at x
      some { s with done := upd s.done p true, phase := upd s.phase p (.waiting [p] 0) }
    | .building (f :: q) none =>
      some { s with phase := upd s.phase p (.building q (some (f, P.refs f))) }
    | .building q (some (f, [])) =>
      -- fn.done(): fn.build = nil
      some { s with built := s.built ++ [(f, p)], phase := upd s.phase p (.building q none) }
    | .building q (some (f, k :: ks)) =>
      if s.done p = true then none
      else
        match s.memo.lookup k with
        | none =>
          some { s with memo := s.memo ++ [(k, p)],
                        phase := upd s.phase p (.building (q ++ [.shared k]) (some (f, ks))) }
        | some o =>
          some (addEdge { s with phase := upd s.phase p (.building q (some (f, ks))) } p o)
    | .waiting w i =>
      match w[i]? with
      | none => some { s with trans := upd s.trans p true, phase := upd s.phase p .finished }
      | some u =>
        if s.trans u = true then some { s with phase := upd s.phase p (.waiting w (i + 1)) }
        else if s.done u = true then
          let w' := w ++ (s.edges u).filter (fun v => !(w.contains v))
          some { s with phase := upd s.phase p (.waiting w' (i + 1)) }
        else none
    | .finished => none
  else none

/-- States reachable under any interleaving. -/
inductive Reachable (P : Prog) : St → Prop
  | init : Reachable P (init P)
  | step {s t : St} {p : Pid} : Reachable P s → step P s p = some t → Reachable P t

/-- Replay a schedule; processes that are not enabled are skipped. -/
def runSched (P : Prog) : List Pid → St → St
  | [], s => s
  | p :: ps, s => runSched P ps ((step P s p).getD s)

def allFinished (P : Prog) (s : St) : Prop := ∀ p, p < P.nproc → s.phase p = .finished

instance (P : Prog) (s : St) : Decidable (allFinished P s) := by
  unfold allFinished; exact Nat.decidableBallLT _ _

/-- the deterministic scheduler: lowest enabled index first (with capacity 1 this is
BuildSerially) -/
def firstStep (P : Prog) (s : St) : Option St :=
  (List.range P.nproc).findSome? (step P s)

def runSerial (P : Prog) : Nat → St → St
  | 0, s => s
  | n + 1, s =>
    match firstStep P s with
    | none => s
    | some t => runSerial P n t

/-- `Package.Build` = `p.buildOnce.Do(p.build)` seen from the shared state: the first call
starts the builder, every later call finds the Once taken. -/
def callBuild (P : Prog) (s : St) (p : Pid) : St :=
  match s.phase p with
  | .idle => { s with phase := upd s.phase p (.building ((P.roots p).map .decl) none) }
  | _ => s

/-- `builder.buildFunction` on a list of functions, by-passing the Once: a function whose
`build` is nil is skipped ("Idempotent"). -/
def rebuildFns (s : St) (p : Pid) : List FnId → St
  | [] => s
  | f :: fs =>
    if s.built.any (fun e => e.1 == f) then rebuildFns s p fs
    else rebuildFns { s with built := s.built ++ [(f, p)] } p fs

/-! ### Reachability in the task graph -/

inductive Reach (e : Pid → List Pid) : Pid → Pid → Prop
  | refl (x : Pid) : Reach e x x
  | head {x y z : Pid} : y ∈ e x → Reach e y z → Reach e x z

/-- the functions the build of package `p` depends on -/
inductive Needs (P : Prog) (p : Pid) : FnId → Prop
  | root {n : Nat} : n ∈ P.roots p → Needs P p (.decl n)
  | ref {f : FnId} {k : Key} : Needs P p f → k ∈ P.refs f → Needs P p (.shared k)

/-! ### Final-state view (what the harness can read off the real heap after a build) -/

structure FinalView where
  done : List Bool
  trans : List Bool
  edges : List (List Nat)
  /-- per function: owner task, built?, owner tasks of the shared functions it refers to -/
  fns : List (Nat × Bool × List Nat)
  deriving Repr

def FinalView.ntask (a : FinalView) : Nat := a.done.length

def checkFn (a : FinalView) (f : Nat × Bool × List Nat) : Bool :=
  f.2.1 && f.1 < a.ntask &&
  f.2.2.all fun o => o == f.1 || (a.edges.getD f.1 []).contains o || a.trans.getD o false

def checkFinal (a : FinalView) : Bool :=
  a.done.all (· == true) &&
  a.trans.length == a.ntask && a.edges.length == a.ntask &&
  (List.range a.ntask).all (fun t => (a.edges.getD t []).all fun e => e < a.ntask && e != t) &&
  a.fns.all (checkFn a)

def ownerOf (s : St) (k : Key) : Nat := (s.memo.lookup k).getD 1000000000

def viewOf (P : Prog) (s : St) : FinalView :=
  { done := (List.range P.nproc).map s.done,
    trans := (List.range P.nproc).map s.trans,
    edges := (List.range P.nproc).map s.edges,
    fns := (s.memo.map fun e => (e.2, s.built.contains (FnId.shared e.1, e.2),
                                  (P.refs (.shared e.1)).map (ownerOf s))) ++
           (List.range P.nproc).flatMap fun p => (P.roots p).map fun n =>
              (p, s.built.contains (FnId.decl n, p), (P.refs (.decl n)).map (ownerOf s)) }

end Verif.C18
