/-!
C18 — model of the build protocol of `go/ir` (task.go, builder.go, methods.go,
instantiate.go) as a labelled transition system.

What is modelled (transliterated from the Go code):

* `task` (task.go): `done` (closed channel), `edges` (a set; added before `markDone`, only by
  the task's own builder; `addEdge` skips `x == y` and targets that are transitively done and
  panics when `x` is already done), `transitive`; `wait` as the BFS over the tasks reachable
  through `edges` (`work`, index `i`; first the `isTransitivelyDone` check, then the blocking
  receive on `u.done`, then the not yet enqueued edges of `u` are appended in ANY order — Go
  iterates over a map), storing `x.transitive` at the end.
* builders (builder.go `iterate`/`buildFunction`, `Package.build`, `Program.MethodValue`):
  a process per builder. It builds the functions of its queue `b.fns` in order
  (`buildFunction` skips a function whose `build` is nil); building a body looks shared
  functions up by key (`Function.instance`, `Program.objectMethod`, `Program.MethodValue`:
  generic instances, on-demand methods, wrappers). A lookup is ONE atomic step because it
  happens under the table's mutex: a missing key is created with
  `fn.buildshared = b.shared()` and enqueued on the creator's queue, an existing one makes
  the builder `waitForSharedFunction` (= `addEdge` to the creator's task).  After the queue
  is exhausted: `markDone`, then `wait`.
* `Program.Build`: one goroutine per package holding a `cpuLimit` token (`cap`) from start
  to finish (BuildSerially = capacity 1); `Package.Build` = `sync.Once`: the `start`
  transition of a process exists at most once, however many callers there are.
* `Program.MethodValue(sel)` called by a client: a process without token whose only root is a
  pseudo function with the single reference `sel` (the lookup under `methodsMu`), followed
  by `iterate`.

Processes are natural numbers below `nproc`; process `p` owns task `p` (`b.shared()`).
The state uses functions `Pid → _` so that proofs are by `if`-splitting; everything is
computable (the driver replays schedules).
-/
namespace Verif.C18

abbrev Pid := Nat
abbrev Key := Nat

/-- Functions: declared in a package (`p.created`, the `n`-th of package `p`) or shared
(memoised by key). -/
inductive FnId where
  | decl (p : Pid) (n : Nat)
  | shared (k : Key)
  deriving DecidableEq, Repr

/-- A program as the protocol sees it. -/
structure Prog where
  nproc : Nat
  /-- capacity of the `cpuLimit` semaphore -/
  cap : Nat
  /-- the process is a goroutine of `Program.Build` (holds a token while it runs) -/
  tok : Pid → Bool
  /-- `p.created`: the declared functions of package `p` -/
  roots : Pid → List Nat
  /-- keys of the shared functions looked up while the body of a function is built -/
  refs : FnId → List Key

inductive Phase where
  | idle
  /-- `iterate`: remaining queue; the function being built with the lookups still to do -/
  | building (queue : List FnId) (cur : Option (FnId × List Key))
  /-- `wait`: the BFS work list, the index of the task looked at, and whether the
  `isTransitivelyDone` check of that task has been made (the builder is at `<-u.done`) -/
  | waiting (work : List Pid) (i : Nat) (rcv : Bool)
  | finished
  deriving DecidableEq, Repr

structure St where
  phase : Pid → Phase
  done : Pid → Bool
  trans : Pid → Bool
  edges : Pid → List Pid
  /-- the memo tables, in creation order: key ↦ creator (whose task is `fn.buildshared`) -/
  memo : List (Key × Pid)
  /-- log of `fn.build = nil` events: function, builder -/
  built : List (FnId × Pid)
  /-- `panic("cannot add an edge to a done task")` happened -/
  panicked : Bool

def upd {α : Type} (f : Pid → α) (p : Pid) (v : α) : Pid → α := fun q => if q = p then v else f q

@[simp] theorem upd_same {α : Type} (f : Pid → α) (p : Pid) (v : α) : upd f p v p = v := by simp [upd]
theorem upd_other {α : Type} (f : Pid → α) (p q : Pid) (v : α) (h : q ≠ p) : upd f p v q = f q := by
  simp [upd, h]
theorem upd_apply {α : Type} (f : Pid → α) (p q : Pid) (v : α) :
    upd f p v q = if q = p then v else f q := rfl

def init : St :=
  { phase := fun _ => .idle, done := fun _ => false, trans := fun _ => false,
    edges := fun _ => [], memo := [], built := [], panicked := false }

def Phase.isRunning : Phase → Bool
  | .building _ _ => true
  | .waiting _ _ _ => true
  | _ => false

/-- number of `cpuLimit` tokens taken -/
def running (P : Prog) (s : St) : Nat :=
  ((List.range P.nproc).filter fun q => P.tok q && (s.phase q).isRunning).length

/-- `fn.build == nil` -/
def isBuilt (s : St) (f : FnId) : Bool := s.built.any fun e => e.1 == f

/-- the edge set of `x` after `x.edges[y] = unit{}` -/
def insertEdge (es : List Pid) (y : Pid) : List Pid := if y ∈ es then es else es ++ [y]

inductive Label where
  /-- `Package.Build`: the Once is taken, `builder{fns: p.created}` -/
  | start
  /-- `buildFunction(fn)` with `fn.build != nil` -/
  | pick (f : FnId)
  /-- `buildFunction(fn)` with `fn.build == nil` -/
  | skip (f : FnId)
  /-- lookup miss under the table's mutex: create, `buildshared = b.shared()`, enqueue -/
  | create (k : Key)
  /-- lookup hit: `waitForSharedFunction(fn)`; `edge` = an edge was stored -/
  | hit (k : Key) (o : Pid) (edge : Bool)
  /-- `fn.done()` -/
  | fnDone (f : FnId)
  | markDone
  /-- `wait`: `u.isTransitivelyDone()` was true -/
  | waitSkip (u : Pid)
  /-- `wait`: `u.isTransitivelyDone()` was false; go on to `<-u.done` -/
  | waitCheck (u : Pid)
  /-- `wait`: `<-u.done` returned; the new edges of `u` appended in this order -/
  | waitRecv (u : Pid) (new : List Pid)
  /-- `wait`: work list exhausted, `x.transitive.Store(true)` -/
  | waitEnd
  | panic
  deriving DecidableEq, Repr

/-- The labelled transition relation: one atomic step of process `p`. -/
inductive Trans (P : Prog) (s : St) : Pid → Label → St → Prop
  | start {p : Pid} :
      p < P.nproc → s.phase p = .idle → (P.tok p = false ∨ running P s < P.cap) →
      Trans P s p .start
        { s with phase := upd s.phase p (.building ((P.roots p).map (FnId.decl p)) none) }
  | pick {p : Pid} {f : FnId} {q : List FnId} :
      s.phase p = .building (f :: q) none → isBuilt s f = false →
      Trans P s p (.pick f) { s with phase := upd s.phase p (.building q (some (f, P.refs f))) }
  | skip {p : Pid} {f : FnId} {q : List FnId} :
      s.phase p = .building (f :: q) none → isBuilt s f = true →
      Trans P s p (.skip f) { s with phase := upd s.phase p (.building q none) }
  | create {p : Pid} {f : FnId} {k : Key} {ks : List Key} {q : List FnId} :
      s.phase p = .building q (some (f, k :: ks)) → s.memo.lookup k = none →
      Trans P s p (.create k)
        { s with memo := s.memo ++ [(k, p)],
                 phase := upd s.phase p (.building (q ++ [.shared k]) (some (f, ks))) }
  | hitNoEdge {p : Pid} {f : FnId} {k : Key} {ks : List Key} {q : List FnId} {o : Pid} :
      s.phase p = .building q (some (f, k :: ks)) → s.memo.lookup k = some o →
      (o = p ∨ s.trans o = true) →
      Trans P s p (.hit k o false) { s with phase := upd s.phase p (.building q (some (f, ks))) }
  | hitPanic {p : Pid} {f : FnId} {k : Key} {ks : List Key} {q : List FnId} {o : Pid} :
      s.phase p = .building q (some (f, k :: ks)) → s.memo.lookup k = some o →
      o ≠ p → s.trans o = false → s.done p = true →
      Trans P s p .panic { s with panicked := true }
  | hitEdge {p : Pid} {f : FnId} {k : Key} {ks : List Key} {q : List FnId} {o : Pid} :
      s.phase p = .building q (some (f, k :: ks)) → s.memo.lookup k = some o →
      o ≠ p → s.trans o = false → s.done p = false →
      Trans P s p (.hit k o true)
        { s with edges := upd s.edges p (insertEdge (s.edges p) o),
                 phase := upd s.phase p (.building q (some (f, ks))) }
  | fnDone {p : Pid} {f : FnId} {q : List FnId} :
      s.phase p = .building q (some (f, [])) →
      Trans P s p (.fnDone f)
        { s with built := s.built ++ [(f, p)], phase := upd s.phase p (.building q none) }
  | markDone {p : Pid} :
      s.phase p = .building [] none →
      Trans P s p .markDone
        { s with done := upd s.done p true, phase := upd s.phase p (.waiting [p] 0 false) }
  | waitSkip {p : Pid} {w : List Pid} {i : Nat} {u : Pid} :
      s.phase p = .waiting w i false → w[i]? = some u → s.trans u = true →
      Trans P s p (.waitSkip u) { s with phase := upd s.phase p (.waiting w (i + 1) false) }
  | waitCheck {p : Pid} {w : List Pid} {i : Nat} {u : Pid} :
      s.phase p = .waiting w i false → w[i]? = some u → s.trans u = false →
      Trans P s p (.waitCheck u) { s with phase := upd s.phase p (.waiting w i true) }
  | waitRecv {p : Pid} {w : List Pid} {i : Nat} {u : Pid} {new : List Pid} :
      s.phase p = .waiting w i true → w[i]? = some u → s.done u = true →
      new.Nodup → (∀ v, v ∈ new ↔ (v ∈ s.edges u ∧ v ∉ w)) →
      Trans P s p (.waitRecv u new)
        { s with phase := upd s.phase p (.waiting (w ++ new) (i + 1) false) }
  | waitEnd {p : Pid} {w : List Pid} {i : Nat} :
      s.phase p = .waiting w i false → w[i]? = none →
      Trans P s p .waitEnd
        { s with trans := upd s.trans p true, phase := upd s.phase p .finished }

/-- States reachable under any interleaving (any scheduler, any map iteration order). -/
inductive Reachable (P : Prog) : St → Prop
  | init : Reachable P init
  | step {s t : St} {p : Pid} {l : Label} : Reachable P s → Trans P s p l t → Reachable P t

/-! ### The executable step (used by the driver); `Theorems.step_sound/step_complete` tie it
to `Trans`. -/

/-- `<-u.done` has returned: append the edges of `u` that are not yet enqueued, in the order
`new` (must be a duplicate-free enumeration of exactly those edges). -/
def recvStep (s : St) (p : Pid) (w : List Pid) (i : Nat) (u : Pid) (new : List Pid) : Option (Label × St) :=
  if new.Nodup ∧ (∀ v ∈ new, v ∈ (s.edges u).filter fun v => !(w.contains v)) ∧
      (∀ v ∈ (s.edges u).filter fun v => !(w.contains v), v ∈ new) then
    some (.waitRecv u new, { s with phase := upd s.phase p (.waiting (w ++ new) (i + 1) false) })
  else none

/-- One atomic step of process `p`. `hint`: the order in which `wait` appends the new edges
(`none`: the order of insertion). `none` result = not enabled. -/
def step (P : Prog) (s : St) (p : Pid) (hint : Option (List Pid) := none) : Option (Label × St) :=
  match s.phase p with
  | .idle =>
    if p < P.nproc ∧ (P.tok p = false ∨ running P s < P.cap) then
      some (.start, { s with phase := upd s.phase p (.building ((P.roots p).map (FnId.decl p)) none) })
    else none
  | .building [] none =>
    some (.markDone, { s with done := upd s.done p true, phase := upd s.phase p (.waiting [p] 0 false) })
  | .building (f :: q) none =>
    if isBuilt s f then some (.skip f, { s with phase := upd s.phase p (.building q none) })
    else some (.pick f, { s with phase := upd s.phase p (.building q (some (f, P.refs f))) })
  | .building q (some (f, [])) =>
    some (.fnDone f, { s with built := s.built ++ [(f, p)], phase := upd s.phase p (.building q none) })
  | .building q (some (f, k :: ks)) =>
    match s.memo.lookup k with
    | none =>
      some (.create k, { s with memo := s.memo ++ [(k, p)],
                                phase := upd s.phase p (.building (q ++ [.shared k]) (some (f, ks))) })
    | some o =>
      if o = p ∨ s.trans o = true then
        some (.hit k o false, { s with phase := upd s.phase p (.building q (some (f, ks))) })
      else if s.done p = true then some (.panic, { s with panicked := true })
      else some (.hit k o true,
                 { s with edges := upd s.edges p (insertEdge (s.edges p) o),
                          phase := upd s.phase p (.building q (some (f, ks))) })
  | .waiting w i false =>
    match w[i]? with
    | none => some (.waitEnd, { s with trans := upd s.trans p true, phase := upd s.phase p .finished })
    | some u =>
      if s.trans u = true then some (.waitSkip u, { s with phase := upd s.phase p (.waiting w (i + 1) false) })
      else some (.waitCheck u, { s with phase := upd s.phase p (.waiting w i true) })
  | .waiting w i true =>
    match w[i]? with
    | none => none
    | some u =>
      if s.done u = true then
        recvStep s p w i u (hint.getD ((s.edges u).filter fun v => !(w.contains v)))
      else none
  | .finished => none

/-- Replay a schedule; processes that are not enabled are skipped. -/
def runSched (P : Prog) : List Pid → St → St
  | [], s => s
  | p :: ps, s => runSched P ps (((step P s p).map (·.2)).getD s)

def allFinished (P : Prog) (s : St) : Prop := ∀ p, p < P.nproc → s.phase p = .finished

instance (P : Prog) (s : St) : Decidable (allFinished P s) := by
  unfold allFinished; exact Nat.decidableBallLT _ _

/-- the deterministic scheduler: lowest enabled index first (with capacity 1 this is
BuildSerially) -/
def firstStep (P : Prog) (s : St) : Option St :=
  (List.range P.nproc).findSome? fun p => (step P s p).map (·.2)

def runSerial (P : Prog) : Nat → St → St
  | 0, s => s
  | n + 1, s =>
    match firstStep P s with
    | none => s
    | some t => runSerial P n t

/-- `Package.Build` = `p.buildOnce.Do(p.build)` seen from the shared state: the first call
starts the builder, every later call finds the Once taken. -/
def callBuild (P : Prog) (s : St) (p : Pid) : St :=
  match s.phase p with
  | .idle => { s with phase := upd s.phase p (.building ((P.roots p).map (FnId.decl p)) none) }
  | _ => s

/-- `builder.buildFunction` on a list of functions, by-passing the Once: a function whose
`build` is nil is skipped ("Idempotent"). -/
def rebuildFns (s : St) (p : Pid) : List FnId → St
  | [] => s
  | f :: fs =>
    if isBuilt s f then rebuildFns s p fs
    else rebuildFns { s with built := s.built ++ [(f, p)] } p fs

/-! ### Reachability in the task graph, needed functions -/

inductive Reach (e : Pid → List Pid) : Pid → Pid → Prop
  | refl (x : Pid) : Reach e x x
  | head {x y z : Pid} : y ∈ e x → Reach e y z → Reach e x z

/-- the functions the build of package `p` depends on -/
inductive Needs (P : Prog) (p : Pid) : FnId → Prop
  | root {n : Nat} : n ∈ P.roots p → Needs P p (.decl p n)
  | ref {f : FnId} {k : Key} : Needs P p f → k ∈ P.refs f → Needs P p (.shared k)

/-- `f` has been built (by some builder) -/
def Built (s : St) (f : FnId) : Prop := ∃ o, (f, o) ∈ s.built

/-! ### Final-state view (what the harness reads off the real heap after a build) -/

structure FinalView where
  done : List Bool
  trans : List Bool
  edges : List (List Nat)
  /-- per function: the task of its builder if observable (`fn.buildshared`), built?, the
  tasks (`buildshared`) of the shared functions its body refers to -/
  fns : List (Option Nat × Bool × List Nat)
  deriving Repr

def FinalView.ntask (a : FinalView) : Nat := a.done.length

def checkFn (a : FinalView) (f : Option Nat × Bool × List Nat) : Bool :=
  f.2.1 &&
  f.2.2.all (fun o => o < a.ntask) &&
  match f.1 with
  | none => f.2.2.all fun o => a.trans.getD o false
  | some t => t < a.ntask &&
      f.2.2.all fun o => o == t || (a.edges.getD t []).contains o || a.trans.getD o false

def checkFinal (a : FinalView) : Bool :=
  a.done.all (· == true) &&
  a.trans.length == a.ntask && a.edges.length == a.ntask &&
  (List.range a.ntask).all (fun t => (a.edges.getD t []).all fun e => e < a.ntask && e != t) &&
  a.fns.all (checkFn a)

def ownerOf (s : St) (k : Key) : Nat := (s.memo.lookup k).getD 0

def viewOf (P : Prog) (s : St) : FinalView :=
  { done := (List.range P.nproc).map s.done,
    trans := (List.range P.nproc).map s.trans,
    edges := (List.range P.nproc).map s.edges,
    fns := (s.memo.map fun e => (some e.2, isBuilt s (FnId.shared e.1),
                                  (P.refs (.shared e.1)).map (ownerOf s))) ++
           (List.range P.nproc).flatMap fun p => (P.roots p).map fun n =>
              (some p, isBuilt s (FnId.decl p n), (P.refs (.decl p n)).map (ownerOf s)) }

end Verif.C18
