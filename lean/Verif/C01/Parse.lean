import Verif.Common.Proto
import Verif.C01.Syntax
/-
Parser of the c01dump record stream.  Malformed records are rejected (`none`), never
defaulted.
-/
namespace Verif.C01
open Verif.Proto

def hexBytes (s : String) : Option ByteArray :=
  if s = "-" then some ByteArray.empty else do
    let bs ← hexDecodeBytes s.toList
    pure ⟨bs.toArray⟩

def parseBasic (name : String) : TyDesc :=
  match name with
  | "bool" => .bool
  | "string" => .str
  | "int" => .int 64 true
  | "int8" => .int 8 true
  | "int16" => .int 16 true
  | "int32" => .int 32 true
  | "int64" => .int 64 true
  | "uint" => .int 64 false
  | "uint8" => .int 8 false
  | "uint16" => .int 16 false
  | "uint32" => .int 32 false
  | "uint64" => .int 64 false
  | "uintptr" => .int 64 false
  | "byte" => .int 8 false
  | "rune" => .int 32 true
  | "float32" => .float
  | "float64" => .float
  | "unsafe.Pointer" => .unsafePtr
  | "untyped nil" => .untypedNil
  | n => .other n

def parseNats : List String → Option (List Nat)
  | [] => some []
  | x :: xs => do
    let n ← x.toNat?
    let r ← parseNats xs
    pure (n :: r)

def parseHexs : List String → Option (List String)
  | [] => some []
  | x :: xs => do
    let n ← hexDecode x
    let r ← parseHexs xs
    pure (n :: r)

def parseTy : List String → Option TyDesc
  | ["basic", n] => do pure (parseBasic (← hexDecode n))
  | ["named", n, u] => do pure (.named (← hexDecode n) (← u.toNat?))
  | ["ptr", e] => do pure (.ptr (← e.toNat?))
  | ["slice", e] => do pure (.slice (← e.toNat?))
  | ["array", l, e] => do pure (.array (← l.toNat?) (← e.toNat?))
  | "struct" :: n :: fs => do
    let n ← n.toNat?
    let fs ← parseNats fs
    if fs.length = n then pure (.struct fs.toArray) else none
  | "tuple" :: n :: fs => do
    let n ← n.toNat?
    let fs ← parseNats fs
    if fs.length = n then pure (.tuple fs.toArray) else none
  | ["sig"] => some .sig
  | "iface" :: n :: ms => do
    let n ← n.toNat?
    let ms ← parseHexs ms
    if ms.length = n then pure (.iface ms.toArray) else none
  | ["other", s] => do pure (.other (← hexDecode s))
  | _ => none

def parseBinOp : String → Option BinOp
  | "add" => some .add | "sub" => some .sub | "mul" => some .mul | "quo" => some .quo
  | "rem" => some .rem | "and" => some .and | "or" => some .or | "xor" => some .xor
  | "shl" => some .shl | "shr" => some .shr | "andnot" => some .andnot
  | "eql" => some .eql | "neq" => some .neq | "lss" => some .lss | "leq" => some .leq
  | "gtr" => some .gtr | "geq" => some .geq | _ => none

def parseUnOp : String → Option UnOp
  | "not" => some .not | "neg" => some .neg | "compl" => some .compl | _ => none

def parseOptNat (s : String) : Option (Option Nat) :=
  if s = "-" then some none else s.toNat?.map some

def parseOps : List String → Option (List (Option Nat))
  | [] => some []
  | x :: xs => do
    let n ← parseOptNat x
    let r ← parseOps xs
    pure (n :: r)

def parseCallMode : List String → Option CallMode
  | ["static", f] => do pure (.static (← f.toNat?))
  | ["builtin", n] => do pure (.builtin (← hexDecode n))
  | ["invoke", n] => do pure (.invoke (← hexDecode n))
  | ["dyn"] => some .dyn
  | _ => none

def parseKind (kind : String) (attrs : List String) : Option IKind :=
  match kind, attrs with
  | "alloc", [h] => do pure (.alloc (← parseBool h))
  | "alloc", [h, pos] => do
    let _ ← pos.toNat?
    pure (.alloc (← parseBool h))
  | "phi", [] => some .phi
  | "call", a => do pure (.call (← parseCallMode a))
  | "defer", a => do pure (.defer (← parseCallMode a))
  | "binop", [o] => do pure (.binop (← parseBinOp o))
  | "unop", [o] => do pure (.unop (← parseUnOp o))
  | "load", [] => some .load
  | "store", [] => some .store
  | "blankstore", [] => some .blankstore
  | "changetype", [] => some .changetype
  | "convert", [] => some .convert
  | "changeinterface", [] => some .changeinterface
  | "makeinterface", [t] => do pure (.makeinterface (← t.toNat?))
  | "makeclosure", [f] => do pure (.makeclosure (← f.toNat?))
  | "makeslice", [] => some .makeslice
  | "slice", [] => some .slice
  | "fieldaddr", [i] => do pure (.fieldaddr (← i.toNat?))
  | "field", [i] => do pure (.field (← i.toNat?))
  | "indexaddr", [] => some .indexaddr
  | "index", [] => some .index
  | "stringlookup", [] => some .stringlookup
  | "range", [] => some .range
  | "next", [s] => do pure (.next (← parseBool s))
  | "typeassert", [t, ok] => do pure (.typeassert (← t.toNat?) (← parseBool ok))
  | "typeswitch", ts => do pure (.typeswitch (← parseNats ts))
  | "extract", [i] => do pure (.extract (← i.toNat?))
  | "jump", [] => some .jump
  | "unreachable", [] => some .unreachable
  | "if", [] => some .if_
  | "constantswitch", [] => some .constantswitch
  | "return", [] => some .ret
  | "rundefers", [] => some .rundefers
  | "panic", [] => some .panic
  | "debugref", [a] => do pure (.debugref (← parseBool a))
  | "compositevalue", [] => some .compositevalue
  | k, _ =>
    if k ∈ ["go", "maplookup", "mapupdate", "makemap", "makechan", "send", "recv", "select",
            "multiconvert", "slicetoarrayptr", "slicetoarray", "unknown"] then some (.unsupported k) else none

/-- `n x1 … xn rest` -/
def takeCounted (toks : List String) : Option (List String × List String) :=
  match toks with
  | [] => none
  | n :: rest => do
    let n ← n.toNat?
    if rest.length < n then none else pure (rest.take n, rest.drop n)

/-- ins record after `ins fid bid`: `vid kind ty nops ops… nattrs attrs… comment` -/
def parseInstr (toks : List String) : Option Instr :=
  match toks with
  | vid :: kind :: ty :: rest => do
    let vid ← vid.toNat?
    let ty ← parseOptNat ty
    let (ops, rest) ← takeCounted rest
    let ops ← parseOps ops
    let (attrs, rest) ← takeCounted rest
    let k ← parseKind kind attrs
    match rest with
    | [c] => pure { id := vid, kind := k, ty := ty, ops := ops, comment := (← hexDecode c) }
    | _ => none
  | _ => none

def parseValDef : List String → Option ValDef
  | ["param", i] => do pure (.param (← i.toNat?))
  | ["free", i] => do pure (.free (← i.toNat?))
  | ["const", "nil"] => some (.const .zero)
  | ["const", "int", d] => do pure (.const (.int (← d.toInt?)))
  | ["const", "bool", b] => do pure (.const (.bool (← parseBool b)))
  | ["const", "str", h] => do pure (.const (.str (← hexBytes h)))
  | ["const", "other", h] => do pure (.const (.other (← hexDecode h)))
  | ["global", g] => do pure (.global (← g.toNat?))
  | ["func", f] => do pure (.func (← f.toNat?))
  | ["builtin", n] => do pure (.builtin (← hexDecode n))
  | ["foreign", _] => some .foreign
  | _ => none

/-- A function under construction. -/
structure FnB where
  id : Nat
  fn : Fn
  /-- blocks in reverse order, each with its instructions in reverse order -/
  blocks : List (Nat × Block)
  vals : List (Nat × ValDef × Nat)
  deriving Inhabited

structure ProgB where
  mode : String
  types : Array TyDesc := #[]
  tkeys : Array String := #[]
  globals : Array Global := #[]
  fns : List (Nat × Fn) := []
  impls : Array (Nat × Nat × Bool) := #[]
  methods : Array (Nat × String × Nat) := #[]
  cur : Option FnB := none
  deriving Inhabited

def FnB.finish (b : FnB) (nvals : Nat) : Option Fn := do
  let blocks := b.blocks.reverse
  -- block ids must be 0..n-1 in order
  let ok := (blocks.zipIdx.all fun (x, i) => x.1 == i)
  if !ok then none
  let blocks := blocks.map fun (_, bl) => { bl with instrs := bl.instrs.reverse }
  let mut vals : Array (ValDef × Nat) := Array.replicate nvals (ValDef.instr, 0)
  let mut seen : Array Bool := Array.replicate nvals false
  for (vid, d, t) in b.vals do
    if vid ≥ nvals then none
    vals := vals.set! vid (d, t)
    seen := seen.set! vid true
  for bl in blocks do
    for ins in bl.instrs do
      if ins.id ≥ nvals then none
      if seen[ins.id]! then none
      seen := seen.set! ins.id true
      vals := vals.set! ins.id (ValDef.instr, ins.ty.getD 0)
  if !(seen.all fun x => x) then none
  pure { b.fn with blocks := blocks.toArray, vals := vals }

def ProgB.finish (b : ProgB) : Option Prog := do
  if b.cur.isSome then none
  let fns := b.fns.reverse
  let ok := (fns.zipIdx.all fun (x, i) => x.1 == i)
  if !ok then none
  if b.tkeys.size ≠ b.types.size then none
  pure { mode := b.mode, types := b.types, tkeys := b.tkeys, globals := b.globals, fns := (fns.map (·.2)).toArray,
         impls := b.impls, methods := b.methods }

/-- One dump record. `none` = malformed. -/
def ProgB.feed (b : ProgB) (toks : List String) : Option ProgB :=
  match toks with
  | "type" :: id :: rest => do
    let id ← id.toNat?
    if id ≠ b.types.size then none
    let t ← parseTy rest
    pure { b with types := b.types.push t }
  | ["tkey", id, k] => do
    let id ← id.toNat?
    if id ≠ b.tkeys.size then none
    pure { b with tkeys := b.tkeys.push (← hexDecode k) }
  | ["global", id, name, t] => do
    let id ← id.toNat?
    if id ≠ b.globals.size then none
    pure { b with globals := b.globals.push { name := (← hexDecode name), elem := (← t.toNat?) } }
  | "func" :: id :: name :: np :: nf :: nr :: rec :: _nb :: ext :: syn :: rts => do
    if b.cur.isSome then none
    let fn : Fn := {
      name := (← hexDecode name), nparams := (← np.toNat?), nfree := (← nf.toNat?), nresults := (← nr.toNat?),
      recover := (← parseOptNat rec), external := (← parseBool ext), synthetic := (← hexDecode syn),
      resTys := (← parseNats rts), blocks := #[], vals := #[] }
    pure { b with cur := some { id := (← id.toNat?), fn := fn, blocks := [], vals := [] } }
  | "val" :: fid :: vid :: tid :: rest => do
    let c ← b.cur
    if (← fid.toNat?) ≠ c.id then none
    let d ← parseValDef rest
    pure { b with cur := some { c with vals := ((← vid.toNat?), d, (← tid.toNat?)) :: c.vals } }
  | "block" :: fid :: bid :: rest => do
    let c ← b.cur
    if (← fid.toNat?) ≠ c.id then none
    let (preds, rest) ← takeCounted rest
    let (succs, rest) ← takeCounted rest
    match rest with
    | [cm] =>
      let bl : Block := { preds := (← parseNats preds), succs := (← parseNats succs), instrs := [], comment := (← hexDecode cm) }
      pure { b with cur := some { c with blocks := ((← bid.toNat?), bl) :: c.blocks } }
    | _ => none
  | "ins" :: fid :: bid :: rest => do
    let c ← b.cur
    if (← fid.toNat?) ≠ c.id then none
    let ins ← parseInstr rest
    match c.blocks with
    | (cb, bl) :: more =>
      if (← bid.toNat?) ≠ cb then none
      pure { b with cur := some { c with blocks := (cb, { bl with instrs := ins :: bl.instrs }) :: more } }
    | [] => none
  | ["endfunc", fid, nvals] => do
    let c ← b.cur
    if (← fid.toNat?) ≠ c.id then none
    let fn ← c.finish (← nvals.toNat?)
    pure { b with cur := none, fns := (c.id, fn) :: b.fns }
  | ["impl", i, c, v] => do
    pure { b with impls := b.impls.push ((← i.toNat?), (← c.toNat?), (← parseBool v)) }
  | ["method", c, m, f] => do
    pure { b with methods := b.methods.push ((← c.toNat?), (← hexDecode m), (← f.toNat?)) }
  | _ => none

end Verif.C01
