/-
C01 stage B — the core calculus of the lift validator.

`Core.Fn` is the abstraction of one dumped go/ir function that the LIFT validator works on
(`Verif/C01/Abstract.lean` produces it from a dump):

* an `Alloc` whose address is used only as the address operand of `Load`/`Store` (never stored,
  passed, captured, compared, …) is a *private cell* (`Ins.alloc/load/store`);
* every other value-producing or effectful instruction — arithmetic, calls (including the
  callee's whole behaviour, deferred calls and recovery), heap accesses through escaping
  pointers, allocation of escaping variables, … — is an *opaque operation* `Ins.op r f args`:
  its meaning is an arbitrary function `Sem.op f : List V → W → OpRes V W` of the operand
  values and of the world `W` (heap of escaping objects, observer trace, defer stacks, …).
  Private cells are not part of `W`: that is exactly what "the address does not escape" means;
* `If`, `Jump`, `ConstantSwitch` are `Term.switch` (the successor is chosen by `Sem.sel`),
  `Return` is `Term.ret`, `Panic` is `Term.panic`.

The semantics is parametric in the value type `V`, the world `W` and the meaning `Sem` of
constants, operations and branch selection: the soundness theorem of the validator
(`Theorems.lean`) quantifies over all of them.

Core Lean only (this file is compiled into `c01driver`).
-/
namespace Verif.C01.Core

abbrev Reg := Nat

inductive Const where
  | zero (ty : String)      -- the zero value of the type with this canonical name
  | lit (key : String)      -- any other constant / global / function / builtin, by canonical key
  deriving DecidableEq, Repr, Inhabited

inductive Opnd where
  | reg (r : Reg)
  | const (c : Const)
  deriving DecidableEq, Repr, Inhabited

inductive Ins where
  | alloc (c : Nat) (ty : String)               -- private cell c := zero value of ty
  | load (r : Reg) (c : Nat)                    -- r := content of private cell c
  | store (c : Nat) (v : Opnd)                  -- private cell c := v
  | op (r : Reg) (f : String) (args : List Opnd) -- r := f(args), may change the world / panic
  deriving DecidableEq, Repr, Inhabited

inductive Term where
  | switch (f : String) (args : List Opnd) (succs : List Nat)
  | ret (args : List Opnd)
  | panic (f : String) (args : List Opnd)
  deriving DecidableEq, Repr, Inhabited

structure Phi where
  reg : Reg
  edges : List Opnd
  deriving DecidableEq, Repr, Inhabited

structure Block where
  preds : List Nat
  phis : List Phi
  body : List Ins
  term : Term
  deriving DecidableEq, Repr, Inhabited

structure Fn where
  nparams : Nat
  recover : Option Nat
  blocks : List Block
  deriving DecidableEq, Repr, Inhabited

/-! ### semantics -/

/-- result of an opaque operation: a value and a new world; or the operation panicked and the
deferred calls of the frame recovered (control resumes at the Recover block); or the panic
leaves the function. -/
inductive OpRes (V W : Type) where
  | ok (v : V) (w : W)
  | recover (w : W)
  | abort (v : V) (w : W)

structure Sem (V W : Type) where
  cval : Const → V
  op : String → List V → W → OpRes V W
  sel : String → List V → Nat
  undef : V

structure St (V W : Type) where
  regs : Reg → V
  cells : Nat → V
  w : W

def upd {V : Type} (f : Nat → V) (k : Nat) (v : V) : Nat → V := fun x => if x = k then v else f x

def eval {V W : Type} (S : Sem V W) (s : St V W) : Opnd → V
  | .reg r => s.regs r
  | .const c => S.cval c

inductive IRes (V W : Type) where
  | cont (s : St V W)
  | recover (s : St V W)
  | abort (v : V) (w : W)

def execIns {V W : Type} (S : Sem V W) (i : Ins) (s : St V W) : IRes V W :=
  match i with
  | .alloc c ty => .cont { s with cells := upd s.cells c (S.cval (.zero ty)) }
  | .load r c => .cont { s with regs := upd s.regs r (s.cells c) }
  | .store c o => .cont { s with cells := upd s.cells c (eval S s o) }
  | .op r f args =>
    match S.op f (args.map (eval S s)) s.w with
    | .ok v w => .cont { s with regs := upd s.regs r v, w := w }
    | .recover w => .recover { s with w := w }
    | .abort v w => .abort v w

def execBody {V W : Type} (S : Sem V W) : List Ins → St V W → IRes V W
  | [], s => .cont s
  | i :: is, s =>
    match execIns S i s with
    | .cont s' => execBody S is s'
    | r => r

def idxOf (x : Nat) : List Nat → Option Nat
  | [] => none
  | y :: ys => if y = x then some 0 else (idxOf x ys).map (· + 1)

def findPhi (r : Reg) : List Phi → Option Phi
  | [] => none
  | p :: ps => if p.reg = r then some p else findPhi r ps

/-- operand of a phi for predecessor index `k` (a total function: the abstraction rejects phis
whose number of edges differs from the number of predecessors) -/
def Phi.edge (p : Phi) (k : Nat) : Opnd := p.edges.getD k (.const (.lit ""))

/-- parallel assignment of the phis of a block entered through predecessor index `k` -/
def phiRegs {V W : Type} (S : Sem V W) (phis : List Phi) (k : Nat) (s : St V W) : Reg → V :=
  fun r => match findPhi r phis with
    | some p => eval S s (p.edge k)
    | none => s.regs r

/-- enter a block: from the predecessor block `from`, or (entry block, Recover block) from nowhere -/
def enter {V W : Type} (S : Sem V W) (B : Block) (frm : Option Nat) (s : St V W) : Option (St V W) :=
  match frm with
  | none => if B.phis = [] then some s else none
  | some p =>
    match idxOf p B.preds with
    | none => none
    | some k => some { s with regs := phiRegs S B.phis k s }

inductive Outcome (V W : Type) where
  | ret (vs : List V) (w : W)
  | recovered (w : W)          -- recovered in a function without Recover block: zero results
  | abort (v : V) (w : W)
  | stuck
  | fuel

/-- `fuel` counts executed basic blocks -/
def run {V W : Type} (S : Sem V W) (F : Fn) : Nat → Nat → Option Nat → St V W → Outcome V W
  | 0, _, _, _ => .fuel
  | n + 1, b, frm, s =>
    match F.blocks[b]? with
    | none => .stuck
    | some B =>
      match enter S B frm s with
      | none => .stuck
      | some s1 =>
        match execBody S B.body s1 with
        | .abort v w => .abort v w
        | .recover s2 =>
          (match F.recover with
           | some rb => run S F n rb none s2
           | none => .recovered s2.w)
        | .cont s2 =>
          match B.term with
          | .switch f args succs =>
            (match succs[S.sel f (args.map (eval S s2))]? with
             | some b' => run S F n b' (some b) s2
             | none => .stuck)
          | .ret args => .ret (args.map (eval S s2)) s2.w
          | .panic f args =>
            match S.op f (args.map (eval S s2)) s2.w with
            | .recover w =>
              (match F.recover with
               | some rb => run S F n rb none { s2 with w := w }
               | none => .recovered w)
            | .abort v w => .abort v w
            | .ok _ _ => .stuck

def initSt {V W : Type} (S : Sem V W) (F : Fn) (args : List V) (w : W) : St V W :=
  { regs := fun r => if r < F.nparams then args.getD r S.undef else S.undef,
    cells := fun _ => S.undef, w := w }

/-- behaviour of a function on arguments `args` in world `w`, within `fuel` basic blocks -/
def exec {V W : Type} (S : Sem V W) (F : Fn) (fuel : Nat) (args : List V) (w : W) : Outcome V W :=
  run S F fuel 0 none (initSt S F args w)

/-! ### the validator -/

inductive Key where
  | cell (c : Nat)
  | lreg (r : Reg)      -- register defined by a naive `load` of a private cell
  deriving DecidableEq, Repr, Inhabited

/-- symbolic content: which lifted operand holds the content of a naive cell / load register -/
abbrev KMap := List (Key × Opnd)

def KMap.get : KMap → Key → Option Opnd
  | [], _ => none
  | (k, o) :: m, x => if k = x then some o else KMap.get m x

def KMap.del : KMap → Key → KMap
  | [], _ => []
  | (k, o) :: m, x => if k = x then KMap.del m x else (k, o) :: KMap.del m x

def KMap.set (m : KMap) (k : Key) : Option Opnd → KMap
  | some o => (k, o) :: m.del k
  | none => m.del k

/-- forget every entry that names the lifted register `r` (it is about to be redefined) -/
def KMap.kill : KMap → Reg → KMap
  | [], _ => []
  | (k, o) :: m, r => if o = .reg r then KMap.kill m r else (k, o) :: KMap.kill m r

abbrev Rho := List (Reg × Reg)

def Rho.get : Rho → Reg → Option Reg
  | [], _ => none
  | (a, b) :: m, x => if a = x then some b else Rho.get m x

/-- translation of a naive operand into a lifted operand -/
def tr (ρ : Rho) (M : KMap) : Opnd → Option Opnd
  | .const c => some (.const c)
  | .reg r => match ρ.get r with
    | some r' => some (.reg r')
    | none => M.get (.lreg r)

def trs (ρ : Rho) (M : KMap) : List Opnd → Option (List Opnd)
  | [] => some []
  | o :: os => match tr ρ M o, trs ρ M os with
    | some o', some os' => some (o' :: os')
    | _, _ => none

/-- lock-step walk over the bodies of a naive and a lifted block -/
def walk (ρ : Rho) : KMap → List Ins → List Ins → Option KMap
  | M, [], [] => some M
  | _, [], _ :: _ => none
  | M, .alloc c ty :: ns, ls => walk ρ (M.set (.cell c) (some (.const (.zero ty)))) ns ls
  | M, .store c o :: ns, ls => walk ρ (M.set (.cell c) (tr ρ M o)) ns ls
  | M, .load r c :: ns, ls =>
    if ρ.get r = none then walk ρ (M.set (.lreg r) (M.get (.cell c))) ns ls else none
  | M, .op r f args :: ns, .op r' f' args' :: ls =>
    if ρ.get r = some r' ∧ f = f' ∧ trs ρ M args = some args' then walk ρ (M.kill r') ns ls else none
  | _, .op _ _ _ :: _, _ => none

def termOk (ρ : Rho) (M : KMap) : Term → Term → Bool
  | .switch f a s, .switch f' a' s' => f = f' ∧ s = s' ∧ trs ρ M a = some a'
  | .ret a, .ret a' => trs ρ M a = some a'
  | .panic f a, .panic f' a' => f = f' ∧ trs ρ M a = some a'
  | _, _ => false

/-- well-formed symbolic map: load-register keys are not registers related by ρ -/
def wfMap (ρ : Rho) (M : KMap) : Bool :=
  M.all fun (k, _) => match k with
    | .lreg r => ρ.get r = none
    | .cell _ => true

/-- the edge with index `k` into the block (NB, LB) whose entry map is `Min`, from a block whose
exit map is `Mout` -/
def edgeOk (ρ : Rho) (Mout : KMap) (k : Nat) (NB LB : Block) (Min : KMap) : Bool :=
  (NB.phis.all fun p => match ρ.get p.reg with
    | some r' => match findPhi r' LB.phis with
      | some q => tr ρ Mout (p.edge k) = some (q.edge k)
      | none => false
    | none => false) &&
  (Min.all fun (key, o) => match o with
    | .reg r' => match findPhi r' LB.phis with
      | some q => Mout.get key = some (q.edge k)
      | none => Mout.get key = some o
    | .const _ => Mout.get key = some o)

/-- every lifted phi is the image of a naive phi of the same block or outside the range of ρ -/
def phisOk (ρ : Rho) (NB LB : Block) : Bool :=
  (NB.phis.map (·.reg)).Nodup ∧ (LB.phis.map (·.reg)).Nodup ∧
  LB.phis.all fun q =>
    (NB.phis.any fun p => ρ.get p.reg = some q.reg) || !((ρ.map (·.2)).contains q.reg)

def certAt (cert : List KMap) (b : Nat) : KMap := cert.getD b []

/-- symbolic map at the end of block `b` -/
def mout (ρ : Rho) (cert : List KMap) (N L : Fn) (b : Nat) : Option KMap :=
  match N.blocks[b]?, L.blocks[b]? with
  | some NB, some LB => walk ρ (certAt cert b) NB.body LB.body
  | _, _ => none

def allIdx (n : Nat) (p : Nat → Bool) : Bool := (List.range n).all p

def blockOk (ρ : Rho) (cert : List KMap) (N L : Fn) (b : Nat) : Bool :=
  match N.blocks[b]?, L.blocks[b]? with
  | some NB, some LB =>
    NB.preds = LB.preds && wfMap ρ (certAt cert b) && phisOk ρ NB LB &&
    (match walk ρ (certAt cert b) NB.body LB.body with
     | some Mo => termOk ρ Mo NB.term LB.term
     | none => false) &&
    allIdx NB.preds.length (fun k =>
      match mout ρ cert N L (NB.preds.getD k 0) with
      | some Mo => edgeOk ρ Mo k NB LB (certAt cert b)
      | none => false)
  | _, _ => false

/-- a block entered from nowhere: no phis, nothing assumed about the cells -/
def entryOk (cert : List KMap) (N L : Fn) (b : Nat) : Bool :=
  match N.blocks[b]?, L.blocks[b]? with
  | some NB, some LB => NB.phis = [] ∧ LB.phis = [] ∧ certAt cert b = []
  | _, _ => false

def rhoOk (ρ : Rho) (np : Nat) : Bool :=
  (ρ.map (·.2)).Nodup ∧ ρ.all fun (a, b) => (a < np ∨ b < np) → a = b

/-- THE VALIDATOR: `ρ` relates the registers of the naive function to those of the lifted one,
`cert` gives for every block the symbolic content of cells / load registers on entry.  Both are
untrusted (inferred by `Infer.lean`); `liftCheck_sound` holds for all of them. -/
def liftCheck (N L : Fn) (ρ : Rho) (cert : List KMap) : Bool :=
  N.nparams = L.nparams && N.recover = L.recover && N.blocks.length = L.blocks.length &&
  rhoOk ρ N.nparams &&
  allIdx N.blocks.length (blockOk ρ cert N L) &&
  entryOk cert N L 0 &&
  (match N.recover with
   | some rb => entryOk cert N L rb
   | none => true)

end Verif.C01.Core
