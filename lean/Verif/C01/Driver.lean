import Verif.Common.Proto
import Verif.C01.Parse
import Verif.C01.Interp
import Verif.C01.Abstract
/-
C01 driver: a stateful line protocol (one output line per input line).

  prog <mode> … dump records … endprog <mode>      load a program (answers `ok` per record)
  RUN <mode> <hex function name> <maxsteps> <arg>…   run init, then the function
       arg = i:<dec> | b:<0|1> | s:<hex>
       answer: <event;event;…>|<outcome>|<name=value …>   (globals of scalar type, by name)
       outcome = RET v… | PANIC rt:<kind> | PANIC custom:<type>:<value> | SKIP <why> | FUEL
  LIFT <modeN> <modeL> <hex function name> c=<vid,…> r=<nvid:lvid,…> sn=<spec,…> m=<key:lvid;…> …
       spec = <alloc vid>@<before id>:<t>:<r>+…@<world access id>+… : a partially escaping Alloc of the naive
       function, its sync points and its object accesses (see Abstract.lean)
       stage B: abstract the function of both dumps into the core calculus (the Allocs c= of the
       naive one as private cells) and run the proved validator `Core.liftCheck` with the register
       relation r= and one entry map m= per block (key = c<vid> cell | l<vid> load register; the
       value is a value id of the LIFTED dump).  Relation and maps are untrusted input.
       answer: lift ok | lift reject <why> | lift error <N|L> <why>
  reset                                               forget all programs
Malformed input is answered with `bad-op`.
-/
namespace Verif.C01
open Verif.Proto

structure DState where
  progs : List (String × Prog) := []
  cur : Option ProgB := none
  deriving Inhabited

def parseArg (s : String) : Option Val :=
  match s.splitOn ":" with
  | ["i", d] => do pure (.int (← d.toInt?))
  | ["b", b] => do pure (.bool (← parseBool b))
  | ["s", h] => do pure (.str (← hexBytes h))
  | _ => none

def parseArgs : List String → Option (List Val)
  | [] => some []
  | x :: xs => do
    let v ← parseArg x
    let r ← parseArgs xs
    pure (v :: r)

def showPanic (p : Prog) (v : Val) : String :=
  match v with
  | .iface t x =>
    if t == rtErrTid then
      match x with
      | .str s => "rt:" ++ (String.fromUTF8? s).getD "?"
      | _ => "rt:?"
    else match p.ty t, x with
      | .str, .str _ => "custom:string:" ++ showVal x
      | .int _ _, .int _ => "custom:int:" ++ showVal x
      | .bool, .bool _ => "custom:bool:" ++ showVal x
      | _, _ => "custom:other"
  | .nil => "custom:nil"
  | _ => "custom:other"

def sanitize (s : String) : String :=
  String.ofList (s.toList.map fun c => if c == ' ' || c == '|' || c == '\n' then '_' else c)

def showGlobals (p : Prog) (heap : Array Val) : String :=
  let gs := (p.globals.toList.zipIdx.filterMap fun (g, i) =>
    if g.name.startsWith "init$" then none else
    match p.under g.elem, heap[i]? with
    | .int _ _, some v => some (g.name, showVal v)
    | .bool, some v => some (g.name, showVal v)
    | .str, some v => some (g.name, showVal v)
    | _, _ => none)
  let gs := gs.toArray.qsort (fun a b => a.1 < b.1)
  " ".intercalate (gs.toList.map fun (n, v) => n ++ "=" ++ v)

def callDepth : Nat := 200

def runCase (p : Prog) (fname : String) (maxSteps : Nat) (args : List Val) : String :=
  match p.fns.toList.zipIdx.find? (fun (f, _) => f.name == fname) with
  | none => "bad-op"
  | some (_, fid) =>
    let heap0 : Array Val := p.globals.map fun g => p.zero g.elem
    let st0 : St := { heap := heap0, maxSteps := maxSteps }
    let act : M (Array Val) := do
      match p.fns.toList.zipIdx.find? (fun (f, _) => f.synthetic == "package initializer") with
      | some (_, initId) => let _ ← callFn p callDepth none initId #[] #[]
      | none => pure ()
      callFn p callDepth none fid args.toArray #[]
    let (r, st) := (act.run).run st0
    let tr := ";".intercalate st.trace.toList
    let out := match r with
      | .ok vs => "RET" ++ String.join (vs.toList.map fun v => " " ++ showVal v)
      | .error (.panic v) => "PANIC " ++ showPanic p v
      | .error (.unsupported m) => "SKIP " ++ sanitize m
      | .error .fuel => "FUEL"
    let line := tr ++ "|" ++ out ++ "|" ++ showGlobals p st.heap
    -- a value outside the executable subset (zero value of a type parameter, float, …) was observed
    if line.contains '?' then tr ++ "|SKIP value_outside_the_executable_subset|" else line

def splitList (s sep : String) : List String := if s = "" then [] else s.splitOn sep

def parseCellsTok (t : String) : Option (List Nat) :=
  if t.startsWith "c=" then parseNats (splitList (t.drop 2).toString ",") else none

def parseRhoTok (t : String) : Option Core.Rho :=
  if t.startsWith "r=" then
    (splitList (t.drop 2).toString ",").mapM fun e => match e.splitOn ":" with
      | [a, b] => do pure ((← a.toNat?), (← b.toNat?))
      | _ => none
  else none

/-- `<alloc>@<before>:<t>:<r>+…@<world id>+…` -/
def parseSplitTok (pre : String) (t : String) : Option (List SplitSpec) :=
  if t.startsWith pre then
    (splitList (t.drop pre.length).toString ",").mapM fun e => match e.splitOn "@" with
      | [a, ps, ws] => do
        let pubs ← (splitList ps "+").mapM fun x => match x.splitOn ":" with
          | [b, t, r] => do pure ((← b.toNat?), (← t.toNat?), (← r.toNat?))
          | _ => none
        pure { addr := (← a.toNat?), pubs := pubs, world := (← parseNats (splitList ws "+")) }
      | _ => none
  else none

def parseKey (s : String) : Option Core.Key :=
  if s.startsWith "c" then (s.drop 1).toString.toNat?.map .cell
  else if s.startsWith "l" then (s.drop 1).toString.toNat?.map .lreg
  else none

def parseMapTok (p : Prog) (fL : Fn) (t : String) : Option Core.KMap :=
  if t.startsWith "m=" then
    (splitList (t.drop 2).toString ";").mapM fun e => match e.splitOn ":" with
      | [k, v] => do
        let k ← parseKey k
        let v ← v.toNat?
        match opndOf p fL (some v) with
        | .ok o => pure (k, o)
        | .error _ => none
      | _ => none
  else none

def findFn (p : Prog) (name : String) : Option Fn := p.fns.toList.find? (fun f => f.name == name)

def runLift (pN pL : Prog) (fname : String) (cellsT rhoT snT : String) (maps : List String) : String :=
  match findFn pN fname, findFn pL fname, parseCellsTok cellsT, parseRhoTok rhoT, parseSplitTok "sn=" snT with
  | some fN, some fL, some cells, some rho, some sn =>
    match maps.mapM (parseMapTok pL fL) with
    | none => "bad-op"
    | some cert =>
      match toCore pN fN cells sn, toCore pL fL [] with
      | .error e, _ => "lift error N " ++ sanitize e
      | _, .error e => "lift error L " ++ sanitize e
      | .ok cn, .ok cl =>
        if Core.liftCheck cn cl rho cert then "lift ok"
        else "lift reject " ++ sanitize (liftWhy cn cl rho cert)
  | _, _, _, _, _ => "bad-op"

def dstep (s : DState) (line : String) : DState × String :=
  match tokens line with
  | ["reset"] => ({}, "ok")
  | ["prog", m] =>
    match s.cur with
    | some _ => (s, "bad-op")
    | none => ({ s with cur := some { mode := m } }, "ok")
  | ["endprog", m] =>
    match s.cur with
    | some b =>
      if b.mode != m then (s, "bad-op") else
      match b.finish with
      | some p => ({ progs := (m, p) :: s.progs.filter (·.1 != m), cur := none }, "ok")
      | none => (s, "bad-op")
    | none => (s, "bad-op")
  | "LIFT" :: mN :: mL :: fname :: cellsT :: rhoT :: snT :: maps =>
    match s.progs.lookup mN, s.progs.lookup mL, hexDecode fname with
    | some pN, some pL, some fname => (s, runLift pN pL fname cellsT rhoT snT maps)
    | _, _, _ => (s, "bad-op")
  | "RUN" :: m :: fname :: steps :: args =>
    match s.progs.lookup m, hexDecode fname, steps.toNat?, parseArgs args with
    | some p, some fname, some steps, some args => (s, runCase p fname steps args)
    | _, _, _, _ => (s, "bad-op")
  | toks =>
    match s.cur with
    | some b =>
      match b.feed toks with
      | some b' => ({ s with cur := some b' }, "ok")
      | none => (s, "bad-op")
    | none => (s, "bad-op")

end Verif.C01
