import Verif.Common.Proto
import Verif.C01.Parse
import Verif.C01.Interp
/-
C01 driver: a stateful line protocol (one output line per input line).

  prog <mode> … dump records … endprog <mode>      load a program (answers `ok` per record)
  RUN <mode> <hex function name> <maxsteps> <arg>…   run init, then the function
       arg = i:<dec> | b:<0|1> | s:<hex>
       answer: <event;event;…>|<outcome>|<name=value …>   (globals of scalar type, by name)
       outcome = RET v… | PANIC rt:<kind> | PANIC custom:<type>:<value> | SKIP <why> | FUEL
  reset                                               forget all programs
Malformed input is answered with `bad-op`.
-/
namespace Verif.C01
open Verif.Proto

structure DState where
  progs : List (String × Prog) := []
  cur : Option ProgB := none
  deriving Inhabited

def parseArg (s : String) : Option Val :=
  match s.splitOn ":" with
  | ["i", d] => do pure (.int (← d.toInt?))
  | ["b", b] => do pure (.bool (← parseBool b))
  | ["s", h] => do pure (.str (← hexBytes h))
  | _ => none

def parseArgs : List String → Option (List Val)
  | [] => some []
  | x :: xs => do
    let v ← parseArg x
    let r ← parseArgs xs
    pure (v :: r)

def showPanic (p : Prog) (v : Val) : String :=
  match v with
  | .iface t x =>
    if t == rtErrTid then
      match x with
      | .str s => "rt:" ++ (String.fromUTF8? s).getD "?"
      | _ => "rt:?"
    else match p.ty t, x with
      | .str, .str _ => "custom:string:" ++ showVal x
      | .int _ _, .int _ => "custom:int:" ++ showVal x
      | .bool, .bool _ => "custom:bool:" ++ showVal x
      | _, _ => "custom:other"
  | .nil => "custom:nil"
  | _ => "custom:other"

def sanitize (s : String) : String :=
  String.ofList (s.toList.map fun c => if c == ' ' || c == '|' || c == '\n' then '_' else c)

def showGlobals (p : Prog) (heap : Array Val) : String :=
  let gs := (p.globals.toList.zipIdx.filterMap fun (g, i) =>
    if g.name.startsWith "init$" then none else
    match p.under g.elem, heap[i]? with
    | .int _ _, some v => some (g.name, showVal v)
    | .bool, some v => some (g.name, showVal v)
    | .str, some v => some (g.name, showVal v)
    | _, _ => none)
  let gs := gs.toArray.qsort (fun a b => a.1 < b.1)
  " ".intercalate (gs.toList.map fun (n, v) => n ++ "=" ++ v)

def callDepth : Nat := 200

def runCase (p : Prog) (fname : String) (maxSteps : Nat) (args : List Val) : String :=
  match p.fns.toList.zipIdx.find? (fun (f, _) => f.name == fname) with
  | none => "bad-op"
  | some (_, fid) =>
    let heap0 : Array Val := p.globals.map fun g => p.zero g.elem
    let st0 : St := { heap := heap0, maxSteps := maxSteps }
    let act : M (Array Val) := do
      match p.fns.toList.zipIdx.find? (fun (f, _) => f.synthetic == "package initializer") with
      | some (_, initId) => let _ ← callFn p callDepth none initId #[] #[]
      | none => pure ()
      callFn p callDepth none fid args.toArray #[]
    let (r, st) := (act.run).run st0
    let tr := ";".intercalate st.trace.toList
    let out := match r with
      | .ok vs => "RET" ++ String.join (vs.toList.map fun v => " " ++ showVal v)
      | .error (.panic v) => "PANIC " ++ showPanic p v
      | .error (.unsupported m) => "SKIP " ++ sanitize m
      | .error .fuel => "FUEL"
    tr ++ "|" ++ out ++ "|" ++ showGlobals p st.heap

def dstep (s : DState) (line : String) : DState × String :=
  match tokens line with
  | ["reset"] => ({}, "ok")
  | ["prog", m] =>
    match s.cur with
    | some _ => (s, "bad-op")
    | none => ({ s with cur := some { mode := m } }, "ok")
  | ["endprog", m] =>
    match s.cur with
    | some b =>
      if b.mode != m then (s, "bad-op") else
      match b.finish with
      | some p => ({ progs := (m, p) :: s.progs.filter (·.1 != m), cur := none }, "ok")
      | none => (s, "bad-op")
    | none => (s, "bad-op")
  | "RUN" :: m :: fname :: steps :: args =>
    match s.progs.lookup m, hexDecode fname, steps.toNat?, parseArgs args with
    | some p, some fname, some steps, some args => (s, runCase p fname steps args)
    | _, _, _, _ => (s, "bad-op")
  | toks =>
    match s.cur with
    | some b =>
      match b.feed toks with
      | some b' => ({ s with cur := some b' }, "ok")
      | none => (s, "bad-op")
    | none => (s, "bad-op")

end Verif.C01
