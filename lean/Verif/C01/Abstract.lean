import Verif.C01.Syntax
import Verif.C01.Core
/-
C01 stage B — abstraction of a dumped go/ir function into the core calculus of the lift
validator (`Core.lean`).  TRUSTED (not proved against `Interp.lean`); kept small and syntactic:

* an `Alloc` listed in `cells` becomes a private cell — after checking that its value is used
  ONLY as the address operand of `Load`/`Store` (or by a `DebugRef`), i.e. never escapes;
* a PARTIALLY escaping `Alloc` x of the NAIVE function that lift.go split (`SplitSpec`; the lifted
  function needs no special treatment, its "split alloc" is an ordinary escaping Alloc): while the
  address of x has not been used except as the address of Loads/Stores, those accesses go to a
  private *shadow cell*; the real object is allocated where the Alloc is (an opaque operation, like
  in the lifted function).  At the *sync points* given by the untrusted certificate the content of
  the shadow cell is stored into the real object (`load t c; store x t` — exactly what lift.go's
  inserted "split alloc" stores do in the lifted function).  A typestate analysis
  (`tsEntries`/`tsStep`) checks on every path: the first use of the address other than a shadow
  access happens when the shadow cell and the object are in sync, and from then on every access
  goes to the object.  Redirecting the accesses of an object whose address nobody else has to a
  shadow cell that is synced before the address is used is unobservable;
* `DebugRef` has no meaning and is dropped;
* the `ssa:deferstack()` preamble of a function whose defer stack does not escape
  (`d = ssa:deferstack(); *c = d` with `c` private and every `*c` used only as the DeferStack
  operand of `Defer`s) denotes the frame's own stack, like an absent DeferStack operand: the
  preamble is dropped and those operands become the constant `deferstack:own`;
* `RunDefers` is dropped iff nothing can have pushed on the frame's stack: the function has no
  `Defer` and its defer stack does not escape;
* `If`/`Jump`/`ConstantSwitch`/`Unreachable` → `Term.switch`, `Return` → `Term.ret`,
  `Panic` → `Term.panic`; phis must be at the block head with one edge per predecessor;
* every other instruction is an opaque operation whose name is a canonical key of its kind,
  attributes (types by the dumper's canonical type key, functions by name), result type and
  operand types; constants are keyed by type and payload, zero constants (`nil` payload, 0,
  false, "") of a type are all `Const.zero`.
-/
namespace Verif.C01
open Core

def Prog.tkey (p : Prog) (t : Nat) : String := p.tkeys.getD t s!"?{t}"

def hexNib (n : Nat) : Char := if n < 10 then Char.ofNat (48 + n) else Char.ofNat (87 + n)

def hexOfBA (b : ByteArray) : String :=
  String.ofList (b.toList.flatMap fun x => [hexNib (x.toNat / 16), hexNib (x.toNat % 16)])

def constKey (p : Prog) (tid : Nat) (c : ConstV) : Const :=
  match c with
  | .zero => .zero (p.tkey tid)
  | .int i => if i == 0 then .zero (p.tkey tid) else .lit s!"int:{p.tkey tid}:{i}"
  | .bool b => if b then .lit s!"bool:{p.tkey tid}:true" else .zero (p.tkey tid)
  | .str s => if s.size == 0 then .zero (p.tkey tid) else .lit s!"str:{p.tkey tid}:{hexOfBA s}"
  | .other s => .lit s!"other:{p.tkey tid}:{s}"

def fnName (p : Prog) (fid : Nat) : String :=
  match p.fns[fid]? with
  | some f => f.name
  | none => s!"?fn{fid}"

def opndOf (p : Prog) (f : Fn) (o : Option Nat) : Except String Opnd :=
  match o with
  | none => pure (.const (.lit "absent"))
  | some v => match f.vals[v]? with
    | some (.const c, t) => pure (.const (constKey p t c))
    | some (.global g, _) => pure (.const (.lit s!"global:{(p.globals.getD g default).name}"))
    | some (.func fid, _) => pure (.const (.lit s!"func:{fnName p fid}"))
    | some (.builtin n, t) => pure (.const (.lit s!"builtin:{n}:{p.tkey t}"))
    | some (.foreign, _) => throw "foreign value"
    | some (_, _) => pure (.reg v)
    | none => throw "bad operand"

def opndsOf (p : Prog) (f : Fn) : List (Option Nat) → Except String (List Opnd)
  | [] => pure []
  | o :: os => do
    let x ← opndOf p f o
    let xs ← opndsOf p f os
    pure (x :: xs)

/-- a static call is a call of the function value given as operand 0 (lifting may turn a call of a
loaded function value into a static call) -/
def callKey (_p : Prog) : CallMode → String
  | .static _ => "fn"
  | .builtin n => s!"builtin:{n}"
  | .invoke m => s!"invoke:{m}"
  | .dyn => "fn"

def kindKey (p : Prog) : IKind → String
  | .alloc h => s!"alloc:{h}"
  | .call m => "call:" ++ callKey p m
  | .defer m => "defer:" ++ callKey p m
  | .makeinterface t => s!"makeinterface:{p.tkey t}"
  | .makeclosure fid => s!"makeclosure:{fnName p fid}"
  | .typeassert t ok => s!"typeassert:{p.tkey t}:{ok}"
  | .typeswitch ts => "typeswitch:" ++ ",".intercalate (ts.map p.tkey)
  | k => toString (repr k)

def opTyKey (p : Prog) (f : Fn) (o : Option Nat) : String :=
  match o with
  | none => "-"
  | some v => match f.vals[v]? with
    | some (_, t) => p.tkey t
    | none => "?"

def opKey (p : Prog) (f : Fn) (ins : Instr) : String :=
  let rt := match ins.ty with
    | some t => p.tkey t
    | none => "-"
  kindKey p ins.kind ++ "|" ++ rt ++ "|" ++ ",".intercalate (ins.ops.map (opTyKey p f))

def allInstrs (f : Fn) : List Instr := f.blocks.toList.flatMap (·.instrs)

/-- (instruction, operand position) pairs that mention value `v` -/
def usesOf (f : Fn) (v : Nat) : List (Instr × Nat) :=
  (allInstrs f).flatMap fun ins =>
    (ins.ops.zipIdx.filter fun (o, _) => o == some v).map fun (_, i) => (ins, i)

def isDebugRef : IKind → Bool
  | .debugref _ => true
  | _ => false

def isDefer : IKind → Bool
  | .defer _ => true
  | _ => false

/-- the address `v` is used only by Load/Store as address (and DebugRef) -/
def privateAddr (f : Fn) (v : Nat) : Bool :=
  (usesOf f v).all fun (ins, i) =>
    (ins.kind == .load && i == 0) || (ins.kind == .store && i == 0) || isDebugRef ins.kind

structure DsInfo where
  /-- instruction ids to drop -/
  dropped : List Nat := []
  /-- registers that denote the frame's own defer stack -/
  own : List Nat := []
  /-- the defer stack value may be reachable from elsewhere -/
  escapes : Bool := false
  deriving Inhabited

/-- analysis of the `ssa:deferstack()` preamble -/
def dsInfo (f : Fn) : DsInfo :=
  let calls := (allInstrs f).filter fun ins => ins.kind == .call (.builtin "ssa:deferstack")
  match calls with
  | [] => {}
  | [d] =>
    let us := usesOf f d.id
    -- direct uses as DeferStack operand (last operand of a Defer)
    let direct (u : Instr × Nat) : Bool := isDefer u.1.kind && u.2 + 1 == u.1.ops.length
    let stores := us.filter fun u => !direct u
    let cellsOf := stores.map fun (ins, i) =>
      if ins.kind == .store && i == 1 then ins.ops.getD 0 none else none
    match cellsOf.eraseDups with
    | [] => { dropped := [d.id], own := [d.id] }
    | [some c] =>
      let isAlloc := (allInstrs f).any fun ins => ins.id == c && (match ins.kind with | .alloc _ => true | _ => false)
      let cu := usesOf f c
      let storesOk := cu.all fun (ins, i) =>
        if ins.kind == .store && i == 0 then ins.ops.getD 1 none == some d.id else true
      let loads := (cu.filter fun (ins, i) => ins.kind == .load && i == 0).map (·.1)
      let loadsOk := loads.all fun l => (usesOf f l.id).all direct
      if isAlloc && privateAddr f c && storesOk && loadsOk then
        { dropped := [d.id, c] ++ (cu.filter fun (ins, _) => !isDebugRef ins.kind).map (·.1.id),
          own := d.id :: loads.map (·.id) }
      else { escapes := true }
    | _ => { escapes := true }
  | _ => { escapes := true }

/-! ### partially escaping Allocs (split by lift.go) -/

inductive TS where
  | dead                   -- before the Alloc
  | shadow (dirty : Bool)  -- accesses go to the shadow cell; dirty = stored to since the last sync
  | pub                    -- the address is in use: every access goes to the object
  | conflict               -- paths disagree: no use allowed before the next Alloc
  deriving BEq, Repr, Inhabited

structure SplitSpec where
  /-- the partially escaping Alloc of the naive function -/
  addr : Nat
  /-- sync points: (id of the instruction BEFORE which the sync happens, fresh register for the loaded
  shadow content, fresh register standing for the Store instruction) -/
  pubs : List (Nat × Nat × Nat)
  /-- ids of the Loads/Stores of the address that access the object (all others access the shadow cell) -/
  world : List Nat
  deriving Inhabited

def isAllocOf (ins : Instr) (v : Nat) : Bool :=
  ins.id == v && (match ins.kind with | .alloc _ => true | _ => false)

def SplitSpec.syncsAt (sp : SplitSpec) (id : Nat) : List (Nat × Nat × Nat) := sp.pubs.filter fun x => x.1 == id

/-- typestate after `ins`; `none` = the address is used in a state that does not allow it -/
def tsStep (sp : SplitSpec) (ins : Instr) (s : TS) : Option TS :=
  if isDebugRef ins.kind then some s else
  -- sync points before the instruction
  let s1 : Option TS :=
    if (sp.syncsAt ins.id).isEmpty then some s else
    match s with
    | .shadow _ => some (.shadow false)
    | _ => none
  match s1 with
  | none => none
  | some s1 =>
    if isAllocOf ins sp.addr then some (.shadow false) else
    ins.ops.zipIdx.foldl (fun (acc : Option TS) (o, i) =>
      match acc with
      | none => none
      | some st =>
        if o != some sp.addr then some st else
        let isAccess := (ins.kind == .load && i == 0) || (ins.kind == .store && i == 0)
        if isAccess && !sp.world.contains ins.id then
          -- shadow access
          match st with
          | .shadow d => some (.shadow (d || ins.kind == .store))
          | _ => none
        else
          -- the address itself is used (or the object accessed)
          match st with
          | .shadow false => some .pub
          | .pub => some .pub
          | _ => none) (some s1)

def tsJoin (a : Option TS) (b : TS) : TS :=
  match a with
  | none => b
  | some a =>
    if a == b then a else
    match a, b with
    | .shadow _, .shadow _ => .shadow true
    | .shadow false, .pub => .pub
    | .pub, .shadow false => .pub
    | _, _ => .conflict

/-- typestate at the entry of every block (forward data flow to a fixpoint; states only move
downwards, so 4n+4 rounds suffice) -/
def tsEntries (f : Fn) (sp : SplitSpec) : Array TS := Id.run do
  let n := f.blocks.size
  let mut ent : Array (Option TS) := Array.replicate n none
  if n > 0 then ent := ent.set! 0 (some .dead)
  match f.recover with
  | some rb => ent := ent.set! rb (some .conflict)
  | none => pure ()
  for _ in [0:4 * n + 4] do
    for b in [0:n] do
      match ent[b]!, f.blocks[b]? with
      | some s0, some blk =>
        let mut s := s0
        for ins in blk.instrs do
          s := (tsStep sp ins s).getD .conflict
        for succ in blk.succs do
          if succ < n && some succ != f.recover && succ != 0 then
            ent := ent.set! succ (some (tsJoin ent[succ]! s))
      | _, _ => pure ()
  return ent.map fun o => o.getD .conflict

structure BAcc where
  phis : List Phi := []
  body : List Ins := []
  term : Option Term := none
  inBody : Bool := false
  /-- current typestate of every split spec -/
  ts : List TS := []

/-- key of the Store operation `*x = v` for the Alloc `addr` (the same key `opKey` gives a real Store) -/
def syncStoreKey (p : Prog) (f : Fn) (addr : Nat) : Except String String :=
  match f.vals[addr]? with
  | some (_, t) => match p.under t with
    | .ptr e => pure (kindKey p .store ++ "|-|" ++ p.tkey t ++ "," ++ p.tkey e)
    | _ => throw "split alloc: not a pointer type"
  | none => throw "split alloc: bad value id"

def absInstr (p : Prog) (f : Fn) (cells : List Nat) (splits : List SplitSpec) (ds : DsInfo) (dropRunDefers : Bool)
    (b : Block) (acc0 : BAcc) (ins : Instr) : Except String BAcc := do
  if acc0.term.isSome then throw "instruction after the terminator"
  if isDebugRef ins.kind then return acc0
  if ds.dropped.contains ins.id then return { acc0 with inBody := true }
  let opnd (o : Option Nat) : Except String Opnd :=
    match o with
    | some v => if ds.own.contains v then pure (.const (.lit "deferstack:own")) else opndOf p f o
    | none => opndOf p f o
  let opnds (os : List (Option Nat)) : Except String (List Opnd) := os.mapM opnd
  -- ---- partially escaping Allocs: sync points, shadow cell
  let mut acc := acc0
  let mut newTs : List TS := []
  let mut shadowNow : List Nat := []
  -- sync points before this instruction, in the order of their temporaries
  let syncs := (splits.flatMap fun sp => (sp.syncsAt ins.id).map fun (_, t, r) => (t, r, sp.addr)).toArray.qsort (fun a b => a.1 < b.1)
  for (t, r, a) in syncs do
    acc := { acc with body := acc.body ++ [.load t a, .op r (← syncStoreKey p f a) [.reg a, .reg t]], inBody := true }
  for (sp, k) in splits.zipIdx do
    let s := acc.ts.getD k .conflict
    match tsStep sp ins s with
    | none => throw s!"split alloc {sp.addr}: instruction {ins.id} uses it in a state that does not allow it"
    | some s' =>
      newTs := newTs ++ [s']
      if isAllocOf ins sp.addr then
        -- the shadow cell next to the real object (the Alloc itself is emitted below as an operation)
        match ins.ty.map p.under with
        | some (.ptr e) => acc := { acc with body := acc.body ++ [.alloc ins.id (p.tkey e)], inBody := true }
        | _ => throw "alloc: not a pointer type"
      else if ((ins.kind == .load || ins.kind == .store) && ins.ops.getD 0 none == some sp.addr && !sp.world.contains ins.id) then
        shadowNow := sp.addr :: shadowNow
  acc := { acc with ts := newTs }
  let cells := cells ++ shadowNow
  let isCell (o : Option Nat) : Bool := match o with
    | some v => cells.contains v
    | none => false
  let body (i : Ins) : BAcc := { acc with body := acc.body ++ [i], inBody := true }
  let fin (t : Term) : BAcc := { acc with term := some t, inBody := true }
  match ins.kind with
  | .phi =>
    if acc.inBody then throw "phi after a non-phi instruction"
    if ins.ops.length != b.preds.length then throw "phi: number of edges differs from the number of predecessors"
    pure { acc with phis := acc.phis ++ [{ reg := ins.id, edges := (← opnds ins.ops) }] }
  | .alloc _ =>
    if cells.contains ins.id then
      match ins.ty.map p.under with
      | some (.ptr e) => pure (body (.alloc ins.id (p.tkey e)))
      | _ => throw "alloc: not a pointer type"
    else if splits.any (fun sp => sp.addr == ins.id) then
      -- lift.go's split alloc is always a heap Alloc, also when the Alloc it replaces is a local whose
      -- address is only used within the function (the difference — the same object re-zeroed or a
      -- fresh one when executed again — needs a live address of the earlier object to be observed)
      pure (body (.op ins.id (opKey p f { ins with kind := .alloc true }) (← opnds ins.ops)))
    else pure (body (.op ins.id (opKey p f ins) (← opnds ins.ops)))
  | .load =>
    if isCell (ins.ops.getD 0 none) then
      match ins.ops with
      | [some c] => pure (body (.load ins.id c))
      | _ => throw "load: operands"
    else pure (body (.op ins.id (opKey p f ins) (← opnds ins.ops)))
  | .store =>
    if isCell (ins.ops.getD 0 none) then
      match ins.ops with
      | [some c, v] => pure (body (.store c (← opnd v)))
      | _ => throw "store: operands"
    else pure (body (.op ins.id (opKey p f ins) (← opnds ins.ops)))
  | .rundefers =>
    if dropRunDefers then pure { acc with inBody := true }
    else pure (body (.op ins.id (opKey p f ins) []))
  | .defer _ =>
    -- an absent DeferStack operand denotes the frame's own stack
    let n := ins.ops.length
    let front ← opnds (ins.ops.take (n - 1))
    let last ← match ins.ops.getD (n - 1) none with
      | none => pure (Opnd.const (.lit "deferstack:own"))
      | o => opnd o
    pure (body (.op ins.id ("defer|" ++ kindKey p ins.kind) (front ++ [last])))
  | .jump => pure (fin (.switch "jump" [] b.succs))
  | .if_ => pure (fin (.switch "if" (← opnds ins.ops) b.succs))
  | .constantswitch => pure (fin (.switch "constantswitch" (← opnds ins.ops) b.succs))
  | .unreachable => pure (fin (.switch "unreachable" [] []))
  | .ret => pure (fin (.ret (← opnds ins.ops)))
  | .panic => pure (fin (.panic "panic" (← opnds ins.ops)))
  | _ => pure (body (.op ins.id (opKey p f ins) (← opnds ins.ops)))

def absBlock (p : Prog) (f : Fn) (cells : List Nat) (splits : List SplitSpec) (ents : List (Array TS))
    (ds : DsInfo) (drd : Bool) (bi : Nat) (b : Block) : Except String Core.Block := do
  let mut acc : BAcc := { ts := ents.map fun e => e.getD bi .conflict }
  for ins in b.instrs do
    acc ← absInstr p f cells splits ds drd b acc ins
  match acc.term with
  | some t => pure { preds := b.preds, phis := acc.phis, body := acc.body, term := t }
  | none => throw "block without terminator"

/-- abstraction of function `f` with the given Allocs as private cells and the given split Allocs -/
def toCore (p : Prog) (f : Fn) (cells : List Nat) (splits : List SplitSpec := []) : Except String Core.Fn := do
  if f.external then throw "external function"
  for c in cells do
    let isAlloc := (allInstrs f).any fun ins => isAllocOf ins c
    if !isAlloc then throw s!"cell {c} is not an Alloc"
    if !privateAddr f c then throw s!"cell {c} escapes"
  for sp in splits do
    if !((allInstrs f).any fun ins => isAllocOf ins sp.addr) then throw s!"split alloc {sp.addr} is not an Alloc"
    if cells.contains sp.addr then throw s!"split alloc {sp.addr} is also declared private"
  if (splits.map (·.addr)).eraseDups.length != splits.length then throw "duplicate split alloc"
  -- the temporaries of the sync points are fresh and pairwise distinct
  let temps := splits.flatMap fun sp => sp.pubs.flatMap fun (_, t, r) => [t, r]
  if temps.any (· < f.vals.size) then throw "sync point temporary is not fresh"
  if temps.eraseDups.length != temps.length then throw "sync point temporaries are not distinct"
  let ds := dsInfo f
  -- a dropped deferstack cell must not also be declared a private cell
  let cells := cells.filter fun c => !ds.dropped.contains c
  if splits.any fun sp => ds.dropped.contains sp.addr then throw "split alloc is the defer stack cell"
  let hasDefer := (allInstrs f).any fun ins => isDefer ins.kind
  let drd := !hasDefer && !ds.escapes
  let ents := splits.map (tsEntries f)
  let mut blocks : List Core.Block := []
  for (b, bi) in f.blocks.toList.zipIdx do
    blocks := blocks ++ [← absBlock p f cells splits ents ds drd bi b]
  pure { nparams := f.nparams + f.nfree, recover := f.recover, blocks := blocks }

/-! ### diagnostics (not trusted, not proved): why does `liftCheck` say no -/

/-- where `walk` stops (diagnostics only) -/
def walkWhy (ρ : Rho) : Nat → KMap → List Ins → List Ins → String
  | 0, _, _, _ => "?"
  | _, _, [], [] => "ok"
  | _, _, [], l :: _ => s!"lifted block has an extra instruction {repr l}"
  | n+1, M, .alloc c ty :: ns, ls => walkWhy ρ n (M.set (.cell c) (some (.const (.zero ty)))) ns ls
  | n+1, M, .store c o :: ns, ls => walkWhy ρ n (M.set (.cell c) (tr ρ M o)) ns ls
  | n+1, M, .load r c :: ns, ls =>
    if ρ.get r = none then walkWhy ρ n (M.set (.lreg r) (M.get (.cell c))) ns ls else s!"load register {r} is related by rho"
  | n+1, M, .op r f args :: ns, .op r' f' args' :: ls =>
    if ρ.get r != some r' then s!"naive op {r} ({f}) is not related to lifted op {r'} ({f'})"
    else if f != f' then s!"operations differ: naive {r} {f} / lifted {r'} {f'}"
    else if trs ρ M args != some args' then s!"operands of {r}/{r'} ({f}): naive {repr args} translate to {repr (args.map (tr ρ M))}, lifted has {repr args'}"
    else walkWhy ρ n (M.kill r') ns ls
  | _, _, .op r f _ :: _, l :: _ => s!"naive op {r} ({f}) faces {repr l}"
  | _, _, .op r f _ :: _, [] => s!"naive op {r} ({f}) has no counterpart"

def liftWhy (N L : Core.Fn) (ρ : Rho) (cert : List KMap) : String := Id.run do
  if N.nparams != L.nparams then return "nparams differ"
  if N.recover != L.recover then return "recover blocks differ"
  if N.blocks.length != L.blocks.length then return "number of blocks differs"
  if !rhoOk ρ N.nparams then return "rho is not injective / moves a parameter"
  for b in [0:N.blocks.length] do
    match N.blocks[b]?, L.blocks[b]? with
    | some NB, some LB =>
      if NB.preds != LB.preds then return s!"block {b}: preds differ"
      if !wfMap ρ (certAt cert b) then return s!"block {b}: certificate names a rho-related register as load register"
      if !phisOk ρ NB LB then return s!"block {b}: a lifted phi is related to a naive non-phi register"
      match walk ρ (certAt cert b) NB.body LB.body with
      | none => return s!"block {b}: bodies do not correspond under the certificate: " ++ walkWhy ρ (NB.body.length + LB.body.length + 1) (certAt cert b) NB.body LB.body
      | some Mo => if !termOk ρ Mo NB.term LB.term then return s!"block {b}: terminators do not correspond"
      for k in [0:NB.preds.length] do
        match mout ρ cert N L (NB.preds.getD k 0) with
        | some Mo => if !edgeOk ρ Mo k NB LB (certAt cert b) then return s!"block {b}: edge {k} from block {NB.preds.getD k 0} does not justify the entry map / phi operands"
        | none =>
          let pb := NB.preds.getD k 0
          match N.blocks[pb]?, L.blocks[pb]? with
          | some PN, some PL => return s!"block {pb}: bodies do not correspond under the certificate: " ++ walkWhy ρ (PN.body.length + PL.body.length + 1) (certAt cert pb) PN.body PL.body
          | _, _ => return s!"block {b}: predecessor {pb} missing"
    | _, _ => return s!"block {b} missing"
  if !entryOk cert N L 0 then return "entry block has phis or a non-empty entry map"
  match N.recover with
  | some rb => if !entryOk cert N L rb then return "recover block has phis or a non-empty entry map"
  | none => pure ()
  return "unknown"

end Verif.C01
