import Verif.C01.Driver
open Verif.C01

partial def loop (h out : IO.FS.Stream) (s : DState) : IO Unit := do
  let line ← h.getLine
  if line.isEmpty then
    out.flush
    return ()
  let l := if line.endsWith "\n" then (line.dropEnd 1).toString else line
  let (s', o) := dstep s l
  out.putStrLn o
  loop h out s'

def main : IO UInt32 := do
  loop (← IO.getStdin) (← IO.getStdout) {}
  return 0
