import Verif.C01.Core
/-
Soundness of the lift validator `Core.liftCheck` (lemmas; the property theorems are in
`Theorems.lean`).
-/
namespace Verif.C01.Core

variable {V W : Type}

/-! ### symbolic maps -/

theorem KMap.get_mem {M : KMap} {k : Key} {o : Opnd} (h : M.get k = some o) : (k, o) ∈ M := by
  induction M with
  | nil => simp [KMap.get] at h
  | cons e m ih =>
    obtain ⟨k', o'⟩ := e
    simp only [KMap.get] at h
    split at h
    · rename_i hk; cases h; subst hk; simp
    · exact List.mem_cons_of_mem _ (ih h)

theorem KMap.mem_del {M : KMap} {k k' : Key} {o : Opnd} (h : (k', o) ∈ M.del k) : (k', o) ∈ M ∧ k' ≠ k := by
  induction M with
  | nil => simp [KMap.del] at h
  | cons e m ih =>
    obtain ⟨k0, o0⟩ := e
    simp only [KMap.del] at h
    split at h
    · have := ih h; exact ⟨List.mem_cons_of_mem _ this.1, this.2⟩
    · rename_i hk
      rcases List.mem_cons.mp h with h | h
      · cases h; exact ⟨by simp, hk⟩
      · have := ih h; exact ⟨List.mem_cons_of_mem _ this.1, this.2⟩

theorem KMap.mem_kill {M : KMap} {r : Reg} {k : Key} {o : Opnd} (h : (k, o) ∈ M.kill r) : (k, o) ∈ M ∧ o ≠ .reg r := by
  induction M with
  | nil => simp [KMap.kill] at h
  | cons e m ih =>
    obtain ⟨k0, o0⟩ := e
    simp only [KMap.kill] at h
    split at h
    · have := ih h; exact ⟨List.mem_cons_of_mem _ this.1, this.2⟩
    · rename_i ho
      rcases List.mem_cons.mp h with h | h
      · cases h; exact ⟨by simp, ho⟩
      · have := ih h; exact ⟨List.mem_cons_of_mem _ this.1, this.2⟩

theorem KMap.mem_set {M : KMap} {k k' : Key} {x : Option Opnd} {o : Opnd} (h : (k', o) ∈ M.set k x) :
    (k' = k ∧ x = some o) ∨ ((k', o) ∈ M ∧ k' ≠ k) := by
  cases x with
  | none => simp only [KMap.set] at h; exact Or.inr (KMap.mem_del h)
  | some o' =>
    simp only [KMap.set] at h
    rcases List.mem_cons.mp h with h | h
    · cases h; exact Or.inl ⟨rfl, rfl⟩
    · exact Or.inr (KMap.mem_del h)

/-! ### ρ -/

theorem Rho.get_mem {ρ : Rho} {r r' : Reg} (h : ρ.get r = some r') : (r, r') ∈ ρ := by
  induction ρ with
  | nil => simp [Rho.get] at h
  | cons e m ih =>
    obtain ⟨a, b⟩ := e
    simp only [Rho.get] at h
    split at h
    · rename_i ha; cases h; subst ha; simp
    · exact List.mem_cons_of_mem _ (ih h)

theorem nodup_snd_inj {ρ : Rho} (hn : (ρ.map (·.2)).Nodup) {a b c : Reg} (h1 : (a, c) ∈ ρ) (h2 : (b, c) ∈ ρ) : a = b := by
  induction ρ with
  | nil => simp at h1
  | cons e m ih =>
    simp only [List.map_cons, List.nodup_cons] at hn
    rcases List.mem_cons.mp h1 with e1 | m1 <;> rcases List.mem_cons.mp h2 with e2 | m2
    · rw [← e1] at e2; cases e2; rfl
    · exfalso; apply hn.1; subst e1; exact List.mem_map.mpr ⟨(b, c), m2, rfl⟩
    · exfalso; apply hn.1; subst e2; exact List.mem_map.mpr ⟨(a, c), m1, rfl⟩
    · exact ih hn.2 m1 m2

def RInj (ρ : Rho) : Prop := ∀ r1 r2 r', ρ.get r1 = some r' → ρ.get r2 = some r' → r1 = r2

theorem rinj_of_nodup {ρ : Rho} (hn : (ρ.map (·.2)).Nodup) : RInj ρ :=
  fun _ _ _ h1 h2 => nodup_snd_inj hn (Rho.get_mem h1) (Rho.get_mem h2)

/-! ### the simulation invariant -/

def valN (s : St V W) : Key → V
  | .cell c => s.cells c
  | .lreg r => s.regs r

structure Inv (S : Sem V W) (ρ : Rho) (M : KMap) (sn sl : St V W) : Prop where
  world : sn.w = sl.w
  regs : ∀ r r', ρ.get r = some r' → sn.regs r = sl.regs r'
  cont : ∀ k o, (k, o) ∈ M → valN sn k = eval S sl o
  wf : ∀ r o, (Key.lreg r, o) ∈ M → ρ.get r = none

theorem tr_sound {S : Sem V W} {ρ : Rho} {M : KMap} {sn sl : St V W} (hi : Inv S ρ M sn sl)
    {o o' : Opnd} (h : tr ρ M o = some o') : eval S sn o = eval S sl o' := by
  cases o with
  | const c => simp only [tr] at h; cases h; rfl
  | reg r =>
    simp only [tr] at h
    split at h
    · rename_i r' hr; cases h; exact hi.regs r r' hr
    · exact hi.cont _ _ (KMap.get_mem h)

theorem trs_sound {S : Sem V W} {ρ : Rho} {M : KMap} {sn sl : St V W} (hi : Inv S ρ M sn sl)
    {os os' : List Opnd} (h : trs ρ M os = some os') : os.map (eval S sn) = os'.map (eval S sl) := by
  induction os generalizing os' with
  | nil => simp only [trs] at h; cases h; rfl
  | cons o os ih =>
    simp only [trs] at h
    split at h
    · rename_i o1 os1 h1 h2; cases h
      simp only [List.map_cons, tr_sound hi h1, ih h2]
    · cases h


/-! ### bodies -/

def IRel (S : Sem V W) (ρ : Rho) (M' : KMap) : IRes V W → IRes V W → Prop
  | .cont sn, .cont sl => Inv S ρ M' sn sl
  | .recover sn, .recover sl => Inv S ρ [] sn sl
  | .abort v w, .abort v' w' => v = v' ∧ w = w'
  | _, _ => False

theorem Inv.weaken {S : Sem V W} {ρ : Rho} {M : KMap} {sn sl : St V W} (hi : Inv S ρ M sn sl) : Inv S ρ [] sn sl :=
  ⟨hi.world, hi.regs, by intro k o h; simp at h, by intro r o h; simp at h⟩

theorem inv_alloc {S : Sem V W} {ρ : Rho} {M : KMap} {sn sl : St V W} (hi : Inv S ρ M sn sl) (c : Nat) (ty : String) :
    Inv S ρ (M.set (.cell c) (some (.const (.zero ty)))) { sn with cells := upd sn.cells c (S.cval (.zero ty)) } sl := by
  refine ⟨hi.world, hi.regs, ?_, ?_⟩
  · intro k o h
    rcases KMap.mem_set h with ⟨hk, ho⟩ | ⟨hm, hk⟩
    · subst hk; cases ho; simp [valN, upd, eval]
    · have := hi.cont k o hm
      cases k with
      | cell c' =>
        have hc : c' ≠ c := fun e => hk (by rw [e])
        simpa [valN, upd, hc] using this
      | lreg r => simpa [valN] using this
  · intro r o h
    rcases KMap.mem_set h with ⟨hk, _⟩ | ⟨hm, _⟩
    · cases hk
    · exact hi.wf r o hm

theorem inv_store {S : Sem V W} {ρ : Rho} {M : KMap} {sn sl : St V W} (hi : Inv S ρ M sn sl) (c : Nat) (o : Opnd) :
    Inv S ρ (M.set (.cell c) (tr ρ M o)) { sn with cells := upd sn.cells c (eval S sn o) } sl := by
  refine ⟨hi.world, hi.regs, ?_, ?_⟩
  · intro k o' h
    rcases KMap.mem_set h with ⟨hk, ho⟩ | ⟨hm, hk⟩
    · subst hk
      have := tr_sound hi ho
      simpa [valN, upd] using this
    · have := hi.cont k o' hm
      cases k with
      | cell c' =>
        have hc : c' ≠ c := fun e => hk (by rw [e])
        simpa [valN, upd, hc] using this
      | lreg r => simpa [valN] using this
  · intro r o' h
    rcases KMap.mem_set h with ⟨hk, _⟩ | ⟨hm, _⟩
    · cases hk
    · exact hi.wf r o' hm

theorem inv_load {S : Sem V W} {ρ : Rho} {M : KMap} {sn sl : St V W} (hi : Inv S ρ M sn sl) (r c : Nat)
    (hr : ρ.get r = none) :
    Inv S ρ (M.set (.lreg r) (M.get (.cell c))) { sn with regs := upd sn.regs r (sn.cells c) } sl := by
  refine ⟨hi.world, ?_, ?_, ?_⟩
  · intro r0 r0' h
    have hne : r0 ≠ r := fun e => by rw [e, hr] at h; cases h
    simpa [upd, hne] using hi.regs r0 r0' h
  · intro k o h
    rcases KMap.mem_set h with ⟨hk, ho⟩ | ⟨hm, hk⟩
    · subst hk
      have := hi.cont _ _ (KMap.get_mem ho)
      simpa [valN, upd] using this
    · have := hi.cont k o hm
      cases k with
      | cell c' => simpa [valN] using this
      | lreg r0 =>
        have hc : r0 ≠ r := fun e => hk (by rw [e])
        simpa [valN, upd, hc] using this
  · intro r0 o h
    rcases KMap.mem_set h with ⟨hk, _⟩ | ⟨hm, _⟩
    · cases hk; exact hr
    · exact hi.wf r0 o hm

theorem inv_op {S : Sem V W} {ρ : Rho} {M : KMap} {sn sl : St V W} (hi : Inv S ρ M sn sl) (hinj : RInj ρ)
    (r r' : Reg) (hr : ρ.get r = some r') (v : V) (w : W) :
    Inv S ρ (M.kill r') { sn with regs := upd sn.regs r v, w := w } { sl with regs := upd sl.regs r' v, w := w } := by
  refine ⟨rfl, ?_, ?_, ?_⟩
  · intro r0 r0' h
    by_cases e : r0 = r
    · subst e; rw [hr] at h; cases h; simp [upd]
    · have e' : r0' ≠ r' := fun e2 => e (hinj r0 r r' (by rw [← e2]; exact h) hr)
      simpa [upd, e, e'] using hi.regs r0 r0' h
  · intro k o h
    have ⟨hm, ho⟩ := KMap.mem_kill h
    have hc := hi.cont k o hm
    have e1 : eval S { sl with regs := upd sl.regs r' v, w := w } o = eval S sl o := by
      cases o with
      | const c => rfl
      | reg r2 =>
        have : r2 ≠ r' := fun e => ho (by rw [e])
        simp [eval, upd, this]
    rw [e1, ← hc]
    cases k with
    | cell c => rfl
    | lreg r0 =>
      have hn := hi.wf r0 o hm
      have : r0 ≠ r := fun e => by rw [e, hr] at hn; cases hn
      simp [valN, upd, this]
  · intro r0 o h
    exact hi.wf r0 o (KMap.mem_kill h).1

theorem walk_sound {S : Sem V W} {ρ : Rho} (hinj : RInj ρ) :
    ∀ (ns ls : List Ins) (M M' : KMap) (sn sl : St V W), walk ρ M ns ls = some M' → Inv S ρ M sn sl →
      IRel S ρ M' (execBody S ns sn) (execBody S ls sl) := by
  intro ns
  induction ns with
  | nil =>
    intro ls M M' sn sl hw hi
    cases ls with
    | nil => simp only [walk] at hw; cases hw; simpa [execBody, IRel] using hi
    | cons l ls => simp [walk] at hw
  | cons i ns ih =>
    intro ls M M' sn sl hw hi
    cases i with
    | alloc c ty =>
      simp only [walk] at hw
      have := ih ls _ M' _ sl hw (inv_alloc hi c ty)
      simpa [execBody, execIns] using this
    | store c o =>
      simp only [walk] at hw
      have := ih ls _ M' _ sl hw (inv_store hi c o)
      simpa [execBody, execIns] using this
    | load r c =>
      simp only [walk] at hw
      split at hw
      · rename_i hr
        have := ih ls _ M' _ sl hw (inv_load hi r c hr)
        simpa [execBody, execIns] using this
      · cases hw
    | op r f args =>
      cases ls with
      | nil => simp [walk] at hw
      | cons l ls =>
        cases l with
        | op r' f' args' =>
          simp only [walk] at hw
          split at hw
          · rename_i hc
            obtain ⟨hr, hf, ha⟩ := hc
            subst hf
            have hargs := trs_sound hi ha
            have hwld := hi.world
            simp only [execBody, execIns, hargs, hwld]
            cases hop : S.op f (args'.map (eval S sl)) sl.w with
            | ok v w =>
              simp only
              exact ih ls _ M' _ _ hw (inv_op hi hinj r r' hr v w)
            | recover w =>
              simp only [IRel]
              exact ⟨rfl, hi.regs, by intro k o h; simp at h, by intro r o h; simp at h⟩
            | abort v w => simp [IRel]
          · cases hw
        | alloc c ty => simp [walk] at hw
        | store c o => simp [walk] at hw
        | load r c => simp [walk] at hw


/-! ### block entry -/

theorem findPhi_some {r : Reg} {ps : List Phi} {p : Phi} (h : findPhi r ps = some p) : p ∈ ps ∧ p.reg = r := by
  induction ps with
  | nil => simp [findPhi] at h
  | cons q qs ih =>
    simp only [findPhi] at h
    split at h
    · rename_i hq; cases h; exact ⟨by simp, hq⟩
    · have := ih h; exact ⟨List.mem_cons_of_mem _ this.1, this.2⟩

theorem findPhi_of_mem {ps : List Phi} {p : Phi} (h : p ∈ ps) : findPhi p.reg ps ≠ none := by
  induction ps with
  | nil => simp at h
  | cons q qs ih =>
    simp only [findPhi]
    split
    · simp
    · rename_i hq
      rcases List.mem_cons.mp h with h | h
      · exact absurd (by rw [h]) hq
      · exact ih h

theorem wfMap_spec {ρ : Rho} {M : KMap} (h : wfMap ρ M = true) : ∀ r o, (Key.lreg r, o) ∈ M → ρ.get r = none := by
  intro r o hm
  have := (List.all_eq_true.mp h) _ hm
  simpa using this

theorem enter_sound {S : Sem V W} {ρ : Rho} (hinj : RInj ρ) {NB LB : Block} {Mout Min : KMap} {k : Nat}
    {sn sl : St V W} (hpo : phisOk ρ NB LB = true) (he : edgeOk ρ Mout k NB LB Min = true)
    (hwf : wfMap ρ Min = true) (hi : Inv S ρ Mout sn sl) :
    Inv S ρ Min { sn with regs := phiRegs S NB.phis k sn } { sl with regs := phiRegs S LB.phis k sl } := by
  simp only [edgeOk, Bool.and_eq_true] at he
  obtain ⟨hea, heb⟩ := he
  have hea' := List.all_eq_true.mp hea
  have heb' := List.all_eq_true.mp heb
  -- a naive register that is not related by ρ is not a naive phi
  have hnophi : ∀ r0, ρ.get r0 = none → findPhi r0 NB.phis = none := by
    intro r0 h0
    cases hf : findPhi r0 NB.phis with
    | none => rfl
    | some p =>
      have ⟨hpm, hpr⟩ := findPhi_some hf
      have := hea' p hpm
      rw [hpr, h0] at this
      simp at this
  refine ⟨hi.world, ?_, ?_, wfMap_spec hwf⟩
  · intro r r' hr
    simp only [phiRegs]
    cases hf : findPhi r NB.phis with
    | some p =>
      have ⟨hpm, hpr⟩ := findPhi_some hf
      have h1 := hea' p hpm
      rw [hpr, hr] at h1
      simp only at h1
      cases hq : findPhi r' LB.phis with
      | none => rw [hq] at h1; simp at h1
      | some q =>
        rw [hq] at h1
        simp only [decide_eq_true_eq] at h1
        exact tr_sound hi h1
    | none =>
      simp only
      cases hq : findPhi r' LB.phis with
      | none => exact hi.regs r r' hr
      | some q =>
        exfalso
        have ⟨hqm, hqr⟩ := findPhi_some hq
        simp only [phisOk, Bool.and_eq_true, decide_eq_true_eq, Bool.decide_and] at hpo
        have h3 := (List.all_eq_true.mp hpo.2.2) q hqm
        simp only [Bool.or_eq_true, List.any_eq_true, Bool.not_eq_true', decide_eq_true_eq] at h3
        rcases h3 with ⟨p, hpm, hp⟩ | h3
        · rw [hqr] at hp
          have := hinj _ _ _ hp hr
          have hne := findPhi_of_mem hpm
          rw [this, hf] at hne
          exact hne rfl
        · have hmem : r' ∈ ρ.map (·.2) := List.mem_map.mpr ⟨(r, r'), Rho.get_mem hr, rfl⟩
          rw [hqr] at h3
          simp at h3
          exact h3 _ (Rho.get_mem hr)
  · intro key o hm
    have hb := heb' (key, o) hm
    have hval : valN { sn with regs := phiRegs S NB.phis k sn } key = valN sn key := by
      cases key with
      | cell c => rfl
      | lreg r0 =>
        have := hnophi r0 (wfMap_spec hwf r0 o hm)
        simp [valN, phiRegs, this]
    rw [hval]
    cases o with
    | const c =>
      simp only [decide_eq_true_eq] at hb
      exact hi.cont _ _ (KMap.get_mem hb)
    | reg r0' =>
      simp only at hb
      cases hq : findPhi r0' LB.phis with
      | none =>
        rw [hq] at hb
        simp only [decide_eq_true_eq] at hb
        have := hi.cont _ _ (KMap.get_mem hb)
        simpa [eval, phiRegs, hq] using this
      | some q =>
        rw [hq] at hb
        simp only [decide_eq_true_eq] at hb
        have := hi.cont _ _ (KMap.get_mem hb)
        simpa [eval, phiRegs, hq] using this


/-! ### whole functions -/

theorem idxOf_some {x : Nat} {l : List Nat} {k : Nat} (h : idxOf x l = some k) : k < l.length ∧ l.getD k 0 = x := by
  induction l generalizing k with
  | nil => simp [idxOf] at h
  | cons y ys ih =>
    simp only [idxOf] at h
    split at h
    · rename_i hy; cases h; simp [hy]
    · cases hi : idxOf x ys with
      | none => rw [hi] at h; simp at h
      | some j =>
        rw [hi] at h; simp at h; subst h
        have := ih hi
        exact ⟨by simp; omega, by simpa using this.2⟩

theorem allIdx_spec {n : Nat} {p : Nat → Bool} (h : allIdx n p = true) : ∀ i, i < n → p i = true := by
  intro i hi
  exact (List.all_eq_true.mp h) i (List.mem_range.mpr hi)

structure Checked (N L : Fn) (ρ : Rho) (cert : List KMap) : Prop where
  np : N.nparams = L.nparams
  recov : N.recover = L.recover
  len : N.blocks.length = L.blocks.length
  rho : rhoOk ρ N.nparams = true
  blocks : ∀ b, b < N.blocks.length → blockOk ρ cert N L b = true
  entry0 : entryOk cert N L 0 = true
  entryR : ∀ rb, N.recover = some rb → entryOk cert N L rb = true

theorem checked_of_liftCheck {N L : Fn} {ρ : Rho} {cert : List KMap} (h : liftCheck N L ρ cert = true) :
    Checked N L ρ cert := by
  simp only [liftCheck, Bool.and_eq_true, decide_eq_true_eq] at h
  obtain ⟨⟨⟨⟨⟨⟨h1, h2⟩, h3⟩, h4⟩, h5⟩, h6⟩, h7⟩ := h
  refine ⟨h1, h2, h3, h4, allIdx_spec h5, h6, ?_⟩
  intro rb hrb
  rw [hrb] at h7
  exact h7

def Pre (S : Sem V W) (N L : Fn) (ρ : Rho) (cert : List KMap) (frm : Option Nat) (b : Nat) (sn sl : St V W) : Prop :=
  match frm with
  | none => entryOk cert N L b = true ∧ Inv S ρ [] sn sl
  | some p => ∃ Mo, mout ρ cert N L p = some Mo ∧ Inv S ρ Mo sn sl

theorem run_sim {S : Sem V W} {N L : Fn} {ρ : Rho} {cert : List KMap} (hc : Checked N L ρ cert) :
    ∀ (n b : Nat) (frm : Option Nat) (sn sl : St V W), Pre S N L ρ cert frm b sn sl →
      run S N n b frm sn = run S L n b frm sl := by
  have hinj : RInj ρ := by
    have := hc.rho
    simp only [rhoOk, Bool.and_eq_true, decide_eq_true_eq, Bool.decide_and] at this
    exact rinj_of_nodup this.1
  intro n
  induction n with
  | zero => intro b frm sn sl _; rfl
  | succ n ih =>
    intro b frm sn sl hpre
    simp only [run]
    cases hNB : N.blocks[b]? with
    | none =>
      have : L.blocks[b]? = none := by
        rw [List.getElem?_eq_none_iff] at hNB ⊢
        rw [← hc.len]; exact hNB
      rw [this]
    | some NB =>
      have hb : b < N.blocks.length := by
        rcases Nat.lt_or_ge b N.blocks.length with h | h
        · exact h
        · rw [List.getElem?_eq_none_iff.mpr h] at hNB; cases hNB
      have hbo := hc.blocks b hb
      simp only [blockOk, hNB] at hbo
      cases hLB : L.blocks[b]? with
      | none => rw [hLB] at hbo; simp at hbo
      | some LB =>
        rw [hLB] at hbo
        simp only [Bool.and_eq_true, decide_eq_true_eq] at hbo
        obtain ⟨⟨⟨⟨hpreds, hwf⟩, hphis⟩, hwalk⟩, hedges⟩ := hbo
        simp only
        -- entering the block
        have henter : (enter S NB frm sn = none ∧ enter S LB frm sl = none) ∨
            ∃ s1n s1l, enter S NB frm sn = some s1n ∧ enter S LB frm sl = some s1l ∧
              Inv S ρ (certAt cert b) s1n s1l := by
          cases frm with
          | none =>
            obtain ⟨he, hi⟩ := hpre
            simp only [entryOk, hNB, hLB, decide_eq_true_eq, Bool.decide_and, Bool.and_eq_true] at he
            obtain ⟨hp1, hp2, hce⟩ := he
            right
            refine ⟨sn, sl, by simp [enter, hp1], by simp [enter, hp2], ?_⟩
            rw [hce]; exact hi
          | some p =>
            obtain ⟨Mo, hMo, hi⟩ := hpre
            simp only [enter, ← hpreds]
            cases hk : idxOf p NB.preds with
            | none => left; exact ⟨rfl, rfl⟩
            | some k =>
              right
              have ⟨hklt, hkp⟩ := idxOf_some hk
              have he := allIdx_spec hedges k hklt
              rw [hkp, hMo] at he
              simp only at he
              exact ⟨_, _, rfl, rfl, enter_sound hinj hphis he hwf hi⟩
        rcases henter with ⟨h1, h2⟩ | ⟨s1n, s1l, h1, h2, hi1⟩
        · rw [h1, h2]
        · rw [h1, h2]
          simp only
          cases hw : walk ρ (certAt cert b) NB.body LB.body with
          | none => rw [hw] at hwalk; simp at hwalk
          | some Mb =>
            rw [hw] at hwalk
            simp only at hwalk
            have hmout : mout ρ cert N L b = some Mb := by simp [mout, hNB, hLB, hw]
            have hrel := walk_sound (S := S) hinj NB.body LB.body _ _ s1n s1l hw hi1
            -- what happens after a recovered panic
            have hrecov : ∀ (s2n s2l : St V W), Inv S ρ [] s2n s2l →
                (match N.recover with
                  | some rb => run S N n rb none s2n
                  | none => Outcome.recovered s2n.w) =
                (match L.recover with
                  | some rb => run S L n rb none s2l
                  | none => Outcome.recovered s2l.w) := by
              intro s2n s2l hi2
              rw [← hc.recov]
              cases hr : N.recover with
              | none => simp only; rw [hi2.world]
              | some rb => exact ih rb none s2n s2l ⟨hc.entryR rb hr, hi2⟩
            cases hen : execBody S NB.body s1n with
            | abort v w =>
              cases hel : execBody S LB.body s1l with
              | abort v' w' =>
                rw [hen, hel] at hrel
                simp only [IRel] at hrel
                simp only [hrel.1, hrel.2]
              | cont s => rw [hen, hel] at hrel; exact hrel.elim
              | recover s => rw [hen, hel] at hrel; exact hrel.elim
            | recover s2n =>
              cases hel : execBody S LB.body s1l with
              | recover s2l =>
                rw [hen, hel] at hrel
                exact hrecov s2n s2l hrel
              | cont s => rw [hen, hel] at hrel; exact hrel.elim
              | abort v w => rw [hen, hel] at hrel; exact hrel.elim
            | cont s2n =>
              cases hel : execBody S LB.body s1l with
              | abort v w => rw [hen, hel] at hrel; exact hrel.elim
              | recover s => rw [hen, hel] at hrel; exact hrel.elim
              | cont s2l =>
                rw [hen, hel] at hrel
                simp only [IRel] at hrel
                simp only
                cases hNt : NB.term with
                | switch f a succs =>
                  cases hLt : LB.term with
                  | switch f' a' succs' =>
                    rw [hNt, hLt] at hwalk
                    simp only [termOk, decide_eq_true_eq, Bool.decide_and, Bool.and_eq_true] at hwalk
                    obtain ⟨hf, hs, ha⟩ := hwalk
                    subst hf; subst hs
                    simp only [trs_sound hrel ha]
                    cases hsucc : succs[S.sel f (a'.map (eval S s2l))]? with
                    | none => rfl
                    | some b' => exact ih b' (some b) s2n s2l ⟨Mb, hmout, hrel⟩
                  | ret a' => rw [hNt, hLt] at hwalk; simp [termOk] at hwalk
                  | panic f' a' => rw [hNt, hLt] at hwalk; simp [termOk] at hwalk
                | ret a =>
                  cases hLt : LB.term with
                  | ret a' =>
                    rw [hNt, hLt] at hwalk
                    simp only [termOk, decide_eq_true_eq] at hwalk
                    simp only [trs_sound hrel hwalk, hrel.world]
                  | switch f' a' succs' => rw [hNt, hLt] at hwalk; simp [termOk] at hwalk
                  | panic f' a' => rw [hNt, hLt] at hwalk; simp [termOk] at hwalk
                | panic f a =>
                  cases hLt : LB.term with
                  | panic f' a' =>
                    rw [hNt, hLt] at hwalk
                    simp only [termOk, decide_eq_true_eq, Bool.decide_and, Bool.and_eq_true] at hwalk
                    obtain ⟨hf, ha⟩ := hwalk
                    subst hf
                    simp only [trs_sound hrel ha, hrel.world]
                    cases hop : S.op f (a'.map (eval S s2l)) s2l.w with
                    | ok v w => rfl
                    | abort v w => rfl
                    | recover w =>
                      simp only
                      exact hrecov { s2n with w := w } { s2l with w := w }
                        ⟨rfl, hrel.regs, by intro k o h; simp at h, by intro r o h; simp at h⟩
                  | switch f' a' succs' => rw [hNt, hLt] at hwalk; simp [termOk] at hwalk
                  | ret a' => rw [hNt, hLt] at hwalk; simp [termOk] at hwalk

theorem init_inv {S : Sem V W} {N L : Fn} {ρ : Rho} {cert : List KMap} (hc : Checked N L ρ cert)
    (args : List V) (w : W) : Inv S ρ [] (initSt S N args w) (initSt S L args w) := by
  refine ⟨rfl, ?_, by intro k o h; simp at h, by intro r o h; simp at h⟩
  intro r r' hr
  have h := hc.rho
  simp only [rhoOk, Bool.and_eq_true, decide_eq_true_eq, Bool.decide_and] at h
  have h2 := (List.all_eq_true.mp h.2) (r, r') (Rho.get_mem hr)
  simp only [decide_eq_true_eq] at h2
  simp only [initSt, ← hc.np]
  by_cases h1 : r < N.nparams
  · have := h2 (Or.inl h1); subst this; rfl
  · by_cases h3 : r' < N.nparams
    · have := h2 (Or.inr h3); subst this; exact absurd h3 h1
    · simp [h1, h3]

/-! ### whole programs: calls resolved inside the calculus -/

/-- how operations call functions of the program: `callee f vs w` says whether operation `f` on
argument values `vs` in world `w` is a call (static, closure, interface method — resolved from the
values) of function number `g` with arguments `xs`; `ret` turns the callee's outcome into the
result of the call instruction in the caller (including the caller-side treatment of a panicking
callee: deferred calls, recovery). Everything else is `base`. -/
structure PSem (V W : Type) where
  base : Sem V W
  callee : String → List V → W → Option (Nat × List V)
  ret : String → List V → Outcome V W → OpRes V W
  fuel : Nat

def withOp {V W : Type} (S : Sem V W) (op : String → List V → W → OpRes V W) : Sem V W :=
  { cval := S.cval, op := op, sel := S.sel, undef := S.undef }

/-- the semantics of operations when calls may nest `d` deep -/
def semD {V W : Type} (P : PSem V W) (fns : List Fn) : Nat → Sem V W
  | 0 => withOp P.base fun f vs w =>
      match P.callee f vs w with
      | some _ => .abort P.base.undef w
      | none => P.base.op f vs w
  | d + 1 => withOp P.base fun f vs w =>
      match P.callee f vs w with
      | some (g, xs) =>
        (match fns[g]? with
         | some F => P.ret f vs (exec (semD P fns d) F P.fuel xs w)
         | none => .abort P.base.undef w)
      | none => P.base.op f vs w

/-- two functions that no semantics of operations can tell apart -/
def FnEquiv (N L : Fn) : Prop :=
  ∀ (V W : Type) (S : Sem V W) (fuel : Nat) (args : List V) (w : W), exec S N fuel args w = exec S L fuel args w

theorem fnEquiv_of_liftCheck {N L : Fn} {ρ : Rho} {cert : List KMap} (h : liftCheck N L ρ cert = true) : FnEquiv N L := by
  intro V W S fuel args w
  have hc := checked_of_liftCheck h
  exact run_sim hc fuel 0 none _ _ ⟨hc.entry0, init_inv hc args w⟩

/-- pointwise equivalent function tables -/
def TabEquiv (Ns Ls : List Fn) : Prop :=
  Ns.length = Ls.length ∧ ∀ (g : Nat) (N L : Fn), Ns[g]? = some N → Ls[g]? = some L → FnEquiv N L

theorem semD_eq {V W : Type} (P : PSem V W) {Ns Ls : List Fn} (h : TabEquiv Ns Ls) :
    ∀ d, semD P Ns d = semD P Ls d := by
  intro d
  induction d with
  | zero => rfl
  | succ d ih =>
    simp only [semD]
    congr 1
    funext f vs w
    cases hc : P.callee f vs w with
    | none => rfl
    | some ga =>
      obtain ⟨g, xs⟩ := ga
      simp only
      cases hN : Ns[g]? with
      | none =>
        have : Ls[g]? = none := by
          rw [List.getElem?_eq_none_iff] at hN ⊢
          rw [← h.1]; exact hN
        rw [this]
      | some N =>
        cases hL : Ls[g]? with
        | none =>
          have : Ns[g]? = none := by
            rw [List.getElem?_eq_none_iff] at hL ⊢
            rw [h.1]; exact hL
          rw [this] at hN; cases hN
        | some L =>
          simp only
          rw [ih, h.2 g N L hN hL]


/-- every pair of the two tables is accepted by the validator (with some relation and certificate) -/
theorem tabEquiv_of_liftCheck {Ns Ls : List Fn} (hlen : Ns.length = Ls.length)
    (h : ∀ (g : Nat) (N L : Fn), Ns[g]? = some N → Ls[g]? = some L → ∃ ρ cert, liftCheck N L ρ cert = true) :
    TabEquiv Ns Ls :=
  ⟨hlen, fun g N L hN hL => let ⟨_, _, hc⟩ := h g N L hN hL; fnEquiv_of_liftCheck hc⟩

end Verif.C01.Core
