import Verif.C01.Interp
namespace Verif.C01
end Verif.C01
