import Verif.C01.LiftProof
import Verif.C01.Interp
/-
C01 — property theorems.

FULL STATEMENT (the property; NOT proved as such — there is no formal semantics of Go source
and no Lean counterpart of go/ir/builder.go in this project):

    ∀ type-correct program P, function f of P, inputs x, mode m ∈ {naive, lifted} × {debug on, off}:
      behaviour (interpret (build m P) f x) = behaviour (compiled-by-gc P f x)

What is proved here, for ALL inputs, worlds and instruction semantics (unbounded):

  `lift_validator_sound_partial` — whenever the validator `Core.liftCheck` accepts a pair
  (naive function, lifted function) with SOME relation ρ of registers and SOME per-block
  certificate, the two functions have the same behaviour (results, panic/no-panic outcome,
  final world = heap of escaping objects + observer trace) for every argument list, every
  initial world, every block budget and EVERY meaning of the constants, of the non-lifted
  instructions (arithmetic, calls incl. the callee's behaviour, escaping memory, defers,
  recover) and of branch selection.  This is the lifted-vs-naive half of the property, per
  produced function (translation validation: the check runs the validator on the dumps of the
  real builder on every run).

  `_partial`, because (a) the validator works on the `Core` abstraction of a dump
  (`Abstract.lean`: a non-escaping Alloc is a private cell; a partially escaping Alloc of the
  naive function that lift.go split is a shadow cell that is synced with the object where the
  lifted function has its "split alloc" stores, checked by a typestate analysis; everything else is
  an opaque operation) — the abstraction function is trusted, compared with the reference
  interpreter only by the differential runs; (b) functions in which an Alloc was lifted only
  because an earlier round of lift removed its escaping use (address stored into a local that was
  lifted itself) are outside the fragment: the check reports them as `skip-indirect-alloc` /
  `skip-split-unvalidated` and they are covered by differential execution only; (c) the
  naive-vs-compiled half is explored (differential execution), not proved.

Further theorems: determinism of the calculus is by construction (`Core.run` is a function);
arithmetic of the reference interpreter (`wrapInt`) is shown to be Go's modular arithmetic.
-/
namespace Verif.C01
open Core

/-- Soundness of the lift validator: an accepted pair of functions is behaviourally equal. -/
theorem lift_validator_sound_partial {V W : Type} (N L : Core.Fn) (ρ : Rho) (cert : List KMap)
    (h : liftCheck N L ρ cert = true) (S : Sem V W) (fuel : Nat) (args : List V) (w : W) :
    exec S N fuel args w = exec S L fuel args w := by
  have hc := checked_of_liftCheck h
  exact run_sim hc fuel 0 none _ _ ⟨hc.entry0, init_inv hc args w⟩

/-! #### non-vacuity: a loop `x := p0; for { if c(x) {break}; x = g(x) }; return x`

naive: block 0 allocates cell 9, stores the parameter, jumps to the loop head 1; block 1 loads x
(register 10), branches on `c(x)`; block 2 stores `g(x)` and jumps back; block 3 loads and returns.
lifted: a phi (register 20) at the loop head. -/

def exN : Core.Fn := { nparams := 1, recover := none, blocks := [
  { preds := [], phis := [], body := [.alloc 9 "int", .store 9 (.reg 0)], term := .switch "jump" [] [1] },
  { preds := [0, 2], phis := [], body := [.load 10 9, .op 11 "c" [.reg 10]], term := .switch "if" [.reg 11] [3, 2] },
  { preds := [1], phis := [], body := [.load 12 9, .op 13 "g" [.reg 12], .store 9 (.reg 13)], term := .switch "jump" [] [1] },
  { preds := [1], phis := [], body := [.load 14 9], term := .ret [.reg 14] }] }

def exL : Core.Fn := { nparams := 1, recover := none, blocks := [
  { preds := [], phis := [], body := [], term := .switch "jump" [] [1] },
  { preds := [0, 2], phis := [{ reg := 20, edges := [.reg 0, .reg 23] }], body := [.op 21 "c" [.reg 20]], term := .switch "if" [.reg 21] [3, 2] },
  { preds := [1], phis := [], body := [.op 23 "g" [.reg 20]], term := .switch "jump" [] [1] },
  { preds := [1], phis := [], body := [], term := .ret [.reg 20] }] }

def exRho : Rho := [(0, 0), (11, 21), (13, 23)]
def exCert : List KMap := [[], [(.cell 9, .reg 20)], [(.cell 9, .reg 20)], [(.cell 9, .reg 20)]]

/-- the validator accepts the correct lifting … -/
example : liftCheck exN exL exRho exCert = true := by decide

/-- … hence the two functions agree for all inputs and all semantics -/
example {V W : Type} (S : Sem V W) (fuel : Nat) (args : List V) (w : W) :
    exec S exN fuel args w = exec S exL fuel args w :=
  lift_validator_sound_partial exN exL exRho exCert (by decide) S fuel args w

/-- a lifting with the phi operands in the wrong order is rejected (with this certificate) -/
def exBadHead : Core.Block :=
  { preds := [0, 2], phis := [{ reg := 20, edges := [.reg 23, .reg 0] }], body := [.op 21 "c" [.reg 20]],
    term := .switch "if" [.reg 21] [3, 2] }

def exLbad : Core.Fn := { exL with blocks := exL.blocks.set 1 exBadHead }

example : liftCheck exN exLbad exRho exCert = false := by decide

/-- and it really is wrong: with `c x = (x ≥ 1)`, `g x = x + 1` on input 5 the naive function
returns 5 while the mis-lifted one reads the not yet defined register 23 (value `undef` = 7) -/
def exSem : Sem Nat Unit :=
  { cval := fun _ => 0, undef := 7,
    op := fun f a w => match f, a with
      | "c", [x] => .ok (if x ≥ 1 then 1 else 0) w
      | "g", [x] => .ok (x + 1) w
      | _, _ => .abort 0 w,
    sel := fun f a => match f, a with
      | "if", [x] => if x = 1 then 0 else 1
      | _, _ => 0 }

def outNat : Outcome Nat Unit → Option (List Nat)
  | .ret vs _ => some vs
  | _ => none

example : outNat (exec exSem exN 10 [5] ()) = some [5] := by decide
example : outNat (exec exSem exL 10 [5] ()) = some [5] := by decide
example : outNat (exec exSem exLbad 10 [5] ()) = some [7] := by decide

/-! ### whole programs

`lift_validator_sound_partial` is per function and for every meaning of the call instructions.
Closing it under calls: when the meaning of a call instruction is "run the callee's body" (naive
bodies in the naive program, lifted bodies in the lifted program, nested to any depth `d`), two
programs whose functions are pairwise accepted by the validator behave equally. -/

/-- Whole-program soundness: pairwise validated function tables give equal behaviour of every
function under the semantics in which calls execute the callee's body (any call depth, any base
semantics of the remaining instructions, any way `callee`/`ret` of resolving calls from values). -/
theorem program_lift_sound_partial {V W : Type} (P : PSem V W) (Ns Ls : List Core.Fn) (hlen : Ns.length = Ls.length)
    (h : ∀ (g : Nat) (N L : Core.Fn), Ns[g]? = some N → Ls[g]? = some L → ∃ ρ cert, liftCheck N L ρ cert = true)
    (d g : Nat) (N L : Core.Fn) (hN : Ns[g]? = some N) (hL : Ls[g]? = some L) (args : List V) (w : W) :
    exec (semD P Ns d) N P.fuel args w = exec (semD P Ls d) L P.fuel args w := by
  have ht := tabEquiv_of_liftCheck hlen h
  rw [semD_eq P ht d]
  exact ht.2 g N L hN hL V W _ _ _ _

/-- non-vacuity: function 1 calls function 0 (the loop example) and adds one -/
def exCaller : Core.Fn := { nparams := 1, recover := none, blocks := [
  { preds := [], phis := [], body := [.op 1 "call:loop" [.reg 0], .op 2 "g" [.reg 1]], term := .ret [.reg 2] }] }

def exP : PSem Nat Unit :=
  { base := exSem, fuel := 10,
    callee := fun f vs _ => if f = "call:loop" then some (0, vs) else none,
    ret := fun _ _ o => match o with
      | .ret [v] w => .ok v w
      | _ => .abort 0 () }

example : outNat (exec (semD exP [exN, exCaller] 1) exCaller 10 [5] ()) = some [6] := by decide
example : outNat (exec (semD exP [exL, exCaller] 1) exCaller 10 [5] ()) = some [6] := by decide

example (d : Nat) (args : List Nat) :
    exec (semD exP [exN, exCaller] d) exCaller exP.fuel args () = exec (semD exP [exL, exCaller] d) exCaller exP.fuel args () :=
  program_lift_sound_partial exP [exN, exCaller] [exL, exCaller] rfl
    (by
      intro g N L hN hL
      match g with
      | 0 => simp at hN hL; subst hN; subst hL; exact ⟨exRho, exCert, by decide⟩
      | 1 => simp at hN hL; subst hN; subst hL; exact ⟨[(0, 0), (1, 1), (2, 2)], [[]], by decide⟩
      | g + 2 => simp at hN)
    d 1 exCaller exCaller rfl rfl args ()

/-! ### arithmetic of the reference interpreter -/

theorem emod_eq (a b : Int) : a.emod b = a % b := rfl
theorem pow2_pos (n : Nat) : 0 < pow2 n := by
  unfold pow2
  exact Int.natCast_pos.mpr (Nat.two_pow_pos n)
theorem pow2_succ (n : Nat) : pow2 (n + 1) = 2 * pow2 n := by
  unfold pow2
  simp only [Int.ofNat_eq_natCast, Nat.pow_succ, Int.natCast_mul]
  omega
theorem pow2_pred (bits : Nat) (hb : 0 < bits) : pow2 bits = 2 * pow2 (bits - 1) := by
  have : bits = (bits - 1) + 1 := by omega
  rw [this, pow2_succ]; simp
theorem wrapInt_congr (bits : Nat) (signed : Bool) (i : Int) :
    (wrapInt bits signed i) % (pow2 bits) = i % (pow2 bits) := by
  simp only [wrapInt, emod_eq]
  split
  · rw [Int.sub_emod, Int.emod_self, Int.sub_zero, Int.emod_emod, Int.emod_emod]
  · exact Int.emod_emod _ _
theorem wrapInt_signed_range (bits : Nat) (hb : 0 < bits) (i : Int) :
    -pow2 (bits - 1) ≤ wrapInt bits true i ∧ wrapInt bits true i < pow2 (bits - 1) := by
  have hp := pow2_pos bits
  have h2 := pow2_pred bits hb
  have h0 := Int.emod_nonneg i (show pow2 bits ≠ 0 by omega)
  have h1 := Int.emod_lt_of_pos i hp
  simp only [wrapInt, Bool.true_and, emod_eq]
  split
  · rename_i h; simp only [decide_eq_true_eq] at h; omega
  · rename_i h; simp only [decide_eq_true_eq] at h; omega
theorem wrapInt_id_signed (bits : Nat) (hb : 0 < bits) (i : Int)
    (h : -pow2 (bits - 1) ≤ i ∧ i < pow2 (bits - 1)) : wrapInt bits true i = i := by
  have h2 := pow2_pred bits hb
  have hp := pow2_pos (bits - 1)
  simp only [wrapInt, Bool.true_and, emod_eq]
  by_cases hi : 0 ≤ i
  · have : i % (pow2 bits) = i := Int.emod_eq_of_lt hi (by omega)
    simp only [this, decide_eq_true_eq]; split <;> omega
  · have : i % (pow2 bits) = i + pow2 bits := by
      rw [← Int.add_mul_emod_self_left i (pow2 bits) 1, Int.mul_one]
      exact Int.emod_eq_of_lt (by omega) (by omega)
    simp only [this, decide_eq_true_eq]; split <;> omega

/-- unsigned wrap-around: the result is the residue modulo 2^bits -/
theorem wrapInt_unsigned_range (bits : Nat) (i : Int) :
    0 ≤ wrapInt bits false i ∧ wrapInt bits false i < pow2 bits := by
  have hp := pow2_pos bits
  simp only [wrapInt, Bool.false_and, Bool.false_eq_true, if_false, emod_eq]
  exact ⟨Int.emod_nonneg _ (by omega), Int.emod_lt_of_pos _ hp⟩

example : wrapInt 8 true 200 = -56 := by decide
example : wrapInt 8 false (-1) = 255 := by decide
example : wrapInt 64 true (9223372036854775807 + 1) = -9223372036854775808 := by decide

/-- integer division and remainder by zero panic (Go spec: run-time panic), whatever the type -/
theorem quo_by_zero_panics (p : Prog) (rty xt yt b : Nat) (sg : Bool) (a : Int) (h : intTy p rty = some (b, sg)) :
    execBinOp p .quo rty xt yt (.int a) (.int 0) = rtPanic "div" := by
  simp [execBinOp, cmpRes, h]

theorem rem_by_zero_panics (p : Prog) (rty xt yt b : Nat) (sg : Bool) (a : Int) (h : intTy p rty = some (b, sg)) :
    execBinOp p .rem rty xt yt (.int a) (.int 0) = rtPanic "div" := by
  simp [execBinOp, cmpRes, h]

/-- a shift count of at least the width gives 0 for `<<` (no panic, no wrap of the count) -/
theorem shl_large_is_zero (p : Prog) (rty xt yt b : Nat) (sg : Bool) (a k : Int) (h : intTy p rty = some (b, sg))
    (hk : Int.ofNat b ≤ k) : execBinOp p .shl rty xt yt (.int a) (.int k) = pure (.int 0) := by
  have h0 : ¬ k < 0 := by have : (0 : Int) ≤ Int.ofNat b := Int.natCast_nonneg b; omega
  simp only [Int.ofNat_eq_natCast] at hk
  simp [execBinOp, cmpRes, h, h0]
  intro hlt; omega

/-- a negative shift count panics -/
theorem shift_negative_panics (p : Prog) (rty xt yt b : Nat) (sg : Bool) (a k : Int) (h : intTy p rty = some (b, sg))
    (hk : k < 0) : execBinOp p .shl rty xt yt (.int a) (.int k) = rtPanic "negshift" ∧
      execBinOp p .shr rty xt yt (.int a) (.int k) = rtPanic "negshift" := by
  simp [execBinOp, cmpRes, h, hk]

end Verif.C01
