import Verif.C01.Syntax
/-
C01 — reference interpreter of the dumped IR, following the documented meaning of each
instruction (doc comments of go/ir/ssa.go; `TypeSwitch`/`ConstantSwitch`, which have no doc
comment, follow their only producer `builder.typeSwitchStmt`/`switchStmt`).

Total: the only genuine recursion (calls) is structural on a call-depth bound; all loops
are bounded `for` loops over a step budget.  Anything outside the executable subset stops
the run with `Stop.unsupported` (the function is then reported as skipped, never guessed).
-/
namespace Verif.C01

inductive Val where
  | int (i : Int)
  | bool (b : Bool)
  | str (s : ByteArray)
  | nil
  | ptr (obj : Nat) (path : List Nat)
  | slice (obj : Nat) (path : List Nat) (off len cap : Nat)
  | agg (vs : Array Val)
  | iface (ty : Nat) (v : Val)
  | closure (fn : Nat) (binds : Array Val)
  | iter (obj : Nat)
  | deferstack (frame : Nat)
  | undef
  deriving Inhabited

def Val.kindName : Val → String
  | .int _ => "int" | .bool _ => "bool" | .str _ => "str" | .nil => "nil" | .ptr .. => "ptr"
  | .slice .. => "slice" | .agg _ => "agg" | .iface .. => "iface" | .closure .. => "closure"
  | .iter _ => "iter" | .deferstack _ => "deferstack" | .undef => "undef"

/-- dynamic type id used for run-time errors (never a real tid) -/
def rtErrTid : Nat := 1000000000

def rtErr (kind : String) : Val := .iface rtErrTid (.str kind.toUTF8)

inductive Stop where
  | panic (v : Val)
  | unsupported (msg : String)
  | fuel
  deriving Inhabited

structure DeferCall where
  mode : CallMode
  callee : Val
  args : Array Val
  deriving Inhabited

structure St where
  heap : Array Val := #[]
  defers : Array (List DeferCall) := #[]
  panicking : Array (Option Val) := #[]
  trace : Array String := #[]
  steps : Nat := 0
  maxSteps : Nat := 100000
  deriving Inhabited

abbrev M := ExceptT Stop (StateM St)

def unsupported {α} (msg : String) : M α := throw (.unsupported msg)
def rtPanic {α} (kind : String) : M α := throw (.panic (rtErr kind))

def tick : M Unit := do
  let s ← get
  if s.steps ≥ s.maxSteps then throw .fuel
  set { s with steps := s.steps + 1 }

/-! ### integers -/

def pow2 (n : Nat) : Int := Int.ofNat (2 ^ n)

def wrapInt (bits : Nat) (signed : Bool) (i : Int) : Int :=
  let m := i.emod (pow2 bits)
  if signed && m ≥ pow2 (bits - 1) then m - pow2 bits else m

/-- two's complement bit pattern as a natural number -/
def toBits (bits : Nat) (i : Int) : Nat := (i.emod (pow2 bits)).toNat

def bitop (f : Nat → Nat → Nat) (bits : Nat) (signed : Bool) (x y : Int) : Int :=
  wrapInt bits signed (Int.ofNat (f (toBits bits x) (toBits bits y)))

/-! ### values, paths, heap -/

def Val.getPath : Val → List Nat → Option Val
  | v, [] => some v
  | .agg vs, i :: rest => match vs[i]? with
    | some x => x.getPath rest
    | none => none
  | _, _ :: _ => none

def Val.setPath : Val → List Nat → Val → Option Val
  | _, [], nv => some nv
  | .agg vs, i :: rest, nv => match vs[i]? with
    | some x => match x.setPath rest nv with
      | some x' => some (.agg (vs.set! i x'))
      | none => none
    | none => none
  | _, _ :: _, _ => none

def bytesLt (a b : ByteArray) : Bool := Id.run do
  let n := min a.size b.size
  for i in [0:n] do
    if a[i]! < b[i]! then return true
    if a[i]! > b[i]! then return false
  return a.size < b.size

/-- Go `==` on values; `none` = operands not comparable at run time (panics). -/
def Val.eqv : Nat → Val → Val → Option Bool
  | 0, _, _ => none
  | _, .int a, .int b => some (a == b)
  | _, .bool a, .bool b => some (a == b)
  | _, .str a, .str b => some (a == b)
  | _, .nil, .nil => some true
  | _, .ptr o p, .ptr o' p' => some (o == o' && p == p')
  | _, .ptr _ _, .nil => some false
  | _, .nil, .ptr _ _ => some false
  | _, .slice .., .nil => some false
  | _, .nil, .slice .. => some false
  | _, .closure .., .nil => some false
  | _, .nil, .closure .. => some false
  | _, .iface .., .nil => some false
  | _, .nil, .iface .. => some false
  | n+1, .iface t v, .iface t' v' =>
    if t != t' then some false else
    match v, v' with
    | .slice .., _ => none
    | .closure .., _ => none
    | _, _ => Val.eqv n v v'
  | n+1, .agg a, .agg b =>
    if a.size != b.size then some false else Id.run do
      let mut r : Option Bool := some true
      for i in [0:a.size] do
        match Val.eqv n a[i]! b[i]! with
        | none => return none
        | some false => r := some false
        | some true => pure ()
      return r
  | _, _, _ => none

def zeroOf (p : Prog) : Nat → Nat → Val
  | 0, _ => .undef
  | n+1, t => match p.ty t with
    | .int _ _ => .int 0
    | .bool => .bool false
    | .str => .str ByteArray.empty
    | .named _ u => zeroOf p n u
    | .struct fs => .agg (fs.map (zeroOf p n))
    | .array l e => .agg (Array.replicate l (zeroOf p n e))
    | .tuple es => .agg (es.map (zeroOf p n))
    | .float => .undef
    | .other _ => .undef
    | _ => .nil

def Prog.zero (p : Prog) (t : Nat) : Val := zeroOf p (p.types.size + 1) t

/-- size and alignment in bytes as gc lays the type out (amd64), for growslice -/
def sizeAlign (p : Prog) : Nat → Nat → Nat × Nat
  | 0, _ => (8, 8)
  | n+1, t => match p.ty t with
    | .int b _ => (b / 8, b / 8)
    | .bool => (1, 1)
    | .str => (16, 8)
    | .named _ u => sizeAlign p n u
    | .slice _ => (24, 8)
    | .iface _ => (16, 8)
    | .array l e => let (s, a) := sizeAlign p n e; (s * l, a)
    | .struct fs => Id.run do
      let mut off := 0
      let mut al := 1
      for f in fs do
        let (s, a) := sizeAlign p n f
        let a := if a == 0 then 1 else a
        off := (off + a - 1) / a * a + s
        al := max al a
      return ((off + al - 1) / al * al, al)
    | _ => (8, 8)

def hasPointers (p : Prog) : Nat → Nat → Bool
  | 0, _ => true
  | n+1, t => match p.ty t with
    | .int _ _ => false
    | .bool => false
    | .float => false
    | .named _ u => hasPointers p n u
    | .array l e => l != 0 && hasPointers p n e
    | .struct fs => fs.any (hasPointers p n)
    | _ => true

def sizeClasses : List Nat := [8, 16, 24, 32, 48, 64, 80, 96, 112, 128, 144, 160, 176, 192, 208, 224, 240,
  256, 288, 320, 352, 384, 416, 448, 480, 512, 576, 640, 704, 768, 896, 1024, 1152, 1280, 1408, 1536,
  1792, 2048, 2304, 2688, 3072, 3200, 3456, 4096, 4864, 5120, 5376, 6144, 6528, 6784, 6912, 8192, 9472,
  9728, 10240, 10880, 12288, 13568, 14336, 16384, 18432, 19072, 20480, 21760, 24576, 27264, 28672, 32768]

def roundupsize (size : Nat) (noscan : Bool) : Nat :=
  if size == 0 then 0 else
  let hdr := if !noscan && size > 512 then 8 else 0
  let req := size + hdr
  if req ≤ 32768 - 8 + hdr ∧ req ≤ 32768 then
    match sizeClasses.find? (· ≥ req) with
    | some c => c - hdr
    | none => (req + 8191) / 8192 * 8192
  else (size + 8191) / 8192 * 8192

/-- runtime.growslice's new capacity -/
def growCap (oldCap newLen elemSize : Nat) (noscan : Bool) : Nat :=
  let newcap :=
    if newLen > oldCap + oldCap then newLen
    else if oldCap < 256 then oldCap + oldCap
    else Id.run do
      let mut c := oldCap
      for _ in [0:64] do
        if c ≥ newLen then break
        c := c + (c + 768) / 4
      return c
  if elemSize == 0 then newcap else
  roundupsize (newcap * elemSize) noscan / elemSize

/-! ### UTF-8 decoding (for range over string) -/

/-- (rune, width) at position `i` (precondition `i < s.size`); invalid encodings give (0xFFFD, 1). -/
def decodeRune (s : ByteArray) (i : Nat) : Nat × Nat :=
  let b0 := (s[i]!).toNat
  let cont (j : Nat) : Option Nat :=
    if h : j < s.size then
      let b := (s[j]'h).toNat
      if b &&& 0xC0 == 0x80 then some (b &&& 0x3F) else none
    else none
  if b0 < 0x80 then (b0, 1)
  else if b0 &&& 0xE0 == 0xC0 then
    match cont (i+1) with
    | some c1 =>
      let r := ((b0 &&& 0x1F) <<< 6) ||| c1
      if r < 0x80 then (0xFFFD, 1) else (r, 2)
    | none => (0xFFFD, 1)
  else if b0 &&& 0xF0 == 0xE0 then
    match cont (i+1), cont (i+2) with
    | some c1, some c2 =>
      let r := ((b0 &&& 0x0F) <<< 12) ||| (c1 <<< 6) ||| c2
      if r < 0x800 || (0xD800 ≤ r && r ≤ 0xDFFF) then (0xFFFD, 1) else (r, 3)
    | _, _ => (0xFFFD, 1)
  else if b0 &&& 0xF8 == 0xF0 then
    match cont (i+1), cont (i+2), cont (i+3) with
    | some c1, some c2, some c3 =>
      let r := ((b0 &&& 0x07) <<< 18) ||| (c1 <<< 12) ||| (c2 <<< 6) ||| c3
      if r < 0x10000 || r > 0x10FFFF then (0xFFFD, 1) else (r, 4)
    | _, _, _ => (0xFFFD, 1)
  else (0xFFFD, 1)

/-- UTF-8 encoding of a code point; surrogates and out-of-range values encode U+FFFD -/
def encodeRune (r : Int) : List UInt8 :=
  let r : Nat := if r < 0 || r > 0x10FFFF || (0xD800 ≤ r && r ≤ 0xDFFF) then 0xFFFD else r.toNat
  let b (n : Nat) : UInt8 := UInt8.ofNat n
  if r < 0x80 then [b r]
  else if r < 0x800 then [b (0xC0 ||| (r >>> 6)), b (0x80 ||| (r &&& 0x3F))]
  else if r < 0x10000 then [b (0xE0 ||| (r >>> 12)), b (0x80 ||| ((r >>> 6) &&& 0x3F)), b (0x80 ||| (r &&& 0x3F))]
  else [b (0xF0 ||| (r >>> 18)), b (0x80 ||| ((r >>> 12) &&& 0x3F)), b (0x80 ||| ((r >>> 6) &&& 0x3F)), b (0x80 ||| (r &&& 0x3F))]

/-- all runes of a string, decoded like `range` does -/
def runesOf (s : ByteArray) : Array Int := Id.run do
  let mut out : Array Int := #[]
  let mut pos := 0
  for _ in [0:s.size] do
    if pos ≥ s.size then break
    let (r, w) := decodeRune s pos
    out := out.push (Int.ofNat r)
    pos := pos + w
  return out

/-! ### frames -/

structure Frame where
  fid : Nat
  frameId : Nat
  caller : Option Nat
  regs : Array Val
  /-- `Alloc` with `Heap = false`: the same variable of the frame on every execution -/
  locals : List (Nat × Nat) := []
  block : Nat := 0
  prev : Option Nat := none
  deriving Inhabited

inductive Ctl where
  | next
  | jump (b : Nat)
  | ret (vs : Array Val)

def newObj (v : Val) : M Nat := do
  let s ← get
  set { s with heap := s.heap.push v }
  pure s.heap.size

def loadAt (obj : Nat) (path : List Nat) : M Val := do
  let s ← get
  match s.heap[obj]? with
  | some root => match root.getPath path with
    | some v => pure v
    | none => unsupported "load: bad path"
  | none => unsupported "load: bad object"

def storeAt (obj : Nat) (path : List Nat) (v : Val) : M Unit := do
  let s ← get
  match s.heap[obj]? with
  | some root =>
    -- take the root out of the heap first so that the update is done in place
    let heap := s.heap.set! obj .undef
    match root.setPath path v with
    | some r => set { s with heap := heap.set! obj r }
    | none => unsupported "store: bad path"
  | none => unsupported "store: bad object"

def evalOp (p : Prog) (f : Fn) (fr : Frame) (o : Option Nat) : M Val :=
  match o with
  | none => unsupported "absent operand"
  | some v => match f.vals[v]? with
    | some (.const c, t) => match c with
      | .zero => pure (p.zero t)
      | .int i => pure (.int i)
      | .bool b => pure (.bool b)
      | .str s => pure (.str s)
      | .other s => unsupported s!"constant {s}"
    | some (.global g, _) => pure (.ptr g [])
    | some (.func fid, _) => pure (.closure fid #[])
    | some (.builtin n, _) => unsupported s!"builtin {n} as value"
    | some (.foreign, _) => unsupported "foreign value"
    | some (_, _) => match fr.regs[v]? with
      | some x => pure x
      | none => unsupported "bad register"
    | none => unsupported "bad operand"

def opTy (f : Fn) (o : Option Nat) : Nat :=
  match o with
  | some v => match f.vals[v]? with
    | some (_, t) => t
    | none => 0
  | none => 0

def intTy (p : Prog) (t : Nat) : Option (Nat × Bool) :=
  match p.under t with
  | .int b s => some (b, s)
  | _ => none

def cmpRes (op : BinOp) (lt eq : Bool) : Option Bool :=
  match op with
  | .eql => some eq | .neq => some (!eq) | .lss => some lt | .leq => some (lt || eq)
  | .gtr => some (!lt && !eq) | .geq => some (!lt) | _ => none

def execBinOp (p : Prog) (op : BinOp) (resTy : Nat) (xTy yTy : Nat) (x y : Val) : M Val := do
  match x, y with
  | .int a, .int b =>
    match cmpRes op (a < b) (a == b) with
    | some r => pure (.bool r)
    | none =>
      match intTy p resTy with
      | none => unsupported "binop: result not an integer type"
      | some (bits, sg) =>
        let w := wrapInt bits sg
        match op with
        | .add => pure (.int (w (a + b)))
        | .sub => pure (.int (w (a - b)))
        | .mul => pure (.int (w (a * b)))
        | .quo => if b == 0 then rtPanic "div" else pure (.int (w (a.tdiv b)))
        | .rem => if b == 0 then rtPanic "div" else pure (.int (w (a.tmod b)))
        | .and => pure (.int (bitop Nat.land bits sg a b))
        | .or => pure (.int (bitop Nat.lor bits sg a b))
        | .xor => pure (.int (bitop Nat.xor bits sg a b))
        | .andnot => pure (.int (bitop (fun m n => Nat.land m (Nat.xor n (2 ^ bits - 1))) bits sg a b))
        | .shl =>
          if b < 0 then rtPanic "negshift"
          else if b ≥ Int.ofNat bits then pure (.int 0)
          else pure (.int (w (a * pow2 b.toNat)))
        | .shr =>
          if b < 0 then rtPanic "negshift"
          else if b ≥ Int.ofNat bits then pure (.int (if a < 0 then -1 else 0))
          else pure (.int (w (a.fdiv (pow2 b.toNat))))
        | _ => unsupported "binop on ints"
  | .str a, .str b =>
    match op with
    | .add => pure (.str (a ++ b))
    | _ => match cmpRes op (bytesLt a b) (a == b) with
      | some r => pure (.bool r)
      | none => unsupported "binop on strings"
  | _, _ =>
    let _ := xTy; let _ := yTy
    match op with
    | .eql | .neq =>
      match Val.eqv 64 x y with
      | some r => pure (.bool (if op == .eql then r else !r))
      | none => match x, y with
        | .iface .., .iface .. => rtPanic "uncomparable"
        | _, _ => unsupported s!"comparison of {x.kindName} with {y.kindName}"
    | _ => unsupported "binop on these values"

def execUnOp (p : Prog) (op : UnOp) (resTy : Nat) (x : Val) : M Val :=
  match op, x with
  | .not, .bool b => pure (.bool (!b))
  | .neg, .int a => match intTy p resTy with
    | some (bits, sg) => pure (.int (wrapInt bits sg (-a)))
    | none => unsupported "neg: not an integer type"
  | .compl, .int a => match intTy p resTy with
    | some (bits, sg) => pure (.int (wrapInt bits sg (-a - 1)))
    | none => unsupported "compl: not an integer type"
  | _, _ => unsupported "unop on this value"

def asIndex (v : Val) : M Int :=
  match v with
  | .int i => pure i
  | _ => unsupported "index is not an integer"

/-- number of elements of the array value at (obj, path) -/
def arrayLenAt (obj : Nat) (path : List Nat) : M Nat := do
  match ← loadAt obj path with
  | .agg vs => pure vs.size
  | _ => unsupported "not an array"

def sliceParts (v : Val) : M (Option (Nat × List Nat × Nat × Nat × Nat)) :=
  match v with
  | .nil => pure none
  | .slice o pa off len cap => pure (some (o, pa, off, len, cap))
  | _ => unsupported "not a slice"

def readSlice (v : Val) : M (Array Val) := do
  match ← sliceParts v with
  | none => pure #[]
  | some (o, pa, off, len, _) =>
    match ← loadAt o pa with
    | .agg vs => pure (vs.extract off (off + len))
    | _ => unsupported "slice base is not an array"

def writeElems (o : Nat) (pa : List Nat) (start : Nat) (xs : Array Val) : M Unit := do
  match ← loadAt o pa with
  | .agg vs =>
    let mut vs := vs
    for i in [0:xs.size] do
      if start + i < vs.size then vs := vs.set! (start + i) xs[i]!
      else unsupported "write outside the backing array"
    storeAt o pa (.agg vs)
  | _ => unsupported "slice base is not an array"

def elemOfSlice (p : Prog) (t : Nat) : M Nat :=
  match p.under t with
  | .slice e => pure e
  | _ => unsupported "not a slice type"

def showInt (i : Int) : String := toString i

def hexOfBytes (b : ByteArray) : String :=
  if b.size == 0 then "-" else
  let hd (n : Nat) : Char := if n < 10 then Char.ofNat (48 + n) else Char.ofNat (87 + n)
  String.ofList (b.toList.flatMap fun x => [hd (x.toNat / 16), hd (x.toNat % 16)])

def showVal : Val → String
  | .int i => toString i
  | .bool b => if b then "true" else "false"
  | .str s => "s" ++ hexOfBytes s
  | .nil => "nil"
  | _ => "?"

/-- The call-independent part of instruction execution is in `execSimple`; calls, defers
and panics-with-defers are in `runFn` below. -/
def execSimple (p : Prog) (f : Fn) (fr : Frame) (ins : Instr) : M (Frame × Option Val) := do
  let op (i : Nat) : M Val := evalOp p f fr (ins.ops.getD i none)
  let oty (i : Nat) : Nat := opTy f (ins.ops.getD i none)
  let rty : Nat := ins.ty.getD 0
  match ins.kind with
  | .alloc heap =>
    let elem ← match p.under rty with
      | .ptr e => pure e
      | _ => unsupported "alloc: not a pointer type"
    if heap then
      let o ← newObj (p.zero elem)
      pure (fr, some (.ptr o []))
    else match fr.locals.lookup ins.id with
      | some o =>
        storeAt o [] (p.zero elem)
        pure (fr, some (.ptr o []))
      | none =>
        let o ← newObj (p.zero elem)
        pure ({ fr with locals := (ins.id, o) :: fr.locals }, some (.ptr o []))
  | .binop o =>
    let x ← op 0
    let y ← op 1
    let r ← execBinOp p o rty (oty 0) (oty 1) x y
    pure (fr, some r)
  | .unop o =>
    let r ← execUnOp p o rty (← op 0)
    pure (fr, some r)
  | .load =>
    match ← op 0 with
    | .ptr o pa => pure (fr, some (← loadAt o pa))
    | .nil => rtPanic "nil"
    | _ => unsupported "load: not a pointer"
  | .store =>
    let v ← op 1
    match ← op 0 with
    | .ptr o pa => storeAt o pa v; pure (fr, none)
    | .nil => rtPanic "nil"
    | _ => unsupported "store: not a pointer"
  | .blankstore => pure (fr, none)
  | .debugref _ => pure (fr, none)
  | .changetype => pure (fr, some (← op 0))
  | .changeinterface => pure (fr, some (← op 0))
  | .convert =>
    let x ← op 0
    match x, p.under rty, p.under (oty 0) with
    | .int i, .int bits sg, .int _ _ => pure (fr, some (.int (wrapInt bits sg i)))
    | .int i, .str, .int _ _ => pure (fr, some (.str ⟨(encodeRune i).toArray⟩))
    | .str s, .slice e, _ =>
      match p.under e with
      | .int 8 false =>
        let o ← newObj (.agg (s.toList.toArray.map fun b => Val.int (Int.ofNat b.toNat)))
        pure (fr, some (.slice o [] 0 s.size s.size))
      | .int 32 true =>
        let rs := runesOf s
        let o ← newObj (.agg (rs.map Val.int))
        pure (fr, some (.slice o [] 0 rs.size rs.size))
      | _ => unsupported "convert: string to this slice type"
    | _, .str, .slice e =>
      let elems ← readSlice x
      match p.under e with
      | .int 8 false =>
        let mut bs : ByteArray := ByteArray.empty
        for v in elems do
          match v with
          | .int i => bs := bs.push (UInt8.ofNat i.toNat)
          | _ => unsupported "convert: byte slice element"
        pure (fr, some (.str bs))
      | .int 32 true =>
        let mut bs : ByteArray := ByteArray.empty
        for v in elems do
          match v with
          | .int i => for b in encodeRune i do bs := bs.push b
          | _ => unsupported "convert: rune slice element"
        pure (fr, some (.str bs))
      | _ => unsupported "convert: this slice type to string"
    | .str s, .str, .str => pure (fr, some (.str s))
    | _, _, _ => unsupported "convert: unsupported conversion"
  | .makeinterface ct => pure (fr, some (.iface ct (← op 0)))
  | .makeclosure fid =>
    let mut bs : Array Val := #[]
    for i in [1:ins.ops.length] do
      bs := bs.push (← op i)
    pure (fr, some (.closure fid bs))
  | .makeslice =>
    let l ← asIndex (← op 0)
    let c ← asIndex (← op 1)
    if l < 0 then rtPanic "makeslice-len"
    if c < l then rtPanic "makeslice-cap"
    if c > 1000000 then unsupported "makeslice: too large"
    let e ← elemOfSlice p rty
    let o ← newObj (.agg (Array.replicate c.toNat (p.zero e)))
    pure (fr, some (.slice o [] 0 l.toNat c.toNat))
  | .fieldaddr i =>
    match ← op 0 with
    | .ptr o pa => pure (fr, some (.ptr o (pa ++ [i])))
    | .nil => rtPanic "nil"
    | _ => unsupported "fieldaddr: not a pointer"
  | .field i =>
    match ← op 0 with
    | .agg vs => match vs[i]? with
      | some v => pure (fr, some v)
      | none => unsupported "field: index"
    | _ => unsupported "field: not a struct"
  | .indexaddr =>
    let i ← asIndex (← op 1)
    match ← op 0 with
    | .ptr o pa =>
      let n ← arrayLenAt o pa
      if i < 0 || i ≥ Int.ofNat n then rtPanic "index"
      pure (fr, some (.ptr o (pa ++ [i.toNat])))
    | .slice o pa off len _ =>
      if i < 0 || i ≥ Int.ofNat len then rtPanic "index"
      pure (fr, some (.ptr o (pa ++ [off + i.toNat])))
    | .nil =>
      match p.under (oty 0) with
      | .slice _ => rtPanic "index"
      | _ => rtPanic "nil"
    | _ => unsupported "indexaddr: operand"
  | .index =>
    let i ← asIndex (← op 1)
    match ← op 0 with
    | .agg vs =>
      if i < 0 || i ≥ Int.ofNat vs.size then rtPanic "index"
      pure (fr, some vs[i.toNat]!)
    | .str s =>
      if i < 0 || i ≥ Int.ofNat s.size then rtPanic "index"
      pure (fr, some (.int (Int.ofNat (s[i.toNat]!).toNat)))
    | _ => unsupported "index: operand"
  | .stringlookup =>
    let i ← asIndex (← op 1)
    match ← op 0 with
    | .str s =>
      if i < 0 || i ≥ Int.ofNat s.size then rtPanic "index"
      pure (fr, some (.int (Int.ofNat (s[i.toNat]!).toNat)))
    | _ => unsupported "stringlookup: operand"
  | .slice =>
    let x ← op 0
    let optIdx (k : Nat) : M (Option Int) :=
      match ins.ops.getD k none with
      | none => pure none
      | some _ => do pure (some (← asIndex (← op k)))
    let lo ← optIdx 1
    let hi ← optIdx 2
    let mx ← optIdx 3
    let lo := lo.getD 0
    match x with
    | .str s =>
      let hi := hi.getD (Int.ofNat s.size)
      if lo < 0 || hi < lo || hi > Int.ofNat s.size then rtPanic "slice"
      pure (fr, some (.str (s.extract lo.toNat hi.toNat)))
    | .ptr o pa =>
      let n ← arrayLenAt o pa
      let hi := hi.getD (Int.ofNat n)
      let mx := mx.getD (Int.ofNat n)
      if lo < 0 || hi < lo || mx < hi || mx > Int.ofNat n then rtPanic "slice"
      pure (fr, some (.slice o pa lo.toNat (hi - lo).toNat (mx - lo).toNat))
    | .slice o pa off len cap =>
      let hi := hi.getD (Int.ofNat len)
      let mx := mx.getD (Int.ofNat cap)
      if lo < 0 || hi < lo || mx < hi || mx > Int.ofNat cap then rtPanic "slice"
      pure (fr, some (.slice o pa (off + lo.toNat) (hi - lo).toNat (mx - lo).toNat))
    | .nil =>
      match p.under (oty 0) with
      | .slice _ =>
        let hi := hi.getD 0
        let mx := mx.getD 0
        if lo != 0 || hi != 0 || mx != 0 then rtPanic "slice"
        pure (fr, some .nil)
      | _ => rtPanic "nil"
    | _ => unsupported "slice: operand"
  | .range =>
    match ← op 0 with
    | .str s =>
      let o ← newObj (.agg #[.str s, .int 0])
      pure (fr, some (.iter o))
    | _ => unsupported "range: only strings"
  | .next isString =>
    if !isString then unsupported "next: map iterator"
    match ← op 0 with
    | .iter o =>
      match ← loadAt o [] with
      | .agg #[.str s, .int pos] =>
        let pos := pos.toNat
        if pos ≥ s.size then pure (fr, some (.agg #[.bool false, .int 0, .int 0]))
        else
          let (r, w) := decodeRune s pos
          storeAt o [] (.agg #[.str s, .int (Int.ofNat (pos + w))])
          pure (fr, some (.agg #[.bool true, .int (Int.ofNat pos), .int (Int.ofNat r)]))
      | _ => unsupported "next: iterator state"
    | _ => unsupported "next: operand"
  | .typeassert t commaOk =>
    let x ← op 0
    let isIface := match p.under t with | .iface _ => true | _ => false
    let res : Option Val ← match x with
      | .nil => pure none
      | .iface d v =>
        if !isIface && d == rtErrTid then pure none else
        if isIface then
          match p.impls.find? (fun (i, c, _) => i == t && c == d) with
          | some (_, _, b) => pure (if b then some x else none)
          | none =>
            if d == rtErrTid then
              -- run-time errors implement `error` (and runtime.Error)
              match p.under t with
              | .iface ms => pure (if ms.all (fun m => m == "Error" || m == "RuntimeError") then some x else none)
              | _ => pure none
            else unsupported "typeassert: no impl record"
        else pure (if d == t then some v else none)
      | _ => unsupported "typeassert: operand"
    match res, commaOk with
    | some v, false => pure (fr, some v)
    | some v, true => pure (fr, some (.agg #[v, .bool true]))
    | none, true => pure (fr, some (.agg #[p.zero t, .bool false]))
    | none, false => rtPanic "assert"
  | .typeswitch conds =>
    let x ← op 0
    let compTys : Array Nat := match p.ty rty with
      | .tuple es => es
      | _ => #[]
    let mut comps : Array Val := #[]
    for i in [0:conds.length + 1] do
      comps := comps.push (p.zero (compTys.getD (i + 1) 0))
    let mut found : Option Nat := none
    let mut idx := 0
    for c in conds do
      if found.isNone then
        let hit : Option Val ← match p.ty c, x with
          | .untypedNil, .nil => pure (some .nil)
          | .untypedNil, _ => pure none
          | _, .nil => pure none
          | _, .iface d v =>
            match p.under c with
            | .iface ms =>
              match p.impls.find? (fun (i, cc, _) => i == c && cc == d) with
              | some (_, _, b) => pure (if b then some x else none)
              | none =>
                if d == rtErrTid then pure (if ms.all (fun m => m == "Error" || m == "RuntimeError") then some x else none)
                else unsupported "typeswitch: no impl record"
            | _ => pure (if d == c then some v else none)
          | _, _ => unsupported s!"typeswitch: operand {x.kindName}"
        match hit with
        | some v =>
          found := some idx
          -- component type = tag type (multi-type clause): the tag itself
          let ct := compTys.getD (idx + 1) 0
          let v := match p.under ct, p.under c with
            | .iface _, .iface _ => v
            | .iface _, _ => x
            | _, _ => v
          comps := comps.set! idx v
        | none => pure ()
      idx := idx + 1
    match found with
    | some i => pure (fr, some (.agg (#[.int (Int.ofNat i)] ++ comps)))
    | none =>
      comps := comps.set! conds.length x
      pure (fr, some (.agg (#[.int (-1)] ++ comps)))
  | .extract i =>
    match ← op 0 with
    | .agg vs => match vs[i]? with
      | some v => pure (fr, some v)
      | none => unsupported "extract: index"
    | _ => unsupported "extract: not a tuple"
  | .compositevalue =>
    let mut vs : Array Val := #[]
    for i in [0:ins.ops.length] do
      vs := vs.push (← op i)
    pure (fr, some (.agg vs))
  | .phi => unsupported "phi outside block head"
  | _ => unsupported s!"instruction {repr ins.kind}"

def showArg : Val → String := showVal

/-- Builtins that need no frame state.  `recover` and `ssa:deferstack` are handled by the caller. -/
def execBuiltin (p : Prog) (f : Fn) (ins : Instr) (name : String) (args : Array Val) (argTys : Array Nat) (rty : Nat) : M Val := do
  let _ := f; let _ := ins
  match name, args with
  | "len", #[x] =>
    match x with
    | .str s => pure (.int (Int.ofNat s.size))
    | .slice _ _ _ l _ => pure (.int (Int.ofNat l))
    | .nil => pure (.int 0)
    | .agg vs => pure (.int (Int.ofNat vs.size))
    | .ptr o pa => pure (.int (Int.ofNat (← arrayLenAt o pa)))
    | _ => unsupported "len: operand"
  | "cap", #[x] =>
    match x with
    | .slice _ _ _ _ c => pure (.int (Int.ofNat c))
    | .nil => pure (.int 0)
    | .agg vs => pure (.int (Int.ofNat vs.size))
    | .ptr o pa => pure (.int (Int.ofNat (← arrayLenAt o pa)))
    | _ => unsupported "cap: operand"
  | "append", #[s, t] =>
    let extra ← match t with
      | .str b => pure (b.toList.toArray.map fun x => Val.int (Int.ofNat x.toNat))
      | _ => readSlice t
    if extra.size == 0 then pure s else
    let e ← elemOfSlice p rty
    match ← sliceParts s with
    | some (o, pa, off, len, cap) =>
      if len + extra.size ≤ cap then
        writeElems o pa (off + len) extra
        pure (.slice o pa off (len + extra.size) cap)
      else
        let old ← readSlice s
        let (sz, _) := sizeAlign p 32 e
        let nc := growCap cap (len + extra.size) sz (!hasPointers p 32 e)
        let nc := max nc (len + extra.size)
        let arr := (old ++ extra) ++ Array.replicate (nc - len - extra.size) (p.zero e)
        let no ← newObj (.agg arr)
        pure (.slice no [] 0 (len + extra.size) nc)
    | none =>
      let (sz, _) := sizeAlign p 32 e
      let nc := growCap 0 extra.size sz (!hasPointers p 32 e)
      let nc := max nc extra.size
      let arr := extra ++ Array.replicate (nc - extra.size) (p.zero e)
      let no ← newObj (.agg arr)
      pure (.slice no [] 0 extra.size nc)
  | "copy", #[d, s] =>
    let src ← match s with
      | .str b => pure (b.toList.toArray.map fun x => Val.int (Int.ofNat x.toNat))
      | _ => readSlice s
    match ← sliceParts d with
    | none => pure (.int 0)
    | some (o, pa, off, len, _) =>
      let n := min len src.size
      writeElems o pa off (src.extract 0 n)
      pure (.int (Int.ofNat n))
  | "clear", #[x] =>
    match ← sliceParts x with
    | none => pure (.agg #[])
    | some (o, pa, off, len, _) =>
      let e ← match argTys[0]? with
        | some t => elemOfSlice p t
        | none => unsupported "clear: operand type"
      writeElems o pa off (Array.replicate len (p.zero e))
      pure (.agg #[])
  | "ssa:wrapnilchk", _ =>
    match (args[0]? : Option Val) with
    | some Val.nil => rtPanic "nil"
    | some v => pure v
    | none => unsupported "wrapnilchk"
  | "print", _ => pure (.agg #[])
  | "println", _ => pure (.agg #[])
  | "min", _ | "max", _ =>
    let isMin := name == "min"
    match (args[0]? : Option Val) with
    | some (Val.int a0) =>
      let mut r := a0
      for a in args do
        match a with
        | .int x => r := if isMin then min r x else max r x
        | _ => unsupported "min/max: operand"
      pure (.int r)
    | some (Val.str a0) =>
      let mut r := a0
      for a in args do
        match a with
        | .str x => r := if isMin then (if bytesLt x r then x else r) else (if bytesLt r x then x else r)
        | _ => unsupported "min/max: operand"
      pure (.str r)
    | _ => unsupported "min/max: operand"
  | "panic", #[x] => throw (.panic x)
  | _, _ =>
    let _ := argTys
    unsupported s!"builtin {name}"

/-- evaluate the phis of block `b` simultaneously for the edge from `prev` -/
def execPhis (p : Prog) (f : Fn) (fr : Frame) (b : Block) : M Frame := do
  let phis := b.instrs.takeWhile (fun i => i.kind == .phi)
  if phis.isEmpty then return fr
  let prev ← match fr.prev with
    | some x => pure x
    | none => unsupported "phi in a block entered without predecessor"
  let k ← match b.preds.idxOf? prev with
    | some k => pure k
    | none => unsupported "phi: predecessor not in Preds"
  let mut vals : Array (Nat × Val) := #[]
  for ph in phis do
    let v ← evalOp p f fr (ph.ops.getD k none)
    vals := vals.push (ph.id, v)
  let mut regs := fr.regs
  for (id, v) in vals do
    regs := regs.set! id v
  pure { fr with regs := regs }

def lookupMethod (p : Prog) (t : Nat) (m : String) : Option Nat :=
  match p.methods.find? (fun (c, n, _) => c == t && n == m) with
  | some (_, _, f) => some f
  | none => none

/-- Result of a function: its result values. -/
abbrev CallFn := (caller : Nat) → (fid : Nat) → (args : Array Val) → (binds : Array Val) → M (Array Val)

def packResults (vs : Array Val) : Val :=
  if vs.size == 1 then vs[0]! else .agg vs

/-- perform a call described by (mode, callee value, args) from frame `frameId` -/
def doCall (p : Prog) (call : CallFn) (frameId : Nat) (mode : CallMode) (callee : Val) (args : Array Val) : M Val := do
  match mode with
  | .static fid => pure (packResults (← call frameId fid args #[]))
  | .dyn =>
    match callee with
    | .closure fid binds => pure (packResults (← call frameId fid args binds))
    | .nil => rtPanic "nil"
    | _ => unsupported "call: not a function value"
  | .invoke m =>
    match callee with
    | .iface d v =>
      match lookupMethod p d m with
      | some fid => pure (packResults (← call frameId fid (#[v] ++ args) #[]))
      | none => unsupported s!"invoke: no method record for {m}"
    | .nil => rtPanic "nil"
    | _ => unsupported "invoke: not an interface value"
  | .builtin n => unsupported s!"deferred/indirect builtin {n}"

def runDefers (p : Prog) (call : CallFn) (frameId : Nat) : M Unit := do
  for _ in [0:100000] do
    let s ← get
    match s.defers.getD frameId [] with
    | [] => return ()
    | d :: rest =>
      set { s with defers := s.defers.set! frameId rest }
      let act : M Unit := do
        match d.mode with
        | .builtin "panic" => throw (.panic (d.args.getD 0 .nil))
        | .builtin "recover" => pure ()   -- `defer recover()` has no effect
        | .builtin "print" | .builtin "println" => pure ()
        | _ => let _ ← doCall p call frameId d.mode d.callee d.args
      -- a panic raised by a deferred call replaces the frame's panic; remaining defers still run
      tryCatch act fun e => match e with
        | .panic v => modify fun s => { s with panicking := s.panicking.set! frameId (some v) }
        | other => throw other
  unsupported "too many deferred calls"

/-- one instruction; calls, defers and control flow are handled here -/
def execInstr (p : Prog) (call : CallFn) (f : Fn) (b : Block) (fr : Frame) (ins : Instr) : M (Frame × Ctl) := do
  tick
  let op (i : Nat) : M Val := evalOp p f fr (ins.ops.getD i none)
  let setReg (fr : Frame) (v : Val) : Frame := { fr with regs := fr.regs.set! ins.id v }
  let succ (i : Nat) : M Nat := match b.succs[i]? with
    | some s => pure s
    | none => unsupported "missing successor"
  match ins.kind with
  | .phi => pure (fr, .next)   -- evaluated on block entry
  | .jump => pure (fr, .jump (← succ 0))
  | .if_ =>
    match ← op 0 with
    | .bool true => pure (fr, .jump (← succ 0))
    | .bool false => pure (fr, .jump (← succ 1))
    | _ => unsupported "if: condition"
  | .constantswitch =>
    let tag ← op 0
    let mut dflt : Option Nat := none
    let mut hit : Option Nat := none
    for i in [1:ins.ops.length] do
      match ins.ops.getD i none with
      | none => if dflt.isNone then dflt := some (i - 1)
      | some _ =>
        if hit.isNone then
          let c ← op i
          match Val.eqv 8 tag c with
          | some true => hit := some (i - 1)
          | some false => pure ()
          | none => unsupported "constantswitch: comparison"
    match hit, dflt with
    | some i, _ => pure (fr, .jump (← succ i))
    | none, some i => pure (fr, .jump (← succ i))
    | none, none => unsupported "constantswitch: no branch taken"
  | .ret =>
    let mut vs : Array Val := #[]
    for i in [0:ins.ops.length] do
      vs := vs.push (← op i)
    pure (fr, .ret vs)
  | .panic => throw (.panic (← op 0))
  | .unreachable => unsupported "unreachable executed"
  | .rundefers =>
    runDefers p call fr.frameId
    -- a deferred call that panicked leaves the frame panicking
    let s ← get
    match s.panicking.getD fr.frameId none with
    | some v =>
      set { s with panicking := s.panicking.set! fr.frameId none }
      throw (.panic v)
    | none => pure (fr, .next)
  | .call mode =>
    let mut args : Array Val := #[]
    let mut argTys : Array Nat := #[]
    for i in [1:ins.ops.length] do
      args := args.push (← op i)
      argTys := argTys.push (opTy f (ins.ops.getD i none))
    match mode with
    | .builtin "recover" =>
      let s ← get
      match fr.caller with
      | some c =>
        match s.panicking.getD c none with
        | some v =>
          set { s with panicking := s.panicking.set! c none }
          pure (setReg fr v, .next)
        | none => pure (setReg fr .nil, .next)
      | none => pure (setReg fr .nil, .next)
    | .builtin "ssa:deferstack" => pure (setReg fr (.deferstack fr.frameId), .next)
    | .builtin n =>
      let r ← execBuiltin p f ins n args argTys (ins.ty.getD 0)
      pure (setReg fr r, .next)
    | _ =>
      let callee ← match mode with
        | .static _ => pure Val.nil
        | _ => op 0
      let r ← doCall p call fr.frameId mode callee args
      pure (setReg fr r, .next)
  | .defer mode =>
    let n := ins.ops.length
    let mut args : Array Val := #[]
    for i in [1:n - 1] do
      args := args.push (← op i)
    let callee ← match mode with
      | .static _ | .builtin _ => pure Val.nil
      | _ => op 0
    let target ← match ins.ops.getD (n - 1) none with
      | none => pure fr.frameId
      | some _ => match ← op (n - 1) with
        | .deferstack k => pure k
        | _ => unsupported "defer: DeferStack operand"
    modify fun s => { s with defers := s.defers.set! target ({ mode := mode, callee := callee, args := args } :: s.defers.getD target []) }
    pure (fr, .next)
  | _ =>
    let (fr, r) ← execSimple p f fr ins
    match r with
    | some v => pure (setReg fr v, .next)
    | none => pure (fr, .next)

/-- run the blocks of a frame until it returns.  A panic raised by an instruction (or
arriving from a callee) makes the frame panicking: its deferred calls run; if one of them
recovers, control resumes at the Recover block (x/tools interp's `runFrame` protocol),
otherwise the panic propagates to the caller. -/
def runBody (p : Prog) (call : CallFn) (f : Fn) (fr : Frame) : M (Array Val) := do
  let mut fr := fr
  for _ in [0:(← get).maxSteps + 1] do
    let b ← match f.blocks[fr.block]? with
      | some b => pure b
      | none => unsupported "bad block index"
    let mut ctl : Ctl := .next
    let mut panicked : Option Val := none
    match ← tryCatch (do pure (Sum.inl (← execPhis p f fr b))) (fun e => match e with
        | .panic v => pure (Sum.inr v)
        | o => throw o) with
    | .inl fr' => fr := fr'
    | .inr v => panicked := some v
    if panicked.isNone then
      for ins in b.instrs do
        let r ← tryCatch (do pure (Sum.inl (← execInstr p call f b fr ins))) (fun e => match e with
          | .panic v => pure (Sum.inr v)
          | o => throw o)
        match r with
        | .inl (fr', c) =>
          fr := fr'
          ctl := c
          match c with
          | .next => pure ()
          | _ => break
        | .inr v =>
          panicked := some v
          break
    match panicked with
    | some v =>
      modify fun s => { s with panicking := s.panicking.set! fr.frameId (some v) }
      runDefers p call fr.frameId
      let s ← get
      match s.panicking.getD fr.frameId none with
      | some v' => throw (.panic v')
      | none =>
        match f.recover with
        | some rb => fr := { fr with block := rb, prev := none }
        | none => return (f.resTys.map p.zero).toArray
    | none =>
      match ctl with
      | .ret vs => return vs
      | .jump nb => fr := { fr with prev := some fr.block, block := nb }
      | .next => unsupported "block without terminator"
  throw .fuel

/-- call function `fid` in a new frame -/
def runFn (p : Prog) (call : CallFn) (caller : Option Nat) (fid : Nat) (args binds : Array Val) : M (Array Val) := do
  let f ← match p.fns[fid]? with
    | some f => pure f
    | none => unsupported "bad function id"
  if f.external then
    -- designated observer: the call is an event of the trace
    let ev := f.name ++ "(" ++ ",".intercalate (args.toList.map showArg) ++ ")"
    modify fun s => { s with trace := s.trace.push ev }
    tick
    return (f.resTys.map p.zero).toArray
  if args.size != f.nparams || binds.size != f.nfree then unsupported "call: arity"
  let s ← get
  let frameId := s.defers.size
  set { s with defers := s.defers.push [], panicking := s.panicking.push none }
  let mut regs : Array Val := Array.replicate f.vals.size .undef
  for i in [0:args.size] do
    regs := regs.set! i args[i]!
  for i in [0:binds.size] do
    regs := regs.set! (f.nparams + i) binds[i]!
  let fr : Frame := { fid := fid, frameId := frameId, caller := caller, regs := regs }
  runBody p call f fr

def callFn (p : Prog) : Nat → Option Nat → Nat → Array Val → Array Val → M (Array Val)
  | 0, _, _, _, _ => throw .fuel
  | d+1, caller, fid, args, binds =>
    runFn p (fun c f a b => callFn p d (some c) f a b) caller fid args binds

end Verif.C01
