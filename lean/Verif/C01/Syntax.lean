/-
C01 — syntax of the dumped go/ir subset (harness/cmd/c01dump).

Everything here mirrors the exported go/ir API: a function is a list of basic blocks
(preds, succs, instructions); every value (parameter, free variable, constant, global,
function, builtin, instruction result) has a per-function number `vid` and a type id
`tid` into the hash-consed type table.  Core Lean only.
-/
namespace Verif.C01

/-- Descriptor of a hash-consed type (children are type ids). -/
inductive TyDesc where
  | int (bits : Nat) (signed : Bool)
  | bool
  | str
  | unsafePtr
  | untypedNil
  | float
  | named (name : String) (under : Nat)
  | ptr (elem : Nat)
  | slice (elem : Nat)
  | array (len : Nat) (elem : Nat)
  | struct (fields : Array Nat)
  | tuple (elems : Array Nat)
  | sig
  | iface (methods : Array String)
  | other (s : String)
  deriving Repr, BEq, Inhabited

inductive BinOp where
  | add | sub | mul | quo | rem | and | or | xor | shl | shr | andnot
  | eql | neq | lss | leq | gtr | geq
  deriving Repr, BEq, DecidableEq, Inhabited

inductive UnOp where
  | not | neg | compl
  deriving Repr, BEq, DecidableEq, Inhabited

/-- Payload of an `ir.Const`. `zero` = `Value == nil` (zero value of the type). -/
inductive ConstV where
  | zero
  | int (i : Int)
  | bool (b : Bool)
  | str (s : ByteArray)
  | other (s : String)
  deriving BEq, DecidableEq, Inhabited

inductive CallMode where
  | static (fid : Nat)
  | builtin (name : String)
  | invoke (method : String)
  | dyn
  deriving Repr, BEq, DecidableEq, Inhabited

/-- Instruction kinds with their non-operand attributes (exported struct fields). -/
inductive IKind where
  | alloc (heap : Bool)
  | phi
  | call (m : CallMode)
  | defer (m : CallMode)
  | binop (op : BinOp)
  | unop (op : UnOp)
  | load
  | store
  | blankstore
  | changetype
  | convert
  | changeinterface
  | makeinterface (ctid : Nat)
  | makeclosure (fid : Nat)
  | makeslice
  | slice
  | fieldaddr (i : Nat)
  | field (i : Nat)
  | indexaddr
  | index
  | stringlookup
  | range
  | next (isString : Bool)
  | typeassert (tid : Nat) (commaOk : Bool)
  | typeswitch (conds : List Nat)
  | extract (i : Nat)
  | jump
  | unreachable
  | if_
  | constantswitch
  | ret
  | rundefers
  | panic
  | debugref (isAddr : Bool)
  | compositevalue
  | unsupported (name : String)
  deriving Repr, BEq, DecidableEq, Inhabited

structure Instr where
  id : Nat
  kind : IKind
  ty : Option Nat
  ops : List (Option Nat)
  comment : String
  deriving Repr, BEq, DecidableEq, Inhabited

inductive ValDef where
  | param (i : Nat)
  | free (i : Nat)
  | const (c : ConstV)
  | global (g : Nat)
  | func (f : Nat)
  | builtin (name : String)
  | instr
  | foreign
  deriving BEq, DecidableEq, Inhabited

structure Block where
  preds : List Nat
  succs : List Nat
  instrs : List Instr
  comment : String := ""
  deriving BEq, Inhabited

structure Fn where
  name : String
  nparams : Nat
  nfree : Nat
  nresults : Nat
  recover : Option Nat
  external : Bool
  synthetic : String
  resTys : List Nat
  blocks : Array Block
  /-- indexed by vid: definition kind and type id -/
  vals : Array (ValDef × Nat)
  deriving Inhabited

structure Global where
  name : String
  elem : Nat
  deriving Inhabited

structure Prog where
  mode : String
  types : Array TyDesc
  /-- canonical key of each type (equal keys ⇔ identical types), as computed by the dumper -/
  tkeys : Array String := #[]
  globals : Array Global
  fns : Array Fn
  /-- (interface tid, concrete tid, implements) -/
  impls : Array (Nat × Nat × Bool)
  /-- (concrete tid, method id, fid) -/
  methods : Array (Nat × String × Nat)
  deriving Inhabited

def Prog.ty (p : Prog) (t : Nat) : TyDesc := p.types.getD t (.other "missing")

/-- Underlying type descriptor (named types resolved; bounded by the table size). -/
def Prog.under (p : Prog) (t : Nat) : TyDesc :=
  go p.types.size t
where
  go : Nat → Nat → TyDesc
    | 0, t => p.ty t
    | n+1, t => match p.ty t with
      | .named _ u => go n u
      | d => d

end Verif.C01
