import Verif.Common.Proto
import Verif.C20.Model
namespace Verif.C20
open Verif.Proto

/-- `go1.N` or `go1.N.P`; anything else is rejected. -/
def parseVer (s : String) : Option Ver :=
  match s.splitOn "." with
  | ["go1", n] => do let n ← n.toNat?; pure ⟨n, none⟩
  | ["go1", n, p] => do let n ← n.toNat?; let p ← p.toNat?; pure ⟨n, some p⟩
  | _ => none

def parseOptVer (s : String) : Option (Option Ver) :=
  if s = "-" then some none else (parseVer s).map some

def showVer (v : Ver) : String :=
  match v.patch with
  | none => s!"go1.{v.minor}"
  | some p => s!"go1.{v.minor}.{p}"

def parseSetter : String → Option Setter
  | "minlang" => some .minLang | "maxlang" => some .maxLang
  | "minstd" => some .minStd | "maxstd" => some .maxStd | _ => none

def showOpts (o : Opts) : String :=
  let f := fun (x : Option Ver) => match x with | none => "-" | some v => showVer v
  s!"{f o.minLang} {f o.maxLang} {f o.minStd} {f o.maxStd}"

def step (line : String) : String :=
  match tokens line with
  | ["eff", flag, modv, tag, tc] =>
    match parseOptVer flag, parseOptVer modv, parseOptVer tag, parseVer tc with
    | some f, some m, some t, some tc =>
      let pkg := tcVersion f m tc
      s!"{showVer (langVersion pkg t)} {showVer (stdVersion pkg t)}"
    | _, _, _, _ => "bad-op"
  | ["probe", flag, modv, tag, tc, s, v] =>
    match parseOptVer flag, parseOptVer modv, parseOptVer tag, parseVer tc, parseSetter s, parseVer v with
    | some f, some m, some t, some tc, some s, some v => showBool (probe f m t tc s v)
    | _, _, _, _, _, _ => "bad-op"
  | ["setter", s, v] =>
    match parseSetter s, parseVer v with
    | some s, some v => showOpts (s.apply v {})
    | _, _ => "bad-op"
  | ["cmp", a, b] =>
    match parseVer a, parseVer b with
    | some a, some b => toString (a.cmp b)
    | _, _ => "bad-op"
  | _ => "bad-op"

end Verif.C20
