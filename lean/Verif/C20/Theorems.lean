import Verif.C20.Model
/-! Property theorems for C20.  Helper lemmas are in this file's first section and are
not property statements. -/
namespace Verif.C20

/-! ### helper lemmas: `Ver.cmp` is a total preorder with values in {-1,0,1} -/

theorem cmpPatch_antisymm (a b : Option Nat) : cmpPatch a b = - cmpPatch b a := by
  cases a <;> cases b <;> simp only [cmpPatch] <;> grind

theorem cmp_antisymm (a b : Ver) : a.cmp b = - b.cmp a := by
  unfold Ver.cmp
  have := cmpPatch_antisymm a.normPatch b.normPatch
  split <;> split <;> (try split) <;> (try split) <;> omega

theorem cmpPatch_range (a b : Option Nat) : cmpPatch a b = -1 ∨ cmpPatch a b = 0 ∨ cmpPatch a b = 1 := by
  cases a <;> cases b <;> simp only [cmpPatch] <;> grind

theorem cmp_range (a b : Ver) : a.cmp b = -1 ∨ a.cmp b = 0 ∨ a.cmp b = 1 := by
  unfold Ver.cmp
  have := cmpPatch_range a.normPatch b.normPatch
  split <;> (try split) <;> simp_all

theorem cmp_lt_iff_not_le (n v : Ver) : n.cmp v = -1 ↔ ¬ (v ≤ n) := by
  show _ ↔ ¬ (v.cmp n ≠ 1)
  have := cmp_antisymm n v
  constructor <;> intro h <;> simp_all <;> omega

theorem cmp_gt_iff_not_le (n v : Ver) : n.cmp v = 1 ↔ ¬ (n ≤ v) := by
  show _ ↔ ¬ (n.cmp v ≠ 1); simp

theorem cmpPatch_trans (a b c : Option Nat) (h1 : cmpPatch a b ≠ 1) (h2 : cmpPatch b c ≠ 1) :
    cmpPatch a c ≠ 1 := by
  cases a <;> cases b <;> cases c <;> simp_all [cmpPatch] <;> (repeat' split at *) <;> omega

theorem ver_le_trans (a b c : Ver) (h1 : a ≤ b) (h2 : b ≤ c) : a ≤ c := by
  change a.cmp b ≠ 1 at h1; change b.cmp c ≠ 1 at h2; show a.cmp c ≠ 1
  have t := cmpPatch_trans a.normPatch b.normPatch c.normPatch
  unfold Ver.cmp at *
  (repeat' split at *) <;> (try omega) <;> simp_all

theorem ver_le_total (a b : Ver) : a ≤ b ∨ b ≤ a := by
  show a.cmp b ≠ 1 ∨ b.cmp a ≠ 1
  have := cmp_antisymm a b; omega

theorem ver_le_refl (a : Ver) : a ≤ a := by
  show a.cmp a ≠ 1
  have := cmp_antisymm a a; omega

/-! ### property theorems -/

/-- The specification: a bound that is absent does not restrict. -/
def InRange (lo hi : Option Ver) (v : Ver) : Prop :=
  (∀ l, lo = some l → l ≤ v) ∧ (∀ h, hi = some h → v ≤ h)

/-- C20, first half: a problem is reported exactly when the effective language version
and the effective standard-library version lie within the stated bounds — for all
versions and all combinations of bounds. -/
theorem report_iff_in_range (o : Opts) (lang std : Ver) :
    reported o lang std = true ↔
      InRange o.minLang o.maxLang lang ∧ InRange o.minStd o.maxStd std := by
  unfold reported InRange guard
  cases h1 : o.maxLang <;> cases h2 : o.maxStd <;> cases h3 : o.minLang <;> cases h4 : o.minStd <;>
    simp [cmp_lt_iff_not_le, cmp_gt_iff_not_le] <;> grind

/-- Each option constructor sets the bound it is named after and nothing else. -/
theorem setter_targets (v : Ver) :
    (Setter.minLang.apply v {}) = { minLang := some v } ∧
    (Setter.maxLang.apply v {}) = { maxLang := some v } ∧
    (Setter.minStd.apply v {}) = { minStd := some v } ∧
    (Setter.maxStd.apply v {}) = { maxStd := some v } := by
  simp [Setter.apply]

/-- Single-bound corollaries, the form checks use. -/
theorem minLang_reported_iff (v lang std : Ver) :
    reported (Setter.minLang.apply v {}) lang std = true ↔ v ≤ lang := by
  simp [report_iff_in_range, Setter.apply, InRange]
theorem maxLang_reported_iff (v lang std : Ver) :
    reported (Setter.maxLang.apply v {}) lang std = true ↔ lang ≤ v := by
  simp [report_iff_in_range, Setter.apply, InRange]
theorem minStd_reported_iff (v lang std : Ver) :
    reported (Setter.minStd.apply v {}) lang std = true ↔ v ≤ std := by
  simp [report_iff_in_range, Setter.apply, InRange]
theorem maxStd_reported_iff (v lang std : Ver) :
    reported (Setter.maxStd.apply v {}) lang std = true ↔ std ≤ v := by
  simp [report_iff_in_range, Setter.apply, InRange]

/-- Effective language version, documented table: an untagged file has the module's
(or `-go`'s) version; a tagged file has its tag, but never less than go1.21. -/
theorem effective_lang_spec (pkg : Ver) (tag : Option Ver) :
    (tag = none → langVersion pkg tag = pkg) ∧
    (∀ t, tag = some t → go1_21 ≤ t → langVersion pkg tag = t) ∧
    (∀ t, tag = some t → ¬ go1_21 ≤ t → langVersion pkg tag = go1_21) := by
  refine ⟨?_, ?_, ?_⟩
  · rintro rfl; rfl
  · rintro t rfl h
    have := (cmp_lt_iff_not_le t go1_21)
    simp [langVersion, Ver.max]; intro h'; exact absurd h (this.mp h')
  · rintro t rfl h
    have := (cmp_lt_iff_not_le t go1_21)
    simp [langVersion, Ver.max]; intro h'; exact absurd (this.mpr h) h'

/-- Effective standard-library version: from go1.21 on a file can rely on
max(module, tag); before go1.21 a tagged file can rely on exactly its tag. -/
theorem effective_std_spec (pkg : Ver) (tag : Option Ver) :
    (tag = none → stdVersion pkg tag = pkg) ∧
    (∀ t, tag = some t → ¬ go1_21 ≤ pkg → stdVersion pkg tag = t) ∧
    (∀ t, tag = some t → go1_21 ≤ pkg → pkg ≤ stdVersion pkg tag ∧ t ≤ stdVersion pkg tag ∧
        (stdVersion pkg tag = pkg ∨ stdVersion pkg tag = t)) := by
  refine ⟨?_, ?_, ?_⟩
  · rintro rfl; rfl
  · rintro t rfl h
    have := (cmp_lt_iff_not_le pkg go1_21).mpr h
    simp [stdVersion, this]
  · rintro t rfl h
    have h' : ¬ pkg.cmp go1_21 = -1 := fun c => (cmp_lt_iff_not_le pkg go1_21).mp c h
    simp only [stdVersion, h', if_false]
    split
    · rename_i hgt
      refine ⟨?_, ver_le_refl _, Or.inr rfl⟩
      show pkg.cmp t ≠ 1
      have := cmp_antisymm pkg t; omega
    · rename_i hle
      exact ⟨ver_le_refl _, hle, Or.inl rfl⟩

/-- `-go 1.N` overrides the module's go directive; `-go module` uses it. -/
theorem tc_version_spec (flag modv : Option Ver) (tc : Ver) :
    (∀ f, flag = some f → tcVersion flag modv tc = f) ∧
    (flag = none → ∀ m, modv = some m → tcVersion flag modv tc = m) ∧
    (flag = none → modv = none → tcVersion flag modv tc = tc) := by
  refine ⟨?_, ?_, ?_⟩ <;> intros <;> subst_vars <;> rfl

/-! ### non-vacuity -/
example : reported (Setter.maxLang.apply ⟨20, none⟩ {}) ⟨22, none⟩ ⟨22, none⟩ = false := by decide
example : reported (Setter.maxLang.apply ⟨20, none⟩ {}) ⟨18, none⟩ ⟨18, none⟩ = true := by decide
example : reported (Setter.minStd.apply ⟨21, none⟩ {}) ⟨21, none⟩ ⟨22, some 3⟩ = true := by decide
example : InRange (some ⟨18, none⟩) (some ⟨22, none⟩) ⟨20, some 1⟩ := by
  refine ⟨?_, ?_⟩ <;> intro _ h <;> cases h <;> decide
example : stdVersion ⟨22, none⟩ (some ⟨17, none⟩) = ⟨22, none⟩ := by decide
example : stdVersion ⟨20, none⟩ (some ⟨17, none⟩) = ⟨17, none⟩ := by decide
example : langVersion ⟨22, none⟩ (some ⟨17, none⟩) = ⟨21, none⟩ := by decide

end Verif.C20
