import Verif.C20.Driver
def main : IO UInt32 := do
  Verif.Proto.runLines Verif.C20.step
  return 0
