import Verif.C20.Theorems
import Verif.C20.Generated
/-! C20, second half: the version ranges of the checks that exist in the tree.

`Gen.rsites` / `Gen.csites` are regenerated from the source on every run, so these
theorems are re-checked by the kernel against what the code says now. -/
namespace Verif.C20

/-- **Regenerated obligation**: the version-restricted call sites found in the current
source are exactly the documented ones (no bound dropped, added, moved to another
option or given another threshold; no new unrestricted `report.Report` in those files). -/
theorem sites_as_expected : Gen.rsites = expectedRSites ∧ Gen.csites = expectedCSites := by
  decide

theorem cmp_ge_zero_iff (x v : Ver) : x.cmp v ≥ 0 ↔ v ≤ x := by
  show _ ↔ v.cmp x ≠ 1
  have h := cmp_antisymm x v
  rcases cmp_range v x with h1 | h1 | h1 <;> omega

/-- S1005 in the current source: the two channel-receive rewrites are reported at every
version, the three `range` rewrites exactly when the file's language version is ≥ go1.4. -/
theorem s1005_sites (s : RSite) (hs : s ∈ Gen.rsites) (hf : s.file = "simple/s1005/s1005.go")
    (lang std : Ver) :
    (s.ordinal < 2 → s.reportedAt lang std = true) ∧
    (2 ≤ s.ordinal → (s.reportedAt lang std = true ↔ go1 4 ≤ lang)) := by
  rw [sites_as_expected.1] at hs
  simp only [expectedRSites, List.mem_cons, List.not_mem_nil, or_false] at hs
  rcases hs with rfl | rfl | rfl | rfl | rfl | rfl | rfl <;>
    first
    | (exfalso; revert hf; decide)
    | (refine ⟨fun h => ?_, fun h => ?_⟩
       · first
         | (exfalso; revert h; decide)
         | (show reported {} lang std = true; simp [reported, guard])
       · first
         | (exfalso; revert h; decide)
         | exact minLang_reported_iff (go1 4) lang std)

/-- S1024 in the current source: both call sites report exactly when the file's
standard-library version is ≥ go1.8. -/
theorem s1024_sites (s : RSite) (hs : s ∈ Gen.rsites) (hf : s.file = "simple/s1024/s1024.go")
    (lang std : Ver) : s.reportedAt lang std = true ↔ go1 8 ≤ std := by
  rw [sites_as_expected.1] at hs
  simp only [expectedRSites, List.mem_cons, List.not_mem_nil, or_false] at hs
  rcases hs with rfl | rfl | rfl | rfl | rfl | rfl | rfl <;>
    first
    | (exfalso; revert hf; decide)
    | exact minStd_reported_iff (go1 8) lang std

/-- Every literal version comparison in the current source is of the form
`Compare(version, thr) >= 0`, i.e. true exactly when `thr ≤ version` (of the kind of
version the site asks for). -/
theorem csites_spec (c : CSite) (hc : c ∈ Gen.csites) (v : Ver) (hv : c.ver = some v)
    (lang std : Ver) :
    c.holds lang std = some (decide (v ≤ (match c.which with | .std => std | .lang => lang))) := by
  rw [sites_as_expected.2] at hc
  simp only [expectedCSites, List.mem_cons, List.not_mem_nil, or_false] at hc
  rcases hc with rfl | rfl | rfl | rfl | rfl <;> cases hv <;>
    (simp only [CSite.holds, if_pos]
     exact congrArg some (decide_eq_decide.mpr (cmp_ge_zero_iff _ _)))

/-! non-vacuity -/
example : (⟨"simple/s1005/s1005.go", 3, [(.minLang, go1 4)]⟩ : RSite) ∈ Gen.rsites := by decide
example : (⟨"simple/s1005/s1005.go", 3, [(.minLang, go1 4)]⟩ : RSite).reportedAt (go1 3) (go1 3) = false := by decide
example : (⟨"simple/s1005/s1005.go", 3, [(.minLang, go1 4)]⟩ : RSite).reportedAt (go1 4) (go1 4) = true := by decide
example : (⟨"staticcheck/sa1015/sa1015.go", "run", .std, some (go1 23), ">=", 0⟩ : CSite).holds (go1 22) ⟨22, some 3⟩ = some false := by decide
example : (⟨"staticcheck/sa1015/sa1015.go", "run", .std, some (go1 23), ">=", 0⟩ : CSite).holds (go1 23) (go1 23) = some true := by decide

end Verif.C20
