import Verif.C20.Model
/-!
C20 — the places where an existing check restricts a problem to a version range.

`harness/cmd/c20sites` lists them from the current source (go/parser) and the check
rewrites `Verif/C20/Generated.lean` from that listing on every run:

* `RSite`: a call of `report.Report` in a file that uses a version option, with the
  options it passes (calls of the same file *without* an option are rows too, so a dropped
  bound is a changed row);
* `CSite`: a comparison `version.Compare(code.StdlibVersion|LanguageVersion(..), "go1.N") op k`.

`expectedRSites` / `expectedCSites` is the hand-written expectation: which problems the
documentation of the checks restricts to which versions.  Core Lean only.
-/
namespace Verif.C20

structure RSite where
  file : String
  ordinal : Nat
  opts : List (Setter × Ver)
deriving DecidableEq, Repr

inductive Which where
  | std | lang
deriving DecidableEq, Repr

/-- `version.Compare(which(pass,node), ver) op rhs`; `ver = none`: not a literal (SA1019
takes it from the deprecation table). -/
structure CSite where
  file : String
  fn : String
  which : Which
  ver : Option Ver
  op : String
  rhs : Int
deriving DecidableEq, Repr

/-- the options of a `report.Report` call, applied in source order -/
def RSite.options (s : RSite) : Opts :=
  s.opts.foldl (fun o sv => sv.1.apply sv.2 o) {}

/-- is the problem of this call site emitted in a file with these effective versions? -/
def RSite.reportedAt (s : RSite) (lang std : Ver) : Bool :=
  reported s.options lang std

/-- value of the comparison at a compare site (`none`: operator not modelled or no literal) -/
def CSite.holds (c : CSite) (lang std : Ver) : Option Bool :=
  match c.ver with
  | none => none
  | some v =>
    let x := (match c.which with | .std => std | .lang => lang).cmp v
    if c.op = ">=" then some (decide (x ≥ c.rhs))
    else if c.op = "==" then some (x == c.rhs)
    else if c.op = "<" then some (decide (x < c.rhs))
    else if c.op = ">" then some (decide (x > c.rhs))
    else if c.op = "<=" then some (decide (x ≤ c.rhs))
    else if c.op = "!=" then some (x != c.rhs)
    else none

def go1 (n : Nat) : Ver := ⟨n, none⟩

/-- Expectation (hand-written, from the checks' documentation and tests):
S1005's two channel-receive rewrites are unrestricted, its three `range` rewrites need
Go 1.4 (`for range` without variables); S1024's `time.Until` needs the Go 1.8 library. -/
def expectedRSites : List RSite := [
  ⟨"simple/s1005/s1005.go", 0, []⟩,
  ⟨"simple/s1005/s1005.go", 1, []⟩,
  ⟨"simple/s1005/s1005.go", 2, [(.minLang, go1 4)]⟩,
  ⟨"simple/s1005/s1005.go", 3, [(.minLang, go1 4)]⟩,
  ⟨"simple/s1005/s1005.go", 4, [(.minLang, go1 4)]⟩,
  ⟨"simple/s1024/s1024.go", 0, [(.minStd, go1 8)]⟩,
  ⟨"simple/s1024/s1024.go", 1, [(.minStd, go1 8)]⟩]

/-- S1016: tags are ignored by conversions since Go 1.8 (language); SA1003: binary.Write
accepts bool since the Go 1.8 library; SA1015: tickers are collectable since Go 1.23;
SA1019: deprecated since (table lookup); SA3000: the test framework calls os.Exit since 1.15. -/
def expectedCSites : List CSite := [
  ⟨"simple/s1016/s1016.go", "run", .lang, some (go1 8), ">=", 0⟩,
  ⟨"staticcheck/sa1003/sa1003.go", "validEncodingBinaryType", .std, some (go1 8), ">=", 0⟩,
  ⟨"staticcheck/sa1015/sa1015.go", "run", .std, some (go1 23), ">=", 0⟩,
  ⟨"staticcheck/sa1019/sa1019.go", "run", .std, none, "==", -1⟩,
  ⟨"staticcheck/sa3000/sa3000.go", "run", .std, some (go1 15), ">=", 0⟩]

end Verif.C20
