/-
C20 — version-restricted problems respect the effective Go version.

Model of
  * go/version.Compare on strings of the form go1.N or go1.N.P   (`Ver.cmp`)
  * report.Options' four bounds, the four option setters          (`Opts`, `Setter.apply`)
  * the four guards at the top of report.Report                   (`reported`)
  * code.LanguageVersion  (= types.Info.FileVersions, go/types rule max(tag, go1.21))
  * code.StdlibVersion
  * go/loader's choice of types.Config.GoVersion                   (`tcVersion`)
Core Lean only.
-/
namespace Verif.C20

/-- `go1.minor` (patch = none) or `go1.minor.patch`. -/
structure Ver where
  minor : Nat
  patch : Option Nat
deriving DecidableEq, Repr

/-- internal/gover.Parse: before go1.21 a missing patch means `.0`. -/
def Ver.normPatch (v : Ver) : Option Nat :=
  match v.patch with
  | some p => some p
  | none => if v.minor < 21 then some 0 else none

/-- gover.CmpInt on the patch strings: the empty string is smaller than every number. -/
def cmpPatch : Option Nat → Option Nat → Int
  | none, none => 0
  | none, some _ => -1
  | some _, none => 1
  | some a, some b => if a < b then -1 else if b < a then 1 else 0

/-- go/version.Compare restricted to valid go1.N[.P] strings: -1, 0, +1. -/
def Ver.cmp (a b : Ver) : Int :=
  if a.minor < b.minor then -1
  else if b.minor < a.minor then 1
  else cmpPatch a.normPatch b.normPatch

def Ver.le (a b : Ver) : Prop := a.cmp b ≠ 1
instance : LE Ver := ⟨Ver.le⟩
instance (a b : Ver) : Decidable (a ≤ b) := inferInstanceAs (Decidable (a.cmp b ≠ 1))

def Ver.max (a b : Ver) : Ver := if a.cmp b = -1 then b else a

def go1_21 : Ver := ⟨21, none⟩

/-- report.Options, version part.  `none` = the empty string = no bound. -/
structure Opts where
  minLang : Option Ver := none
  maxLang : Option Ver := none
  minStd  : Option Ver := none
  maxStd  : Option Ver := none
deriving DecidableEq, Repr

inductive Setter where
  | minLang | maxLang | minStd | maxStd
deriving DecidableEq, Repr

/-- The four option constructors of package report, as specified by their names. -/
def Setter.apply (s : Setter) (v : Ver) (o : Opts) : Opts :=
  match s with
  | .minLang => { o with minLang := some v }
  | .maxLang => { o with maxLang := some v }
  | .minStd  => { o with minStd := some v }
  | .maxStd  => { o with maxStd := some v }

/-- `n != "" && version.Compare(n, v) == c` -/
def guard (b : Option Ver) (v : Ver) (c : Int) : Bool :=
  match b with
  | some n => n.cmp v == c
  | none => false

/-- The guards of report.Report, in source order; `true` = the diagnostic is emitted. -/
def reported (o : Opts) (lang std : Ver) : Bool :=
  if guard o.maxLang lang (-1) then false
  else if guard o.maxStd std (-1) then false
  else if guard o.minLang lang 1 then false
  else if guard o.minStd std 1 then false
  else true

/-- types.Config.GoVersion chosen by go/loader: `-go 1.N` wins, else the module's go
directive, else the toolchain's newest release tag. -/
def tcVersion (flag modv : Option Ver) (toolchain : Ver) : Ver :=
  match flag with
  | some f => f
  | none => match modv with
    | some m => m
    | none => toolchain

/-- code.LanguageVersion = FileVersions[file]: go/types uses max(tag, go1.21) for a
tagged file and Config.GoVersion otherwise. -/
def langVersion (pkg : Ver) (tag : Option Ver) : Ver :=
  match tag with
  | none => pkg
  | some t => t.max go1_21

/-- code.StdlibVersion. -/
def stdVersion (pkg : Ver) (tag : Option Ver) : Ver :=
  match tag with
  | none => pkg
  | some nf =>
    if pkg.cmp go1_21 = -1 then nf
    else if nf.cmp pkg = 1 then nf
    else pkg

/-- The whole pipeline for one probe: is a problem with bound `s v` reported in a file
with tag `tag` of a module with go directive `modv` under `-go flag`? -/
def probe (flag modv tag : Option Ver) (toolchain : Ver) (s : Setter) (v : Ver) : Bool :=
  let pkg := tcVersion flag modv toolchain
  reported (s.apply v {}) (langVersion pkg tag) (stdVersion pkg tag)

end Verif.C20
