import Verif.Common.Proto
import Verif.C13.Model
/-!
Line protocol of `c13driver` (see checks/c13.py for the generator side).

  dense <lat>[@dm|@map] <k> <sched> <n> <edges> <entry> <transfers>
      lat ∈ or|and|cp|nil|ao   facts = vectors of k element codes `c.c.c`
      `@dm` / `@map`: the solver model runs over `dmLat` / `mapLat` facts (DenseMapLattice
      slices / MapLattice maps, `Equals` coarser than equality), the transfers working on the
      shortest representative as the Go harness does; without suffix over canonical k-vectors
      sched ∈ lo|hi|r<seed>  (which queued node is processed next)
      edges `s>t,s>t,…`|-    entry `node=fact;…`|-   transfers: one per edge, `;`-separated,
      each `id` or `,`-separated ops  s.x.c | c.x.y | m.x.y.z | j.x.y.c | a.x.y.c | p.x.y.z
    → in=<fact>|…;out=<fact>|…;steps=<iterations>
  sparse <lat> <sched> <n> <nvals> <instrs> <init> <tabs>
      lat ∈ bits<w>|and<w>|cp|n5; instrs `kind:ops:refs[:pre:post];…`, kind ∈ phi|none|u<t>|b<t>|k<code>|s<v>,
      pre/post = constant mappings `v=c,…` the transfer returns before / after its own mapping
      (multi-mapping transfers; the model is `SparseM`)
    → val=<code>,…;steps=<iterations>
  mapmerge <el> <a> <b>   maps `k=v,k=v`|-   → <merge sorted by key>;eq=<Equals a b>;panic=<0|1>
  dmmerge <el> <a> <b>    slices `v.v.v`|-    → <merge>;eq=<Equals a b>
  nilmerge <a> <b>                             → latticeMerge[a][b]
-/
namespace Verif.C13
open Verif.Proto

def splitList (sep : String) (s : String) : List String :=
  if s = "-" then [] else s.splitOn sep

def parseNats (sep : String) (s : String) : Option (List Nat) :=
  (splitList sep s).mapM (·.toNat?)

/-! ### element lattices by name -/

structure Elem where
  lat : Lat Nat
  size : Nat          -- codes are `0..size-1`
  arith : Bool        -- constant-propagation arithmetic ops allowed

def elemOf : String → Option Elem
  | "or" => some ⟨orLat, 2, false⟩
  | "and" => some ⟨andLat, 2, false⟩
  | "cp" => some ⟨flatLat, 10, true⟩
  | "nil" => some ⟨nilPairLat, 25, false⟩
  | "n5" => some ⟨nil5Lat, 5, false⟩
  | "ao" => some ⟨aoLat, 4, false⟩
  | _ => none

/-! ### the op language of edge transfers (all monotone over any lattice) -/

inductive Op where
  | set (x c : Nat)        -- x := c
  | copy (x y : Nat)       -- x := y
  | mrg (x y z : Nat)      -- x := y ∧ z
  | mrgc (x y c : Nat)     -- x := y ∧ c
  | addc (x y c : Nat)     -- cp: x := y + c (mod 8)
  | add (x y z : Nat)      -- cp: x := y + z (mod 8)

def parseOp (el : Elem) (k : Nat) (s : String) : Option Op :=
  match s.splitOn "." with
  | ["s", x, c] => do
    let x ← x.toNat?; let c ← c.toNat?
    if x < k ∧ c < el.size then some (.set x c) else none
  | ["c", x, y] => do
    let x ← x.toNat?; let y ← y.toNat?
    if x < k ∧ y < k then some (.copy x y) else none
  | ["m", x, y, z] => do
    let x ← x.toNat?; let y ← y.toNat?; let z ← z.toNat?
    if x < k ∧ y < k ∧ z < k then some (.mrg x y z) else none
  | ["j", x, y, c] => do
    let x ← x.toNat?; let y ← y.toNat?; let c ← c.toNat?
    if x < k ∧ y < k ∧ c < el.size then some (.mrgc x y c) else none
  | ["a", x, y, c] => do
    let x ← x.toNat?; let y ← y.toNat?; let c ← c.toNat?
    if el.arith ∧ x < k ∧ y < k ∧ c < 8 then some (.addc x y c) else none
  | ["p", x, y, z] => do
    let x ← x.toNat?; let y ← y.toNat?; let z ← z.toNat?
    if el.arith ∧ x < k ∧ y < k ∧ z < k then some (.add x y z) else none
  | _ => none

def cpAddC (v c : Nat) : Nat := if v < 2 then v else (v - 2 + c) % 8 + 2
def cpAdd (a b : Nat) : Nat :=
  if a = 1 ∨ b = 1 then 1 else if a = 0 ∨ b = 0 then 0 else (a - 2 + (b - 2)) % 8 + 2

def applyOp (el : Elem) (f : List Nat) : Op → List Nat
  | .set x c => f.set x c
  | .copy x y => f.set x (f.getD y el.lat.bot)
  | .mrg x y z => f.set x (el.lat.merge (f.getD y el.lat.bot) (f.getD z el.lat.bot))
  | .mrgc x y c => f.set x (el.lat.merge (f.getD y el.lat.bot) c)
  | .addc x y c => f.set x (cpAddC (f.getD y el.lat.bot) c)
  | .add x y z => f.set x (cpAdd (f.getD y el.lat.bot) (f.getD z el.lat.bot))

def parseFact (el : Elem) (k : Nat) (s : String) : Option (List Nat) := do
  let l ← parseNats "." s
  if l.length = k ∧ l.all (· < el.size) then some l else none

def showFact (f : List Nat) : String := ".".intercalate (f.map toString)

def parseSched (s : String) : Option (Nat → List Nat → Nat) :=
  if s = "lo" then some (fun _ _ => 0)
  else if s = "hi" then some (fun _ l => l.length - 1)
  else if s.startsWith "r" then do
    let seed ← (s.drop 1).toString.toNat?
    some (fun k _ => ((seed + k + 1) * 2654435761 % 4294967296) / 128)
  else none

/-! ### dense -/

def parseEdge (n : Nat) (s : String) : Option (Nat × Nat) :=
  match s.splitOn ">" with
  | [a, b] => do
    let a ← a.toNat?; let b ← b.toNat?
    if a < n ∧ b < n then some (a, b) else none
  | _ => none

def parseEntry (el : Elem) (k n : Nat) (s : String) : Option (Nat × List Nat) :=
  match s.splitOn "=" with
  | [a, f] => do
    let a ← a.toNat?; let f ← parseFact el k f
    if a < n then some (a, f) else none
  | _ => none

def parseTransfer (el : Elem) (k : Nat) (s : String) : Option (List Op) :=
  if s = "id" then some [] else (s.splitOn ",").mapM (parseOp el k)

/-- run the solver model over fact type `F` and print the canonical k-vectors. -/
def denseRun {F : Type} (lat : Lat F) (n : Nat) (edges : List (Nat × Nat)) (tr : Nat → F → F)
    (entry : Nat → F) (pick : Nat → List Nat → Nat) (fuel : Nat) (canon : F → List Nat) : String :=
  let edgeA := edges.toArray
  let G : Dense.Graph :=
    { n := n, m := edges.length
      src := fun e => (edgeA.getD e (0, 0)).1, dst := fun e => (edgeA.getD e (0, 0)).2 }
  let (s, steps) := Dense.run lat G tr pick fuel 0 (Dense.init lat G entry)
  if (Dense.queued G s).length ≠ 0 then "nonterminating" else
  let ins := "|".intercalate ((List.range n).map (fun b => showFact (canon (s.inF b))))
  let outs := if edges.length = 0 then "-" else
    "|".intercalate ((List.range edges.length).map (fun e => showFact (canon (s.outF e))))
  s!"in={ins};out={outs};steps={steps}"

/-- k-vector → shortest `DenseMapLattice` slice (trailing `Ident`s dropped) and back. -/
def dmFrom (bot : Nat) (v : List Nat) : List Nat := (v.reverse.dropWhile (· == bot)).reverse
def dmTo (bot k : Nat) (f : List Nat) : List Nat := (List.range k).map (fun i => f.getD i bot)
/-- k-vector → `MapLattice` map without `Ident` values and back. -/
def mapFrom (bot : Nat) (v : List Nat) : GoMap Nat :=
  (List.range v.length).filterMap (fun i => let x := v.getD i bot; if x == bot then none else some (i, x))
def mapTo (bot k : Nat) (m : GoMap Nat) : List Nat := (List.range k).map (fun i => (mlookup m i).getD bot)

def denseCase (latS kS schedS nS edgesS entryS trsS : String) : Option String := do
  let (latN, rep) ← match latS.splitOn "@" with
    | [a] => some (a, "vec")
    | [a, "dm"] => some (a, "dm")
    | [a, "map"] => some (a, "map")
    | _ => none
  let el ← elemOf latN
  let k ← kS.toNat?
  let n ← nS.toNat?
  let pick ← parseSched schedS
  let edges ← (splitList "," edgesS).mapM (parseEdge n)
  let entries ← (splitList ";" entryS).mapM (parseEntry el k n)
  let trs ← (splitList ";" trsS).mapM (parseTransfer el k)
  if trs.length ≠ edges.length ∨ n = 0 then none
  let trA := trs.toArray
  let botV := List.replicate k el.lat.bot
  let tr : Nat → List Nat → List Nat := fun e x => (trA.getD e []).foldl (applyOp el) x
  let entry : Nat → List Nat := fun b =>
    match entries.find? (fun p => p.1 == b) with
    | some p => p.2
    | none => botV
  let fuel := (n * (k * 8 + 2) + 1) * (n + 1) + n + 8
  let bot := el.lat.bot
  match rep with
  | "dm" =>
    some (denseRun (dmLat el.lat) n edges (fun e a => dmFrom bot (tr e (dmTo bot k a)))
      (fun b => dmFrom bot (entry b)) pick fuel (dmTo bot k))
  | "map" =>
    some (denseRun (mapLat el.lat) n edges (fun e a => mapFrom bot (tr e (mapTo bot k a)))
      (fun b => mapFrom bot (entry b)) pick fuel (mapTo bot k))
  | _ => some (denseRun (vecLat el.lat k) n edges tr entry pick fuel id)

/-! ### sparse -/

inductive Spec where
  | phi | none | un (t : Nat) | bin (t : Nat) | const (c : Nat)
  | sum (v : Nat)   -- no own value (e.g. *ir.Return); maps value `v` to the merge of the operands' states

def sparseLat (s : String) : Option (Lat Nat × Nat) :=
  if s = "cp" then some (flatLat, 10)
  else if s = "n5" then some (nil5Lat, 5)
  else if s.startsWith "bits" then do
    let w ← (s.drop 4).toString.toNat?
    if w ≤ 6 then some (bitsLat, 2 ^ w) else none
  else if s.startsWith "and" then do
    let w ← (s.drop 3).toString.toNat?
    if 1 ≤ w ∧ w ≤ 6 then some (andBitsLat w, 2 ^ w) else none
  else none

def parseSpec (size ntab nvals : Nat) (s : String) : Option Spec :=
  if s = "phi" then some .phi
  else if s = "none" then some .none
  else if s.startsWith "u" then do
    let t ← (s.drop 1).toString.toNat?
    if t < ntab then some (.un t) else none
  else if s.startsWith "b" then do
    let t ← (s.drop 1).toString.toNat?
    if t < ntab then some (.bin t) else none
  else if s.startsWith "k" then do
    let c ← (s.drop 1).toString.toNat?
    if c < size then some (.const c) else none
  else if s.startsWith "s" then do
    let v ← (s.drop 1).toString.toNat?
    if v < nvals then some (.sum v) else none
  else none

def parseXMap (size nvals : Nat) (s : String) : Option (Nat × Nat) :=
  match s.splitOn "=" with
  | [v, c] => do
    let v ← v.toNat?; let c ← c.toNat?
    if v < nvals ∧ c < size then some (v, c) else none
  | _ => none

structure Instr where
  spec : Spec
  ops : List Nat
  refs : List Nat
  pre : List (Nat × Nat)
  post : List (Nat × Nat)

def parseInstr (size ntab n nvals : Nat) (s : String) : Option Instr :=
  let go (k ops refs pre post : String) : Option Instr := do
    let k ← parseSpec size ntab nvals k
    let ops ← parseNats "," ops
    let refs ← parseNats "," refs
    let pre ← (splitList "," pre).mapM (parseXMap size nvals)
    let post ← (splitList "," post).mapM (parseXMap size nvals)
    -- a phi has no transfer of its own
    let okX : Bool := match k with | .phi => pre.isEmpty && post.isEmpty | _ => true
    if ops.all (· < nvals) ∧ refs.all (· < n) ∧ okX = true then some ⟨k, ops, refs, pre, post⟩ else none
  match s.splitOn ":" with
  | [k, ops, refs] => go k ops refs "-" "-"
  | [k, ops, refs, pre, post] => go k ops refs pre post
  | _ => none

def parseTab (size : Nat) (s : String) : Option (Bool × List Nat) :=
  match s.splitOn ":" with
  | ["u", t] => do
    let t ← parseNats "." t
    if t.length = size ∧ t.all (· < size) then some (false, t) else none
  | ["b", t] => do
    let t ← parseNats "." t
    if t.length = size * size ∧ t.all (· < size) then some (true, t) else none
  | _ => none

def parseInit (size n nvals : Nat) (s : String) : Option (Nat × Nat) :=
  match s.splitOn "=" with
  | [v, c] => do
    let v ← v.toNat?; let c ← c.toNat?
    if n ≤ v ∧ v < nvals ∧ c < size then some (v, c) else none
  | _ => none

def sparseCase (latN schedS nS nvS instrS initS tabS : String) : Option String := do
  let (lat, size) ← sparseLat latN
  let pick ← parseSched schedS
  let n ← nS.toNat?
  let nvals ← nvS.toNat?
  let tabs ← (splitList ";" tabS).mapM (parseTab size)
  let instrs ← (splitList ";" instrS).mapM (parseInstr size tabs.length n nvals)
  let inits ← (splitList "," initS).mapM (parseInit size n nvals)
  if instrs.length ≠ n ∨ nvals < n then none
  -- a unary spec must name a unary table, a binary spec a binary one with two operands
  let okSpec := instrs.all (fun ins =>
    match ins.spec with
    | .un t => (tabs.getD t (true, [])).1 == false
    | .bin t => (tabs.getD t (false, [])).1 == true && ins.ops.length == 2
    | _ => true)
  if !okSpec then none
  let instrA := instrs.toArray
  let tabA := tabs.toArray
  let dflt : Instr := ⟨.none, [], [], [], []⟩
  let P : SparseM.Prog Nat :=
    { n := n
      isPhi := fun i => match (instrA.getD i dflt).spec with
        | .phi => true
        | _ => false
      edges := fun i => (instrA.getD i dflt).ops
      refs := fun i => (instrA.getD i dflt).refs
      tr := fun i val =>
        let ins := instrA.getD i dflt
        let own : List (Nat × Nat) := match ins.spec with
          | .un t => [(i, (tabA.getD t (false, [])).2.getD (ins.ops.foldl (fun d v => lat.merge d (val v)) lat.bot) 0)]
          | .bin t => [(i, (tabA.getD t (true, [])).2.getD (val (ins.ops.getD 0 0) * size + val (ins.ops.getD 1 0)) 0)]
          | .const c => [(i, c)]
          | .sum v => [(v, ins.ops.foldl (fun d v => lat.merge d (val v)) lat.bot)]
          | _ => []
        ins.pre ++ own ++ ins.post }
  let val0 : Nat → Nat := fun v =>
    match inits.find? (fun p => p.1 == v) with
    | some p => p.2
    | none => lat.bot
  let fuel := (nvals * (size + 2) + 1) * (n + 1) + n + 8
  let (s, steps) := SparseM.run lat P nvals pick fuel 0 (SparseM.init P val0)
  if (SparseM.queued P s).length ≠ 0 then return "nonterminating"
  let vals := ",".intercalate ((List.range nvals).map (fun v => toString (s.val v)))
  some s!"val={vals};steps={steps}"

/-! ### lattices -/

def parseKV (size : Nat) (s : String) : Option (Nat × Nat) :=
  match s.splitOn "=" with
  | [k, v] => do
    let k ← k.toNat?; let v ← v.toNat?
    if v < size then some (k, v) else none
  | _ => none

def parseMap (size : Nat) (s : String) : Option (GoMap Nat) := do
  let m ← (splitList "," s).mapM (parseKV size)
  -- a Go map has every key once
  if (m.map Prod.fst).eraseDups.length = m.length then some m else none

def insertSorted (kv : Nat × Nat) : List (Nat × Nat) → List (Nat × Nat)
  | [] => [kv]
  | x :: xs => if kv.1 ≤ x.1 then kv :: x :: xs else x :: insertSorted kv xs

def showMap (m : GoMap Nat) : String :=
  let s := m.foldl (fun acc kv => insertSorted kv acc) []
  if s.isEmpty then "-" else ",".intercalate (s.map (fun kv => s!"{kv.1}={kv.2}"))

def step (line : String) : String :=
  match tokens line with
  | ["dense", lat, k, sched, n, edges, entry, trs] =>
    (denseCase lat k sched n edges entry trs).getD "bad-op"
  | ["sparse", lat, sched, n, nvals, instrs, init, tabs] =>
    (sparseCase lat sched n nvals instrs init tabs).getD "bad-op"
  | ["mapmerge", el, a, b] =>
    match elemOf el with
    | some el =>
      match parseMap el.size a, parseMap el.size b with
      | some a, some b =>
        s!"{showMap (mapMerge el.lat a b)};eq={showBool (mapEquals el.lat a b)};panic={showBool (mapMergePanics el.lat a b)}"
      | _, _ => "bad-op"
    | none => "bad-op"
  | ["dmmerge", el, a, b] =>
    match elemOf el with
    | some el =>
      match parseNats "." a, parseNats "." b with
      | some a, some b =>
        if a.all (· < el.size) ∧ b.all (· < el.size) then
          let m := dmMerge el.lat a b
          s!"{if m.isEmpty then "-" else showFact m};eq={showBool (dmEquals el.lat a b)}"
        else "bad-op"
      | _, _ => "bad-op"
    | none => "bad-op"
  | ["nilmerge", a, b] =>
    match a.toNat?, b.toNat? with
    | some a, some b => if a < 5 ∧ b < 5 then toString (nilMerge a b) else "bad-op"
    | _, _ => "bad-op"
  | _ => "bad-op"

end Verif.C13
