import Verif.C13.DenseLemmas
import Verif.C13.MapLemmas
/-!
C13 — lattices whose `Equals` is coarser than equality of representations.

`dense.Forward` only ever looks at facts through `Ident`, `Merge`, `Equals` and the
transfer function.  `dfa.DenseMapLattice` (the lattice `nilness.go` instantiates the dense
solver with) and `dfa.MapLattice` have an `Equals` that identifies different
representations of one fact (trailing `Ident`s, key order).  `Repr lat C lat' h g` says
that `lat`, on the carrier `C` of well-formed representations, *represents* a lattice
`lat'` whose `Equals` is equality: `h` maps a representation to the fact it denotes, `g`
picks a representation.  The simulation lemmas below show that every run of the solver
over `lat` is, under `h`, a run of the solver over `lat'` — step by step, same queue, same
dirty flags — so the theorems proved for lawful lattices carry over, with `=` replaced by
the lattice's own `Equals` (Theorems.lean, `*_upto`).
-/
namespace Verif.C13

/-- `a ⊑ b` up to the lattice's own `Equals`: `Equals(Merge(a, b), b)`. -/
def Lat.leq {L : Type} (lat : Lat L) (a b : L) : Prop := lat.eq (lat.merge a b) b = true

structure Repr {L L' : Type} (lat : Lat L) (C : L → Prop) (lat' : Lat L') (h : L → L') (g : L' → L) :
    Prop where
  bot_mem : C lat.bot
  merge_mem : ∀ a b, C a → C b → C (lat.merge a b)
  h_bot : h lat.bot = lat'.bot
  h_merge : ∀ a b, C a → C b → h (lat.merge a b) = lat'.merge (h a) (h b)
  h_eq : ∀ a b, C a → C b → (lat.eq a b = true ↔ h a = h b)
  g_mem : ∀ x, C (g x)
  h_g : ∀ x, h (g x) = x

section
variable {L L' : Type} {lat : Lat L} {C : L → Prop} {lat' : Lat L'} {h : L → L'} {g : L' → L}

theorem Repr.eq_g (R : Repr lat C lat' h g) (a : L) (ha : C a) : lat.eq a (g (h a)) = true :=
  (R.h_eq a (g (h a)) ha (R.g_mem _)).2 (R.h_g (h a)).symm

theorem Repr.eq_bool (R : Repr lat C lat' h g) (hl' : lat'.Laws) (a b : L) (ha : C a) (hb : C b) :
    lat'.eq (h a) (h b) = lat.eq a b := by
  rw [Bool.eq_iff_iff, hl'.eq_iff, R.h_eq a b ha hb]

theorem Repr.le_iff (R : Repr lat C lat' h g) (a b : L) (ha : C a) (hb : C b) :
    lat'.le (h a) (h b) ↔ lat.leq a b := by
  unfold Lat.le Lat.leq
  rw [← R.h_merge a b ha hb, R.h_eq _ _ (R.merge_mem a b ha hb) hb]

theorem Repr.mergeEq (R : Repr lat C lat' h g) (hl' : lat'.Laws) (a b : L) (ha : C a) (hb : C b) :
    C (Dense.mergeEq lat a b) ∧ h (Dense.mergeEq lat a b) = Dense.mergeEq lat' (h a) (h b) := by
  rw [hl'.mergeEq_eq]
  unfold Dense.mergeEq
  split
  · rename_i he
    refine ⟨ha, ?_⟩
    rw [← (R.h_eq a b ha hb).1 he, hl'.idem]
  · exact ⟨R.merge_mem a b ha hb, R.h_merge a b ha hb⟩

theorem Repr.foldl_mergeEq (R : Repr lat C lat' h g) (hl' : lat'.Laws) (vs : List L) (v : L)
    (hv : C v) (hvs : ∀ x ∈ vs, C x) :
    C (vs.foldl (Dense.mergeEq lat) v) ∧
    h (vs.foldl (Dense.mergeEq lat) v) = (vs.map h).foldl (Dense.mergeEq lat') (h v) := by
  induction vs generalizing v with
  | nil => exact ⟨hv, rfl⟩
  | cons x xs ih =>
    simp only [List.foldl_cons, List.map_cons]
    have hx := hvs x (by simp)
    have hm := R.mergeEq hl' v x hv hx
    rw [← hm.2]
    exact ih _ hm.1 (fun y hy => hvs y (by simp [hy]))

theorem Repr.foldl_merge (R : Repr lat C lat' h g) (vs : List L) (v : L)
    (hv : C v) (hvs : ∀ x ∈ vs, C x) :
    C (vs.foldl lat.merge v) ∧ h (vs.foldl lat.merge v) = (vs.map h).foldl lat'.merge (h v) := by
  induction vs generalizing v with
  | nil => exact ⟨hv, rfl⟩
  | cons x xs ih =>
    simp only [List.foldl_cons, List.map_cons]
    have hx := hvs x (by simp)
    rw [← R.h_merge v x hv hx]
    exact ih _ (R.merge_mem v x hv hx) (fun y hy => hvs y (by simp [hy]))

theorem Repr.joinL (R : Repr lat C lat' h g) (vs : List L) (hvs : ∀ x ∈ vs, C x) :
    C (joinL lat vs) ∧ h (joinL lat vs) = joinL lat' (vs.map h) := by
  unfold Verif.C13.joinL
  rw [← R.h_bot]
  exact R.foldl_merge vs _ R.bot_mem hvs

end

namespace Dense
variable {L L' : Type}

/-- the transfer functions keep facts well-formed and respect `Equals`. -/
structure TrResp (lat : Lat L) (C : L → Prop) (tr : Nat → L → L) : Prop where
  mem : ∀ e a, C a → C (tr e a)
  resp : ∀ e a b, C a → C b → lat.eq a b = true → lat.eq (tr e a) (tr e b) = true

/-- monotone up to `Equals`. -/
def MonoE (lat : Lat L) (C : L → Prop) (tr : Nat → L → L) : Prop :=
  ∀ e a b, C a → C b → lat.leq a b → lat.leq (tr e a) (tr e b)

/-- the transfer function on denoted facts. -/
def trOf (h : L → L') (g : L' → L) (tr : Nat → L → L) : Nat → L' → L' := fun e x => h (tr e (g x))

/-- the denotation of a solver state. -/
def mapSt (h : L → L') (s : St L) : St L' :=
  { inF := fun b => h (s.inF b), outF := fun e => h (s.outF e), dirty := s.dirty, q := s.q }

theorem St.ext' {s t : St L} (h1 : s.inF = t.inF) (h2 : s.outF = t.outF) (h3 : s.dirty = t.dirty)
    (h4 : s.q = t.q) : s = t := by
  cases s; cases t; simp_all

/-- all facts in the state are well-formed representations. -/
def InC (C : L → Prop) (s : St L) : Prop := (∀ b, C (s.inF b)) ∧ (∀ e, C (s.outF e))

section
variable {lat : Lat L} {C : L → Prop} {lat' : Lat L'} {h : L → L'} {g : L' → L}
variable (R : Repr lat C lat' h g) (hl' : lat'.Laws) (G : Graph) (tr : Nat → L → L)

include R in
theorem tr_comm (ht : TrResp lat C tr) (e : Nat) (a : L) (ha : C a) :
    h (tr e a) = trOf h g tr e (h a) := by
  unfold trOf
  exact (R.h_eq _ _ (ht.mem e a ha) (ht.mem e _ (R.g_mem _))).1
    (ht.resp e a _ ha (R.g_mem _) (R.eq_g a ha))

include R in
theorem edgeVal_comm (s : St L) (hs : InC C s) (e : Nat) :
    C (edgeVal lat G s e) ∧ h (edgeVal lat G s e) = edgeVal lat' G (mapSt h s) e := by
  unfold edgeVal
  show _ ∧ _ = if s.dirty (G.src e) = true then lat'.bot else h (s.outF e)
  split
  · exact ⟨R.bot_mem, R.h_bot⟩
  · exact ⟨hs.2 e, rfl⟩

include R hl' in
theorem computeIn_comm (s : St L) (hs : InC C s) (b : Nat) :
    C (computeIn lat G s b) ∧ h (computeIn lat G s b) = computeIn lat' G (mapSt h s) b := by
  have hmap : (inEdges G b).map (edgeVal lat' G (mapSt h s))
      = ((inEdges G b).map (edgeVal lat G s)).map h := by
    rw [List.map_map]
    apply List.map_congr_left
    intro e _
    exact ((edgeVal_comm R G s hs e).2).symm
  have hmem : ∀ x ∈ (inEdges G b).map (edgeVal lat G s), C x := by
    intro x hx
    obtain ⟨e, _, rfl⟩ := List.mem_map.1 hx
    exact (edgeVal_comm R G s hs e).1
  unfold computeIn
  rw [hmap]
  cases hl : (inEdges G b).map (edgeVal lat G s) with
  | nil => exact ⟨hs.1 b, rfl⟩
  | cons v vs =>
    rw [hl] at hmem
    simp only [List.map_cons]
    exact R.foldl_mergeEq hl' vs v (hmem v (by simp)) (fun y hy => hmem y (by simp [hy]))

include R hl' in
theorem changed_comm (ht : TrResp lat C tr) (s : St L) (hs : InC C s) (b : Nat) (inN : L) (hin : C inN)
    (e : Nat) :
    changed lat' (trOf h g tr) (mapSt h s) b (h inN) e = changed lat tr s b inN e := by
  unfold changed
  show (s.dirty b || !lat'.eq (h (s.outF e)) (trOf h g tr e (h inN))) = _
  rw [← tr_comm R tr ht e inN hin, R.eq_bool hl' _ _ (hs.2 e) (ht.mem e inN hin)]

include R hl' in
/-- one solver iteration commutes with the denotation. -/
theorem process_comm (ht : TrResp lat C tr) (s : St L) (hs : InC C s) (b : Nat) :
    InC C (process lat G tr s b) ∧
    mapSt h (process lat G tr s b) = process lat' G (trOf h g tr) (mapSt h s) b := by
  obtain ⟨hcin, hhin⟩ := computeIn_comm R hl' G s hs b
  have hch := changed_comm R hl' tr ht s hs b (computeIn lat G s b) hcin
  have hcond : (!s.dirty b && lat'.eq (computeIn lat' G (mapSt h s) b) (h (s.inF b)))
      = (!s.dirty b && lat.eq (computeIn lat G s b) (s.inF b)) := by
    rw [← hhin, R.eq_bool hl' _ _ hcin (hs.1 b)]
  unfold process
  show _ ∧ _ = (if (!s.dirty b && lat'.eq (computeIn lat' G (mapSt h s) b) (h (s.inF b))) = true then _ else _)
  rw [hcond]
  by_cases hc : (!s.dirty b && lat.eq (computeIn lat G s b) (s.inF b)) = true
  · simp only [hc, if_true]
    exact ⟨hs, rfl⟩
  · simp only [hc]
    refine ⟨⟨?_, ?_⟩, ?_⟩
    · intro x
      show C (upd s.inF b (computeIn lat G s b) x)
      unfold upd
      split
      · exact hcin
      · exact hs.1 x
    · intro e
      show C (if _ then _ else _)
      split
      · exact ht.mem e _ hcin
      · exact hs.2 e
    · apply St.ext'
      · funext x
        show h (upd s.inF b (computeIn lat G s b) x) = upd (fun b => h (s.inF b)) b _ x
        unfold upd
        split
        · exact hhin
        · rfl
      · funext e
        show h (if _ then _ else _) = if _ then _ else _
        rw [← hhin, hch e, ← tr_comm R tr ht e _ hcin]
        split <;> rfl
      · rfl
      · funext x
        show _ = (_ || (outEdges G b).any (fun e => G.dst e == x &&
          changed lat' (trOf h g tr) (mapSt h s) b (computeIn lat' G (mapSt h s) b) e))
        rw [← hhin]
        simp only [hch]
        rfl

include R in
theorem init_comm (entry : Nat → L) (he : ∀ b, C (entry b)) :
    InC C (init lat G entry) ∧
    mapSt h (init lat G entry) = init lat' G (fun b => h (entry b)) := by
  refine ⟨⟨he, fun _ => R.bot_mem⟩, ?_⟩
  apply St.ext'
  · rfl
  · exact funext (fun _ => R.h_bot)
  · rfl
  · rfl

include R hl' in
/-- **simulation**: the denotation of a run over `lat` is a run over `lat'`. -/
theorem reach_comm (ht : TrResp lat C tr) (entry : Nat → L) (he : ∀ b, C (entry b)) (s : St L)
    (hr : Reach lat G tr entry s) :
    InC C s ∧ Reach lat' G (trOf h g tr) (fun b => h (entry b)) (mapSt h s) := by
  induction hr with
  | init =>
    obtain ⟨h1, h2⟩ := init_comm R G entry he
    rw [h2]
    exact ⟨h1, Reach.init⟩
  | @step s b _ hq ih =>
    obtain ⟨h1, h2⟩ := process_comm R hl' G tr ht s ih.1 b
    rw [h2]
    exact ⟨h1, Reach.step ih.2 hq⟩

include R in
theorem leq_refl' (a : L) (ha : C a) (hl' : lat'.Laws) : lat.leq a a :=
  (R.le_iff a a ha ha).1 (hl'.le_refl _)

include R hl' in
theorem resp_of_mono (hmem : ∀ e a, C a → C (tr e a)) (hm : MonoE lat C tr) : TrResp lat C tr := by
  refine ⟨hmem, ?_⟩
  intro e a b ha hb hab
  have hh : h a = h b := (R.h_eq a b ha hb).1 hab
  have l1 : lat.leq a b := (R.le_iff a b ha hb).1 (by rw [hh]; exact hl'.le_refl _)
  have l2 : lat.leq b a := (R.le_iff b a hb ha).1 (by rw [hh]; exact hl'.le_refl _)
  have m1 := (R.le_iff _ _ (hmem e a ha) (hmem e b hb)).2 (hm e a b ha hb l1)
  have m2 := (R.le_iff _ _ (hmem e b hb) (hmem e a ha)).2 (hm e b a hb ha l2)
  exact (R.h_eq _ _ (hmem e a ha) (hmem e b hb)).2 (hl'.le_antisymm m1 m2)

include R in
theorem mono_comm (hm : MonoE lat C tr) (hmem : ∀ e a, C a → C (tr e a)) : Mono lat' (trOf h g tr) := by
  intro e x y hxy
  unfold trOf
  rw [R.le_iff _ _ (hmem e _ (R.g_mem x)) (hmem e _ (R.g_mem y))]
  apply hm e _ _ (R.g_mem x) (R.g_mem y)
  rw [← R.le_iff _ _ (R.g_mem x) (R.g_mem y), R.h_g, R.h_g]
  exact hxy

end

/-- a (pre-)solution up to `Equals`, of well-formed facts. -/
structure PreSolE (lat : Lat L) (C : L → Prop) (G : Graph) (tr : Nat → L → L) (entry I O : Nat → L) :
    Prop where
  I_mem : ∀ b, C (I b)
  O_mem : ∀ e, C (O e)
  entry_le : ∀ b, b < G.n → inEdges G b = [] → lat.leq (entry b) (I b)
  merge_le : ∀ b, b < G.n → inEdges G b ≠ [] → lat.leq (joinL lat ((inEdges G b).map O)) (I b)
  tr_le : ∀ e, e < G.m → lat.leq (tr e (I (G.src e))) (O e)

theorem presol_comm {lat : Lat L} {C : L → Prop} {lat' : Lat L'} {h : L → L'} {g : L' → L}
    (R : Repr lat C lat' h g) (G : Graph) (tr : Nat → L → L) (ht : TrResp lat C tr)
    (entry I O : Nat → L) (he : ∀ b, C (entry b)) (hs : PreSolE lat C G tr entry I O) :
    PreSol lat' G (trOf h g tr) (fun b => h (entry b)) (fun b => h (I b)) (fun e => h (O e)) := by
  refine ⟨?_, ?_, ?_⟩
  · intro b hb hn
    exact (R.le_iff _ _ (he b) (hs.I_mem b)).2 (hs.entry_le b hb hn)
  · intro b hb hn
    have hmem : ∀ x ∈ (inEdges G b).map O, C x := by
      intro x hx
      obtain ⟨e, _, rfl⟩ := List.mem_map.1 hx
      exact hs.O_mem e
    have hj := R.joinL _ hmem
    have : (inEdges G b).map (fun e => h (O e)) = ((inEdges G b).map O).map h := by
      rw [List.map_map]; rfl
    rw [this, ← hj.2]
    exact (R.le_iff _ _ hj.1 (hs.I_mem b)).2 (hs.merge_le b hb hn)
  · intro e he'
    show lat'.le (trOf h g tr e (h (I (G.src e)))) (h (O e))
    rw [← tr_comm R tr ht e _ (hs.I_mem _)]
    exact (R.le_iff _ _ (ht.mem e _ (hs.I_mem _)) (hs.O_mem e)).2 (hs.tr_le e he')

end Dense

end Verif.C13
