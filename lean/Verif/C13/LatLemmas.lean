import Verif.C13.Model
/-! Order-theoretic helper lemmas for a lawful `Lat` (not property statements). -/
namespace Verif.C13

/-- The laws `dfa.Semilattice` documents, with `Equals` deciding equality of elements
(for lattices whose `Equals` is coarser than structural equality — `MapLattice`,
`DenseMapLattice` — `L` is the quotient by `Equals`; `map_lattice_laws` and
`dense_map_lattice_laws` show that `Equals` is an equivalence and the laws hold up to it). -/
structure Lat.Laws {L : Type} (lat : Lat L) : Prop where
  eq_iff : ∀ a b, lat.eq a b = true ↔ a = b
  assoc : ∀ a b c, lat.merge a (lat.merge b c) = lat.merge (lat.merge a b) c
  comm : ∀ a b, lat.merge a b = lat.merge b a
  idem : ∀ a, lat.merge a a = a
  ident : ∀ a, lat.merge a lat.bot = a

/-- the partial order induced by `Merge`: `a ⊑ b` iff `a ∧ b = b`. -/
def Lat.le {L : Type} (lat : Lat L) (a b : L) : Prop := lat.merge a b = b

/-- spec of "the merge of a list of facts": fold of `Merge` from `Ident`. -/
def joinL {L : Type} (lat : Lat L) (l : List L) : L := l.foldl lat.merge lat.bot

/-- finite height, witnessed by a rank function that strictly grows along `⊑`. -/
structure Ranked {L : Type} (lat : Lat L) (rank : L → Nat) (H : Nat) : Prop where
  rank_le : ∀ a, rank a ≤ H
  rank_lt : ∀ a b, lat.le a b → a ≠ b → rank a < rank b

variable {L : Type} {lat : Lat L}

theorem Lat.Laws.le_refl (h : lat.Laws) (a : L) : lat.le a a := h.idem a

theorem Lat.Laws.le_trans (h : lat.Laws) {a b c : L} (h1 : lat.le a b) (h2 : lat.le b c) : lat.le a c := by
  unfold Lat.le at *
  rw [← h2, h.assoc, h1]

theorem Lat.Laws.le_antisymm (h : lat.Laws) {a b : L} (h1 : lat.le a b) (h2 : lat.le b a) : a = b := by
  unfold Lat.le at *
  rw [← h2, h.comm, h1]

theorem Lat.Laws.bot_merge (h : lat.Laws) (a : L) : lat.merge lat.bot a = a := by
  rw [h.comm, h.ident]

theorem Lat.Laws.bot_le (h : lat.Laws) (a : L) : lat.le lat.bot a := h.bot_merge a

theorem Lat.Laws.le_merge_left (h : lat.Laws) (a b : L) : lat.le a (lat.merge a b) := by
  unfold Lat.le
  rw [h.assoc, h.idem]

theorem Lat.Laws.le_merge_right (h : lat.Laws) (a b : L) : lat.le b (lat.merge a b) := by
  unfold Lat.le
  rw [h.comm a b, h.assoc, h.idem]

theorem Lat.Laws.merge_le (h : lat.Laws) {a b c : L} (h1 : lat.le a c) (h2 : lat.le b c) :
    lat.le (lat.merge a b) c := by
  unfold Lat.le at *
  rw [← h.assoc, h2, h1]

theorem Lat.Laws.merge_mono (h : lat.Laws) {a a' b b' : L} (h1 : lat.le a a') (h2 : lat.le b b') :
    lat.le (lat.merge a b) (lat.merge a' b') :=
  h.merge_le (h.le_trans h1 (h.le_merge_left _ _)) (h.le_trans h2 (h.le_merge_right _ _))

theorem Lat.Laws.mergeEq_eq (h : lat.Laws) (a b : L) : Dense.mergeEq lat a b = lat.merge a b := by
  unfold Dense.mergeEq
  split
  · rename_i he
    rw [(h.eq_iff a b).1 he, h.idem]
  · rfl

theorem Lat.Laws.foldl_mergeEq (h : lat.Laws) (vs : List L) (v : L) :
    vs.foldl (Dense.mergeEq lat) v = vs.foldl lat.merge v := by
  induction vs generalizing v with
  | nil => rfl
  | cons x xs ih => simp only [List.foldl_cons, h.mergeEq_eq, ih]

/-- "first predecessor assigned, the others merged" = fold from `Ident`. -/
theorem Lat.Laws.foldl_first (h : lat.Laws) (v : L) (vs : List L) :
    vs.foldl (Dense.mergeEq lat) v = joinL lat (v :: vs) := by
  rw [h.foldl_mergeEq]
  simp only [joinL, List.foldl_cons, h.bot_merge]

theorem Lat.Laws.foldl_le (h : lat.Laws) {u : L} (l : List L) (a : L) (ha : lat.le a u)
    (hl : ∀ x ∈ l, lat.le x u) : lat.le (l.foldl lat.merge a) u := by
  induction l generalizing a with
  | nil => exact ha
  | cons x xs ih =>
    simp only [List.foldl_cons]
    exact ih _ (h.merge_le ha (hl x (by simp))) (fun y hy => hl y (by simp [hy]))

theorem Lat.Laws.foldl_map_mono (h : lat.Laws) {ι : Type} (es : List ι) (f g : ι → L) (a a' : L)
    (ha : lat.le a a') (hfg : ∀ e ∈ es, lat.le (f e) (g e)) :
    lat.le ((es.map f).foldl lat.merge a) ((es.map g).foldl lat.merge a') := by
  induction es generalizing a a' with
  | nil => exact ha
  | cons x xs ih =>
    simp only [List.map_cons, List.foldl_cons]
    exact ih _ _ (h.merge_mono ha (hfg x (by simp))) (fun y hy => hfg y (by simp [hy]))

theorem Lat.Laws.joinL_map_mono (h : lat.Laws) {ι : Type} (es : List ι) (f g : ι → L)
    (hfg : ∀ e ∈ es, lat.le (f e) (g e)) : lat.le (joinL lat (es.map f)) (joinL lat (es.map g)) :=
  h.foldl_map_mono es f g _ _ (h.le_refl _) hfg

theorem Lat.Laws.joinL_le (h : lat.Laws) {u : L} (l : List L) (hl : ∀ x ∈ l, lat.le x u) :
    lat.le (joinL lat l) u :=
  h.foldl_le l _ (h.bot_le u) hl

theorem Lat.Laws.le_foldl_init (h : lat.Laws) (l : List L) (a : L) : lat.le a (l.foldl lat.merge a) := by
  induction l generalizing a with
  | nil => exact h.le_refl a
  | cons x xs ih =>
    simp only [List.foldl_cons]
    exact h.le_trans (h.le_merge_left a x) (ih _)

theorem Lat.Laws.le_foldl_mem (h : lat.Laws) (l : List L) (a x : L) (hx : x ∈ l) :
    lat.le x (l.foldl lat.merge a) := by
  induction l generalizing a with
  | nil => cases hx
  | cons y ys ih =>
    simp only [List.foldl_cons]
    rcases List.mem_cons.1 hx with rfl | hm
    · exact h.le_trans (h.le_merge_right a x) (h.le_foldl_init ys _)
    · exact ih _ hm

/-- the merge of a list is its least upper bound. -/
theorem Lat.Laws.le_joinL (h : lat.Laws) (l : List L) (x : L) (hx : x ∈ l) : lat.le x (joinL lat l) :=
  h.le_foldl_mem l _ x hx

theorem tabulate_eq {α : Type} (N : Nat) (f : Nat → α) : tabulate N f = f := by
  funext v
  unfold tabulate lookupTab tab
  split
  · simp
  · rfl

theorem Dense.reify_eq {L : Type} (G : Dense.Graph) (s : Dense.St L) : Dense.reify G s = s := by
  unfold Dense.reify
  have h : ∀ {α : Type} (N : Nat) (f : Nat → α), lookupTab (tab N f) f = f := tabulate_eq
  simp only [h]

theorem Sparse.reify_eq {L : Type} (P : Sparse.Prog L) (nv : Nat) (s : Sparse.St L) :
    Sparse.reify P nv s = s := by
  unfold Sparse.reify
  have h : ∀ {α : Type} (N : Nat) (f : Nat → α), lookupTab (tab N f) f = f := tabulate_eq
  simp only [h]

/-! finite sums and counts over `0..k-1` (termination measures) -/

def sumTo (f : Nat → Nat) : Nat → Nat
  | 0 => 0
  | k + 1 => sumTo f k + f k

def cnt (q : Nat → Bool) (k : Nat) : Nat := sumTo (fun x => if q x then 1 else 0) k

theorem sumTo_le {f g : Nat → Nat} (k : Nat) (h : ∀ x < k, f x ≤ g x) : sumTo f k ≤ sumTo g k := by
  induction k with
  | zero => exact Nat.le_refl _
  | succ k ih =>
    have h1 := ih (fun x hx => h x (by omega))
    have h2 := h k (by omega)
    simp only [sumTo]; omega

theorem sumTo_lt {f g : Nat → Nat} (k j : Nat) (hj : j < k) (h : ∀ x < k, f x ≤ g x) (hlt : f j < g j) :
    sumTo f k < sumTo g k := by
  induction k with
  | zero => omega
  | succ k ih =>
    simp only [sumTo]
    by_cases hjk : j = k
    · subst hjk
      have := sumTo_le (f := f) (g := g) j (fun x hx => h x (by omega))
      omega
    · have h1 := ih (by omega) (fun x hx => h x (by omega))
      have h2 := h k (by omega)
      omega

theorem cnt_le (q : Nat → Bool) (k : Nat) : cnt q k ≤ k := by
  unfold cnt
  induction k with
  | zero => simp [sumTo]
  | succ k ih => simp only [sumTo]; split <;> omega

theorem cnt_zero_iff (q : Nat → Bool) (k : Nat) : cnt q k = 0 ↔ ∀ x < k, q x = false := by
  unfold cnt
  induction k with
  | zero => simp [sumTo]
  | succ k ih =>
    simp only [sumTo]
    constructor
    · intro h x hx
      have h0 : sumTo (fun x => if q x = true then 1 else 0) k = 0 := by omega
      by_cases hxk : x = k
      · subst hxk
        cases hq : q x <;> simp_all
      · exact ih.1 h0 x (by omega)
    · intro h
      have := ih.2 (fun x hx => h x (by omega))
      have := h k (by omega)
      simp_all

end Verif.C13
