import Verif.C13.LatLemmas
/-! Invariants of the sparse solver with multi-mapping transfers (`SparseM`, Model.lean). -/
namespace Verif.C13.SparseM

variable {L : Type}

inductive Reach (lat : Lat L) (P : Prog L) (val0 : Nat → L) : Sparse.St L → Prop
  | init : Reach lat P val0 (init P val0)
  | step {s : Sparse.St L} {i : Nat} : Reach lat P val0 s → s.w i = true →
      Reach lat P val0 (process lat P s i)

/-- What a client of `sparse.Instance.Forward` must guarantee for the result to be a fixpoint
(the solver cannot know which states a transfer function reads; it re-enqueues the
referrers *of the instruction* whenever *any* of the instruction's mappings changes).

* `tgt i` — the values instruction `i`'s mappings are for (for a phi: itself), `F w val` — the
  state mapped to `w`: all instructions that map `w` agree on it (`maps_eq`);
* `rd w` — the values `F w` reads (`reads`);
* `enq` — **the dependency hypothesis**: if instruction `i` maps value `u`, then either the
  mapping is *stable* (always the state `u` was given before `Forward`; e.g. "parameter `p`
  is the source") or every instruction `j` with a mapping that reads `u` is one of
  `i.Referrers()`.  For the instruction's own value this is the use-def consistency of the
  IR; for any other mapped value it is an obligation on the client. -/
structure Spec (lat : Lat L) (P : Prog L) (val0 : Nat → L)
    (tgt : Nat → List Nat) (F : Nat → (Nat → L) → L) (rd : Nat → List Nat) : Prop where
  refs_lt : ∀ i x, i < P.n → x ∈ P.refs i → x < P.n
  maps_eq : ∀ i, i < P.n → ∀ val, mappings lat P val i = (tgt i).map (fun w => (w, F w val))
  reads : ∀ w val val', (∀ v ∈ rd w, val v = val' v) → F w val = F w val'
  enq : ∀ i u, i < P.n → u ∈ tgt i →
    (∀ val, F u val = val0 u) ∨ (∀ j w, j < P.n → w ∈ tgt j → u ∈ rd w → j ∈ P.refs i)

/-- … and for it to be the *least* fixpoint: monotone mappings, and the given initial states
are below what the mappings produce from them (`Ident`, or the stable state). -/
structure SpecMono (lat : Lat L) (P : Prog L) (val0 : Nat → L)
    (tgt : Nat → List Nat) (F : Nat → (Nat → L) → L) : Prop where
  mono : ∀ w val val', (∀ v, lat.le (val v) (val' v)) → lat.le (F w val) (F w val')
  init_le : ∀ i w, i < P.n → w ∈ tgt i → lat.le (val0 w) (F w val0)

section
variable (lat : Lat L) (P : Prog L)

/-- the `for _, d := range ds` loop over mappings `w ↦ g w`: every target ends with its
mapped state (also when a value is mapped twice), and the flag is set iff some target's
state differs from the one before the loop. -/
theorem store_fold (hl : lat.Laws) (g : Nat → L) (ts : List Nat) (val : Nat → L) (b : Bool) :
    (∀ v, ((ts.map (fun w => (w, g w))).foldl (storeStep lat) (val, b)).1 v
        = if v ∈ ts then g v else val v) ∧
    (((ts.map (fun w => (w, g w))).foldl (storeStep lat) (val, b)).2 = true ↔
        (b = true ∨ ∃ w ∈ ts, g w ≠ val w)) := by
  induction ts generalizing val b with
  | nil => simp
  | cons w ts ih =>
    simp only [List.map_cons, List.foldl_cons]
    cases he : lat.eq (g w) (val w)
    · -- the state of `w` changes
      have hne : g w ≠ val w := by
        intro h
        have := (hl.eq_iff (g w) (val w)).2 h
        rw [he] at this; cases this
      have hstep : storeStep lat (val, b) (w, g w) = (upd val w (g w), true) := by
        simp [storeStep, he]
      rw [hstep]
      obtain ⟨h1, h2⟩ := ih (upd val w (g w)) true
      refine ⟨?_, ?_⟩
      · intro v
        rw [h1 v]
        by_cases hv : v ∈ ts
        · simp [hv]
        · by_cases hvw : v = w
          · subst hvw; simp [hv, upd]
          · simp [hv, hvw, upd]
      · rw [h2]
        constructor
        · intro _; exact Or.inr ⟨w, by simp, hne⟩
        · intro _; exact Or.inl rfl
    · have heq : g w = val w := (hl.eq_iff _ _).1 he
      have hstep : storeStep lat (val, b) (w, g w) = (val, b) := by
        simp [storeStep, he]
      rw [hstep]
      obtain ⟨h1, h2⟩ := ih val b
      refine ⟨?_, ?_⟩
      · intro v
        rw [h1 v]
        by_cases hv : v ∈ ts
        · simp [hv]
        · by_cases hvw : v = w
          · subst hvw; simp [hv, heq]
          · simp [hv, hvw]
      · rw [h2]
        constructor
        · rintro (h | ⟨x, hx, hne⟩)
          · exact Or.inl h
          · exact Or.inr ⟨x, by simp [hx], hne⟩
        · rintro (h | ⟨x, hx, hne⟩)
          · exact Or.inl h
          · rcases List.mem_cons.1 hx with rfl | hx'
            · exact absurd heq hne
            · exact Or.inr ⟨x, hx', hne⟩

variable {lat P} {val0 : Nat → L} {tgt : Nat → List Nat} {F : Nat → (Nat → L) → L} {rd : Nat → List Nat}

/-- the mapping after the loop body for instruction `i`. -/
def nextVal (tgt : Nat → List Nat) (F : Nat → (Nat → L) → L) (val : Nat → L) (i : Nat) : Nat → L :=
  fun v => if v ∈ tgt i then F v val else val v

theorem process_val (hl : lat.Laws) (hs : Spec lat P val0 tgt F rd) (s : Sparse.St L) (i : Nat)
    (hi : i < P.n) : (process lat P s i).val = nextVal tgt F s.val i := by
  funext v
  show (store lat s.val (mappings lat P s.val i)).1 v = _
  rw [hs.maps_eq i hi]
  exact (store_fold lat hl (fun w => F w s.val) (tgt i) s.val false).1 v

/-- no mapping changes a state: only the worklist shrinks. -/
theorem process_same (hl : lat.Laws) (hs : Spec lat P val0 tgt F rd) (s : Sparse.St L) (i : Nat)
    (hi : i < P.n) (h : ∀ w ∈ tgt i, F w s.val = s.val w) :
    process lat P s i = { s with w := fun x => s.w x && !(x == i) } := by
  have hv := process_val hl hs s i hi
  have hflag : (store lat s.val (mappings lat P s.val i)).2 = false := by
    cases hf : (store lat s.val (mappings lat P s.val i)).2
    · rfl
    · exfalso
      rw [hs.maps_eq i hi] at hf
      rcases (store_fold lat hl (fun w => F w s.val) (tgt i) s.val false).2.1 hf with h0 | ⟨w, hw, hne⟩
      · cases h0
      · exact hne (h w hw)
  have hval : (process lat P s i).val = s.val := by
    rw [hv]; funext v; unfold nextVal
    split
    · rename_i hm; exact h v hm
    · rfl
  have hw : (process lat P s i).w = fun x => s.w x && !(x == i) := by
    show (if (store lat s.val (mappings lat P s.val i)).2 = true then _ else _) = _
    rw [hflag]; simp
  cases hp : process lat P s i with
  | mk v w => rw [hp] at hval hw; simp only at hval hw; rw [hval, hw]

/-- some mapping changes a state: all are stored, the referrers of `i` are enqueued. -/
theorem process_change (hl : lat.Laws) (hs : Spec lat P val0 tgt F rd) (s : Sparse.St L) (i : Nat)
    (hi : i < P.n) (h : ∃ w ∈ tgt i, F w s.val ≠ s.val w) :
    process lat P s i =
      { val := nextVal tgt F s.val i
        w := fun x => (s.w x && !(x == i)) || (P.refs i).contains x } := by
  have hv := process_val hl hs s i hi
  have hflag : (store lat s.val (mappings lat P s.val i)).2 = true := by
    rw [hs.maps_eq i hi]
    exact (store_fold lat hl (fun w => F w s.val) (tgt i) s.val false).2.2 (Or.inr h)
  have hw : (process lat P s i).w = fun x => (s.w x && !(x == i)) || (P.refs i).contains x := by
    show (if (store lat s.val (mappings lat P s.val i)).2 = true then _ else _) = _
    rw [hflag]; simp
  cases hp : process lat P s i with
  | mk v w => rw [hp] at hv hw; simp only at hv hw; rw [hv, hw]

/-! ### fixpoint invariant -/

structure Inv (lat : Lat L) (P : Prog L) (val0 : Nat → L) (tgt : Nat → List Nat)
    (F : Nat → (Nat → L) → L) (s : Sparse.St L) : Prop where
  w_lt : ∀ i, s.w i = true → i < P.n
  fix : ∀ i, i < P.n → s.w i = false → ∀ w ∈ tgt i, s.val w = F w s.val
  frame : ∀ v, (∀ i, i < P.n → v ∉ tgt i) → s.val v = val0 v
  stable : ∀ u, (∀ val, F u val = val0 u) → s.val u = val0 u

theorem inv_init : Inv lat P val0 tgt F (init P val0) := by
  refine ⟨?_, ?_, ?_, ?_⟩
  · intro i hi; simpa [init] using hi
  · intro i hi hw; simp [init, hi] at hw
  · intro v _; rfl
  · intro u _; rfl

theorem inv_step (hl : lat.Laws) (hs : Spec lat P val0 tgt F rd) (s : Sparse.St L) (i : Nat)
    (hi : Inv lat P val0 tgt F s) (hq : s.w i = true) : Inv lat P val0 tgt F (process lat P s i) := by
  have hin : i < P.n := hi.w_lt i hq
  by_cases hc : ∃ w ∈ tgt i, F w s.val ≠ s.val w
  · rw [process_change hl hs s i hin hc]
    refine ⟨?_, ?_, ?_, ?_⟩
    · intro x hx
      simp only [Bool.or_eq_true, Bool.and_eq_true, List.contains_eq_mem, decide_eq_true_eq] at hx
      rcases hx with h1 | h2
      · exact hi.w_lt x h1.1
      · exact hs.refs_lt i x hin h2
    · intro j hj hwj w hw
      simp only [Bool.or_eq_false_iff, Bool.and_eq_false_iff, Bool.not_eq_false', beq_iff_eq,
        List.contains_eq_mem, decide_eq_false_iff_not] at hwj
      obtain ⟨h1, h2⟩ := hwj
      -- `j` is not a referrer of `i`, so none of the states its mappings read changed
      have hsame : ∀ u ∈ rd w, nextVal tgt F s.val i u = s.val u := by
        intro u hu
        unfold nextVal
        split
        · rename_i hm
          rcases hs.enq i u hin hm with hst | hdep
          · rw [hst, hi.stable u hst]
          · exact absurd (hdep j w hj hw hu) h2
        · rfl
      show nextVal tgt F s.val i w = F w (nextVal tgt F s.val i)
      rw [hs.reads w _ s.val hsame]
      unfold nextVal
      split
      · rfl
      · rename_i hnm
        have hji : j ≠ i := fun h => hnm (h ▸ hw)
        have hwj' : s.w j = false := by
          rcases h1 with h | h
          · exact h
          · exact absurd h hji
        exact hi.fix j hj hwj' w hw
    · intro v hv
      show nextVal tgt F s.val i v = val0 v
      unfold nextVal
      rw [if_neg (hv i hin)]
      exact hi.frame v hv
    · intro u hu
      show nextVal tgt F s.val i u = val0 u
      unfold nextVal
      split
      · exact hu _
      · exact hi.stable u hu
  · have hc' : ∀ w ∈ tgt i, F w s.val = s.val w := by
      intro w hw
      by_cases h : F w s.val = s.val w
      · exact h
      · exact absurd ⟨w, hw, h⟩ hc
    rw [process_same hl hs s i hin hc']
    refine ⟨?_, ?_, hi.frame, hi.stable⟩
    · intro x hx
      simp only [Bool.and_eq_true] at hx
      exact hi.w_lt x hx.1
    · intro j hj hwj w hw
      simp only [Bool.and_eq_false_iff, Bool.not_eq_false', beq_iff_eq] at hwj
      rcases hwj with h | rfl
      · exact hi.fix j hj h w hw
      · exact (hc' w hw).symm

theorem inv_reach (hl : lat.Laws) (hs : Spec lat P val0 tgt F rd) (s : Sparse.St L)
    (h : Reach lat P val0 s) : Inv lat P val0 tgt F s := by
  induction h with
  | init => exact inv_init
  | step _ hq ih => exact inv_step hl hs _ _ ih hq

/-! ### ascending chain, comparison with any pre-solution -/

structure Asc (lat : Lat L) (P : Prog L) (val0 : Nat → L) (tgt : Nat → List Nat)
    (F : Nat → (Nat → L) → L) (s : Sparse.St L) : Prop where
  up : ∀ i, i < P.n → ∀ w ∈ tgt i, lat.le (s.val w) (F w s.val)
  above : ∀ v, lat.le (val0 v) (s.val v)

theorem nextVal_ge (hl : lat.Laws) (s : Sparse.St L) (i : Nat) (hin : i < P.n)
    (ha : Asc lat P val0 tgt F s) : ∀ v, lat.le (s.val v) (nextVal tgt F s.val i v) := by
  intro v
  unfold nextVal
  split
  · rename_i hm; exact ha.up i hin v hm
  · exact hl.le_refl _

/-- `(process …).val` is `nextVal` in both cases. -/
theorem process_val' (hl : lat.Laws) (hs : Spec lat P val0 tgt F rd) (s : Sparse.St L) (i : Nat)
    (hi : i < P.n) (v : Nat) : (process lat P s i).val v = nextVal tgt F s.val i v := by
  rw [process_val hl hs s i hi]

theorem asc_step (hl : lat.Laws) (hs : Spec lat P val0 tgt F rd) (hm : SpecMono lat P val0 tgt F)
    (s : Sparse.St L) (i : Nat) (hin : i < P.n) (ha : Asc lat P val0 tgt F s) :
    Asc lat P val0 tgt F (process lat P s i) := by
  have hge := nextVal_ge hl s i hin ha
  refine ⟨?_, ?_⟩
  · intro j hj w hw
    rw [process_val hl hs s i hin]
    have hmono := hm.mono w _ _ hge
    show lat.le (nextVal tgt F s.val i w) _
    unfold nextVal at hmono ⊢
    split
    · exact hmono
    · exact hl.le_trans (ha.up j hj w hw) hmono
  · intro v
    rw [process_val' hl hs s i hin]
    exact hl.le_trans (ha.above v) (hge v)

theorem asc_reach (hl : lat.Laws) (hs : Spec lat P val0 tgt F rd) (hm : SpecMono lat P val0 tgt F)
    (s : Sparse.St L) (h : Reach lat P val0 s) : Asc lat P val0 tgt F s := by
  induction h with
  | init => exact ⟨fun i hi w hw => hm.init_le i w hi hw, fun v => hl.le_refl _⟩
  | @step s i hr hq ih =>
    exact asc_step hl hs hm s i ((inv_reach hl hs s hr).w_lt i hq) ih

/-- `τ` is a pre-solution: above the initial states and closed under every mapping. -/
structure PreSol (lat : Lat L) (P : Prog L) (val0 : Nat → L) (tgt : Nat → List Nat)
    (F : Nat → (Nat → L) → L) (τ : Nat → L) : Prop where
  init_le : ∀ v, lat.le (val0 v) (τ v)
  eqn_le : ∀ i, i < P.n → ∀ w ∈ tgt i, lat.le (F w τ) (τ w)

theorem below_reach (hl : lat.Laws) (hs : Spec lat P val0 tgt F rd) (hm : SpecMono lat P val0 tgt F)
    (τ : Nat → L) (hp : PreSol lat P val0 tgt F τ) (s : Sparse.St L) (h : Reach lat P val0 s) :
    ∀ v, lat.le (s.val v) (τ v) := by
  induction h with
  | init => exact hp.init_le
  | @step s i hr hq ih =>
    have hin := (inv_reach hl hs s hr).w_lt i hq
    intro v
    rw [process_val' hl hs s i hin]
    unfold nextVal
    split
    · rename_i hmem
      exact hl.le_trans (hm.mono v _ _ ih) (hp.eqn_le i hin v hmem)
    · exact ih v

end

/-! ### termination measure -/
section term
variable (lat : Lat L) (P : Prog L) (rank : L → Nat) (H : Nat) (nv : Nat)

def phi (s : Sparse.St L) (x : Nat) : Nat := H - rank (s.val x)

def mu (s : Sparse.St L) : Nat := sumTo (phi rank H s) nv * (P.n + 1) + cnt s.w P.n

theorem rank_mono {lat : Lat L} {rank : L → Nat} {H : Nat} (hr : Ranked lat rank H) {a b : L}
    (h : lat.le a b) : rank a ≤ rank b := by
  by_cases he : a = b
  · rw [he]; exact Nat.le_refl _
  · exact Nat.le_of_lt (hr.rank_lt a b h he)

variable {lat P rank H nv} {val0 : Nat → L} {tgt : Nat → List Nat} {F : Nat → (Nat → L) → L}
  {rd : Nat → List Nat}

theorem mu_step (hl : lat.Laws) (hr : Ranked lat rank H) (hs : Spec lat P val0 tgt F rd)
    (htl : ∀ i w, i < P.n → w ∈ tgt i → w < nv) (s : Sparse.St L) (i : Nat)
    (hi : Inv lat P val0 tgt F s) (ha : Asc lat P val0 tgt F s) (hq : s.w i = true) :
    mu P rank H nv (process lat P s i) < mu P rank H nv s := by
  have hin : i < P.n := hi.w_lt i hq
  by_cases hc : ∃ w ∈ tgt i, F w s.val ≠ s.val w
  · obtain ⟨w, hw, hne⟩ := hc
    have hge := nextVal_ge hl s i hin ha
    have hwv : w < nv := htl i w hin hw
    have hlt : phi rank H (process lat P s i) w < phi rank H s w := by
      unfold phi
      rw [process_val' hl hs s i hin]
      have hnv : nextVal tgt F s.val i w = F w s.val := by simp [nextVal, hw]
      rw [hnv]
      have h1 := hr.rank_lt _ _ (ha.up i hin w hw) (fun h => hne h.symm)
      have h2 := hr.rank_le (F w s.val)
      omega
    have hle : ∀ x, x < nv → phi rank H (process lat P s i) x ≤ phi rank H s x := by
      intro x _
      unfold phi
      rw [process_val' hl hs s i hin]
      have := rank_mono hr (hge x)
      omega
    have hsum := sumTo_lt nv w hwv hle hlt
    have hcn := cnt_le (process lat P s i).w P.n
    unfold mu
    have h3 : (sumTo (phi rank H (process lat P s i)) nv + 1) * (P.n + 1)
        ≤ sumTo (phi rank H s) nv * (P.n + 1) := Nat.mul_le_mul_right _ hsum
    rw [Nat.add_mul] at h3
    omega
  · have hc' : ∀ w ∈ tgt i, F w s.val = s.val w := by
      intro w hw
      by_cases h : F w s.val = s.val w
      · exact h
      · exact absurd ⟨w, hw, h⟩ hc
    rw [process_same hl hs s i hin hc']
    unfold mu
    have hcn : cnt (fun x => s.w x && !(x == i)) P.n < cnt s.w P.n := by
      unfold cnt
      refine sumTo_lt P.n i hin ?_ ?_
      · intro x _
        cases hw : s.w x <;> by_cases hxi : x = i <;> simp [hxi, hw]
      · simp [hq]
    have hp : phi rank H { s with w := fun x => s.w x && !(x == i) } = phi rank H s := rfl
    rw [hp]
    simp only
    omega

end term

end Verif.C13.SparseM
