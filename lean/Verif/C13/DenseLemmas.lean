import Verif.C13.LatLemmas
/-! Invariants of the dense solver's transition system (helper lemmas for Theorems.lean). -/
namespace Verif.C13.Dense

variable {L : Type}

/-- edges have their ends among the nodes. -/
def Graph.WF (G : Graph) : Prop := ∀ e, e < G.m → G.src e < G.n ∧ G.dst e < G.n

/-- States reachable from the initial state by processing queued nodes in any order. -/
inductive Reach (lat : Lat L) (G : Graph) (tr : Nat → L → L) (entry : Nat → L) : St L → Prop
  | init : Reach lat G tr entry (init lat G entry)
  | step {s : St L} {b : Nat} : Reach lat G tr entry s → s.q b = true →
      Reach lat G tr entry (process lat G tr s b)

theorem mem_inEdges {G : Graph} {b e : Nat} : e ∈ inEdges G b ↔ e < G.m ∧ G.dst e = b := by
  simp [inEdges, List.mem_filter, List.mem_range]

theorem mem_outEdges {G : Graph} {b e : Nat} : e ∈ outEdges G b ↔ e < G.m ∧ G.src e = b := by
  simp [outEdges, List.mem_filter, List.mem_range]

section
variable (lat : Lat L) (G : Graph) (tr : Nat → L → L)

theorem computeIn_nil (s : St L) (b : Nat) (h : inEdges G b = []) : computeIn lat G s b = s.inF b := by
  simp [computeIn, h]

theorem computeIn_cons (hl : lat.Laws) (s : St L) (b : Nat) (h : inEdges G b ≠ []) :
    computeIn lat G s b = joinL lat ((inEdges G b).map (edgeVal lat G s)) := by
  unfold computeIn
  cases hm : (inEdges G b).map (edgeVal lat G s) with
  | nil => simp at hm; exact absurd hm h
  | cons v vs => simp only []; exact hl.foldl_first v vs

theorem computeIn_congr (s s' : St L) (b : Nat)
    (he : ∀ e ∈ inEdges G b, edgeVal lat G s e = edgeVal lat G s' e)
    (hi : inEdges G b = [] → s.inF b = s'.inF b) : computeIn lat G s b = computeIn lat G s' b := by
  by_cases hn : inEdges G b = []
  · rw [computeIn_nil _ _ _ _ hn, computeIn_nil _ _ _ _ hn]; exact hi hn
  · unfold computeIn
    rw [List.map_congr_left he]
    cases hm : (inEdges G b).map (edgeVal lat G s') with
    | nil => simp at hm; exact absurd hm hn
    | cons v vs => rfl

theorem computeIn_mono (hl : lat.Laws) (s s' : St L) (b : Nat) (hn : inEdges G b ≠ [])
    (he : ∀ e ∈ inEdges G b, lat.le (edgeVal lat G s e) (edgeVal lat G s' e)) :
    lat.le (computeIn lat G s b) (computeIn lat G s' b) := by
  rw [computeIn_cons _ _ hl _ _ hn, computeIn_cons _ _ hl _ _ hn]
  exact hl.joinL_map_mono _ _ _ he

/-- the "no change to block input" shortcut is taken. -/
def Skip (s : St L) (b : Nat) : Prop :=
  s.dirty b = false ∧ lat.eq (computeIn lat G s b) (s.inF b) = true

instance (s : St L) (b : Nat) : Decidable (Skip lat G s b) := by unfold Skip; exact inferInstance

theorem process_skip (s : St L) (b : Nat) (h : Skip lat G s b) :
    process lat G tr s b = { s with q := fun x => s.q x && !(x == b) } := by
  unfold process
  simp [h.1, h.2]

theorem process_go (s : St L) (b : Nat) (h : ¬ Skip lat G s b) :
    process lat G tr s b =
      { inF := upd s.inF b (computeIn lat G s b)
        outF := fun e => if G.src e = b ∧ e < G.m ∧ changed lat tr s b (computeIn lat G s b) e = true
                  then tr e (computeIn lat G s b) else s.outF e
        dirty := upd s.dirty b false
        q := fun x => (s.q x && !(x == b)) ||
              (outEdges G b).any (fun e => G.dst e == x && changed lat tr s b (computeIn lat G s b) e) } := by
  unfold process
  have : (!s.dirty b && lat.eq (computeIn lat G s b) (s.inF b)) = false := by
    unfold Skip at h
    cases hd : s.dirty b <;> cases he : lat.eq (computeIn lat G s b) (s.inF b) <;> simp_all
  simp [this]

/-- in the non-skip case every out-edge of `b` carries `transfer (new in)` afterwards. -/
theorem outF_go_src (hl : lat.Laws) (s : St L) (b e : Nat) (h : ¬ Skip lat G s b) (he : e < G.m)
    (hs : G.src e = b) : (process lat G tr s b).outF e = tr e (computeIn lat G s b) := by
  rw [process_go _ _ _ _ _ h]
  simp only [hs, he, true_and]
  split
  · rfl
  · rename_i hc
    simp only [changed, Bool.or_eq_true, Bool.not_eq_true', not_or, Bool.not_eq_true] at hc
    exact (hl.eq_iff _ _).1 (by simpa using hc.2)

theorem outF_go_other (s : St L) (b e : Nat) (h : ¬ Skip lat G s b) (hs : G.src e ≠ b) :
    (process lat G tr s b).outF e = s.outF e := by
  rw [process_go _ _ _ _ _ h]
  simp [hs]

theorem inF_go (s : St L) (b x : Nat) (h : ¬ Skip lat G s b) :
    (process lat G tr s b).inF x = if x = b then computeIn lat G s b else s.inF x := by
  rw [process_go _ _ _ _ _ h]; rfl

theorem dirty_go (s : St L) (b x : Nat) (h : ¬ Skip lat G s b) :
    (process lat G tr s b).dirty x = if x = b then false else s.dirty x := by
  rw [process_go _ _ _ _ _ h]; rfl

theorem q_go_false (s : St L) (b x : Nat) (h : ¬ Skip lat G s b)
    (hq : (process lat G tr s b).q x = false) :
    (s.q x = false ∨ x = b) ∧
    ∀ e, e < G.m → G.src e = b → G.dst e = x →
      s.dirty b = false ∧ lat.eq (s.outF e) (tr e (computeIn lat G s b)) = true := by
  rw [process_go _ _ _ _ _ h] at hq
  simp only [Bool.or_eq_false_iff, List.any_eq_false, Bool.and_eq_true, beq_iff_eq, not_and,
    Bool.not_eq_true] at hq
  constructor
  · have := hq.1
    cases hsq : s.q x
    · exact Or.inl rfl
    · right
      simp [hsq] at this
      exact this
  · intro e he hs hd
    have := hq.2 e (mem_outEdges.2 ⟨he, hs⟩) hd
    simp only [changed, Bool.or_eq_false_iff, Bool.not_eq_false'] at this
    exact this

theorem q_go_true (s : St L) (b x : Nat) (h : ¬ Skip lat G s b)
    (hq : (process lat G tr s b).q x = true) :
    (s.q x = true ∧ x ≠ b) ∨ ∃ e, e < G.m ∧ G.src e = b ∧ G.dst e = x := by
  rw [process_go _ _ _ _ _ h] at hq
  simp only [Bool.or_eq_true, Bool.and_eq_true, Bool.not_eq_true', beq_eq_false_iff_ne, ne_eq,
    List.any_eq_true, beq_iff_eq] at hq
  rcases hq with h1 | ⟨e, he, hd, _⟩
  · exact Or.inl h1
  · exact Or.inr ⟨e, (mem_outEdges.1 he).1, (mem_outEdges.1 he).2, hd⟩

/-- `edgeVal` after a non-skip step. -/
theorem edgeVal_go (hl : lat.Laws) (s : St L) (b e : Nat) (h : ¬ Skip lat G s b) (he : e < G.m) :
    edgeVal lat G (process lat G tr s b) e =
      if G.src e = b then tr e (computeIn lat G s b) else edgeVal lat G s e := by
  unfold edgeVal
  rw [dirty_go _ _ _ _ _ _ h]
  by_cases hs : G.src e = b
  · simp only [hs, if_true]
    rw [outF_go_src _ _ _ hl _ _ _ h he hs]
    simp
  · simp only [hs, if_false]
    rw [outF_go_other _ _ _ _ _ _ h hs]

/-! ### the invariant used for the fixpoint theorem -/

structure Inv (entry : Nat → L) (s : St L) : Prop where
  q_lt : ∀ b, s.q b = true → b < G.n
  dirty_q : ∀ b, b < G.n → s.dirty b = true → s.q b = true
  j1 : ∀ e, e < G.m → s.dirty (G.src e) = false → s.outF e = tr e (s.inF (G.src e))
  j2 : ∀ b, b < G.n → s.q b = false → s.inF b = computeIn lat G s b
  j5 : ∀ b, b < G.n → inEdges G b = [] → s.inF b = entry b

theorem inv_init (entry : Nat → L) : Inv lat G tr entry (init lat G entry) := by
  refine ⟨?_, ?_, ?_, ?_, ?_⟩
  · intro b hb; simpa [init] using hb
  · intro b hb _; simpa [init] using hb
  · intro e _ hd; simp [init] at hd
  · intro b hb hq; simp [init, hb] at hq
  · intro b _ _; rfl

theorem inv_step (hl : lat.Laws) (hG : G.WF) (entry : Nat → L) (s : St L) (b : Nat)
    (hi : Inv lat G tr entry s) (hb : s.q b = true) : Inv lat G tr entry (process lat G tr s b) := by
  have hbn : b < G.n := hi.q_lt b hb
  by_cases hk : Skip lat G s b
  · -- nothing but the queue changes
    rw [process_skip _ _ _ _ _ hk]
    refine ⟨?_, ?_, hi.j1, ?_, hi.j5⟩
    · intro x hx
      simp only [Bool.and_eq_true] at hx
      exact hi.q_lt x hx.1
    · intro x hx hd
      have hne : x ≠ b := by
        intro h; subst h; rw [hk.1] at hd; cases hd
      simp [hi.dirty_q x hx hd, hne]
    · intro x hx hq
      simp only [Bool.and_eq_false_iff, Bool.not_eq_false', beq_iff_eq] at hq
      have hc : computeIn lat G { s with q := fun x => s.q x && !(x == b) } x = computeIn lat G s x := rfl
      show s.inF x = _
      rw [hc]
      rcases hq with hq | rfl
      · exact hi.j2 x hx hq
      · exact ((hl.eq_iff _ _).1 hk.2).symm
  · refine ⟨?_, ?_, ?_, ?_, ?_⟩
    · intro x hx
      rcases q_go_true _ _ _ _ _ _ hk hx with h1 | ⟨e, he, _, hd⟩
      · exact hi.q_lt x h1.1
      · rw [← hd]; exact (hG e he).2
    · intro x hx hd
      rw [dirty_go _ _ _ _ _ _ hk] at hd
      by_cases hxb : x = b
      · simp [hxb] at hd
      · simp only [hxb, if_false] at hd
        rw [process_go _ _ _ _ _ hk]
        simp [hi.dirty_q x hx hd, hxb]
    · intro e he hd
      rw [dirty_go _ _ _ _ _ _ hk] at hd
      rw [inF_go _ _ _ _ _ _ hk]
      by_cases hs : G.src e = b
      · simp only [hs, if_true]
        exact outF_go_src _ _ _ hl _ _ _ hk he hs
      · simp only [hs, if_false] at hd ⊢
        rw [outF_go_other _ _ _ _ _ _ hk hs]
        exact hi.j1 e he hd
    · intro x hx hq
      obtain ⟨hq1, hq2⟩ := q_go_false _ _ _ _ _ _ hk hq
      -- the facts read over the in-edges of `x` did not change
      have hev : ∀ e ∈ inEdges G x, edgeVal lat G s e = edgeVal lat G (process lat G tr s b) e := by
        intro e hm
        obtain ⟨he, hd⟩ := mem_inEdges.1 hm
        rw [edgeVal_go _ _ _ hl _ _ _ hk he]
        by_cases hs : G.src e = b
        · simp only [hs, if_true]
          obtain ⟨hdb, heq⟩ := hq2 e he hs hd
          unfold edgeVal
          rw [hs, hdb]
          simpa using (hl.eq_iff _ _).1 heq
        · simp [hs]
      rw [inF_go _ _ _ _ _ _ hk]
      by_cases hxb : x = b
      · subst hxb
        simp only [if_true]
        refine computeIn_congr _ _ _ _ _ hev (fun hn => ?_)
        rw [inF_go _ _ _ _ _ _ hk]
        simp only [if_true]
        exact (computeIn_nil _ _ _ _ hn).symm
      · simp only [hxb, if_false]
        have hqx : s.q x = false := by
          rcases hq1 with h | h
          · exact h
          · exact absurd h hxb
        rw [hi.j2 x hx hqx]
        exact computeIn_congr _ _ _ _ _ hev (fun _ => by rw [inF_go _ _ _ _ _ _ hk]; simp [hxb])
    · intro x hx hn
      rw [inF_go _ _ _ _ _ _ hk]
      by_cases hxb : x = b
      · subst hxb
        simp only [if_true]
        rw [computeIn_nil _ _ _ _ hn]; exact hi.j5 x hx hn
      · simp only [hxb, if_false]; exact hi.j5 x hx hn

theorem inv_reach (hl : lat.Laws) (hG : G.WF) (entry : Nat → L) (s : St L)
    (h : Reach lat G tr entry s) : Inv lat G tr entry s := by
  induction h with
  | init => exact inv_init _ _ _ _
  | step _ hq ih => exact inv_step _ _ _ hl hG _ _ _ ih hq

/-! ### ascending chain invariant (termination) and comparison with any solution (leastness) -/

/-- the transfer functions are monotone. -/
def Mono (tr : Nat → L → L) : Prop := ∀ e a b, lat.le a b → lat.le (tr e a) (tr e b)

/-- J4: a clean node's `in` is below what would be recomputed now. -/
def Asc (s : St L) : Prop :=
  ∀ b, b < G.n → s.dirty b = false → lat.le (s.inF b) (computeIn lat G s b)

/-- the facts read over edges only ascend in a step. -/
theorem edgeVal_asc (hl : lat.Laws) (hm : Mono lat tr) (entry : Nat → L) (s : St L) (b : Nat)
    (hi : Inv lat G tr entry s) (ha : Asc lat G s) (hb : s.q b = true) (hk : ¬ Skip lat G s b)
    (e : Nat) (he : e < G.m) :
    lat.le (edgeVal lat G s e) (edgeVal lat G (process lat G tr s b) e) := by
  rw [edgeVal_go _ _ _ hl _ _ _ hk he]
  by_cases hs : G.src e = b
  · simp only [hs, if_true]
    unfold edgeVal
    rw [hs]
    cases hd : s.dirty b
    · simp only [Bool.false_eq_true, if_false]
      have := hi.j1 e he (by rw [hs]; exact hd)
      rw [this, hs]
      exact hm e _ _ (ha b (hi.q_lt b hb) hd)
    · simp only [if_true]; exact hl.bot_le _
  · simp only [hs, if_false]; exact hl.le_refl _

theorem asc_init (entry : Nat → L) : Asc lat G (init lat G entry) := by
  intro b _ hd; simp [init] at hd

theorem asc_step (hl : lat.Laws) (hm : Mono lat tr) (entry : Nat → L) (s : St L) (b : Nat)
    (hi : Inv lat G tr entry s) (ha : Asc lat G s) (hb : s.q b = true) :
    Asc lat G (process lat G tr s b) := by
  by_cases hk : Skip lat G s b
  · rw [process_skip _ _ _ _ _ hk]; exact ha
  · intro x hx hd
    rw [dirty_go _ _ _ _ _ _ hk] at hd
    have hev : ∀ e ∈ inEdges G x,
        lat.le (edgeVal lat G s e) (edgeVal lat G (process lat G tr s b) e) :=
      fun e hm' => edgeVal_asc _ _ _ hl hm entry s b hi ha hb hk e (mem_inEdges.1 hm').1
    by_cases hn : inEdges G x = []
    · rw [computeIn_nil _ _ _ _ hn]; exact hl.le_refl _
    · rw [inF_go _ _ _ _ _ _ hk]
      by_cases hxb : x = b
      · simp only [hxb, if_true]
        rw [hxb] at hn hev
        exact computeIn_mono _ _ hl _ _ _ hn hev
      · simp only [hxb, if_false] at hd ⊢
        exact hl.le_trans (ha x hx hd) (computeIn_mono _ _ hl _ _ _ hn hev)

theorem asc_reach (hl : lat.Laws) (hG : G.WF) (hm : Mono lat tr) (entry : Nat → L) (s : St L)
    (h : Reach lat G tr entry s) : Asc lat G s := by
  induction h with
  | init => exact asc_init _ _ _
  | step hr hq ih => exact asc_step _ _ _ hl hm entry _ _ (inv_reach _ _ _ hl hG _ _ hr) ih hq

/-- `(I, O)` is a (pre-)solution of the dataflow equations: it is closed under the entry
facts, the merges and the transfers.  Every exact solution is one. -/
structure PreSol (entry : Nat → L) (I O : Nat → L) : Prop where
  entry_le : ∀ b, b < G.n → inEdges G b = [] → lat.le (entry b) (I b)
  merge_le : ∀ b, b < G.n → inEdges G b ≠ [] → lat.le (joinL lat ((inEdges G b).map O)) (I b)
  tr_le : ∀ e, e < G.m → lat.le (tr e (I (G.src e))) (O e)

/-- J3. -/
structure Below (I O : Nat → L) (s : St L) : Prop where
  out_le : ∀ e, e < G.m → lat.le (s.outF e) (O e)
  in_le : ∀ b, b < G.n → s.dirty b = false → lat.le (s.inF b) (I b)

theorem below_init (hl : lat.Laws) (entry I O : Nat → L) : Below lat G I O (init lat G entry) := by
  refine ⟨?_, ?_⟩
  · intro e _; exact hl.bot_le _
  · intro b _ hd; simp [init] at hd

theorem below_step (hl : lat.Laws) (hm : Mono lat tr) (entry I O : Nat → L)
    (hs : PreSol lat G tr entry I O) (s : St L) (b : Nat)
    (hi : Inv lat G tr entry s) (hbl : Below lat G I O s) (hb : s.q b = true) :
    Below lat G I O (process lat G tr s b) := by
  have hbn : b < G.n := hi.q_lt b hb
  by_cases hk : Skip lat G s b
  · rw [process_skip _ _ _ _ _ hk]; exact ⟨hbl.out_le, hbl.in_le⟩
  · -- the recomputed input of `b` is below `I b`
    have hin : lat.le (computeIn lat G s b) (I b) := by
      by_cases hn : inEdges G b = []
      · rw [computeIn_nil _ _ _ _ hn, hi.j5 b hbn hn]; exact hs.entry_le b hbn hn
      · rw [computeIn_cons _ _ hl _ _ hn]
        refine hl.le_trans (hl.joinL_map_mono _ _ O ?_) (hs.merge_le b hbn hn)
        intro e hm'
        unfold edgeVal
        split
        · exact hl.bot_le _
        · exact hbl.out_le e (mem_inEdges.1 hm').1
    refine ⟨?_, ?_⟩
    · intro e he
      by_cases hse : G.src e = b
      · rw [outF_go_src _ _ _ hl _ _ _ hk he hse]
        have := hs.tr_le e he
        rw [hse] at this
        exact hl.le_trans (hm e _ _ hin) this
      · rw [outF_go_other _ _ _ _ _ _ hk hse]; exact hbl.out_le e he
    · intro x hx hd
      rw [dirty_go _ _ _ _ _ _ hk] at hd
      rw [inF_go _ _ _ _ _ _ hk]
      by_cases hxb : x = b
      · simp only [hxb, if_true]; exact hin
      · simp only [hxb, if_false] at hd ⊢; exact hbl.in_le x hx hd

theorem below_reach (hl : lat.Laws) (hG : G.WF) (hm : Mono lat tr) (entry I O : Nat → L)
    (hs : PreSol lat G tr entry I O) (s : St L) (h : Reach lat G tr entry s) :
    Below lat G I O s := by
  induction h with
  | init => exact below_init _ _ hl _ _ _
  | step hr hq ih => exact below_step _ _ _ hl hm entry I O hs _ _ (inv_reach _ _ _ hl hG _ _ hr) ih hq

end

/-! ### termination measure -/
section term
variable (lat : Lat L) (G : Graph) (tr : Nat → L → L) (rank : L → Nat) (H : Nat)

def phi (s : St L) (x : Nat) : Nat := if s.dirty x then H + 1 else H - rank (s.inF x)

/-- lexicographic `(Σ φ, |Q|)` packed into one number. -/
def mu (s : St L) : Nat := sumTo (phi rank H s) G.n * (G.n + 1) + cnt s.q G.n

theorem mu_step (hl : lat.Laws) (hr : Ranked lat rank H) (entry : Nat → L) (s : St L) (b : Nat)
    (hi : Inv lat G tr entry s) (ha : Asc lat G s) (hb : s.q b = true) :
    mu G rank H (process lat G tr s b) < mu G rank H s := by
  have hbn : b < G.n := hi.q_lt b hb
  by_cases hk : Skip lat G s b
  · rw [process_skip _ _ _ _ _ hk]
    unfold mu
    have hc : cnt (fun x => s.q x && !(x == b)) G.n < cnt s.q G.n := by
      unfold cnt
      refine sumTo_lt G.n b hbn ?_ ?_
      · intro x _
        cases hq : s.q x <;> by_cases hxb : x = b <;> simp [hxb, hq]
      · simp [hb]
    have hp : phi rank H { s with q := fun x => s.q x && !(x == b) } = phi rank H s := rfl
    rw [hp]
    simp only
    omega
  · have hlt : phi rank H (process lat G tr s b) b < phi rank H s b := by
      unfold phi
      rw [dirty_go _ _ _ _ _ _ hk, inF_go _ _ _ _ _ _ hk]
      simp only [if_true, Bool.false_eq_true, if_false]
      cases hd : s.dirty b
      · simp only [Bool.false_eq_true, if_false]
        have hne : s.inF b ≠ computeIn lat G s b := by
          intro he
          apply hk
          exact ⟨hd, (hl.eq_iff _ _).2 he.symm⟩
        have h1 := hr.rank_lt _ _ (ha b hbn hd) hne
        have h2 := hr.rank_le (computeIn lat G s b)
        omega
      · simp only [if_true]; omega
    have hle : ∀ x, x < G.n → phi rank H (process lat G tr s b) x ≤ phi rank H s x := by
      intro x _
      by_cases hxb : x = b
      · subst hxb; exact Nat.le_of_lt hlt
      · unfold phi
        rw [dirty_go _ _ _ _ _ _ hk, inF_go _ _ _ _ _ _ hk]
        simp only [hxb, if_false]; exact Nat.le_refl _
    have hsum := sumTo_lt G.n b hbn hle hlt
    have hc := cnt_le (process lat G tr s b).q G.n
    unfold mu
    have h3 : (sumTo (phi rank H (process lat G tr s b)) G.n + 1) * (G.n + 1)
        ≤ sumTo (phi rank H s) G.n * (G.n + 1) := Nat.mul_le_mul_right _ hsum
    rw [Nat.add_mul] at h3
    omega

end term

end Verif.C13.Dense
