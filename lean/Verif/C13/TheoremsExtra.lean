import Verif.C13.Theorems
/-!
C13 — what `dense_least` depends on: the fact a *never visited* (dirty) predecessor
contributes to a merge must be the lattice's `Ident`.

`Dense.process` (Model.lean) reads `Ident` over an edge whose source is still dirty, and
`Dense.init` initialises every out fact with `Ident`, as forward.go does.  Here the same
loop body is parametrised by the placeholder `z` that stands for the out facts of a dirty
predecessor (`processP`, `initP`): with `z = Ident` it *is* the model
(`dense_placeholder_ident`); with any other `z` — e.g. the Go zero value of the fact type
when out facts are allocated with `make([]Fact, n)` and read without looking at `dirty` — the
solver still terminates in a solution of the equations, but not in the least one
(`dense_placeholder_must_be_ident`, an intersection lattice whose `Ident` is `true`, one node
with a self loop).  So the `Ident`-for-dirty-predecessor rule is not a redundant detail of
the model: leastness fails without it, on a lattice that satisfies every hypothesis.
-/
namespace Verif.C13

variable {L : Type}

namespace Dense

/-- `Forward`'s initialisation with every out fact set to `z`. -/
def initP (G : Graph) (entry : Nat → L) (z : L) : St L :=
  { inF := entry, outF := fun _ => z, dirty := fun _ => true, q := fun b => decide (b < G.n) }

/-- the fact read over a predecessor edge: `z` while the predecessor is dirty (its out facts
are still the ones `initP` wrote). -/
def edgeValP (z : L) (G : Graph) (s : St L) (e : Nat) : L :=
  if s.dirty (G.src e) then z else s.outF e

def computeInP (lat : Lat L) (z : L) (G : Graph) (s : St L) (b : Nat) : L :=
  match (inEdges G b).map (edgeValP z G s) with
  | [] => s.inF b
  | v :: vs => vs.foldl (mergeEq lat) v

/-- `Dense.process` with the placeholder `z` instead of `lat.bot`. -/
def processP (lat : Lat L) (z : L) (G : Graph) (tr : Nat → L → L) (s : St L) (b : Nat) : St L :=
  let inN := computeInP lat z G s b
  let q1 : Nat → Bool := fun x => s.q x && !(x == b)
  if !s.dirty b && lat.eq inN (s.inF b) then
    { s with q := q1 }
  else
    { inF := upd s.inF b inN
      outF := fun e => if G.src e = b ∧ e < G.m ∧ changed lat tr s b inN e = true then tr e inN else s.outF e
      dirty := upd s.dirty b false
      q := fun x => q1 x || (outEdges G b).any (fun e => G.dst e == x && changed lat tr s b inN e) }

end Dense

open Dense

/-- **dense_placeholder_ident.** With the placeholder `Ident` the parametrised loop body and
initial state are the model the dense theorems are about. -/
theorem dense_placeholder_ident (lat : Lat L) (G : Graph) (tr : Nat → L → L) (entry : Nat → L) :
    initP G entry lat.bot = init lat G entry ∧
    ∀ s b, processP lat lat.bot G tr s b = process lat G tr s b := by
  refine ⟨rfl, ?_⟩
  intro s b
  rfl

section example_placeholder
/-- one bit under intersection ("must"): `Ident` = `true`, which is not the zero value. -/
def exAnd : Lat Bool := { bot := true, merge := and, eq := fun a b => a == b }
/-- a single node with a self loop. -/
def loopG : Graph := { n := 1, m := 1, src := fun _ => 0, dst := fun _ => 0 }

theorem exAnd_laws : exAnd.Laws := ⟨by decide, by decide, by decide, by decide, by decide⟩
theorem loopG_wf : loopG.WF := by
  intro e _
  exact ⟨by simp [loopG], by simp [loopG]⟩
theorem idTr_mono : Mono exAnd (fun _ (x : Bool) => x) := fun _ _ _ h => h

/-- the all-`Ident` assignment solves the equations of the self loop (it is the least
solution, which `dense.Forward` must return). -/
theorem loop_presol : PreSol exAnd loopG (fun _ x => x) (fun _ => true) (fun _ => true) (fun _ => true) := by
  refine ⟨?_, ?_, ?_⟩
  · intro b _ _; exact exAnd_laws.le_refl _
  · intro b hb _
    have hb0 : b = 0 := by simp [loopG] at hb; omega
    subst hb0
    unfold Lat.le
    decide
  · intro e _; exact exAnd_laws.le_refl _

/-- **dense_placeholder_must_be_ident.** Over the lawful lattice `exAnd`, the graph `loopG`
(well-formed) and the identity transfer (monotone): the loop body with placeholder `false`
(the zero value of `bool`) empties the queue after two iterations in the state
`in = out = false` — a solution of the equations (`in 0 = ⨆[out 0]`, `out 0 = in 0`) that is
**not** below the solution `in = out = true`; with placeholder `Ident` (the model) the same
two iterations end in `in = out = true`. -/
theorem dense_placeholder_must_be_ident :
    let tr : Nat → Bool → Bool := fun _ x => x
    let bad := processP exAnd false loopG tr (processP exAnd false loopG tr (initP loopG (fun _ => true) false) 0) 0
    let good := process exAnd loopG tr (process exAnd loopG tr (init exAnd loopG (fun _ => true)) 0) 0
    (bad.q 0 = false ∧ bad.dirty 0 = false ∧
      bad.inF 0 = joinL exAnd ((inEdges loopG 0).map bad.outF) ∧ bad.outF 0 = tr 0 (bad.inF 0) ∧
      ¬ exAnd.le (bad.inF 0) true ∧ ¬ exAnd.le (bad.outF 0) true) ∧
    (good.q 0 = false ∧ good.inF 0 = true ∧ good.outF 0 = true) := by
  unfold Lat.le
  decide

theorem exAnd_ranked : Ranked exAnd (fun b => if b then 0 else 1) 1 :=
  ⟨by decide, by intro a b; cases a <;> cases b <;> simp [Lat.le, exAnd]⟩

/-- … although all hypotheses of `dense_least` / `dense_forward_least_fixpoint` hold for this
instance: the theorem applies to the model's run and gives `in 0 ⊑ true` (non-vacuity of the
comparison). -/
example :
    let s := (run exAnd loopG (fun _ x => x) (fun _ _ => 0) 10 0 (init exAnd loopG (fun _ => true))).1
    exAnd.le (s.inF 0) true :=
  ((dense_forward_least_fixpoint exAnd exAnd_laws loopG loopG_wf _ idTr_mono (fun _ => true) _ 1
    exAnd_ranked (fun _ _ => 0) 10 (by decide)).2.2.2 _ _ loop_presol).1 0 (by decide)

end example_placeholder

end Verif.C13
