import Verif.C13.Generated
/-!
C13 — models of the two dataflow solvers of `analysis/dfa` and of the lattices.

* `Lat L`            — `dfa.Semilattice[L]`: `Ident`, `Merge`, `Equals`.
* `Dense.*`          — `dense.Forward` / `fwdBuilder.propagate` (forward.go) as a transition
                        system: state `(in, out per edge, dirty, queue)`; the queue is a *set*
                        (`Nat → Bool`) from which any member may be taken.  The real code takes
                        the member with the least reverse-postorder priority (`nodeHeap`); that
                        is one admissible schedule.
* `Sparse.*`         — `sparse.Instance.Forward` (dfa.go): worklist as a set, phi = fold of
                        `Merge` from `Ident`, re-enqueue of `instr.Referrers()` on change.
* `mapMerge`/`mapEquals`, `dmMerge`/`dmEquals` — `dfa.MapLattice`, `dfa.DenseMapLattice`.
* `nilMerge`         — `nilness.lattice.Merge` over the table regenerated from the Go source
                        (`Verif.C13.Generated.nilMergeTable`).

Core Lean only (this file is compiled into `c13driver`).
-/
namespace Verif.C13

/-- `dfa.Semilattice[L]`. `eq` models `Equals`. -/
structure Lat (L : Type) where
  bot : L
  merge : L → L → L
  eq : L → L → Bool

def upd {α : Type} (f : Nat → α) (i : Nat) (v : α) : Nat → α :=
  fun j => if j = i then v else f j

/-- `f` on `0..a.size-1` read from the table `a`, `f` itself elsewhere. Used only to keep
the executable runs fast (`tabulate … = f`, LatLemmas.lean): states are functions, and
without it every solver iteration would add a closure layer to each lookup. -/
@[noinline] def lookupTab {α : Type} (a : Array α) (f : Nat → α) (v : Nat) : α :=
  if h : v < a.size then a[v] else f v

/-- the table of `f` on `0..N-1`. -/
def tab {α : Type} (N : Nat) (f : Nat → α) : Array α := Array.ofFn (n := N) (fun i => f i.val)

/-- `tabulate N f = f` (LatLemmas.lean).  NB for the executable: `tabulate N f` alone is a
partial application and would rebuild the table at every lookup (exponential over the
iterations); `reify` below therefore binds the tables with `let` before building the state. -/
def tabulate {α : Type} (N : Nat) (f : Nat → α) : Nat → α :=
  lookupTab (tab N f) f

/-! ## dense solver (forward.go) -/
namespace Dense

/-- A compact flow graph: nodes `0..n-1`, edges `0..m-1` with `src`/`dst`.  Edge indices
enumerate the out-edges node by node (`for ni := range nNodes { for succ := range Out(ni)`),
parallel edges and self loops allowed. -/
structure Graph where
  n : Nat
  m : Nat
  src : Nat → Nat
  dst : Nat → Nat

/-- `blockInfo.preds` of node `b` as edge indices (same order as the Go code builds them). -/
def inEdges (G : Graph) (b : Nat) : List Nat :=
  (List.range G.m).filter (fun e => G.dst e == b)

/-- out-edges of `b` (`cfg.Out(b)` with the running index `i`). -/
def outEdges (G : Graph) (b : Nat) : List Nat :=
  (List.range G.m).filter (fun e => G.src e == b)

/-- `fwdBuilder.blocks` + `fwdBuilder.queue` (`inQueue` bitmap). -/
structure St (L : Type) where
  inF : Nat → L        -- blockInfo.in
  outF : Nat → L       -- blockInfo.out[i], by global edge index
  dirty : Nat → Bool   -- blockInfo.dirty
  q : Nat → Bool       -- nodeHeap.inQueue

/-- State after the initialisation loop of `Forward`: `in` = entry fact or `Ident`, all
`out` = `Ident`, every node dirty and enqueued. -/
def init {L : Type} (lat : Lat L) (G : Graph) (entry : Nat → L) : St L :=
  { inF := entry, outF := fun _ => lat.bot, dirty := fun _ => true, q := fun b => decide (b < G.n) }

/-- `fwdBuilder.merge`: the `Equals` shortcut. -/
def mergeEq {L : Type} (lat : Lat L) (a b : L) : L :=
  if lat.eq a b then a else lat.merge a b

/-- the fact read from a predecessor edge: `Ident` while the predecessor is dirty. -/
def edgeVal {L : Type} (lat : Lat L) (G : Graph) (s : St L) (e : Nat) : L :=
  if s.dirty (G.src e) then lat.bot else s.outF e

/-- the loop over `block.preds` in `propagate`: first predecessor assigned, the others
merged with `fb.merge`; no predecessors: the block keeps its `in`. -/
def computeIn {L : Type} (lat : Lat L) (G : Graph) (s : St L) (b : Nat) : L :=
  match (inEdges G b).map (edgeVal lat G s) with
  | [] => s.inF b
  | v :: vs => vs.foldl (mergeEq lat) v

/-- does the transfer loop store a new fact on out-edge `e` of `b` (and enqueue `dst e`)? -/
def changed {L : Type} (lat : Lat L) (tr : Nat → L → L) (s : St L) (b : Nat) (inN : L) (e : Nat) : Bool :=
  s.dirty b || !lat.eq (s.outF e) (tr e inN)

/-- One iteration of the `for fb.queue.Len() > 0` loop for the dequeued node `b`. -/
def process {L : Type} (lat : Lat L) (G : Graph) (tr : Nat → L → L) (s : St L) (b : Nat) : St L :=
  let inN := computeIn lat G s b
  let q1 : Nat → Bool := fun x => s.q x && !(x == b)
  if !s.dirty b && lat.eq inN (s.inF b) then
    { s with q := q1 }
  else
    { inF := upd s.inF b inN
      outF := fun e => if G.src e = b ∧ e < G.m ∧ changed lat tr s b inN e = true then tr e inN else s.outF e
      dirty := upd s.dirty b false
      q := fun x => q1 x || (outEdges G b).any (fun e => G.dst e == x && changed lat tr s b inN e) }

/-- queued nodes, ascending. -/
def queued {L : Type} (G : Graph) (s : St L) : List Nat :=
  (List.range G.n).filter s.q

/-- the same state with its functions tabulated (`reify G s = s`). -/
def reify {L : Type} (G : Graph) (s : St L) : St L :=
  let a1 := tab G.n s.inF
  let a2 := tab G.m s.outF
  let a3 := tab G.n s.dirty
  let a4 := tab G.n s.q
  { inF := lookupTab a1 s.inF, outF := lookupTab a2 s.outF,
    dirty := lookupTab a3 s.dirty, q := lookupTab a4 s.q }

/-- Run with a schedule `pick` (chooses a position in the non-empty list of queued nodes;
taken modulo its length) until the queue is empty or the fuel runs out.  Returns the state
and the number of iterations. -/
def run {L : Type} (lat : Lat L) (G : Graph) (tr : Nat → L → L) (pick : Nat → List Nat → Nat) :
    Nat → Nat → St L → St L × Nat
  | 0, k, s => (s, k)
  | fuel + 1, k, s =>
    match queued G s with
    | [] => (s, k)
    | x :: xs =>
      let l := x :: xs
      let b := l.getD (pick k l % l.length) x
      run lat G tr pick fuel (k + 1) (reify G (process lat G tr s b))

end Dense

/-! ## sparse solver (sparse/dfa.go) -/
namespace Sparse

inductive Kind where
  | phi    -- *ir.Phi: handled by the framework
  | op     -- instruction with a value, handled by `Transfer`, which returns one mapping for it
  | none   -- `Transfer` returns no mapping (Jump, If, Return, Store, …)
  deriving DecidableEq, Repr

/-- The instructions `0..n-1` of a function; instruction `i` defines value `i`; value
numbers `≥ n` are non-instruction values (parameters, constants, …) whose state is never
written by `Forward`. `ops` = `Operands` (phi: `Edges`), `refs` = `*instr.Referrers()`. -/
structure Prog (L : Type) where
  n : Nat
  kind : Nat → Kind
  ops : Nat → List Nat
  refs : Nat → List Nat
  tr : Nat → (Nat → L) → L

structure St (L : Type) where
  val : Nat → L      -- Instance.Value (Mapping with Ident default)
  w : Nat → Bool     -- worklist

def init {L : Type} (P : Prog L) (val0 : Nat → L) : St L :=
  { val := val0, w := fun i => decide (i < P.n) }

/-- the state the loop body computes for instruction `i`. -/
def newVal {L : Type} (lat : Lat L) (P : Prog L) (val : Nat → L) (i : Nat) : L :=
  match P.kind i with
  | .phi => (P.ops i).foldl (fun d v => lat.merge d (val v)) lat.bot
  | _ => P.tr i val

/-- One iteration of `for len(worklist) > 0` for the removed instruction `i`. -/
def process {L : Type} (lat : Lat L) (P : Prog L) (s : St L) (i : Nat) : St L :=
  let w1 : Nat → Bool := fun x => s.w x && !(x == i)
  match P.kind i with
  | .none => { s with w := w1 }
  | _ =>
    let d := newVal lat P s.val i
    if lat.eq d (s.val i) then { s with w := w1 }
    else { val := upd s.val i d, w := fun x => w1 x || (P.refs i).contains x }

def queued {L : Type} (P : Prog L) (s : St L) : List Nat :=
  (List.range P.n).filter s.w

/-- the same state with its functions tabulated over the first `nv` values. -/
def reify {L : Type} (P : Prog L) (nv : Nat) (s : St L) : St L :=
  let a1 := tab nv s.val
  let a2 := tab P.n s.w
  { val := lookupTab a1 s.val, w := lookupTab a2 s.w }

def run {L : Type} (lat : Lat L) (P : Prog L) (nv : Nat) (pick : Nat → List Nat → Nat) :
    Nat → Nat → St L → St L × Nat
  | 0, k, s => (s, k)
  | fuel + 1, k, s =>
    match queued P s with
    | [] => (s, k)
    | x :: xs =>
      let l := x :: xs
      let i := l.getD (pick k l % l.length) x
      run lat P nv pick fuel (k + 1) (reify P nv (process lat P s i))

end Sparse

/-! ## sparse solver with multi-mapping transfers (sparse/dfa.go, what `sparse.Ms` is for) -/
namespace SparseM

/-- The instructions `0..n-1` of a function (instruction `i`, if it defines a value, defines
value `i`; other values have numbers `≥ n`).  `Transfer` returns a *list* of mappings
`(value, state)` — for any values, in any order, possibly none — exactly as the Go API
allows; for a phi the framework itself builds the single mapping `phi ↦ ⨆ Edges`. -/
structure Prog (L : Type) where
  n : Nat
  isPhi : Nat → Bool
  edges : Nat → List Nat                     -- phi.Edges
  refs : Nat → List Nat                      -- *instr.Referrers()
  tr : Nat → (Nat → L) → List (Nat × L)      -- Instance.Transfer (never called for a phi)

def init {L : Type} (P : Prog L) (val0 : Nat → L) : Sparse.St L :=
  { val := val0, w := fun i => decide (i < P.n) }

/-- `ds` of the loop body: the phi mapping or the result of `Transfer`. -/
def mappings {L : Type} (lat : Lat L) (P : Prog L) (val : Nat → L) (i : Nat) : List (Nat × L) :=
  if P.isPhi i then [(i, (P.edges i).foldl (fun d v => lat.merge d (val v)) lat.bot)]
  else P.tr i val

/-- body of `for _, d := range ds`: `old := ins.Value(d.Value)` is read from the mapping as
updated by the earlier iterations; a changed state is stored and the referrers of the
*instruction* are (re-)enqueued — modelled by the flag, which is therefore OR-ed. -/
def storeStep {L : Type} (lat : Lat L) (acc : (Nat → L) × Bool) (d : Nat × L) : (Nat → L) × Bool :=
  if lat.eq d.2 (acc.1 d.1) then acc else (upd acc.1 d.1 d.2, true)

def store {L : Type} (lat : Lat L) (val : Nat → L) (ds : List (Nat × L)) : (Nat → L) × Bool :=
  ds.foldl (storeStep lat) (val, false)

/-- One iteration of `for len(worklist) > 0` for the removed instruction `i`. -/
def process {L : Type} (lat : Lat L) (P : Prog L) (s : Sparse.St L) (i : Nat) : Sparse.St L :=
  let r := store lat s.val (mappings lat P s.val i)
  let w1 : Nat → Bool := fun x => s.w x && !(x == i)
  { val := r.1, w := if r.2 then (fun x => w1 x || (P.refs i).contains x) else w1 }

def queued {L : Type} (P : Prog L) (s : Sparse.St L) : List Nat :=
  (List.range P.n).filter s.w

def reify {L : Type} (P : Prog L) (nv : Nat) (s : Sparse.St L) : Sparse.St L :=
  let a1 := tab nv s.val
  let a2 := tab P.n s.w
  { val := lookupTab a1 s.val, w := lookupTab a2 s.w }

def run {L : Type} (lat : Lat L) (P : Prog L) (nv : Nat) (pick : Nat → List Nat → Nat) :
    Nat → Nat → Sparse.St L → Sparse.St L × Nat
  | 0, k, s => (s, k)
  | fuel + 1, k, s =>
    match queued P s with
    | [] => (s, k)
    | x :: xs =>
      let l := x :: xs
      let i := l.getD (pick k l % l.length) x
      run lat P nv pick fuel (k + 1) (reify P nv (process lat P s i))

end SparseM

/-! ## lattices -/

/-- `lattice.Merge` of nilness.go on one component: `latticeMerge[a][b]`; indices outside
the table do not occur (Go would panic) and read as 0. -/
def nilMerge (a b : Nat) : Nat :=
  (Generated.nilMergeTable.getD a []).getD b 0

/-- A `map[Key]Elem` with `Key = Nat`: association list with pairwise distinct keys
(iteration order = list order, which the Go code must not and does not depend on). -/
abbrev GoMap (E : Type) := List (Nat × E)

def mlookup {E : Type} (a : GoMap E) (k : Nat) : Option E :=
  match a with
  | [] => none
  | (k', v) :: r => if k' = k then some v else mlookup r k

/-- `MapLattice.Equals` = `maps.EqualFunc(a, b, l.Equals)`: equal lengths and every key of
`a` present in `b` with an `Equals` value. -/
def mapEquals {E : Type} (el : Lat E) (a b : GoMap E) : Bool :=
  a.length == b.length &&
  a.all (fun kv => match mlookup b kv.1 with | some bv => el.eq kv.2 bv | none => false)

/-- body of `for k, av := range a` in `MapLattice.Merge`: the entry written to `out`. -/
def mergeEntry {E : Type} (el : Lat E) (b : GoMap E) (kv : Nat × E) : Nat × E :=
  match mlookup b kv.1 with
  | none => kv
  | some bv => (kv.1, el.merge kv.2 bv)

/-- `MapLattice.Merge`. The panic branch is reported by `mapMergePanics`. -/
def mapMerge {E : Type} (el : Lat E) (a b : GoMap E) : GoMap E :=
  if a.length == 0 then b
  else if b.length == 0 then a
  else a.map (mergeEntry el b) ++ b.filter (fun kv => (mlookup a kv.1).isNone)

/-- would `MapLattice.Merge` panic ("is not a semilattice")? -/
def mapMergePanics {E : Type} (el : Lat E) (a b : GoMap E) : Bool :=
  if a.length == 0 then false
  else if b.length == 0 then false
  else a.any (fun kv => match mlookup b kv.1 with
      | none => false
      | some bv => el.eq (el.merge kv.2 bv) el.bot)

def mapLat {E : Type} (el : Lat E) : Lat (GoMap E) :=
  { bot := [], merge := mapMerge el, eq := mapEquals el }

/-- `DenseMapLattice.Equals`: equal on the common prefix, the longer tail all `Ident`. -/
def dmEquals {E : Type} (el : Lat E) : List E → List E → Bool
  | [], b => b.all (fun e => el.eq e el.bot)
  | a, [] => a.all (fun e => el.eq e el.bot)
  | x :: a, y :: b => el.eq x y && dmEquals el a b

/-- the `out[k] = Merge(av, bv)` loop of `DenseMapLattice.Merge` (missing = `Ident`). -/
def dmZip {E : Type} (el : Lat E) : List E → List E → List E
  | [], b => b.map (fun y => el.merge el.bot y)
  | a, [] => a.map (fun x => el.merge x el.bot)
  | x :: a, y :: b => el.merge x y :: dmZip el a b

/-- `DenseMapLattice.Merge`. -/
def dmMerge {E : Type} (el : Lat E) (a b : List E) : List E :=
  if a.length == 0 then b
  else if b.length == 0 then a
  else dmZip el a b

def dmLat {E : Type} (el : Lat E) : Lat (List E) :=
  { bot := [], merge := dmMerge el, eq := dmEquals el }

/-! ## concrete element lattices used by the driver (codes are `Nat`) -/

/-- bit, union. -/
def orLat : Lat Nat := { bot := 0, merge := fun a b => if a = 0 then b else a, eq := fun a b => a == b }
/-- bit, intersection (`Ident` = 1). -/
def andLat : Lat Nat := { bot := 1, merge := fun a b => if a = 1 then b else a, eq := fun a b => a == b }
/-- product of a "must" bit (intersection) and a "may" bit (union): code `2*must + may`,
`Ident` = 2 (must = 1, may = 0). -/
def aoLat : Lat Nat :=
  { bot := 2
    merge := fun a b => 2 * (if a / 2 = 1 ∧ b / 2 = 1 then 1 else 0) + (if a % 2 = 1 ∨ b % 2 = 1 then 1 else 0)
    eq := fun a b => a == b }
/-- flat constant-propagation lattice: 0 = ⊥ (`Ident`), 1 = ⊤, `c+2` = constant `c`. -/
def flatLat : Lat Nat :=
  { bot := 0
    merge := fun a b => if a = 0 then b else if b = 0 then a else if a = b then a else 1
    eq := fun a b => a == b }
/-- one nilness component, real table. -/
def nil5Lat : Lat Nat := { bot := 0, merge := nilMerge, eq := fun a b => a == b }
/-- `ValueNilness{Inner, Outer}` coded as `5*Inner + Outer`. -/
def nilPairLat : Lat Nat :=
  { bot := 0
    merge := fun a b => 5 * nilMerge (a / 5) (b / 5) + nilMerge (a % 5) (b % 5)
    eq := fun a b => a == b }
/-- bitset of any width, union. -/
def bitsLat : Lat Nat := { bot := 0, merge := fun a b => a ||| b, eq := fun a b => a == b }

/-- bitset of width `w`, intersection (`Ident` = the full set `2^w - 1`). -/
def andBitsLat (w : Nat) : Lat Nat := { bot := 2 ^ w - 1, merge := fun a b => a &&& b, eq := fun a b => a == b }

/-- vectors of a fixed width `k` (the canonical form of a dense-map / map fact over `k`
variables): pointwise merge. -/
def vecLat (el : Lat Nat) (k : Nat) : Lat (List Nat) :=
  { bot := List.replicate k el.bot
    merge := fun a b => List.zipWith el.merge a b
    eq := fun a b => a == b }

end Verif.C13
