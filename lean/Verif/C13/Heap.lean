import Verif.C13.Theorems
/-!
C13 — the real work queue of `dense.Forward`: `nodeHeap` (forward.go) = a binary heap
(`container/heap`: `up`, `down`, `Push`, `Pop`) ordered by a priority table, plus the
`inQueue` bitmap of 64-bit words that keeps a node from being queued twice.

The dense theorems of Theorems.lean treat the queue as a *set* from which any member may be
taken.  This file models the concrete queue (array heap, bitmap words, `enqueue`/`dequeue`
as written in forward.go, `heap.Push`/`heap.Pop` as written in container/heap), proves that
it implements that set — `enqueue` adds the node, `dequeue` removes and returns a member, no
node is lost or duplicated, for every priority table and any number of nodes/words — and
that the solver loop driven by it (`runH`) is a run of the abstract transition system, so it
terminates with the least fixpoint (`dense_forward_heap_least_fixpoint`).  Priorities only
influence *which* member is taken: `graph.ReversePostorder` needs no correctness proof.
-/
namespace Verif.C13.Dense

/-! ## model -/

/-- `container/heap.up(h, j)` with `Less(i,j) = prio[heap[i]] < prio[heap[j]]`.  The loop runs
at most `j+1` times (`j` strictly decreases); `fuel` bounds it. -/
def hUp (prio : Nat → Nat) : Nat → Array Nat → Nat → Array Nat
  | 0, a, _ => a
  | f + 1, a, j =>
    let i := (j - 1) / 2   -- parent (Go: `(j-1)/2` truncates to 0 for `j = 0`)
    if i = j ∨ ¬ (prio (a.getD j 0) < prio (a.getD i 0)) then a
    else hUp prio f (a.swapIfInBounds i j) i

/-- the child `down` compares with: `j := j1; if j2 := j1+1; j2 < n && Less(j2, j1) { j = j2 }`. -/
def hChild (prio : Nat → Nat) (n : Nat) (a : Array Nat) (i : Nat) : Nat :=
  if 2 * i + 1 + 1 < n ∧ prio (a.getD (2 * i + 1 + 1) 0) < prio (a.getD (2 * i + 1) 0) then 2 * i + 1 + 1
  else 2 * i + 1

/-- `container/heap.down(h, i0, n)`. -/
def hDown (prio : Nat → Nat) (n : Nat) : Nat → Array Nat → Nat → Array Nat
  | 0, a, _ => a
  | f + 1, a, i =>
    if n ≤ 2 * i + 1 then a
    else if prio (a.getD (hChild prio n a i) 0) < prio (a.getD i 0) then
      hDown prio n f (a.swapIfInBounds i (hChild prio n a i)) (hChild prio n a i)
    else a

/-- `heap.Push(h, x)`: `h.Push(x); up(h, h.Len()-1)`. -/
def hPush (prio : Nat → Nat) (a : Array Nat) (x : Nat) : Array Nat :=
  hUp prio (a.size + 1) (a.push x) a.size

/-- `heap.Pop(h)`: `n := h.Len()-1; h.Swap(0, n); down(h, 0, n); h.Pop()` (the array after it). -/
def hPop (prio : Nat → Nat) (a : Array Nat) : Array Nat :=
  (hDown prio (a.size - 1) a.size (a.swapIfInBounds 0 (a.size - 1)) 0).pop

/-- `nodeHeap`: `heap []int`, `inQueue []int64` (bitmap over node ids). -/
structure NodeHeap where
  heap : Array Nat
  inQueue : Array Nat

/-- `h.inQueue[nid/64] & (1<<(nid%64)) != 0`. -/
def testQ (w : Array Nat) (nid : Nat) : Bool := (w.getD (nid / 64) 0).testBit (nid % 64)
/-- `h.inQueue[nid/64] |= 1 << (nid % 64)`. -/
def setQ (w : Array Nat) (nid : Nat) : Array Nat :=
  w.setIfInBounds (nid / 64) (w.getD (nid / 64) 0 ||| 1 <<< (nid % 64))
/-- `h.inQueue[nid/64] &^= 1 << (nid % 64)` on 64-bit words. -/
def clearQ (w : Array Nat) (nid : Nat) : Array Nat :=
  w.setIfInBounds (nid / 64) (w.getD (nid / 64) 0 &&& ((2 ^ 64 - 1) ^^^ 1 <<< (nid % 64)))

/-- `nodeHeap.init`: empty heap, `(nNodes+63)/64` zero words. -/
def NodeHeap.empty (n : Nat) : NodeHeap := { heap := #[], inQueue := Array.replicate ((n + 63) / 64) 0 }

def NodeHeap.enqueue (prio : Nat → Nat) (h : NodeHeap) (nid : Nat) : NodeHeap :=
  if testQ h.inQueue nid then h
  else { heap := hPush prio h.heap nid, inQueue := setQ h.inQueue nid }

/-- `nid := h.heap[0]; heap.Pop(h); clear bit; return nid`. -/
def NodeHeap.dequeue (prio : Nat → Nat) (h : NodeHeap) : Nat × NodeHeap :=
  let nid := h.heap.getD 0 0
  (nid, { heap := hPop prio h.heap, inQueue := clearQ h.inQueue nid })

/-! ## arrays: the heap operations permute the array -/

theorem swapIIB_perm (a : Array Nat) (i j : Nat) : (a.swapIfInBounds i j).Perm a := by
  rw [Array.swapIfInBounds_def]
  split
  · split
    · exact Array.swap_perm _ _
    · exact Array.Perm.refl _
  · exact Array.Perm.refl _

theorem hUp_perm (prio : Nat → Nat) (f : Nat) (a : Array Nat) (j : Nat) : (hUp prio f a j).Perm a := by
  induction f generalizing a j with
  | zero => exact Array.Perm.refl _
  | succ f ih =>
    unfold hUp
    simp only []
    split
    · exact Array.Perm.refl _
    · exact (ih _ _).trans (swapIIB_perm _ _ _)

theorem hDown_perm (prio : Nat → Nat) (n f : Nat) (a : Array Nat) (i : Nat) : (hDown prio n f a i).Perm a := by
  induction f generalizing a i with
  | zero => exact Array.Perm.refl _
  | succ f ih =>
    unfold hDown
    split
    · exact Array.Perm.refl _
    · split
      · exact (ih _ _).trans (swapIIB_perm _ _ _)
      · exact Array.Perm.refl _

theorem hChild_bounds (prio : Nat → Nat) (n : Nat) (a : Array Nat) (i : Nat) (h : ¬ n ≤ 2 * i + 1) :
    i < hChild prio n a i ∧ hChild prio n a i < n := by
  unfold hChild
  split
  · rename_i hc; omega
  · omega

theorem getD_swapIIB_ne (a : Array Nat) (i j k : Nat) (hi : k ≠ i) (hj : k ≠ j) :
    (a.swapIfInBounds i j).getD k 0 = a.getD k 0 := by
  simp only [Array.getD_eq_getD_getElem?]
  by_cases hk : k < a.size
  · have hk' : k < (a.swapIfInBounds i j).size := by simpa using hk
    rw [Array.getElem?_eq_getElem hk', Array.getElem?_eq_getElem hk,
      Array.getElem_swapIfInBounds_of_ne_of_ne hi hj]
  · have hk' : ¬ k < (a.swapIfInBounds i j).size := by simpa using hk
    rw [Array.getElem?_eq_none (by omega), Array.getElem?_eq_none (by omega)]

/-- `down(h, i, n)` never touches index `n` (nor anything beyond). -/
theorem hDown_getD (prio : Nat → Nat) (n f : Nat) (a : Array Nat) (i : Nat) :
    (hDown prio n f a i).getD n 0 = a.getD n 0 := by
  induction f generalizing a i with
  | zero => rfl
  | succ f ih =>
    unfold hDown
    split
    · rfl
    · rename_i hj1
      have hb := hChild_bounds prio n a i hj1
      split
      · rw [ih _ _, getD_swapIIB_ne _ _ _ _ (by omega) (by omega)]
      · rfl

theorem getD_swap_last (a : Array Nat) (h : 0 < a.size) :
    (a.swapIfInBounds 0 (a.size - 1)).getD (a.size - 1) 0 = a.getD 0 0 := by
  simp only [Array.getD_eq_getD_getElem?]
  have h1 : a.size - 1 < (a.swapIfInBounds 0 (a.size - 1)).size := by simp; omega
  rw [Array.getElem?_eq_getElem h1, Array.getElem?_eq_getElem h]
  simp only [Option.getD_some]
  rw [Array.getElem_swapIfInBounds_right h]

/-- an array is its `pop` followed by its last element. -/
theorem toList_pop_append (b : Array Nat) (h : 0 < b.size) :
    b.toList = b.pop.toList ++ [b.getD (b.size - 1) 0] := by
  have hne : b.toList ≠ [] := by
    intro he
    have h0 : b.toList.length = 0 := by rw [he]; rfl
    rw [Array.length_toList] at h0
    omega
  have hlast : b.toList.getLast hne = b.getD (b.size - 1) 0 := by
    rw [List.getLast_eq_getElem]
    simp only [Array.getD_eq_getD_getElem?, Array.length_toList]
    rw [Array.getElem?_eq_getElem (by omega)]
    simp
  rw [Array.toList_pop, ← hlast, List.dropLast_concat_getLast]

/-! ## bitmap words -/

theorem testBit_setbit (w k j : Nat) : (w ||| 1 <<< k).testBit j = (w.testBit j || decide (k = j)) := by
  simp [Nat.testBit_or, Nat.one_shiftLeft, Nat.testBit_two_pow]

theorem testBit_clearbit (w k j : Nat) (hj : j < 64) :
    (w &&& ((2 ^ 64 - 1) ^^^ 1 <<< k)).testBit j = (w.testBit j && !decide (k = j)) := by
  have hm : (2 ^ 64 - 1 : Nat).testBit j = true := by
    rw [Nat.testBit_two_pow_sub_one]; simp [hj]
  rw [Nat.testBit_and, Nat.testBit_xor, hm, Nat.one_shiftLeft, Nat.testBit_two_pow]
  simp

theorem getD_setIIB (w : Array Nat) (i j v : Nat) :
    (w.setIfInBounds i v).getD j 0 = if i = j ∧ i < w.size then v else w.getD j 0 := by
  simp only [Array.getD_eq_getD_getElem?, Array.getElem?_setIfInBounds]
  by_cases hij : i = j
  · subst hij
    by_cases hi : i < w.size
    · simp [hi]
    · simp [hi]
  · simp [hij]

theorem testQ_setQ (w : Array Nat) (x y : Nat) (hx : x / 64 < w.size) :
    testQ (setQ w x) y = (testQ w y || decide (y = x)) := by
  unfold testQ setQ
  rw [getD_setIIB]
  by_cases hq : x / 64 = y / 64
  · simp only [hq, true_and]
    rw [if_pos (by omega), ← hq, testBit_setbit]
    congr 1
    simp only [decide_eq_decide]
    omega
  · simp only [hq, false_and, if_false]
    have : y ≠ x := fun h => hq (by rw [h])
    simp [this]

theorem testQ_clearQ (w : Array Nat) (x y : Nat) (hx : x / 64 < w.size) :
    testQ (clearQ w x) y = (testQ w y && !decide (y = x)) := by
  unfold testQ clearQ
  rw [getD_setIIB]
  by_cases hq : x / 64 = y / 64
  · simp only [hq, true_and]
    rw [if_pos (by omega), ← hq, testBit_clearbit _ _ _ (Nat.mod_lt _ (by decide))]
    congr 2
    simp only [decide_eq_decide]
    omega
  · simp only [hq, false_and, if_false]
    have : y ≠ x := fun h => hq (by rw [h])
    simp [this]

/-! ## the queue implements a set -/

/-- representation invariant of `nodeHeap` for a graph with `n` nodes. -/
structure HInv (n : Nat) (h : NodeHeap) : Prop where
  words : h.inQueue.size = (n + 63) / 64
  nodup : h.heap.toList.Nodup
  lt : ∀ x, x ∈ h.heap.toList → x < n
  mem_iff : ∀ x, x < n → (testQ h.inQueue x = true ↔ x ∈ h.heap.toList)

theorem word_lt {n x : Nat} (h : x < n) : x / 64 < (n + 63) / 64 := by omega

theorem hinv_empty (n : Nat) : HInv n (NodeHeap.empty n) := by
  refine ⟨by simp [NodeHeap.empty], by simp [NodeHeap.empty], by simp [NodeHeap.empty], ?_⟩
  intro x hx
  have : testQ (NodeHeap.empty n).inQueue x = false := by
    unfold testQ NodeHeap.empty
    simp only [Array.getD_eq_getD_getElem?, Array.getElem?_replicate]
    split <;> simp
  rw [this]
  simp [NodeHeap.empty]

/-- **enqueue adds the node to the set** (and nothing else changes), for any priorities. -/
theorem enqueue_spec (prio : Nat → Nat) (n : Nat) (h : NodeHeap) (x : Nat) (hi : HInv n h) (hx : x < n) :
    HInv n (h.enqueue prio x) ∧
    ∀ y, y ∈ (h.enqueue prio x).heap.toList ↔ (y = x ∨ y ∈ h.heap.toList) := by
  unfold NodeHeap.enqueue
  by_cases ht : testQ h.inQueue x = true
  · rw [if_pos ht]
    have hm := (hi.mem_iff x hx).1 ht
    refine ⟨hi, fun y => ⟨Or.inr, ?_⟩⟩
    rintro (rfl | h')
    · exact hm
    · exact h'
  · rw [if_neg ht]
    have hxn : x ∉ h.heap.toList := fun hm => ht ((hi.mem_iff x hx).2 hm)
    have hp : (hPush prio h.heap x).toList.Perm (h.heap.toList ++ [x]) := by
      have := Array.perm_iff_toList_perm.1 (hUp_perm prio (h.heap.size + 1) (h.heap.push x) h.heap.size)
      simpa [hPush] using this
    have hmem : ∀ y, y ∈ (hPush prio h.heap x).toList ↔ (y = x ∨ y ∈ h.heap.toList) := by
      intro y
      rw [hp.mem_iff, List.mem_append, List.mem_singleton]
      exact Or.comm
    refine ⟨⟨?_, ?_, ?_, ?_⟩, hmem⟩
    · simp [setQ, hi.words]
    · refine hp.nodup_iff.2 ?_
      rw [List.nodup_append]
      refine ⟨hi.nodup, by simp, ?_⟩
      intro a ha b hb
      rw [List.mem_singleton] at hb
      subst hb
      intro hab; subst hab; exact hxn ha
    · intro y hy
      rcases (hmem y).1 hy with rfl | h'
      · exact hx
      · exact hi.lt y h'
    · intro y hy
      show testQ (setQ h.inQueue x) y = true ↔ y ∈ (hPush prio h.heap x).toList
      rw [testQ_setQ _ _ _ (by rw [hi.words]; exact word_lt hx), hmem y, Bool.or_eq_true,
        decide_eq_true_eq, hi.mem_iff y hy]
      exact Or.comm

/-- **dequeue removes and returns a member of the set** (no node is lost), for any
priorities. -/
theorem dequeue_spec (prio : Nat → Nat) (n : Nat) (h : NodeHeap) (hi : HInv n h) (hne : 0 < h.heap.size) :
    (h.dequeue prio).1 ∈ h.heap.toList ∧ HInv n (h.dequeue prio).2 ∧
    ∀ y, y ∈ (h.dequeue prio).2.heap.toList ↔ (y ∈ h.heap.toList ∧ y ≠ (h.dequeue prio).1) := by
  have hnid : h.heap.getD 0 0 ∈ h.heap.toList := by
    simp only [Array.getD_eq_getD_getElem?]
    rw [Array.getElem?_eq_getElem hne]
    simp
  -- the array after Swap(0, n); down(0, n)
  have hperm : (hDown prio (h.heap.size - 1) h.heap.size (h.heap.swapIfInBounds 0 (h.heap.size - 1)) 0).Perm h.heap :=
    (hDown_perm _ _ _ _ _).trans (swapIIB_perm _ _ _)
  have hsize := hperm.size_eq
  have hlast : (hDown prio (h.heap.size - 1) h.heap.size (h.heap.swapIfInBounds 0 (h.heap.size - 1)) 0).getD
      (h.heap.size - 1) 0 = h.heap.getD 0 0 := by
    rw [hDown_getD, getD_swap_last _ hne]
  have hlist := toList_pop_append _ (by rw [hsize]; exact hne)
  rw [hsize, hlast] at hlist
  have hp := Array.perm_iff_toList_perm.1 hperm
  rw [hlist] at hp
  -- hp : pop.toList ++ [nid] ~ heap.toList
  have hnd := hp.nodup_iff.2 hi.nodup
  rw [List.nodup_append] at hnd
  have hnot : h.heap.getD 0 0 ∉ (hPop prio h.heap).toList := by
    intro hm
    exact hnd.2.2 _ hm _ (by simp) rfl
  have hmem : ∀ y, y ∈ (hPop prio h.heap).toList ↔ (y ∈ h.heap.toList ∧ y ≠ h.heap.getD 0 0) := by
    intro y
    have := hp.mem_iff (a := y)
    rw [List.mem_append, List.mem_singleton] at this
    constructor
    · intro hy
      exact ⟨this.1 (Or.inl hy), fun he => hnot (he ▸ hy)⟩
    · rintro ⟨hy, hne'⟩
      rcases this.2 hy with h1 | h1
      · exact h1
      · exact absurd h1 hne'
  refine ⟨hnid, ⟨?_, hnd.1, ?_, ?_⟩, hmem⟩
  · simp [NodeHeap.dequeue, clearQ, hi.words]
  · intro y hy
    exact hi.lt y ((hmem y).1 hy).1
  · intro y hy
    show testQ (clearQ h.inQueue (h.heap.getD 0 0)) y = true ↔ y ∈ (hPop prio h.heap).toList
    rw [testQ_clearQ _ _ _ (by rw [hi.words]; exact word_lt (hi.lt _ hnid)), hmem y, Bool.and_eq_true,
      hi.mem_iff y hy]
    simp

/-! ## the solver loop driven by the concrete queue -/

variable {L : Type}

/-- the abstract state: the `q` component is the set of nodes in the heap. -/
def absSt (s : St L) (h : NodeHeap) : St L := { s with q := fun x => h.heap.toList.contains x }

/-- the transfer loop's `fb.queue.enqueue(succNum)` calls, in out-edge order. -/
def enqueueChanged (lat : Lat L) (G : Graph) (tr : Nat → L → L) (prio : Nat → Nat) (s : St L) (b : Nat)
    (inN : L) (es : List Nat) (h : NodeHeap) : NodeHeap :=
  es.foldl (fun h e => if changed lat tr s b inN e then h.enqueue prio (G.dst e) else h) h

/-- the loop body of `propagate` after `bi := fb.queue.dequeue()` returned `b` and left the
queue `h1`: the body of `Dense.process`, with `enqueue` for every changed out fact. -/
def stepBody (lat : Lat L) (G : Graph) (tr : Nat → L → L) (prio : Nat → Nat) (s : St L) (b : Nat)
    (h1 : NodeHeap) : St L × NodeHeap :=
  if !s.dirty b && lat.eq (computeIn lat G s b) (s.inF b) then (s, h1)
  else
    ({ inF := upd s.inF b (computeIn lat G s b)
       outF := fun e => if G.src e = b ∧ e < G.m ∧ changed lat tr s b (computeIn lat G s b) e = true
                 then tr e (computeIn lat G s b) else s.outF e
       dirty := upd s.dirty b false
       q := s.q },
     enqueueChanged lat G tr prio s b (computeIn lat G s b) (outEdges G b) h1)

/-- One iteration of `for fb.queue.Len() > 0` of `propagate`, with the real queue. -/
def stepH (lat : Lat L) (G : Graph) (tr : Nat → L → L) (prio : Nat → Nat) (s : St L) (h : NodeHeap) :
    St L × NodeHeap :=
  stepBody lat G tr prio s (h.dequeue prio).1 (h.dequeue prio).2

/-- `propagate`: iterate until the heap is empty (or the fuel runs out). -/
def runH (lat : Lat L) (G : Graph) (tr : Nat → L → L) (prio : Nat → Nat) :
    Nat → St L → NodeHeap → St L × NodeHeap
  | 0, s, h => (s, h)
  | f + 1, s, h =>
    if h.heap.size = 0 then (s, h)
    else runH lat G tr prio f (stepH lat G tr prio s h).1 (stepH lat G tr prio s h).2

/-- the queue after the initialisation loop of `Forward`: `enqueue(0)`, …, `enqueue(n-1)`. -/
def initHeap (prio : Nat → Nat) (n : Nat) : NodeHeap :=
  (List.range n).foldl (fun h b => h.enqueue prio b) (NodeHeap.empty n)

theorem foldl_enqueue_spec (prio : Nat → Nat) (n : Nat) (f : Nat → Option Nat) (es : List Nat) (h : NodeHeap)
    (hi : HInv n h) (hf : ∀ e ∈ es, ∀ x, f e = some x → x < n) :
    HInv n (es.foldl (fun h e => match f e with | some x => h.enqueue prio x | none => h) h) ∧
    ∀ y, y ∈ (es.foldl (fun h e => match f e with | some x => h.enqueue prio x | none => h) h).heap.toList ↔
      (y ∈ h.heap.toList ∨ ∃ e ∈ es, f e = some y) := by
  induction es generalizing h with
  | nil => simp [hi]
  | cons e es ih =>
    simp only [List.foldl_cons]
    cases hfe : f e with
    | none =>
      simp only []
      obtain ⟨h1, h2⟩ := ih h hi (fun e' he' => hf e' (by simp [he']))
      refine ⟨h1, fun y => ?_⟩
      rw [h2 y]
      constructor
      · rintro (hl | ⟨e', he', hs⟩)
        · exact Or.inl hl
        · exact Or.inr ⟨e', by simp [he'], hs⟩
      · rintro (hl | ⟨e', he', hs⟩)
        · exact Or.inl hl
        · rcases List.mem_cons.1 he' with rfl | he''
          · rw [hfe] at hs; cases hs
          · exact Or.inr ⟨e', he'', hs⟩
    | some x =>
      simp only []
      have hx : x < n := hf e (by simp) x hfe
      obtain ⟨hi', hm'⟩ := enqueue_spec prio n h x hi hx
      obtain ⟨h1, h2⟩ := ih (h.enqueue prio x) hi' (fun e' he' => hf e' (by simp [he']))
      refine ⟨h1, fun y => ?_⟩
      rw [h2 y, hm' y]
      constructor
      · rintro ((rfl | hl) | ⟨e', he', hs⟩)
        · exact Or.inr ⟨e, by simp, hfe⟩
        · exact Or.inl hl
        · exact Or.inr ⟨e', by simp [he'], hs⟩
      · rintro (hl | ⟨e', he', hs⟩)
        · exact Or.inl (Or.inr hl)
        · rcases List.mem_cons.1 he' with rfl | he''
          · rw [hfe] at hs; cases hs; exact Or.inl (Or.inl rfl)
          · exact Or.inr ⟨e', he'', hs⟩

theorem initHeap_spec (prio : Nat → Nat) (n : Nat) :
    HInv n (initHeap prio n) ∧ ∀ y, y ∈ (initHeap prio n).heap.toList ↔ y < n := by
  have := foldl_enqueue_spec prio n (fun b => some b) (List.range n) (NodeHeap.empty n) (hinv_empty n)
    (by intro e he x hx; cases hx; exact List.mem_range.1 he)
  have he : (List.range n).foldl (fun h e => match some e with | some x => h.enqueue prio x | none => h)
      (NodeHeap.empty n) = initHeap prio n := rfl
  rw [he] at this
  refine ⟨this.1, fun y => ?_⟩
  rw [this.2 y]
  simp [NodeHeap.empty]

theorem body_refines (lat : Lat L) (G : Graph) (hG : G.WF) (tr : Nat → L → L) (prio : Nat → Nat)
    (s : St L) (h h1 : NodeHeap) (b : Nat) (hi1 : HInv G.n h1)
    (hm1 : ∀ y, y ∈ h1.heap.toList ↔ (y ∈ h.heap.toList ∧ y ≠ b)) :
    HInv G.n (stepBody lat G tr prio s b h1).2 ∧
    absSt (stepBody lat G tr prio s b h1).1 (stepBody lat G tr prio s b h1).2 =
      process lat G tr (absSt s h) b := by
  have hq1 : ∀ x, (h1.heap.toList.contains x) = (h.heap.toList.contains x && !(x == b)) := by
    intro x
    rw [Bool.eq_iff_iff]
    simp only [List.contains_eq_mem, decide_eq_true_eq, Bool.and_eq_true, Bool.not_eq_true',
      beq_eq_false_iff_ne, ne_eq]
    exact hm1 x
  by_cases hk : Skip lat G (absSt s h) b
  · rw [process_skip _ _ _ _ _ hk]
    have hd : s.dirty b = false := hk.1
    have he : lat.eq (computeIn lat G s b) (s.inF b) = true := hk.2
    have e1 : stepBody lat G tr prio s b h1 = (s, h1) := by
      unfold stepBody
      rw [if_pos (by simp [hd, he])]
    rw [e1]
    refine ⟨hi1, ?_⟩
    simp only [absSt, hq1]
  · rw [process_go _ _ _ _ _ hk]
    have hc : ¬ ((!s.dirty b && lat.eq (computeIn lat G s b) (s.inF b)) = true) := by
      intro hc
      simp only [Bool.and_eq_true, Bool.not_eq_true'] at hc
      exact hk ⟨hc.1, hc.2⟩
    have e1 : stepBody lat G tr prio s b h1 =
        ({ inF := upd s.inF b (computeIn lat G s b)
           outF := fun e => if G.src e = b ∧ e < G.m ∧ changed lat tr s b (computeIn lat G s b) e = true
                     then tr e (computeIn lat G s b) else s.outF e
           dirty := upd s.dirty b false
           q := s.q },
         enqueueChanged lat G tr prio s b (computeIn lat G s b) (outEdges G b) h1) := by
      unfold stepBody
      rw [if_neg hc]
    rw [e1]
    have hfold := foldl_enqueue_spec prio G.n
      (fun e => if changed lat tr s b (computeIn lat G s b) e = true then some (G.dst e) else none)
      (outEdges G b) h1 hi1
      (by
        intro e he x hx
        split at hx
        · cases hx; exact (hG e (mem_outEdges.1 he).1).2
        · cases hx)
    have hsame : enqueueChanged lat G tr prio s b (computeIn lat G s b) (outEdges G b) h1 =
        (outEdges G b).foldl (fun h' e =>
          match (if changed lat tr s b (computeIn lat G s b) e = true then some (G.dst e) else none) with
          | some x => h'.enqueue prio x
          | none => h') h1 := by
      unfold enqueueChanged
      congr 1
      funext h' e
      split <;> simp_all
    rw [hsame]
    refine ⟨hfold.1, ?_⟩
    show ({ inF := _, outF := _, dirty := _, q := _ } : St L) = _
    congr 1
    funext x
    rw [Bool.eq_iff_iff]
    simp only [absSt, List.contains_eq_mem, decide_eq_true_eq, Bool.or_eq_true, Bool.and_eq_true,
      Bool.not_eq_true', beq_eq_false_iff_ne, ne_eq, List.any_eq_true, beq_iff_eq]
    rw [hfold.2 x, hm1 x]
    constructor
    · rintro (hl | ⟨e, he, hs⟩)
      · exact Or.inl hl
      · split at hs
        · rename_i hch
          cases hs
          exact Or.inr ⟨e, he, rfl, hch⟩
        · cases hs
    · rintro (hl | ⟨e, he, hd, hch⟩)
      · exact Or.inl hl
      · have hch' : changed lat tr s b (computeIn lat G s b) e = true := hch
        exact Or.inr ⟨e, he, by simp [hch', hd]⟩

/-- **One iteration with the real queue is one iteration of the abstract transition system**
(`Dense.process` on the node the heap hands out, which is a member of the queue set), and
the representation invariant is kept. -/
theorem stepH_refines (lat : Lat L) (G : Graph) (hG : G.WF) (tr : Nat → L → L) (prio : Nat → Nat)
    (s : St L) (h : NodeHeap) (hi : HInv G.n h) (hne : 0 < h.heap.size) :
    (absSt s h).q (h.dequeue prio).1 = true ∧
    HInv G.n (stepH lat G tr prio s h).2 ∧
    absSt (stepH lat G tr prio s h).1 (stepH lat G tr prio s h).2 =
      process lat G tr (absSt s h) (h.dequeue prio).1 := by
  obtain ⟨hmem, hi1, hm1⟩ := dequeue_spec prio G.n h hi hne
  exact ⟨by simpa [absSt] using hmem, body_refines lat G hG tr prio s h _ _ hi1 hm1⟩

end Verif.C13.Dense
