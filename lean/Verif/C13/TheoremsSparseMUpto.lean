import Verif.C13.SparseMRepr
import Verif.C13.TheoremsSparseM
/-!
C13 — `sparse.Instance.Forward` (multi-mapping model `SparseM`) over lattices whose `Equals`
is coarser than equality of representations, by the simulation of SparseMRepr.lean: every
`=` between states becomes the lattice's own `Equals`; the client contract (`Spec`,
`SpecMono`) and the finite height are required of the *denoted* program `progOf h g P` over the
represented lattice; the transfer functions must keep states well-formed and respect `Equals`
(`TrResp`).
-/
namespace Verif.C13

variable {L L' : Type}
open SparseM

/-- **sparsem_fixpoint_upto.** -/
theorem sparsem_fixpoint_upto (lat : Lat L) (C : L → Prop) (lat' : Lat L') (h : L → L') (g : L' → L)
    (R : Repr lat C lat' h g) (hl' : lat'.Laws) (P : Prog L) (ht : TrResp lat C P)
    (val0 : Nat → L) (h0 : ∀ v, C (val0 v))
    (tgt : Nat → List Nat) (F : Nat → (Nat → L') → L') (rd : Nat → List Nat)
    (hs : Spec lat' (progOf h g P) (fun v => h (val0 v)) tgt F rd)
    (s : Sparse.St L) (hr : Reach lat P val0 s) (hterm : Sparse.Terminal s) :
    (∀ i, i < P.n → P.isPhi i = true → lat.eq (s.val i) (joinL lat ((P.edges i).map s.val)) = true) ∧
    (∀ i, i < P.n → P.isPhi i = false → ∀ d ∈ P.tr i s.val, lat.eq (s.val d.1) d.2 = true) ∧
    (∀ v, (∀ i, i < P.n → v ∉ tgt i) → lat.eq (s.val v) (val0 v) = true) := by
  obtain ⟨hc, hr'⟩ := reach_comm R hl' P ht val0 h0 s hr
  have hf := sparsem_fixpoint lat' hl' (progOf h g P) _ tgt F rd hs (mapSt h s) hr' hterm
  refine ⟨?_, ?_, ?_⟩
  · intro i hin hphi
    have h1 := hf.1 i hin hphi
    have hm : ∀ x ∈ (P.edges i).map s.val, C x := by
      intro x hx
      obtain ⟨v, _, rfl⟩ := List.mem_map.1 hx
      exact hc v
    have hj := R.joinL _ hm
    refine (R.h_eq _ _ (hc i) hj.1).2 ?_
    rw [hj.2, List.map_map]
    exact h1
  · intro i hin hphi d hd
    -- the partner of `d` in the transfer on the canonical representatives
    have hrel := ht.resp i s.val (fun v => g (h (s.val v))) hc (fun v => R.g_mem _)
      (fun v => R.eq_g (s.val v) (hc v))
    obtain ⟨e, he, h1, hcd, hce, h2⟩ := hrel.mem_left hd
    have hmem : (e.1, h e.2) ∈ (progOf h g P).tr i (mapSt h s).val :=
      List.mem_map.2 ⟨e, he, rfl⟩
    have h3 := hf.2.1 i hin hphi (e.1, h e.2) hmem
    -- h3 : h (s.val e.1) = h e.2
    refine (R.h_eq _ _ (hc d.1) hcd).2 ?_
    rw [h1, (R.h_eq d.2 e.2 hcd hce).1 h2]
    exact h3
  · intro v hv
    exact (R.h_eq _ _ (hc v) (h0 v)).2 (hf.2.2.2 v hv)

/-- **sparsem_least_upto.** The denotation of every reachable mapping is below every
pre-solution of the denoted program. -/
theorem sparsem_least_upto (lat : Lat L) (C : L → Prop) (lat' : Lat L') (h : L → L') (g : L' → L)
    (R : Repr lat C lat' h g) (hl' : lat'.Laws) (P : Prog L) (ht : TrResp lat C P)
    (val0 : Nat → L) (h0 : ∀ v, C (val0 v))
    (tgt : Nat → List Nat) (F : Nat → (Nat → L') → L') (rd : Nat → List Nat)
    (hs : Spec lat' (progOf h g P) (fun v => h (val0 v)) tgt F rd)
    (hm : SpecMono lat' (progOf h g P) (fun v => h (val0 v)) tgt F)
    (s : Sparse.St L) (hr : Reach lat P val0 s) (τ : Nat → L')
    (hp : PreSol lat' (progOf h g P) (fun v => h (val0 v)) tgt F τ) :
    ∀ v, lat'.le (h (s.val v)) (τ v) :=
  sparsem_least lat' hl' (progOf h g P) _ tgt F rd hs hm (mapSt h s)
    (reach_comm R hl' P ht val0 h0 s hr).2 τ hp

/-- **sparsem_forward_upto.** `Instance.Forward` as a whole over a representing lattice: any
schedule, fuel ≥ `nv·H·(n+1)+n` (`H` = height of the represented lattice) ⇒ the run ends with an
empty worklist in a mapping that satisfies every mapping of every instruction up to `Equals`
and whose denotation is below every pre-solution of the denoted program. -/
theorem sparsem_forward_upto (lat : Lat L) (C : L → Prop) (lat' : Lat L') (h : L → L') (g : L' → L)
    (R : Repr lat C lat' h g) (hl' : lat'.Laws) (P : Prog L) (ht : TrResp lat C P)
    (val0 : Nat → L) (h0 : ∀ v, C (val0 v))
    (tgt : Nat → List Nat) (F : Nat → (Nat → L') → L') (rd : Nat → List Nat)
    (hs : Spec lat' (progOf h g P) (fun v => h (val0 v)) tgt F rd)
    (hm : SpecMono lat' (progOf h g P) (fun v => h (val0 v)) tgt F)
    (rank : L' → Nat) (H : Nat) (hrk : Ranked lat' rank H) (nv : Nat)
    (htl : ∀ i w, i < P.n → w ∈ tgt i → w < nv)
    (pick : Nat → List Nat → Nat) (fuel : Nat) (hf : nv * H * (P.n + 1) + P.n ≤ fuel) :
    let s := (run lat P nv pick fuel 0 (init P val0)).1
    Sparse.Terminal s ∧
    (∀ i, i < P.n → P.isPhi i = true → lat.eq (s.val i) (joinL lat ((P.edges i).map s.val)) = true) ∧
    (∀ i, i < P.n → P.isPhi i = false → ∀ d ∈ P.tr i s.val, lat.eq (s.val d.1) d.2 = true) ∧
    (∀ v, (∀ i, i < P.n → v ∉ tgt i) → lat.eq (s.val v) (val0 v) = true) ∧
    (∀ τ, PreSol lat' (progOf h g P) (fun v => h (val0 v)) tgt F τ → ∀ v, lat'.le (h (s.val v)) (τ v)) := by
  intro s
  have hn : (progOf h g P).n = P.n := rfl
  -- each iteration from a reachable state decreases the measure of the denoted state
  have hdec : ∀ (s : Sparse.St L) (i : Nat), Reach lat P val0 s → s.w i = true →
      mu (progOf h g P) rank H nv (mapSt h (process lat P s i)) < mu (progOf h g P) rank H nv (mapSt h s) := by
    intro s i hrs hq
    obtain ⟨hc, hr'⟩ := reach_comm R hl' P ht val0 h0 s hrs
    rw [(process_comm R hl' P ht s hc i).2]
    exact mu_step hl' hrk hs htl _ i (inv_reach hl' hs _ hr') (asc_reach hl' hs hm _ hr') hq
  have hwlt : ∀ (s : Sparse.St L), Reach lat P val0 s → ∀ i, s.w i = true → i < P.n := by
    intro s hrs i hq
    obtain ⟨_, hr'⟩ := reach_comm R hl' P ht val0 h0 s hrs
    exact (inv_reach hl' hs _ hr').w_lt i hq
  have hterm_gen : ∀ (fuel k : Nat) (s : Sparse.St L), Reach lat P val0 s →
      mu (progOf h g P) rank H nv (mapSt h s) ≤ fuel → Sparse.Terminal (run lat P nv pick fuel k s).1 := by
    intro fuel
    induction fuel with
    | zero =>
      intro k s hrs hle b
      show s.w b = false
      cases hq : s.w b
      · rfl
      · exfalso
        have := hdec s b hrs hq
        omega
    | succ f ih =>
      intro k s hrs hle
      unfold run
      split
      · rename_i hq
        intro b
        cases hqb : s.w b
        · rfl
        · exfalso
          have : b ∈ queued P s := by
            simp only [queued, List.mem_filter, List.mem_range]
            exact ⟨hwlt s hrs b hqb, hqb⟩
          rw [hq] at this; cases this
      · rename_i x xs hq
        have hmem := SparseM.pick_mem P s pick k x xs hq
        simp only [SparseM.reify_eq]
        apply ih _ _ (Reach.step hrs hmem)
        have := hdec s _ hrs hmem
        omega
  have hreach : Reach lat P val0 s := SparseM.run_reach lat P val0 nv pick fuel 0 _ Reach.init
  have hinit : mu (progOf h g P) rank H nv (mapSt h (init P val0)) ≤ fuel := by
    have : mapSt h (init P val0) = init (progOf h g P) (fun v => h (val0 v)) := rfl
    rw [this]
    have := SparseM.mu_init_le (progOf h g P) (fun v => h (val0 v)) rank H nv
    rw [hn] at this
    omega
  have hterm : Sparse.Terminal s := hterm_gen fuel 0 _ Reach.init hinit
  have hfix := sparsem_fixpoint_upto lat C lat' h g R hl' P ht val0 h0 tgt F rd hs s hreach hterm
  exact ⟨hterm, hfix.1, hfix.2.1, hfix.2.2,
    fun τ hp => sparsem_least_upto lat C lat' h g R hl' P ht val0 h0 tgt F rd hs hm s hreach τ hp⟩

/-! ### non-vacuity: states are natural numbers standing for a bit (`0` = false, anything else
= true); `Equals` compares the denoted bits, so it is coarser than equality (`1` vs `5`). The
program is `exPM` of TheoremsSparseM.lean with `⊔` computed as `+` and the stable mapping for the
parameter returning another representative (`5`) of the state it was given (`1`). -/
section example_upto
def natBit : Lat Nat := { bot := 0, merge := fun a b => a + b, eq := fun a b => (a == 0) == (b == 0) }
def bitOf (a : Nat) : Bool := a != 0
def natOf (b : Bool) : Nat := if b then 1 else 0

theorem natBit_repr : Repr natBit (fun _ => True) exLat bitOf natOf := by
  refine ⟨trivial, fun _ _ _ _ => trivial, rfl, ?_, ?_, fun _ => trivial, ?_⟩
  · intro a b _ _
    show (a + b != 0) = ((a != 0) || (b != 0))
    cases a <;> cases b <;> simp
  · intro a b _ _
    show ((a == 0) == (b == 0)) = true ↔ (a != 0) = (b != 0)
    cases a <;> cases b <;> simp
  · intro x; cases x <;> rfl

theorem natBit_eq_iff (a b : Nat) : natBit.eq a b = true ↔ (a = 0 ↔ b = 0) := by
  show ((a == 0) == (b == 0)) = true ↔ _
  cases a <;> cases b <;> simp

def exPMN : Prog Nat :=
  { n := 3
    isPhi := fun i => i == 0
    edges := fun i => if i = 0 then [1] else []
    refs := fun i => if i = 0 then [1] else if i = 1 then [0] else []
    tr := fun i val => if i = 1 then [(1, val 3 + val 0), (3, 5)] else [] }

theorem exPMN_denotes : progOf bitOf natOf exPMN = exPM := by
  unfold progOf exPMN exPM
  congr 1
  funext i val'
  by_cases hi : i = 1
  · subst hi
    simp only [if_true, List.map_cons, List.map_nil]
    cases h3 : val' 3 <;> cases h0 : val' 0 <;> simp [bitOf, natOf]
  · simp [hi]

theorem exPMN_resp : TrResp natBit (fun _ => True) exPMN := by
  refine ⟨?_⟩
  intro i val val' _ _ he
  unfold exPMN
  simp only []
  split
  · refine RelL.cons ⟨rfl, trivial, trivial, ?_⟩ (RelL.cons ⟨rfl, trivial, trivial, rfl⟩ RelL.nil)
    have h3 := (natBit_eq_iff _ _).1 (he 3)
    have h0 := (natBit_eq_iff _ _).1 (he 0)
    rw [natBit_eq_iff]
    omega
  · exact RelL.nil

/-- the run over the representing lattice ends with an empty worklist; the parameter keeps the
representative it was given (`1`, the mapping `3 ↦ 5` is `Equals` and therefore not stored). -/
example :
    let s := (run natBit exPMN 4 (fun _ _ => 0) 100 0 (init exPMN (fun v => if v = 3 then 1 else 0))).1
    Sparse.Terminal s ∧ s.val 0 = 1 ∧ s.val 1 = 1 ∧ s.val 2 = 0 ∧ s.val 3 = 1 := by
  refine ⟨?_, by decide, by decide, by decide, by decide⟩
  have hv0 : (fun v => bitOf ((fun v => if v = 3 then 1 else 0 : Nat → Nat) v)) = exVal0M := by
    funext v
    by_cases h3 : v = 3 <;> simp [bitOf, exVal0M, h3]
  refine (sparsem_forward_upto natBit _ exLat bitOf natOf natBit_repr exLat_laws exPMN exPMN_resp _
    (fun _ => trivial) exTgt exF exRd ?_ ?_ _ 1 exRanked 4 exTgt_lt (fun _ _ => 0) 100 (by decide)).1
  · rw [exPMN_denotes, hv0]; exact exPM_spec
  · rw [exPMN_denotes, hv0]; exact exPM_mono
end example_upto

end Verif.C13
