import Verif.C13.Repr
/-!
C13 — `dfa.DenseMapLattice` and `dfa.MapLattice` (Model.lean: `dmLat`, `mapLat`) represent
the lattice of `k`-vectors over the element lattice (`finLat el k`, functions `Fin k → E`
with pointwise merge and equality): `dm_repr`, `map_repr`.  `finLat` is lawful and of
finite height when the element lattice is.
-/
namespace Verif.C13

variable {E : Type}

/-- `k`-vectors over `el`, pointwise. `Equals` is equality. -/
def finLat (el : Lat E) (k : Nat) : Lat (Fin k → E) :=
  { bot := fun _ => el.bot
    merge := fun a b i => el.merge (a i) (b i)
    eq := fun a b => decide (∀ i : Fin k, el.eq (a i) (b i) = true) }

theorem finLat_laws (el : Lat E) (hl : el.Laws) (k : Nat) : (finLat el k).Laws := by
  refine ⟨?_, ?_, ?_, ?_, ?_⟩
  · intro a b
    simp only [finLat, decide_eq_true_eq, hl.eq_iff]
    exact ⟨fun h => funext h, fun h i => by rw [h]⟩
  · intro a b c; funext i; exact hl.assoc _ _ _
  · intro a b; funext i; exact hl.comm _ _
  · intro a; funext i; exact hl.idem _
  · intro a; funext i; exact hl.ident _

theorem sumTo_const (H k : Nat) : sumTo (fun _ => H) k = H * k := by
  induction k with
  | zero => simp [sumTo]
  | succ k ih => simp only [sumTo, ih, Nat.mul_succ]

/-- rank of a vector: the sum of the element ranks. -/
def finRank (rank : E → Nat) (k : Nat) (a : Fin k → E) : Nat :=
  sumTo (fun i => if hi : i < k then rank (a ⟨i, hi⟩) else 0) k

theorem finLat_ranked (el : Lat E) (rank : E → Nat) (H : Nat) (hr : Ranked el rank H) (k : Nat) :
    Ranked (finLat el k) (finRank rank k) (H * k) := by
  refine ⟨?_, ?_⟩
  · intro a
    unfold finRank
    rw [← sumTo_const H k]
    apply sumTo_le
    intro x hx
    simp only [hx, dite_true]
    exact hr.rank_le _
  · intro a b hle hne
    have hpt : ∀ i : Fin k, el.le (a i) (b i) := fun i => congrFun hle i
    have hmono : ∀ i : Fin k, rank (a i) ≤ rank (b i) := by
      intro i
      by_cases he : a i = b i
      · rw [he]; exact Nat.le_refl _
      · exact Nat.le_of_lt (hr.rank_lt _ _ (hpt i) he)
    have hex : ∃ j : Fin k, a j ≠ b j := by
      apply Classical.byContradiction
      intro hn
      apply hne
      funext i
      apply Classical.byContradiction
      intro hi
      exact hn ⟨i, hi⟩
    obtain ⟨j, hj⟩ := hex
    unfold finRank
    refine sumTo_lt k j.val j.isLt ?_ ?_
    · intro x hx
      simp only [hx, dite_true]
      exact hmono ⟨x, hx⟩
    · simp only [j.isLt, dite_true]
      exact hr.rank_lt _ _ (hpt j) hj

/-! ### DenseMapLattice -/

/-- the vector a dense map (of length ≤ k) denotes. -/
def dpad (el : Lat E) (k : Nat) (a : List E) : Fin k → E := fun i => dget el a i.val

theorem length_dmZip (el : Lat E) (a b : List E) : (dmZip el a b).length = max a.length b.length := by
  induction a generalizing b with
  | nil => unfold dmZip; simp
  | cons x xs ih =>
    cases b with
    | nil => unfold dmZip; simp
    | cons y ys => simp [dmZip, ih, Nat.succ_max_succ]

theorem length_dmMerge_le (el : Lat E) (k : Nat) (a b : List E) (ha : a.length ≤ k) (hb : b.length ≤ k) :
    (dmMerge el a b).length ≤ k := by
  unfold dmMerge
  split
  · exact hb
  · split
    · exact ha
    · rw [length_dmZip]; exact Nat.max_le.2 ⟨ha, hb⟩

theorem dget_beyond (el : Lat E) (a : List E) (j : Nat) (h : a.length ≤ j) : dget el a j = el.bot := by
  unfold dget
  rw [List.getD_eq_getElem?_getD, List.getElem?_eq_none h]
  rfl

theorem dget_ofFn (el : Lat E) (k : Nat) (f : Fin k → E) (i : Fin k) : dget el (List.ofFn f) i.val = f i := by
  unfold dget
  rw [List.getD_eq_getElem?_getD, List.getElem?_ofFn]
  simp

/-- **dm_repr.** `DenseMapLattice` over a lawful element lattice, on slices of length ≤ k
(facts about `k` variables), represents the `k`-vectors: `Equals` is exactly "denotes the
same vector". -/
theorem dm_repr (el : Lat E) (hl : el.Laws) (k : Nat) :
    Repr (dmLat el) (fun a => a.length ≤ k) (finLat el k) (dpad el k) (fun f => List.ofFn f) := by
  refine ⟨Nat.zero_le _, length_dmMerge_le el k, ?_, ?_, ?_, ?_, ?_⟩
  · funext i; simp [dpad, dget, dmLat, finLat]
  · intro a b _ _
    funext i
    exact dget_dmMerge el hl a b i.val
  · intro a b ha hb
    show dmEquals el a b = true ↔ _
    rw [dmEquals_iff el hl]
    constructor
    · intro h; funext i; exact h i.val
    · intro h j
      by_cases hj : j < k
      · exact congrFun h ⟨j, hj⟩
      · rw [dget_beyond el a j (by omega), dget_beyond el b j (by omega)]
  · intro f; simp
  · intro f; funext i; exact dget_ofFn el k f i

/-! ### MapLattice -/

/-- the vector a map with keys `< k` denotes (missing key = `Ident`). -/
def mpad (el : Lat E) (k : Nat) (a : GoMap E) : Fin k → E := fun i => (mlookup a i.val).getD el.bot

/-- well-formed `MapLattice` facts about `k` variables: a Go map (distinct keys), keys
`< k`, and the documented invariant "the identity element never appears as a value". -/
def MapOK (el : Lat E) (k : Nat) (a : GoMap E) : Prop :=
  NodupKeys a ∧ NoIdent el a ∧ ∀ x ∈ keys a, x < k

/-- the canonical map of a vector: its non-`Ident` entries in key order. -/
def mapOfFn (el : Lat E) (k : Nat) (f : Fin k → E) : GoMap E :=
  (List.range k).filterMap (fun j => if hj : j < k then
      (if el.eq (f ⟨j, hj⟩) el.bot then none else some (j, f ⟨j, hj⟩)) else none)

theorem mlookup_filterMap (φ : Nat → Option (Nat × E)) (hφ : ∀ x p, φ x = some p → p.1 = x)
    (l : List Nat) (j : Nat) :
    mlookup (l.filterMap φ) j = if j ∈ l then (φ j).map Prod.snd else none := by
  induction l with
  | nil => simp [mlookup]
  | cons x xs ih =>
    simp only [List.filterMap_cons]
    cases hx : φ x with
    | none =>
      simp only [ih, List.mem_cons]
      by_cases hjx : j = x
      · subst hjx; simp [hx]
      · simp [hjx]
    | some p =>
      have hp := hφ x p hx
      obtain ⟨p1, p2⟩ := p
      simp only at hp
      subst hp
      simp only [mlookup, List.mem_cons]
      by_cases hjx : p1 = j
      · subst hjx; simp [hx]
      · have : ¬ j = p1 := fun h => hjx h.symm
        simp [hjx, this, ih]

theorem keys_filterMap_sub (φ : Nat → Option (Nat × E)) (hφ : ∀ x p, φ x = some p → p.1 = x)
    (l : List Nat) : (keys (l.filterMap φ)).Sublist l := by
  induction l with
  | nil => simp [keys]
  | cons x xs ih =>
    simp only [List.filterMap_cons]
    cases hx : φ x with
    | none => exact List.Sublist.cons _ ih
    | some p =>
      have hp := hφ x p hx
      simp only [keys, List.map_cons, hp]
      exact List.Sublist.cons_cons _ ih

theorem mapOfFn_spec (el : Lat E) (hl : el.Laws) (k : Nat) (f : Fin k → E) :
    MapOK el k (mapOfFn el k f) ∧ mpad el k (mapOfFn el k f) = f := by
  have hφ : ∀ x p, (fun j => if hj : j < k then
      (if el.eq (f ⟨j, hj⟩) el.bot then none else some (j, f ⟨j, hj⟩)) else none) x = some p → p.1 = x := by
    intro x p hp
    simp only at hp
    split at hp
    · split at hp
      · cases hp
      · cases hp; rfl
    · cases hp
  have hsub := keys_filterMap_sub _ hφ (List.range k)
  refine ⟨⟨?_, ?_, ?_⟩, ?_⟩
  · exact List.Nodup.sublist hsub List.nodup_range
  · intro kv hkv
    unfold mapOfFn at hkv
    obtain ⟨j, _, hj⟩ := List.mem_filterMap.1 hkv
    split at hj
    · rename_i hjk
      split at hj
      · cases hj
      · rename_i hne
        cases hj
        intro heq
        apply hne
        exact (hl.eq_iff _ _).2 heq
    · cases hj
  · intro x hx
    exact List.mem_range.1 (hsub.subset hx)
  · funext i
    unfold mpad mapOfFn
    rw [mlookup_filterMap _ hφ]
    simp only [List.mem_range, i.isLt, if_true, dite_true]
    by_cases he : el.eq (f i) el.bot = true
    · have hb := (hl.eq_iff _ _).1 he
      simp only [he, if_true, Option.map_none, Option.getD_none]
      exact hb.symm
    · simp [he]

theorem mem_keys_iff (a : GoMap E) (x : Nat) : x ∈ keys a ↔ mlookup a x ≠ none := by
  rw [Ne, mlookup_none_iff]
  exact ⟨fun h hn => hn h, fun h => Classical.byContradiction h⟩

theorem getD_optMerge (el : Lat E) (hl : el.Laws) (x y : Option E) :
    (optMerge el x y).getD el.bot = el.merge (x.getD el.bot) (y.getD el.bot) := by
  cases x <;> cases y <;> simp [optMerge, hl.ident, hl.bot_merge]

/-- **map_repr.** `MapLattice` over a lawful element lattice, on well-formed maps with keys
`< k`, represents the `k`-vectors. -/
theorem map_repr (el : Lat E) (hl : el.Laws) (k : Nat) :
    Repr (mapLat el) (MapOK el k) (finLat el k) (mpad el k) (mapOfFn el k) := by
  have noid : ∀ (a b : GoMap E), NoIdent el a → NoIdent el b → NoIdent el (mapMerge el a b) := by
    intro a b ha hb
    have key : ∀ kv ∈ a, ∀ bv, mlookup b kv.1 = some bv → el.merge kv.2 bv ≠ el.bot := by
      intro kv hkv bv _ hm
      exact ha kv hkv (merge_eq_bot_left hl _ _ hm)
    unfold mapMerge
    split
    · exact hb
    · split
      · exact ha
      · intro kv hkv
        rcases List.mem_append.1 hkv with h | h
        · obtain ⟨kv0, hkv0, rfl⟩ := List.mem_map.1 h
          unfold mergeEntry
          cases hm : mlookup b kv0.1 with
          | none => exact ha kv0 hkv0
          | some bv => exact key kv0 hkv0 bv hm
        · exact hb kv (List.mem_filter.1 h).1
  have hbotok : MapOK el k (mapLat el).bot := by
    refine ⟨List.nodup_nil, ?_, ?_⟩
    · intro kv h; cases h
    · intro x h; cases h
  refine ⟨hbotok, ?_, ?_, ?_, ?_,
    fun f => (mapOfFn_spec el hl k f).1, fun f => (mapOfFn_spec el hl k f).2⟩
  · intro a b ha hb
    refine ⟨nodupKeys_mapMerge el a b ha.1 hb.1, noid a b ha.2.1 hb.2.1, ?_⟩
    intro x hx
    have hx' := (mem_keys_iff _ x).1 hx
    show x < k
    change mlookup (mapMerge el a b) x ≠ none at hx'
    rw [mlookup_mapMerge] at hx'
    cases h1 : mlookup a x with
    | some v => exact ha.2.2 x ((mem_keys_iff a x).2 (by rw [h1]; simp))
    | none =>
      cases h2 : mlookup b x with
      | some v => exact hb.2.2 x ((mem_keys_iff b x).2 (by rw [h2]; simp))
      | none => rw [h1, h2] at hx'; exact absurd rfl hx'
  · funext i; simp [mpad, mapLat, finLat, mlookup]
  · intro a b _ _
    funext i
    show (mlookup (mapMerge el a b) i.val).getD el.bot = _
    rw [mlookup_mapMerge, getD_optMerge el hl]
    rfl
  · intro a b ha hb
    show mapEquals el a b = true ↔ _
    rw [mapEquals_iff el hl a b ha.1 hb.1]
    constructor
    · intro h; funext i; show (mlookup a i.val).getD _ = (mlookup b i.val).getD _; rw [h]
    · intro h j
      by_cases hj : j < k
      · have hji : (mlookup a j).getD el.bot = (mlookup b j).getD el.bot := congrFun h ⟨j, hj⟩
        -- values stored in well-formed maps are not `Ident`
        have nz : ∀ (m : GoMap E), NoIdent el m → ∀ v, mlookup m j = some v → v ≠ el.bot :=
          fun m hm v hv => hm (j, v) (mlookup_some_mem m j v hv)
        cases h1 : mlookup a j with
        | none =>
          cases h2 : mlookup b j with
          | none => rfl
          | some w =>
            rw [h1, h2] at hji
            exact absurd hji.symm (nz b hb.2.1 w h2)
        | some v =>
          cases h2 : mlookup b j with
          | none =>
            rw [h1, h2] at hji
            exact absurd hji (nz a ha.2.1 v h1)
          | some w =>
            rw [h1, h2] at hji
            simp only [Option.getD_some] at hji
            rw [hji]
      · have h1 : mlookup a j = none := (mlookup_none_iff a j).2 (fun hm => hj (ha.2.2 j hm))
        have h2 : mlookup b j = none := (mlookup_none_iff b j).2 (fun hm => hj (hb.2.2 j hm))
        rw [h1, h2]

end Verif.C13
