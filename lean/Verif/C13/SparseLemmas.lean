import Verif.C13.LatLemmas
/-! Invariants of the sparse (per-value) solver's transition system. -/
namespace Verif.C13.Sparse

variable {L : Type}

/-- Structural facts about the IR the real solver relies on: referrers are instructions
of the function, and use-def chains are consistent (`v ∈ Operands(j)` ⇒ `j ∈ Referrers(v)`)
for values defined by instructions. -/
structure Prog.WF (P : Prog L) : Prop where
  refs_lt : ∀ i x, i < P.n → x ∈ P.refs i → x < P.n
  ops_refs : ∀ i j, i < P.n → j < P.n → i ∈ P.ops j → j ∈ P.refs i

/-- the transfer of an instruction reads only the states of its operands. -/
def Dep (P : Prog L) : Prop :=
  ∀ i (val val' : Nat → L), (∀ v ∈ P.ops i, val v = val' v) → P.tr i val = P.tr i val'

/-- … and is monotone. -/
def Mono (lat : Lat L) (P : Prog L) : Prop :=
  ∀ i (val val' : Nat → L), (∀ v, lat.le (val v) (val' v)) → lat.le (P.tr i val) (P.tr i val')

inductive Reach (lat : Lat L) (P : Prog L) (val0 : Nat → L) : St L → Prop
  | init : Reach lat P val0 (init P val0)
  | step {s : St L} {i : Nat} : Reach lat P val0 s → s.w i = true → Reach lat P val0 (process lat P s i)

section
variable (lat : Lat L) (P : Prog L)

theorem phi_fold (val : Nat → L) (l : List Nat) (a : L) :
    l.foldl (fun d v => lat.merge d (val v)) a = (l.map val).foldl lat.merge a := by
  induction l generalizing a with
  | nil => rfl
  | cons x xs ih => simp only [List.foldl_cons, List.map_cons, ih]

theorem newVal_phi (val : Nat → L) (i : Nat) (h : P.kind i = .phi) :
    newVal lat P val i = joinL lat ((P.ops i).map val) := by
  unfold newVal; rw [h]; exact phi_fold lat val _ _

theorem newVal_op (val : Nat → L) (i : Nat) (h : P.kind i ≠ .phi) : newVal lat P val i = P.tr i val := by
  unfold newVal
  split
  · rename_i hk; exact absurd hk h
  · rfl

theorem newVal_congr (hd : Dep P) (val val' : Nat → L) (i : Nat)
    (h : ∀ v ∈ P.ops i, val v = val' v) : newVal lat P val i = newVal lat P val' i := by
  by_cases hk : P.kind i = .phi
  · rw [newVal_phi _ _ _ _ hk, newVal_phi _ _ _ _ hk, List.map_congr_left h]
  · rw [newVal_op _ _ _ _ hk, newVal_op _ _ _ _ hk]; exact hd i val val' h

theorem newVal_mono (hl : lat.Laws) (hm : Mono lat P) (val val' : Nat → L) (i : Nat)
    (h : ∀ v, lat.le (val v) (val' v)) : lat.le (newVal lat P val i) (newVal lat P val' i) := by
  by_cases hk : P.kind i = .phi
  · rw [newVal_phi _ _ _ _ hk, newVal_phi _ _ _ _ hk]
    exact hl.joinL_map_mono _ _ _ (fun v _ => h v)
  · rw [newVal_op _ _ _ _ hk, newVal_op _ _ _ _ hk]; exact hm i val val' h

/-- the loop body stores a new state for `i` (and re-enqueues the referrers). -/
def Changes (s : St L) (i : Nat) : Prop :=
  P.kind i ≠ .none ∧ lat.eq (newVal lat P s.val i) (s.val i) = false

theorem process_same (s : St L) (i : Nat) (h : ¬ Changes lat P s i) :
    process lat P s i = { s with w := fun x => s.w x && !(x == i) } := by
  unfold process
  unfold Changes at h
  cases hk : P.kind i <;> simp only []
  · cases he : lat.eq (newVal lat P s.val i) (s.val i)
    · exact absurd ⟨by simp [hk], he⟩ h
    · simp
  · cases he : lat.eq (newVal lat P s.val i) (s.val i)
    · exact absurd ⟨by simp [hk], he⟩ h
    · simp

theorem process_change (s : St L) (i : Nat) (h : Changes lat P s i) :
    process lat P s i =
      { val := upd s.val i (newVal lat P s.val i)
        w := fun x => (s.w x && !(x == i)) || (P.refs i).contains x } := by
  unfold process
  obtain ⟨hk, he⟩ := h
  cases hk' : P.kind i <;> simp only [] <;> first | (exact absurd hk' hk) | simp [he]

/-! ### fixpoint invariant -/

structure Inv (val0 : Nat → L) (s : St L) : Prop where
  w_lt : ∀ i, s.w i = true → i < P.n
  fix : ∀ i, i < P.n → s.w i = false → P.kind i ≠ .none → s.val i = newVal lat P s.val i
  frame : ∀ v, (P.n ≤ v ∨ P.kind v = .none) → s.val v = val0 v

theorem inv_init (val0 : Nat → L) : Inv lat P val0 (init P val0) := by
  refine ⟨?_, ?_, ?_⟩
  · intro i hi; simpa [init] using hi
  · intro i hi hw; simp [init, hi] at hw
  · intro v _; rfl

theorem inv_step (hl : lat.Laws) (hw : P.WF) (hd : Dep P) (val0 : Nat → L) (s : St L) (i : Nat)
    (hi : Inv lat P val0 s) (hq : s.w i = true) : Inv lat P val0 (process lat P s i) := by
  have hin : i < P.n := hi.w_lt i hq
  by_cases hc : Changes lat P s i
  · rw [process_change _ _ _ _ hc]
    refine ⟨?_, ?_, ?_⟩
    · intro x hx
      simp only [Bool.or_eq_true, Bool.and_eq_true, List.contains_eq_mem, decide_eq_true_eq] at hx
      rcases hx with h1 | h2
      · exact hi.w_lt x h1.1
      · exact hw.refs_lt i x hin h2
    · intro x hx hwx hk
      simp only [Bool.or_eq_false_iff, Bool.and_eq_false_iff, Bool.not_eq_false', beq_iff_eq,
        List.contains_eq_mem, decide_eq_false_iff_not] at hwx
      obtain ⟨h1, h2⟩ := hwx
      -- `x` is not a referrer of `i`, so it does not read `i`
      have hnot : i ∉ P.ops x := fun hm => h2 (hw.ops_refs i x hin hx hm)
      have hsame : ∀ v ∈ P.ops x, upd s.val i (newVal lat P s.val i) v = s.val v := by
        intro v hv
        unfold upd
        split
        · rename_i hvi; subst hvi; exact absurd hv hnot
        · rfl
      show upd s.val i (newVal lat P s.val i) x = newVal lat P (upd s.val i (newVal lat P s.val i)) x
      rw [newVal_congr lat P hd _ s.val x hsame]
      by_cases hxi : x = i
      · subst hxi; simp [upd]
      · have hwx' : s.w x = false := by
          rcases h1 with h | h
          · exact h
          · exact absurd h hxi
        simp only [upd, hxi, if_false]
        exact hi.fix x hx hwx' hk
    · intro v hv
      have hvi : v ≠ i := by
        intro h; subst h
        rcases hv with h | h
        · omega
        · exact hc.1 h
      simp only [upd, hvi, if_false]
      exact hi.frame v hv
  · rw [process_same _ _ _ _ hc]
    refine ⟨?_, ?_, hi.frame⟩
    · intro x hx
      simp only [Bool.and_eq_true] at hx
      exact hi.w_lt x hx.1
    · intro x hx hwx hk
      simp only [Bool.and_eq_false_iff, Bool.not_eq_false', beq_iff_eq] at hwx
      rcases hwx with h | rfl
      · exact hi.fix x hx h hk
      · -- processed without change: new state Equals old state
        unfold Changes at hc
        have : lat.eq (newVal lat P s.val x) (s.val x) = true := by
          cases he : lat.eq (newVal lat P s.val x) (s.val x)
          · exact absurd ⟨hk, he⟩ hc
          · rfl
        exact ((hl.eq_iff _ _).1 this).symm

theorem inv_reach (hl : lat.Laws) (hw : P.WF) (hd : Dep P) (val0 : Nat → L) (s : St L)
    (h : Reach lat P val0 s) : Inv lat P val0 s := by
  induction h with
  | init => exact inv_init _ _ _
  | step _ hq ih => exact inv_step _ _ hl hw hd _ _ _ ih hq

/-! ### leastness -/

/-- `τ` is a (pre-)solution: above the given states of values that are not defined by an
instruction with a mapping, and closed under the equations of the others. -/
structure PreSol (val0 τ : Nat → L) : Prop where
  init_le : ∀ v, (P.n ≤ v ∨ P.kind v = .none) → lat.le (val0 v) (τ v)
  eqn_le : ∀ i, i < P.n → P.kind i ≠ .none → lat.le (newVal lat P τ i) (τ i)

/-- instruction values start at `Ident` (nobody `Set` them before `Forward`). -/
def InitBot (val0 : Nat → L) : Prop := ∀ i, i < P.n → P.kind i ≠ .none → val0 i = lat.bot

theorem below_reach (hl : lat.Laws) (hw : P.WF) (hd : Dep P) (hm : Mono lat P) (val0 τ : Nat → L)
    (h0 : InitBot lat P val0) (hs : PreSol lat P val0 τ) (s : St L) (h : Reach lat P val0 s) :
    ∀ v, lat.le (s.val v) (τ v) := by
  induction h with
  | init =>
    intro v
    show lat.le (val0 v) (τ v)
    by_cases hv : P.n ≤ v ∨ P.kind v = .none
    · exact hs.init_le v hv
    · have : v < P.n ∧ P.kind v ≠ .none := by
        constructor
        · omega
        · exact fun hk => hv (Or.inr hk)
      rw [h0 v this.1 this.2]; exact hl.bot_le _
  | @step s i hr hq ih =>
    have hi := inv_reach lat P hl hw hd val0 s hr
    by_cases hc : Changes lat P s i
    · rw [process_change _ _ _ _ hc]
      intro v
      show lat.le (upd s.val i (newVal lat P s.val i) v) (τ v)
      unfold upd
      split
      · rename_i hvi; subst hvi
        exact hl.le_trans (newVal_mono lat P hl hm _ _ _ ih) (hs.eqn_le v (hi.w_lt v hq) hc.1)
      · exact ih v
    · rw [process_same _ _ _ _ hc]; exact ih

/-! ### ascending invariant and termination measure -/

def Asc (s : St L) : Prop :=
  ∀ i, i < P.n → P.kind i ≠ .none → lat.le (s.val i) (newVal lat P s.val i)

theorem asc_reach (hl : lat.Laws) (hw : P.WF) (hd : Dep P) (hm : Mono lat P) (val0 : Nat → L)
    (h0 : InitBot lat P val0) (s : St L) (h : Reach lat P val0 s) : Asc lat P s := by
  induction h with
  | init =>
    intro i hi hk
    show lat.le (val0 i) _
    rw [h0 i hi hk]; exact hl.bot_le _
  | @step s i hr hq ih =>
    have hi := inv_reach lat P hl hw hd val0 s hr
    by_cases hc : Changes lat P s i
    · rw [process_change _ _ _ _ hc]
      have hup : ∀ v, lat.le (s.val v) (upd s.val i (newVal lat P s.val i) v) := by
        intro v
        unfold upd
        split
        · rename_i hvi; subst hvi
          exact ih v (hi.w_lt v hq) hc.1
        · exact hl.le_refl _
      intro x hx hk
      show lat.le (upd s.val i (newVal lat P s.val i) x) (newVal lat P (upd s.val i (newVal lat P s.val i)) x)
      have hmono := newVal_mono lat P hl hm _ _ x hup
      unfold upd at hmono ⊢
      split
      · rename_i hxi; subst hxi; exact hmono
      · exact hl.le_trans (ih x hx hk) hmono
    · rw [process_same _ _ _ _ hc]; exact ih

end
section term
variable (lat : Lat L) (P : Prog L) (rank : L → Nat) (H : Nat)

def phi (s : St L) (x : Nat) : Nat := H - rank (s.val x)

def mu (s : St L) : Nat := sumTo (phi rank H s) P.n * (P.n + 1) + cnt s.w P.n

theorem mu_step (hl : lat.Laws) (hr : Ranked lat rank H) (val0 : Nat → L) (s : St L) (i : Nat)
    (hi : Inv lat P val0 s) (ha : Asc lat P s) (hq : s.w i = true) :
    mu P rank H (process lat P s i) < mu P rank H s := by
  have hin : i < P.n := hi.w_lt i hq
  by_cases hc : Changes lat P s i
  · have hne : s.val i ≠ newVal lat P s.val i := by
      intro he
      have := (hl.eq_iff (newVal lat P s.val i) (s.val i)).2 he.symm
      rw [hc.2] at this; cases this
    have h1 := hr.rank_lt _ _ (ha i hin hc.1) hne
    have h2 := hr.rank_le (newVal lat P s.val i)
    have hlt : phi rank H (process lat P s i) i < phi rank H s i := by
      rw [process_change _ _ _ _ hc]
      simp only [phi, upd, if_true]
      omega
    have hle : ∀ x, x < P.n → phi rank H (process lat P s i) x ≤ phi rank H s x := by
      intro x _
      by_cases hxi : x = i
      · subst hxi; exact Nat.le_of_lt hlt
      · rw [process_change _ _ _ _ hc]
        simp only [phi, upd, hxi, if_false]
        exact Nat.le_refl _
    have hsum := sumTo_lt P.n i hin hle hlt
    have hcn := cnt_le (process lat P s i).w P.n
    unfold mu
    have h3 : (sumTo (phi rank H (process lat P s i)) P.n + 1) * (P.n + 1)
        ≤ sumTo (phi rank H s) P.n * (P.n + 1) := Nat.mul_le_mul_right _ hsum
    rw [Nat.add_mul] at h3
    omega
  · rw [process_same _ _ _ _ hc]
    unfold mu
    have hcn : cnt (fun x => s.w x && !(x == i)) P.n < cnt s.w P.n := by
      unfold cnt
      refine sumTo_lt P.n i hin ?_ ?_
      · intro x _
        cases hw : s.w x <;> by_cases hxi : x = i <;> simp [hxi, hw]
      · simp [hq]
    have hp : phi rank H { s with w := fun x => s.w x && !(x == i) } = phi rank H s := rfl
    rw [hp]
    simp only
    omega

end term

end Verif.C13.Sparse
