import Verif.C13.LatLemmas
/-! Helper lemmas for the models of `dfa.MapLattice` and `dfa.DenseMapLattice`:
both are characterised pointwise (`mlookup` / `dget`). -/
namespace Verif.C13

variable {E : Type}

/-- The semilattice laws *with respect to the lattice's own `Equals`* on a carrier `C`
(closed under `Ident` and `Merge`): `Equals` is an equivalence, `Merge` respects it, and
associativity, commutativity, idempotence and identity hold up to it. -/
structure Lat.LawsOn {L : Type} (lat : Lat L) (C : L → Prop) : Prop where
  bot_mem : C lat.bot
  merge_mem : ∀ a b, C a → C b → C (lat.merge a b)
  refl : ∀ a, C a → lat.eq a a = true
  symm : ∀ a b, C a → C b → lat.eq a b = true → lat.eq b a = true
  trans : ∀ a b c, C a → C b → C c → lat.eq a b = true → lat.eq b c = true → lat.eq a c = true
  congr : ∀ a a' b b', C a → C a' → C b → C b' → lat.eq a a' = true → lat.eq b b' = true →
    lat.eq (lat.merge a b) (lat.merge a' b') = true
  assoc : ∀ a b c, C a → C b → C c →
    lat.eq (lat.merge a (lat.merge b c)) (lat.merge (lat.merge a b) c) = true
  comm : ∀ a b, C a → C b → lat.eq (lat.merge a b) (lat.merge b a) = true
  idem : ∀ a, C a → lat.eq (lat.merge a a) a = true
  ident : ∀ a, C a → lat.eq (lat.merge a lat.bot) a = true

/-! ### MapLattice -/

def keys (a : GoMap E) : List Nat := a.map Prod.fst

/-- a Go map has each key once. -/
def NodupKeys (a : GoMap E) : Prop := (keys a).Nodup

/-- "L's identity element never appears as a value in the map". -/
def NoIdent (el : Lat E) (a : GoMap E) : Prop := ∀ kv ∈ a, kv.2 ≠ el.bot

theorem mlookup_none_iff (a : GoMap E) (k : Nat) : mlookup a k = none ↔ k ∉ keys a := by
  induction a with
  | nil => simp [mlookup, keys]
  | cons kv r ih =>
    obtain ⟨k', v⟩ := kv
    unfold mlookup
    by_cases h : k' = k
    · simp [h, keys]
    · simp only [h, if_false, ih]
      simp only [keys, List.map_cons, List.mem_cons, not_or]
      exact ⟨fun hr => ⟨fun hk => h hk.symm, hr⟩, fun hr => hr.2⟩

theorem mlookup_some_mem (a : GoMap E) (k : Nat) (v : E) (h : mlookup a k = some v) : (k, v) ∈ a := by
  induction a with
  | nil => simp [mlookup] at h
  | cons kv r ih =>
    obtain ⟨k', v'⟩ := kv
    unfold mlookup at h
    by_cases hk : k' = k
    · simp only [hk, if_true, Option.some.injEq] at h
      simp [hk, h]
    · simp only [hk, if_false] at h
      exact List.mem_cons_of_mem _ (ih h)

theorem mem_mlookup (a : GoMap E) (hn : NodupKeys a) (k : Nat) (v : E) (h : (k, v) ∈ a) :
    mlookup a k = some v := by
  induction a with
  | nil => cases h
  | cons kv r ih =>
    obtain ⟨k', v'⟩ := kv
    unfold NodupKeys keys at hn
    simp only [List.map_cons, List.nodup_cons] at hn
    unfold mlookup
    rcases List.mem_cons.1 h with heq | hr
    · cases heq; simp
    · by_cases hk : k' = k
      · exfalso
        apply hn.1
        rw [hk]
        exact List.mem_map.2 ⟨(k, v), hr, rfl⟩
      · simp only [hk, if_false]
        exact ih hn.2 hr

theorem mlookup_append (a b : GoMap E) (k : Nat) :
    mlookup (a ++ b) k = match mlookup a k with | some v => some v | none => mlookup b k := by
  induction a with
  | nil => simp [mlookup]
  | cons kv r ih =>
    obtain ⟨k', v⟩ := kv
    simp only [List.cons_append, mlookup]
    by_cases hk : k' = k
    · simp [hk]
    · simp only [hk, if_false]; exact ih

def optMerge (el : Lat E) : Option E → Option E → Option E
  | some x, some y => some (el.merge x y)
  | some x, none => some x
  | none, y => y

theorem mlookup_mergeMap (el : Lat E) (a b : GoMap E) (k : Nat) :
    mlookup (a.map (mergeEntry el b)) k =
    match mlookup a k with
    | none => none
    | some v => optMerge el (some v) (mlookup b k) := by
  induction a with
  | nil => simp [mlookup]
  | cons kv r ih =>
    obtain ⟨k', v⟩ := kv
    simp only [List.map_cons]
    by_cases hk : k' = k
    · subst hk
      cases hb : mlookup b k' <;> simp [mlookup, optMerge, mergeEntry, hb]
    · have h1 : mlookup (mergeEntry el b (k', v) :: r.map (mergeEntry el b)) k
          = mlookup (r.map (mergeEntry el b)) k := by
        cases hb : mlookup b k' <;> simp [mlookup, mergeEntry, hb, hk]
      rw [h1, ih]
      simp [mlookup, hk]

theorem mlookup_filterKey (a : GoMap E) (p : Nat → Bool) (k : Nat) :
    mlookup (a.filter (fun kv => p kv.1)) k = if p k then mlookup a k else none := by
  induction a with
  | nil => simp [mlookup]
  | cons kv r ih =>
    obtain ⟨k', v⟩ := kv
    simp only [List.filter_cons]
    by_cases hk : k' = k
    · subst hk
      cases hp : p k' <;> simp [mlookup, hp, ih]
    · cases hp : p k' <;> simp [mlookup, hk, ih]

/-- `MapLattice.Merge`, pointwise. -/
theorem mlookup_mapMerge (el : Lat E) (a b : GoMap E) (k : Nat) :
    mlookup (mapMerge el a b) k = optMerge el (mlookup a k) (mlookup b k) := by
  unfold mapMerge
  by_cases ha : a.length = 0
  · have : a = [] := List.eq_nil_of_length_eq_zero ha
    subst this
    simp [mlookup, optMerge]
  · by_cases hb : b.length = 0
    · have : b = [] := List.eq_nil_of_length_eq_zero hb
      subst this
      simp only [beq_iff_eq, ha, if_false, List.length_nil, if_true]
      show mlookup a k = optMerge el (mlookup a k) none
      cases mlookup a k <;> rfl
    · simp only [beq_iff_eq, ha, hb, if_false]
      rw [mlookup_append, mlookup_mergeMap,
        mlookup_filterKey b (fun k => (mlookup a k).isNone) k]
      cases h1 : mlookup a k <;> cases h2 : mlookup b k <;> simp [optMerge]

theorem keys_mergeMap (el : Lat E) (a b : GoMap E) : keys (a.map (mergeEntry el b)) = keys a := by
  unfold keys
  rw [List.map_map]
  apply List.map_congr_left
  intro kv _
  simp only [Function.comp, mergeEntry]
  cases mlookup b kv.1 <;> rfl

theorem nodupKeys_mapMerge (el : Lat E) (a b : GoMap E) (ha : NodupKeys a) (hb : NodupKeys b) :
    NodupKeys (mapMerge el a b) := by
  unfold mapMerge
  split
  · exact hb
  · split
    · exact ha
    · unfold NodupKeys
      have hk : keys (a.map (mergeEntry el b) ++ b.filter (fun kv => (mlookup a kv.1).isNone))
          = keys a ++ keys (b.filter (fun kv => (mlookup a kv.1).isNone)) := by
        rw [← keys_mergeMap el a b]; simp [keys]
      rw [hk, List.nodup_append]
      refine ⟨ha, ?_, ?_⟩
      · unfold keys
        exact List.Nodup.sublist (List.Sublist.map _ List.filter_sublist) hb
      · intro x hx y hy hxy
        subst hxy
        simp only [keys, List.mem_map, List.mem_filter] at hy
        obtain ⟨kv, ⟨_, hnone⟩, hfst⟩ := hy
        rw [hfst] at hnone
        have := (mlookup_none_iff a x).1 (by simpa using hnone)
        exact this hx

/-- `maps.EqualFunc`, pointwise (for maps with distinct keys, element `Equals` = equality). -/
theorem mapEquals_iff (el : Lat E) (hl : el.Laws) (a b : GoMap E) (ha : NodupKeys a) (hb : NodupKeys b) :
    mapEquals el a b = true ↔ ∀ k, mlookup a k = mlookup b k := by
  unfold mapEquals
  simp only [Bool.and_eq_true, beq_iff_eq, List.all_eq_true]
  constructor
  · rintro ⟨hlen, hall⟩ k
    have hsub : keys a ⊆ keys b := by
      intro x hx
      simp only [keys, List.mem_map] at hx
      obtain ⟨kv, hkv, rfl⟩ := hx
      have := hall kv hkv
      cases hm : mlookup b kv.1 with
      | none => simp [hm] at this
      | some bv =>
        have := mlookup_some_mem b _ _ hm
        exact List.mem_map.2 ⟨_, this, rfl⟩
    cases hka : mlookup a k with
    | some v =>
      have := hall (k, v) (mlookup_some_mem a k v hka)
      cases hm : mlookup b k with
      | none => simp [hm] at this
      | some bv =>
        simp only [hm] at this
        rw [(hl.eq_iff _ _).1 this]
    | none =>
      -- pigeonhole: a key of `b` missing from `a` would make `b` longer
      have hnot := (mlookup_none_iff a k).1 hka
      symm
      rw [mlookup_none_iff]
      intro hkb
      have hnd : (k :: keys a).Nodup := List.nodup_cons.2 ⟨hnot, ha⟩
      have hs : (k :: keys a) ⊆ keys b := by
        intro x hx
        rcases List.mem_cons.1 hx with rfl | hx
        · exact hkb
        · exact hsub hx
      have := List.Nodup.length_le_of_subset hnd hs
      simp only [keys, List.length_cons, List.length_map] at this
      omega
  · intro h
    have hmem : ∀ x, x ∈ keys a ↔ x ∈ keys b := by
      intro x
      have h1 := mlookup_none_iff a x
      have h2 := mlookup_none_iff b x
      rw [h x] at h1
      exact Decidable.not_iff_not.1 (h1.symm.trans h2)
    have hperm := (List.perm_ext_iff_of_nodup ha hb).2 hmem
    refine ⟨by simpa [keys] using hperm.length_eq, ?_⟩
    intro kv hkv
    have := mem_mlookup a ha kv.1 kv.2 hkv
    rw [h kv.1] at this
    rw [this]
    exact (hl.eq_iff _ _).2 rfl

theorem merge_eq_bot_left {L : Type} {lat : Lat L} (hl : lat.Laws) (x y : L)
    (h : lat.merge x y = lat.bot) : x = lat.bot := by
  have h1 : lat.merge x (lat.merge x y) = lat.merge x y := by rw [hl.assoc, hl.idem]
  rw [h, hl.ident] at h1
  exact h1

theorem optMerge_assoc (el : Lat E) (hl : el.Laws) (x y z : Option E) :
    optMerge el x (optMerge el y z) = optMerge el (optMerge el x y) z := by
  cases x <;> cases y <;> cases z <;> simp [optMerge, hl.assoc]

theorem optMerge_comm (el : Lat E) (hl : el.Laws) (x y : Option E) :
    optMerge el x y = optMerge el y x := by
  cases x <;> cases y <;> simp [optMerge, hl.comm]

theorem optMerge_idem (el : Lat E) (hl : el.Laws) (x : Option E) : optMerge el x x = x := by
  cases x <;> simp [optMerge, hl.idem]

/-! ### DenseMapLattice -/

/-- element `k` of a dense map, `Ident` beyond its length. -/
def dget (el : Lat E) (a : List E) (k : Nat) : E := a.getD k el.bot

theorem dget_dmZip (el : Lat E) (hl : el.Laws) (a b : List E) (k : Nat) :
    dget el (dmZip el a b) k = el.merge (dget el a k) (dget el b k) := by
  induction a generalizing b k with
  | nil =>
    unfold dmZip dget
    simp only [List.getD_eq_getElem?_getD, List.getElem?_map, List.getElem?_nil, Option.getD_none]
    cases b[k]? <;> simp [hl.idem]
  | cons x xs ih =>
    cases b with
    | nil =>
      unfold dmZip dget
      simp only [List.getD_eq_getElem?_getD, List.getElem?_map, List.getElem?_nil, Option.getD_none]
      cases (x :: xs)[k]? <;> simp [hl.idem]
    | cons y ys =>
      cases k with
      | zero => simp [dmZip, dget]
      | succ k =>
        have := ih ys k
        simpa [dmZip, dget] using this

/-- `DenseMapLattice.Merge`, pointwise. -/
theorem dget_dmMerge (el : Lat E) (hl : el.Laws) (a b : List E) (k : Nat) :
    dget el (dmMerge el a b) k = el.merge (dget el a k) (dget el b k) := by
  unfold dmMerge
  by_cases ha : a.length = 0
  · have : a = [] := List.eq_nil_of_length_eq_zero ha
    subst this
    simp [dget, hl.bot_merge]
  · by_cases hb : b.length = 0
    · have : b = [] := List.eq_nil_of_length_eq_zero hb
      subst this
      simp [ha, dget, hl.ident]
    · simp only [beq_iff_eq, ha, hb, if_false]
      exact dget_dmZip el hl a b k

theorem all_ident_iff (el : Lat E) (hl : el.Laws) (a : List E) :
    a.all (fun e => el.eq e el.bot) = true ↔ ∀ k, dget el a k = el.bot := by
  induction a with
  | nil => simp [dget]
  | cons x xs ih =>
    simp only [List.all_cons, Bool.and_eq_true, ih, hl.eq_iff]
    constructor
    · rintro ⟨h1, h2⟩ k
      cases k with
      | zero => simpa [dget] using h1
      | succ k => simpa [dget] using h2 k
    · intro h
      exact ⟨by simpa [dget] using h 0, fun k => by simpa [dget] using h (k + 1)⟩

/-- `DenseMapLattice.Equals`, pointwise. -/
theorem dmEquals_iff (el : Lat E) (hl : el.Laws) (a b : List E) :
    dmEquals el a b = true ↔ ∀ k, dget el a k = dget el b k := by
  induction a generalizing b with
  | nil =>
    unfold dmEquals
    rw [all_ident_iff el hl]
    simp only [dget, List.getD_nil]
    exact ⟨fun h k => (h k).symm, fun h k => (h k).symm⟩
  | cons x xs ih =>
    cases b with
    | nil =>
      unfold dmEquals
      rw [all_ident_iff el hl]
      simp [dget]
    | cons y ys =>
      unfold dmEquals
      simp only [Bool.and_eq_true, hl.eq_iff, ih]
      constructor
      · rintro ⟨h1, h2⟩ k
        cases k with
        | zero => simpa [dget] using h1
        | succ k => simpa [dget] using h2 k
      · intro h
        exact ⟨by simpa [dget] using h 0, fun k => by simpa [dget] using h (k + 1)⟩

end Verif.C13
