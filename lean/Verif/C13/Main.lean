import Verif.C13.Driver
def main : IO UInt32 := do
  Verif.Proto.runLines Verif.C13.step
  return 0
