import Verif.C13.SparseMLemmas
import Verif.C13.SparseLemmas
import Verif.C13.Repr
/-!
C13 — the sparse solver over a lattice whose `Equals` is coarser than equality of
representations (e.g. `dfa.MapLattice` / `dfa.DenseMapLattice` states in a sparse analysis).

As for the dense solver (Repr.lean): if `lat` on the carrier `C` *represents* a lawful
lattice `lat'` (`Repr lat C lat' h g`), every run of `SparseM.process` over `lat` is, under
`h`, a run over `lat'` of the *denoted program* `progOf h g P` — step by step, same worklist.
Hypotheses about the transfer functions (`TrResp`): they keep states well-formed and respect
`Equals` (same targets, `Equals` states on `Equals` inputs).
-/
namespace Verif.C13

/-- two lists related element by element. -/
inductive RelL {α β : Type} (r : α → β → Prop) : List α → List β → Prop
  | nil : RelL r [] []
  | cons {a : α} {b : β} {l : List α} {l' : List β} : r a b → RelL r l l' → RelL r (a :: l) (b :: l')

theorem RelL.mem_left {α β : Type} {r : α → β → Prop} {l : List α} {l' : List β} (h : RelL r l l')
    {a : α} (ha : a ∈ l) : ∃ b, b ∈ l' ∧ r a b := by
  induction h with
  | nil => cases ha
  | cons hr _ ih =>
    rcases List.mem_cons.1 ha with rfl | ha'
    · exact ⟨_, by simp, hr⟩
    · obtain ⟨b, hb, hrb⟩ := ih ha'
      exact ⟨b, by simp [hb], hrb⟩

theorem RelL.map_right {α β γ : Type} {r : α → β → Prop} {r' : α → γ → Prop} (f : β → γ)
    {l : List α} {l' : List β} (h : RelL r l l') (hf : ∀ a b, r a b → r' a (f b)) :
    RelL r' l (l'.map f) := by
  induction h with
  | nil => exact RelL.nil
  | cons hr _ ih => exact RelL.cons (hf _ _ hr) ih

namespace SparseM
variable {L L' : Type}

/-- the transfer functions keep states well-formed and respect `Equals`: on well-formed
mappings that are pointwise `Equals` they return the same targets with well-formed, `Equals`
states. -/
structure TrResp (lat : Lat L) (C : L → Prop) (P : Prog L) : Prop where
  resp : ∀ i val val', (∀ v, C (val v)) → (∀ v, C (val' v)) → (∀ v, lat.eq (val v) (val' v) = true) →
    RelL (fun d d' => d.1 = d'.1 ∧ C d.2 ∧ C d'.2 ∧ lat.eq d.2 d'.2 = true) (P.tr i val) (P.tr i val')

/-- the program on denoted states. -/
def progOf (h : L → L') (g : L' → L) (P : Prog L) : Prog L' :=
  { n := P.n, isPhi := P.isPhi, edges := P.edges, refs := P.refs
    tr := fun i val' => (P.tr i (fun v => g (val' v))).map (fun d => (d.1, h d.2)) }

/-- the denotation of a solver state. -/
def mapSt (h : L → L') (s : Sparse.St L) : Sparse.St L' := { val := fun v => h (s.val v), w := s.w }

section
variable {lat : Lat L} {C : L → Prop} {lat' : Lat L'} {h : L → L'} {g : L' → L}
variable (R : Repr lat C lat' h g) (hl' : lat'.Laws) (P : Prog L)

include R hl' in
theorem store_comm (val : Nat → L) (hv : ∀ v, C (val v)) (b : Bool) (ds : List (Nat × L)) (ds' : List (Nat × L'))
    (hrel : RelL (fun d d' => d.1 = d'.1 ∧ C d.2 ∧ h d.2 = d'.2) ds ds') :
    (∀ v, C ((ds.foldl (storeStep lat) (val, b)).1 v)) ∧
    (fun v => h ((ds.foldl (storeStep lat) (val, b)).1 v)) = (ds'.foldl (storeStep lat') (fun v => h (val v), b)).1 ∧
    (ds.foldl (storeStep lat) (val, b)).2 = (ds'.foldl (storeStep lat') (fun v => h (val v), b)).2 := by
  induction hrel generalizing val b with
  | nil => exact ⟨hv, rfl, rfl⟩
  | @cons d d' l l' hr _ ih =>
    obtain ⟨h1, hc, h2⟩ := hr
    simp only [List.foldl_cons]
    have heq : lat'.eq d'.2 (h (val d'.1)) = lat.eq d.2 (val d.1) := by
      rw [← h2, ← h1]
      exact R.eq_bool hl' _ _ hc (hv _)
    cases he : lat.eq d.2 (val d.1)
    · have s1 : storeStep lat (val, b) d = (upd val d.1 d.2, true) := by simp [storeStep, he]
      have s2 : storeStep lat' (fun v => h (val v), b) d' = (fun v => h (upd val d.1 d.2 v), true) := by
        have : (upd (fun v => h (val v)) d'.1 d'.2) = fun v => h (upd val d.1 d.2 v) := by
          funext v
          unfold upd
          rw [← h1, ← h2]
          split <;> rfl
        simp [storeStep, heq, he, this]
      rw [s1, s2]
      apply ih
      intro v
      unfold upd
      split
      · exact hc
      · exact hv v
    · have s1 : storeStep lat (val, b) d = (val, b) := by simp [storeStep, he]
      have s2 : storeStep lat' (fun v => h (val v), b) d' = (fun v => h (val v), b) := by
        simp [storeStep, heq, he]
      rw [s1, s2]
      exact ih val hv b

include R in
theorem mappings_rel (ht : TrResp lat C P) (val : Nat → L) (hv : ∀ v, C (val v)) (i : Nat) :
    RelL (fun d d' => d.1 = d'.1 ∧ C d.2 ∧ h d.2 = d'.2) (mappings lat P val i)
      (mappings lat' (progOf h g P) (fun v => h (val v)) i) := by
  unfold mappings
  show RelL _ _ (if P.isPhi i = true then _ else _)
  split
  · refine RelL.cons ⟨rfl, ?_⟩ RelL.nil
    rw [Sparse.phi_fold, Sparse.phi_fold]
    have hm : ∀ x ∈ (P.edges i).map val, C x := by
      intro x hx
      obtain ⟨v, _, rfl⟩ := List.mem_map.1 hx
      exact hv v
    have := R.foldl_merge ((P.edges i).map val) lat.bot R.bot_mem hm
    refine ⟨this.1, ?_⟩
    rw [this.2, R.h_bot, List.map_map]
    rfl
  · -- the transfer on `g ∘ h ∘ val` is `Equals` to the transfer on `val`
    have hv' : ∀ v, C (g (h (val v))) := fun v => R.g_mem _
    have hr := ht.resp i val (fun v => g (h (val v))) hv hv' (fun v => R.eq_g (val v) (hv v))
    show RelL _ (P.tr i val) ((P.tr i (fun v => g (h (val v)))).map (fun d => (d.1, h d.2)))
    refine RelL.map_right _ hr ?_
    intro d e ⟨h1, hcd, hce, h2⟩
    exact ⟨h1, hcd, (R.h_eq d.2 e.2 hcd hce).1 h2⟩

include R hl' in
/-- one solver iteration commutes with the denotation. -/
theorem process_comm (ht : TrResp lat C P) (s : Sparse.St L) (hs : ∀ v, C (s.val v)) (i : Nat) :
    (∀ v, C ((process lat P s i).val v)) ∧
    mapSt h (process lat P s i) = process lat' (progOf h g P) (mapSt h s) i := by
  have hrel := mappings_rel R P ht s.val hs i
  obtain ⟨c1, c2, c3⟩ := store_comm R hl' s.val hs false _ _ hrel
  refine ⟨c1, ?_⟩
  show ({ val := fun v => h ((store lat s.val (mappings lat P s.val i)).1 v)
          w := if (store lat s.val (mappings lat P s.val i)).2 = true then _ else _ } : Sparse.St L') =
       { val := (store lat' (fun v => h (s.val v)) (mappings lat' (progOf h g P) (fun v => h (s.val v)) i)).1
         w := if (store lat' (fun v => h (s.val v)) (mappings lat' (progOf h g P) (fun v => h (s.val v)) i)).2 = true
              then _ else _ }
  unfold store
  rw [c2, c3]
  rfl

include R hl' in
/-- **simulation**: the denotation of a run over `lat` is a run of the denoted program over `lat'`. -/
theorem reach_comm (ht : TrResp lat C P) (val0 : Nat → L) (h0 : ∀ v, C (val0 v)) (s : Sparse.St L)
    (hr : Reach lat P val0 s) :
    (∀ v, C (s.val v)) ∧ Reach lat' (progOf h g P) (fun v => h (val0 v)) (mapSt h s) := by
  induction hr with
  | init => exact ⟨h0, Reach.init⟩
  | @step s i _ hq ih =>
    obtain ⟨h1, h2⟩ := process_comm R hl' P ht s ih.1 i
    rw [h2]
    exact ⟨h1, Reach.step ih.2 hq⟩

end
end SparseM
end Verif.C13
