import Verif.C13.Heap
/-!
C13 — property theorems about the real work queue of `dense.Forward` (`nodeHeap`:
`container/heap` over a priority table + `inQueue` bitmap words; model and lemmas in
Heap.lean).

* `heap_queue_implements_set` — `enqueue`/`dequeue` as written in forward.go implement the
  set-queue the dense theorems are stated for: nothing is lost, nothing is duplicated,
  whatever the priorities and however many bitmap words there are.
* `dense_heap_step_refines` — one iteration of `propagate` with the real queue is one step
  `Dense.process` of the abstract transition system on a queued node.
* `dense_forward_heap_least_fixpoint` — hence `dense.Forward` with its real queue ends with
  an empty heap in the least fixpoint, within `n·(H+1)·(n+1)+n` iterations, for *every*
  priority table (reverse postorder is one; its computation needs no correctness argument).
-/
namespace Verif.C13

variable {L : Type}
open Dense

/-- **heap_queue_implements_set.** For a graph with `n` nodes and any priority table: the
freshly initialised `nodeHeap` is empty; `enqueue x` (`x < n`) makes the set `{x} ∪ old`;
`dequeue` on a non-empty heap returns a member `x` and leaves `old \ {x}`; the representation
invariant (`HInv`: `(n+63)/64` bitmap words, heap without duplicates, bit set ⇔ in the heap)
is kept.  So every enqueued node stays queued until it is dequeued. -/
theorem heap_queue_implements_set (prio : Nat → Nat) (n : Nat) :
    (HInv n (NodeHeap.empty n) ∧ ∀ y, y ∉ (NodeHeap.empty n).heap.toList) ∧
    (∀ h x, HInv n h → x < n →
      HInv n (h.enqueue prio x) ∧ ∀ y, y ∈ (h.enqueue prio x).heap.toList ↔ (y = x ∨ y ∈ h.heap.toList)) ∧
    (∀ h, HInv n h → 0 < h.heap.size →
      (h.dequeue prio).1 ∈ h.heap.toList ∧ HInv n (h.dequeue prio).2 ∧
      ∀ y, y ∈ (h.dequeue prio).2.heap.toList ↔ (y ∈ h.heap.toList ∧ y ≠ (h.dequeue prio).1)) :=
  ⟨⟨hinv_empty n, by simp [NodeHeap.empty]⟩,
   fun h x hi hx => enqueue_spec prio n h x hi hx,
   fun h hi hne => dequeue_spec prio n h hi hne⟩

/-- **dense_heap_step_refines.** One iteration of `propagate` driven by the real queue
(`stepH`: `dequeue`, loop body, `enqueue` of the successors whose fact changed) is the step
`Dense.process` of the abstract system on the dequeued node, which is queued; the invariant of
the queue is kept. -/
theorem dense_heap_step_refines (lat : Lat L) (G : Graph) (hG : G.WF) (tr : Nat → L → L) (prio : Nat → Nat)
    (s : St L) (h : NodeHeap) (hi : HInv G.n h) (hne : 0 < h.heap.size) :
    (absSt s h).q (h.dequeue prio).1 = true ∧
    HInv G.n (stepH lat G tr prio s h).2 ∧
    absSt (stepH lat G tr prio s h).1 (stepH lat G tr prio s h).2 =
      process lat G tr (absSt s h) (h.dequeue prio).1 :=
  stepH_refines lat G hG tr prio s h hi hne

theorem absSt_init (lat : Lat L) (G : Graph) (entry : Nat → L) (prio : Nat → Nat) :
    absSt (init lat G entry) (initHeap prio G.n) = init lat G entry := by
  unfold absSt init
  congr 1
  funext x
  rw [Bool.eq_iff_iff]
  simp only [List.contains_eq_mem, decide_eq_true_eq]
  exact (initHeap_spec prio G.n).2 x

theorem runH_spec (lat : Lat L) (hl : lat.Laws) (G : Graph) (hG : G.WF) (tr : Nat → L → L)
    (hm : Mono lat tr) (entry : Nat → L) (rank : L → Nat) (H : Nat) (hr : Ranked lat rank H)
    (prio : Nat → Nat) (fuel : Nat) (s : St L) (h : NodeHeap) (hi : HInv G.n h)
    (hreach : Reach lat G tr entry (absSt s h)) (hf : mu G rank H (absSt s h) ≤ fuel) :
    (runH lat G tr prio fuel s h).2.heap.size = 0 ∧
    Reach lat G tr entry (absSt (runH lat G tr prio fuel s h).1 (runH lat G tr prio fuel s h).2) := by
  induction fuel generalizing s h with
  | zero =>
    refine ⟨?_, hreach⟩
    show h.heap.size = 0
    by_cases h0 : h.heap.size = 0
    · exact h0
    · exfalso
      have hpos : 0 < h.heap.size := by omega
      have hmem : h.heap.getD 0 0 ∈ h.heap.toList := by
        simp only [Array.getD_eq_getD_getElem?]
        rw [Array.getElem?_eq_getElem hpos]
        simp
      have hc : cnt (absSt s h).q G.n = 0 := by unfold mu at hf; omega
      have hq : (absSt s h).q (h.heap.getD 0 0) = false := (cnt_zero_iff _ G.n).1 hc _ (hi.lt _ hmem)
      have hq' : (absSt s h).q (h.heap.getD 0 0) = true := by
        show h.heap.toList.contains (h.heap.getD 0 0) = true
        rw [List.contains_eq_mem, decide_eq_true_eq]
        exact hmem
      rw [hq] at hq'; cases hq' 
  | succ f ih =>
    unfold runH
    by_cases h0 : h.heap.size = 0
    · rw [if_pos h0]; exact ⟨h0, hreach⟩
    · rw [if_neg h0]
      obtain ⟨hq, hi', heq⟩ := stepH_refines lat G hG tr prio s h hi (by omega)
      have hreach' : Reach lat G tr entry
          (absSt (stepH lat G tr prio s h).1 (stepH lat G tr prio s h).2) := by
        rw [heq]; exact Reach.step hreach hq
      apply ih _ _ hi' hreach'
      rw [heq]
      have := mu_step lat G tr rank H hl hr entry _ _ (inv_reach lat G tr hl hG entry _ hreach)
        (asc_reach lat G tr hl hG hm entry _ hreach) hq
      omega

/-- **dense_forward_heap_least_fixpoint.** `dense.Forward` with its *real* queue: from the
state and the heap its initialisation loop builds (`enqueue(0) … enqueue(n-1)`), iterating
`dequeue` / loop body / `enqueue` (`runH`) with at least `n·(H+1)·(n+1) + n` iterations of
fuel, for any priority table `prio` (reverse postorder or any other), any number of nodes
(any number of 64-bit bitmap words): the heap ends empty, and the facts then held solve the
dataflow equations and are below every pre-solution — the least fixpoint. -/
theorem dense_forward_heap_least_fixpoint (lat : Lat L) (hl : lat.Laws) (G : Graph) (hG : G.WF)
    (tr : Nat → L → L) (hm : Mono lat tr) (entry : Nat → L) (rank : L → Nat) (H : Nat)
    (hr : Ranked lat rank H) (prio : Nat → Nat) (fuel : Nat)
    (hf : G.n * (H + 1) * (G.n + 1) + G.n ≤ fuel) :
    let r := runH lat G tr prio fuel (init lat G entry) (initHeap prio G.n)
    r.2.heap.size = 0 ∧
    (∀ b, b < G.n → r.1.inF b =
        if inEdges G b = [] then entry b else joinL lat ((inEdges G b).map r.1.outF)) ∧
    (∀ e, e < G.m → r.1.outF e = tr e (r.1.inF (G.src e))) ∧
    (∀ I O, PreSol lat G tr entry I O →
        (∀ b, b < G.n → lat.le (r.1.inF b) (I b)) ∧ (∀ e, e < G.m → lat.le (r.1.outF e) (O e))) := by
  intro r
  have hinit := absSt_init lat G entry prio
  have hspec := runH_spec lat hl G hG tr hm entry rank H hr prio fuel (init lat G entry) (initHeap prio G.n)
    (initHeap_spec prio G.n).1 (by rw [hinit]; exact Reach.init)
    (by rw [hinit, Dense.mu_init]; exact hf)
  have hterm : Dense.Terminal (absSt r.1 r.2) := by
    intro b
    have h0 : r.2.heap.toList = [] := by
      have := hspec.1
      exact List.eq_nil_of_length_eq_zero (by rw [Array.length_toList]; exact this)
    simp [absSt, h0]
  have hfix := dense_fixpoint lat hl G hG tr entry _ hspec.2 hterm
  exact ⟨hspec.1, hfix.2.1, hfix.2.2,
    fun I O hs => dense_least lat hl G hG tr hm entry _ hspec.2 hterm I O hs⟩

/-! non-vacuity: the cycle graph `exG` of Theorems.lean (0 ⇄ 1, isolated self loop 2) with the
*reversed* priority table; the concrete heap run ends empty with the same facts as the
set-queue run. -/
example :
    let r := runH exLat exG exTr (fun b => 2 - b) 100 (init exLat exG (fun _ => false)) (initHeap (fun b => 2 - b) 3)
    r.2.heap.size = 0 ∧ r.1.inF 0 = true ∧ r.1.inF 1 = true ∧ r.1.inF 2 = false := by
  refine ⟨?_, by decide, by decide, by decide⟩
  exact (dense_forward_heap_least_fixpoint exLat exLat_laws exG exG_wf exTr exTr_mono (fun _ => false) _ 1
    exRanked (fun b => 2 - b) 100 (by decide)).1

/-- the queue on more than one bitmap word (130 nodes, three words): nodes 5, 64, 129, 70
and 64 again enqueued, two dequeued in priority order. -/
example :
    let prio : Nat → Nat := fun b => 200 - b
    let h := ((((NodeHeap.empty 130).enqueue prio 5).enqueue prio 64).enqueue prio 129).enqueue prio 70
    let h := h.enqueue prio 64
    let d1 := h.dequeue prio
    let d2 := d1.2.dequeue prio
    h.inQueue.size = 3 ∧ h.heap.size = 4 ∧ d1.1 = 129 ∧ d2.1 = 70 ∧ d2.2.heap.size = 2 ∧
    testQ d2.2.inQueue 129 = false ∧ testQ d2.2.inQueue 70 = false ∧ testQ d2.2.inQueue 64 = true ∧
    testQ d2.2.inQueue 5 = true := by
  decide

end Verif.C13
