import Verif.C13.SparseMLemmas
import Verif.C13.Theorems
/-!
C13 — `sparse.Instance.Forward` with **multi-mapping transfers** (`SparseM`, Model.lean).

The Go API lets a transfer function return several mappings for one instruction
(`sparse.Ms(M(v1, …), M(v2, …))`), for arbitrary values; the loop stores every changed one
and re-enqueues `*instr.Referrers()` if any of them changed.  The theorems of Theorems.lean
(`sparse_*`) cover transfers that map exactly the instruction's own value; the ones below
cover the whole API:

* hypotheses about the client, `SparseM.Spec` (SparseMLemmas.lean): all instructions that
  map a value `w` map it to the same state `F w val`; `F w` reads the values `rd w`; and the
  dependency hypothesis `enq`: each mapping is either *stable* (always the state the value
  was given before `Forward`) or every instruction with a mapping that reads the mapped
  value is a referrer of the mapping instruction.  `SparseM.SpecMono`: monotone, and the
  initial states are below what the mappings make of them.
* `sparsem_generalises_sparse`: the single-mapping model of Theorems.lean is the instance
  `tr i = [(i, P.tr i val)]` (`[]` for instructions without a mapping).
* `sparsem_flag_must_accumulate`: the re-enqueue decision must be the OR over all mappings
  of the instruction — a solver that looks at the last mapping only stops, on a three
  instruction program satisfying every hypothesis, in a state that violates the equations.
-/
namespace Verif.C13

variable {L : Type}

section sparsem
open SparseM

/-- **sparsem_fixpoint.** With an empty worklist every mapping of every instruction is
satisfied by the final states (for a phi: its state is the merge of its edges' states; for
any other instruction: *each* `(value, state)` its transfer returns on the final mapping is
what is stored), and values mapped by no instruction keep the state they were given. -/
theorem sparsem_fixpoint (lat : Lat L) (hl : lat.Laws) (P : Prog L) (val0 : Nat → L)
    (tgt : Nat → List Nat) (F : Nat → (Nat → L) → L) (rd : Nat → List Nat)
    (hs : Spec lat P val0 tgt F rd) (s : Sparse.St L) (hr : Reach lat P val0 s)
    (ht : Sparse.Terminal s) :
    (∀ i, i < P.n → P.isPhi i = true → s.val i = joinL lat ((P.edges i).map s.val)) ∧
    (∀ i, i < P.n → P.isPhi i = false → ∀ d ∈ P.tr i s.val, s.val d.1 = d.2) ∧
    (∀ i, i < P.n → ∀ w ∈ tgt i, s.val w = F w s.val) ∧
    (∀ v, (∀ i, i < P.n → v ∉ tgt i) → s.val v = val0 v) := by
  have hi := inv_reach hl hs s hr
  have hall : ∀ i, i < P.n → ∀ d ∈ mappings lat P s.val i, s.val d.1 = d.2 := by
    intro i hin d hd
    rw [hs.maps_eq i hin] at hd
    obtain ⟨w, hw, rfl⟩ := List.mem_map.1 hd
    exact hi.fix i hin (ht i) w hw
  refine ⟨?_, ?_, fun i hin w hw => hi.fix i hin (ht i) w hw, hi.frame⟩
  · intro i hin hphi
    have := hall i hin (i, (P.edges i).foldl (fun d v => lat.merge d (s.val v)) lat.bot)
      (by simp [mappings, hphi])
    simp only at this
    rw [this, Sparse.phi_fold]; rfl
  · intro i hin hphi d hd
    exact hall i hin d (by simpa [mappings, hphi] using hd)

/-- **sparsem_least.** Every reachable mapping — in particular the final one — is below
every pre-solution `τ` (above the initial states, closed under all mappings). -/
theorem sparsem_least (lat : Lat L) (hl : lat.Laws) (P : Prog L) (val0 : Nat → L)
    (tgt : Nat → List Nat) (F : Nat → (Nat → L) → L) (rd : Nat → List Nat)
    (hs : Spec lat P val0 tgt F rd) (hm : SpecMono lat P val0 tgt F) (s : Sparse.St L)
    (hr : Reach lat P val0 s) (τ : Nat → L) (hp : PreSol lat P val0 tgt F τ) :
    ∀ v, lat.le (s.val v) (τ v) :=
  below_reach hl hs hm τ hp s hr

/-- an exact solution above the initial states is a pre-solution; when the mapped values
start at `Ident` or have a stable mapping, *every* exact solution is above them. -/
theorem SparseM.presol_of_solution (lat : Lat L) (hl : lat.Laws) (P : Prog L) (val0 τ : Nat → L)
    (tgt : Nat → List Nat) (F : Nat → (Nat → L) → L)
    (h0 : ∀ i w, i < P.n → w ∈ tgt i → val0 w = lat.bot ∨ ∀ val, F w val = val0 w)
    (h1 : ∀ i, i < P.n → ∀ w ∈ tgt i, τ w = F w τ)
    (h2 : ∀ v, (∀ i, i < P.n → v ∉ tgt i) → τ v = val0 v) : PreSol lat P val0 tgt F τ := by
  refine ⟨?_, ?_⟩
  · intro v
    by_cases hv : ∀ i, i < P.n → v ∉ tgt i
    · rw [h2 v hv]; exact hl.le_refl _
    · have : ∃ i, i < P.n ∧ v ∈ tgt i := by
        by_cases h : ∃ i, i < P.n ∧ v ∈ tgt i
        · exact h
        · exact absurd (fun i hi hm => h ⟨i, hi, hm⟩) hv
      obtain ⟨i, hi, hm⟩ := this
      rcases h0 i v hi hm with hb | hst
      · rw [hb]; exact hl.bot_le _
      · rw [h1 i hi v hm, hst]; exact hl.le_refl _
  · intro i hi w hw
    rw [← h1 i hi w hw]; exact hl.le_refl _

/-- **sparsem_schedule_independent.** Any two complete runs — any two orders in which the Go
map `worklist` is visited — end with the same mapping. -/
theorem sparsem_schedule_independent (lat : Lat L) (hl : lat.Laws) (P : Prog L) (val0 : Nat → L)
    (tgt : Nat → List Nat) (F : Nat → (Nat → L) → L) (rd : Nat → List Nat)
    (hs : Spec lat P val0 tgt F rd) (hm : SpecMono lat P val0 tgt F)
    (s t : Sparse.St L) (hrs : Reach lat P val0 s) (hts : Sparse.Terminal s)
    (hrt : Reach lat P val0 t) (htt : Sparse.Terminal t) : ∀ v, s.val v = t.val v := by
  have presol : ∀ u : Sparse.St L, Reach lat P val0 u → Sparse.Terminal u → PreSol lat P val0 tgt F u.val := by
    intro u hu htu
    have hi := inv_reach hl hs u hu
    have ha := asc_reach hl hs hm u hu
    refine ⟨ha.above, ?_⟩
    intro i hin w hw
    rw [← hi.fix i hin (htu i) w hw]; exact hl.le_refl _
  intro v
  exact hl.le_antisymm (sparsem_least lat hl P val0 tgt F rd hs hm s hrs t.val (presol t hrt htt) v)
    (sparsem_least lat hl P val0 tgt F rd hs hm t hrt s.val (presol s hrs hts) v)

def SparseM.StepR (lat : Lat L) (P : Prog L) (val0 : Nat → L) (s' s : Sparse.St L) : Prop :=
  Reach lat P val0 s ∧ ∃ i, s.w i = true ∧ s' = process lat P s i

/-- **sparsem_terminates.** Finite height and finitely many mapped values (`< nv`) ⇒ no
infinite run. -/
theorem sparsem_terminates (lat : Lat L) (hl : lat.Laws) (P : Prog L) (val0 : Nat → L)
    (tgt : Nat → List Nat) (F : Nat → (Nat → L) → L) (rd : Nat → List Nat)
    (hs : Spec lat P val0 tgt F rd) (hm : SpecMono lat P val0 tgt F)
    (rank : L → Nat) (H : Nat) (hr : Ranked lat rank H) (nv : Nat)
    (htl : ∀ i w, i < P.n → w ∈ tgt i → w < nv) :
    WellFounded (SparseM.StepR lat P val0) := by
  apply Subrelation.wf (r := InvImage (· < ·) (mu P rank H nv)) _ (InvImage.wf _ Nat.lt_wfRel.wf)
  intro s' s ⟨hreach, i, hq, he⟩
  show mu P rank H nv s' < mu P rank H nv s
  rw [he]
  exact mu_step hl hr hs htl s i (inv_reach hl hs s hreach) (asc_reach hl hs hm s hreach) hq

theorem SparseM.pick_mem (P : Prog L) (s : Sparse.St L) (pick : Nat → List Nat → Nat) (k x : Nat)
    (xs : List Nat) (hq : queued P s = x :: xs) :
    s.w ((x :: xs).getD (pick k (x :: xs) % (x :: xs).length) x) = true := by
  have hmem : (x :: xs).getD (pick k (x :: xs) % (x :: xs).length) x ∈ queued P s := by
    rw [hq, List.getD_eq_getElem?_getD]
    have hlt : pick k (x :: xs) % (x :: xs).length < (x :: xs).length := Nat.mod_lt _ (by simp)
    rw [List.getElem?_eq_getElem hlt]
    exact List.getElem_mem hlt
  simp only [queued, List.mem_filter] at hmem
  exact hmem.2

theorem SparseM.reify_eq (P : Prog L) (nv : Nat) (s : Sparse.St L) : reify P nv s = s := by
  unfold reify
  have h : ∀ {α : Type} (N : Nat) (f : Nat → α), lookupTab (tab N f) f = f := tabulate_eq
  simp only [h]

theorem SparseM.run_reach (lat : Lat L) (P : Prog L) (val0 : Nat → L) (nv : Nat)
    (pick : Nat → List Nat → Nat) (fuel k : Nat) (s : Sparse.St L) (hs : Reach lat P val0 s) :
    Reach lat P val0 (run lat P nv pick fuel k s).1 := by
  induction fuel generalizing k s with
  | zero => exact hs
  | succ f ih =>
    unfold run
    split
    · exact hs
    · rename_i x xs hq
      simp only [SparseM.reify_eq]
      exact ih _ _ (Reach.step hs (SparseM.pick_mem P s pick k x xs hq))

/-- **sparsem_run_terminal.** The executable `SparseM.run` (what the model driver runs)
stops with an empty worklist within `mu` iterations, for every schedule. -/
theorem sparsem_run_terminal (lat : Lat L) (hl : lat.Laws) (P : Prog L) (val0 : Nat → L)
    (tgt : Nat → List Nat) (F : Nat → (Nat → L) → L) (rd : Nat → List Nat)
    (hs : Spec lat P val0 tgt F rd) (hm : SpecMono lat P val0 tgt F)
    (rank : L → Nat) (H : Nat) (hr : Ranked lat rank H) (nv : Nat)
    (htl : ∀ i w, i < P.n → w ∈ tgt i → w < nv)
    (pick : Nat → List Nat → Nat) (fuel k : Nat) (s : Sparse.St L) (hrs : Reach lat P val0 s)
    (hf : mu P rank H nv s ≤ fuel) : Sparse.Terminal (run lat P nv pick fuel k s).1 := by
  induction fuel generalizing k s with
  | zero =>
    have hi := inv_reach hl hs s hrs
    intro b
    show s.w b = false
    cases hq : s.w b
    · rfl
    · exfalso
      have hbn := hi.w_lt b hq
      have hc : cnt s.w P.n = 0 := by unfold mu at hf; omega
      have := (cnt_zero_iff s.w P.n).1 hc b hbn
      rw [hq] at this; cases this
  | succ f ih =>
    unfold run
    split
    · rename_i hq
      have hi := inv_reach hl hs s hrs
      intro b
      cases hqb : s.w b
      · rfl
      · exfalso
        have : b ∈ queued P s := by
          simp only [queued, List.mem_filter, List.mem_range]
          exact ⟨hi.w_lt b hqb, hqb⟩
        rw [hq] at this; cases this
    · rename_i x xs hq
      have hmem := SparseM.pick_mem P s pick k x xs hq
      simp only [SparseM.reify_eq]
      apply ih _ _ (Reach.step hrs hmem)
      have := mu_step hl hr hs htl s _ (inv_reach hl hs s hrs) (asc_reach hl hs hm s hrs) hmem
      omega

theorem SparseM.mu_init_le (P : Prog L) (val0 : Nat → L) (rank : L → Nat) (H nv : Nat) :
    mu P rank H nv (init P val0) ≤ nv * H * (P.n + 1) + P.n := by
  have h1 : sumTo (phi rank H (init P val0)) nv ≤ sumTo (fun _ => H) nv :=
    sumTo_le nv (fun x _ => by simp only [phi]; omega)
  rw [sumTo_const, Nat.mul_comm H nv] at h1
  have h2 := cnt_le (init P val0).w P.n
  unfold mu
  have := Nat.mul_le_mul_right (P.n + 1) h1
  omega

/-- **sparsem_forward_least_fixpoint.** `sparse.Instance.Forward` as a whole, for transfer
functions returning any number of mappings: from the initial worklist (every instruction),
under any order of taking instructions from it, with at least `nv·H·(n+1) + n` iterations of
fuel (`nv` bounds the mapped values, `H` the lattice height), the loop ends with an empty
worklist in a mapping that satisfies every instruction's mappings (phi = merge of its
edges), leaves unmapped values untouched, and is below every pre-solution. -/
theorem sparsem_forward_least_fixpoint (lat : Lat L) (hl : lat.Laws) (P : Prog L) (val0 : Nat → L)
    (tgt : Nat → List Nat) (F : Nat → (Nat → L) → L) (rd : Nat → List Nat)
    (hs : Spec lat P val0 tgt F rd) (hm : SpecMono lat P val0 tgt F)
    (rank : L → Nat) (H : Nat) (hr : Ranked lat rank H) (nv : Nat)
    (htl : ∀ i w, i < P.n → w ∈ tgt i → w < nv)
    (pick : Nat → List Nat → Nat) (fuel : Nat) (hf : nv * H * (P.n + 1) + P.n ≤ fuel) :
    let s := (run lat P nv pick fuel 0 (init P val0)).1
    Sparse.Terminal s ∧
    (∀ i, i < P.n → P.isPhi i = true → s.val i = joinL lat ((P.edges i).map s.val)) ∧
    (∀ i, i < P.n → P.isPhi i = false → ∀ d ∈ P.tr i s.val, s.val d.1 = d.2) ∧
    (∀ v, (∀ i, i < P.n → v ∉ tgt i) → s.val v = val0 v) ∧
    (∀ τ, PreSol lat P val0 tgt F τ → ∀ v, lat.le (s.val v) (τ v)) := by
  intro s
  have hreach : Reach lat P val0 s := SparseM.run_reach lat P val0 nv pick fuel 0 _ Reach.init
  have hterm : Sparse.Terminal s :=
    sparsem_run_terminal lat hl P val0 tgt F rd hs hm rank H hr nv htl pick fuel 0 _ Reach.init
      (Nat.le_trans (SparseM.mu_init_le P val0 rank H nv) hf)
  have hfix := sparsem_fixpoint lat hl P val0 tgt F rd hs s hreach hterm
  exact ⟨hterm, hfix.1, hfix.2.1, hfix.2.2.2,
    fun τ hp => sparsem_least lat hl P val0 tgt F rd hs hm s hreach τ hp⟩

/-! ### the single-mapping model is an instance -/

/-- `Sparse.Prog` (one mapping, for the instruction's own value, or none) as a `SparseM.Prog`. -/
def SparseM.ofSparse (P : Sparse.Prog L) : Prog L :=
  { n := P.n
    isPhi := fun i => decide (P.kind i = .phi)
    edges := P.ops
    refs := P.refs
    tr := fun i val => match P.kind i with
      | .op => [(i, P.tr i val)]
      | _ => [] }

/-- **sparsem_generalises_sparse.** On such programs one iteration of the multi-mapping
model is one iteration of the model the `sparse_*` theorems are about. -/
theorem sparsem_generalises_sparse (lat : Lat L) (P : Sparse.Prog L) (s : Sparse.St L) (i : Nat) :
    process lat (SparseM.ofSparse P) s i = Sparse.process lat P s i := by
  have hm : mappings lat (SparseM.ofSparse P) s.val i =
      (match P.kind i with
       | .none => []
       | _ => [(i, Sparse.newVal lat P s.val i)]) := by
    unfold mappings SparseM.ofSparse Sparse.newVal
    cases hk : P.kind i <;> simp [hk]
  unfold process Sparse.process
  rw [hm]
  cases hk : P.kind i
  · simp only [store, List.foldl, storeStep, SparseM.ofSparse]
    cases he : lat.eq (Sparse.newVal lat P s.val i) (s.val i) <;> simp
  · simp only [store, List.foldl, storeStep, SparseM.ofSparse]
    cases he : lat.eq (Sparse.newVal lat P s.val i) (s.val i) <;> simp
  · simp [store]

/-! ### non-vacuity

`v0 = phi(v1)`; instruction 1 is `v1 = op(v3, v0)` (a loop through the phi) whose transfer
returns `[(v1 ↦ v3 ⊔ v0), (v3 ↦ true)]` — its own mapping and, *after* it in the list, a
stable mapping for the parameter `v3` (which was `Set` to `true`); instruction 2 has no
mapping. -/
section example_sparsem
def exPM : Prog Bool :=
  { n := 3
    isPhi := fun i => i == 0
    edges := fun i => if i = 0 then [1] else []
    refs := fun i => if i = 0 then [1] else if i = 1 then [0] else []
    tr := fun i val => if i = 1 then [(1, val 3 || val 0), (3, true)] else [] }

def exTgt : Nat → List Nat := fun i => if i = 0 then [0] else if i = 1 then [1, 3] else []
def exF : Nat → (Nat → Bool) → Bool := fun w val =>
  if w = 0 then joinL exLat ([1].map val) else if w = 1 then (val 3 || val 0) else w == 3
def exRd : Nat → List Nat := fun w => if w = 0 then [1] else if w = 1 then [3, 0] else []
def exVal0M : Nat → Bool := fun v => v == 3

theorem lt3 {i : Nat} (h : i < 3) : i = 0 ∨ i = 1 ∨ i = 2 := by omega

theorem exPM_spec : Spec exLat exPM exVal0M exTgt exF exRd := by
  refine ⟨?_, ?_, ?_, ?_⟩
  · intro i x hi hx
    have hi' : i < 3 := hi
    show x < 3
    rcases lt3 hi' with rfl | rfl | rfl <;> simp [exPM] at hx <;> omega
  · intro i hi val
    have hi' : i < 3 := hi
    rcases lt3 hi' with rfl | rfl | rfl
    · simp [mappings, exPM, exTgt, exF, joinL, exLat]
    · simp [mappings, exPM, exTgt, exF]
    · simp [mappings, exPM, exTgt]
  · intro w val val' h
    unfold exF
    by_cases h0 : w = 0
    · subst h0
      have b := h 1 (by simp [exRd])
      simp [b]
    · by_cases h1 : w = 1
      · subst h1
        have a := h 3 (by simp [exRd])
        have b := h 0 (by simp [exRd])
        simp [a, b]
      · simp [h0, h1]
  · intro i u hi hu
    have hi' : i < 3 := hi
    rcases lt3 hi' with rfl | rfl | rfl
    · -- the phi's value 0 is read by the mapping for value 1, of instruction 1 ∈ refs 0
      right
      simp only [exTgt, if_true, List.mem_singleton] at hu
      subst hu
      intro j w hj hw hrd
      have hj' : j < 3 := hj
      rcases lt3 hj' with rfl | rfl | rfl
      · simp only [exTgt, if_true, List.mem_singleton] at hw; subst hw; simp [exRd] at hrd
      · simp [exPM]
      · simp [exTgt] at hw
    · simp [exTgt] at hu
      rcases hu with rfl | rfl
      · -- value 1 is read by the phi 0 ∈ refs 1
        right
        intro j w hj hw hrd
        have hj' : j < 3 := hj
        rcases lt3 hj' with rfl | rfl | rfl
        · simp [exPM]
        · simp [exTgt] at hw
          rcases hw with rfl | rfl <;> simp [exRd] at hrd
        · simp [exTgt] at hw
      · -- the mapping for the parameter is stable
        left; intro val; simp [exF, exVal0M]
    · simp [exTgt] at hu

theorem exPM_mono : SpecMono exLat exPM exVal0M exTgt exF := by
  refine ⟨?_, ?_⟩
  · intro w val val' h
    unfold exF
    by_cases h0 : w = 0
    · subst h0
      simp only [if_true]
      exact exLat_laws.joinL_map_mono _ _ _ (fun v _ => h v)
    · by_cases h1 : w = 1
      · subst h1
        simp only [h0, if_false, if_true]
        exact exLat_laws.merge_mono (h 3) (h 0)
      · simp only [h0, h1, if_false]; exact exLat_laws.le_refl _
  · intro i w hi hw
    have hi' : i < 3 := hi
    rcases lt3 hi' with rfl | rfl | rfl
    · simp only [exTgt, if_true, List.mem_singleton] at hw; subst hw; unfold Lat.le; decide
    · simp [exTgt] at hw
      rcases hw with rfl | rfl <;> (unfold Lat.le; decide)
    · simp [exTgt] at hw

theorem exTgt_lt : ∀ i w, i < exPM.n → w ∈ exTgt i → w < 4 := by
  intro i w hi hw
  have hi' : i < 3 := hi
  rcases lt3 hi' with rfl | rfl | rfl <;> simp [exTgt] at hw <;> omega

/-- the hypotheses of all `sparsem_*` theorems are jointly satisfiable (a loop through a phi
and a two-mapping transfer), and the run gives a non-trivial result. -/
example :
    let r := (run exLat exPM 4 (fun _ _ => 0) 100 0 (init exPM exVal0M)).1
    Sparse.Terminal r ∧ r.val 0 = true ∧ r.val 1 = true ∧ r.val 2 = false ∧ r.val 3 = true := by
  refine ⟨?_, by decide, by decide, by decide, by decide⟩
  exact sparsem_run_terminal exLat exLat_laws exPM exVal0M exTgt exF exRd exPM_spec exPM_mono _ 1
    exRanked 4 exTgt_lt _ 100 0 _ Reach.init (by decide)

/-! ### the re-enqueue flag must be OR-ed over the mappings -/

/-- the loop over the mappings with a "changed" flag that is overwritten by each mapping
(`changed = !Equals(…)`) instead of accumulated. -/
def SparseM.storeLast (lat : Lat L) (val : Nat → L) (ds : List (Nat × L)) : (Nat → L) × Bool :=
  ds.foldl (fun acc d => if lat.eq d.2 (acc.1 d.1) then (acc.1, false) else (upd acc.1 d.1 d.2, true))
    (val, false)

def SparseM.processLast (lat : Lat L) (P : Prog L) (s : Sparse.St L) (i : Nat) : Sparse.St L :=
  let r := SparseM.storeLast lat s.val (mappings lat P s.val i)
  let w1 : Nat → Bool := fun x => s.w x && !(x == i)
  { val := r.1, w := if r.2 then (fun x => w1 x || (P.refs i).contains x) else w1 }

/-- **sparsem_flag_must_accumulate.** The hypotheses do not make the OR over the mappings
redundant: on `exPM` (which satisfies `Spec` and `SpecMono`), taking the instructions in the
order 0, 1, 2 with the *overwritten* flag empties the worklist in a state that violates the
phi's equation `v0 = ⨆[v1]` (`v1` became `true` after the phi was evaluated; the stable
mapping listed after it reset the flag, so the phi was not re-enqueued), whereas the loop
body of the model (`process`) re-enqueues the phi and ends in the fixpoint. -/
theorem sparsem_flag_must_accumulate :
    let bad := SparseM.processLast exLat exPM (SparseM.processLast exLat exPM
      (SparseM.processLast exLat exPM (init exPM exVal0M) 0) 1) 2
    let good := process exLat exPM (process exLat exPM (process exLat exPM (process exLat exPM
      (process exLat exPM (init exPM exVal0M) 0) 1) 2) 0) 1
    ((∀ i, i < 3 → bad.w i = false) ∧ bad.val 0 ≠ joinL exLat ((exPM.edges 0).map bad.val)) ∧
    ((∀ i, i < 3 → good.w i = false) ∧ good.val 0 = joinL exLat ((exPM.edges 0).map good.val)) := by
  decide

end example_sparsem

end sparsem

end Verif.C13
