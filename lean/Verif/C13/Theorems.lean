import Verif.C13.DenseLemmas
import Verif.C13.SparseLemmas
import Verif.C13.MapLemmas
import Verif.C13.ReprInst
/-!
C13 — property theorems, dense solver (`dense.Forward`).

Everything is stated for the transition system `Dense.Reach` of Model.lean: *any* order of
taking nodes from the queue (the real `nodeHeap` order is one of them), any finite graph
`G` (cycles, irreducible regions, unreachable nodes, several entry nodes, parallel edges,
self loops — no restriction beyond `G.WF`: edge ends are nodes), any lattice satisfying the
documented laws, any monotone edge transfer, any entry facts.

Unreachable nodes: the real code enqueues *every* node and treats all alike, so the
equations below hold for every node; a node without predecessors has `in = entry fact`
(or `Ident`), whether or not it is "the" entry. Entry facts given for nodes that have
predecessors are ignored by the real code (and by the model).
-/
namespace Verif.C13

variable {L : Type}

section dense
open Dense

/-- the queue is empty. -/
def Dense.Terminal (s : St L) : Prop := ∀ b, s.q b = false

/-- **dense_fixpoint.** When the queue is empty, no node is dirty, every node's input is
the merge (fold of `Merge` from `Ident`) of the facts on its incoming edges — the entry
fact for a node without incoming edges — and every edge fact is the transfer of its
source's input. -/
theorem dense_fixpoint (lat : Lat L) (hl : lat.Laws) (G : Graph) (hG : G.WF) (tr : Nat → L → L)
    (entry : Nat → L) (s : St L) (hr : Reach lat G tr entry s) (ht : Dense.Terminal s) :
    (∀ b, b < G.n → s.dirty b = false) ∧
    (∀ b, b < G.n → s.inF b =
        if inEdges G b = [] then entry b else joinL lat ((inEdges G b).map s.outF)) ∧
    (∀ e, e < G.m → s.outF e = tr e (s.inF (G.src e))) := by
  have hi := inv_reach lat G tr hl hG entry s hr
  have hclean : ∀ b, b < G.n → s.dirty b = false := by
    intro b hb
    cases hd : s.dirty b
    · rfl
    · have := hi.dirty_q b hb hd
      rw [ht b] at this; cases this
  refine ⟨hclean, ?_, ?_⟩
  · intro b hb
    by_cases hn : inEdges G b = []
    · simp only [hn, if_true]; exact hi.j5 b hb hn
    · simp only [hn, if_false]
      rw [hi.j2 b hb (ht b), computeIn_cons lat G hl s b hn]
      congr 1
      apply List.map_congr_left
      intro e he
      unfold edgeVal
      rw [hclean _ (hG e (mem_inEdges.1 he).1).1]
      simp
  · intro e he
    exact hi.j1 e he (hclean _ (hG e he).1)

/-- **dense_least.** The result is below every solution — indeed below every
*pre*-solution `(I, O)` (closed under entry facts, merges and transfers; `PreSol`), so in
particular below every exact solution of the equations of `dense_fixpoint`. -/
theorem dense_least (lat : Lat L) (hl : lat.Laws) (G : Graph) (hG : G.WF) (tr : Nat → L → L)
    (hm : Mono lat tr) (entry : Nat → L) (s : St L) (hr : Reach lat G tr entry s)
    (ht : Dense.Terminal s) (I O : Nat → L) (hs : PreSol lat G tr entry I O) :
    (∀ b, b < G.n → lat.le (s.inF b) (I b)) ∧ (∀ e, e < G.m → lat.le (s.outF e) (O e)) := by
  have hb := below_reach lat G tr hl hG hm entry I O hs s hr
  have hf := dense_fixpoint lat hl G hG tr entry s hr ht
  exact ⟨fun b hbn => hb.in_le b hbn (hf.1 b hbn), hb.out_le⟩

/-- an exact solution of the equations is a pre-solution (so `dense_least` applies to it). -/
theorem Dense.presol_of_solution (lat : Lat L) (hl : lat.Laws) (G : Graph) (tr : Nat → L → L)
    (entry I O : Nat → L)
    (hI : ∀ b, b < G.n → I b = if inEdges G b = [] then entry b else joinL lat ((inEdges G b).map O))
    (hO : ∀ e, e < G.m → O e = tr e (I (G.src e))) : PreSol lat G tr entry I O := by
  refine ⟨?_, ?_, ?_⟩
  · intro b hb hn; rw [hI b hb]; simp only [hn, if_true]; exact hl.le_refl _
  · intro b hb hn; rw [hI b hb]; simp only [hn, if_false]; exact hl.le_refl _
  · intro e he; rw [hO e he]; exact hl.le_refl _

/-- **dense_schedule_independent.** Any two runs (any two orders of taking nodes from the
queue, e.g. the heap order of the real code and the order the driver uses) end with the
same facts. -/
theorem dense_schedule_independent (lat : Lat L) (hl : lat.Laws) (G : Graph) (hG : G.WF)
    (tr : Nat → L → L) (hm : Mono lat tr) (entry : Nat → L) (s t : St L)
    (hs : Reach lat G tr entry s) (hst : Dense.Terminal s)
    (ht : Reach lat G tr entry t) (htt : Dense.Terminal t) :
    (∀ b, b < G.n → s.inF b = t.inF b) ∧ (∀ e, e < G.m → s.outF e = t.outF e) := by
  have fs := dense_fixpoint lat hl G hG tr entry s hs hst
  have ft := dense_fixpoint lat hl G hG tr entry t ht htt
  have ps := presol_of_solution lat hl G tr entry s.inF s.outF fs.2.1 fs.2.2
  have pt := presol_of_solution lat hl G tr entry t.inF t.outF ft.2.1 ft.2.2
  have l1 := dense_least lat hl G hG tr hm entry s hs hst t.inF t.outF pt
  have l2 := dense_least lat hl G hG tr hm entry t ht htt s.inF s.outF ps
  exact ⟨fun b hb => hl.le_antisymm (l1.1 b hb) (l2.1 b hb),
         fun e he => hl.le_antisymm (l1.2 e he) (l2.2 e he)⟩

/-- one step of the solver from a reachable state. -/
def Dense.StepR (lat : Lat L) (G : Graph) (tr : Nat → L → L) (entry : Nat → L) (s' s : St L) : Prop :=
  Reach lat G tr entry s ∧ ∃ b, s.q b = true ∧ s' = process lat G tr s b

/-- **dense_terminates.** Over a lattice of finite height (rank function `rank ≤ H`,
strictly increasing along `⊑`) there is no infinite run: the step relation on reachable
states is well founded, each step decreasing `Dense.mu`. -/
theorem dense_terminates (lat : Lat L) (hl : lat.Laws) (G : Graph) (hG : G.WF) (tr : Nat → L → L)
    (hm : Mono lat tr) (entry : Nat → L) (rank : L → Nat) (H : Nat) (hr : Ranked lat rank H) :
    WellFounded (Dense.StepR lat G tr entry) := by
  apply Subrelation.wf (r := InvImage (· < ·) (mu G rank H)) _ (InvImage.wf _ Nat.lt_wfRel.wf)
  intro s' s ⟨hreach, b, hb, he⟩
  show mu G rank H s' < mu G rank H s
  rw [he]
  exact mu_step lat G tr rank H hl hr entry s b (inv_reach lat G tr hl hG entry s hreach)
    (asc_reach lat G tr hl hG hm entry s hreach) hb

/-- `k` solver iterations lead from `s` to `t`. -/
inductive Dense.Steps (lat : Lat L) (G : Graph) (tr : Nat → L → L) : Nat → St L → St L → Prop
  | refl (s : St L) : Dense.Steps lat G tr 0 s s
  | cons {k : Nat} {s t : St L} {b : Nat} : s.q b = true → Dense.Steps lat G tr k (process lat G tr s b) t →
      Dense.Steps lat G tr (k + 1) s t

/-- **dense_run_length.** Explicit bound: a run from the initial state has at most
`mu init = n·(H+1)·(n+1) + n` iterations, whatever the schedule. -/
theorem dense_run_length (lat : Lat L) (hl : lat.Laws) (G : Graph) (hG : G.WF) (tr : Nat → L → L)
    (hm : Mono lat tr) (entry : Nat → L) (rank : L → Nat) (H : Nat) (hr : Ranked lat rank H)
    (k : Nat) (s t : St L) (hs : Reach lat G tr entry s) (hst : Dense.Steps lat G tr k s t) :
    k + mu G rank H t ≤ mu G rank H s := by
  induction hst with
  | refl s => omega
  | @cons k s0 t0 b hb _ ih =>
    have h1 := mu_step lat G tr rank H hl hr entry s0 b (inv_reach lat G tr hl hG entry s0 hs)
      (asc_reach lat G tr hl hG hm entry s0 hs) hb
    have h2 := ih (Reach.step hs hb)
    omega

/-- the executable `Dense.run` (the function the model driver runs) only visits reachable
states … -/
theorem Dense.run_reach (lat : Lat L) (G : Graph) (tr : Nat → L → L) (entry : Nat → L)
    (pick : Nat → List Nat → Nat) (fuel k : Nat) (s : St L) (hs : Reach lat G tr entry s) :
    Reach lat G tr entry (run lat G tr pick fuel k s).1 := by
  induction fuel generalizing k s with
  | zero => exact hs
  | succ f ih =>
    unfold run
    split
    · exact hs
    · rename_i x xs hq
      simp only [Dense.reify_eq]
      apply ih
      apply Reach.step hs
      have hmem : (x :: xs).getD (pick k (x :: xs) % (x :: xs).length) x ∈ queued G s := by
        rw [hq]
        rw [List.getD_eq_getElem?_getD]
        have hlt : pick k (x :: xs) % (x :: xs).length < (x :: xs).length :=
          Nat.mod_lt _ (by simp)
        rw [List.getElem?_eq_getElem hlt]
        exact List.getElem_mem hlt
      simp only [queued, List.mem_filter] at hmem
      exact hmem.2

/-- … and, given at least `mu` fuel, stops with an empty queue: with `dense_fixpoint` and
`dense_least` its result is the least fixpoint, for every schedule `pick`. -/
theorem dense_run_terminal (lat : Lat L) (hl : lat.Laws) (G : Graph) (hG : G.WF) (tr : Nat → L → L)
    (hm : Mono lat tr) (entry : Nat → L) (rank : L → Nat) (H : Nat) (hr : Ranked lat rank H)
    (pick : Nat → List Nat → Nat) (fuel k : Nat) (s : St L) (hs : Reach lat G tr entry s)
    (hf : mu G rank H s ≤ fuel) : Dense.Terminal (run lat G tr pick fuel k s).1 := by
  induction fuel generalizing k s with
  | zero =>
    -- mu = 0 means the queue is already empty
    have hi := inv_reach lat G tr hl hG entry s hs
    intro b
    show s.q b = false
    cases hq : s.q b
    · rfl
    · exfalso
      have hbn := hi.q_lt b hq
      have hc : cnt s.q G.n = 0 := by unfold mu at hf; omega
      have := (cnt_zero_iff s.q G.n).1 hc b hbn
      rw [hq] at this; cases this
  | succ f ih =>
    unfold run
    split
    · rename_i hq
      have hi := inv_reach lat G tr hl hG entry s hs
      intro b
      cases hqb : s.q b
      · rfl
      · exfalso
        have : b ∈ queued G s := by
          simp only [queued, List.mem_filter, List.mem_range]
          exact ⟨hi.q_lt b hqb, hqb⟩
        rw [hq] at this; cases this
    · rename_i x xs hq
      have hmem : (x :: xs).getD (pick k (x :: xs) % (x :: xs).length) x ∈ queued G s := by
        rw [hq]
        rw [List.getD_eq_getElem?_getD]
        have hlt : pick k (x :: xs) % (x :: xs).length < (x :: xs).length :=
          Nat.mod_lt _ (by simp)
        rw [List.getElem?_eq_getElem hlt]
        exact List.getElem_mem hlt
      simp only [queued, List.mem_filter] at hmem
      simp only [Dense.reify_eq]
      apply ih _ _ (Reach.step hs hmem.2)
      have := mu_step lat G tr rank H hl hr entry s _ (inv_reach lat G tr hl hG entry s hs)
        (asc_reach lat G tr hl hG hm entry s hs) hmem.2
      omega


/-! ### the whole of `dense.Forward`, in one statement -/

/-- the initial state's measure: every node dirty and queued. -/
theorem Dense.mu_init (lat : Lat L) (G : Graph) (entry : Nat → L) (rank : L → Nat) (H : Nat) :
    mu G rank H (init lat G entry) = G.n * (H + 1) * (G.n + 1) + G.n := by
  have h1 : ∀ k, sumTo (phi rank H (init lat G entry)) k = k * (H + 1) := by
    intro k
    induction k with
    | zero => simp [sumTo]
    | succ k ih =>
      have hp : phi rank H (init lat G entry) k = H + 1 := by simp [phi, init]
      rw [sumTo, ih, hp, Nat.succ_mul]
  have h2 : ∀ k, k ≤ G.n → cnt (init lat G entry).q k = k := by
    intro k hk
    induction k with
    | zero => simp [cnt, sumTo]
    | succ k ih =>
      have h0 := ih (by omega)
      unfold cnt at h0 ⊢
      have hq : (init lat G entry).q k = true := by
        have : k < G.n := by omega
        simp [init, this]
      rw [sumTo, h0, hq]
      simp
  unfold mu
  rw [h1, h2 G.n (Nat.le_refl _)]

/-- **dense_forward_least_fixpoint.** `dense.Forward` as a whole: started from the state
its initialisation loop builds, run under *any* schedule `pick` (the `nodeHeap` order
included) with at least `n·(H+1)·(n+1) + n` iterations of fuel, the solver stops with an
empty queue, and the facts it then holds are a solution of the dataflow equations and lie
below every other (pre-)solution: the least fixpoint. -/
theorem dense_forward_least_fixpoint (lat : Lat L) (hl : lat.Laws) (G : Graph) (hG : G.WF)
    (tr : Nat → L → L) (hm : Mono lat tr) (entry : Nat → L) (rank : L → Nat) (H : Nat)
    (hr : Ranked lat rank H) (pick : Nat → List Nat → Nat) (fuel : Nat)
    (hf : G.n * (H + 1) * (G.n + 1) + G.n ≤ fuel) :
    let s := (run lat G tr pick fuel 0 (init lat G entry)).1
    Dense.Terminal s ∧
    (∀ b, b < G.n → s.inF b =
        if inEdges G b = [] then entry b else joinL lat ((inEdges G b).map s.outF)) ∧
    (∀ e, e < G.m → s.outF e = tr e (s.inF (G.src e))) ∧
    (∀ I O, PreSol lat G tr entry I O →
        (∀ b, b < G.n → lat.le (s.inF b) (I b)) ∧ (∀ e, e < G.m → lat.le (s.outF e) (O e))) := by
  intro s
  have hreach : Reach lat G tr entry s := Dense.run_reach lat G tr entry pick fuel 0 _ Reach.init
  have hterm : Dense.Terminal s :=
    dense_run_terminal lat hl G hG tr hm entry rank H hr pick fuel 0 _ Reach.init
      (by rw [Dense.mu_init]; exact hf)
  have hfix := dense_fixpoint lat hl G hG tr entry s hreach hterm
  exact ⟨hterm, hfix.2.1, hfix.2.2,
    fun I O hs => dense_least lat hl G hG tr hm entry s hreach hterm I O hs⟩

/-- the schedule of the real `nodeHeap`: among the queued nodes take one of least priority
(`prio` = index in reverse postorder; any priority function will do). -/
def Dense.heapPick (prio : Nat → Nat) : Nat → List Nat → Nat := fun _ l =>
  match l with
  | [] => 0
  | x :: xs => (xs.foldl (fun (acc : Nat × Nat × Nat) y =>
      if prio y < prio acc.2.1 then (acc.2.2, y, acc.2.2 + 1) else (acc.1, acc.2.1, acc.2.2 + 1)) (0, x, 1)).1

/-- the priority-heap schedule is one instance of `dense_forward_least_fixpoint`. -/
example (lat : Lat L) (hl : lat.Laws) (G : Graph) (hG : G.WF) (tr : Nat → L → L) (hm : Mono lat tr)
    (entry : Nat → L) (rank : L → Nat) (H : Nat) (hr : Ranked lat rank H) (prio : Nat → Nat) :
    Dense.Terminal (run lat G tr (Dense.heapPick prio) (G.n * (H + 1) * (G.n + 1) + G.n) 0
      (init lat G entry)).1 :=
  (dense_forward_least_fixpoint lat hl G hG tr hm entry rank H hr (Dense.heapPick prio) _
    (Nat.le_refl _)).1

/-- **dense_edge_api.** `Analysis.Edge(from, to)` finds *an* edge `from → to` by binary
search; with parallel edges it may be any of them.  The transfer function of the real API
depends on the end points only, and then all parallel edges carry the same fact. -/
theorem dense_edge_api (lat : Lat L) (hl : lat.Laws) (G : Graph) (hG : G.WF) (tr : Nat → L → L)
    (entry : Nat → L) (s : St L) (hr : Reach lat G tr entry s) (ht : Dense.Terminal s)
    (e e' : Nat) (he : e < G.m) (he' : e' < G.m) (hs : G.src e = G.src e') (htr : tr e = tr e') :
    s.outF e = s.outF e' := by
  have hf := dense_fixpoint lat hl G hG tr entry s hr ht
  rw [hf.2.2 e he, hf.2.2 e' he', hs, htr]

/-! ### non-vacuity: a two-node cycle with an unreachable third node over the union lattice -/
section example_dense
def exG : Graph := { n := 3, m := 3, src := fun e => [0, 1, 2].getD e 0, dst := fun e => [1, 0, 2].getD e 0 }
def exLat : Lat Bool := { bot := false, merge := or, eq := fun a b => a == b }
def exTr : Nat → Bool → Bool := fun e x => if e = 0 then true else x

theorem exLat_laws : exLat.Laws :=
  ⟨by decide, by decide, by decide, by decide, by decide⟩
theorem exG_wf : exG.WF := by
  intro e he
  have : e = 0 ∨ e = 1 ∨ e = 2 := by simp [exG] at he; omega
  rcases this with rfl | rfl | rfl <;> decide
theorem exTr_mono : Mono exLat exTr := by
  intro e a b h
  unfold exTr
  split
  · rfl
  · exact h
theorem exRanked : Ranked exLat (fun b => if b then 1 else 0) 1 :=
  ⟨by decide, by intro a b; cases a <;> cases b <;> simp [Lat.le, exLat]⟩

/-- the hypotheses of all dense theorems are jointly satisfiable, and the run yields a
non-trivial result (node 1 and node 0 get `true` around the cycle, the isolated
self-loop node 2 stays `false`). -/
example :
    let r := (run exLat exG exTr (fun _ _ => 0) 100 0 (init exLat exG (fun _ => false))).1
    Dense.Terminal r ∧ r.inF 0 = true ∧ r.inF 1 = true ∧ r.inF 2 = false := by
  refine ⟨?_, by decide, by decide, by decide⟩
  exact dense_run_terminal exLat exLat_laws exG exG_wf exTr exTr_mono _ _ 1 exRanked _ 100 0 _
    Reach.init (by decide)
end example_dense

end dense

/-! ## dense solver over lattices whose `Equals` is coarser than equality

`dense.Forward[dfa.DenseMapLattice[ValueNilness, lattice]]` is how nilness.go uses the
solver: facts are slices, `Equals` ignores trailing `Ident`s.  The theorems above ask for
`Equals` = equality (`Lat.Laws.eq_iff`).  They carry over to any lattice that *represents*
a lawful one (`Repr`, Repr.lean) — in particular to `DenseMapLattice` and `MapLattice`
(`dm_repr`, `map_repr`, ReprInst.lean) — with every `=` between facts replaced by the
lattice's own `Equals` and `⊑` by `Lat.leq` (`Equals(Merge(a,b), b)`).  Hypotheses the
world must supply: the transfer functions keep facts well-formed (`C`), respect `Equals`
(`TrResp`) and are monotone up to it (`MonoE`); entry facts are well-formed. -/
section dense_upto
open Dense
variable {L' : Type}

/-- **dense_fixpoint_upto.** -/
theorem dense_fixpoint_upto (lat : Lat L) (C : L → Prop) (lat' : Lat L') (h : L → L') (g : L' → L)
    (R : Repr lat C lat' h g) (hl' : lat'.Laws) (G : Graph) (hG : G.WF) (tr : Nat → L → L)
    (ht : TrResp lat C tr) (entry : Nat → L) (he : ∀ b, C (entry b)) (s : St L)
    (hr : Reach lat G tr entry s) (hterm : Dense.Terminal s) :
    (∀ b, b < G.n → s.dirty b = false) ∧
    (∀ b, b < G.n → lat.eq (s.inF b)
        (if inEdges G b = [] then entry b else joinL lat ((inEdges G b).map s.outF)) = true) ∧
    (∀ e, e < G.m → lat.eq (s.outF e) (tr e (s.inF (G.src e))) = true) := by
  obtain ⟨hc, hr'⟩ := reach_comm R hl' G tr ht entry he s hr
  have hf := dense_fixpoint lat' hl' G hG (trOf h g tr) _ (mapSt h s) hr' hterm
  refine ⟨hf.1, ?_, ?_⟩
  · intro b hb
    have h2 := hf.2.1 b hb
    by_cases hn : inEdges G b = []
    · simp only [hn, if_true] at h2 ⊢
      exact (R.h_eq _ _ (hc.1 b) (he b)).2 h2
    · simp only [hn, if_false] at h2 ⊢
      have hmem : ∀ x ∈ (inEdges G b).map s.outF, C x := by
        intro x hx
        obtain ⟨e, _, rfl⟩ := List.mem_map.1 hx
        exact hc.2 e
      have hj := R.joinL _ hmem
      refine (R.h_eq _ _ (hc.1 b) hj.1).2 ?_
      rw [hj.2, List.map_map]
      exact h2
  · intro e he'
    have h3 := hf.2.2 e he'
    refine (R.h_eq _ _ (hc.2 e) (ht.mem e _ (hc.1 _))).2 ?_
    rw [tr_comm R tr ht e _ (hc.1 _)]
    exact h3

/-- **dense_least_upto.** The result is below (up to `Equals`) every well-formed
pre-solution up to `Equals`. -/
theorem dense_least_upto (lat : Lat L) (C : L → Prop) (lat' : Lat L') (h : L → L') (g : L' → L)
    (R : Repr lat C lat' h g) (hl' : lat'.Laws) (G : Graph) (hG : G.WF) (tr : Nat → L → L)
    (hmem : ∀ e a, C a → C (tr e a)) (hm : MonoE lat C tr) (entry : Nat → L) (he : ∀ b, C (entry b))
    (s : St L) (hr : Reach lat G tr entry s) (hterm : Dense.Terminal s)
    (I O : Nat → L) (hs : PreSolE lat C G tr entry I O) :
    (∀ b, b < G.n → lat.leq (s.inF b) (I b)) ∧ (∀ e, e < G.m → lat.leq (s.outF e) (O e)) := by
  have ht := resp_of_mono R hl' tr hmem hm
  obtain ⟨hc, hr'⟩ := reach_comm R hl' G tr ht entry he s hr
  have hl := dense_least lat' hl' G hG (trOf h g tr) (mono_comm R tr hm hmem) _ (mapSt h s) hr' hterm _ _
    (presol_comm R G tr ht entry I O he hs)
  exact ⟨fun b hb => (R.le_iff _ _ (hc.1 b) (hs.I_mem b)).1 (hl.1 b hb),
         fun e he' => (R.le_iff _ _ (hc.2 e) (hs.O_mem e)).1 (hl.2 e he')⟩

/-- a well-formed solution up to `Equals` is a `PreSolE` (so `dense_least_upto` applies). -/
theorem Dense.presolE_of_solution (lat : Lat L) (C : L → Prop) (lat' : Lat L') (h : L → L') (g : L' → L)
    (R : Repr lat C lat' h g) (hl' : lat'.Laws) (G : Graph) (tr : Nat → L → L)
    (hmem : ∀ e a, C a → C (tr e a)) (entry I O : Nat → L) (he : ∀ b, C (entry b))
    (hI : ∀ b, C (I b)) (hO : ∀ e, C (O e))
    (h1 : ∀ b, b < G.n → lat.eq (I b)
        (if inEdges G b = [] then entry b else joinL lat ((inEdges G b).map O)) = true)
    (h2 : ∀ e, e < G.m → lat.eq (O e) (tr e (I (G.src e))) = true) :
    PreSolE lat C G tr entry I O := by
  have leq_of_eq : ∀ a b, C a → C b → lat.eq b a = true → lat.leq a b := by
    intro a b ha hb hab
    rw [← R.le_iff a b ha hb, (R.h_eq b a hb ha).1 hab]
    exact hl'.le_refl _
  refine ⟨hI, hO, ?_, ?_, ?_⟩
  · intro b hb hn
    have := h1 b hb
    simp only [hn, if_true] at this
    exact leq_of_eq _ _ (he b) (hI b) this
  · intro b hb hn
    have := h1 b hb
    simp only [hn, if_false] at this
    have hmemO : ∀ x ∈ (inEdges G b).map O, C x := by
      intro x hx
      obtain ⟨e, _, rfl⟩ := List.mem_map.1 hx
      exact hO e
    exact leq_of_eq _ _ (R.joinL _ hmemO).1 (hI b) this
  · intro e he'
    exact leq_of_eq _ _ (hmem e _ (hI _)) (hO e) (h2 e he')

/-- **dense_terminates_upto.** No infinite run when the represented lattice has finite
height. -/
theorem dense_terminates_upto (lat : Lat L) (C : L → Prop) (lat' : Lat L') (h : L → L') (g : L' → L)
    (R : Repr lat C lat' h g) (hl' : lat'.Laws) (G : Graph) (hG : G.WF) (tr : Nat → L → L)
    (hmem : ∀ e a, C a → C (tr e a)) (hm : MonoE lat C tr) (entry : Nat → L) (he : ∀ b, C (entry b))
    (rank : L' → Nat) (H : Nat) (hrk : Ranked lat' rank H) :
    WellFounded (Dense.StepR lat G tr entry) := by
  have ht := resp_of_mono R hl' tr hmem hm
  have wf' := dense_terminates lat' hl' G hG (trOf h g tr) (mono_comm R tr hm hmem)
    (fun b => h (entry b)) rank H hrk
  apply Subrelation.wf (r := InvImage (Dense.StepR lat' G (trOf h g tr) (fun b => h (entry b))) (mapSt h)) _
    (InvImage.wf _ wf')
  intro s' s ⟨hreach, b, hb, hs'⟩
  obtain ⟨hc, hr'⟩ := reach_comm R hl' G tr ht entry he s hreach
  refine ⟨hr', b, hb, ?_⟩
  rw [hs']
  exact (process_comm R hl' G tr ht s hc b).2

/-- **dense_run_terminal_upto.** The executable run stops with an empty queue within
`n·(H+1)·(n+1) + n` iterations, for every schedule (`H` = height of the represented
lattice). -/
theorem dense_run_terminal_upto (lat : Lat L) (C : L → Prop) (lat' : Lat L') (h : L → L') (g : L' → L)
    (R : Repr lat C lat' h g) (hl' : lat'.Laws) (G : Graph) (hG : G.WF) (tr : Nat → L → L)
    (hmem : ∀ e a, C a → C (tr e a)) (hm : MonoE lat C tr) (entry : Nat → L) (he : ∀ b, C (entry b))
    (rank : L' → Nat) (H : Nat) (hrk : Ranked lat' rank H)
    (pick : Nat → List Nat → Nat) (fuel k : Nat) (s : St L) (hs : Reach lat G tr entry s)
    (hf : mu G rank H (mapSt h s) ≤ fuel) : Dense.Terminal (run lat G tr pick fuel k s).1 := by
  have ht := resp_of_mono R hl' tr hmem hm
  have hm' := mono_comm R tr hm hmem
  -- a queued node exists ⇒ the measure of the denoted state is positive and decreases
  have hdec : ∀ (s : St L) (b : Nat), Reach lat G tr entry s → s.q b = true →
      mu G rank H (mapSt h (process lat G tr s b)) < mu G rank H (mapSt h s) := by
    intro s b hs hb
    obtain ⟨hc, hr'⟩ := reach_comm R hl' G tr ht entry he s hs
    rw [(process_comm R hl' G tr ht s hc b).2]
    exact mu_step lat' G _ rank H hl' hrk _ _ b (inv_reach lat' G _ hl' hG _ _ hr')
      (asc_reach lat' G _ hl' hG hm' _ _ hr') hb
  have hqlt : ∀ (s : St L), Reach lat G tr entry s → ∀ b, s.q b = true → b < G.n := by
    intro s hs b hb
    obtain ⟨_, hr'⟩ := reach_comm R hl' G tr ht entry he s hs
    exact (inv_reach lat' G _ hl' hG _ _ hr').q_lt b hb
  induction fuel generalizing k s with
  | zero =>
    intro b
    show s.q b = false
    cases hq : s.q b
    · rfl
    · exfalso
      have := hdec s b hs hq
      omega
  | succ f ih =>
    unfold run
    split
    · rename_i hq
      intro b
      cases hqb : s.q b
      · rfl
      · exfalso
        have : b ∈ queued G s := by
          simp only [queued, List.mem_filter, List.mem_range]
          exact ⟨hqlt s hs b hqb, hqb⟩
        rw [hq] at this; cases this
    · rename_i x xs hq
      have hmem' : (x :: xs).getD (pick k (x :: xs) % (x :: xs).length) x ∈ queued G s := by
        rw [hq, List.getD_eq_getElem?_getD]
        have hlt : pick k (x :: xs) % (x :: xs).length < (x :: xs).length := Nat.mod_lt _ (by simp)
        rw [List.getElem?_eq_getElem hlt]
        exact List.getElem_mem hlt
      simp only [queued, List.mem_filter] at hmem'
      simp only [Dense.reify_eq]
      apply ih _ _ (Reach.step hs hmem'.2)
      have := hdec s _ hs hmem'.2
      omega

/-- **dense_forward_upto.** `dense.Forward` as a whole over a representing lattice: any
schedule, enough fuel ⇒ the run ends with an empty queue in a solution of the equations up
to `Equals` that is below every well-formed pre-solution up to `Equals`. -/
theorem dense_forward_upto (lat : Lat L) (C : L → Prop) (lat' : Lat L') (h : L → L') (g : L' → L)
    (R : Repr lat C lat' h g) (hl' : lat'.Laws) (G : Graph) (hG : G.WF) (tr : Nat → L → L)
    (hmem : ∀ e a, C a → C (tr e a)) (hm : MonoE lat C tr) (entry : Nat → L) (he : ∀ b, C (entry b))
    (rank : L' → Nat) (H : Nat) (hrk : Ranked lat' rank H)
    (pick : Nat → List Nat → Nat) (fuel : Nat) (hf : G.n * (H + 1) * (G.n + 1) + G.n ≤ fuel) :
    let s := (run lat G tr pick fuel 0 (init lat G entry)).1
    Dense.Terminal s ∧
    (∀ b, b < G.n → lat.eq (s.inF b)
        (if inEdges G b = [] then entry b else joinL lat ((inEdges G b).map s.outF)) = true) ∧
    (∀ e, e < G.m → lat.eq (s.outF e) (tr e (s.inF (G.src e))) = true) ∧
    (∀ I O, PreSolE lat C G tr entry I O →
        (∀ b, b < G.n → lat.leq (s.inF b) (I b)) ∧ (∀ e, e < G.m → lat.leq (s.outF e) (O e))) := by
  intro s
  have ht := resp_of_mono R hl' tr hmem hm
  have hreach : Reach lat G tr entry s := Dense.run_reach lat G tr entry pick fuel 0 _ Reach.init
  have hterm : Dense.Terminal s :=
    dense_run_terminal_upto lat C lat' h g R hl' G hG tr hmem hm entry he rank H hrk pick fuel 0 _
      Reach.init (by rw [(init_comm R G entry he).2, Dense.mu_init]; exact hf)
  have hfix := dense_fixpoint_upto lat C lat' h g R hl' G hG tr ht entry he s hreach hterm
  exact ⟨hterm, hfix.2.1, hfix.2.2, fun I O hs =>
    dense_least_upto lat C lat' h g R hl' G hG tr hmem hm entry he s hreach hterm I O hs⟩

variable {E : Type}

/-- **dense_forward_densemap.** The instance nilness.go uses: facts are
`DenseMapLattice` slices about `k` values over a lawful element lattice of height `H`;
the transfer functions keep the length `≤ k` and are monotone up to
`DenseMapLattice.Equals`.  Then `dense.Forward` ends, under any schedule, within
`n·(H·k+1)·(n+1) + n` iterations in the least solution up to `DenseMapLattice.Equals`. -/
theorem dense_forward_densemap (el : Lat E) (hl : el.Laws) (rank : E → Nat) (H : Nat)
    (hrk : Ranked el rank H) (k : Nat) (G : Graph) (hG : G.WF) (tr : Nat → List E → List E)
    (hmem : ∀ e a, a.length ≤ k → (tr e a).length ≤ k)
    (hm : MonoE (dmLat el) (fun a => a.length ≤ k) tr)
    (entry : Nat → List E) (he : ∀ b, (entry b).length ≤ k)
    (pick : Nat → List Nat → Nat) (fuel : Nat) (hf : G.n * (H * k + 1) * (G.n + 1) + G.n ≤ fuel) :
    let s := (run (dmLat el) G tr pick fuel 0 (init (dmLat el) G entry)).1
    Dense.Terminal s ∧
    (∀ b, b < G.n → dmEquals el (s.inF b)
        (if inEdges G b = [] then entry b else joinL (dmLat el) ((inEdges G b).map s.outF)) = true) ∧
    (∀ e, e < G.m → dmEquals el (s.outF e) (tr e (s.inF (G.src e))) = true) ∧
    (∀ I O, PreSolE (dmLat el) (fun a => a.length ≤ k) G tr entry I O →
        (∀ b, b < G.n → (dmLat el).leq (s.inF b) (I b)) ∧
        (∀ e, e < G.m → (dmLat el).leq (s.outF e) (O e))) :=
  dense_forward_upto (dmLat el) _ (finLat el k) _ _ (dm_repr el hl k) (finLat_laws el hl k) G hG tr
    hmem hm entry he _ _ (finLat_ranked el rank H hrk k) pick fuel hf

/-- **dense_forward_map.** The same for `MapLattice` facts: well-formed maps (`MapOK`:
distinct keys `< k`, no `Ident` value). -/
theorem dense_forward_map (el : Lat E) (hl : el.Laws) (rank : E → Nat) (H : Nat)
    (hrk : Ranked el rank H) (k : Nat) (G : Graph) (hG : G.WF) (tr : Nat → GoMap E → GoMap E)
    (hmem : ∀ e a, MapOK el k a → MapOK el k (tr e a))
    (hm : MonoE (mapLat el) (MapOK el k) tr)
    (entry : Nat → GoMap E) (he : ∀ b, MapOK el k (entry b))
    (pick : Nat → List Nat → Nat) (fuel : Nat) (hf : G.n * (H * k + 1) * (G.n + 1) + G.n ≤ fuel) :
    let s := (run (mapLat el) G tr pick fuel 0 (init (mapLat el) G entry)).1
    Dense.Terminal s ∧
    (∀ b, b < G.n → mapEquals el (s.inF b)
        (if inEdges G b = [] then entry b else joinL (mapLat el) ((inEdges G b).map s.outF)) = true) ∧
    (∀ e, e < G.m → mapEquals el (s.outF e) (tr e (s.inF (G.src e))) = true) ∧
    (∀ I O, PreSolE (mapLat el) (MapOK el k) G tr entry I O →
        (∀ b, b < G.n → (mapLat el).leq (s.inF b) (I b)) ∧
        (∀ e, e < G.m → (mapLat el).leq (s.outF e) (O e))) :=
  dense_forward_upto (mapLat el) _ (finLat el k) _ _ (map_repr el hl k) (finLat_laws el hl k) G hG tr
    hmem hm entry he _ _ (finLat_ranked el rank H hrk k) pick fuel hf

/-! non-vacuity of the `upto` theorems: the graph `exG` (cycle 0 ⇄ 1, isolated self loop 2)
with `DenseMapLattice` / `MapLattice` facts about one variable over the union lattice. -/
section example_upto
def exTrD : Nat → List Bool → List Bool := fun e a => if e = 0 then [true] else a
def exTrM : Nat → GoMap Bool → GoMap Bool := fun e a => if e = 0 then [(0, true)] else a

theorem exTrD_mono : MonoE (dmLat exLat) (fun a => a.length ≤ 1) exTrD := by
  intro e a b _ _ h
  unfold exTrD
  split
  · show dmEquals exLat (dmMerge exLat [true] [true]) [true] = true
    decide
  · exact h

theorem exMapOK : MapOK exLat 1 [(0, true)] := by
  refine ⟨by unfold NodupKeys keys; decide, ?_, ?_⟩
  · intro kv hkv
    simp only [List.mem_singleton] at hkv
    subst hkv
    decide
  · intro x hx
    simp only [keys, List.map_cons, List.map_nil, List.mem_singleton] at hx
    omega

theorem exTrM_mono : MonoE (mapLat exLat) (MapOK exLat 1) exTrM := by
  intro e a b _ _ h
  unfold exTrM
  split
  · show mapEquals exLat (mapMerge exLat [(0, true)] [(0, true)]) [(0, true)] = true
    decide
  · exact h

example :
    let s := (run (dmLat exLat) exG exTrD (fun _ _ => 0) 100 0 (init (dmLat exLat) exG (fun _ => []))).1
    Dense.Terminal s ∧ s.inF 0 = [true] ∧ s.inF 1 = [true] ∧ s.inF 2 = [] := by
  refine ⟨?_, by decide, by decide, by decide⟩
  exact (dense_forward_densemap exLat exLat_laws _ 1 exRanked 1 exG exG_wf exTrD
    (by intro e a ha; unfold exTrD; split <;> simp [ha]) exTrD_mono (fun _ => [])
    (by intro b; simp) _ 100 (by decide)).1

example :
    let s := (run (mapLat exLat) exG exTrM (fun _ l => l.length - 1) 100 0
      (init (mapLat exLat) exG (fun _ => []))).1
    Dense.Terminal s ∧ s.inF 0 = [(0, true)] ∧ s.inF 1 = [(0, true)] ∧ s.inF 2 = [] := by
  refine ⟨?_, by decide, by decide, by decide⟩
  have hbot : MapOK exLat 1 [] := (map_repr exLat exLat_laws 1).bot_mem
  exact (dense_forward_map exLat exLat_laws _ 1 exRanked 1 exG exG_wf exTrM
    (by intro e a ha; unfold exTrM; split; exact exMapOK; exact ha) exTrM_mono (fun _ => [])
    (fun _ => hbot) _ 100 (by decide)).1
end example_upto

end dense_upto

/-! ## sparse (per-value) solver — `sparse.Instance.Forward`

Stated for the transition system `Sparse.Reach`: any order of taking instructions from
the worklist (the real code takes whichever the Go map iteration yields).  Hypotheses the
world must supply (they are how the API is used by a sound client, not facts about the
solver): `P.WF` — referrers are instructions of the function and `v ∈ Operands(j)` implies
`j ∈ Referrers(v)`; `Dep` — a transfer reads only the states of the instruction's operands
and returns exactly one mapping, for the instruction's own value (the solver re-enqueues
`instr.Referrers()`, not the referrers of the mapped value); `Mono`; `InitBot` — nobody
`Set` a state for a value that an instruction defines. -/
section sparse
open Sparse

def Sparse.Terminal (s : Sparse.St L) : Prop := ∀ i, s.w i = false

/-- **sparse_fixpoint.** With an empty worklist every phi's state is the merge (fold from
`Ident`) of its edges' states, every other value-defining instruction's state is its
transfer applied to the final mapping, and values not defined by such an instruction keep
the state they were given. -/
theorem sparse_fixpoint (lat : Lat L) (hl : lat.Laws) (P : Prog L) (hw : P.WF) (hd : Dep P)
    (val0 : Nat → L) (s : Sparse.St L) (hr : Sparse.Reach lat P val0 s) (ht : Sparse.Terminal s) :
    (∀ i, i < P.n → P.kind i = .phi → s.val i = joinL lat ((P.ops i).map s.val)) ∧
    (∀ i, i < P.n → P.kind i = .op → s.val i = P.tr i s.val) ∧
    (∀ v, (P.n ≤ v ∨ P.kind v = .none) → s.val v = val0 v) := by
  have hi := Sparse.inv_reach lat P hl hw hd val0 s hr
  refine ⟨?_, ?_, hi.frame⟩
  · intro i hin hk
    rw [← newVal_phi lat P s.val i hk]
    exact hi.fix i hin (ht i) (by simp [hk])
  · intro i hin hk
    rw [← newVal_op lat P s.val i (by simp [hk])]
    exact hi.fix i hin (ht i) (by simp [hk])

/-- **sparse_least.** The final mapping is below every (pre-)solution `τ` of the same
equations that is above the given states of the non-instruction values. -/
theorem sparse_least (lat : Lat L) (hl : lat.Laws) (P : Prog L) (hw : P.WF) (hd : Dep P)
    (hm : Sparse.Mono lat P) (val0 : Nat → L) (h0 : InitBot lat P val0) (s : Sparse.St L)
    (hr : Sparse.Reach lat P val0 s) (τ : Nat → L) (hs : Sparse.PreSol lat P val0 τ) :
    ∀ v, lat.le (s.val v) (τ v) :=
  Sparse.below_reach lat P hl hw hd hm val0 τ h0 hs s hr

/-- an exact solution is a pre-solution. -/
theorem Sparse.presol_of_solution (lat : Lat L) (hl : lat.Laws) (P : Prog L) (val0 τ : Nat → L)
    (h1 : ∀ i, i < P.n → P.kind i = .phi → τ i = joinL lat ((P.ops i).map τ))
    (h2 : ∀ i, i < P.n → P.kind i = .op → τ i = P.tr i τ)
    (h3 : ∀ v, (P.n ≤ v ∨ P.kind v = .none) → τ v = val0 v) : Sparse.PreSol lat P val0 τ := by
  refine ⟨?_, ?_⟩
  · intro v hv; rw [h3 v hv]; exact hl.le_refl _
  · intro i hin hk
    cases hk' : P.kind i with
    | phi => rw [newVal_phi lat P τ i hk', ← h1 i hin hk']; exact hl.le_refl _
    | op => rw [newVal_op lat P τ i (by simp [hk']), ← h2 i hin hk']; exact hl.le_refl _
    | none => exact absurd hk' hk

/-- **sparse_schedule_independent.** Any two complete runs end with the same mapping. -/
theorem sparse_schedule_independent (lat : Lat L) (hl : lat.Laws) (P : Prog L) (hw : P.WF)
    (hd : Dep P) (hm : Sparse.Mono lat P) (val0 : Nat → L) (h0 : InitBot lat P val0)
    (s t : Sparse.St L) (hs : Sparse.Reach lat P val0 s) (hst : Sparse.Terminal s)
    (ht : Sparse.Reach lat P val0 t) (htt : Sparse.Terminal t) : ∀ v, s.val v = t.val v := by
  have fs := sparse_fixpoint lat hl P hw hd val0 s hs hst
  have ft := sparse_fixpoint lat hl P hw hd val0 t ht htt
  have ps := Sparse.presol_of_solution lat hl P val0 s.val fs.1 fs.2.1 fs.2.2
  have pt := Sparse.presol_of_solution lat hl P val0 t.val ft.1 ft.2.1 ft.2.2
  intro v
  exact hl.le_antisymm (sparse_least lat hl P hw hd hm val0 h0 s hs t.val pt v)
    (sparse_least lat hl P hw hd hm val0 h0 t ht s.val ps v)

def Sparse.StepR (lat : Lat L) (P : Prog L) (val0 : Nat → L) (s' s : Sparse.St L) : Prop :=
  Sparse.Reach lat P val0 s ∧ ∃ i, s.w i = true ∧ s' = Sparse.process lat P s i

/-- **sparse_terminates.** Finite height ⇒ no infinite run. -/
theorem sparse_terminates (lat : Lat L) (hl : lat.Laws) (P : Prog L) (hw : P.WF) (hd : Dep P)
    (hm : Sparse.Mono lat P) (val0 : Nat → L) (h0 : InitBot lat P val0)
    (rank : L → Nat) (H : Nat) (hr : Ranked lat rank H) :
    WellFounded (Sparse.StepR lat P val0) := by
  apply Subrelation.wf (r := InvImage (· < ·) (Sparse.mu P rank H)) _ (InvImage.wf _ Nat.lt_wfRel.wf)
  intro s' s ⟨hreach, i, hq, he⟩
  show Sparse.mu P rank H s' < Sparse.mu P rank H s
  rw [he]
  exact Sparse.mu_step lat P rank H hl hr val0 s i (Sparse.inv_reach lat P hl hw hd val0 s hreach)
    (Sparse.asc_reach lat P hl hw hd hm val0 h0 s hreach) hq

theorem Sparse.run_reach (lat : Lat L) (P : Prog L) (val0 : Nat → L) (nv : Nat)
    (pick : Nat → List Nat → Nat) (fuel k : Nat) (s : Sparse.St L) (hs : Sparse.Reach lat P val0 s) :
    Sparse.Reach lat P val0 (Sparse.run lat P nv pick fuel k s).1 := by
  induction fuel generalizing k s with
  | zero => exact hs
  | succ f ih =>
    unfold Sparse.run
    split
    · exact hs
    · rename_i x xs hq
      simp only [Sparse.reify_eq]
      apply ih
      apply Sparse.Reach.step hs
      have hmem : (x :: xs).getD (pick k (x :: xs) % (x :: xs).length) x ∈ Sparse.queued P s := by
        rw [hq, List.getD_eq_getElem?_getD]
        have hlt : pick k (x :: xs) % (x :: xs).length < (x :: xs).length := Nat.mod_lt _ (by simp)
        rw [List.getElem?_eq_getElem hlt]
        exact List.getElem_mem hlt
      simp only [Sparse.queued, List.mem_filter] at hmem
      exact hmem.2

/-- **sparse_run_terminal.** The executable `Sparse.run` stops with an empty worklist
within `mu init` iterations, for every schedule. -/
theorem sparse_run_terminal (lat : Lat L) (hl : lat.Laws) (P : Prog L) (hw : P.WF) (hd : Dep P)
    (hm : Sparse.Mono lat P) (val0 : Nat → L) (h0 : InitBot lat P val0)
    (rank : L → Nat) (H : Nat) (hr : Ranked lat rank H) (nv : Nat)
    (pick : Nat → List Nat → Nat) (fuel k : Nat) (s : Sparse.St L) (hs : Sparse.Reach lat P val0 s)
    (hf : Sparse.mu P rank H s ≤ fuel) : Sparse.Terminal (Sparse.run lat P nv pick fuel k s).1 := by
  induction fuel generalizing k s with
  | zero =>
    have hi := Sparse.inv_reach lat P hl hw hd val0 s hs
    intro b
    show s.w b = false
    cases hq : s.w b
    · rfl
    · exfalso
      have hbn := hi.w_lt b hq
      have hc : cnt s.w P.n = 0 := by unfold Sparse.mu at hf; omega
      have := (cnt_zero_iff s.w P.n).1 hc b hbn
      rw [hq] at this; cases this
  | succ f ih =>
    unfold Sparse.run
    split
    · rename_i hq
      have hi := Sparse.inv_reach lat P hl hw hd val0 s hs
      intro b
      cases hqb : s.w b
      · rfl
      · exfalso
        have : b ∈ Sparse.queued P s := by
          simp only [Sparse.queued, List.mem_filter, List.mem_range]
          exact ⟨hi.w_lt b hqb, hqb⟩
        rw [hq] at this; cases this
    · rename_i x xs hq
      have hmem : (x :: xs).getD (pick k (x :: xs) % (x :: xs).length) x ∈ Sparse.queued P s := by
        rw [hq, List.getD_eq_getElem?_getD]
        have hlt : pick k (x :: xs) % (x :: xs).length < (x :: xs).length := Nat.mod_lt _ (by simp)
        rw [List.getElem?_eq_getElem hlt]
        exact List.getElem_mem hlt
      simp only [Sparse.queued, List.mem_filter] at hmem
      simp only [Sparse.reify_eq]
      apply ih _ _ (Sparse.Reach.step hs hmem.2)
      have := Sparse.mu_step lat P rank H hl hr val0 s _ (Sparse.inv_reach lat P hl hw hd val0 s hs)
        (Sparse.asc_reach lat P hl hw hd hm val0 h0 s hs) hmem.2
      omega


theorem Sparse.mu_init_le (P : Prog L) (val0 : Nat → L) (rank : L → Nat) (H : Nat) :
    Sparse.mu P rank H (Sparse.init P val0) ≤ P.n * H * (P.n + 1) + P.n := by
  have h1 : sumTo (Sparse.phi rank H (Sparse.init P val0)) P.n ≤ sumTo (fun _ => H) P.n :=
    sumTo_le P.n (fun x _ => by simp only [Sparse.phi]; omega)
  rw [sumTo_const, Nat.mul_comm H P.n] at h1
  have h2 := cnt_le (Sparse.init P val0).w P.n
  unfold Sparse.mu
  have := Nat.mul_le_mul_right (P.n + 1) h1
  omega

/-- **sparse_forward_least_fixpoint.** `sparse.Instance.Forward` as a whole: from the
initial worklist (every instruction), under any order of taking instructions from it, with
at least `n·H·(n+1) + n` iterations of fuel, the loop ends with an empty worklist in a
mapping that solves the equations (phi = merge of its edges, other instruction values =
their transfer, everything else untouched) and is below every pre-solution. -/
theorem sparse_forward_least_fixpoint (lat : Lat L) (hl : lat.Laws) (P : Prog L) (hw : P.WF) (hd : Dep P)
    (hm : Sparse.Mono lat P) (val0 : Nat → L) (h0 : InitBot lat P val0)
    (rank : L → Nat) (H : Nat) (hr : Ranked lat rank H) (nv : Nat)
    (pick : Nat → List Nat → Nat) (fuel : Nat) (hf : P.n * H * (P.n + 1) + P.n ≤ fuel) :
    let s := (Sparse.run lat P nv pick fuel 0 (Sparse.init P val0)).1
    Sparse.Terminal s ∧
    (∀ i, i < P.n → P.kind i = .phi → s.val i = joinL lat ((P.ops i).map s.val)) ∧
    (∀ i, i < P.n → P.kind i = .op → s.val i = P.tr i s.val) ∧
    (∀ v, (P.n ≤ v ∨ P.kind v = .none) → s.val v = val0 v) ∧
    (∀ τ, Sparse.PreSol lat P val0 τ → ∀ v, lat.le (s.val v) (τ v)) := by
  intro s
  have hreach : Sparse.Reach lat P val0 s := Sparse.run_reach lat P val0 nv pick fuel 0 _ Sparse.Reach.init
  have hterm : Sparse.Terminal s :=
    sparse_run_terminal lat hl P hw hd hm val0 h0 rank H hr nv pick fuel 0 _ Sparse.Reach.init
      (Nat.le_trans (Sparse.mu_init_le P val0 rank H) hf)
  have hfix := sparse_fixpoint lat hl P hw hd val0 s hreach hterm
  exact ⟨hterm, hfix.1, hfix.2.1, hfix.2.2,
    fun τ hs => sparse_least lat hl P hw hd hm val0 h0 s hreach τ hs⟩

/-! non-vacuity: `v0 = phi(v2, v1)`, `v1 = op(v0)` (a loop), `v2` a parameter set to `true`,
instruction 3 a `Jump`. -/
section example_sparse
def exP : Prog Bool :=
  { n := 3
    kind := fun i => if i = 0 then .phi else if i = 1 then .op else .none
    ops := fun i => if i = 0 then [3, 1] else if i = 1 then [0] else []
    refs := fun i => if i = 0 then [1] else if i = 1 then [0] else []
    tr := fun i val => if i = 1 then val 0 else false }

theorem exP_wf : exP.WF := by
  refine ⟨?_, ?_⟩
  · intro i x hi hx
    have : i = 0 ∨ i = 1 ∨ i = 2 := by simp [exP] at hi; omega
    rcases this with rfl | rfl | rfl <;> simp [exP] at hx ⊢ <;> omega
  · intro i j hi hj hm
    have h1 : i = 0 ∨ i = 1 ∨ i = 2 := by simp [exP] at hi; omega
    have h2 : j = 0 ∨ j = 1 ∨ j = 2 := by simp [exP] at hj; omega
    rcases h1 with rfl | rfl | rfl <;> rcases h2 with rfl | rfl | rfl <;> simp [exP] at hm ⊢
theorem exP_dep : Dep exP := by
  intro i val val' h
  simp only [exP]
  split
  · rename_i hi; subst hi; exact h 0 (by simp [exP])
  · rfl
theorem exP_mono : Sparse.Mono exLat exP := by
  intro i val val' h
  simp only [exP]
  split
  · exact h 0
  · exact exLat_laws.le_refl _
def exVal0 : Nat → Bool := fun v => v == 3
theorem exP_initbot : InitBot exLat exP exVal0 := by
  intro i hi _
  have : i = 0 ∨ i = 1 ∨ i = 2 := by simp [exP] at hi; omega
  rcases this with rfl | rfl | rfl <;> rfl

example :
    let r := (Sparse.run exLat exP 4 (fun _ _ => 0) 100 0 (Sparse.init exP exVal0)).1
    Sparse.Terminal r ∧ r.val 0 = true ∧ r.val 1 = true ∧ r.val 2 = false := by
  refine ⟨?_, by decide, by decide, by decide⟩
  exact sparse_run_terminal exLat exLat_laws exP exP_wf exP_dep exP_mono exVal0 exP_initbot _ 1 exRanked
    4 _ 100 0 _ Sparse.Reach.init (by decide)
end example_sparse

end sparse

/-! ## lattices

`Lat.LawsOn lat C` (MapLemmas.lean) = the laws the `Semilattice` interface documents,
with respect to the lattice's own `Equals`, on the carrier `C`: `Equals` is an equivalence
and a congruence for `Merge`; associativity, commutativity, idempotence, identity. The
element lattice is assumed lawful with `Equals` = equality of elements. -/
section lattices
variable {E : Type}

/-- **map_lattice_laws.** `dfa.MapLattice` over a lawful element lattice satisfies the
laws w.r.t. `MapLattice.Equals` (= `maps.EqualFunc`), on Go maps (association lists with
pairwise distinct keys). -/
theorem map_lattice_laws (el : Lat E) (hl : el.Laws) : (mapLat el).LawsOn NodupKeys := by
  have eqv := fun a b (ha : NodupKeys a) (hb : NodupKeys b) => mapEquals_iff el hl a b ha hb
  have nd := nodupKeys_mapMerge el
  refine ⟨List.nodup_nil, nd, ?_, ?_, ?_, ?_, ?_, ?_, ?_, ?_⟩
  · intro a ha; exact (eqv a a ha ha).2 (fun _ => rfl)
  · intro a b ha hb h; exact (eqv b a hb ha).2 (fun k => ((eqv a b ha hb).1 h k).symm)
  · intro a b c ha hb hc h1 h2
    exact (eqv a c ha hc).2 (fun k => ((eqv a b ha hb).1 h1 k).trans ((eqv b c hb hc).1 h2 k))
  · intro a a' b b' ha ha' hb hb' h1 h2
    refine (eqv _ _ (nd a b ha hb) (nd a' b' ha' hb')).2 (fun k => ?_)
    show mlookup (mapMerge el a b) k = mlookup (mapMerge el a' b') k
    rw [mlookup_mapMerge, mlookup_mapMerge, (eqv a a' ha ha').1 h1 k, (eqv b b' hb hb').1 h2 k]
  · intro a b c ha hb hc
    refine (eqv _ _ (nd a _ ha (nd b c hb hc)) (nd _ c (nd a b ha hb) hc)).2 (fun k => ?_)
    show mlookup (mapMerge el a (mapMerge el b c)) k = mlookup (mapMerge el (mapMerge el a b) c) k
    simp only [mlookup_mapMerge, optMerge_assoc el hl]
  · intro a b ha hb
    refine (eqv _ _ (nd a b ha hb) (nd b a hb ha)).2 (fun k => ?_)
    show mlookup (mapMerge el a b) k = mlookup (mapMerge el b a) k
    rw [mlookup_mapMerge, mlookup_mapMerge, optMerge_comm el hl]
  · intro a ha
    refine (eqv _ _ (nd a a ha ha) ha).2 (fun k => ?_)
    show mlookup (mapMerge el a a) k = mlookup a k
    rw [mlookup_mapMerge, optMerge_idem el hl]
  · intro a ha
    refine (eqv _ _ (nd a [] ha List.nodup_nil) ha).2 (fun k => ?_)
    show mlookup (mapMerge el a []) k = mlookup a k
    rw [mlookup_mapMerge]
    cases mlookup a k <;> rfl

/-- **map_merge_no_panic.** On maps that keep the documented invariant ("L's identity
element never appears as a value") `MapLattice.Merge` does not take its panic branch and
the result keeps the invariant. -/
theorem map_merge_no_panic (el : Lat E) (hl : el.Laws) (a b : GoMap E)
    (ha : NoIdent el a) (hb : NoIdent el b) :
    mapMergePanics el a b = false ∧ NoIdent el (mapMerge el a b) := by
  have key : ∀ kv ∈ a, ∀ bv, mlookup b kv.1 = some bv → el.merge kv.2 bv ≠ el.bot := by
    intro kv hkv bv _ hm
    exact ha kv hkv (merge_eq_bot_left hl _ _ hm)
  constructor
  · unfold mapMergePanics
    split
    · rfl
    · split
      · rfl
      · rw [List.any_eq_false]
        intro kv hkv
        cases hm : mlookup b kv.1 with
        | none => simp
        | some bv =>
          simp only []
          intro he
          exact key kv hkv bv hm ((hl.eq_iff _ _).1 he)
  · unfold mapMerge
    split
    · exact hb
    · split
      · exact ha
      · intro kv hkv
        rcases List.mem_append.1 hkv with h | h
        · obtain ⟨kv0, hkv0, rfl⟩ := List.mem_map.1 h
          unfold mergeEntry
          cases hm : mlookup b kv0.1 with
          | none => exact ha kv0 hkv0
          | some bv => exact key kv0 hkv0 bv hm
        · exact hb kv (List.mem_filter.1 h).1

/-- **dense_map_lattice_laws.** `dfa.DenseMapLattice` over a lawful element lattice
satisfies the laws w.r.t. `DenseMapLattice.Equals` (which ignores trailing `Ident`s), on
all slices. -/
theorem dense_map_lattice_laws (el : Lat E) (hl : el.Laws) : (dmLat el).LawsOn (fun _ => True) := by
  have eqv := dmEquals_iff el hl
  have mg := dget_dmMerge el hl
  refine ⟨trivial, fun _ _ _ _ => trivial, ?_, ?_, ?_, ?_, ?_, ?_, ?_, ?_⟩
  · intro a _; exact (eqv a a).2 (fun _ => rfl)
  · intro a b _ _ h; exact (eqv b a).2 (fun k => ((eqv a b).1 h k).symm)
  · intro a b c _ _ _ h1 h2
    exact (eqv a c).2 (fun k => ((eqv a b).1 h1 k).trans ((eqv b c).1 h2 k))
  · intro a a' b b' _ _ _ _ h1 h2
    refine (eqv _ _).2 (fun k => ?_)
    show dget el (dmMerge el a b) k = dget el (dmMerge el a' b') k
    rw [mg, mg, (eqv a a').1 h1 k, (eqv b b').1 h2 k]
  · intro a b c _ _ _
    refine (eqv _ _).2 (fun k => ?_)
    show dget el (dmMerge el a (dmMerge el b c)) k = dget el (dmMerge el (dmMerge el a b) c) k
    simp only [mg, hl.assoc]
  · intro a b _ _
    refine (eqv _ _).2 (fun k => ?_)
    show dget el (dmMerge el a b) k = dget el (dmMerge el b a) k
    rw [mg, mg, hl.comm]
  · intro a _
    refine (eqv _ _).2 (fun k => ?_)
    show dget el (dmMerge el a a) k = dget el a k
    rw [mg, hl.idem]
  · intro a _
    refine (eqv _ _).2 (fun k => ?_)
    show dget el (dmMerge el a []) k = dget el a k
    rw [mg]
    simp [dget, hl.ident]

/-- **nilness_laws.** The 5×5 `latticeMerge` table of nilness.go — regenerated from the
current tree into `Generated.nilMergeTable` at every check — is closed, associative,
commutative, idempotent and has `0` (the zero `Nilness`, `lattice.Ident()`) as identity.
Kernel `decide` over all 5³ triples. -/
theorem nilness_laws :
    Generated.nilIdent = (0, 0) ∧
    (∀ a < 5, ∀ b < 5, nilMerge a b < 5) ∧
    (∀ a < 5, ∀ b < 5, ∀ c < 5, nilMerge a (nilMerge b c) = nilMerge (nilMerge a b) c) ∧
    (∀ a < 5, ∀ b < 5, nilMerge a b = nilMerge b a) ∧
    (∀ a < 5, nilMerge a a = a) ∧
    (∀ a < 5, nilMerge a 0 = a) := by
  decide

/-- product of two lattices (componentwise), e.g. `ValueNilness{Inner, Outer}`. -/
def prodLat {A B : Type} (l1 : Lat A) (l2 : Lat B) : Lat (A × B) :=
  { bot := (l1.bot, l2.bot)
    merge := fun a b => (l1.merge a.1 b.1, l2.merge a.2 b.2)
    eq := fun a b => l1.eq a.1 b.1 && l2.eq a.2 b.2 }

theorem prodLat_laws {A B : Type} {l1 : Lat A} {l2 : Lat B} (h1 : l1.Laws) (h2 : l2.Laws) :
    (prodLat l1 l2).Laws := by
  refine ⟨?_, ?_, ?_, ?_, ?_⟩
  · intro a b
    simp only [prodLat, Bool.and_eq_true, h1.eq_iff, h2.eq_iff]
    exact ⟨fun h => Prod.ext h.1 h.2, fun h => by rw [h]; exact ⟨rfl, rfl⟩⟩
  · intro a b c; simp only [prodLat, h1.assoc, h2.assoc]
  · intro a b; simp only [prodLat, h1.comm a.1, h2.comm a.2]
  · intro a; simp only [prodLat, h1.idem, h2.idem]
  · intro a; simp only [prodLat, h1.ident, h2.ident]

theorem Ranked.mono {L : Type} {lat : Lat L} {rank : L → Nat} {H : Nat} (hr : Ranked lat rank H)
    [DecidableEq L] {a b : L} (h : lat.le a b) : rank a ≤ rank b := by
  by_cases he : a = b
  · rw [he]; exact Nat.le_refl _
  · exact Nat.le_of_lt (hr.rank_lt a b h he)

theorem prodLat_ranked {A B : Type} [DecidableEq A] [DecidableEq B] {l1 : Lat A} {l2 : Lat B}
    {r1 : A → Nat} {r2 : B → Nat} {H1 H2 : Nat} (hr1 : Ranked l1 r1 H1) (hr2 : Ranked l2 r2 H2) :
    Ranked (prodLat l1 l2) (fun a => r1 a.1 + r2 a.2) (H1 + H2) := by
  refine ⟨?_, ?_⟩
  · intro a
    have := hr1.rank_le a.1
    have := hr2.rank_le a.2
    show r1 a.1 + r2 a.2 ≤ H1 + H2
    omega
  · intro a b hle hne
    have hle1 : l1.le a.1 b.1 := congrArg Prod.fst hle
    have hle2 : l2.le a.2 b.2 := congrArg Prod.snd hle
    have m1 := hr1.mono hle1
    have m2 := hr2.mono hle2
    by_cases h1 : a.1 = b.1
    · have h2 : a.2 ≠ b.2 := fun h2 => hne (Prod.ext h1 h2)
      have := hr2.rank_lt _ _ hle2 h2
      show r1 a.1 + r2 a.2 < r1 b.1 + r2 b.2
      omega
    · have := hr1.rank_lt _ _ hle1 h1
      show r1 a.1 + r2 a.2 < r1 b.1 + r2 b.2
      omega

/-- one `Nilness` component as a lattice on `Fin 5` over the generated table. -/
def nil5FinLat : Lat (Fin 5) :=
  { bot := 0, merge := fun a b => Fin.ofNat 5 (nilMerge a.val b.val), eq := fun a b => a == b }

/-- `ValueNilness` (Inner, Outer) with `lattice.Merge` = the table on each component. -/
def nilValLat : Lat (Fin 5 × Fin 5) := prodLat nil5FinLat nil5FinLat

theorem nil5Fin_laws : nil5FinLat.Laws := by
  refine ⟨?_, ?_, ?_, ?_, ?_⟩
  · intro a b; simp [nil5FinLat]
  · decide
  · decide
  · decide
  · decide

theorem nil5Fin_ranked : Ranked nil5FinLat (fun a => [0, 1, 1, 2, 3].getD a.val 0) 3 := by
  refine ⟨by decide, ?_⟩
  unfold Lat.le
  decide

/-- **nilness_lattice_lawful.** Hence the nilness lattice `lattice` over `ValueNilness`
is an instance of the hypotheses of the solver theorems (`Lat.Laws`), of finite height
(`Ranked`) — the dense theorems apply to it as they stand. -/
theorem nilness_lattice_lawful :
    nilValLat.Laws ∧
    Ranked nilValLat (fun a => [0, 1, 1, 2, 3].getD a.1.val 0 + [0, 1, 1, 2, 3].getD a.2.val 0) (3 + 3) :=
  ⟨prodLat_laws nil5Fin_laws nil5Fin_laws, prodLat_ranked nil5Fin_ranked nil5Fin_ranked⟩


/-- **dense_forward_nilness.** The solver instance of nilness.go,
`dense.Forward[dfa.DenseMapLattice[ValueNilness, lattice]]`, with the `latticeMerge` table
of the current tree: for every finite graph, transfer functions that keep facts about `k`
values and are monotone up to `DenseMapLattice.Equals`, every entry map and every
schedule, the solver ends within `n·(6k+1)·(n+1) + n` iterations in the least solution
(up to `Equals`). -/
theorem dense_forward_nilness (k : Nat) (G : Dense.Graph) (hG : G.WF)
    (tr : Nat → List (Fin 5 × Fin 5) → List (Fin 5 × Fin 5))
    (hmem : ∀ e a, a.length ≤ k → (tr e a).length ≤ k)
    (hm : Dense.MonoE (dmLat nilValLat) (fun a => a.length ≤ k) tr)
    (entry : Nat → List (Fin 5 × Fin 5)) (he : ∀ b, (entry b).length ≤ k)
    (pick : Nat → List Nat → Nat) (fuel : Nat) (hf : G.n * ((3 + 3) * k + 1) * (G.n + 1) + G.n ≤ fuel) :
    let s := (Dense.run (dmLat nilValLat) G tr pick fuel 0 (Dense.init (dmLat nilValLat) G entry)).1
    Dense.Terminal s ∧
    (∀ b, b < G.n → dmEquals nilValLat (s.inF b)
        (if Dense.inEdges G b = [] then entry b
         else joinL (dmLat nilValLat) ((Dense.inEdges G b).map s.outF)) = true) ∧
    (∀ e, e < G.m → dmEquals nilValLat (s.outF e) (tr e (s.inF (G.src e))) = true) ∧
    (∀ I O, Dense.PreSolE (dmLat nilValLat) (fun a => a.length ≤ k) G tr entry I O →
        (∀ b, b < G.n → (dmLat nilValLat).leq (s.inF b) (I b)) ∧
        (∀ e, e < G.m → (dmLat nilValLat).leq (s.outF e) (O e))) :=
  dense_forward_densemap nilValLat nilness_lattice_lawful.1 _ (3 + 3) nilness_lattice_lawful.2 k G hG tr
    hmem hm entry he pick fuel hf

/-- non-vacuity: a block that makes value 0 `{NeverNil, NeverNil}` on the edge into a loop. -/
example :
    let tr : Nat → List (Fin 5 × Fin 5) → List (Fin 5 × Fin 5) := fun e a => if e = 0 then [(1, 1)] else a
    let s := (Dense.run (dmLat nilValLat) exG tr (fun _ _ => 0) 100 0
      (Dense.init (dmLat nilValLat) exG (fun _ => []))).1
    Dense.Terminal s ∧ s.inF 1 = [(1, 1)] ∧ s.inF 2 = [] := by
  intro tr s
  refine ⟨?_, by decide, by decide⟩
  refine (dense_forward_nilness 1 exG exG_wf tr ?_ ?_ (fun _ => []) (by intro b; simp) _ 100 (by decide)).1
  · intro e a ha; show (if e = 0 then [(1, 1)] else a).length ≤ 1; split <;> simp [ha]
  · intro e a b _ _ h
    show (dmLat nilValLat).leq (if e = 0 then [(1, 1)] else a) (if e = 0 then [(1, 1)] else b)
    split
    · show dmEquals nilValLat (dmMerge nilValLat [(1, 1)] [(1, 1)]) [(1, 1)] = true
      decide
    · exact h

end lattices

end Verif.C13
