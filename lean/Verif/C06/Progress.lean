/-
C06 — progress (no deadlock) and termination (a measure that every event of the
instance decreases).
-/
import Verif.C06.Preserve2
namespace Verif.C06

variable {R : Type} {cfg : Cfg} {g : Dag} {f : Nat → List R → Option R} {s s' : State R} {e : Ev}

/-! ### once the root has executed, everything has executed and every decrement is done -/

theorem trig_root_nil (hw : WF g) : g.trig g.n = [] := by
  cases h : g.trig g.n with
  | nil => rfl
  | cons t ts =>
    have hm : t ∈ g.trig g.n := by rw [h]; simp
    obtain ⟨ht, hd⟩ := hw.trig_sound g.n (Nat.le_refl _) t hm
    have := hw.deps_lt t ht g.n hd
    omega

theorem closed_all (hw : WF g) (hi : Inv cfg g f s) (hc : s.closed = true) :
    ∀ m a, a ≤ g.n → g.n - a ≤ m →
      (s.phase a).executed = true ∧ ∀ i, i < (g.trig a).length → (s.phase a).passed i = true := by
  intro m
  induction m with
  | zero =>
    intro a ha hm
    have : a = g.n := by omega
    subst this
    refine ⟨by rw [← hi.closedIff]; exact hc, ?_⟩
    intro i hlt; rw [trig_root_nil hw] at hlt; simp at hlt
  | succ m ih =>
    intro a ha hm
    by_cases han : a = g.n
    · exact ih a ha (by omega)
    · have hpass : ∀ i, i < (g.trig a).length → (s.phase a).passed i = true := by
        intro i hlt
        have hk : (g.trig a)[i]? = some (g.trig a)[i] := List.getElem?_eq_getElem hlt
        have hmem : (g.trig a)[i] ∈ g.trig a := List.getElem_mem hlt
        obtain ⟨ht, hat⟩ := hw.trig_sound a ha _ hmem
        have hlt' := hw.deps_lt _ ht a hat
        have hex := (ih (g.trig a)[i] ht (by omega)).1
        have hne : s.phase (g.trig a)[i] ≠ .idle := by
          intro h; rw [h] at hex; cases hex
        exact edges_passed hi ht hne a i ha hk
      refine ⟨?_, hpass⟩
      have hne := hw.has_trig a (by omega)
      have hpos : 0 < (g.trig a).length := List.length_pos_iff.mpr hne
      exact passed_executed (hpass 0 hpos)

theorem closed_executed (hw : WF g) (hi : Inv cfg g f s) (hc : s.closed = true) {a : Nat}
    (ha : a ≤ g.n) : (s.phase a).executed = true :=
  (closed_all hw hi hc (g.n - a) a ha (Nat.le_refl _)).1

/-! ### no action is stuck in `idle` when nothing else is going on -/

theorem no_idle_of_all_idle_or_done (hw : WF g) (hi : Inv cfg g f s)
    (hall : ∀ a, a ≤ g.n → s.phase a = .idle ∨ s.phase a = .done) :
    ∀ a, a ≤ g.n → s.phase a = .done := by
  intro a
  induction a using Nat.strongRecOn with
  | _ a ih =>
    intro ha
    rcases hall a ha with hid | hd
    · exfalso
      have hpos := (hi.idleIff a ha).mp hid
      rw [hi.pend a ha] at hpos
      obtain ⟨d, i, hdn, hdi, hnp⟩ := openEdges_pos hpos
      have hmem : a ∈ g.trig d := List.mem_iff_getElem?.mpr ⟨i, hdi⟩
      obtain ⟨_, hda⟩ := hw.trig_sound d hdn a hmem
      have hlt := hw.deps_lt a ha d hda
      have hdd := ih d hlt hdn
      simp only [passedP] at hnp
      rw [hdd] at hnp
      cases hnp
    · exact hd

/-! ### progress -/

/-- **no deadlock.** In every state satisfying the invariant that is not final, an event
of the instance itself (not of the environment) is enabled — provided the environment
does not hold the whole semaphore (`env < c`) or the instance can run inline. -/
theorem progress_nonenv (hw : WF g) (hi : Inv cfg g f s) (hnf : ¬ s.final g)
    (henv : cfg.buffered = true ∨ s.env < cfg.c) :
    ∃ e s', e.isEnv = false ∧ step cfg g f s e = some s' := by
  by_cases h1 : ∃ a tok, a ≤ g.n ∧ s.phase a = .running tok
  · obtain ⟨a, tok, _, hph⟩ := h1
    exact ⟨.exec a, _, rfl, step_exec.mpr ⟨tok, hph, rfl⟩⟩
  by_cases h2 : ∃ a, a ≤ g.n ∧ s.phase a = .finished
  · obtain ⟨a, _, hph⟩ := h2
    exact ⟨.rel a, _, rfl, step_rel.mpr ⟨hph, rfl⟩⟩
  by_cases h3 : ∃ a k, a ≤ g.n ∧ s.phase a = .trig k
  · obtain ⟨a, k, ha, hph⟩ := h3
    have hk := (hi.trigBound a ha k).1 hph
    by_cases hlen : k = (g.trig a).length
    · subst hlen
      exact ⟨.fin a, _, rfl, step_fin.mpr ⟨hph, rfl⟩⟩
    · have hlt : k < (g.trig a).length := by omega
      have hget : (g.trig a)[k]? = some (g.trig a)[k] := List.getElem?_eq_getElem hlt
      by_cases hp1 : s.pending (g.trig a)[k] = 1
      · have hcl : s.closed = false := by
          cases hc : s.closed with
          | false => rfl
          | true =>
            have := (closed_all hw hi hc (g.n - a) a ha (Nat.le_refl _)).2 k hlt
            rw [hph] at this; simp [Phase.passed] at this
        exact ⟨.dec a (g.trig a)[k], _, rfl, step_dec.mpr ⟨k, hph, hget, Or.inl ⟨hp1, hcl, rfl⟩⟩⟩
      · exact ⟨.dec a (g.trig a)[k], _, rfl, step_dec.mpr ⟨k, hph, hget, Or.inr ⟨hp1, rfl⟩⟩⟩
  by_cases h4 : ∃ a, a ≤ g.n ∧ s.phase a = .held
  · obtain ⟨a, ha, hph⟩ := h4
    have hd := hi.heldDisp a ha hph
    by_cases hb : cfg.buffered = true
    · exact ⟨.start a false, _, rfl, step_start_inline.mpr ⟨⟨hd, hph, hb⟩, rfl⟩⟩
    · by_cases hc : s.sem + s.env < cfg.c
      · exact ⟨.start a true, _, rfl, step_start_tok.mpr ⟨⟨hd, hph, hc⟩, rfl⟩⟩
      · exfalso
        have henv' : s.env < cfg.c := by
          rcases henv with h | h
          · exact absurd h hb
          · exact h
        have hpos : 0 < s.sem := by omega
        rw [hi.semCount] at hpos
        obtain ⟨x, hx, hxp⟩ := sumUpTo_pos _ _ hpos
        have hxn : x ≤ g.n := by omega
        cases hpx : s.phase x with
        | running tok => exact h1 ⟨x, tok, hxn, hpx⟩
        | finished => exact h2 ⟨x, hxn, hpx⟩
        | _ => rw [hpx] at hxp; simp [Phase.holds] at hxp
  by_cases h5 : ∃ a k, a ≤ g.n ∧ s.phase a = .sending k
  · obtain ⟨a, k, ha, hph⟩ := h5
    have hlt := (hi.trigBound a ha k).2 hph
    have hget : (g.trig a)[k]? = some (g.trig a)[k] := List.getElem?_eq_getElem hlt
    have hmem : (g.trig a)[k] ∈ g.trig a := List.getElem_mem hlt
    obtain ⟨ht, _⟩ := hw.trig_sound a ha _ hmem
    by_cases hb : cfg.buffered = true
    · exact ⟨.sent a (g.trig a)[k], _, rfl, step_sent.mpr ⟨k, hph, hget, Or.inl hb, rfl⟩⟩
    · by_cases hq : s.phase (g.trig a)[k] = .queued
      · -- the dispatcher loop is free and the queue is open: it receives
        have hdn : s.disp = none := by
          cases hd : s.disp with
          | none => rfl
          | some x =>
            obtain ⟨hx, hh⟩ := hi.dispSome x hd
            rcases hh with hh | ⟨hh, _⟩
            · exact absurd ⟨x, hx, hh⟩ h4
            · exact absurd hh hb
        have hcl : s.closed = false := by
          cases hc : s.closed with
          | false => rfl
          | true =>
            have := closed_executed hw hi hc ht
            rw [hq] at this; cases this
        exact ⟨.recv (g.trig a)[k], _, rfl, step_recv.mpr ⟨⟨ht, hq, hdn, hcl⟩, rfl⟩⟩
      · exact ⟨.sent a (g.trig a)[k], _, rfl, step_sent.mpr ⟨k, hph, hget, Or.inr hq, rfl⟩⟩
  by_cases h6 : ∃ a, a ≤ g.n ∧ s.phase a = .queued
  · obtain ⟨t, ht, hq⟩ := h6
    have hdn : s.disp = none := by
      cases hd : s.disp with
      | none => rfl
      | some x =>
        obtain ⟨hx, hh⟩ := hi.dispSome x hd
        rcases hh with hh | ⟨_, hh⟩
        · exact absurd ⟨x, hx, hh⟩ h4
        · exfalso
          cases hpx : s.phase x with
          | running tok => exact h1 ⟨x, tok, hx, hpx⟩
          | trig k => exact h3 ⟨x, k, hx, hpx⟩
          | sending k => exact h5 ⟨x, k, hx, hpx⟩
          | _ => rw [hpx] at hh; simp [Phase.inlinePh] at hh
    have hcl : s.closed = false := by
      cases hc : s.closed with
      | false => rfl
      | true =>
        have := closed_executed hw hi hc ht
        rw [hq] at this; cases this
    exact ⟨.recv t, _, rfl, step_recv.mpr ⟨⟨ht, hq, hdn, hcl⟩, rfl⟩⟩
  · exfalso
    apply hnf
    have hall : ∀ a, a ≤ g.n → s.phase a = .idle ∨ s.phase a = .done := by
      intro a ha
      cases hpa : s.phase a with
      | idle => exact Or.inl rfl
      | done => exact Or.inr rfl
      | queued => exact absurd ⟨a, ha, hpa⟩ h6
      | held => exact absurd ⟨a, ha, hpa⟩ h4
      | running tok => exact absurd ⟨a, tok, ha, hpa⟩ h1
      | finished => exact absurd ⟨a, ha, hpa⟩ h2
      | trig k => exact absurd ⟨a, k, ha, hpa⟩ h3
      | sending k => exact absurd ⟨a, k, ha, hpa⟩ h5
    have hdone := no_idle_of_all_idle_or_done hw hi hall
    refine ⟨?_, hdone⟩
    rw [hi.closedIff, hdone g.n (Nat.le_refl _)]; rfl

/-- some event is always enabled in a non-final state when the semaphore has capacity ≥ 1
(if the environment holds every token, the enabled event is its release) -/
theorem progress_any (hw : WF g) (hi : Inv cfg g f s) (hnf : ¬ s.final g) (hc : 0 < cfg.c) :
    ∃ e s', step cfg g f s e = some s' := by
  by_cases henv : cfg.buffered = true ∨ s.env < cfg.c
  · obtain ⟨e, s', _, h⟩ := progress_nonenv hw hi hnf henv
    exact ⟨e, s', h⟩
  · have : 0 < s.env := by
      have : ¬ s.env < cfg.c := fun h => henv (Or.inr h)
      omega
    exact ⟨.envRel, _, step_envRel.mpr ⟨this, rfl⟩⟩

/-! ### termination: a measure -/

/-- number of events the handling of an action with `len` triggers still has to go through -/
def rem (len : Nat) : Phase → Nat
  | .idle => 2 * len + 6
  | .queued => 2 * len + 5
  | .held => 2 * len + 4
  | .running true => 2 * len + 3
  | .running false => 2 * len + 2
  | .finished => 2 * len + 2
  | .trig k => 2 * (len - k) + 1
  | .sending k => 2 * (len - k)
  | .done => 0

def msum (g : Dag) (ph : Nat → Phase) : Nat :=
  sumUpTo (fun a => rem (g.trig a).length (ph a)) (g.n + 1)

/-- the measure: the number of events of the instance still to come -/
def measure (g : Dag) (s : State R) : Nat := msum g s.phase

theorem msum_upd (ph : Nat → Phase) {b : Nat} (v : Phase) (hb : b ≤ g.n) :
    msum g (upd ph b v) + rem (g.trig b).length (ph b) =
    msum g ph + rem (g.trig b).length v := by
  unfold msum
  have := sumUpTo_upd (fun a => rem (g.trig a).length (ph a))
    (fun a => rem (g.trig a).length ((upd ph b v) a)) (g.n + 1) b (by omega)
    (by intro x hx; simp only [upd_other _ _ _ _ hx])
  simp only [upd_same] at this
  exact this

/-- every event of the instance strictly decreases the measure -/
theorem measure_decreases (hw : WF g) (hi : Inv cfg g f s) (hs : step cfg g f s e = some s')
    (he : e.isEnv = false) : measure g s' < measure g s := by
  unfold measure
  cases e with
  | recv t =>
    obtain ⟨⟨ht, hph, _⟩, rfl⟩ := step_recv.mp hs
    have := msum_upd (g := g) s.phase (b := t) .held ht
    simp [hph, rem] at this
    dsimp only; omega
  | start t tok =>
    cases tok with
    | true =>
      obtain ⟨⟨hd, hph, _⟩, rfl⟩ := step_start_tok.mp hs
      have := msum_upd (g := g) s.phase (b := t) (.running true) (hi.dispSome t hd).1
      simp [hph, rem] at this
      dsimp only; omega
    | false =>
      obtain ⟨⟨hd, hph, _⟩, rfl⟩ := step_start_inline.mp hs
      have := msum_upd (g := g) s.phase (b := t) (.running false) (hi.dispSome t hd).1
      simp [hph, rem] at this
      dsimp only; omega
  | exec a =>
    obtain ⟨tok, hph, rfl⟩ := step_exec.mp hs
    have ha := le_of_phase hi (a := a) (by rw [hph]; simp)
    have := msum_upd (g := g) s.phase (b := a) (if tok then .finished else .trig 0) ha
    cases tok <;> simp [hph, rem] at this <;> simp only [Bool.false_eq_true, if_false, if_true] <;> omega
  | rel a =>
    obtain ⟨hph, rfl⟩ := step_rel.mp hs
    have ha := le_of_phase hi (a := a) (by rw [hph]; simp)
    have := msum_upd (g := g) s.phase (b := a) (.trig 0) ha
    simp [hph, rem] at this
    dsimp only; omega
  | dec a t =>
    obtain ⟨k, hph, hk, hh⟩ := step_dec.mp hs
    obtain ⟨ha, ht, hat, hlt, hnone, hpos, hidle⟩ := dec_facts hw hi hph hk
    have hkl := lt_of_getElem? hk
    rcases hh with ⟨_, _, rfl⟩ | ⟨_, rfl⟩
    · have h1 := msum_upd (g := g) s.phase (b := a) (.sending k) ha
      have h2 := msum_upd (g := g) (upd s.phase a (.sending k)) (b := t) .queued ht
      rw [upd_other _ _ _ _ (by omega)] at h2
      simp [hph, hidle, rem] at h1 h2
      dsimp only; omega
    · have h1 := msum_upd (g := g) s.phase (b := a) (.trig (k + 1)) ha
      simp [hph, rem] at h1
      dsimp only; omega
  | sent a t =>
    obtain ⟨k, hph, hk, _, rfl⟩ := step_sent.mp hs
    have ha := le_of_phase hi (a := a) (by rw [hph]; simp)
    have hkl := lt_of_getElem? hk
    have := msum_upd (g := g) s.phase (b := a) (.trig (k + 1)) ha
    simp [hph, rem] at this
    dsimp only; omega
  | fin a =>
    obtain ⟨hph, rfl⟩ := step_fin.mp hs
    have ha := le_of_phase hi (a := a) (by rw [hph]; simp)
    have := msum_upd (g := g) s.phase (b := a) .done ha
    simp [hph, rem] at this
    dsimp only; omega
  | envAcq => cases he
  | envRel => cases he

/-- environment events leave the measure alone -/
theorem measure_env (hs : step cfg g f s e = some s') (he : e.isEnv = true) :
    measure g s' = measure g s := by
  cases e with
  | envAcq => obtain ⟨_, rfl⟩ := step_envAcq.mp hs; rfl
  | envRel => obtain ⟨_, rfl⟩ := step_envRel.mp hs; rfl
  | _ => cases he

def nonEnv (es : List Ev) : Nat := es.countP (fun e => !e.isEnv)

theorem run_measure (hw : WF g) {es : List Ev} : ∀ {s s' : State R}, Inv cfg g f s →
    run cfg g f s es = some s' → nonEnv es + measure g s' ≤ measure g s := by
  induction es with
  | nil => intro s s' _ h; simp [run] at h; subst h; simp [nonEnv]
  | cons e es ih =>
    intro s s' hi h
    simp only [run] at h
    split at h
    · rename_i s1 h1
      have h2 := ih (inv_step hw hi h1) h
      unfold nonEnv at h2 ⊢
      simp only [List.countP_cons]
      cases hee : e.isEnv with
      | true => have := measure_env h1 hee; simp; omega
      | false => have := measure_decreases hw hi h1 hee; simp; omega
    · cases h

end Verif.C06
