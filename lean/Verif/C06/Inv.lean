/-
C06 — the invariant of the scheduler model and the facts derived from it.
-/
import Verif.C06.Basic
namespace Verif.C06

variable {R : Type}

structure Inv (cfg : Cfg) (g : Dag) (f : Nat → List R → Option R) (s : State R) : Prop where
  outside : ∀ a, g.n < a → s.phase a = .done
  /-- `pending t` counts the dependencies that have not decremented it yet -/
  pend : ∀ t, t ≤ g.n → s.pending t = (g.deps t).countP (fun d => (s.decAt d t).isNone)
  /-- `d` has decremented its `i`-th trigger iff its trigger loop is past `i` -/
  decIff : ∀ d, d ≤ g.n → ∀ i t, (g.trig d)[i]? = some t →
    (s.decAt d t).isSome = (s.phase d).passed i
  idleIff : ∀ t, t ≤ g.n → (s.phase t = .idle ↔ 0 < s.pending t)
  trigBound : ∀ a, a ≤ g.n → ∀ k, (s.phase a = .trig k → k ≤ (g.trig a).length) ∧
    (s.phase a = .sending k → k < (g.trig a).length)
  /-- the tokens taken by the instance are exactly those of its handlers -/
  semCount : s.sem = sumUpTo (fun a => if (s.phase a).holds then 1 else 0) (g.n + 1)
  dispSome : ∀ t, s.disp = some t →
    t ≤ g.n ∧ (s.phase t = .held ∨ (cfg.buffered = true ∧ (s.phase t).inlinePh = true))
  heldDisp : ∀ t, t ≤ g.n → s.phase t = .held → s.disp = some t
  outIff : ∀ a, a ≤ g.n → (s.out a).isSome = (s.phase a).executed
  outEval : ∀ a, a ≤ g.n → (s.phase a).executed = true → s.out a = some (eval g f a)
  execAtIff : ∀ a, a ≤ g.n → (s.execAt a).isSome = (s.phase a).executed
  execCnt : ∀ a, a ≤ g.n → s.execCount a = if (s.phase a).executed then 1 else 0
  closedIff : s.closed = (s.phase g.n).executed
  /-- an action handled without a token of its own is the one the dispatcher loop runs inline -/
  inlineDisp : ∀ a, a ≤ g.n → s.phase a = .running false → s.disp = some a ∧ cfg.buffered = true
  /-- the semaphore never holds more than its capacity -/
  cap : s.sem + s.env ≤ cfg.c

/-- the ghost time stamps: the chain of synchronising events from the `exec` of a dependency
to the `exec` of its dependent (`exec d` → `dec d t` → the decrement of `t` that reached
zero → `exec t`) -/
structure InvT (g : Dag) (s : State R) : Prop where
  tsExec : ∀ a i, s.execAt a = some i → i < s.now
  tsDec : ∀ d t k, s.decAt d t = some k → k < s.now
  tsZero : ∀ t z, s.zeroAt t = some z → z < s.now
  hbDec : ∀ d t k, d ≤ g.n → s.decAt d t = some k → ∃ i, s.execAt d = some i ∧ i < k
  hbZero : ∀ t z, t ≤ g.n → s.zeroAt t = some z →
    ∀ d ∈ g.deps t, ∃ k, s.decAt d t = some k ∧ k ≤ z
  hbStart : ∀ t, t ≤ g.n → s.phase t ≠ .idle → g.deps t ≠ [] → ∃ z, s.zeroAt t = some z
  hbExec : ∀ a j, a ≤ g.n → s.execAt a = some j → g.deps a ≠ [] →
    ∃ z, s.zeroAt a = some z ∧ z < j

variable {cfg : Cfg} {g : Dag} {f : Nat → List R → Option R} {s s' : State R}

/-! ### bottom-up evaluation -/

theorem evalStep_congr (look look' : Nat → Option R) (a : Nat)
    (h : ∀ d ∈ g.deps a, look d = look' d) : evalStep g f look a = evalStep g f look' a := by
  unfold evalStep
  have : (g.deps a).map look = (g.deps a).map look' := List.map_congr_left h
  rw [this]

theorem evalF_stable (hw : WF g) : ∀ a, a ≤ g.n → ∀ k, a < k → evalF g f k a = evalF g f (a + 1) a := by
  intro a
  induction a using Nat.strongRecOn with
  | _ a ih =>
    intro ha k hk
    obtain ⟨k', rfl⟩ : ∃ k', k = k' + 1 := ⟨k - 1, by omega⟩
    simp only [evalF]
    apply evalStep_congr
    intro d hd
    have hda := hw.deps_lt a ha d hd
    rw [ih d hda (by omega) k' (by omega), ih d hda (by omega) a hda]

theorem eval_unfold (hw : WF g) (a : Nat) (ha : a ≤ g.n) :
    eval g f a = evalStep g f (eval g f) a := by
  unfold eval
  simp only [evalF]
  apply evalStep_congr
  intro d hd
  have hda := hw.deps_lt a ha d hd
  exact evalF_stable hw d (by omega) a hda

/-! ### derived facts -/

theorem le_of_phase (hi : Inv cfg g f s) {a : Nat} (h : s.phase a ≠ .done) : a ≤ g.n := by
  by_cases ha : a ≤ g.n
  · exact ha
  · exact absurd (hi.outside a (by omega)) h

theorem passed_executed {ph : Phase} {i : Nat} (h : ph.passed i = true) : ph.executed = true := by
  cases ph <;> simp_all [Phase.passed, Phase.executed]

/-- an action that has left `idle` has been decremented by all its dependencies -/
theorem deps_passed (hw : WF g) (hi : Inv cfg g f s) {t : Nat} (ht : t ≤ g.n)
    (hne : s.phase t ≠ .idle) : ∀ d ∈ g.deps t, ∃ i, (g.trig d)[i]? = some t ∧
      (s.phase d).passed i = true ∧ (s.decAt d t).isSome = true := by
  intro d hd
  have hp : s.pending t = 0 := by
    have := (hi.idleIff t ht)
    by_cases h0 : 0 < s.pending t
    · exact absurd (this.mpr h0) hne
    · omega
  have hc := hi.pend t ht
  rw [hp] at hc
  have hz := (List.countP_eq_zero.mp hc.symm) d hd
  have hsome : (s.decAt d t).isSome = true := by
    cases h : s.decAt d t <;> simp_all
  have hdt := hw.deps_lt t ht d hd
  have hmem := hw.trig_complete t ht d hd
  obtain ⟨i, hi'⟩ := List.mem_iff_getElem?.mp hmem
  refine ⟨i, hi', ?_, hsome⟩
  rw [← hi.decIff d (by omega) i t hi']
  exact hsome

/-- `starts_after_deps`, state form: whatever has left `idle` has all its dependencies executed -/
theorem deps_executed (hw : WF g) (hi : Inv cfg g f s) {t : Nat} (ht : t ≤ g.n)
    (hne : s.phase t ≠ .idle) : ∀ d ∈ g.deps t, (s.phase d).executed = true := by
  intro d hd
  obtain ⟨i, _, hp, _⟩ := deps_passed hw hi ht hne d hd
  exact passed_executed hp

/-- facts about a decrement that is about to happen -/
theorem dec_facts (hw : WF g) (hi : Inv cfg g f s) {a t k : Nat} (hph : s.phase a = .trig k)
    (hk : (g.trig a)[k]? = some t) :
    a ≤ g.n ∧ t ≤ g.n ∧ a ∈ g.deps t ∧ a < t ∧ s.decAt a t = none ∧ 1 ≤ s.pending t ∧
    s.phase t = .idle := by
  have ha : a ≤ g.n := le_of_phase hi (by rw [hph]; simp)
  have hmem : t ∈ g.trig a := List.mem_iff_getElem?.mpr ⟨k, hk⟩
  obtain ⟨ht, hat⟩ := hw.trig_sound a ha t hmem
  have hlt := hw.deps_lt t ht a hat
  have hnone : s.decAt a t = none := by
    have := hi.decIff a ha k t hk
    rw [hph] at this
    simp [Phase.passed] at this
    exact this
  have hpos : 1 ≤ s.pending t := by
    rw [hi.pend t ht]
    have : 0 < (g.deps t).countP (fun d => (s.decAt d t).isNone) :=
      List.countP_pos_iff.mpr ⟨a, hat, by simp [hnone]⟩
    omega
  exact ⟨ha, ht, hat, hlt, hnone, hpos, (hi.idleIff t ht).mpr (by omega)⟩

end Verif.C06
