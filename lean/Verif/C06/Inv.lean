/-
C06 — the invariant of the scheduler model and the facts derived from it.
-/
import Verif.C06.Basic
namespace Verif.C06

variable {R : Type}

/-- `passedP ph d i`: `d` has decremented its trigger number `i` -/
def passedP (ph : Nat → Phase) : Nat → Nat → Bool := fun d i => (ph d).passed i

structure Inv (cfg : Cfg) (g : Dag) (f : Nat → List R → Option R) (s : State R) : Prop where
  outside : ∀ a, g.n < a → s.phase a = .done
  /-- `pending t` counts the trigger entries pointing to `t` that have not been decremented yet -/
  pend : ∀ t, t ≤ g.n → s.pending t = openEdges g (passedP s.phase) t
  /-- `d` has decremented its `i`-th trigger iff its trigger loop is past `i` -/
  decIff : ∀ d, d ≤ g.n → ∀ i, i < (g.trig d).length →
    (s.decAt d i).isSome = (s.phase d).passed i
  idleIff : ∀ t, t ≤ g.n → (s.phase t = .idle ↔ 0 < s.pending t)
  trigBound : ∀ a, a ≤ g.n → ∀ k, (s.phase a = .trig k → k ≤ (g.trig a).length) ∧
    (s.phase a = .sending k → k < (g.trig a).length)
  /-- the tokens taken by the instance are exactly those of its handlers -/
  semCount : s.sem = sumUpTo (fun a => if (s.phase a).holds then 1 else 0) (g.n + 1)
  dispSome : ∀ t, s.disp = some t →
    t ≤ g.n ∧ (s.phase t = .held ∨ (cfg.buffered = true ∧ (s.phase t).inlinePh = true))
  heldDisp : ∀ t, t ≤ g.n → s.phase t = .held → s.disp = some t
  outIff : ∀ a, a ≤ g.n → (s.out a).isSome = (s.phase a).executed
  outEval : ∀ a, a ≤ g.n → (s.phase a).executed = true → s.out a = some (eval g f a)
  execAtIff : ∀ a, a ≤ g.n → (s.execAt a).isSome = (s.phase a).executed
  execCnt : ∀ a, a ≤ g.n → s.execCount a = if (s.phase a).executed then 1 else 0
  closedIff : s.closed = (s.phase g.n).executed
  /-- an action handled without a token of its own is the one the dispatcher loop runs inline -/
  inlineDisp : ∀ a, a ≤ g.n → s.phase a = .running false → s.disp = some a ∧ cfg.buffered = true
  /-- the semaphore never holds more than its capacity -/
  cap : s.sem + s.env ≤ cfg.c

/-- the ghost time stamps: the chain of synchronising events from the `exec` of a dependency
to the `exec` of its dependent (`exec d` → `dec d t` → the decrement of `t` that reached
zero → `exec t`) -/
structure InvT (g : Dag) (s : State R) : Prop where
  tsExec : ∀ a i, s.execAt a = some i → i < s.now
  tsDec : ∀ d t k, s.decAt d t = some k → k < s.now
  tsZero : ∀ t z, s.zeroAt t = some z → z < s.now
  hbDec : ∀ d t k, d ≤ g.n → s.decAt d t = some k → ∃ i, s.execAt d = some i ∧ i < k
  hbZero : ∀ t z, t ≤ g.n → s.zeroAt t = some z →
    ∀ d i, d ≤ g.n → (g.trig d)[i]? = some t → ∃ k, s.decAt d i = some k ∧ k ≤ z
  hbStart : ∀ t, t ≤ g.n → s.phase t ≠ .idle → g.deps t ≠ [] → ∃ z, s.zeroAt t = some z
  hbExec : ∀ a j, a ≤ g.n → s.execAt a = some j → g.deps a ≠ [] →
    ∃ z, s.zeroAt a = some z ∧ z < j

variable {cfg : Cfg} {g : Dag} {f : Nat → List R → Option R} {s s' : State R}

/-! ### bottom-up evaluation -/

theorem evalStep_congr (look look' : Nat → Option R) (a : Nat)
    (h : ∀ d ∈ g.deps a, look d = look' d) : evalStep g f look a = evalStep g f look' a := by
  unfold evalStep
  have : (g.deps a).map look = (g.deps a).map look' := List.map_congr_left h
  rw [this]

theorem evalF_stable (hw : WF g) : ∀ a, a ≤ g.n → ∀ k, a < k → evalF g f k a = evalF g f (a + 1) a := by
  intro a
  induction a using Nat.strongRecOn with
  | _ a ih =>
    intro ha k hk
    obtain ⟨k', rfl⟩ : ∃ k', k = k' + 1 := ⟨k - 1, by omega⟩
    simp only [evalF]
    apply evalStep_congr
    intro d hd
    have hda := hw.deps_lt a ha d hd
    rw [ih d hda (by omega) k' (by omega), ih d hda (by omega) a hda]

theorem eval_unfold (hw : WF g) (a : Nat) (ha : a ≤ g.n) :
    eval g f a = evalStep g f (eval g f) a := by
  unfold eval
  simp only [evalF]
  apply evalStep_congr
  intro d hd
  have hda := hw.deps_lt a ha d hd
  exact evalF_stable hw d (by omega) a hda

/-! ### derived facts -/

theorem le_of_phase (hi : Inv cfg g f s) {a : Nat} (h : s.phase a ≠ .done) : a ≤ g.n := by
  by_cases ha : a ≤ g.n
  · exact ha
  · exact absurd (hi.outside a (by omega)) h

theorem passed_executed {ph : Phase} {i : Nat} (h : ph.passed i = true) : ph.executed = true := by
  cases ph <;> simp_all [Phase.passed, Phase.executed]

/-! ### trigger entries not yet decremented -/

theorem getElem?_lt {l : List Nat} {i x : Nat} (h : l[i]? = some x) : i < l.length := by
  obtain ⟨h', _⟩ := List.getElem?_eq_some_iff.mp h
  exact h'

theorem openEdges_pos {P : Nat → Nat → Bool} {t : Nat} (h : 0 < openEdges g P t) :
    ∃ d i, d ≤ g.n ∧ (g.trig d)[i]? = some t ∧ P d i = false := by
  unfold openEdges at h
  obtain ⟨d, hd, hpos⟩ := sumUpTo_pos _ _ h
  obtain ⟨i, hi, hpos'⟩ := sumUpTo_pos _ _ hpos
  refine ⟨d, i, by omega, ?_⟩
  by_cases hc : (g.trig d)[i]? = some t ∧ P d i = false
  · exact hc
  · simp [hc] at hpos'

theorem openEdges_zero {P : Nat → Nat → Bool} {t : Nat} (h : openEdges g P t = 0) :
    ∀ d i, d ≤ g.n → (g.trig d)[i]? = some t → P d i = true := by
  intro d i hd hi
  unfold openEdges at h
  have h1 := sumUpTo_eq_zero _ _ h d (by omega)
  have h2 := sumUpTo_eq_zero _ _ h1 i (getElem?_lt hi)
  cases hp : P d i with
  | true => rfl
  | false => simp [hi, hp] at h2

theorem openEdges_congr {P P' : Nat → Nat → Bool} (t : Nat)
    (h : ∀ d i, d ≤ g.n → i < (g.trig d).length → P' d i = P d i) :
    openEdges g P' t = openEdges g P t := by
  unfold openEdges
  apply sumUpTo_congr
  intro d hd
  apply sumUpTo_congr
  intro i hi
  rw [h d i (by omega) hi]

/-- one entry `(a, k)` becomes decremented: the count for its target drops by one, all
other counts stay -/
theorem openEdges_flip {P P' : Nat → Nat → Bool} {a k : Nat} (ha : a ≤ g.n)
    (hk : k < (g.trig a).length) (h0 : P a k = false) (h1 : P' a k = true)
    (hoth : ∀ d i, d ≤ g.n → i < (g.trig d).length → ¬ (d = a ∧ i = k) → P' d i = P d i) (t : Nat) :
    openEdges g P t = openEdges g P' t + (if (g.trig a)[k]? = some t then 1 else 0) := by
  unfold openEdges
  have inner : sumUpTo (fun i => if (g.trig a)[i]? = some t ∧ P a i = false then 1 else 0) (g.trig a).length =
      sumUpTo (fun i => if (g.trig a)[i]? = some t ∧ P' a i = false then 1 else 0) (g.trig a).length +
      (if (g.trig a)[k]? = some t then 1 else 0) := by
    have := sumUpTo_upd (fun i => if (g.trig a)[i]? = some t ∧ P a i = false then 1 else 0)
      (fun i => if (g.trig a)[i]? = some t ∧ P' a i = false then 1 else 0) (g.trig a).length k hk
      (by
        intro x hx
        by_cases hxl : x < (g.trig a).length
        · rw [hoth a x ha hxl (by intro h; exact hx h.2)]
        · have : (g.trig a)[x]? = none := List.getElem?_eq_none (by omega)
          simp [this])
    simp only [h0, h1, and_true, Bool.true_eq_false, and_false, if_false] at this
    omega
  have outer := sumUpTo_upd'
    (fun d => sumUpTo (fun i => if (g.trig d)[i]? = some t ∧ P d i = false then 1 else 0) (g.trig d).length)
    (fun d => sumUpTo (fun i => if (g.trig d)[i]? = some t ∧ P' d i = false then 1 else 0) (g.trig d).length)
    (g.n + 1) a (by omega)
    (by
      intro x hxn hx
      apply sumUpTo_congr
      intro i hi
      rw [hoth x i (by omega) hi (by intro h; exact hx h.1)])
  omega

/-- an action that has left `idle` has been decremented through every trigger entry
pointing to it -/
theorem edges_passed (hi : Inv cfg g f s) {t : Nat} (ht : t ≤ g.n) (hne : s.phase t ≠ .idle) :
    ∀ d i, d ≤ g.n → (g.trig d)[i]? = some t → (s.phase d).passed i = true := by
  have hp : s.pending t = 0 := by
    have := (hi.idleIff t ht)
    by_cases h0 : 0 < s.pending t
    · exact absurd (this.mpr h0) hne
    · omega
  have hc := hi.pend t ht
  rw [hp] at hc
  exact openEdges_zero hc.symm

/-- an action that has left `idle` has been decremented by all its dependencies -/
theorem deps_passed (hw : WF g) (hi : Inv cfg g f s) {t : Nat} (ht : t ≤ g.n)
    (hne : s.phase t ≠ .idle) : ∀ d ∈ g.deps t, ∃ i, (g.trig d)[i]? = some t ∧
      (s.phase d).passed i = true := by
  intro d hd
  have hdt := hw.deps_lt t ht d hd
  have hmem := hw.trig_complete t ht d hd
  obtain ⟨i, hi'⟩ := List.mem_iff_getElem?.mp hmem
  exact ⟨i, hi', edges_passed hi ht hne d i (by omega) hi'⟩

/-- `starts_after_deps`, state form: whatever has left `idle` has all its dependencies executed -/
theorem deps_executed (hw : WF g) (hi : Inv cfg g f s) {t : Nat} (ht : t ≤ g.n)
    (hne : s.phase t ≠ .idle) : ∀ d ∈ g.deps t, (s.phase d).executed = true := by
  intro d hd
  obtain ⟨i, _, hp⟩ := deps_passed hw hi ht hne d hd
  exact passed_executed hp

/-- facts about a decrement that is about to happen -/
theorem dec_facts (hw : WF g) (hi : Inv cfg g f s) {a t k : Nat} (hph : s.phase a = .trig k)
    (hk : (g.trig a)[k]? = some t) :
    a ≤ g.n ∧ t ≤ g.n ∧ a ∈ g.deps t ∧ a < t ∧ s.decAt a k = none ∧ 1 ≤ s.pending t ∧
    s.phase t = .idle := by
  have ha : a ≤ g.n := le_of_phase hi (by rw [hph]; simp)
  have hmem : t ∈ g.trig a := List.mem_iff_getElem?.mpr ⟨k, hk⟩
  obtain ⟨ht, hat⟩ := hw.trig_sound a ha t hmem
  have hlt := hw.deps_lt t ht a hat
  have hkl := getElem?_lt hk
  have hnone : s.decAt a k = none := by
    have := hi.decIff a ha k hkl
    rw [hph] at this
    simp [Phase.passed] at this
    exact this
  have hpos : 1 ≤ s.pending t := by
    false_or_by_contra
    rename_i hcon
    have h0 : s.pending t = 0 := by omega
    rw [hi.pend t ht] at h0
    have := openEdges_zero h0 a k ha hk
    simp [passedP, hph, Phase.passed] at this
  exact ⟨ha, ht, hat, hlt, hnone, hpos, (hi.idleIff t ht).mpr (by omega)⟩

end Verif.C06
