/-
C06 — property theorems.

Scheduler (`Model.lean`; lintcmd/runner: `Run`, `runAnalyzers`, `genericHandle`,
`DecrementPending`; internal/sync `Semaphore`).  All theorems hold for every action graph
satisfying `WF` (the driver checks `Dag.wfB` for every graph of a real run), every
semaphore capacity, both kinds of instance (unbuffered queue + blocking `Acquire`;
buffered queue + `AcquireMaybe` with the inline path), every behaviour of the rest of
the program on the shared semaphore (`envAcq`/`envRel` at any time) and every
interleaving: `Reachable` quantifies over all event sequences the model admits.

Output (`Sort.lean`; lintcmd: `runFromLintResult`, `printDiagnostics`).
Directives (`Directives.lean`; lintcmd: the loops of `filterIgnored`): theorems stated there.
-/
import Verif.C06.PreserveT
import Verif.C06.Progress
import Verif.C06.SortLemmas
import Verif.C06.Directives
namespace Verif.C06

section
variable {R : Type} {cfg : Cfg} {g : Dag} {f : Nat → List R → Option R} {s : State R} {env0 : Nat}

theorem finalB_iff (s : State R) : s.finalB g = true ↔ s.final g := by
  simp only [State.finalB, State.final, Bool.and_eq_true, List.all_eq_true, List.mem_range,
    decide_eq_true_eq]
  constructor
  · rintro ⟨h1, h2⟩; exact ⟨h1, fun a ha => h2 a (by omega)⟩
  · rintro ⟨h1, h2⟩; exact ⟨h1, fun a ha => h2 a (by omega)⟩

/-! ## 1. every action is executed exactly once -/

/-- **exactly once.** In every reachable state no action has been executed more than once,
an action has been executed iff its handler is past `exec`, and when the loop has ended
every action has been executed exactly once. -/
theorem exactly_once (hw : WF g) (h0 : env0 ≤ cfg.c) (hr : Reachable cfg g f env0 s) :
    ∀ a, a ≤ g.n →
      s.execCount a ≤ 1 ∧ (s.execCount a = 1 ↔ (s.phase a).executed = true) ∧
      (s.final g → s.execCount a = 1) := by
  have hi := inv_reachable hw h0 hr
  intro a ha
  have hc := hi.execCnt a ha
  refine ⟨?_, ?_, ?_⟩
  · rw [hc]; split <;> omega
  · rw [hc]; split <;> simp_all
  · intro hf; rw [hc, hf.2 a ha]; rfl

/-! ## 2. only after all its dependencies -/

/-- **starts after its dependencies (state form).** An action that has left `idle` — it is
on the queue, with the dispatcher, running, … — has `pending = 0`, every dependency has
been executed and its result is the one the action will read. In particular no action is
ever started with `pending > 0`. -/
theorem starts_after_deps (hw : WF g) (h0 : env0 ≤ cfg.c) (hr : Reachable cfg g f env0 s)
    {t : Nat} (ht : t ≤ g.n) (hne : s.phase t ≠ .idle) :
    s.pending t = 0 ∧ ∀ d ∈ g.deps t, (s.phase d).executed = true ∧ s.out d = some (eval g f d) := by
  have hi := inv_reachable hw h0 hr
  refine ⟨?_, ?_⟩
  · have := hi.idleIff t ht
    by_cases hp : 0 < s.pending t
    · exact absurd (this.mpr hp) hne
    · omega
  · intro d hd
    have hde := deps_executed hw hi ht hne d hd
    have hdn : d ≤ g.n := by have := hw.deps_lt t ht d hd; omega
    exact ⟨hde, hi.outEval d hdn hde⟩

/-- **the write of a dependency's result is ordered before its read (event form).** If `a`
was executed at step `j` then every dependency `d` was executed at an earlier step `i`, and
between the two lie the decrement `d` performed on `a.pending` (step `k`) and the decrement
that brought `a.pending` to zero (step `z`): `i < k ≤ z < j`. These are the synchronising
operations (atomic add, channel send/receive) that order the write of `d`'s result before
its read by `a` — the model-level content of "no data race". -/
theorem hb_write_before_read (hw : WF g) (h0 : env0 ≤ cfg.c) (hr : Reachable cfg g f env0 s)
    {a j : Nat} (ha : a ≤ g.n) (hx : s.execAt a = some j) :
    ∀ d ∈ g.deps a, ∃ i k z, s.execAt d = some i ∧
      (∃ e, (g.trig d)[e]? = some a ∧ s.decAt d e = some k) ∧ s.zeroAt a = some z ∧
      i < k ∧ k ≤ z ∧ z < j := by
  have ht := invT_reachable hw h0 hr
  intro d hd
  have hne : g.deps a ≠ [] := by intro h; rw [h] at hd; simp at hd
  obtain ⟨z, hz, hzj⟩ := ht.hbExec a j ha hx hne
  have hdn : d ≤ g.n := by have := hw.deps_lt a ha d hd; omega
  obtain ⟨e, he⟩ := List.mem_iff_getElem?.mp (hw.trig_complete a ha d hd)
  obtain ⟨k, hk, hkz⟩ := ht.hbZero a z ha hz d e hdn he
  obtain ⟨i, hi', hik⟩ := ht.hbDec d e k hdn hk
  exact ⟨i, k, z, hi', ⟨e, he, hk⟩, hz, hik, hkz, hzj⟩

/-! ## 3. the semaphore bounds the running handlers -/

/-- number of handlers of the instance that hold a token (between `Acquire` and `Release`) -/
def holders (g : Dag) (s : State R) : Nat := holdsSum g s.phase

/-- **capacity.** The tokens taken by the instance are exactly those of its handlers
between `Acquire`/`AcquireMaybe` and `Release`; together with the tokens of the rest of
the program they never exceed the capacity. A handler without a token of its own
(`running false`) exists only in a `runAnalyzers` instance, is the one the dispatcher loop
itself is executing, and is therefore unique: it runs under the token of the package. -/
theorem capacity (hw : WF g) (h0 : env0 ≤ cfg.c) (hr : Reachable cfg g f env0 s) :
    s.sem = holders g s ∧ holders g s + s.env ≤ cfg.c ∧
    (∀ a, a ≤ g.n → s.phase a = .running false → s.disp = some a ∧ cfg.buffered = true) ∧
    (∀ a b, a ≤ g.n → b ≤ g.n → s.phase a = .running false → s.phase b = .running false → a = b) := by
  have hi := inv_reachable hw h0 hr
  refine ⟨hi.semCount, ?_, hi.inlineDisp, ?_⟩
  · have := hi.cap; rw [hi.semCount] at this; exact this
  · intro a b ha hb h1 h2
    have e1 := (hi.inlineDisp a ha h1).1
    have e2 := (hi.inlineDisp b hb h2).1
    rw [e1] at e2; exact Option.some.inj e2

/-! ## 4. no deadlock, termination -/

/-- **no deadlock.** From every reachable state in which the loop has not ended, an event of
the instance itself is enabled, provided the rest of the program does not hold every token
(`env < c`; those tokens belong to handlers of other instances, which make progress by this
same theorem) or the instance can run inline. With capacity ≥ 1 some event is always
enabled. -/
theorem no_deadlock (hw : WF g) (h0 : env0 ≤ cfg.c) (hr : Reachable cfg g f env0 s)
    (hnf : ¬ s.final g) :
    ((cfg.buffered = true ∨ s.env < cfg.c) →
      ∃ e s', e.isEnv = false ∧ step cfg g f s e = some s') ∧
    (0 < cfg.c → ∃ e s', step cfg g f s e = some s') := by
  have hi := inv_reachable hw h0 hr
  exact ⟨progress_nonenv hw hi hnf, progress_any hw hi hnf⟩

/-- **a send never hits the closed queue.** A handler that still has a trigger to decrement
finds the queue open (`close(queue)` happens in the root's handler, after everything else
has decremented everything). -/
theorem no_send_on_closed_queue (hw : WF g) (h0 : env0 ≤ cfg.c) (hr : Reachable cfg g f env0 s)
    {a k : Nat} (ha : a ≤ g.n) (hph : s.phase a = .trig k) (hk : k < (g.trig a).length) :
    s.closed = false := by
  have hi := inv_reachable hw h0 hr
  cases hc : s.closed with
  | false => rfl
  | true =>
    have := (closed_all hw hi hc (g.n - a) a ha (Nat.le_refl _)).2 k hk
    rw [hph] at this; simp [Phase.passed] at this

/-- **termination.** Every event of the instance decreases `measure`; an execution therefore
contains at most `measure (init …)` events of the instance, whatever the environment does. -/
theorem terminates (hw : WF g) (h0 : env0 ≤ cfg.c) {es : List Ev}
    (hrun : run cfg g f (init g env0) es = some s) :
    nonEnv es + measure g s ≤ measure g (init (R := R) g env0) :=
  run_measure hw (inv_init hw env0 h0) hrun

/-- an execution that cannot be extended by an event of the instance has ended the loop -/
theorem stuck_is_final (hw : WF g) (h0 : env0 ≤ cfg.c) (hr : Reachable cfg g f env0 s)
    (henv : cfg.buffered = true ∨ s.env < cfg.c)
    (hstuck : ∀ e s', e.isEnv = false → step cfg g f s e ≠ some s') : s.final g := by
  false_or_by_contra
  rename_i hnf
  obtain ⟨e, s', he, hs⟩ := (no_deadlock hw h0 hr hnf).1 henv
  exact hstuck e s' he hs

/-! ## 5. the buffer of `runAnalyzers` suffices -/

def queuedCount (g : Dag) (s : State R) : Nat :=
  sumUpTo (fun a => if s.phase a = .queued then 1 else 0) (g.n + 1)

theorem root_nonidle_all (hw : WF g) (hi : Inv cfg g f s) (hroot : s.phase g.n ≠ .idle) :
    ∀ m a, a < g.n → g.n - a ≤ m + 1 → (s.phase a).executed = true := by
  intro m
  induction m with
  | zero =>
    intro a ha hm
    have hne := hw.has_trig a ha
    obtain ⟨t, ht⟩ := List.exists_mem_of_ne_nil _ hne
    obtain ⟨htn, hat⟩ := hw.trig_sound a (by omega) t ht
    have hlt := hw.deps_lt t htn a hat
    have : t = g.n := by omega
    subst this
    exact deps_executed hw hi (Nat.le_refl _) hroot a hat
  | succ m ih =>
    intro a ha hm
    have hne := hw.has_trig a ha
    obtain ⟨t, ht⟩ := List.exists_mem_of_ne_nil _ hne
    obtain ⟨htn, hat⟩ := hw.trig_sound a (by omega) t ht
    have hlt := hw.deps_lt t htn a hat
    by_cases htr : t = g.n
    · subst htr; exact deps_executed hw hi (Nat.le_refl _) hroot a hat
    · have hte := ih t (by omega) (by omega)
      have : s.phase t ≠ .idle := by intro h; rw [h] at hte; cases hte
      exact deps_executed hw hi htn this a hat

theorem sumUpTo_le_card (f' : Nat → Nat) (k : Nat) (h : ∀ a, a < k → f' a ≤ 1) : sumUpTo f' k ≤ k := by
  induction k with
  | zero => simp [sumUpTo]
  | succ k ih =>
    simp only [sumUpTo]
    have := ih (fun a ha => h a (by omega))
    have := h k (by omega)
    omega

/-- **the queue buffer of `runAnalyzers` never overflows.** At most `n = len(all)` actions
are on the queue at any time (the root is sent only when every other action has been
received), so `queue <- t` on the channel of capacity `len(all)` never blocks — also not
when the sender is the dispatcher loop itself, running an action inline. -/
theorem inline_send_never_blocks (hw : WF g) (h0 : env0 ≤ cfg.c) (hr : Reachable cfg g f env0 s)
    (hn : 0 < g.n) : queuedCount g s ≤ g.n := by
  have hi := inv_reachable hw h0 hr
  unfold queuedCount
  simp only [sumUpTo]
  by_cases hq : s.phase g.n = .queued
  · have hroot : s.phase g.n ≠ .idle := by rw [hq]; simp
    have hz : sumUpTo (fun a => if s.phase a = .queued then 1 else 0) g.n = sumUpTo (fun _ => 0) g.n := by
      apply sumUpTo_congr
      intro a ha
      have := root_nonidle_all hw hi hroot (g.n - a) a ha (by omega)
      split
      · rename_i h; rw [h] at this; cases this
      · rfl
    rw [hz, sumUpTo_zero]; simp [hq]; omega
  · have := sumUpTo_le_card (fun a => if s.phase a = .queued then 1 else 0) g.n
      (by intro a _; split <;> omega)
    simp [hq]; exact this

/-! ## 6. the result does not depend on the schedule -/

/-- **results are schedule independent.** If what an action computes is a function `f` of
the action and of its dependencies' results (analyzers are deterministic — the hypothesis
is the type of `f`), then every result written in any reachable state, and in particular
every result when the loop has ended, is the bottom-up evaluation `eval g f` of the graph:
it does not depend on the interleaving, on the capacity, on the kind of instance or on
what the rest of the program does. -/
theorem results_schedule_independent (hw : WF g) (h0 : env0 ≤ cfg.c)
    (hr : Reachable cfg g f env0 s) :
    (∀ a, a ≤ g.n → ∀ r, s.out a = some r → r = eval g f a) ∧
    (s.final g → ∀ a, a ≤ g.n → s.out a = some (eval g f a)) := by
  have hi := inv_reachable hw h0 hr
  refine ⟨?_, ?_⟩
  · intro a ha r hout
    have h1 := hi.outIff a ha
    rw [hout] at h1
    have := hi.outEval a ha h1.symm
    rw [hout] at this; exact Option.some.inj this
  · intro hf a ha
    exact hi.outEval a ha (by rw [hf.2 a ha]; rfl)

/-- two complete runs — different interleavings, capacities, instance kinds, environments —
produce the same results -/
theorem two_runs_same_results (hw : WF g) {cfg₁ cfg₂ : Cfg} {e₁ e₂ : Nat} {s₁ s₂ : State R}
    (h1 : e₁ ≤ cfg₁.c) (h2 : e₂ ≤ cfg₂.c)
    (hr1 : Reachable cfg₁ g f e₁ s₁) (hr2 : Reachable cfg₂ g f e₂ s₂)
    (hf1 : s₁.final g) (hf2 : s₂.final g) : ∀ a, a ≤ g.n → s₁.out a = s₂.out a := by
  intro a ha
  rw [(results_schedule_independent hw h1 hr1).2 hf1 a ha,
    (results_schedule_independent hw h2 hr2).2 hf2 a ha]

/-- **the result of an action depends only on its dependency cone.** Two graphs (two
invocations naming different sets of packages) that agree on a set `S` of actions closed
under dependencies give every action of `S` the same result — the problems computed for a
package do not depend on which other packages are part of the run. -/
theorem result_depends_only_on_cone {g g' : Dag} {f : Nat → List R → Option R} (S : Nat → Prop)
    (hS : ∀ x, S x → g.deps x = g'.deps x ∧ ∀ d ∈ g.deps x, S d) :
    ∀ a, S a → eval g f a = eval g' f a := by
  have key : ∀ k a, S a → evalF g f k a = evalF g' f k a := by
    intro k
    induction k with
    | zero => intro a _; rfl
    | succ k ih =>
      intro a ha
      simp only [evalF]
      obtain ⟨hd, hc⟩ := hS a ha
      unfold evalStep
      rw [← hd]
      have : (g.deps a).map (evalF g f k) = (g.deps a).map (evalF g' f k) :=
        List.map_congr_left (fun d hd' => ih d (hc d hd'))
      rw [this]
  intro a ha
  exact key (a + 1) a ha

/-- failure is propagated along the graph and nowhere else: an action fails iff one of its
dependencies failed or its own execution fails on its dependencies' results -/
theorem failed_iff (hw : WF g) {a : Nat} (ha : a ≤ g.n) :
    eval g f a = none ↔
      (∃ d ∈ g.deps a, eval g f d = none) ∨
      ((∀ d ∈ g.deps a, (eval g f d).isSome = true) ∧
        f a ((g.deps a).filterMap (eval g f)) = none) := by
  rw [eval_unfold hw a ha]
  unfold evalStep
  simp only [List.all_map, List.filterMap_map]
  by_cases hall : ((g.deps a).all (Option.isSome ∘ eval g f)) = true
  · have hall' : ∀ d ∈ g.deps a, (eval g f d).isSome = true := by
      simpa [List.all_eq_true] using hall
    simp only [hall, if_true]
    have hfm : List.filterMap (id ∘ eval g f) (g.deps a) = List.filterMap (eval g f) (g.deps a) := rfl
    rw [hfm]
    constructor
    · intro h; exact Or.inr ⟨hall', h⟩
    · rintro (⟨d, hd, hn⟩ | ⟨_, h⟩)
      · have := hall' d hd; rw [hn] at this; cases this
      · exact h
  · simp only [hall, Bool.false_eq_true, if_false, true_iff]
    left
    false_or_by_contra
    rename_i hne
    apply hall
    simp only [List.all_eq_true, Function.comp]
    intro d hd
    cases h : eval g f d with
    | none => exact absurd ⟨d, hd, h⟩ hne
    | some _ => rfl

/-! ## 7. the printed list does not depend on the order of delivery -/

/-- **the comparator is a strict total order on the whole descriptor and the build name.** -/
theorem less_strict_total :
    (∀ a, less a a = false) ∧
    (∀ a b c, less a b = true → less b c = true → less a c = true) ∧
    (∀ a b, less a b = false → less b a = false → a.desc = b.desc ∧ a.build = b.build) := by
  refine ⟨less_irrefl', fun a b c => less_trans', ?_⟩
  intro a b h1 h2
  rcases less_tri' a b with h | h | h
  · rw [h1] at h; cases h
  · exact (sortKey_eq_iff a b).mp h
  · rw [h2] at h; cases h

/-- **whatever algorithm sorts** (`sort.Slice` is unstable and unspecified): any two sorted
arrangements of the same problems are the same list, if problems with equal descriptor and
build name are equal. -/
theorem sorted_output_unique {l₁ l₂ : List Diag} (hk : KeyInj l₁) (h1 : SortedD l₁)
    (h2 : SortedD l₂) (hp : l₁.Perm l₂) : l₁ = l₂ := sorted_perm_eq hk h1 h2 hp

/-- **the printed list is invariant under permutation of the input.** -/
theorem printed_perm_invariant {ds ds' : List Diag} (hp : ds.Perm ds') (hk : KeyInj ds) :
    printed ds = printed ds' := by
  unfold printed
  have hp' : (sortD ds).Perm (sortD ds') := (sortD_perm ds).trans (hp.trans (sortD_perm ds').symm)
  rw [sorted_perm_eq (hk.perm (sortD_perm ds).symm) (sortD_sorted ds) (sortD_sorted ds') hp']

/-- the values of the map built by `runFromLintResult`, with the build name of the run
filled in, never contain two different problems with the same descriptor and build name -/
theorem collect_keyInj (ds : List Diag) (b : String) :
    KeyInj ((collect ds).map fun d => { d with build := b }) := by
  intro x hx y hy hdesc _
  obtain ⟨x0, hx0, rfl⟩ := List.mem_map.mp hx
  obtain ⟨y0, hy0, rfl⟩ := List.mem_map.mp hy
  have hnd := collect_descNodup ds
  have hd : x0.desc = y0.desc := hdesc
  have : x0 = y0 := by
    false_or_by_contra
    rename_i hne
    unfold DescNodup at hnd
    have hsym : ∀ {a b : Diag}, a.desc ≠ b.desc → b.desc ≠ a.desc := fun h h' => h h'.symm
    exact pairwise_sym_mem hsym hnd hx0 hy0 hne hd
  rw [this]

/-- **end to end: the order in which packages and analyzers deliver their problems does not
reach the output.** `ds`, `ds'`: the problems of one run in two orders of delivery (the
order of `results` comes out of a Go map and differs from run to run); problems delivered
twice (a file that is part of a package and of its test variant) are delivered identically
(`DupEq`). `vs`, `vs'`: the values of the descriptor-keyed map in the order in which the
map iteration of `mergeRuns` happens to yield them. `srt`, `srt'`: what `sort.Slice`
makes of them (any sorted permutation). The de-duplicated lists handed to the formatter
are equal. -/
theorem printed_delivery_independent {ds ds' vs vs' srt srt' : List Diag} (b : String)
    (hp : ds.Perm ds') (hd : DupEq ds)
    (hv : vs.Perm ((collect ds).map fun d => { d with build := b }))
    (hv' : vs'.Perm ((collect ds').map fun d => { d with build := b }))
    (hs : srt.Perm vs) (hss : SortedD srt) (hs' : srt'.Perm vs') (hss' : SortedD srt') :
    dedupRun srt = dedupRun srt' := by
  have hd' : DupEq ds' := by
    intro x hx y hy; exact hd x (hp.mem_iff.mpr hx) y (hp.mem_iff.mpr hy)
  have hcc : (collect ds).Perm (collect ds') := by
    rw [List.perm_ext_iff_of_nodup (collect_descNodup ds).nodup (collect_descNodup ds').nodup]
    intro x; rw [mem_collect hd, mem_collect hd']; exact hp.mem_iff
  have hmm := hcc.map (fun d : Diag => { d with build := b })
  have hperm : srt.Perm srt' := hs.trans (hv.trans (hmm.trans (hv'.symm.trans hs'.symm)))
  have hk : KeyInj srt := (collect_keyInj ds b).perm (hs.trans hv).symm
  rw [sorted_perm_eq hk hss hss' hperm]

end

/-! ## non-vacuity: a concrete graph, concrete schedules, concrete problems -/

namespace Example

/-- a diamond with a parallel edge: 0 and 1 are leaves, 2 needs both, 3 lists 0 twice (as
ST1023 lists `tokenfile` twice), the root 4 needs 2 and 3 -/
def g : Dag :=
  { n := 4
    deps := fun a => match a with | 2 => [0, 1] | 3 => [0, 0] | 4 => [2, 3] | _ => []
    trig := fun a => match a with | 0 => [2, 3, 3] | 1 => [2] | 2 => [4] | 3 => [4] | _ => [] }

theorem g_wf : WF g := wf_of_wfB g (by decide)

/-- results: the sum of the dependencies' results plus the action's number; action 1 fails -/
def f : Nat → List Nat → Option Nat := fun a rs => if a = 1 then none else some (a + rs.sum)

def cfgRun : Cfg := { c := 2, buffered := false }
def cfgAna : Cfg := { c := 1, buffered := true }

/-- a schedule of the `Run` kind, capacity 2, two handlers at a time -/
def sched₁ : List Ev :=
  [.recv 0, .start 0 true, .recv 1, .start 1 true, .exec 1, .exec 0, .rel 0, .dec 0 2, .rel 1,
   .dec 1 2, .recv 2, .sent 1 2, .fin 1, .dec 0 3, .dec 0 3, .start 2 true, .recv 3, .sent 0 3, .fin 0,
   .exec 2, .rel 2, .start 3 true, .exec 3, .rel 3, .dec 2 4, .dec 3 4, .recv 4, .sent 3 4,
   .fin 2, .fin 3, .start 4 true, .exec 4, .rel 4, .fin 4]

/-- a schedule of the `runAnalyzers` kind, capacity 1 with the only token taken by the
package (`env0 = 1`): everything runs inline, in another order -/
def sched₂ : List Ev :=
  [.recv 1, .start 1 false, .exec 1, .dec 1 2, .fin 1, .recv 0, .start 0 false, .exec 0, .dec 0 2,
   .sent 0 2, .dec 0 3, .dec 0 3, .sent 0 3, .fin 0, .recv 3, .start 3 false, .exec 3, .dec 3 4, .fin 3,
   .recv 2, .start 2 false, .exec 2, .dec 2 4, .sent 2 4, .fin 2, .recv 4, .start 4 false,
   .exec 4, .fin 4]

def end₁ : Option (State Nat) := run cfgRun g f (init g 0) sched₁
def end₂ : Option (State Nat) := run cfgAna g f (init g 1) sched₂

def outs (s : Option (State Nat)) : List (Option (Option Nat)) :=
  match s with
  | none => []
  | some s => (List.range 5).map s.out

/-- both schedules are admitted, end the loop, and produce the same results (action 1
fails, its dependents 2 and 4 fail with it, 0 and 3 succeed) -/
example : (end₁.map (·.finalB g)) = some true ∧ (end₂.map (·.finalB g)) = some true ∧
    outs end₁ = outs end₂ ∧
    outs end₁ = [some (some 0), some none, some none, some (some 3), some none] := by decide

/-- `exactly_once`, `starts_after_deps`, `capacity`, `no_deadlock`, `terminates`,
`results_schedule_independent`, … are about `Reachable` states of well-formed graphs: here
is one that is final, and one in the middle of a run -/
example : ∃ s, Reachable cfgRun g f 0 s ∧ s.final g := by
  have h : (end₁.map (·.finalB g)) = some true := by decide
  cases he : end₁ with
  | none => rw [he] at h; cases h
  | some s =>
    rw [he] at h
    exact ⟨s, ⟨sched₁, he⟩, (finalB_iff s).mp (Option.some.inj h)⟩

example : ∃ s : State Nat, Reachable cfgRun g f 0 s ∧ ¬ s.final g ∧ s.phase 2 ≠ .idle ∧
    s.execAt 2 ≠ none := by
  have h : ((run cfgRun g f (init g 0) (sched₁.take 20)).map
      fun s => (!s.finalB g && decide (s.phase 2 ≠ .idle) && (s.execAt 2).isSome)) = some true := by
    decide
  cases he : run cfgRun g f (init g 0) (sched₁.take 20) with
  | none => rw [he] at h; cases h
  | some s =>
    rw [he] at h
    have h' := Option.some.inj h
    simp only [Bool.and_eq_true, Bool.not_eq_true', decide_eq_true_eq] at h'
    refine ⟨s, ⟨_, he⟩, ?_, h'.1.2, ?_⟩
    · intro hf; have := (finalB_iff s).mpr hf; rw [h'.1.1] at this; cases this
    · intro hn; rw [hn] at h'; simp at h'

/-- the inline case occurs: a reachable state of the `runAnalyzers` kind with a handler
that holds no token -/
example : ∃ s : State Nat, Reachable cfgAna g f 1 s ∧ s.phase 1 = .running false := by
  have h : ((run cfgAna g f (init g 1) (sched₂.take 2)).map
      fun s => decide (s.phase 1 = .running false)) = some true := by decide
  cases he : run cfgAna g f (init g 1) (sched₂.take 2) with
  | none => rw [he] at h; cases h
  | some s =>
    rw [he] at h
    exact ⟨s, ⟨_, he⟩, of_decide_eq_true (Option.some.inj h)⟩

/-- `failed_iff` on the example: 2 fails because its dependency 1 does; 3 does not fail -/
example : eval g f 2 = none ∧ eval g f 1 = none ∧ eval g f 3 = some 3 := by decide

/-- `result_depends_only_on_cone`: a second invocation that does not contain the packages
2 and 4 (3 is the root there) — the cone `{0, 3}` is untouched, so is the result of 3 -/
def g' : Dag :=
  { n := 3
    deps := fun a => match a with | 3 => [0, 0] | _ => []
    trig := fun a => match a with | 0 => [3, 3] | _ => [] }

example : (∀ x, (x = 0 ∨ x = 3) → g.deps x = g'.deps x ∧ ∀ d ∈ g.deps x, (d = 0 ∨ d = 3)) ∧
    eval g f 3 = eval g' f 3 := by
  refine ⟨?_, by decide⟩
  rintro x (rfl | rfl) <;> simp [g, g']

/-- the graph hypothesis is not vacuous in the other direction either: a schedule that
starts 2 before 1 has decremented it is rejected by the model -/
example : validTrace cfgRun g f 0 [.recv 0, .start 0 true, .exec 0, .rel 0, .dec 0 2, .recv 2] = false := by
  decide

def p (file : String) (line col : Nat) : Pos := ⟨file, 0, line, col⟩
def d₁ : Diag := ⟨p "a.go" 3 1, p "a.go" 3 9, "SA4006", "never used", 0, 0, "", ""⟩
def d₂ : Diag := ⟨p "a.go" 3 1, p "a.go" 3 5, "SA4006", "never used", 0, 0, "", ""⟩
def d₃ : Diag := ⟨p "a.go" 3 1, p "a.go" 3 9, "S1000", "never used", 0, 0, "", ""⟩
def d₄ : Diag := ⟨p "b.go" 1 1, p "b.go" 1 2, "U1000", "func f is unused", 0, 0, "", ""⟩

/-- four problems, three of them at the same position with the same message (they differ in
the end position or the check only): every order of delivery prints the same list -/
example : KeyInj [d₁, d₂, d₃, d₄] ∧ [d₄, d₂, d₁, d₃].Perm [d₁, d₂, d₃, d₄] ∧
    printed [d₁, d₂, d₃, d₄] = [d₃, d₂, d₁, d₄] ∧ printed [d₄, d₂, d₁, d₃] = [d₃, d₂, d₁, d₄] := by
  refine ⟨by decide, by decide, by decide, by decide⟩

/-- a problem delivered twice (package and test variant) is printed once; the hypotheses of
`printed_delivery_independent` are met by it -/
example : DupEq [d₁, d₄, d₁] ∧ collect [d₁, d₄, d₁] = [d₁, d₄] ∧ collect [d₄, d₁, d₁] = [d₄, d₁] ∧
    printed (collect [d₁, d₄, d₁]) = printed (collect [d₄, d₁, d₁]) := by
  refine ⟨by decide, by decide, by decide, by decide⟩

/-- without `KeyInj` the statement is false for an unstable sort — which is why it is a
hypothesis: two problems that differ only in a field the comparator does not look at
(severity) may come out in either order -/
example : let e₁ : Diag := { d₁ with sev := 2 }
    SortedD [d₁, e₁] ∧ SortedD [e₁, d₁] ∧ [d₁, e₁] ≠ [e₁, d₁] := by
  refine ⟨by decide, by decide, by decide⟩

end Example

end Verif.C06
