/-
C06 — every event preserves the invariant (one lemma per clause).
-/
import Verif.C06.Inv
namespace Verif.C06

variable {R : Type} {cfg : Cfg} {g : Dag} {f : Nat → List R → Option R} {s s' : State R} {e : Ev}

theorem inv_outside (hw : WF g) (hi : Inv cfg g f s) (hs : step cfg g f s e = some s') :
    ∀ a, g.n < a → s'.phase a = .done := by
  intro x hx
  have hox := hi.outside x hx
  cases e with
  | recv t =>
    obtain ⟨⟨ht, _⟩, rfl⟩ := step_recv.mp hs
    dsimp only; rw [upd_other _ _ _ _ (by omega)]; exact hox
  | start t tok =>
    cases tok with
    | true =>
      obtain ⟨⟨hd, _⟩, rfl⟩ := step_start_tok.mp hs
      have := (hi.dispSome t hd).1
      dsimp only; rw [upd_other _ _ _ _ (by omega)]; exact hox
    | false =>
      obtain ⟨⟨hd, _⟩, rfl⟩ := step_start_inline.mp hs
      have := (hi.dispSome t hd).1
      dsimp only; rw [upd_other _ _ _ _ (by omega)]; exact hox
  | exec a =>
    obtain ⟨tok, hph, rfl⟩ := step_exec.mp hs
    have := le_of_phase hi (a := a) (by rw [hph]; simp)
    dsimp only; rw [upd_other _ _ _ _ (by omega)]; exact hox
  | rel a =>
    obtain ⟨hph, rfl⟩ := step_rel.mp hs
    have := le_of_phase hi (a := a) (by rw [hph]; simp)
    dsimp only; rw [upd_other _ _ _ _ (by omega)]; exact hox
  | dec a t =>
    obtain ⟨k, hph, hk, hh⟩ := step_dec.mp hs
    obtain ⟨ha, ht, _⟩ := dec_facts hw hi hph hk
    rcases hh with ⟨_, _, rfl⟩ | ⟨_, rfl⟩
    · dsimp only; rw [upd_other _ _ _ _ (by omega), upd_other _ _ _ _ (by omega)]; exact hox
    · dsimp only; rw [upd_other _ _ _ _ (by omega)]; exact hox
  | sent a t =>
    obtain ⟨k, hph, _, _, rfl⟩ := step_sent.mp hs
    have := le_of_phase hi (a := a) (by rw [hph]; simp)
    dsimp only; rw [upd_other _ _ _ _ (by omega)]; exact hox
  | fin a =>
    obtain ⟨hph, rfl⟩ := step_fin.mp hs
    have := le_of_phase hi (a := a) (by rw [hph]; simp)
    dsimp only; rw [upd_other _ _ _ _ (by omega)]; exact hox
  | envAcq => obtain ⟨_, rfl⟩ := step_envAcq.mp hs; exact hox
  | envRel => obtain ⟨_, rfl⟩ := step_envRel.mp hs; exact hox

/-! ### frames: which fields an event leaves alone -/

/-- everything but `exec`: results and the `executed` status of every action are unchanged -/
structure FrameE (s s' : State R) : Prop where
  out : s'.out = s.out
  execAt : s'.execAt = s.execAt
  execCount : s'.execCount = s.execCount
  closed : s'.closed = s.closed
  executed : ∀ x, (s'.phase x).executed = (s.phase x).executed

/-- everything but `dec`: counters unchanged, no trigger loop advances past a decrement,
nothing enters or leaves `idle` -/
structure FrameQ (g : Dag) (s s' : State R) : Prop where
  pending : s'.pending = s.pending
  decAt : s'.decAt = s.decAt
  zeroAt : s'.zeroAt = s.zeroAt
  passed : ∀ x i, i < (g.trig x).length → (s'.phase x).passed i = (s.phase x).passed i
  idle : ∀ x, s'.phase x = .idle ↔ s.phase x = .idle

theorem executed_upd_eq {ph : Nat → Phase} {a : Nat} {v : Phase} (h : v.executed = (ph a).executed) :
    ∀ x, ((upd ph a v) x).executed = (ph x).executed := by
  intro x
  simp only [upd_apply]
  split
  · rename_i hx; rw [hx, h]
  · rfl

theorem passed_upd_eq {ph : Nat → Phase} {a : Nat} {v : Phase}
    (h : ∀ i, i < (g.trig a).length → v.passed i = (ph a).passed i) :
    ∀ x i, i < (g.trig x).length → ((upd ph a v) x).passed i = (ph x).passed i := by
  intro x i hi
  simp only [upd_apply]
  split
  · rename_i hx; subst hx; exact h i hi
  · rfl

theorem idle_upd_iff {ph : Nat → Phase} {a : Nat} {v : Phase} (h1 : v ≠ .idle) (h2 : ph a ≠ .idle) :
    ∀ x, (upd ph a v) x = .idle ↔ ph x = .idle := by
  intro x
  simp only [upd_apply]
  split
  · rename_i hx; subst hx; simp [h1, h2]
  · rfl

theorem frameE_of_step (hw : WF g) (hi : Inv cfg g f s) (hs : step cfg g f s e = some s')
    (he : ∀ a, e ≠ .exec a) : FrameE s s' := by
  cases e with
  | recv t =>
    obtain ⟨⟨_, hph, _⟩, rfl⟩ := step_recv.mp hs
    exact ⟨rfl, rfl, rfl, rfl, executed_upd_eq (by rw [hph]; rfl)⟩
  | start t tok =>
    cases tok with
    | true =>
      obtain ⟨⟨_, hph, _⟩, rfl⟩ := step_start_tok.mp hs
      exact ⟨rfl, rfl, rfl, rfl, executed_upd_eq (by rw [hph]; rfl)⟩
    | false =>
      obtain ⟨⟨_, hph, _⟩, rfl⟩ := step_start_inline.mp hs
      exact ⟨rfl, rfl, rfl, rfl, executed_upd_eq (by rw [hph]; rfl)⟩
  | exec a => exact absurd rfl (he a)
  | rel a =>
    obtain ⟨hph, rfl⟩ := step_rel.mp hs
    exact ⟨rfl, rfl, rfl, rfl, executed_upd_eq (by rw [hph]; rfl)⟩
  | dec a t =>
    obtain ⟨k, hph, hk, hh⟩ := step_dec.mp hs
    obtain ⟨ha, ht, _, hat, _, _, hidle⟩ := dec_facts hw hi hph hk
    rcases hh with ⟨_, _, rfl⟩ | ⟨_, rfl⟩
    · refine ⟨rfl, rfl, rfl, rfl, ?_⟩
      intro x
      dsimp only
      rw [executed_upd_eq (ph := upd s.phase a (.sending k)) (a := t) (v := .queued)
        (by rw [upd_other _ _ _ _ (by omega), hidle]; rfl) x]
      exact executed_upd_eq (by rw [hph]; rfl) x
    · exact ⟨rfl, rfl, rfl, rfl, executed_upd_eq (by rw [hph]; rfl)⟩
  | sent a t =>
    obtain ⟨k, hph, _, _, rfl⟩ := step_sent.mp hs
    exact ⟨rfl, rfl, rfl, rfl, executed_upd_eq (by rw [hph]; rfl)⟩
  | fin a =>
    obtain ⟨hph, rfl⟩ := step_fin.mp hs
    exact ⟨rfl, rfl, rfl, rfl, executed_upd_eq (by rw [hph]; rfl)⟩
  | envAcq => obtain ⟨_, rfl⟩ := step_envAcq.mp hs; exact ⟨rfl, rfl, rfl, rfl, fun _ => rfl⟩
  | envRel => obtain ⟨_, rfl⟩ := step_envRel.mp hs; exact ⟨rfl, rfl, rfl, rfl, fun _ => rfl⟩

theorem frameQ_of_step (hs : step cfg g f s e = some s')
    (he : ∀ a t, e ≠ .dec a t) : FrameQ g s s' := by
  cases e with
  | recv t =>
    obtain ⟨⟨_, hph, _⟩, rfl⟩ := step_recv.mp hs
    exact ⟨rfl, rfl, rfl, passed_upd_eq (by intro i _; rw [hph]; rfl),
      idle_upd_iff (by simp) (by rw [hph]; simp)⟩
  | start t tok =>
    cases tok with
    | true =>
      obtain ⟨⟨_, hph, _⟩, rfl⟩ := step_start_tok.mp hs
      exact ⟨rfl, rfl, rfl, passed_upd_eq (by intro i _; rw [hph]; rfl),
        idle_upd_iff (by simp) (by rw [hph]; simp)⟩
    | false =>
      obtain ⟨⟨_, hph, _⟩, rfl⟩ := step_start_inline.mp hs
      exact ⟨rfl, rfl, rfl, passed_upd_eq (by intro i _; rw [hph]; rfl),
        idle_upd_iff (by simp) (by rw [hph]; simp)⟩
  | exec a =>
    obtain ⟨tok, hph, rfl⟩ := step_exec.mp hs
    refine ⟨rfl, rfl, rfl, passed_upd_eq ?_, idle_upd_iff ?_ (by rw [hph]; simp)⟩
    · intro i _; rw [hph]; cases tok <;> simp [Phase.passed]
    · cases tok <;> simp
  | rel a =>
    obtain ⟨hph, rfl⟩ := step_rel.mp hs
    exact ⟨rfl, rfl, rfl, passed_upd_eq (by intro i _; rw [hph]; simp [Phase.passed]),
      idle_upd_iff (by simp) (by rw [hph]; simp)⟩
  | dec a t => exact absurd rfl (he a t)
  | sent a t =>
    obtain ⟨k, hph, _, _, rfl⟩ := step_sent.mp hs
    refine ⟨rfl, rfl, rfl, passed_upd_eq ?_, idle_upd_iff (by simp) (by rw [hph]; simp)⟩
    intro i _; rw [hph]; simp only [Phase.passed, decide_eq_decide]; omega
  | fin a =>
    obtain ⟨hph, rfl⟩ := step_fin.mp hs
    refine ⟨rfl, rfl, rfl, passed_upd_eq ?_, idle_upd_iff (by simp) (by rw [hph]; simp)⟩
    intro i hi; rw [hph]; simp [Phase.passed, hi]
  | envAcq => obtain ⟨_, rfl⟩ := step_envAcq.mp hs; exact ⟨rfl, rfl, rfl, fun _ _ _ => rfl, fun _ => Iff.rfl⟩
  | envRel => obtain ⟨_, rfl⟩ := step_envRel.mp hs; exact ⟨rfl, rfl, rfl, fun _ _ _ => rfl, fun _ => Iff.rfl⟩

theorem step_now (hs : step cfg g f s e = some s') : s'.now = s.now + 1 := by
  cases e with
  | recv t => obtain ⟨_, rfl⟩ := step_recv.mp hs; rfl
  | start t tok =>
    cases tok with
    | true => obtain ⟨_, rfl⟩ := step_start_tok.mp hs; rfl
    | false => obtain ⟨_, rfl⟩ := step_start_inline.mp hs; rfl
  | exec a => obtain ⟨_, _, rfl⟩ := step_exec.mp hs; rfl
  | rel a => obtain ⟨_, rfl⟩ := step_rel.mp hs; rfl
  | dec a t =>
    obtain ⟨k, _, _, hh⟩ := step_dec.mp hs
    rcases hh with ⟨_, _, rfl⟩ | ⟨_, rfl⟩ <;> rfl
  | sent a t => obtain ⟨_, _, _, _, rfl⟩ := step_sent.mp hs; rfl
  | fin a => obtain ⟨_, rfl⟩ := step_fin.mp hs; rfl
  | envAcq => obtain ⟨_, rfl⟩ := step_envAcq.mp hs; rfl
  | envRel => obtain ⟨_, rfl⟩ := step_envRel.mp hs; rfl

/-! ### counters: `pend`, `decIff`, `idleIff` -/

theorem lt_of_getElem? {l : List Nat} {i x : Nat} (h : l[i]? = some x) : i < l.length :=
  getElem?_lt h

theorem exists_dec_of_not (h : ¬ ∀ a t, e ≠ .dec a t) : ∃ a t, e = .dec a t := by
  false_or_by_contra
  rename_i hne
  exact h (fun a t h' => hne ⟨a, t, h'⟩)

/-- what a decrement does to `passed`: entry `(a, k)` becomes passed, nothing else changes -/
theorem dec_passed_upd {ph : Nat → Phase} {a k : Nat} {v : Phase} (hph : ph a = .trig k)
    (hv : ∀ i, v.passed i = decide (i ≤ k)) :
    ((upd ph a v) a).passed k = true ∧
    ∀ d i, ¬ (d = a ∧ i = k) → ((upd ph a v) d).passed i = (ph d).passed i := by
  refine ⟨by rw [upd_same, hv]; simp, ?_⟩
  intro d i hne
  by_cases hda : d = a
  · subst hda
    rw [upd_same, hv, hph]
    have : i ≠ k := fun h => hne ⟨rfl, h⟩
    simp only [Phase.passed, decide_eq_decide]; omega
  · rw [upd_other _ _ _ _ hda]

/-- the target of the decrement that reached zero goes from `idle` to `queued`: `passed`
does not see the difference -/
theorem passed_upd_queued {ph : Nat → Phase} {t : Nat} (hid : ph t = .idle) :
    ∀ d i, ((upd ph t .queued) d).passed i = (ph d).passed i := by
  intro d i
  by_cases hdt : d = t
  · subst hdt; rw [upd_same, hid]; rfl
  · rw [upd_other _ _ _ _ hdt]

theorem inv_pend (hw : WF g) (hi : Inv cfg g f s) (hs : step cfg g f s e = some s') :
    ∀ t, t ≤ g.n → s'.pending t = openEdges g (passedP s'.phase) t := by
  by_cases he : ∀ a t, e ≠ .dec a t
  · have hq := frameQ_of_step hs he
    intro t ht; rw [hq.pending, hi.pend t ht]
    symm; apply openEdges_congr; intro d i _ hil; exact hq.passed d i hil
  · obtain ⟨a, t, rfl⟩ := exists_dec_of_not he
    obtain ⟨k, hph, hk, hh⟩ := step_dec.mp hs
    obtain ⟨ha, ht, hat, hlt, hnone, hpos, hidle⟩ := dec_facts hw hi hph hk
    have hkl := getElem?_lt hk
    have h0 : passedP s.phase a k = false := by simp [passedP, hph, Phase.passed]
    intro t' ht'
    have hold := hi.pend t' ht'
    rcases hh with ⟨hp1, _, rfl⟩ | ⟨hp1, rfl⟩
    · dsimp only
      obtain ⟨h1, hoth⟩ := dec_passed_upd (v := .sending k) hph (fun i => rfl)
      have hat' : (upd s.phase a (.sending k)) t = .idle := by
        rw [upd_other _ _ _ _ (by omega)]; exact hidle
      have hq := passed_upd_queued hat'
      have := openEdges_flip (P := passedP s.phase)
        (P' := passedP (upd (upd s.phase a (.sending k)) t .queued)) ha hkl h0
        (by simp only [passedP]; rw [hq]; exact h1)
        (by intro d i _ _ hne; simp only [passedP]; rw [hq]; exact hoth d i hne) t'
      rw [hk] at this
      by_cases htt : t' = t
      · subst htt; rw [upd_same]; simp at this; omega
      · rw [upd_other _ _ _ _ htt]
        have hne : ¬ (some t = some t') := by intro h; exact htt (Option.some.inj h).symm
        simp [hne] at this; omega
    · dsimp only
      obtain ⟨h1, hoth⟩ := dec_passed_upd (v := .trig (k + 1)) hph
        (by intro i; simp only [Phase.passed, decide_eq_decide]; omega)
      have := openEdges_flip (P := passedP s.phase)
        (P' := passedP (upd s.phase a (.trig (k + 1)))) ha hkl h0
        (by simp only [passedP]; exact h1)
        (by intro d i _ _ hne; simp only [passedP]; exact hoth d i hne) t'
      rw [hk] at this
      by_cases htt : t' = t
      · subst htt; rw [upd_same]; simp at this; omega
      · rw [upd_other _ _ _ _ htt]
        have hne : ¬ (some t = some t') := by intro h; exact htt (Option.some.inj h).symm
        simp [hne] at this; omega

theorem inv_decIff (hw : WF g) (hi : Inv cfg g f s) (hs : step cfg g f s e = some s') :
    ∀ d, d ≤ g.n → ∀ i, i < (g.trig d).length →
      (s'.decAt d i).isSome = (s'.phase d).passed i := by
  by_cases he : ∀ a t, e ≠ .dec a t
  · have hq := frameQ_of_step hs he
    intro d hd i hil
    rw [hq.decAt, hq.passed d i hil]; exact hi.decIff d hd i hil
  · obtain ⟨a, t, rfl⟩ := exists_dec_of_not he
    obtain ⟨k, hph, hk, hh⟩ := step_dec.mp hs
    obtain ⟨ha, ht, hat, hlt, hnone, hpos, hidle⟩ := dec_facts hw hi hph hk
    intro d hd i hil
    have hold := hi.decIff d hd i hil
    have hdec : (upd2 s.decAt a k (some s.now) d i).isSome =
        if d = a ∧ i = k then true else (s.decAt d i).isSome := by
      simp only [upd2_apply]; split <;> simp
    rcases hh with ⟨hp1, _, rfl⟩ | ⟨hp1, rfl⟩
    · dsimp only
      obtain ⟨h1, hoth⟩ := dec_passed_upd (v := .sending k) hph (fun i => rfl)
      have hat' : (upd s.phase a (.sending k)) t = .idle := by
        rw [upd_other _ _ _ _ (by omega)]; exact hidle
      rw [hdec, passed_upd_queued hat']
      by_cases hc : d = a ∧ i = k
      · obtain ⟨rfl, rfl⟩ := hc; simp [Phase.passed]
      · simp only [hc, if_false]; rw [hoth d i hc]; exact hold
    · dsimp only
      obtain ⟨h1, hoth⟩ := dec_passed_upd (v := .trig (k + 1)) hph
        (by intro i; simp only [Phase.passed, decide_eq_decide]; omega)
      rw [hdec]
      by_cases hc : d = a ∧ i = k
      · obtain ⟨rfl, rfl⟩ := hc; simp [Phase.passed]
      · simp only [hc, if_false]; rw [hoth d i hc]; exact hold

theorem inv_idleIff (hw : WF g) (hi : Inv cfg g f s) (hs : step cfg g f s e = some s') :
    ∀ t, t ≤ g.n → (s'.phase t = .idle ↔ 0 < s'.pending t) := by
  by_cases he : ∀ a t, e ≠ .dec a t
  · have hq := frameQ_of_step hs he
    intro t ht; rw [hq.idle, hq.pending]; exact hi.idleIff t ht
  · have : ∃ a t, e = .dec a t := by
      false_or_by_contra
      rename_i hne
      exact he (fun a t h => hne ⟨a, t, h⟩)
    obtain ⟨a, t, rfl⟩ := this
    obtain ⟨k, hph, hk, hh⟩ := step_dec.mp hs
    obtain ⟨ha, ht, hat, hlt, hnone, hpos, hidle⟩ := dec_facts hw hi hph hk
    have hpa : ¬ 0 < s.pending a := by
      intro h; have := (hi.idleIff a ha).mpr h; rw [hph] at this; cases this
    intro x hx
    have hold := hi.idleIff x hx
    rcases hh with ⟨hp1, _, rfl⟩ | ⟨hp1, rfl⟩
    · dsimp only
      by_cases hxt : x = t
      · subst hxt; simp
      · rw [upd_other _ _ _ _ hxt, upd_other _ _ _ _ hxt]
        by_cases hxa : x = a
        · subst hxa; rw [upd_same]; simp; omega
        · rw [upd_other _ _ _ _ hxa]; exact hold
    · dsimp only
      by_cases hxt : x = t
      · subst hxt
        rw [upd_same, upd_other _ _ _ _ (by omega)]
        constructor
        · intro _; omega
        · intro _; exact hidle
      · rw [upd_other _ _ _ _ hxt]
        by_cases hxa : x = a
        · subst hxa; rw [upd_same]; simp; omega
        · rw [upd_other _ _ _ _ hxa]; exact hold

/-! ### `trigBound` -/

def TB (g : Dag) (ph : Nat → Phase) : Prop :=
  ∀ a, a ≤ g.n → ∀ k, (ph a = .trig k → k ≤ (g.trig a).length) ∧
    (ph a = .sending k → k < (g.trig a).length)

theorem TB_upd {ph : Nat → Phase} {b : Nat} {v : Phase} (h : TB g ph)
    (hv : ∀ k, (v = .trig k → k ≤ (g.trig b).length) ∧ (v = .sending k → k < (g.trig b).length)) :
    TB g (upd ph b v) := by
  intro a ha k
  simp only [upd_apply]
  split
  · rename_i hab; subst hab; exact hv k
  · exact h a ha k

theorem inv_trigBound (hi : Inv cfg g f s) (hs : step cfg g f s e = some s') :
    TB g s'.phase := by
  have h0 : TB g s.phase := hi.trigBound
  cases e with
  | recv t =>
    obtain ⟨_, rfl⟩ := step_recv.mp hs
    exact TB_upd h0 (by intro k; simp)
  | start t tok =>
    cases tok with
    | true =>
      obtain ⟨_, rfl⟩ := step_start_tok.mp hs
      exact TB_upd h0 (by intro k; simp)
    | false =>
      obtain ⟨_, rfl⟩ := step_start_inline.mp hs
      exact TB_upd h0 (by intro k; simp)
  | exec a =>
    obtain ⟨tok, _, rfl⟩ := step_exec.mp hs
    apply TB_upd h0
    intro k; cases tok <;> simp
    intro h; omega
  | rel a =>
    obtain ⟨_, rfl⟩ := step_rel.mp hs
    apply TB_upd h0
    intro k; simp
    intro h; omega
  | dec a t =>
    obtain ⟨k, hph, hk, hh⟩ := step_dec.mp hs
    have hlt := lt_of_getElem? hk
    rcases hh with ⟨_, _, rfl⟩ | ⟨_, rfl⟩
    · apply TB_upd (TB_upd h0 _) (by intro k; simp)
      intro k'; simp
      intro h; omega
    · apply TB_upd h0
      intro k'; simp
      intro h; omega
  | sent a t =>
    obtain ⟨k, hph, hk, _, rfl⟩ := step_sent.mp hs
    have hlt := lt_of_getElem? hk
    apply TB_upd h0
    intro k'; simp
    intro h; omega
  | fin a =>
    obtain ⟨_, rfl⟩ := step_fin.mp hs
    exact TB_upd h0 (by intro k; simp)
  | envAcq => obtain ⟨_, rfl⟩ := step_envAcq.mp hs; exact h0
  | envRel => obtain ⟨_, rfl⟩ := step_envRel.mp hs; exact h0

/-! ### `semCount` -/

def holdsSum (g : Dag) (ph : Nat → Phase) : Nat :=
  sumUpTo (fun a => if (ph a).holds then 1 else 0) (g.n + 1)

theorem holdsSum_upd (ph : Nat → Phase) {b : Nat} (v : Phase) (hb : b ≤ g.n) :
    holdsSum g (upd ph b v) + (if (ph b).holds then 1 else 0) =
    holdsSum g ph + (if v.holds then 1 else 0) := by
  unfold holdsSum
  have := sumUpTo_upd (fun a => if (ph a).holds then 1 else 0)
    (fun a => if ((upd ph b v) a).holds then 1 else 0) (g.n + 1) b (by omega)
    (by intro x hx; simp only [upd_other _ _ _ _ hx])
  simp only [upd_same] at this
  exact this

theorem inv_semCount (hw : WF g) (hi : Inv cfg g f s) (hs : step cfg g f s e = some s') :
    s'.sem = holdsSum g s'.phase := by
  have h0 : s.sem = holdsSum g s.phase := hi.semCount
  cases e with
  | recv t =>
    obtain ⟨⟨ht, hph, _⟩, rfl⟩ := step_recv.mp hs
    have := holdsSum_upd s.phase (b := t) .held ht
    simp [hph, Phase.holds] at this
    dsimp only; omega
  | start t tok =>
    cases tok with
    | true =>
      obtain ⟨⟨hd, hph, _⟩, rfl⟩ := step_start_tok.mp hs
      have := holdsSum_upd s.phase (b := t) (.running true) (hi.dispSome t hd).1
      simp [hph, Phase.holds] at this
      dsimp only; omega
    | false =>
      obtain ⟨⟨hd, hph, _⟩, rfl⟩ := step_start_inline.mp hs
      have := holdsSum_upd s.phase (b := t) (.running false) (hi.dispSome t hd).1
      simp [hph, Phase.holds] at this
      dsimp only; omega
  | exec a =>
    obtain ⟨tok, hph, rfl⟩ := step_exec.mp hs
    have ha := le_of_phase hi (a := a) (by rw [hph]; simp)
    have := holdsSum_upd s.phase (b := a) (if tok then .finished else .trig 0) ha
    cases tok <;> simp [hph, Phase.holds] at this <;> simp only [Bool.false_eq_true, if_false, if_true] <;> omega
  | rel a =>
    obtain ⟨hph, rfl⟩ := step_rel.mp hs
    have ha := le_of_phase hi (a := a) (by rw [hph]; simp)
    have := holdsSum_upd s.phase (b := a) (.trig 0) ha
    simp [hph, Phase.holds] at this
    dsimp only; omega
  | dec a t =>
    obtain ⟨k, hph, hk, hh⟩ := step_dec.mp hs
    obtain ⟨ha, ht, hat, hlt, hnone, hpos, hidle⟩ := dec_facts hw hi hph hk
    rcases hh with ⟨_, _, rfl⟩ | ⟨_, rfl⟩
    · have h1 := holdsSum_upd s.phase (b := a) (.sending k) ha
      have h2 := holdsSum_upd (upd s.phase a (.sending k)) (b := t) .queued ht
      rw [upd_other _ _ _ _ (by omega)] at h2
      simp [hph, hidle, Phase.holds] at h1 h2
      dsimp only; omega
    · have h1 := holdsSum_upd s.phase (b := a) (.trig (k + 1)) ha
      simp [hph, Phase.holds] at h1
      dsimp only; omega
  | sent a t =>
    obtain ⟨k, hph, _, _, rfl⟩ := step_sent.mp hs
    have ha := le_of_phase hi (a := a) (by rw [hph]; simp)
    have := holdsSum_upd s.phase (b := a) (.trig (k + 1)) ha
    simp [hph, Phase.holds] at this
    dsimp only; omega
  | fin a =>
    obtain ⟨hph, rfl⟩ := step_fin.mp hs
    have ha := le_of_phase hi (a := a) (by rw [hph]; simp)
    have := holdsSum_upd s.phase (b := a) .done ha
    simp [hph, Phase.holds] at this
    dsimp only; omega
  | envAcq => obtain ⟨_, rfl⟩ := step_envAcq.mp hs; exact h0
  | envRel => obtain ⟨_, rfl⟩ := step_envRel.mp hs; exact h0

end Verif.C06
