/-
C06 — line protocol driver.

  trace <c> <buf> <env0> <n> D <deps₀> … <depsₙ> T <trig₀> … <trigₙ> F <bits> E <ev> …
      one instance of the scheduler (one queue with its dispatcher loop) as observed in a
      real run: the graph (`deps`, `triggers` in the order of the Go slices; `-` = empty,
      otherwise comma separated action numbers, the root is `n`), which actions fail on
      their own (`bits`, one `0`/`1` per action), and the events in the order logged:
        r<t> recv   s<t> start with token   i<t> start inline   x<a> exec   l<a> release
        d<a>,<t> decrement   n<a>,<t> sent   f<a> genericHandle returned
        + / -  a token taken / given back by another instance
      answer: `ok <final> <complete> <failed bits> <peak sem+env>` when the graph is well formed
      (`Dag.wfB`) and the model admits every event; `reject <index> <event> <why>` for the
      first event it does not admit; `bad-graph`; `bad-op` for malformed input.
  sort <diag> …     → the list `printed` hands to the formatter
  less <diag> <diag> → 0/1
      diag = pfile,poff,pline,pcol,efile,eoff,eline,ecol,cat,msg,sev,mergeif,build,rest
      (strings hex encoded)
-/
import Verif.Common.Proto
import Verif.C06.Model
import Verif.C06.Sort
namespace Verif.C06
open Verif.Proto

def parseNatList (s : String) : Option (List Nat) :=
  if s = "-" then some [] else (s.splitOn ",").mapM parseNat

def parseEv (s : String) : Option Ev :=
  if s = "+" then some .envAcq
  else if s = "-" then some .envRel
  else
    let rest := (s.drop 1).toString
    match s.front with
    | 'r' => (parseNat rest).map .recv
    | 's' => (parseNat rest).map (.start · true)
    | 'i' => (parseNat rest).map (.start · false)
    | 'x' => (parseNat rest).map .exec
    | 'l' => (parseNat rest).map .rel
    | 'f' => (parseNat rest).map .fin
    | 'd' => match parseNatList rest with
      | some [a, t] => some (.dec a t)
      | _ => none
    | 'n' => match parseNatList rest with
      | some [a, t] => some (.sent a t)
      | _ => none
    | _ => none

def showPhase : Phase → String
  | .idle => "idle" | .queued => "queued" | .held => "held"
  | .running true => "running" | .running false => "running-inline"
  | .finished => "finished" | .trig k => s!"trig{k}" | .sending k => s!"sending{k}" | .done => "done"

/-- why `e` is not enabled in `s` (for the replay file) -/
def why (cfg : Cfg) (g : Dag) (s : State Unit) : Ev → String
  | .recv t => s!"phase[{t}]={showPhase (s.phase t)},pending={s.pending t},disp={s.disp},closed={s.closed}"
  | .start t tok => s!"phase[{t}]={showPhase (s.phase t)},disp={s.disp},tok={tok},sem={s.sem},env={s.env},c={cfg.c}"
  | .exec a => s!"phase[{a}]={showPhase (s.phase a)}"
  | .rel a => s!"phase[{a}]={showPhase (s.phase a)}"
  | .dec a t => s!"phase[{a}]={showPhase (s.phase a)},trig={g.trig a},pending[{t}]={s.pending t},closed={s.closed}"
  | .sent a t => s!"phase[{a}]={showPhase (s.phase a)},phase[{t}]={showPhase (s.phase t)}"
  | .fin a => s!"phase[{a}]={showPhase (s.phase a)},ntrig={(g.trig a).length}"
  | .envAcq => s!"sem={s.sem},env={s.env},c={cfg.c}"
  | .envRel => s!"env={s.env}"

/-- run the events; `Sum.inl (index, state)` at the first event that is not enabled -/
def replay (cfg : Cfg) (g : Dag) (f : Nat → List Unit → Option Unit) :
    State Unit → List Ev → Nat → Nat → Sum (Nat × Ev × State Unit) (State Unit × Nat)
  | s, [], _, peak => .inr (s, peak)
  | s, e :: es, i, peak =>
    match step cfg g f s e with
    | some s' => replay cfg g f s' es (i + 1) (max peak (s'.sem + s'.env))
    | none => .inl (i, e, s)

def failBits (g : Dag) (s : State Unit) : String :=
  String.ofList ((List.range (g.n + 1)).map fun a =>
    match s.out a with
    | none => '?'
    | some none => '1'
    | some (some _) => '0')

/-- the process may exit (the dispatcher loop of `Run` has ended) while handlers are past
their last decrement but have not returned: every action but the root has executed and
decremented all its triggers, the root's handler has been started -/
def completeB (g : Dag) (s : State Unit) : Bool :=
  (List.range g.n).all (fun a =>
    (s.phase a).executed && (List.range (g.trig a).length).all (fun i => (s.phase a).passed i)) &&
  (match s.phase g.n with
   | .idle => false | .queued => false | .held => false | _ => true)

def traceCmd (c buf env0 n : Nat) (deps trig : List (List Nat)) (bits : List Char) (evs : List Ev) : String :=
  let da := deps.toArray
  let ta := trig.toArray
  let ba := bits.toArray
  let g : Dag := { n := n, deps := fun a => da.getD a [], trig := fun a => ta.getD a [] }
  let cfg : Cfg := { c := c, buffered := buf == 1 }
  let f : Nat → List Unit → Option Unit := fun a _ => if ba.getD a '0' == '1' then none else some ()
  if !g.wfB || env0 > c then "bad-graph"
  else
    match replay cfg g f (init g env0) evs 0 env0 with
    | .inr (s, peak) => s!"ok {showBool (s.finalB g)} {showBool (completeB g s)} {failBits g s} {peak}"
    | .inl (i, e, s) => s!"reject {i} {why cfg g s e}"

def splitAt (tag : String) (l : List String) : Option (List String × List String) :=
  match l.span (· ≠ tag) with
  | (a, _ :: b) => some (a, b)
  | _ => none

def parseTrace (toks : List String) : Option String := do
  match toks with
  | c :: buf :: env0 :: n :: "D" :: rest =>
    let c ← parseNat c
    let buf ← parseNat buf
    let env0 ← parseNat env0
    let n ← parseNat n
    let (d, rest) ← splitAt "T" rest
    let (t, rest) ← splitAt "F" rest
    match rest with
    | bits :: "E" :: evs =>
      let deps ← d.mapM parseNatList
      let trig ← t.mapM parseNatList
      let evs ← evs.mapM parseEv
      if deps.length ≠ n + 1 ∨ trig.length ≠ n + 1 ∨ bits.length ≠ n + 1 ∨ buf > 1 then none
      else if bits.toList.any (fun ch => ch ≠ '0' ∧ ch ≠ '1') then none
      else pure (traceCmd c buf env0 n deps trig bits.toList evs)
    | _ => none
  | _ => none

def parseDiag (s : String) : Option Diag :=
  match s.splitOn "," with
  | [pf, po, pl, pc, ef, eo, el, ec, cat, msg, sev, mi, bu, re] => do
    let pf ← hexDecode pf
    let po ← parseNat po
    let pl ← parseNat pl
    let pc ← parseNat pc
    let ef ← hexDecode ef
    let eo ← parseNat eo
    let el ← parseNat el
    let ec ← parseNat ec
    let cat ← hexDecode cat
    let msg ← hexDecode msg
    let sev ← parseNat sev
    let mi ← parseNat mi
    let bu ← hexDecode bu
    let re ← hexDecode re
    pure ⟨⟨pf, po, pl, pc⟩, ⟨ef, eo, el, ec⟩, cat, msg, sev, mi, bu, re⟩
  | _ => none

def showDiag (d : Diag) : String :=
  ",".intercalate [hexEncode d.pos.file, toString d.pos.off, toString d.pos.line, toString d.pos.col,
    hexEncode d.stop.file, toString d.stop.off, toString d.stop.line, toString d.stop.col,
    hexEncode d.cat, hexEncode d.msg, toString d.sev, toString d.mergeIf, hexEncode d.build,
    hexEncode d.rest]

def step' (line : String) : String :=
  match tokens line with
  | "trace" :: rest => (parseTrace rest).getD "bad-op"
  | "sort" :: ds =>
    match ds.mapM parseDiag with
    | some ds => " ".intercalate ((printed ds).map showDiag)
    | none => "bad-op"
  | ["less", a, b] =>
    match parseDiag a, parseDiag b with
    | some a, some b => showBool (less a b)
    | _, _ => "bad-op"
  | _ => "bad-op"

end Verif.C06
