/-
C06 — basic lemmas: well-formed graphs, function updates, sums over `0 … n`,
characterisation of each event of `step`.
-/
import Verif.C06.Model
namespace Verif.C06

/-- the hypotheses on the action graph (what `newPackageAction` / `newAnalyzerAction` /
the root construction establish): dependencies are earlier in a topological numbering,
`triggers` is the converse of `deps` (as multisets: `deps t` has as many entries as there
are trigger entries pointing to `t`), every action but the root has a dependent -/
structure WF (g : Dag) : Prop where
  deps_lt : ∀ a, a ≤ g.n → ∀ d ∈ g.deps a, d < a
  trig_sound : ∀ a, a ≤ g.n → ∀ t ∈ g.trig a, t ≤ g.n ∧ a ∈ g.deps t
  trig_complete : ∀ t, t ≤ g.n → ∀ d ∈ g.deps t, t ∈ g.trig d
  edges_len : ∀ t, t ≤ g.n → (g.deps t).length = openEdges g (fun _ _ => false) t
  has_trig : ∀ a, a < g.n → g.trig a ≠ []

theorem allUpTo_iff (n : Nat) (p : Nat → Bool) : allUpTo n p = true ↔ ∀ a, a ≤ n → p a = true := by
  simp [allUpTo, List.all_eq_true, List.mem_range]
  constructor
  · intro h a ha; exact h a (by omega)
  · intro h a ha; exact h a (by omega)

theorem wf_of_wfB (g : Dag) (h : g.wfB = true) : WF g := by
  have h' := (allUpTo_iff _ _).mp h
  have hh : ∀ a, a ≤ g.n →
      (∀ d ∈ g.deps a, d < a) ∧
      (∀ t ∈ g.trig a, t ≤ g.n ∧ a ∈ g.deps t) ∧ (∀ d ∈ g.deps a, a ∈ g.trig d) ∧
      ((g.deps a).length = openEdges g (fun _ _ => false) a) ∧
      (a = g.n ∨ g.trig a ≠ []) := by
    intro a ha
    have := h' a ha
    simp only [Bool.and_eq_true, List.all_eq_true, decide_eq_true_eq,
      List.contains_iff_mem, Bool.or_eq_true, Bool.not_eq_true', List.isEmpty_eq_false_iff] at this
    obtain ⟨⟨⟨⟨h1, h2⟩, h3⟩, h4⟩, h5⟩ := this
    exact ⟨h1, h2, h3, h4, h5⟩
  refine ⟨?_, ?_, ?_, ?_, ?_⟩
  · intro a ha; exact (hh a ha).1
  · intro a ha; exact (hh a ha).2.1
  · intro t ht d hd; exact (hh t ht).2.2.1 d hd
  · intro t ht; exact (hh t ht).2.2.2.1
  · intro a ha
    rcases (hh a (by omega)).2.2.2.2 with h | h
    · omega
    · exact h

/-! ### updates -/

@[simp] theorem upd_same {α : Type} (f : Nat → α) (i : Nat) (v : α) : upd f i v i = v := by
  simp [upd]

theorem upd_other {α : Type} (f : Nat → α) (i j : Nat) (v : α) (h : j ≠ i) : upd f i v j = f j := by
  simp [upd, h]

theorem upd_apply {α : Type} (f : Nat → α) (i j : Nat) (v : α) :
    upd f i v j = if j = i then v else f j := rfl

theorem upd2_apply {α : Type} (f : Nat → Nat → α) (i k j l : Nat) (v : α) :
    upd2 f i k v j l = if j = i ∧ l = k then v else f j l := rfl

/-! ### sums over `0 … k-1` -/

theorem sumUpTo_congr (f f' : Nat → Nat) (k : Nat) (h : ∀ a, a < k → f' a = f a) :
    sumUpTo f' k = sumUpTo f k := by
  induction k with
  | zero => rfl
  | succ k ih =>
    simp only [sumUpTo]
    rw [ih (fun a ha => h a (by omega)), h k (by omega)]

/-- changing one summand -/
theorem sumUpTo_upd (f f' : Nat → Nat) (k a : Nat) (ha : a < k)
    (h : ∀ x, x ≠ a → f' x = f x) : sumUpTo f' k + f a = sumUpTo f k + f' a := by
  induction k with
  | zero => omega
  | succ k ih =>
    simp only [sumUpTo]
    by_cases hak : a = k
    · subst hak
      have := sumUpTo_congr f f' a (fun x hx => h x (by omega))
      omega
    · have := ih (by omega)
      have := h k (fun hh => hak hh.symm)
      omega

/-- changing one summand; the functions only have to agree below `k` -/
theorem sumUpTo_upd' (f f' : Nat → Nat) (k a : Nat) (ha : a < k)
    (h : ∀ x, x < k → x ≠ a → f' x = f x) : sumUpTo f' k + f a = sumUpTo f k + f' a := by
  have h1 : sumUpTo (fun x => if x < k then f' x else f x) k = sumUpTo f' k :=
    sumUpTo_congr _ _ k (by intro x hx; simp [hx])
  have h2 := sumUpTo_upd f (fun x => if x < k then f' x else f x) k a ha
    (by intro x hx; by_cases hxk : x < k <;> simp [hxk, h x, hx])
  simp only [ha, if_true] at h2
  omega

theorem sumUpTo_pos (f : Nat → Nat) (k : Nat) (h : 0 < sumUpTo f k) : ∃ a, a < k ∧ 0 < f a := by
  induction k with
  | zero => simp [sumUpTo] at h
  | succ k ih =>
    simp only [sumUpTo] at h
    by_cases hk : 0 < f k
    · exact ⟨k, by omega, hk⟩
    · obtain ⟨a, ha, hfa⟩ := ih (by omega)
      exact ⟨a, by omega, hfa⟩

theorem sumUpTo_eq_zero (f : Nat → Nat) (k : Nat) (h : sumUpTo f k = 0) : ∀ a, a < k → f a = 0 := by
  intro a ha
  false_or_by_contra
  rename_i hne
  have hsplit : sumUpTo f k + 0 = sumUpTo (fun x => if x = a then 0 else f x) k + f a := by
    have := sumUpTo_upd f (fun x => if x = a then 0 else f x) k a ha (by intro x hx; simp [hx])
    simp at this; omega
  omega

theorem sumUpTo_zero (k : Nat) : sumUpTo (fun _ => 0) k = 0 := by
  induction k with
  | zero => rfl
  | succ k ih => simp [sumUpTo, ih]

theorem sumUpTo_le (f f' : Nat → Nat) (k : Nat) (h : ∀ a, a < k → f a ≤ f' a) :
    sumUpTo f k ≤ sumUpTo f' k := by
  induction k with
  | zero => simp [sumUpTo]
  | succ k ih =>
    simp only [sumUpTo]
    have := ih (fun a ha => h a (by omega))
    have := h k (by omega)
    omega

/-! ### lists -/

theorem nodup_getElem?_inj {l : List Nat} (hl : l.Nodup) {i j : Nat} {x : Nat}
    (hi : l[i]? = some x) (hj : l[j]? = some x) : i = j := by
  induction l generalizing i j with
  | nil => simp at hi
  | cons y ys ih =>
    rw [List.nodup_cons] at hl
    cases i with
    | zero =>
      cases j with
      | zero => rfl
      | succ j =>
        simp at hi hj
        subst hi
        exact absurd (List.mem_of_getElem? hj) hl.1
    | succ i =>
      cases j with
      | zero =>
        simp at hi hj
        subst hj
        exact absurd (List.mem_of_getElem? hi) hl.1
      | succ j =>
        simp at hi hj
        rw [ih hl.2 hi hj]

/-- flipping the predicate at one member of a duplicate-free list -/
theorem countP_flip {l : List Nat} (hl : l.Nodup) {a : Nat} (ha : a ∈ l) (p p' : Nat → Bool)
    (hpa : p a = true) (hpa' : p' a = false) (h : ∀ x, x ≠ a → p' x = p x) :
    l.countP p = l.countP p' + 1 := by
  induction l with
  | nil => simp at ha
  | cons y ys ih =>
    rw [List.nodup_cons] at hl
    simp only [List.countP_cons]
    by_cases hya : y = a
    · subst hya
      have hc : ys.countP p' = ys.countP p := by
        apply List.countP_congr
        intro x hx
        have : x ≠ y := fun hxy => hl.1 (hxy ▸ hx)
        simp [h x this]
      simp [hpa, hpa', hc]
    · have ha' : a ∈ ys := by
        rcases List.mem_cons.mp ha with h1 | h1
        · exact absurd h1.symm hya
        · exact h1
      have := ih hl.2 ha'
      rw [h y hya]
      omega

/-! ### the events of `step`, one characterisation each -/

variable {R : Type} {cfg : Cfg} {g : Dag} {f : Nat → List R → Option R} {s s' : State R}

theorem step_recv {t : Nat} : step cfg g f s (.recv t) = some s' ↔
    (t ≤ g.n ∧ s.phase t = .queued ∧ s.disp = none ∧ s.closed = false) ∧
    s' = { s with phase := upd s.phase t .held, disp := some t, now := s.now + 1 } := by
  simp only [step]
  split
  · rename_i h
    constructor
    · intro h'; exact ⟨h, (Option.some.inj h').symm⟩
    · rintro ⟨_, rfl⟩; rfl
  · rename_i h
    constructor
    · intro h'; cases h'
    · rintro ⟨h', _⟩; exact absurd h' h

theorem step_start_tok {t : Nat} : step cfg g f s (.start t true) = some s' ↔
    (s.disp = some t ∧ s.phase t = .held ∧ s.sem + s.env < cfg.c) ∧
    s' = { s with phase := upd s.phase t (.running true), sem := s.sem + 1, disp := none,
                  startAt := upd s.startAt t (some s.now), now := s.now + 1 } := by
  simp only [step]
  split
  · rename_i h
    simp only [if_true]
    split
    · rename_i h2
      constructor
      · intro h'; exact ⟨⟨h.1, h.2, h2⟩, (Option.some.inj h').symm⟩
      · rintro ⟨_, rfl⟩; rfl
    · rename_i h2
      constructor
      · intro h'; cases h'
      · rintro ⟨h', _⟩; exact absurd h'.2.2 h2
  · rename_i h
    constructor
    · intro h'; cases h'
    · rintro ⟨h', _⟩; exact absurd ⟨h'.1, h'.2.1⟩ h

theorem step_start_inline {t : Nat} : step cfg g f s (.start t false) = some s' ↔
    (s.disp = some t ∧ s.phase t = .held ∧ cfg.buffered = true) ∧
    s' = { s with phase := upd s.phase t (.running false),
                  startAt := upd s.startAt t (some s.now), now := s.now + 1 } := by
  simp only [step]
  split
  · rename_i h
    simp only [Bool.false_eq_true, if_false]
    split
    · rename_i h2
      constructor
      · intro h'; exact ⟨⟨h.1, h.2, h2⟩, (Option.some.inj h').symm⟩
      · rintro ⟨_, rfl⟩; rfl
    · rename_i h2
      constructor
      · intro h'; cases h'
      · rintro ⟨h', _⟩; exact absurd h'.2.2 h2
  · rename_i h
    constructor
    · intro h'; cases h'
    · rintro ⟨h', _⟩; exact absurd ⟨h'.1, h'.2.1⟩ h

theorem step_exec {a : Nat} : step cfg g f s (.exec a) = some s' ↔
    ∃ tok, s.phase a = .running tok ∧
    s' = { s with phase := upd s.phase a (if tok then .finished else .trig 0)
                  out := upd s.out a (some (evalStep g f (fun d => (s.out d).join) a))
                  closed := s.closed || decide (a = g.n)
                  execAt := upd s.execAt a (some s.now)
                  execCount := upd s.execCount a (s.execCount a + 1)
                  now := s.now + 1 } := by
  simp only [step]
  split
  · rename_i tok h
    constructor
    · intro h'; exact ⟨tok, h, (Option.some.inj h').symm⟩
    · rintro ⟨tok', h1, rfl⟩
      rw [h] at h1
      cases h1
      rfl
  · rename_i h
    constructor
    · intro h'; cases h'
    · rintro ⟨tok, h1, _⟩; exact absurd h1 (h tok)

theorem step_rel {a : Nat} : step cfg g f s (.rel a) = some s' ↔
    s.phase a = .finished ∧
    s' = { s with phase := upd s.phase a (.trig 0), sem := s.sem - 1, now := s.now + 1 } := by
  simp only [step]
  split
  · rename_i h
    constructor
    · intro h'; exact ⟨h, (Option.some.inj h').symm⟩
    · rintro ⟨_, rfl⟩; rfl
  · rename_i h
    constructor
    · intro h'; cases h'
    · rintro ⟨h', _⟩; exact absurd h' h

theorem step_dec {a t : Nat} : step cfg g f s (.dec a t) = some s' ↔
    ∃ k, s.phase a = .trig k ∧ (g.trig a)[k]? = some t ∧
    ((s.pending t = 1 ∧ s.closed = false ∧
      s' = { s with phase := upd (upd s.phase a (.sending k)) t .queued
                    pending := upd s.pending t 0
                    decAt := upd2 s.decAt a k (some s.now)
                    zeroAt := upd s.zeroAt t (some s.now)
                    now := s.now + 1 }) ∨
     (s.pending t ≠ 1 ∧
      s' = { s with phase := upd s.phase a (.trig (k + 1))
                    pending := upd s.pending t (s.pending t - 1)
                    decAt := upd2 s.decAt a k (some s.now)
                    now := s.now + 1 })) := by
  simp only [step]
  split
  · rename_i k h
    split
    · rename_i h2
      split
      · rename_i h3
        split
        · rename_i h4
          constructor
          · intro h'; exact ⟨k, h, h2, Or.inl ⟨h3, h4, (Option.some.inj h').symm⟩⟩
          · rintro ⟨k', h1, _, hh⟩
            rw [h] at h1; cases h1
            rcases hh with ⟨_, _, rfl⟩ | ⟨h5, _⟩
            · rfl
            · exact absurd h3 h5
        · rename_i h4
          constructor
          · intro h'; cases h'
          · rintro ⟨k', h1, _, hh⟩
            rcases hh with ⟨_, h5, _⟩ | ⟨h5, _⟩
            · exact absurd h5 h4
            · exact absurd h3 h5
      · rename_i h3
        constructor
        · intro h'; exact ⟨k, h, h2, Or.inr ⟨h3, (Option.some.inj h').symm⟩⟩
        · rintro ⟨k', h1, _, hh⟩
          rw [h] at h1; cases h1
          rcases hh with ⟨h5, _⟩ | ⟨_, rfl⟩
          · exact absurd h5 h3
          · rfl
    · rename_i h2
      constructor
      · intro h'; cases h'
      · rintro ⟨k', h1, h3, _⟩
        rw [h] at h1; cases h1
        exact absurd h3 h2
  · rename_i h
    constructor
    · intro h'; cases h'
    · rintro ⟨k, h1, _⟩; exact absurd h1 (h k)

theorem step_sent {a t : Nat} : step cfg g f s (.sent a t) = some s' ↔
    ∃ k, s.phase a = .sending k ∧ (g.trig a)[k]? = some t ∧
      (cfg.buffered = true ∨ s.phase t ≠ .queued) ∧
      s' = { s with phase := upd s.phase a (.trig (k + 1)), now := s.now + 1 } := by
  simp only [step]
  split
  · rename_i k h
    split
    · rename_i h2
      constructor
      · intro h'; exact ⟨k, h, h2.1, h2.2, (Option.some.inj h').symm⟩
      · rintro ⟨k', h1, _, _, rfl⟩
        rw [h] at h1; cases h1
        rfl
    · rename_i h2
      constructor
      · intro h'; cases h'
      · rintro ⟨k', h1, h3, h4, _⟩
        rw [h] at h1; cases h1
        exact absurd ⟨h3, h4⟩ h2
  · rename_i h
    constructor
    · intro h'; cases h'
    · rintro ⟨k, h1, _⟩; exact absurd h1 (h k)

theorem step_fin {a : Nat} : step cfg g f s (.fin a) = some s' ↔
    s.phase a = .trig (g.trig a).length ∧
    s' = { s with phase := upd s.phase a .done
                  disp := if s.disp = some a then none else s.disp
                  now := s.now + 1 } := by
  simp only [step]
  split
  · rename_i h
    constructor
    · intro h'; exact ⟨h, (Option.some.inj h').symm⟩
    · rintro ⟨_, rfl⟩; rfl
  · rename_i h
    constructor
    · intro h'; cases h'
    · rintro ⟨h', _⟩; exact absurd h' h

theorem step_envAcq : step cfg g f s .envAcq = some s' ↔
    s.sem + s.env < cfg.c ∧ s' = { s with env := s.env + 1, now := s.now + 1 } := by
  simp only [step]
  split
  · rename_i h
    constructor
    · intro h'; exact ⟨h, (Option.some.inj h').symm⟩
    · rintro ⟨_, rfl⟩; rfl
  · rename_i h
    constructor
    · intro h'; cases h'
    · rintro ⟨h', _⟩; exact absurd h' h

theorem step_envRel : step cfg g f s .envRel = some s' ↔
    0 < s.env ∧ s' = { s with env := s.env - 1, now := s.now + 1 } := by
  simp only [step]
  split
  · rename_i h
    constructor
    · intro h'; exact ⟨h, (Option.some.inj h').symm⟩
    · rintro ⟨_, rfl⟩; rfl
  · rename_i h
    constructor
    · intro h'; cases h'
    · rintro ⟨h', _⟩; exact absurd h' h

end Verif.C06
