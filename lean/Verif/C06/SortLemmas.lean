/-
C06 — the comparator of `printDiagnostics` is a strict total order on the whole
descriptor plus the build name; consequences for sorting.
-/
import Verif.C06.Sort
namespace Verif.C06

/-- one compared field -/
inductive Fld where
  | s (x : String)
  | n (x : Nat)
deriving DecidableEq

def Fld.lt : Fld → Fld → Bool
  | .s a, .s b => decide (a < b)
  | .n a, .n b => decide (a < b)
  | .s _, .n _ => true
  | .n _, .s _ => false

theorem Fld.lt_irrefl (a : Fld) : a.lt a = false := by
  cases a <;> simp [Fld.lt, String.lt_irrefl]

theorem Fld.lt_trans {a b c : Fld} (h1 : a.lt b = true) (h2 : b.lt c = true) : a.lt c = true := by
  cases a <;> cases b <;> cases c <;> simp [Fld.lt] at h1 h2 ⊢
  · exact String.lt_trans h1 h2
  · omega

theorem Fld.lt_tri (a b : Fld) : a.lt b = true ∨ a = b ∨ b.lt a = true := by
  cases a <;> cases b <;> simp [Fld.lt]
  · rename_i x y; exact Std.lt_trichotomy x y
  · omega

/-- the chain `if x₁ ≠ y₁ { return x₁ < y₁ }; if x₂ ≠ y₂ { … }; …` -/
def lexLt : List Fld → List Fld → Bool
  | x :: xs, y :: ys => if x ≠ y then x.lt y else lexLt xs ys
  | _, _ => false

theorem lexLt_irrefl (l : List Fld) : lexLt l l = false := by
  induction l with
  | nil => rfl
  | cons x xs ih => simp [lexLt, ih]

theorem lexLt_trans : ∀ {a b c : List Fld}, lexLt a b = true → lexLt b c = true → lexLt a c = true := by
  intro a
  induction a with
  | nil => intro b c h; simp [lexLt] at h
  | cons x xs ih =>
    intro b c h1 h2
    cases b with
    | nil => simp [lexLt] at h1
    | cons y ys =>
      cases c with
      | nil => simp [lexLt] at h2
      | cons z zs =>
        simp only [lexLt] at h1 h2 ⊢
        by_cases hxy : x = y
        · subst hxy
          simp only [ne_eq, not_true_eq_false, if_false] at h1
          by_cases hxz : x = z
          · subst hxz
            simp only [ne_eq, not_true_eq_false, if_false] at h2 ⊢
            exact ih h1 h2
          · simp only [ne_eq, hxz, not_false_eq_true, if_true] at h2 ⊢
            exact h2
        · simp only [ne_eq, hxy, not_false_eq_true, if_true] at h1
          by_cases hyz : y = z
          · subst hyz
            simp only [ne_eq, hxy, not_false_eq_true, if_true]
            exact h1
          · simp only [ne_eq, hyz, not_false_eq_true, if_true] at h2
            have h3 := Fld.lt_trans h1 h2
            have hxz : x ≠ z := by
              intro h; subst h; rw [Fld.lt_irrefl] at h3; cases h3
            simp only [ne_eq, hxz, not_false_eq_true, if_true]
            exact h3

theorem lexLt_tri : ∀ (a b : List Fld), a.length = b.length →
    lexLt a b = true ∨ a = b ∨ lexLt b a = true := by
  intro a
  induction a with
  | nil => intro b h; cases b with
    | nil => exact Or.inr (Or.inl rfl)
    | cons _ _ => simp at h
  | cons x xs ih =>
    intro b h
    cases b with
    | nil => simp at h
    | cons y ys =>
      simp only [List.length_cons, Nat.add_right_cancel_iff] at h
      simp only [lexLt]
      by_cases hxy : x = y
      · subst hxy
        simp only [ne_eq, not_true_eq_false, if_false]
        rcases ih ys h with h1 | h1 | h1
        · exact Or.inl h1
        · exact Or.inr (Or.inl (by rw [h1]))
        · exact Or.inr (Or.inr h1)
      · have hyx : y ≠ x := fun h => hxy h.symm
        simp only [ne_eq, hxy, hyx, not_false_eq_true, if_true]
        rcases Fld.lt_tri x y with h1 | h1 | h1
        · exact Or.inl h1
        · exact absurd h1 hxy
        · exact Or.inr (Or.inr h1)

/-- the fields compared by `less`, in the order in which it compares them -/
def sortKey (d : Diag) : List Fld :=
  [.s d.pos.file, .n d.pos.line, .n d.pos.col, .s d.msg, .s d.cat, .s d.stop.file, .n d.stop.line,
   .n d.stop.col, .n d.pos.off, .n d.stop.off, .s d.build]

theorem ite_congr_step {c : Prop} {i1 i2 : Decidable c} {a x y : Bool} (h : c → x = y) :
    (@ite _ (¬ c) (@instDecidableNot c i1) a x) = (@ite _ (¬ c) (@instDecidableNot c i2) a y) := by
  by_cases hc : c
  · simp only [hc, not_true_eq_false, if_false]; exact h hc
  · simp only [hc, not_false_eq_true, if_true]

theorem less_eq_lexLt (a b : Diag) : less a b = lexLt (sortKey a) (sortKey b) := by
  simp only [less, sortKey, lexLt, ne_eq, Fld.s.injEq, Fld.n.injEq, Fld.lt]
  iterate 10 (apply ite_congr_step; intro _)
  by_cases h : a.build = b.build
  · simp [h, String.lt_irrefl]
  · simp [h]

/-- the comparator looks at every field of the descriptor and at the build name -/
theorem sortKey_eq_iff (a b : Diag) : sortKey a = sortKey b ↔ a.desc = b.desc ∧ a.build = b.build := by
  obtain ⟨⟨pf, po, pl, pc⟩, ⟨ef, eo, el, ec⟩, cat, msg, sev, mi, bu, re⟩ := a
  obtain ⟨⟨pf', po', pl', pc'⟩, ⟨ef', eo', el', ec'⟩, cat', msg', sev', mi', bu', re'⟩ := b
  simp only [sortKey, Diag.desc, List.cons.injEq, Fld.s.injEq, Fld.n.injEq, and_true, Desc.mk.injEq,
    Pos.mk.injEq]
  constructor
  · rintro ⟨h1, h2, h3, h4, h5, h6, h7, h8, h9, h10, h11⟩
    exact ⟨⟨⟨h1, h9, h2, h3⟩, ⟨h6, h10, h7, h8⟩, h5, h4⟩, h11⟩
  · rintro ⟨⟨⟨h1, h9, h2, h3⟩, ⟨h6, h10, h7, h8⟩, h5, h4⟩, h11⟩
    exact ⟨h1, h2, h3, h4, h5, h6, h7, h8, h9, h10, h11⟩

theorem sortKey_length (a : Diag) : (sortKey a).length = 11 := rfl

theorem less_irrefl' (a : Diag) : less a a = false := by
  rw [less_eq_lexLt]; exact lexLt_irrefl _

theorem less_trans' {a b c : Diag} (h1 : less a b = true) (h2 : less b c = true) : less a c = true := by
  rw [less_eq_lexLt] at h1 h2 ⊢; exact lexLt_trans h1 h2

theorem less_tri' (a b : Diag) : less a b = true ∨ sortKey a = sortKey b ∨ less b a = true := by
  rw [less_eq_lexLt, less_eq_lexLt]
  exact lexLt_tri _ _ (by rw [sortKey_length, sortKey_length])

theorem less_asymm' {a b : Diag} (h : less a b = true) : less b a = false := by
  cases h2 : less b a with
  | false => rfl
  | true => have := less_trans' h h2; rw [less_irrefl'] at this; cases this

/-- `le a b := ¬ less b a` is transitive … -/
theorem le_trans' {a b c : Diag} (h1 : less b a = false) (h2 : less c b = false) : less c a = false := by
  cases h : less c a with
  | false => rfl
  | true =>
    rcases less_tri' a b with h3 | h3 | h3
    · have := less_trans' h h3; rw [h2] at this; cases this
    · rw [less_eq_lexLt] at h h2; rw [h3] at h; rw [h] at h2; cases h2
    · rw [h1] at h3; cases h3

/-- … and total -/
theorem le_total' (a b : Diag) : (!less b a || !less a b) = true := by
  cases h : less b a with
  | false => rfl
  | true => simp [less_asymm' h]

/-- sorted with respect to the comparator: no later element is `less` than an earlier one -/
def SortedD (l : List Diag) : Prop := l.Pairwise (fun a b => less b a = false)

/-- problems with the same descriptor and build name are the same problem -/
def KeyInj (l : List Diag) : Prop :=
  ∀ a, a ∈ l → ∀ b, b ∈ l → a.desc = b.desc → a.build = b.build → a = b

instance (l : List Diag) : Decidable (SortedD l) := by unfold SortedD; infer_instance
instance (l : List Diag) : Decidable (KeyInj l) := by unfold KeyInj; infer_instance

theorem insertS_perm (d : Diag) (l : List Diag) : (insertS d l).Perm (d :: l) := by
  induction l with
  | nil => exact List.Perm.refl _
  | cons x xs ih =>
    simp only [insertS]
    split
    · exact List.Perm.refl _
    · exact (List.Perm.cons x ih).trans (List.Perm.swap d x xs)

theorem sortD_perm (ds : List Diag) : (sortD ds).Perm ds := by
  induction ds with
  | nil => exact List.Perm.refl _
  | cons d ds ih =>
    show (insertS d (sortD ds)).Perm (d :: ds)
    exact (insertS_perm d _).trans (List.Perm.cons d ih)

theorem insertS_sorted (d : Diag) {l : List Diag} (h : SortedD l) : SortedD (insertS d l) := by
  induction l with
  | nil => simp [insertS, SortedD]
  | cons x xs ih =>
    unfold SortedD at h ih ⊢
    rw [List.pairwise_cons] at h
    simp only [insertS]
    split
    · rename_i hdx
      rw [List.pairwise_cons, List.pairwise_cons]
      refine ⟨?_, h⟩
      intro y hy
      rcases List.mem_cons.mp hy with hy | hy
      · rw [hy]; exact less_asymm' hdx
      · cases hyd : less y d with
        | false => rfl
        | true => have := less_trans' hyd hdx; rw [h.1 y hy] at this; cases this
    · rename_i hdx
      rw [List.pairwise_cons]
      refine ⟨?_, ih h.2⟩
      intro y hy
      rcases List.mem_cons.mp ((insertS_perm d xs).mem_iff.mp hy) with hy | hy
      · rw [hy]; simpa using hdx
      · exact h.1 y hy

theorem sortD_sorted (ds : List Diag) : SortedD (sortD ds) := by
  induction ds with
  | nil => exact List.Pairwise.nil
  | cons d ds ih => exact insertS_sorted d ih

/-- two sorted lists with the same elements are the same list -/
theorem sorted_perm_eq {l₁ l₂ : List Diag} (hk : KeyInj l₁) (h1 : SortedD l₁) (h2 : SortedD l₂)
    (hp : l₁.Perm l₂) : l₁ = l₂ := by
  apply List.Perm.eq_of_pairwise (le := fun a b => less b a = false) _ h1 h2 hp
  intro a b ha hb hab hba
  rcases less_tri' a b with h | h | h
  · rw [hba] at h; cases h
  · obtain ⟨hd, hbu⟩ := (sortKey_eq_iff a b).mp h
    exact hk a ha b (hp.mem_iff.mpr hb) hd hbu
  · rw [hab] at h; cases h

theorem KeyInj.perm {l₁ l₂ : List Diag} (hk : KeyInj l₁) (hp : l₁.Perm l₂) : KeyInj l₂ := by
  intro a ha b hb
  exact hk a (hp.mem_iff.mpr ha) b (hp.mem_iff.mpr hb)

/-! ### `collect` -/

theorem mem_insertD {m : List Diag} {d x : Diag} (h : x ∈ insertD m d) : x = d ∨ x ∈ m := by
  induction m with
  | nil => simp [insertD] at h; exact Or.inl h
  | cons y ys ih =>
    simp only [insertD] at h
    split at h
    · rcases List.mem_cons.mp h with h | h
      · exact Or.inl h
      · exact Or.inr (List.mem_cons_of_mem _ h)
    · rcases List.mem_cons.mp h with h | h
      · exact Or.inr (by rw [h]; simp)
      · rcases ih h with h | h
        · exact Or.inl h
        · exact Or.inr (List.mem_cons_of_mem _ h)

/-- the keys of the map are distinct -/
def DescNodup (m : List Diag) : Prop := m.Pairwise (fun a b => a.desc ≠ b.desc)

theorem insertD_descNodup {m : List Diag} (d : Diag) (h : DescNodup m) : DescNodup (insertD m d) := by
  induction m with
  | nil => simp [insertD, DescNodup]
  | cons y ys ih =>
    unfold DescNodup at h ih ⊢
    rw [List.pairwise_cons] at h
    simp only [insertD]
    split
    · rename_i hyd
      rw [List.pairwise_cons]
      exact ⟨fun b hb => by rw [← hyd]; exact h.1 b hb, h.2⟩
    · rename_i hyd
      rw [List.pairwise_cons]
      refine ⟨?_, ih h.2⟩
      intro b hb
      rcases mem_insertD hb with hb | hb
      · rw [hb]; exact hyd
      · exact h.1 b hb

theorem mem_insertD_self (m : List Diag) (d : Diag) : d ∈ insertD m d := by
  induction m with
  | nil => simp [insertD]
  | cons y ys ih =>
    simp only [insertD]
    split
    · simp
    · exact List.mem_cons_of_mem _ ih

theorem mem_insertD_of_mem {m : List Diag} {d x : Diag} (h : x ∈ m) (hne : x.desc ≠ d.desc) :
    x ∈ insertD m d := by
  induction m with
  | nil => simp at h
  | cons y ys ih =>
    simp only [insertD]
    split
    · rename_i hyd
      rcases List.mem_cons.mp h with h | h
      · subst h; exact absurd hyd hne
      · exact List.mem_cons_of_mem _ h
    · rcases List.mem_cons.mp h with h | h
      · subst h; simp
      · exact List.mem_cons_of_mem _ (ih h)

theorem foldl_insertD_descNodup (ds : List Diag) : ∀ m, DescNodup m → DescNodup (ds.foldl insertD m) := by
  induction ds with
  | nil => intro m h; exact h
  | cons d ds ih => intro m h; exact ih _ (insertD_descNodup d h)

theorem collect_descNodup (ds : List Diag) : DescNodup (collect ds) :=
  foldl_insertD_descNodup ds [] List.Pairwise.nil

/-- problems delivered twice (one file in several packages) are delivered identically -/
def DupEq (l : List Diag) : Prop := ∀ a, a ∈ l → ∀ b, b ∈ l → a.desc = b.desc → a = b

theorem foldl_insertD_mem (ds : List Diag) : ∀ m, DupEq (m ++ ds) →
    ∀ x, x ∈ ds.foldl insertD m ↔ x ∈ m ++ ds := by
  induction ds with
  | nil => intro m _ x; simp
  | cons d ds ih =>
    intro m hd x
    have hd' : DupEq (insertD m d ++ ds) := by
      intro a ha b hb hab
      have conv : ∀ y, y ∈ insertD m d ++ ds → y ∈ m ++ d :: ds := by
        intro y hy
        rcases List.mem_append.mp hy with hy | hy
        · rcases mem_insertD hy with hy | hy
          · rw [hy]; simp
          · exact List.mem_append.mpr (Or.inl hy)
        · exact List.mem_append.mpr (Or.inr (List.mem_cons_of_mem _ hy))
      exact hd a (conv a ha) b (conv b hb) hab
    simp only [List.foldl_cons]
    rw [ih (insertD m d) hd']
    simp only [List.mem_append, List.mem_cons]
    constructor
    · rintro (h | h)
      · rcases mem_insertD h with h | h
        · exact Or.inr (Or.inl h)
        · exact Or.inl h
      · exact Or.inr (Or.inr h)
    · rintro (h | h | h)
      · by_cases hxd : x.desc = d.desc
        · have : x = d := hd x (by simp [h]) d (by simp) hxd
          rw [this]; exact Or.inl (mem_insertD_self m d)
        · exact Or.inl (mem_insertD_of_mem h hxd)
      · rw [h]; exact Or.inl (mem_insertD_self m d)
      · exact Or.inr h

instance (l : List Diag) : Decidable (DupEq l) := by unfold DupEq; infer_instance

theorem pairwise_sym_mem {R' : Diag → Diag → Prop} (hsym : ∀ {a b}, R' a b → R' b a) {l : List Diag}
    (h : l.Pairwise R') {a b : Diag} (ha : a ∈ l) (hb : b ∈ l) (hne : a ≠ b) : R' a b := by
  induction l with
  | nil => simp at ha
  | cons x xs ih =>
    rw [List.pairwise_cons] at h
    rcases List.mem_cons.mp ha with ha | ha <;> rcases List.mem_cons.mp hb with hb | hb
    · exact absurd (ha.trans hb.symm) hne
    · rw [ha]; exact h.1 b hb
    · rw [hb]; exact hsym (h.1 a ha)
    · exact ih h.2 ha hb

theorem mem_collect {ds : List Diag} (hd : DupEq ds) (x : Diag) : x ∈ collect ds ↔ x ∈ ds := by
  have := foldl_insertD_mem ds [] (by simpa using hd) x
  simpa [collect] using this

theorem DescNodup.nodup {m : List Diag} (h : DescNodup m) : m.Nodup := by
  unfold DescNodup at h
  exact h.imp (by intro a b hab heq; exact hab (by rw [heq]))

end Verif.C06
