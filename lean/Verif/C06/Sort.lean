/-
C06 — model of how the problems of a run are collected, sorted and de-duplicated before
they are printed (lintcmd/cmd.go: `runFromLintResult`, `mergeRuns` for one run,
`printDiagnostics`; lintcmd/lint.go: `diagnostic.equal`).  Core Lean only.

* `collect` — `runFromLintResult`: a map keyed by the descriptor, a later problem with the
  same descriptor replaces the earlier one.  `mergeRuns` then iterates that map, i.e.
  delivers its values in an arbitrary order.
* `less` — the closure given to `sort.Slice` in `printDiagnostics`, field by field.
* `sortD` — *a* sorting algorithm (insertion sort); `sort.Slice` is not stable and its
  algorithm is unspecified, the theorems therefore speak about every sorted permutation.
* `dedupRun` — the loop that merges adjacent problems that differ in the build name only.
-/
namespace Verif.C06

/-- token.Position -/
structure Pos where
  file : String
  off : Nat
  line : Nat
  col : Nat
deriving DecidableEq, Repr, Inhabited

/-- lintcmd.diagnostic; `rest` stands for `SuggestedFixes` and `Related` -/
structure Diag where
  pos : Pos
  stop : Pos
  cat : String
  msg : String
  sev : Nat
  mergeIf : Nat
  build : String
  rest : String
deriving DecidableEq, Repr, Inhabited

/-- lintcmd.diagnosticDescriptor -/
structure Desc where
  pos : Pos
  stop : Pos
  cat : String
  msg : String
deriving DecidableEq, Repr

def Diag.desc (d : Diag) : Desc := ⟨d.pos, d.stop, d.cat, d.msg⟩

/-- `diagnostic.equal` (categories compared case-folded) -/
def Diag.equal (p o : Diag) : Bool :=
  p.pos == o.pos && p.stop == o.stop && p.msg == o.msg && p.cat.toLower == o.cat.toLower &&
  p.sev == o.sev && p.mergeIf == o.mergeIf && p.build == o.build

/-- the `less` closure of `printDiagnostics`, in the order of its `if` statements -/
def less (di dj : Diag) : Bool :=
  if di.pos.file ≠ dj.pos.file then decide (di.pos.file < dj.pos.file)
  else if di.pos.line ≠ dj.pos.line then decide (di.pos.line < dj.pos.line)
  else if di.pos.col ≠ dj.pos.col then decide (di.pos.col < dj.pos.col)
  else if di.msg ≠ dj.msg then decide (di.msg < dj.msg)
  else if di.cat ≠ dj.cat then decide (di.cat < dj.cat)
  else if di.stop.file ≠ dj.stop.file then decide (di.stop.file < dj.stop.file)
  else if di.stop.line ≠ dj.stop.line then decide (di.stop.line < dj.stop.line)
  else if di.stop.col ≠ dj.stop.col then decide (di.stop.col < dj.stop.col)
  else if di.pos.off ≠ dj.pos.off then decide (di.pos.off < dj.pos.off)
  else if di.stop.off ≠ dj.stop.off then decide (di.stop.off < dj.stop.off)
  else decide (di.build < dj.build)

/-- `runFromLintResult`: insert into the map keyed by the descriptor; the position of a key
in the list is irrelevant (a Go map has no order), the value is the one inserted last -/
def insertD (m : List Diag) (d : Diag) : List Diag :=
  match m with
  | [] => [d]
  | x :: xs => if x.desc = d.desc then d :: xs else x :: insertD xs d

def collect (ds : List Diag) : List Diag := ds.foldl insertD []

/-- a sorting algorithm (insertion sort) with the comparator of `printDiagnostics` -/
def insertS (d : Diag) : List Diag → List Diag
  | [] => [d]
  | x :: xs => if less d x then d :: x :: xs else x :: insertS d xs

def sortD (ds : List Diag) : List Diag := ds.foldr insertS []

/-- `builds[i][name] = struct{}{}` -/
def addName (bs : List String) (b : String) : List String :=
  if bs.contains b then bs else bs ++ [b]

/-- the de-duplication loop; `acc` is `filtered`/`builds` in reverse (its head is
`filtered[len(filtered)-1]`) -/
def dedupLoop : List Diag → List (Diag × List String) → List (Diag × List String)
  | [], acc => acc
  | d :: ds, [] => dedupLoop ds [(d, [d.build])]
  | d :: ds, (l, bs) :: rest =>
    if l.equal d then dedupLoop ds ((l, bs) :: rest)
    else if l.desc = d.desc then dedupLoop ds ((l, addName bs d.build) :: rest)
    else dedupLoop ds ((d, [d.build]) :: (l, bs) :: rest)

/-- `sort.Strings(names); filtered[i].BuildName = strings.Join(names, ",")` -/
def insertStr (b : String) : List String → List String
  | [] => [b]
  | x :: xs => if b < x then b :: x :: xs else x :: insertStr b xs

def joinNames (bs : List String) : String :=
  ",".intercalate (bs.foldr insertStr [])

def dedupRun (ds : List Diag) : List Diag :=
  match ds with
  | [] => []
  | [d] => [d]
  | d :: rest =>
    (dedupLoop rest [(d, [d.build])]).reverse.map fun (x, bs) => { x with build := joinNames bs }

/-- what `printDiagnostics` hands to the formatter for the list `ds` -/
def printed (ds : List Diag) : List Diag := dedupRun (sortD ds)

end Verif.C06
