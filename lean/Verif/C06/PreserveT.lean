/-
C06 — the time-stamp invariant `InvT`: the chain of synchronising events
`exec d` → `dec d t` → (decrement of `t` that reached zero) → `exec t`.
-/
import Verif.C06.Preserve2
namespace Verif.C06

variable {R : Type} {cfg : Cfg} {g : Dag} {f : Nat → List R → Option R} {s s' : State R} {e : Ev}

/-- the time stamps that an event other than `exec`/`dec` leaves alone -/
structure FrameT (s s' : State R) : Prop where
  execAt : s'.execAt = s.execAt
  decAt : s'.decAt = s.decAt
  zeroAt : s'.zeroAt = s.zeroAt
  now : s'.now = s.now + 1

theorem frameT_of_step (hw : WF g) (hi : Inv cfg g f s) (hs : step cfg g f s e = some s')
    (he : ∀ a, e ≠ .exec a) (hd : ∀ a t, e ≠ .dec a t) : FrameT s s' :=
  ⟨(frameE_of_step hw hi hs he).execAt, (frameQ_of_step hs hd).decAt, (frameQ_of_step hs hd).zeroAt,
    step_now hs⟩

theorem invT_step (hw : WF g) (hi : Inv cfg g f s) (ht : InvT g s)
    (hs : step cfg g f s e = some s') : InvT g s' := by
  by_cases he : ∀ a, e ≠ .exec a
  · by_cases hdd : ∀ a t, e ≠ .dec a t
    · -- neither exec nor dec: only `now` moves; `idle` is neither entered nor left
      have hf := frameT_of_step hw hi hs he hdd
      have hq := frameQ_of_step hs hdd
      refine ⟨?_, ?_, ?_, ?_, ?_, ?_, ?_⟩
      · intro a i h; rw [hf.execAt] at h; have := ht.tsExec a i h; rw [hf.now]; omega
      · intro d t k h; rw [hf.decAt] at h; have := ht.tsDec d t k h; rw [hf.now]; omega
      · intro t z h; rw [hf.zeroAt] at h; have := ht.tsZero t z h; rw [hf.now]; omega
      · intro d t k hd h; rw [hf.decAt] at h; rw [hf.execAt]; exact ht.hbDec d t k hd h
      · intro t z htn h; rw [hf.zeroAt] at h; rw [hf.decAt]; exact ht.hbZero t z htn h
      · intro t htn hne hdeps; rw [hf.zeroAt]
        exact ht.hbStart t htn (fun h => hne ((hq.idle t).mpr h)) hdeps
      · intro a j ha h hdeps; rw [hf.execAt] at h; rw [hf.zeroAt]; exact ht.hbExec a j ha h hdeps
    · -- dec
      obtain ⟨a, t, rfl⟩ := exists_dec_of_not hdd
      obtain ⟨k, hph, hk, hh⟩ := step_dec.mp hs
      obtain ⟨ha, htn, hat, hlt, hnone, hpos, hidle⟩ := dec_facts hw hi hph hk
      -- `a` has executed
      have hexa : ∃ i, s.execAt a = some i ∧ i < s.now := by
        have h1 := hi.execAtIff a ha
        rw [hph] at h1
        cases h2 : s.execAt a with
        | none => rw [h2] at h1; cases h1
        | some i => exact ⟨i, rfl, ht.tsExec a i h2⟩
      rcases hh with ⟨hp1, _, rfl⟩ | ⟨hp1, rfl⟩
      · refine ⟨?_, ?_, ?_, ?_, ?_, ?_, ?_⟩
        · intro x i h; have := ht.tsExec x i h; dsimp only; omega
        · intro d t' k' h
          dsimp only at h ⊢
          rw [upd2_apply] at h
          split at h
          · cases h; omega
          · have := ht.tsDec d t' k' h; omega
        · intro t' z h
          dsimp only at h ⊢
          rw [upd_apply] at h
          split at h
          · cases h; omega
          · have := ht.tsZero t' z h; omega
        · intro d t' k' hdn h
          dsimp only at h ⊢
          rw [upd2_apply] at h
          split at h
          · rename_i hc; cases h; obtain ⟨hc1, _⟩ := hc; subst hc1; exact hexa
          · exact ht.hbDec d t' k' hdn h
        · intro t' z ht'n h d i hdn hdi
          dsimp only at h ⊢
          rw [upd_apply] at h
          split at h
          · rename_i htt; subst htt; cases h
            rw [upd2_apply]
            by_cases hc : d = a ∧ i = k
            · simp [hc]
            · simp only [hc, if_false]
              -- every other entry pointing to `t'` has been decremented: only one was open
              have hp := hi.pend t' ht'n
              rw [hp1] at hp
              have hfl := openEdges_flip (P := passedP s.phase)
                (P' := fun d' i' => if d' = a ∧ i' = k then true else passedP s.phase d' i') ha
                (getElem?_lt hk) (by simp [passedP, hph, Phase.passed]) (by simp)
                (by intro d' i' _ _ hne; simp [hne]) t'
              rw [hk] at hfl
              simp only [if_true] at hfl
              have hz : openEdges g (fun d' i' => if d' = a ∧ i' = k then true else passedP s.phase d' i') t' = 0 := by
                omega
              have hpass := openEdges_zero hz d i hdn hdi
              simp only [hc, if_false, passedP] at hpass
              have hsome := hi.decIff d hdn i (getElem?_lt hdi)
              rw [hpass] at hsome
              cases h3 : s.decAt d i with
              | none => rw [h3] at hsome; cases hsome
              | some k' => exact ⟨k', rfl, by have := ht.tsDec d i k' h3; omega⟩
          · rename_i htt
            obtain ⟨k', hk', hle⟩ := ht.hbZero t' z ht'n h d i hdn hdi
            refine ⟨k', ?_, hle⟩
            rw [upd2_apply]
            split
            · rename_i hc; obtain ⟨hc1, hc2⟩ := hc; subst hc1; subst hc2
              rw [hnone] at hk'; cases hk'
            · exact hk'
        · intro t' ht'n hne hdeps
          dsimp only at hne ⊢
          rw [upd_apply]
          split
          · exact ⟨_, rfl⟩
          · rename_i htt
            apply ht.hbStart t' ht'n _ hdeps
            rw [upd_other _ _ _ _ htt] at hne
            intro hid
            by_cases hta : t' = a
            · subst hta; rw [hph] at hid; cases hid
            · rw [upd_other _ _ _ _ hta] at hne; exact hne hid
        · intro x j hx h hdeps
          dsimp only at h ⊢
          obtain ⟨z, hz, hlt'⟩ := ht.hbExec x j hx h hdeps
          rw [upd_apply]
          split
          · rename_i hxt; subst hxt
            -- `x` is idle, so it has not executed
            have h1 := hi.execAtIff x hx
            rw [hidle, h] at h1; cases h1
          · exact ⟨z, hz, hlt'⟩
      · refine ⟨?_, ?_, ?_, ?_, ?_, ?_, ?_⟩
        · intro x i h; have := ht.tsExec x i h; dsimp only; omega
        · intro d t' k' h
          dsimp only at h ⊢
          rw [upd2_apply] at h
          split at h
          · cases h; omega
          · have := ht.tsDec d t' k' h; omega
        · intro t' z h; have := ht.tsZero t' z h; dsimp only; omega
        · intro d t' k' hdn h
          dsimp only at h ⊢
          rw [upd2_apply] at h
          split at h
          · rename_i hc; cases h; obtain ⟨hc1, _⟩ := hc; subst hc1; exact hexa
          · exact ht.hbDec d t' k' hdn h
        · intro t' z ht'n h d i hdn hdi
          dsimp only at h ⊢
          obtain ⟨k', hk', hle⟩ := ht.hbZero t' z ht'n h d i hdn hdi
          refine ⟨k', ?_, hle⟩
          rw [upd2_apply]
          split
          · rename_i hc; obtain ⟨hc1, hc2⟩ := hc; subst hc1; subst hc2
            rw [hnone] at hk'; cases hk'
          · exact hk'
        · intro t' ht'n hne hdeps
          dsimp only at hne ⊢
          apply ht.hbStart t' ht'n _ hdeps
          intro hid
          by_cases hta : t' = a
          · subst hta; rw [hph] at hid; cases hid
          · rw [upd_other _ _ _ _ hta] at hne; exact hne hid
        · intro x j hx h hdeps; exact ht.hbExec x j hx h hdeps
  · -- exec
    obtain ⟨a, rfl⟩ := exists_exec_of_not_frame he
    obtain ⟨tok, hph, rfl⟩ := step_exec.mp hs
    have ha : a ≤ g.n := le_of_phase hi (by rw [hph]; simp)
    have hnoex : s.execAt a = none := by
      have h1 := hi.execAtIff a ha
      rw [hph] at h1
      cases h2 : s.execAt a with
      | none => rfl
      | some i => rw [h2] at h1; cases h1
    refine ⟨?_, ?_, ?_, ?_, ?_, ?_, ?_⟩
    · intro x i h
      dsimp only at h ⊢
      rw [upd_apply] at h
      split at h
      · cases h; omega
      · have := ht.tsExec x i h; omega
    · intro d t k h; have := ht.tsDec d t k h; dsimp only; omega
    · intro t z h; have := ht.tsZero t z h; dsimp only; omega
    · intro d t k hdn h
      dsimp only at h ⊢
      obtain ⟨i, hi1, hi2⟩ := ht.hbDec d t k hdn h
      rw [upd_apply]
      split
      · rename_i hda; subst hda; rw [hnoex] at hi1; cases hi1
      · exact ⟨i, hi1, hi2⟩
    · intro t z htn h; exact ht.hbZero t z htn h
    · intro t htn hne hdeps
      dsimp only at hne ⊢
      apply ht.hbStart t htn _ hdeps
      intro hid
      by_cases hta : t = a
      · subst hta; rw [hph] at hid; cases hid
      · rw [upd_other _ _ _ _ hta] at hne; exact hne hid
    · intro x j hx h hdeps
      dsimp only at h ⊢
      rw [upd_apply] at h
      split at h
      · rename_i hxa; subst hxa; cases h
        obtain ⟨z, hz⟩ := ht.hbStart x hx (by rw [hph]; simp) hdeps
        exact ⟨z, hz, ht.tsZero x z hz⟩
      · exact ht.hbExec x j hx h hdeps

theorem invT_init (env0 : Nat) : InvT g (init (R := R) g env0) where
  tsExec := by intro a i h; simp [init] at h
  tsDec := by intro d t k h; simp [init] at h
  tsZero := by intro t z h; simp [init] at h
  hbDec := by intro d t k _ h; simp [init] at h
  hbZero := by intro t z _ h; simp [init] at h
  hbStart := by
    intro t ht hne hdeps
    simp only [init, ht, if_true] at hne
    simp [hdeps] at hne
  hbExec := by intro a j _ h; simp [init] at h

theorem invT_run (hw : WF g) {es : List Ev} : ∀ {s s' : State R}, Inv cfg g f s → InvT g s →
    run cfg g f s es = some s' → InvT g s' := by
  induction es with
  | nil => intro s s' _ ht h; simp [run] at h; subst h; exact ht
  | cons e es ih =>
    intro s s' hi ht h
    simp only [run] at h
    split at h
    · rename_i s1 h1; exact ih (inv_step hw hi h1) (invT_step hw hi ht h1) h
    · cases h

theorem invT_reachable (hw : WF g) {env0 : Nat} (h0 : env0 ≤ cfg.c)
    (hr : Reachable cfg g f env0 s) : InvT g s := by
  obtain ⟨es, h⟩ := hr
  exact invT_run hw (inv_init hw env0 h0) (invT_init env0) h

end Verif.C06
