/-
C06 — model of the action scheduler of lintcmd/runner (runner.go: `Run`,
`runAnalyzers`, `genericHandle`, `baseAction.DecrementPending`; internal/sync:
`Semaphore`).  Core Lean only.

One instance of the model is one queue with its dispatcher loop:

* `buffered = false` — `Runner.Run`: unbuffered queue, the dispatcher blocks in
  `semaphore.Acquire()` and always spawns `go genericHandle(…, &sem, …)`.
* `buffered = true`  — `runAnalyzers`: queue with a buffer of `len(all)`, the
  dispatcher calls `AcquireMaybe()` and, when that fails, runs the action inline
  (`genericHandle(…, nil, …)`) under the token of the package.

The semaphore is shared with everything else that runs at the same time (the other
level, the analyzer instances of other packages): those tokens are `env`, taken and
given back by the events `envAcq` / `envRel` at any time.

Actions are numbered `0 … n`; `n` is the synthetic root (`close(queue)`).  `deps a` are
the actions `a` waits for, `trig a` the actions it triggers, in the order of the Go
slice `a.triggers` (any order consistent with `deps` — see `WF`).

`AcquireMaybe` is modelled as *may fail at any time* (the inline start is always
admitted): this admits more schedules than the code does, the theorems hold for all of
them, and it makes the validation of real traces independent of the exact moment at
which a token was given back.

The fields `now … execCount` of the state are ghost fields: they record at which step
of the execution an event happened and are never read by `step`'s guards.
-/
namespace Verif.C06

structure Dag where
  n : Nat
  deps : Nat → List Nat
  trig : Nat → List Nat

structure Cfg where
  /-- capacity of the semaphore (`GOMAXPROCS`) -/
  c : Nat
  buffered : Bool

/-- where the handling of an action stands (program counter of `genericHandle` plus the
queue/dispatcher stages before it) -/
inductive Phase where
  /-- `pending > 0` -/
  | idle
  /-- offered on the queue (a sender is blocked in `queue <- t`, or `t` sits in the buffer) -/
  | queued
  /-- received by the dispatcher loop, which is now in `Acquire` / `AcquireMaybe` -/
  | held
  /-- in `genericHandle` before/inside `exec`; `tok`: holds a token (`sem != nil`) -/
  | running (tok : Bool)
  /-- after `exec`, before `sem.Release()` -/
  | finished
  /-- in the trigger loop, about to decrement trigger number `k` -/
  | trig (k : Nat)
  /-- in the trigger loop, in `queue <- t` for trigger number `k` -/
  | sending (k : Nat)
  | done
deriving DecidableEq, Repr

inductive Ev where
  /-- `item := <-queue` in the dispatcher loop -/
  | recv (t : Nat)
  /-- `Acquire()` / `AcquireMaybe()` returned; `tok = false`: run inline -/
  | start (t : Nat) (tok : Bool)
  /-- failure propagation + `exec(a)`, atomic: reads the dependencies' results, writes `a`'s -/
  | exec (a : Nat)
  /-- `sem.Release()` -/
  | rel (a : Nat)
  /-- `t.DecrementPending()` by `a` -/
  | dec (a t : Nat)
  /-- `queue <- t` completed -/
  | sent (a t : Nat)
  /-- `genericHandle` returns -/
  | fin (a : Nat)
  | envAcq
  | envRel
deriving DecidableEq, Repr

def Ev.isEnv : Ev → Bool
  | .envAcq => true
  | .envRel => true
  | _ => false

def upd {α : Type} (f : Nat → α) (i : Nat) (v : α) : Nat → α :=
  fun j => if j = i then v else f j

def upd2 {α : Type} (f : Nat → Nat → α) (i k : Nat) (v : α) : Nat → Nat → α :=
  fun j l => if j = i ∧ l = k then v else f j l

structure State (R : Type) where
  phase : Nat → Phase
  pending : Nat → Nat
  /-- `none`: not written yet; `some none`: failed; `some (some r)`: result `r` -/
  out : Nat → Option (Option R)
  sem : Nat
  env : Nat
  /-- the action the dispatcher loop is busy with (waiting for a token, or running inline) -/
  disp : Option Nat
  closed : Bool
  -- ghost
  now : Nat
  execAt : Nat → Option Nat
  /-- `decAt a k`: when `a` decremented its trigger number `k` -/
  decAt : Nat → Nat → Option Nat
  zeroAt : Nat → Option Nat
  startAt : Nat → Option Nat
  execCount : Nat → Nat

/-- what `genericHandle` computes for `a` from what it reads of its dependencies:
failed if a dependency failed (an unwritten result reads as failed), else `f a results` -/
def evalStep {R : Type} (g : Dag) (f : Nat → List R → Option R) (look : Nat → Option R) (a : Nat) :
    Option R :=
  let rs := (g.deps a).map look
  if rs.all Option.isSome then f a (rs.filterMap id) else none

def init {R : Type} (g : Dag) (env0 : Nat) : State R :=
  { phase := fun a => if a ≤ g.n then (if g.deps a = [] then .queued else .idle) else .done
    pending := fun a => (g.deps a).length
    out := fun _ => none
    sem := 0
    env := env0
    disp := none
    closed := false
    now := 0
    execAt := fun _ => none
    decAt := fun _ _ => none
    zeroAt := fun _ => none
    startAt := fun _ => none
    execCount := fun _ => 0 }

/-- one event; `none` when the event is not enabled in `s` -/
def step {R : Type} (cfg : Cfg) (g : Dag) (f : Nat → List R → Option R) (s : State R) :
    Ev → Option (State R)
  | .recv t =>
    if t ≤ g.n ∧ s.phase t = .queued ∧ s.disp = none ∧ s.closed = false then
      some { s with phase := upd s.phase t .held, disp := some t, now := s.now + 1 }
    else none
  | .start t tok =>
    if s.disp = some t ∧ s.phase t = .held then
      if tok then
        if s.sem + s.env < cfg.c then
          some { s with phase := upd s.phase t (.running true), sem := s.sem + 1, disp := none,
                        startAt := upd s.startAt t (some s.now), now := s.now + 1 }
        else none
      else
        if cfg.buffered then
          some { s with phase := upd s.phase t (.running false),
                        startAt := upd s.startAt t (some s.now), now := s.now + 1 }
        else none
    else none
  | .exec a =>
    match s.phase a with
    | .running tok =>
      some { s with phase := upd s.phase a (if tok then .finished else .trig 0)
                    out := upd s.out a (some (evalStep g f (fun d => (s.out d).join) a))
                    closed := s.closed || decide (a = g.n)
                    execAt := upd s.execAt a (some s.now)
                    execCount := upd s.execCount a (s.execCount a + 1)
                    now := s.now + 1 }
    | _ => none
  | .rel a =>
    if s.phase a = .finished then
      some { s with phase := upd s.phase a (.trig 0), sem := s.sem - 1, now := s.now + 1 }
    else none
  | .dec a t =>
    match s.phase a with
    | .trig k =>
      if (g.trig a)[k]? = some t then
        if s.pending t = 1 then
          -- reached zero: `queue <- t`; a send on the closed queue would panic
          if s.closed = false then
            some { s with phase := upd (upd s.phase a (.sending k)) t .queued
                          pending := upd s.pending t 0
                          decAt := upd2 s.decAt a k (some s.now)
                          zeroAt := upd s.zeroAt t (some s.now)
                          now := s.now + 1 }
          else none
        else
          some { s with phase := upd s.phase a (.trig (k + 1))
                        pending := upd s.pending t (s.pending t - 1)
                        decAt := upd2 s.decAt a k (some s.now)
                        now := s.now + 1 }
      else none
    | _ => none
  | .sent a t =>
    match s.phase a with
    | .sending k =>
      if (g.trig a)[k]? = some t ∧ (cfg.buffered = true ∨ s.phase t ≠ .queued) then
        some { s with phase := upd s.phase a (.trig (k + 1)), now := s.now + 1 }
      else none
    | _ => none
  | .fin a =>
    if s.phase a = .trig (g.trig a).length then
      some { s with phase := upd s.phase a .done
                    disp := if s.disp = some a then none else s.disp
                    now := s.now + 1 }
    else none
  | .envAcq =>
    if s.sem + s.env < cfg.c then some { s with env := s.env + 1, now := s.now + 1 } else none
  | .envRel =>
    if 0 < s.env then some { s with env := s.env - 1, now := s.now + 1 } else none

/-- run a list of events; `none` as soon as one is not enabled -/
def run {R : Type} (cfg : Cfg) (g : Dag) (f : Nat → List R → Option R) :
    State R → List Ev → Option (State R)
  | s, [] => some s
  | s, e :: es =>
    match step cfg g f s e with
    | some s' => run cfg g f s' es
    | none => none

/-- `validTrace`: every event of the trace is enabled in the model state it is applied to -/
def validTrace {R : Type} (cfg : Cfg) (g : Dag) (f : Nat → List R → Option R) (env0 : Nat)
    (tr : List Ev) : Bool :=
  (run cfg g f (init g env0) tr).isSome

/-- index of the first event of the trace that the model does not admit -/
def firstBad {R : Type} (cfg : Cfg) (g : Dag) (f : Nat → List R → Option R) :
    State R → List Ev → Nat → Option Nat
  | _, [], _ => none
  | s, e :: es, i =>
    match step cfg g f s e with
    | some s' => firstBad cfg g f s' es (i + 1)
    | none => some i

/-- the loop has ended: queue closed, every action handled -/
def State.final {R : Type} (g : Dag) (s : State R) : Prop :=
  s.closed = true ∧ ∀ a, a ≤ g.n → s.phase a = .done

/-! ### phases -/

/-- `exec` has happened -/
def Phase.executed : Phase → Bool
  | .finished => true
  | .trig _ => true
  | .sending _ => true
  | .done => true
  | _ => false

/-- holds a token of the semaphore -/
def Phase.holds : Phase → Bool
  | .running true => true
  | .finished => true
  | _ => false

/-- has decremented its trigger number `i` -/
def Phase.passed : Phase → Nat → Bool
  | .trig k, i => decide (i < k)
  | .sending k, i => decide (i ≤ k)
  | .done, _ => true
  | _, _ => false

/-- handled by the dispatcher loop itself (`genericHandle(item, root, queue, nil, …)`) -/
def Phase.inlinePh : Phase → Bool
  | .running false => true
  | .trig _ => true
  | .sending _ => true
  | _ => false

/-- `final`, decidable form (used by the trace driver) -/
def State.finalB {R : Type} (g : Dag) (s : State R) : Bool :=
  s.closed && (List.range (g.n + 1)).all (fun a => decide (s.phase a = .done))

/-! ### bottom-up evaluation of the graph -/

/-- `evalF k a`: the result of `a`, computed with recursion depth `k` -/
def evalF {R : Type} (g : Dag) (f : Nat → List R → Option R) : Nat → Nat → Option R
  | 0, _ => none
  | k + 1, a => evalStep g f (evalF g f k) a

/-- the result of `a` as a function of the graph alone -/
def eval {R : Type} (g : Dag) (f : Nat → List R → Option R) (a : Nat) : Option R :=
  evalF g f (a + 1) a

/-! ### well-formed graphs (checked by the driver for every real graph) -/

def allUpTo (n : Nat) (p : Nat → Bool) : Bool := (List.range (n + 1)).all p

/-- sum of `f 0 … f (k-1)` -/
def sumUpTo (f : Nat → Nat) : Nat → Nat
  | 0 => 0
  | k + 1 => sumUpTo f k + f k

/-- number of trigger entries `(d, i)`, `d ≤ n`, `(g.trig d)[i] = t`, that `P d i` has not
passed yet (`P d i` = "`d` has decremented its trigger number `i`") -/
def openEdges (g : Dag) (P : Nat → Nat → Bool) (t : Nat) : Nat :=
  sumUpTo (fun d => sumUpTo (fun i => if (g.trig d)[i]? = some t ∧ P d i = false then 1 else 0)
    (g.trig d).length) (g.n + 1)

/-- The graph may have parallel edges (an analyzer may list a requirement twice, and does:
ST1023 requires `tokenfile` twice): `deps` and `trig` are lists with repetitions and
`pending` counts entries, not distinct actions. -/
def Dag.wfB (g : Dag) : Bool :=
  allUpTo g.n fun a =>
    (g.deps a).all (fun d => decide (d < a)) &&
    (g.trig a).all (fun t => decide (t ≤ g.n) && (g.deps t).contains a) &&
    (g.deps a).all (fun d => (g.trig d).contains a) &&
    decide ((g.deps a).length = openEdges g (fun _ _ => false) a) &&
    (decide (a = g.n) || !(g.trig a).isEmpty)

end Verif.C06
