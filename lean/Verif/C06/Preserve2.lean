/-
C06 — the remaining clauses of the invariant (dispatcher, results, capacity), the
initial state, and `Inv` for every reachable state.
-/
import Verif.C06.Preserve
namespace Verif.C06

variable {R : Type} {cfg : Cfg} {g : Dag} {f : Nat → List R → Option R} {s s' : State R} {e : Ev}

/-! ### the dispatcher loop: `dispSome`, `heldDisp`, `inlineDisp` -/

theorem inv_dispSome (hw : WF g) (hi : Inv cfg g f s) (hs : step cfg g f s e = some s') :
    ∀ t, s'.disp = some t →
    t ≤ g.n ∧ (s'.phase t = .held ∨ (cfg.buffered = true ∧ (s'.phase t).inlinePh = true)) := by
  have h0 := hi.dispSome
  intro x
  cases e with
  | recv t =>
    obtain ⟨⟨ht, hph, hd, _⟩, rfl⟩ := step_recv.mp hs
    simp [upd_apply]; grind
  | start t tok =>
    cases tok with
    | true =>
      obtain ⟨⟨hd, hph, _⟩, rfl⟩ := step_start_tok.mp hs
      simp
    | false =>
      obtain ⟨⟨hd, hph, hb⟩, rfl⟩ := step_start_inline.mp hs
      have := h0 t hd
      simp [upd_apply, hd]; grind [Phase.inlinePh]
  | exec a =>
    obtain ⟨tok, hph, rfl⟩ := step_exec.mp hs
    have := h0 x
    cases tok <;> simp [upd_apply] <;> grind [Phase.inlinePh]
  | rel a =>
    obtain ⟨hph, rfl⟩ := step_rel.mp hs
    have := h0 x
    simp [upd_apply]; grind [Phase.inlinePh]
  | dec a t =>
    obtain ⟨k, hph, hk, hh⟩ := step_dec.mp hs
    obtain ⟨ha, ht, hat, hlt, hnone, hpos, hidle⟩ := dec_facts hw hi hph hk
    have := h0 x
    rcases hh with ⟨_, _, rfl⟩ | ⟨_, rfl⟩ <;> simp [upd_apply] <;> grind [Phase.inlinePh]
  | sent a t =>
    obtain ⟨k, hph, _, _, rfl⟩ := step_sent.mp hs
    have := h0 x
    simp [upd_apply]; grind [Phase.inlinePh]
  | fin a =>
    obtain ⟨hph, rfl⟩ := step_fin.mp hs
    have := h0 x
    simp [upd_apply]; grind [Phase.inlinePh]
  | envAcq => obtain ⟨_, rfl⟩ := step_envAcq.mp hs; exact h0 x
  | envRel => obtain ⟨_, rfl⟩ := step_envRel.mp hs; exact h0 x

theorem inv_heldDisp (hw : WF g) (hi : Inv cfg g f s) (hs : step cfg g f s e = some s') :
    ∀ t, t ≤ g.n → s'.phase t = .held → s'.disp = some t := by
  have h0 := hi.heldDisp
  intro x hx
  have hx0 := h0 x hx
  cases e with
  | recv t =>
    obtain ⟨⟨ht, hph, hd, _⟩, rfl⟩ := step_recv.mp hs
    simp [upd_apply]; grind
  | start t tok =>
    cases tok with
    | true =>
      obtain ⟨⟨hd, hph, _⟩, rfl⟩ := step_start_tok.mp hs
      simp [upd_apply]; grind
    | false =>
      obtain ⟨⟨hd, hph, hb⟩, rfl⟩ := step_start_inline.mp hs
      simp [upd_apply]; grind
  | exec a =>
    obtain ⟨tok, hph, rfl⟩ := step_exec.mp hs
    cases tok <;> simp [upd_apply] <;> grind
  | rel a =>
    obtain ⟨hph, rfl⟩ := step_rel.mp hs
    simp [upd_apply]; grind
  | dec a t =>
    obtain ⟨k, hph, hk, hh⟩ := step_dec.mp hs
    rcases hh with ⟨_, _, rfl⟩ | ⟨_, rfl⟩ <;> simp [upd_apply] <;> grind
  | sent a t =>
    obtain ⟨k, hph, _, _, rfl⟩ := step_sent.mp hs
    simp [upd_apply]; grind
  | fin a =>
    obtain ⟨hph, rfl⟩ := step_fin.mp hs
    simp [upd_apply]; grind
  | envAcq => obtain ⟨_, rfl⟩ := step_envAcq.mp hs; exact hx0
  | envRel => obtain ⟨_, rfl⟩ := step_envRel.mp hs; exact hx0

theorem inv_inlineDisp (hw : WF g) (hi : Inv cfg g f s) (hs : step cfg g f s e = some s') :
    ∀ a, a ≤ g.n → s'.phase a = .running false → s'.disp = some a ∧ cfg.buffered = true := by
  have h0 := hi.inlineDisp
  intro x hx
  have hx0 := h0 x hx
  cases e with
  | recv t =>
    obtain ⟨⟨ht, hph, hd, _⟩, rfl⟩ := step_recv.mp hs
    simp [upd_apply]; grind
  | start t tok =>
    cases tok with
    | true =>
      obtain ⟨⟨hd, hph, _⟩, rfl⟩ := step_start_tok.mp hs
      simp [upd_apply]; grind
    | false =>
      obtain ⟨⟨hd, hph, hb⟩, rfl⟩ := step_start_inline.mp hs
      simp [upd_apply]; grind
  | exec a =>
    obtain ⟨tok, hph, rfl⟩ := step_exec.mp hs
    cases tok <;> simp [upd_apply] <;> grind
  | rel a =>
    obtain ⟨hph, rfl⟩ := step_rel.mp hs
    simp [upd_apply]; grind
  | dec a t =>
    obtain ⟨k, hph, hk, hh⟩ := step_dec.mp hs
    rcases hh with ⟨_, _, rfl⟩ | ⟨_, rfl⟩ <;> simp [upd_apply] <;> grind
  | sent a t =>
    obtain ⟨k, hph, _, _, rfl⟩ := step_sent.mp hs
    simp [upd_apply]; grind
  | fin a =>
    obtain ⟨hph, rfl⟩ := step_fin.mp hs
    simp [upd_apply]; grind
  | envAcq => obtain ⟨_, rfl⟩ := step_envAcq.mp hs; exact hx0
  | envRel => obtain ⟨_, rfl⟩ := step_envRel.mp hs; exact hx0

/-! ### capacity -/

theorem inv_cap (hi : Inv cfg g f s) (hs : step cfg g f s e = some s') :
    s'.sem + s'.env ≤ cfg.c := by
  have h0 := hi.cap
  cases e with
  | recv t => obtain ⟨_, rfl⟩ := step_recv.mp hs; exact h0
  | start t tok =>
    cases tok with
    | true => obtain ⟨⟨_, _, h⟩, rfl⟩ := step_start_tok.mp hs; dsimp only; omega
    | false => obtain ⟨_, rfl⟩ := step_start_inline.mp hs; exact h0
  | exec a => obtain ⟨tok, _, rfl⟩ := step_exec.mp hs; exact h0
  | rel a => obtain ⟨_, rfl⟩ := step_rel.mp hs; dsimp only; omega
  | dec a t =>
    obtain ⟨k, _, _, hh⟩ := step_dec.mp hs
    rcases hh with ⟨_, _, rfl⟩ | ⟨_, rfl⟩ <;> exact h0
  | sent a t => obtain ⟨k, _, _, _, rfl⟩ := step_sent.mp hs; exact h0
  | fin a => obtain ⟨_, rfl⟩ := step_fin.mp hs; exact h0
  | envAcq => obtain ⟨h, rfl⟩ := step_envAcq.mp hs; dsimp only; omega
  | envRel => obtain ⟨h, rfl⟩ := step_envRel.mp hs; dsimp only; omega

/-! ### results: `outIff`, `outEval`, `execAtIff`, `execCnt`, `closedIff` -/

theorem exists_exec_of_not_frame (h : ¬ ∀ a, e ≠ .exec a) : ∃ a, e = .exec a := by
  false_or_by_contra
  rename_i hne
  exact h (fun a h' => hne ⟨a, h'⟩)

theorem executed_after_exec (tok : Bool) :
    (if tok then Phase.finished else Phase.trig 0).executed = true := by
  cases tok <;> rfl

theorem inv_outIff (hw : WF g) (hi : Inv cfg g f s) (hs : step cfg g f s e = some s') :
    ∀ a, a ≤ g.n → (s'.out a).isSome = (s'.phase a).executed := by
  by_cases he : ∀ a, e ≠ .exec a
  · have hf := frameE_of_step hw hi hs he
    intro a ha; rw [hf.out, hf.executed]; exact hi.outIff a ha
  · obtain ⟨a, rfl⟩ := exists_exec_of_not_frame he
    obtain ⟨tok, hph, rfl⟩ := step_exec.mp hs
    intro x hx
    have := hi.outIff x hx
    dsimp only
    by_cases hxa : x = a
    · subst hxa; simp [executed_after_exec]
    · rw [upd_other _ _ _ _ hxa, upd_other _ _ _ _ hxa]; exact this

theorem inv_outEval (hw : WF g) (hi : Inv cfg g f s) (hs : step cfg g f s e = some s') :
    ∀ a, a ≤ g.n → (s'.phase a).executed = true → s'.out a = some (eval g f a) := by
  by_cases he : ∀ a, e ≠ .exec a
  · have hf := frameE_of_step hw hi hs he
    intro a ha; rw [hf.out, hf.executed]; exact hi.outEval a ha
  · obtain ⟨a, rfl⟩ := exists_exec_of_not_frame he
    obtain ⟨tok, hph, rfl⟩ := step_exec.mp hs
    have ha : a ≤ g.n := le_of_phase hi (by rw [hph]; simp)
    intro x hx
    have := hi.outEval x hx
    dsimp only
    by_cases hxa : x = a
    · subst hxa
      intro _
      rw [upd_same, eval_unfold hw x hx]
      congr 1
      apply evalStep_congr
      intro d hd
      have hde := deps_executed hw hi hx (by rw [hph]; simp) d hd
      have hdn : d ≤ g.n := by have := hw.deps_lt x hx d hd; omega
      rw [hi.outEval d hdn hde]; rfl
    · rw [upd_other _ _ _ _ hxa, upd_other _ _ _ _ hxa]; exact this

theorem inv_execAtIff (hw : WF g) (hi : Inv cfg g f s) (hs : step cfg g f s e = some s') :
    ∀ a, a ≤ g.n → (s'.execAt a).isSome = (s'.phase a).executed := by
  by_cases he : ∀ a, e ≠ .exec a
  · have hf := frameE_of_step hw hi hs he
    intro a ha; rw [hf.execAt, hf.executed]; exact hi.execAtIff a ha
  · obtain ⟨a, rfl⟩ := exists_exec_of_not_frame he
    obtain ⟨tok, hph, rfl⟩ := step_exec.mp hs
    intro x hx
    have := hi.execAtIff x hx
    dsimp only
    by_cases hxa : x = a
    · subst hxa; simp [executed_after_exec]
    · rw [upd_other _ _ _ _ hxa, upd_other _ _ _ _ hxa]; exact this

theorem inv_execCnt (hw : WF g) (hi : Inv cfg g f s) (hs : step cfg g f s e = some s') :
    ∀ a, a ≤ g.n → s'.execCount a = if (s'.phase a).executed then 1 else 0 := by
  by_cases he : ∀ a, e ≠ .exec a
  · have hf := frameE_of_step hw hi hs he
    intro a ha; rw [hf.execCount, hf.executed]; exact hi.execCnt a ha
  · obtain ⟨a, rfl⟩ := exists_exec_of_not_frame he
    obtain ⟨tok, hph, rfl⟩ := step_exec.mp hs
    intro x hx
    have := hi.execCnt x hx
    dsimp only
    by_cases hxa : x = a
    · subst hxa
      rw [hph] at this
      have h2 : s.execCount x = 0 := by rw [this]; simp [Phase.executed]
      simp only [upd_same, h2]
      cases tok <;> simp [Phase.executed]
    · simp only [upd_other _ _ _ _ hxa]; exact this

theorem inv_closedIff (hw : WF g) (hi : Inv cfg g f s) (hs : step cfg g f s e = some s') :
    s'.closed = (s'.phase g.n).executed := by
  by_cases he : ∀ a, e ≠ .exec a
  · have hf := frameE_of_step hw hi hs he
    rw [hf.closed, hf.executed]; exact hi.closedIff
  · obtain ⟨a, rfl⟩ := exists_exec_of_not_frame he
    obtain ⟨tok, hph, rfl⟩ := step_exec.mp hs
    have := hi.closedIff
    dsimp only
    by_cases hna : g.n = a
    · subst hna; simp [executed_after_exec]
    · rw [upd_other _ _ _ _ hna]
      have : decide (a = g.n) = false := by simp; omega
      simp [this, hi.closedIff]

/-! ### every step preserves the invariant; the initial state has it -/

theorem inv_step (hw : WF g) (hi : Inv cfg g f s) (hs : step cfg g f s e = some s') :
    Inv cfg g f s' where
  outside := inv_outside hw hi hs
  pend := inv_pend hw hi hs
  decIff := inv_decIff hw hi hs
  idleIff := inv_idleIff hw hi hs
  trigBound := inv_trigBound hi hs
  semCount := inv_semCount hw hi hs
  dispSome := inv_dispSome hw hi hs
  heldDisp := inv_heldDisp hw hi hs
  outIff := inv_outIff hw hi hs
  outEval := inv_outEval hw hi hs
  execAtIff := inv_execAtIff hw hi hs
  execCnt := inv_execCnt hw hi hs
  closedIff := inv_closedIff hw hi hs
  inlineDisp := inv_inlineDisp hw hi hs
  cap := inv_cap hi hs

theorem init_phase_cases (a : Nat) :
    (init (R := R) g env0).phase a = .queued ∨ (init (R := R) g env0).phase a = .idle ∨
    (init (R := R) g env0).phase a = .done := by
  simp only [init]
  by_cases h1 : a ≤ g.n <;> by_cases h2 : g.deps a = [] <;> simp [h1, h2]

theorem init_passed (d i : Nat) : ((init (R := R) g env0).phase d).passed i = false ∨ g.n < d := by
  by_cases hd : d ≤ g.n
  · left
    simp only [init, hd, if_true]
    split <;> rfl
  · right; omega

theorem inv_init (hw : WF g) (env0 : Nat) (h0 : env0 ≤ cfg.c) : Inv cfg g f (init g env0) where
  outside := by intro a ha; simp [init]; omega
  pend := by
    intro t ht
    show (g.deps t).length = _
    rw [hw.edges_len t ht]
    symm
    apply openEdges_congr
    intro d i hd _
    rcases init_passed (R := R) (g := g) (env0 := env0) d i with h | h
    · exact h
    · omega
  decIff := by
    intro d hd i _
    simp only [init, hd, if_true]
    split <;> rfl
  idleIff := by
    intro t ht
    simp only [init, ht, if_true]
    split
    · rename_i h; simp [h]
    · rename_i h; simp [List.length_pos_iff, h]
  trigBound := by
    intro a ha k
    simp only [init, ha, if_true]
    split <;> simp
  semCount := by
    have : (fun a => if ((init (R := R) g env0).phase a).holds then 1 else 0) = fun _ => 0 := by
      funext a
      rcases init_phase_cases (R := R) (g := g) (env0 := env0) a with h | h | h <;> rw [h] <;> rfl
    show 0 = _
    rw [this, sumUpTo_zero]
  dispSome := by intro t h; simp [init] at h
  heldDisp := by
    intro t _ h
    rcases init_phase_cases (R := R) (g := g) (env0 := env0) t with h' | h' | h' <;> rw [h'] at h <;> cases h
  outIff := by
    intro a _
    rcases init_phase_cases (R := R) (g := g) (env0 := env0) a with h | h | h
    · rw [h]; rfl
    · rw [h]; rfl
    · simp only [init] at h ⊢
      split at h
      · split at h <;> cases h
      · rename_i hh; omega
  outEval := by
    intro a ha h
    simp only [init, ha, if_true] at h
    split at h <;> cases h
  execAtIff := by
    intro a ha
    simp only [init, ha, if_true]
    split <;> rfl
  execCnt := by
    intro a ha
    simp only [init, ha, if_true]
    split <;> rfl
  closedIff := by
    simp only [init, Nat.le_refl, if_true]
    split <;> rfl
  inlineDisp := by
    intro a _ h
    rcases init_phase_cases (R := R) (g := g) (env0 := env0) a with h' | h' | h' <;> rw [h'] at h <;> cases h
  cap := by simp [init]; exact h0

/-- states reachable from the initial one -/
def Reachable (cfg : Cfg) (g : Dag) (f : Nat → List R → Option R) (env0 : Nat) (s : State R) : Prop :=
  ∃ es, run cfg g f (init g env0) es = some s

theorem inv_run (hw : WF g) {es : List Ev} : ∀ {s s' : State R}, Inv cfg g f s →
    run cfg g f s es = some s' → Inv cfg g f s' := by
  induction es with
  | nil => intro s s' hi h; simp [run] at h; subst h; exact hi
  | cons e es ih =>
    intro s s' hi h
    simp only [run] at h
    split at h
    · rename_i s1 h1; exact ih (inv_step hw hi h1) h
    · cases h

theorem inv_reachable (hw : WF g) {env0 : Nat} (h0 : env0 ≤ cfg.c)
    (hr : Reachable cfg g f env0 s) : Inv cfg g f s := by
  obtain ⟨es, h⟩ := hr
  exact inv_run hw (inv_init hw env0 h0) h

end Verif.C06
