/-
C06 — crediting of linter directives in `filterIgnored` (lintcmd/lint.go).

`lint.ParseDirectives` collects the directives of a file by iterating an `ast.CommentMap`
(a Go map): the order in which `filterIgnored` visits them is arbitrary and changes from
run to run.  The loops are modelled literally:

    for _, ig := range ignores {
        for i := range diagnostics {
            if ig.match(diag) { diag.Severity = severityIgnored }   -- match sets ig.Matched
        }
        if ig is *lineIgnore && !ig.Matched && couldHaveMatched(ig) { report "didn't match anything" }
    }

`innerAll` is the inner loop of the current code (every directive is matched against every
problem), `innerSkip` the variant that skips problems that are already ignored before
calling `match`.  With `innerAll` the set of reported useless directives and the final
severities do not depend on the order of the directives; with `innerSkip` they do.
Core Lean only.
-/
namespace Verif.C06

/-- `lineIgnore` / `fileIgnore`: `isLine` = it is a `lineIgnore` that `couldHaveMatched`
(only those are reported when unmatched); `pos` identifies the directive in the report;
`hits` is `match` without its side effect. -/
structure Directive (D : Type) where
  isLine : Bool
  pos : Nat
  hits : D → Bool

section
variable {D : Type}

/-- inner loop, current code: returns `ig.Matched` and the problems with updated severity
(`true` = `severityIgnored`) -/
def innerAll (ig : Directive D) : List (D × Bool) → Bool × List (D × Bool)
  | [] => (false, [])
  | (d, sev) :: rest =>
    let r := innerAll ig rest
    if ig.hits d then (true, (d, true) :: r.2) else (r.1, (d, sev) :: r.2)

/-- inner loop with the shortcut "already ignored, no need to match it again" -/
def innerSkip (ig : Directive D) : List (D × Bool) → Bool × List (D × Bool)
  | [] => (false, [])
  | (d, sev) :: rest =>
    let r := innerSkip ig rest
    if sev then (r.1, (d, sev) :: r.2)
    else if ig.hits d then (true, (d, true) :: r.2) else (r.1, (d, sev) :: r.2)

/-- outer loop: positions of the directives reported as "didn't match anything", and the
problems with their final severity -/
def outerLoop (inner : Directive D → List (D × Bool) → Bool × List (D × Bool)) :
    List (Directive D) → List (D × Bool) → List Nat × List (D × Bool)
  | [], st => ([], st)
  | ig :: igs, st =>
    let r := inner ig st
    let o := outerLoop inner igs r.2
    (if ig.isLine && !r.1 then ig.pos :: o.1 else o.1, o.2)

/-- some problem of `st` is matched by `ig` -/
def hitsAny (ig : Directive D) (st : List (D × Bool)) : Bool := st.any fun p => ig.hits p.1

theorem innerAll_matched (ig : Directive D) (st : List (D × Bool)) :
    (innerAll ig st).1 = hitsAny ig st := by
  induction st with
  | nil => rfl
  | cons p rest ih =>
    obtain ⟨d, sev⟩ := p
    simp only [innerAll, hitsAny, List.any_cons]
    by_cases h : ig.hits d
    · simp [h]
    · simp only [h, Bool.false_eq_true, if_false, Bool.false_or]; exact ih

theorem innerAll_state (ig : Directive D) (st : List (D × Bool)) :
    (innerAll ig st).2 = st.map fun p => (p.1, p.2 || ig.hits p.1) := by
  induction st with
  | nil => rfl
  | cons p rest ih =>
    obtain ⟨d, sev⟩ := p
    simp only [innerAll, List.map_cons]
    by_cases h : ig.hits d
    · simp [h, ih]
    · simp [h, ih]

theorem hitsAny_map (ig : Directive D) (st : List (D × Bool)) (f : D × Bool → Bool) :
    hitsAny ig (st.map fun p => (p.1, f p)) = hitsAny ig st := by
  simp [hitsAny, List.any_map, Function.comp_def]

/-- the report of the current loop: exactly the reportable directives that match none of
the problems, in the order of the directives -/
theorem outerAll_useless (igs : List (Directive D)) (st : List (D × Bool)) :
    (outerLoop innerAll igs st).1 = (igs.filter fun ig => ig.isLine && !hitsAny ig st).map (·.pos) := by
  induction igs generalizing st with
  | nil => rfl
  | cons ig igs ih =>
    simp only [outerLoop, innerAll_matched, innerAll_state, ih, hitsAny_map, List.filter_cons]
    by_cases h : (ig.isLine && !hitsAny ig st) = true
    · simp [h]
    · simp [h]

/-- the final severities of the current loop: ignored iff ignored before or matched by
some directive -/
theorem outerAll_state (igs : List (Directive D)) (st : List (D × Bool)) :
    (outerLoop innerAll igs st).2 = st.map fun p => (p.1, p.2 || igs.any fun ig => ig.hits p.1) := by
  induction igs generalizing st with
  | nil => simp [outerLoop]
  | cons ig igs ih =>
    simp only [outerLoop, innerAll_state, ih, List.map_map, List.any_cons]
    apply List.map_congr_left
    intro p _
    simp [Bool.or_assoc]

theorem any_perm {α : Type} {l l' : List α} (h : l.Perm l') (q : α → Bool) : l.any q = l'.any q := by
  rw [Bool.eq_iff_iff]
  simp only [List.any_eq_true]
  constructor
  · rintro ⟨x, hx, hq⟩; exact ⟨x, h.mem_iff.mp hx, hq⟩
  · rintro ⟨x, hx, hq⟩; exact ⟨x, h.mem_iff.mpr hx, hq⟩

/-- **Directive crediting does not depend on the order of the directives** (current code:
every directive is matched against every problem).  For any two orders of the same
directives — whatever the iteration order of the comment map was — the same directives
are reported as useless (as a multiset: the reports are sorted afterwards,
`printed_perm_invariant`) and every problem ends with the same severity. -/
theorem directives_order_independent {igs igs' : List (Directive D)} (h : igs.Perm igs')
    (st : List (D × Bool)) :
    ((outerLoop innerAll igs st).1).Perm ((outerLoop innerAll igs' st).1) ∧
    (outerLoop innerAll igs st).2 = (outerLoop innerAll igs' st).2 := by
  constructor
  · rw [outerAll_useless, outerAll_useless]
    exact (h.filter _).map _
  · rw [outerAll_state, outerAll_state]
    apply List.map_congr_left
    intro p _
    rw [any_perm h]

/-- a directive is reported by the current loop iff it is reportable and matches no problem
— a statement about the directive alone, not about its neighbours -/
theorem directive_reported_iff (igs : List (Directive D)) (st : List (D × Bool)) (n : Nat) :
    n ∈ (outerLoop innerAll igs st).1 ↔
      ∃ ig, ig ∈ igs ∧ ig.pos = n ∧ ig.isLine = true ∧ hitsAny ig st = false := by
  rw [outerAll_useless]
  simp only [List.mem_map, List.mem_filter, Bool.and_eq_true, Bool.not_eq_true']
  constructor
  · rintro ⟨ig, ⟨hm, hl, hh⟩, rfl⟩; exact ⟨ig, hm, rfl, hl, hh⟩
  · rintro ⟨ig, hm, rfl, hl, hh⟩; exact ⟨ig, ⟨hm, hl, hh⟩, rfl⟩

end

/-! ### the shortcut variant depends on the order: a file-level and a line-level directive
for the same problem -/

/-- `//lint:file-ignore X` -/
def exFile : Directive Nat := ⟨false, 1, fun _ => true⟩
/-- `//lint:ignore X` on the line of problem 7 -/
def exLine : Directive Nat := ⟨true, 2, fun d => d == 7⟩

/-- With the shortcut, visiting the file-level directive first leaves the line-level one
uncredited (it is reported); the other order reports nothing. -/
theorem skip_variant_order_dependent :
    [exFile, exLine].Perm [exLine, exFile] ∧
    (outerLoop innerSkip [exFile, exLine] [(7, false)]).1 = [2] ∧
    (outerLoop innerSkip [exLine, exFile] [(7, false)]).1 = [] ∧
    ¬ ((outerLoop innerSkip [exFile, exLine] [(7, false)]).1).Perm
        ((outerLoop innerSkip [exLine, exFile] [(7, false)]).1) := by
  refine ⟨List.Perm.swap _ _ _, by decide, by decide, ?_⟩
  have h1 : (outerLoop innerSkip [exFile, exLine] [(7, false)]).1 = [2] := by decide
  have h2 : (outerLoop innerSkip [exLine, exFile] [(7, false)]).1 = [] := by decide
  rw [h1, h2]
  intro h
  have := h.length_eq
  simp at this

/-- non-vacuity: on the same input the current loop reports nothing in either order and
ignores the problem -/
example : (outerLoop innerAll [exFile, exLine] [(7, false)]) = ([], [(7, true)]) ∧
    (outerLoop innerAll [exLine, exFile] [(7, false)]) = ([], [(7, true)]) := by
  constructor <;> decide

/-- non-vacuity: a line-level directive that matches nothing is reported, a file-level one
is not, in both orders -/
example : (outerLoop innerAll [exFile, exLine] [(3, false)]).1 = [2] ∧
    (outerLoop innerAll [exLine, exFile] [(3, false)]).1 = [2] := by
  refine ⟨by decide, by decide⟩

end Verif.C06
