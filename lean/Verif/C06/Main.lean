import Verif.C06.Driver
def main : IO UInt32 := do
  Verif.Proto.runLines Verif.C06.step'
  return 0
