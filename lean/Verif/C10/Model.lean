/-
C10 — model of the ignore-directive decision core of /repo:

* `analysis/lint/lint.go:parseDirective`       ↦ `parseDirectiveText`
* `lintcmd/directives.go:parseDirectives`      ↦ `parseDirectives` (fold, as the Go loop)
* `lintcmd/lint.go:lineIgnore.match / fileIgnore.match` ↦ `Ignore.matchB`
* `lintcmd/lint.go:filterIgnored` (incl. the closure `couldHaveMatched`) ↦ `filterIgnored`
* `lintcmd/lint.go:success`                    ↦ `success`
* `unused/unused.go`, `(*graph).entry`: the loop filling the `ignores` map and the two lookups per
  object ↦ `u1000Key`, `u1000Keys`, `u1000Used`, `u1000Marked` (transliteration); `u1000Ignores` is
  the same rule for a single directive, stated with `checksMatch`
* `path/filepath.Match` for names without separators: `*`, `?`, character classes, escapes,
  malformed patterns ↦ `tokenize`, `matchToks`, `globMatch`
* `strings.ToLower` on ASCII ↦ `lower`

Core Lean only.  The Go loops are transliterated (folds with the accumulators of the Go
code); `Theorems.lean` proves them equal to the declarative specification.
-/
namespace Verif.C10

structure Pos where
  file : String
  line : Nat
  col : Nat
deriving DecidableEq, Repr

inductive Sev | error | warning | ignored
deriving DecidableEq, Repr

/-- `lintcmd.diagnostic` restricted to the fields `filterIgnored` reads or writes. -/
structure Diag where
  pos : Pos
  msg : String
  cat : String
  sev : Sev
deriving DecidableEq, Repr

/-- `runner.SerializedDirective`. -/
structure Directive where
  cmd : String
  args : List String
  dirPos : Pos
  nodePos : Pos
deriving DecidableEq, Repr

/-- `lintcmd.lineIgnore` / `lintcmd.fileIgnore` (the mutable `Matched` flag is computed,
see `filterStep`). -/
inductive Ignore
  | line (file : String) (line : Nat) (checks : List String) (pos : Pos)
  | file (file : String) (checks : List String)
deriving Repr

/-- `strings.ToLower` on ASCII (written over `List Char` so that the kernel can evaluate
it in the examples). -/
def lower (s : String) : String := String.ofList (s.toList.map Char.toLower)

/-- `strings.Split(s, sep)` for a one-character separator, on character lists. -/
def splitChars (sep : Char) : List Char → List (List Char)
  | [] => [[]]
  | c :: cs =>
    if c = sep then [] :: splitChars sep cs
    else match splitChars sep cs with
      | [] => [[c]]
      | h :: t => (c :: h) :: t

def splitOnChar (sep : Char) (s : String) : List String :=
  (splitChars sep s.toList).map String.ofList

def stripPrefix : List Char → List Char → Option (List Char)
  | [], s => some s
  | _ :: _, [] => none
  | p :: ps, c :: cs => if p = c then stripPrefix ps cs else none

/-! ### filepath.Match

The pattern language of `path/filepath.Match` for names without path separators (check ids):
`*`, `?`, character classes `[…]`/`[^…]` with ranges and escapes, `\\c`, literal characters.
`lineIgnore.match`/`fileIgnore.match`/`unused` discard the error (`m, _ := filepath.Match(…)`):
a malformed pattern (`ErrBadPattern`) matches nothing.  The model reads the pattern into terms
(`tokenize`, following `matchChunk`/`getEsc`) and matches declaratively (`matchToks`); it is
compared with the real function on generated patterns, not verified against its loops. -/

/-- does some suffix of `s` satisfy `f` -/
def anySuffix (f : List Char → Bool) : List Char → Bool
  | [] => f []
  | c :: s => f (c :: s) || anySuffix f s

/-- a term of a `filepath.Match` pattern -/
inductive GTok
  | lit (c : Char)
  | any
  | star
  | cls (neg : Bool) (ranges : List (Char × Char))
deriving DecidableEq, Repr

/-- `getEsc`: one (possibly escaped) character of a character class; the class must go on
behind it -/
def getEsc : List Char → Option (Char × List Char)
  | [] => none
  | c :: cs =>
    if c = '-' ∨ c = ']' then none
    else if c = '\\' then
      match cs with
      | [] => none
      | d :: ds => if ds.isEmpty then none else some (d, ds)
    else if cs.isEmpty then none else some (c, cs)

/-- the ranges of a character class up to and including the closing `]` (which closes the class
only after at least one range) -/
def parseRanges : Nat → List Char → List (Char × Char) → Option (List (Char × Char) × List Char)
  | 0, _, _ => none
  | fuel + 1, cs, acc =>
    match cs, acc with
    | ']' :: rest, _ :: _ => some (acc.reverse, rest)
    | _, _ =>
      match getEsc cs with
      | none => none
      | some (lo, cs1) =>
        match cs1 with
        | '-' :: cs2 =>
          match getEsc cs2 with
          | none => none
          | some (hi, cs3) => parseRanges fuel cs3 ((lo, hi) :: acc)
        | _ => parseRanges fuel cs1 ((lo, lo) :: acc)

/-- the terms of a pattern; `none`: `ErrBadPattern` -/
def tokenize : Nat → List Char → Option (List GTok)
  | 0, _ => none
  | _ + 1, [] => some []
  | fuel + 1, c :: cs =>
    if c = '*' then (tokenize fuel cs).map (GTok.star :: ·)
    else if c = '?' then (tokenize fuel cs).map (GTok.any :: ·)
    else if c = '\\' then
      match cs with
      | [] => none
      | d :: ds => (tokenize fuel ds).map (GTok.lit d :: ·)
    else if c = '[' then
      let (neg, body) := match cs with
        | '^' :: r => (true, r)
        | _ => (false, cs)
      match parseRanges (body.length + 1) body [] with
      | none => none
      | some (rs, rest) => (tokenize fuel rest).map (GTok.cls neg rs :: ·)
    else (tokenize fuel cs).map (GTok.lit c :: ·)

def inRanges (c : Char) (rs : List (Char × Char)) : Bool :=
  rs.any fun r => decide (r.1.val ≤ c.val) && decide (c.val ≤ r.2.val)

def matchToks : List GTok → List Char → Bool
  | [], s => s.isEmpty
  | .star :: p, s => anySuffix (matchToks p) s
  | .any :: p, s => match s with
    | [] => false
    | _ :: s => matchToks p s
  | .lit c :: p, s => match s with
    | [] => false
    | d :: s => c == d && matchToks p s
  | .cls neg rs :: p, s => match s with
    | [] => false
    | d :: s => (inRanges d rs != neg) && matchToks p s

/-- `filepath.Match(p, s)` (`m, _ :=`: a malformed pattern matches nothing) for names without
path separators -/
def globMatch (p s : List Char) : Bool :=
  match tokenize (p.length + 1) p with
  | none => false
  | some ts => matchToks ts s

def glob (pat name : String) : Bool := globMatch pat.toList name.toList

/-! ### analysis/lint/lint.go: parseDirective -/

/-- `parseDirective` guarded by the `strings.HasPrefix(c.Text, "//lint:")` test of
`ParseDirectives`: command and arguments of a comment, `none` if it is no directive. -/
def parseDirectiveText (text : String) : Option (String × List String) :=
  match stripPrefix "//lint:".toList text.toList with
  | none => none
  | some rest =>
    match (splitChars ' ' rest).map String.ofList with
    | [] => some ("", [])
    | f :: args => some (f, args)

/-! ### lintcmd/directives.go: parseDirectives -/

def malformedMsg : String := "malformed linter directive; missing the required reason field?"
def uselessMsg : String := "this linter directive didn't match anything; should it be removed?"

def malformedDiag (d : Directive) : Diag := ⟨d.nodePos, malformedMsg, "compile", .error⟩
def uselessDiag (p : Pos) : Diag := ⟨p, uselessMsg, "staticcheck", .error⟩

/-- `makeCaseFoldedStrings(strings.Split(args[0], ","))` -/
def checksOf (a0 : String) : List String := (splitOnChar ',' a0).map lower

/-- `args[0]` if `len(args) >= 2` -/
def firstOfTwo : List String → Option String
  | a0 :: _ :: _ => some a0
  | _ => none

/-- one iteration of the loop in `parseDirectives` -/
def parseStep (acc : List Ignore × List Diag) (d : Directive) : List Ignore × List Diag :=
  if d.cmd = "ignore" ∨ d.cmd = "file-ignore" then
    match firstOfTwo d.args with
    | some a0 =>
      if d.cmd = "ignore" then
        (acc.1 ++ [Ignore.line d.nodePos.file d.nodePos.line (checksOf a0) d.dirPos], acc.2)
      else
        (acc.1 ++ [Ignore.file d.nodePos.file (checksOf a0)], acc.2)
    | none => (acc.1, acc.2 ++ [malformedDiag d])
  else acc

def parseDirectives (dirs : List Directive) : List Ignore × List Diag :=
  dirs.foldl parseStep ([], [])

/-! ### lintcmd/lint.go: match, couldHaveMatched, filterIgnored, success -/

def checksMatch (checks : List String) (cat : String) : Bool :=
  checks.any fun c => glob c (lower cat)

def Ignore.matchB : Ignore → Diag → Bool
  | .line f l checks _, d =>
    if d.pos.file ≠ f ∨ d.pos.line ≠ l then false else checksMatch checks d.cat
  | .file f checks, d =>
    if d.pos.file ≠ f then false else checksMatch checks d.cat

/-- The closure `couldHaveMatched` of `filterIgnored`: the loop over the (case-folded)
check names; a `u1000` entry is skipped, the first allowed name answers `true`. -/
def couldHaveMatched (allowed : String → Bool) : List String → Bool
  | [] => false
  | c :: cs =>
    if c = "u1000" then couldHaveMatched allowed cs
    else if allowed c then true
    else couldHaveMatched allowed cs

def markIgnored (ig : Ignore) (ds : List Diag) : List Diag :=
  ds.map fun d => if ig.matchB d then { d with sev := .ignored } else d

/-- one iteration of the outer loop of `filterIgnored`; `st.1` is the slice
`diagnostics` (mutated in place), `st.2` is `moreDiagnostics`. -/
def filterStep (allowed : String → Bool) (st : List Diag × List Diag) (ig : Ignore) :
    List Diag × List Diag :=
  let ds := markIgnored ig st.1
  match ig with
  | .line _ _ checks pos =>
    -- `ig.Matched` after the inner loop
    let matched := st.1.any ig.matchB
    if !matched && couldHaveMatched allowed checks then (ds, st.2 ++ [uselessDiag pos])
    else (ds, st.2)
  | .file _ _ => (ds, st.2)

def filterIgnored (diags : List Diag) (dirs : List Directive) (allowed : String → Bool) :
    List Diag :=
  let p := parseDirectives dirs
  let r := p.1.foldl (filterStep allowed) (diags, p.2)
  r.1 ++ r.2

/-- `success`: only diagnostics of allowed analyzers enter `filterIgnored`. -/
def success (allowed : String → Bool) (raw : List Diag) : List Diag :=
  raw.filter fun d => allowed (lower d.cat)

/-! ### unused/unused.go: which positions a directive marks as used -/

/-- Does the directive put an entry into the `ignores` map of the U1000 graph that covers
an object declared at `file:line`?  (Directive well-formed as in `parseDirectives`, one of
its names matching `U1000` as in `lineIgnore.match`.) -/
def u1000Ignores (d : Directive) (file : String) (line : Nat) : Bool :=
  (d.cmd = "ignore" || d.cmd = "file-ignore") &&
  (match firstOfTwo d.args with
   | some a0 => checksMatch (checksOf a0) "U1000"
   | none => false) &&
  d.nodePos.file = file &&
  (d.cmd = "file-ignore" || d.nodePos.line = line)

/-! ### unused/unused.go, `(*graph).entry`: the `ignores` map, transliterated

```go
ignores := map[ignoredKey]struct{}{}
for _, dir := range g.directives {
    if dir.Command != "ignore" && dir.Command != "file-ignore" { continue }
    if len(dir.Arguments) < 2 { continue }
    if slices.ContainsFunc(strings.Split(dir.Arguments[0], ","), func(check string) bool {
        m, _ := filepath.Match(strings.ToLower(check), "u1000"); return m }) {
        pos := g.fset.PositionFor(dir.Node.Pos(), false)
        switch dir.Command {
        case "ignore":      key = ignoredKey{pos.Filename, pos.Line}
        case "file-ignore": key = ignoredKey{pos.Filename, -1}
        }
        ignores[key] = struct{}{}
    }
}
… for obj := range g.objects { _, ok := ignores[{file, line}]; if !ok { _, ok = ignores[{file, -1}] }; if ok { g.use(obj, nil) … } }
```
The key's line is `some line` for a line directive and `none` for Go's `-1`. -/

/-- one iteration of the loop filling `ignores`: the key the directive contributes, if any -/
def u1000Key (d : Directive) : Option (String × Option Nat) :=
  if d.cmd ≠ "ignore" ∧ d.cmd ≠ "file-ignore" then none
  else match firstOfTwo d.args with
    | none => none
    | some a0 =>
      if (splitOnChar ',' a0).any (fun check => glob (lower check) "u1000") then
        some (d.nodePos.file, if d.cmd = "ignore" then some d.nodePos.line else none)
      else none

/-- the `ignores` map (as the list of its keys) -/
def u1000Keys (dirs : List Directive) : List (String × Option Nat) := dirs.filterMap u1000Key

/-- the two lookups `ignores[key1]`, `ignores[key2]` for an object declared at `file:line` -/
def u1000Used (keys : List (String × Option Nat)) (file : String) (line : Nat) : Bool :=
  keys.contains (file, some line) || keys.contains (file, none)

/-- the objects (given by the position of their declaration) that the loop over `g.objects`
marks as used because of a directive -/
def u1000Marked (dirs : List Directive) (objs : List (String × Nat)) : List (String × Nat) :=
  objs.filter fun o => u1000Used (u1000Keys dirs) o.1 o.2

end Verif.C10
