import Verif.C10.Driver
def main : IO UInt32 := do
  Verif.Proto.runLines Verif.C10.step
  return 0
