import Verif.C10.Attach
import Verif.C10.Theorems
/-!
C10, from comments to suppression: theorems over the model of `go/ast.NewCommentMap` (as used by
`lint.ParseDirectives`), `lint.ParseDirectives`, `report.DisplayPosition` and
`runner.serializeDirective` (`Attach.lean`), composed with the `filterIgnored` theorems of
`Theorems.lean`.

1. `ParseDirectives`: every `//lint:` line of every group of every node yields exactly one
   directive, whatever its index in its group; the result does not depend on how the comment
   lines of a node are split into groups.
2. `NewCommentMap`: every comment group is associated exactly once; a group standing on its own
   line(s) directly above a node is associated with that node; the decision for trailing and
   detached comments; what `nodeStack.pop` returns.
3. `DisplayPosition`/`serializeDirective` and the composition with `filterIgnored`: a line
   directive directly above a node suppresses the problems printed on the line on which that
   node's first token is printed, and a problem is suppressed only by a directive whose
   associated node is printed in its file (and on its line, for `ignore`).
-/
namespace Verif.C10

/-! ## 1. ParseDirectives -/

theorem stripPrefix_eq_some (p s r : List Char) : stripPrefix p s = some r ↔ s = p ++ r := by
  induction p generalizing s with
  | nil => simp [stripPrefix, eq_comm]
  | cons a p ih =>
    cases s with
    | nil => simp [stripPrefix]
    | cons c s =>
      by_cases h : a = c
      · subst h; simp [stripPrefix, ih]
      · simp only [stripPrefix, h, if_false, List.cons_append, List.cons.injEq]
        constructor
        · intro h1; cases h1
        · rintro ⟨h1, _⟩; exact absurd h1.symm h

/-- the comment text is a directive: it starts with `//lint:` -/
def IsDirectiveText (t : String) : Prop := ∃ rest, t.toList = "//lint:".toList ++ rest

theorem parseDirectiveText_isSome (t : String) :
    (parseDirectiveText t).isSome = true ↔ IsDirectiveText t := by
  unfold parseDirectiveText IsDirectiveText
  cases h : stripPrefix "//lint:".toList t.toList with
  | none =>
    simp only [Option.isSome_none, Bool.false_eq_true, false_iff]
    rintro ⟨rest, hr⟩
    have h' : stripPrefix "//lint:".toList t.toList = some rest := (stripPrefix_eq_some _ _ rest).mpr hr
    rw [h] at h'
    cases h'
  | some rest =>
    have hr := (stripPrefix_eq_some _ _ rest).mp h
    constructor
    · intro _; exact ⟨rest, hr⟩
    · intro _
      show (match (splitChars ' ' rest).map String.ofList with
        | [] => some ("", []) | f :: args => some (f, args)).isSome = true
      cases (splitChars ' ' rest).map String.ofList <;> rfl

theorem mkDirective_eq_some (n : NodeRec) (c : CommentRec) (d : RawDirective) :
    mkDirective n c = some d ↔
      ∃ cmd args, parseDirectiveText c.text = some (cmd, args) ∧ d = ⟨cmd, args, c, n⟩ := by
  unfold mkDirective
  cases h : parseDirectiveText c.text with
  | none => simp
  | some ca =>
    obtain ⟨cmd, args⟩ := ca
    simp only [Option.some.injEq, Prod.mk.injEq]
    constructor
    · intro h1; exact ⟨cmd, args, ⟨rfl, rfl⟩, h1.symm⟩
    · rintro ⟨_, _, ⟨rfl, rfl⟩, h2⟩; exact h2.symm

/-- **ParseDirectives, membership**: a directive is read from a comment map iff it is what
`parseDirective` reads from *some* comment line of *some* group of *some* node — no condition on
the index of the line in its group or of the group in the node's list. -/
theorem mem_parseCM_iff (cm : List (NodeRec × List GroupRec)) (d : RawDirective) :
    d ∈ parseCM cm ↔
      ∃ e ∈ cm, ∃ g ∈ e.2, ∃ c ∈ g.comments, ∃ cmd args,
        parseDirectiveText c.text = some (cmd, args) ∧ d = ⟨cmd, args, c, e.1⟩ := by
  simp only [parseCM, List.mem_flatMap, List.mem_filterMap, mkDirective_eq_some]

/-- **C10-1-3 in theorem form**: the line at *any* index `i` of a group, if it starts with
`//lint:`, is read as a directive attached to the group's node. -/
theorem directive_at_any_index (cm : List (NodeRec × List GroupRec)) (e : NodeRec × List GroupRec)
    (he : e ∈ cm) (g : GroupRec) (hg : g ∈ e.2) (i : Nat) (hi : i < g.comments.length)
    (ht : IsDirectiveText (g.comments[i]).text) :
    ∃ d ∈ parseCM cm, d.comment = g.comments[i] ∧ d.node = e.1 ∧
      parseDirectiveText (g.comments[i]).text = some (d.cmd, d.args) := by
  have hs := (parseDirectiveText_isSome _).mpr ht
  obtain ⟨⟨cmd, args⟩, hca⟩ := Option.isSome_iff_exists.mp hs
  refine ⟨⟨cmd, args, g.comments[i], e.1⟩, ?_, rfl, rfl, hca⟩
  exact (mem_parseCM_iff cm _).mpr ⟨e, he, g, hg, g.comments[i], List.getElem_mem hi, cmd, args, hca, rfl⟩

example :
    let n : NodeRec := ⟨7, 60, 70, ⟨⟨"a.go", 5, 2⟩, ⟨"a.go", 5, 2⟩⟩, 5, true⟩
    let c1 : CommentRec := ⟨20, 30, ⟨⟨"a.go", 3, 2⟩, ⟨"a.go", 3, 2⟩⟩, 3, "// why"⟩
    let c2 : CommentRec := ⟨32, 58, ⟨⟨"a.go", 4, 2⟩, ⟨"a.go", 4, 2⟩⟩, 4, "//lint:ignore SA4000 r"⟩
    (parseCM [(n, [⟨[c1, c2]⟩])]).map (fun d => (d.cmd, d.args, d.comment.pos)) =
      [("ignore", ["SA4000", "r"], 32)] := by decide

theorem directivesOf_flatten (n : NodeRec) (gs : List GroupRec) :
    (gs.flatMap fun g => g.comments.filterMap (mkDirective n)) =
      (gs.flatMap (·.comments)).filterMap (mkDirective n) := by
  induction gs with
  | nil => rfl
  | cons g gs ih => simp [List.flatMap_cons, List.filterMap_append, ih]

theorem parseCM_eq (cm : List (NodeRec × List GroupRec)) :
    parseCM cm =
      (cm.map fun e => (e.1, e.2.flatMap (·.comments))).flatMap fun e => e.2.filterMap (mkDirective e.1) := by
  induction cm with
  | nil => rfl
  | cons e cm ih =>
    simp only [parseCM, List.flatMap_cons, List.map_cons] at ih ⊢
    rw [directivesOf_flatten, ih]

/-- **ParseDirectives, grouping is irrelevant**: two comment maps that give every node the
same comment lines in the same order — split into groups in any way (one group per line, all
lines in one group, a directive first, in the middle or last in its group) — yield the same
directives. -/
theorem parseCM_regroup (cm cm' : List (NodeRec × List GroupRec))
    (h : (cm.map fun e => (e.1, e.2.flatMap (·.comments))) =
         (cm'.map fun e => (e.1, e.2.flatMap (·.comments)))) :
    parseCM cm = parseCM cm' := by
  rw [parseCM_eq, parseCM_eq, h]

example :
    let n : NodeRec := ⟨7, 60, 70, ⟨⟨"a.go", 5, 2⟩, ⟨"a.go", 5, 2⟩⟩, 5, true⟩
    let c1 : CommentRec := ⟨20, 30, ⟨⟨"a.go", 3, 2⟩, ⟨"a.go", 3, 2⟩⟩, 3, "// why"⟩
    let c2 : CommentRec := ⟨32, 58, ⟨⟨"a.go", 4, 2⟩, ⟨"a.go", 4, 2⟩⟩, 4, "//lint:ignore SA4000 r"⟩
    parseCM [(n, [⟨[c1, c2]⟩])] = parseCM [(n, [⟨[c1]⟩, ⟨[c2]⟩])] ∧ parseCM [(n, [⟨[c1, c2]⟩])] ≠ [] := by
  decide

/-- **ParseDirectives, nothing else is a directive**: comment lines that do not start with
`//lint:` (block comments `/*lint:…*/`, `// lint:…`, `//nolint`) yield nothing. -/
theorem parseCM_inert (cm : List (NodeRec × List GroupRec))
    (h : ∀ e ∈ cm, ∀ g ∈ e.2, ∀ c ∈ g.comments, ¬ IsDirectiveText c.text) : parseCM cm = [] := by
  apply List.eq_nil_iff_forall_not_mem.mpr
  intro d hd
  obtain ⟨e, he, g, hg, c, hc, cmd, args, hp, _⟩ := (mem_parseCM_iff cm d).mp hd
  exact h e he g hg c hc ((parseDirectiveText_isSome _).mp (by simp [hp]))

example : parseDirectiveText "/*lint:ignore SA4000 r*/" = none ∧ parseDirectiveText "// lint:ignore SA4000 r" = none := by
  decide

/-- the loops over the associations in comment order are the loops over the comment map -/
theorem parseAssigned_eq_parseCM (out : List (GroupRec × Option NodeRec)) :
    parseAssigned out = parseCM (out.filterMap fun e => e.2.map fun n => (n, [e.1])) := by
  induction out with
  | nil => rfl
  | cons e out ih =>
    obtain ⟨r, a⟩ := e
    cases a with
    | none => simpa [parseAssigned, parseCM, List.flatMap_cons] using ih
    | some n =>
      simp only [parseAssigned, parseCM, List.flatMap_cons, List.filterMap_cons, Option.map_some,
        List.flatMap_nil, List.append_nil] at ih ⊢
      rw [ih]

theorem mem_parseAssigned_iff (out : List (GroupRec × Option NodeRec)) (d : RawDirective) :
    d ∈ parseAssigned out ↔
      ∃ r n, (r, some n) ∈ out ∧ ∃ c ∈ r.comments, ∃ cmd args,
        parseDirectiveText c.text = some (cmd, args) ∧ d = ⟨cmd, args, c, n⟩ := by
  rw [parseAssigned_eq_parseCM, mem_parseCM_iff]
  constructor
  · rintro ⟨e, he, g, hg, c, hc, cmd, args, hp, hd⟩
    obtain ⟨⟨r, a⟩, hra, hmap⟩ := List.mem_filterMap.mp he
    cases a with
    | none => simp at hmap
    | some n =>
      simp only [Option.map_some, Option.some.injEq] at hmap
      subst hmap
      simp only [List.mem_singleton] at hg
      rw [hg] at hc
      exact ⟨r, n, hra, c, hc, cmd, args, hp, hd⟩
  · rintro ⟨r, n, hrn, c, hc, cmd, args, hp, hd⟩
    exact ⟨(n, [r]), List.mem_filterMap.mpr ⟨(r, some n), hrn, rfl⟩, r, by simp, c, hc, cmd, args, hp, hd⟩

/-! ## 2. NewCommentMap -/

theorem popStack_spec (pos : Nat) (s : List NodeRec) (top : Option NodeRec) :
    (popStack pos s top).2 = s.dropWhile (fun n => decide (n.end_ ≤ pos)) ∧
    (popStack pos s top).1 =
      match (s.takeWhile (fun n => decide (n.end_ ≤ pos))).getLast? with
      | some n => some n
      | none => top := by
  induction s generalizing top with
  | nil => simp [popStack]
  | cons n s ih =>
    by_cases h : n.end_ ≤ pos
    · have := ih (some n)
      simp only [popStack, h, if_true, List.dropWhile_cons, decide_true, List.takeWhile_cons]
      refine ⟨this.1, ?_⟩
      rw [this.2]
      cases hl : (s.takeWhile (fun n => decide (n.end_ ≤ pos))).getLast? with
      | none =>
        have : s.takeWhile (fun n => decide (n.end_ ≤ pos)) = [] := by
          simpa [List.getLast?_eq_none_iff] using hl
        simp [this]
      | some m =>
        have hne : s.takeWhile (fun n => decide (n.end_ ≤ pos)) ≠ [] := by
          intro h0; simp [h0] at hl
        rw [List.getLast?_cons_of_ne_nil hne] at *
        simp [hl]
    · simp [popStack, h]

/-- **nodeStack.pop returns the outermost ended node group**: the stack holds the enclosing
important nodes, innermost first; `pop` removes those that ended before the comment and
returns the last one removed. -/
theorem popStack_outermost (pos : Nat) (s : List NodeRec) :
    (popStack pos s none).1 = (s.takeWhile (fun n => decide (n.end_ ≤ pos))).getLast? := by
  rw [(popStack_spec pos s none).2]
  cases (s.takeWhile (fun n => decide (n.end_ ≤ pos))).getLast? <;> rfl

theorem popStack_mem (pos : Nat) (s : List NodeRec) (top : Option NodeRec) :
    (∀ n ∈ (popStack pos s top).2, n ∈ s) ∧
    (∀ n, (popStack pos s top).1 = some n → top = some n ∨ n ∈ s) := by
  induction s generalizing top with
  | nil => simp [popStack]
  | cons m s ih =>
    by_cases h : m.end_ ≤ pos
    · have := ih (some m)
      simp only [popStack, h, if_true]
      refine ⟨fun n hn => List.mem_cons_of_mem _ (this.1 n hn), fun n hn => ?_⟩
      rcases this.2 n hn with h1 | h1
      · right; simp only [Option.some.injEq] at h1; subst h1; exact List.mem_cons_self
      · right; exact List.mem_cons_of_mem _ h1
    · simp only [popStack, h, if_false]
      exact ⟨fun n hn => hn, fun n hn => Or.inl hn⟩

/-- the decision for a comment group standing on its own line(s) directly above `q` -/
theorem assocOf_above (pg p : Option NodeRec) (q : NodeRec) (r : GroupRec)
    (hpg : ∀ g, pg = some g → g.endLine ≠ r.posLine)
    (hp : ∀ n, p = some n → n.endLine ≠ r.posLine)
    (hadj : r.endLine + 1 = q.at_.adj.line) :
    assocOf pg p (some q) r = some q := by
  have hgap : gapBefore r (some q) = false := by simp [gapBefore, hadj]
  have hP : assocOf.assocP p (some q) r = some q := by
    cases p with
    | none => rfl
    | some n => simp [assocOf.assocP, hp n rfl, hgap]
  cases pg with
  | none => simpa [assocOf] using hP
  | some g => simp [assocOf, hpg g rfl, hgap, hP]

/-- the decision for a trailing comment: it starts on the line on which the previous node
group ends -/
theorem assocOf_trailing (g : NodeRec) (p q : Option NodeRec) (r : GroupRec)
    (h : g.endLine = r.posLine) : assocOf (some g) p q r = some g := by
  simp [assocOf, h]

/-- the decision for a detached comment: it starts on the line after the previous node
group and an empty line separates it from the next node -/
theorem assocOf_detached (g : NodeRec) (p q : Option NodeRec) (r : GroupRec)
    (h : g.endLine + 1 = r.posLine) (hgap : gapBefore r q = true) :
    assocOf (some g) p q r = some g := by
  simp [assocOf, h, hgap]

example :
    let ifStmt : NodeRec := ⟨3, 40, 80, ⟨⟨"a.go", 5, 2⟩, ⟨"a.go", 5, 2⟩⟩, 7, true⟩
    let next : NodeRec := ⟨9, 120, 130, ⟨⟨"a.go", 10, 2⟩, ⟨"a.go", 10, 2⟩⟩, 10, true⟩
    let c : CommentRec := ⟨82, 100, ⟨⟨"a.go", 7, 4⟩, ⟨"a.go", 7, 4⟩⟩, 7, "//lint:ignore SA4000 r"⟩
    assocOf (some ifStmt) none (some next) ⟨[c]⟩ = some ifStmt := by decide

/-- the state invariant: `p`, `pg` and the stack only hold nodes already visited -/
def CMInv (S : List NodeRec) (st : CMState) : Prop :=
  (∀ n, st.p = some n → n ∈ S) ∧ (∀ n, st.pg = some n → n ∈ S) ∧ (∀ n ∈ st.stack, n ∈ S)

theorem CMInv.mono {S S' : List NodeRec} {st : CMState} (h : CMInv S st) (hs : ∀ n ∈ S, n ∈ S') :
    CMInv S' st :=
  ⟨fun n hn => hs n (h.1 n hn), fun n hn => hs n (h.2.1 n hn), fun n hn => hs n (h.2.2 n hn)⟩

/-- one comment group handled by `drain` -/
def drainOne (q : Option NodeRec) (r : GroupRec) (st : CMState) : CMState :=
  let pp := popStack r.pos st.stack none
  let pg' := match pp.1 with | some t => some t | none => st.pg
  { st with pg := pg', stack := pp.2, out := st.out ++ [(r, assocOf pg' st.p q r)] }

def drainCond (q : Option NodeRec) (r : GroupRec) : Bool :=
  match q with | none => true | some n => decide (r.end_ ≤ n.pos)

theorem drain_cons (q : Option NodeRec) (r : GroupRec) (rs : List GroupRec) (st : CMState) :
    drain q (r :: rs) st =
      if drainCond q r = true then drain q rs (drainOne q r st) else { st with rest := r :: rs } := by
  rfl

theorem drainOne_inv {S : List NodeRec} {st : CMState} (q : Option NodeRec) (r : GroupRec)
    (h : CMInv S st) : CMInv S (drainOne q r st) ∧ (drainOne q r st).p = st.p := by
  have hm := popStack_mem r.pos st.stack none
  refine ⟨⟨h.1, ?_, fun n hn => h.2.2 n (hm.1 n hn)⟩, rfl⟩
  intro n hn
  simp only [drainOne] at hn
  cases hp : (popStack r.pos st.stack none).1 with
  | none => rw [hp] at hn; exact h.2.1 n hn
  | some t =>
    rw [hp] at hn
    simp only [Option.some.injEq] at hn
    subst hn
    rcases hm.2 t hp with h1 | h1
    · simp at h1
    · exact h.2.2 t h1

theorem drain_inv {S : List NodeRec} (q : Option NodeRec) (rs : List GroupRec) (st : CMState)
    (h : CMInv S st) : CMInv S (drain q rs st) ∧ (drain q rs st).p = st.p := by
  induction rs generalizing st with
  | nil => exact ⟨⟨h.1, h.2.1, h.2.2⟩, rfl⟩
  | cons r rs ih =>
    rw [drain_cons]
    split
    · have h1 := drainOne_inv q r h
      have h2 := ih (drainOne q r st) h1.1
      exact ⟨h2.1, h2.2.trans h1.2⟩
    · exact ⟨⟨h.1, h.2.1, h.2.2⟩, rfl⟩

theorem drainOne_out (q : Option NodeRec) (r : GroupRec) (st : CMState) :
    ∃ a, (drainOne q r st).out = st.out ++ [(r, a)] := ⟨_, rfl⟩

/-- `out` only grows -/
theorem drain_out (q : Option NodeRec) (rs : List GroupRec) (st : CMState) :
    ∃ l, (drain q rs st).out = st.out ++ l := by
  induction rs generalizing st with
  | nil => exact ⟨[], by simp [drain]⟩
  | cons r rs ih =>
    rw [drain_cons]
    split
    · obtain ⟨l, hl⟩ := ih (drainOne q r st)
      obtain ⟨a, ha⟩ := drainOne_out q r st
      exact ⟨(r, a) :: l, by rw [hl, ha]; simp⟩
    · exact ⟨[], by simp⟩

theorem stepNode_out (st : CMState) (q : NodeRec) : ∃ l, (stepNode st q).out = st.out ++ l := by
  obtain ⟨l, hl⟩ := drain_out (some q) st.rest st
  exact ⟨l, by simp [stepNode, hl]⟩

theorem foldl_stepNode_out (ns : List NodeRec) (st : CMState) :
    ∃ l, (ns.foldl stepNode st).out = st.out ++ l := by
  induction ns generalizing st with
  | nil => exact ⟨[], by simp⟩
  | cons n ns ih =>
    obtain ⟨l1, h1⟩ := stepNode_out st n
    obtain ⟨l2, h2⟩ := ih (stepNode st n)
    exact ⟨l1 ++ l2, by simp [List.foldl_cons, h2, h1]⟩

theorem stepNode_inv {S : List NodeRec} (st : CMState) (q : NodeRec) (h : CMInv S st) :
    CMInv (S ++ [q]) (stepNode st q) := by
  have hd := (drain_inv (some q) st.rest st h).1
  refine ⟨?_, ?_, ?_⟩
  · intro n hn
    simp only [stepNode, Option.some.injEq] at hn
    subst hn; simp
  · intro n hn
    simp only [stepNode] at hn
    exact List.mem_append_left _ (hd.2.1 n hn)
  · intro n hn
    simp only [stepNode] at hn
    split at hn
    · simp only [pushStack, List.mem_cons] at hn
      rcases hn with h1 | h1
      · subst h1; simp
      · exact List.mem_append_left _ (hd.2.2 n ((popStack_mem _ _ _).1 n h1))
    · exact List.mem_append_left _ (hd.2.2 n hn)

/-- `drain` stops in front of `r` at the latest if `r` lies behind the current node -/
theorem drain_keeps (q : NodeRec) (r : GroupRec) (gs1 gs2 : List GroupRec) (st : CMState)
    (hr : ¬ r.end_ ≤ q.pos) :
    ∃ gs1', (∀ g ∈ gs1', g ∈ gs1) ∧ (drain (some q) (gs1 ++ r :: gs2) st).rest = gs1' ++ r :: gs2 := by
  induction gs1 generalizing st with
  | nil =>
    refine ⟨[], by simp, ?_⟩
    rw [List.nil_append, drain_cons]
    simp [drainCond, hr]
  | cons g gs ih =>
    rw [List.cons_append, drain_cons]
    split
    · obtain ⟨gs1', h1, h2⟩ := ih (drainOne (some q) g st)
      exact ⟨gs1', fun x hx => List.mem_cons_of_mem _ (h1 x hx), h2⟩
    · exact ⟨g :: gs, fun x hx => hx, rfl⟩

theorem foldl_keeps {S : List NodeRec} (pre : List NodeRec) (r : GroupRec) (gs1 gs2 : List GroupRec)
    (st : CMState) (hrest : st.rest = gs1 ++ r :: gs2) (hpre : ∀ n ∈ pre, n.pos < r.end_)
    (hinv : CMInv S st) :
    ∃ gs1', (∀ g ∈ gs1', g ∈ gs1) ∧ (pre.foldl stepNode st).rest = gs1' ++ r :: gs2 ∧
      CMInv (S ++ pre) (pre.foldl stepNode st) := by
  induction pre generalizing st gs1 S with
  | nil => exact ⟨gs1, fun _ h => h, hrest, by simpa using hinv⟩
  | cons n pre ih =>
    have hn : ¬ r.end_ ≤ n.pos := by have := hpre n List.mem_cons_self; omega
    obtain ⟨g1, hg1, hr1⟩ := drain_keeps n r gs1 gs2 st hn
    have hrest' : (stepNode st n).rest = g1 ++ r :: gs2 := by
      simp only [stepNode]; rw [hrest]; exact hr1
    obtain ⟨g2, hg2, hr2, hinv2⟩ := ih g1 (stepNode st n) hrest'
      (fun m hm => hpre m (List.mem_cons_of_mem _ hm)) (stepNode_inv st n hinv)
    refine ⟨g2, fun x hx => hg1 x (hg2 x hx), by simpa [List.foldl_cons] using hr2, ?_⟩
    simpa [List.foldl_cons, List.append_assoc] using hinv2

/-- `drain` at `q` reaches `r` when everything in front of it lies before `q` -/
theorem drain_reaches {S : List NodeRec} (q : NodeRec) (r : GroupRec) (gs1 gs2 : List GroupRec)
    (st : CMState) (hgs1 : ∀ g ∈ gs1, g.end_ ≤ q.pos) (hinv : CMInv S st) :
    ∃ st', CMInv S st' ∧ st'.p = st.p ∧ (∃ l, st'.out = st.out ++ l) ∧
      drain (some q) (gs1 ++ r :: gs2) st = drain (some q) (r :: gs2) st' := by
  induction gs1 generalizing st with
  | nil => exact ⟨st, hinv, rfl, ⟨[], by simp⟩, rfl⟩
  | cons g gs ih =>
    have hg : drainCond (some q) g = true := by simp [drainCond, hgs1 g List.mem_cons_self]
    have h1 := drainOne_inv (some q) g hinv
    obtain ⟨st', hi, hp, ⟨l, hl⟩, hd⟩ := ih (drainOne (some q) g st)
      (fun x hx => hgs1 x (List.mem_cons_of_mem _ hx)) h1.1
    obtain ⟨a, ha⟩ := drainOne_out (some q) g st
    refine ⟨st', hi, hp.trans h1.2, ⟨(g, a) :: l, by rw [hl, ha]; simp⟩, ?_⟩
    rw [List.cons_append, drain_cons, if_pos hg, hd]

/-- **NewCommentMap, comment directly above a node**: a comment group `r` that
* is reached at node `q` (`q` is the first node that starts behind it, the groups before `r` lie
  before `q` as well — comments are sorted),
* starts on a line on which no earlier node ends (it stands on its own line), and
* ends on the line directly above the line of `q` (no empty line between)
is associated with `q` — the outermost node that starts at the first token behind the comment. -/
theorem commentMap_above (pre post : List NodeRec) (q : NodeRec) (gs1 gs2 : List GroupRec) (r : GroupRec)
    (hpre : ∀ n ∈ pre, n.pos < r.end_) (hq : r.end_ ≤ q.pos) (hgs1 : ∀ g ∈ gs1, g.end_ ≤ q.pos)
    (hown : ∀ n ∈ pre, n.endLine ≠ r.posLine) (hadj : r.endLine + 1 = q.at_.adj.line) :
    (r, some q) ∈ commentMap (pre ++ q :: post) (gs1 ++ r :: gs2) := by
  unfold commentMap
  rw [List.foldl_append, List.foldl_cons]
  have hinv0 : CMInv [] (⟨gs1 ++ r :: gs2, none, none, [], []⟩ : CMState) := by
    refine ⟨?_, ?_, ?_⟩ <;> simp
  obtain ⟨g1, hg1, hrest, hinv⟩ := foldl_keeps pre r gs1 gs2 _ rfl hpre hinv0
  simp only [List.nil_append] at hinv
  generalize pre.foldl stepNode ⟨gs1 ++ r :: gs2, none, none, [], []⟩ = st1 at hrest hinv
  -- the step at q
  obtain ⟨st', hi', hp', _, hd⟩ := drain_reaches q r g1 gs2 st1 (fun g hg => hgs1 g (hg1 g hg)) hinv
  have hcond : drainCond (some q) r = true := by simp [drainCond, hq]
  have hone := drainOne_inv (some q) r hi'
  -- the association made for r
  have hassoc : (drainOne (some q) r st').out = st'.out ++ [(r, some q)] := by
    simp only [drainOne]
    congr 2
    apply congrArg
    apply assocOf_above
    · intro g hg
      apply hown g
      have := hone.1.2.1 g (by simpa [drainOne] using hg)
      exact this
    · intro n hn
      exact hown n (hi'.1 n hn)
    · exact hadj
  have hstep : ∃ l, (stepNode st1 q).out = (st'.out ++ [(r, some q)]) ++ l := by
    obtain ⟨l, hl⟩ := drain_out (some q) gs2 (drainOne (some q) r st')
    refine ⟨l, ?_⟩
    simp only [stepNode]
    rw [hrest, hd, drain_cons, if_pos hcond, hl, hassoc]
  obtain ⟨l1, hl1⟩ := hstep
  obtain ⟨l2, hl2⟩ := foldl_stepNode_out post (stepNode st1 q)
  obtain ⟨l3, hl3⟩ := drain_out none (post.foldl stepNode (stepNode st1 q)).rest (post.foldl stepNode (stepNode st1 q))
  rw [hl3, hl2, hl1]
  simp

example :
    let file : NodeRec := ⟨0, 0, 100, ⟨⟨"a.go", 1, 1⟩, ⟨"a.go", 1, 1⟩⟩, 6, true⟩
    let s1 : NodeRec := ⟨1, 20, 26, ⟨⟨"a.go", 3, 2⟩, ⟨"a.go", 3, 2⟩⟩, 3, true⟩
    let s2 : NodeRec := ⟨2, 60, 80, ⟨⟨"a.go", 5, 2⟩, ⟨"a.go", 5, 2⟩⟩, 6, true⟩
    let c : CommentRec := ⟨28, 58, ⟨⟨"a.go", 4, 2⟩, ⟨"a.go", 4, 2⟩⟩, 4, "//lint:ignore SA4000 r"⟩
    commentMap [file, s1, s2] [⟨[c]⟩] = [(⟨[c]⟩, some s2)] := by decide

/-- `out` and `rest` together always hold every group, in order -/
theorem drain_groups (q : Option NodeRec) (rs : List GroupRec) (st : CMState) :
    (drain q rs st).out.map (·.1) ++ (drain q rs st).rest = st.out.map (·.1) ++ rs := by
  induction rs generalizing st with
  | nil => simp [drain]
  | cons r rs ih =>
    rw [drain_cons]
    split
    · rw [ih]; simp [drainOne]
    · simp

theorem drain_none_rest (rs : List GroupRec) (st : CMState) : (drain none rs st).rest = [] := by
  induction rs generalizing st with
  | nil => simp [drain]
  | cons r rs ih => rw [drain_cons]; simp [drainCond, ih]

theorem foldl_groups (ns : List NodeRec) (st : CMState) :
    (ns.foldl stepNode st).out.map (·.1) ++ (ns.foldl stepNode st).rest = st.out.map (·.1) ++ st.rest := by
  induction ns generalizing st with
  | nil => rfl
  | cons n ns ih =>
    rw [List.foldl_cons, ih]
    simp only [stepNode]
    exact drain_groups (some n) st.rest st

/-- **NewCommentMap, every comment group is associated exactly once**, in source order. -/
theorem commentMap_groups (nodes : List NodeRec) (groups : List GroupRec) :
    (commentMap nodes groups).map (·.1) = groups := by
  unfold commentMap
  have h1 := foldl_groups nodes ⟨groups, none, none, [], []⟩
  have h2 := drain_groups none (nodes.foldl stepNode ⟨groups, none, none, [], []⟩).rest
    (nodes.foldl stepNode ⟨groups, none, none, [], []⟩)
  rw [drain_none_rest] at h2
  simp only [List.append_nil] at h2
  rw [h2, h1]; simp

example :
    let file : NodeRec := ⟨0, 0, 100, ⟨⟨"a.go", 1, 1⟩, ⟨"a.go", 1, 1⟩⟩, 6, true⟩
    let c : CommentRec := ⟨120, 140, ⟨⟨"a.go", 8, 1⟩, ⟨"a.go", 8, 1⟩⟩, 8, "//lint:file-ignore SA4000 r"⟩
    (commentMap [file] [⟨[c]⟩]).map (·.1) = [⟨[c]⟩] ∧ commentMap [file] [⟨[c]⟩] = [(⟨[c]⟩, some file)] := by decide

/-! ## 3. DisplayPosition, serializeDirective, and the composition with filterIgnored -/

/-- **DisplayPosition is applied alike to problems and to directive nodes**: two positions on
the same raw line whose adjusted positions share file and line (the hypothesis on `//line`
comments: they remap whole lines; probed on every generated file) are displayed in the same
file on the same line — remapped to a Go file, remapped to another file, or not remapped. -/
theorem display_same_line (a b : SrcPos)
    (hraw : a.raw.file = b.raw.file ∧ a.raw.line = b.raw.line)
    (hadj : a.adj.file = b.adj.file ∧ a.adj.line = b.adj.line) :
    (displayPos a).file = (displayPos b).file ∧ (displayPos a).line = (displayPos b).line := by
  unfold displayPos
  rw [hadj.1]
  split <;> simp [hraw, hadj]

example :
    displayPos ⟨⟨"gen.go", 7, 2⟩, ⟨"tmpl.go", 41, 0⟩⟩ = ⟨"tmpl.go", 41, 0⟩ ∧
    displayPos ⟨⟨"gen.go", 7, 2⟩, ⟨"gram.y", 41, 0⟩⟩ = ⟨"gen.go", 7, 2⟩ := by decide

theorem mem_pipeline_iff (nodes : List NodeRec) (groups : List GroupRec) (g : Directive) :
    g ∈ pipeline nodes groups ↔
      ∃ r n, (r, some n) ∈ commentMap nodes groups ∧ ∃ c ∈ r.comments, ∃ cmd args,
        parseDirectiveText c.text = some (cmd, args) ∧
        g = ⟨cmd, args, displayPos c.at_, displayPos n.at_⟩ := by
  simp only [pipeline, List.mem_map, mem_parseAssigned_iff]
  constructor
  · rintro ⟨d, ⟨r, n, hrn, c, hc, cmd, args, hp, hd⟩, hg⟩
    subst hd
    exact ⟨r, n, hrn, c, hc, cmd, args, hp, hg.symm⟩
  · rintro ⟨r, n, hrn, c, hc, cmd, args, hp, hg⟩
    exact ⟨⟨cmd, args, c, n⟩, ⟨r, n, hrn, c, hc, cmd, args, hp, rfl⟩, hg.symm⟩

/-- **C10, a line directive governs the line of the code it stands above** (in the positions
the linter prints): for a file whose comment group `r` stands directly above node `q`
(hypotheses of `commentMap_above`), a comment line of `r` — at any index — that reads
`//lint:ignore <names> <reason…>`, and a problem reported at a token `tok` on the first line of
`q`: if one of the names matches the problem's check, the problem leaves `filterIgnored`
ignored.  Holds for remapped (`//line`) and plain files alike: node and problem go through the
same `DisplayPosition`. -/
theorem above_directive_suppresses
    (pre post : List NodeRec) (q : NodeRec) (gs1 gs2 : List GroupRec) (r : GroupRec)
    (hpre : ∀ n ∈ pre, n.pos < r.end_) (hq : r.end_ ≤ q.pos) (hgs1 : ∀ g ∈ gs1, g.end_ ≤ q.pos)
    (hown : ∀ n ∈ pre, n.endLine ≠ r.posLine) (hadj : r.endLine + 1 = q.at_.adj.line)
    (c : CommentRec) (hc : c ∈ r.comments) (a0 reason : String) (more : List String)
    (htext : parseDirectiveText c.text = some ("ignore", a0 :: reason :: more))
    (diags : List Diag) (allowed : String → Bool) (i : Nat) (hi : i < diags.length)
    (tok : SrcPos)
    (hrep : diags[i].pos.file = (displayPos tok).file ∧ diags[i].pos.line = (displayPos tok).line)
    (hraw : tok.raw.file = q.at_.raw.file ∧ tok.raw.line = q.at_.raw.line)
    (hadjtok : tok.adj.file = q.at_.adj.file ∧ tok.adj.line = q.at_.adj.line)
    (hname : ∃ name ∈ checksOf a0, glob name (lower diags[i].cat) = true) :
    ((kept diags (pipeline (pre ++ q :: post) (gs1 ++ r :: gs2)) allowed)[i]'(by
        rw [kept_length]; exact hi)).sev = .ignored := by
  rw [ignored_iff diags _ allowed i hi]
  right
  have hmem := commentMap_above pre post q gs1 gs2 r hpre hq hgs1 hown hadj
  have hd := display_same_line tok q.at_ hraw hadjtok
  refine ⟨⟨"ignore", a0 :: reason :: more, displayPos c.at_, displayPos q.at_⟩, ?_, ?_, ?_, ?_, ?_⟩
  · exact (mem_pipeline_iff _ _ _).mpr ⟨r, q, hmem, c, hc, _, _, htext, rfl⟩
  · exact ⟨Or.inl rfl, by simp⟩
  · exact hrep.1.trans hd.1
  · exact Or.inr (hrep.2.trans hd.2)
  · simpa [Directive.names] using hname

/-- **C10, nothing else suppresses**: a problem that was not ignored before leaves
`filterIgnored` ignored only if some `//lint:ignore`/`//lint:file-ignore` comment line with a
reason, associated by the comment map with a node `n`, is printed (`DisplayPosition`) in the
problem's file — on the problem's line unless it is a file directive — and names its check. -/
theorem suppressed_only_by_attached (nodes : List NodeRec) (groups : List GroupRec)
    (diags : List Diag) (allowed : String → Bool) (i : Nat) (hi : i < diags.length)
    (hnot : diags[i].sev ≠ .ignored)
    (h : ((kept diags (pipeline nodes groups) allowed)[i]'(by rw [kept_length]; exact hi)).sev = .ignored) :
    ∃ r n, (r, some n) ∈ commentMap nodes groups ∧ ∃ c ∈ r.comments, ∃ cmd a0 reason more,
      parseDirectiveText c.text = some (cmd, a0 :: reason :: more) ∧
      (cmd = "ignore" ∨ cmd = "file-ignore") ∧
      diags[i].pos.file = (displayPos n.at_).file ∧
      (cmd = "file-ignore" ∨ diags[i].pos.line = (displayPos n.at_).line) ∧
      ∃ name ∈ checksOf a0, glob name (lower diags[i].cat) = true := by
  rcases (ignored_iff diags _ allowed i hi).mp h with h0 | ⟨g, hg, hwf, hfile, hline, hnames⟩
  · exact absurd h0 hnot
  · obtain ⟨r, n, hrn, c, hc, cmd, args, hp, hgeq⟩ := (mem_pipeline_iff _ _ _).mp hg
    subst hgeq
    obtain ⟨hcmd, hlen⟩ := hwf
    match args, hlen with
    | a0 :: reason :: more, _ =>
      exact ⟨r, n, hrn, c, hc, cmd, a0, reason, more, hp, hcmd, hfile, hline, by simpa [Directive.names] using hnames⟩

example :
    let file : NodeRec := ⟨0, 0, 100, ⟨⟨"gen.go", 1, 1⟩, ⟨"gen.go", 1, 1⟩⟩, 6, true⟩
    let s1 : NodeRec := ⟨1, 20, 26, ⟨⟨"gen.go", 3, 2⟩, ⟨"gen.go", 3, 2⟩⟩, 3, true⟩
    let s2 : NodeRec := ⟨2, 60, 80, ⟨⟨"gen.go", 6, 2⟩, ⟨"tmpl.go", 41, 0⟩⟩, 42, true⟩
    let c0 : CommentRec := ⟨28, 40, ⟨⟨"gen.go", 4, 2⟩, ⟨"gen.go", 4, 2⟩⟩, 4, "// why"⟩
    let c : CommentRec := ⟨42, 58, ⟨⟨"gen.go", 5, 2⟩, ⟨"tmpl.go", 40, 0⟩⟩, 40, "//lint:ignore SA4000 r"⟩
    let d : Diag := ⟨⟨"tmpl.go", 41, 0⟩, "m", "SA4000", .error⟩
    pipeline [file, s1, s2] [⟨[c0, c]⟩] = [⟨"ignore", ["SA4000", "r"], ⟨"tmpl.go", 40, 0⟩, ⟨"tmpl.go", 41, 0⟩⟩] ∧
    ((kept [d] (pipeline [file, s1, s2] [⟨[c0, c]⟩]) (fun _ => true))[0]'(by simp [kept_length])).sev = .ignored := by
  decide

/-! ### Non-vacuity: the hypotheses of `commentMap_above` / `above_directive_suppresses` are met
by the facts of a real file (`gen.go`, a statement, a two-line comment group whose *second* line
is the directive, a statement remapped by `//line tmpl.go:40`). -/
namespace Ex
def file : NodeRec := ⟨0, 0, 100, ⟨⟨"gen.go", 1, 1⟩, ⟨"gen.go", 1, 1⟩⟩, 6, true⟩
def s1 : NodeRec := ⟨1, 20, 26, ⟨⟨"gen.go", 3, 2⟩, ⟨"gen.go", 3, 2⟩⟩, 3, true⟩
def s2 : NodeRec := ⟨2, 60, 80, ⟨⟨"gen.go", 6, 2⟩, ⟨"tmpl.go", 41, 0⟩⟩, 42, true⟩
def c0 : CommentRec := ⟨28, 40, ⟨⟨"gen.go", 4, 2⟩, ⟨"tmpl.go", 39, 0⟩⟩, 39, "// why"⟩
def c : CommentRec := ⟨42, 58, ⟨⟨"gen.go", 5, 2⟩, ⟨"tmpl.go", 40, 0⟩⟩, 40, "//lint:ignore SA4000 r"⟩
def d : Diag := ⟨⟨"tmpl.go", 41, 0⟩, "m", "SA4000", .error⟩
def tok : SrcPos := ⟨⟨"gen.go", 6, 5⟩, ⟨"tmpl.go", 41, 0⟩⟩

example : (⟨[c0, c]⟩, some s2) ∈ commentMap ([file, s1] ++ s2 :: []) ([] ++ ⟨[c0, c]⟩ :: []) :=
  commentMap_above [file, s1] [] s2 [] [] ⟨[c0, c]⟩ (by decide) (by decide) (by decide) (by decide) (by decide)

example : ((kept [d] (pipeline ([file, s1] ++ s2 :: []) ([] ++ ⟨[c0, c]⟩ :: [])) (fun _ => true))[0]'(by
    rw [kept_length]; decide)).sev = .ignored :=
  above_directive_suppresses [file, s1] [] s2 [] [] ⟨[c0, c]⟩ (by decide) (by decide) (by decide) (by decide)
    (by decide) c (by decide) "SA4000" "r" [] (by decide) [d] (fun _ => true) 0 (by decide) tok
    (by decide) (by decide) (by decide) (by decide)
end Ex

end Verif.C10
