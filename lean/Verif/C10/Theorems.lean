import Verif.C10.Model
/-!
Property theorems for C10 ("ignore directives suppress exactly what they name, nothing
else").  Section 1 holds the declarative specification, section 2 helper lemmas (not
property statements), section 3 the property theorems.
-/
namespace Verif.C10

/-! ## 1. Specification vocabulary -/

/-- A directive the linter accepts: `ignore` / `file-ignore` with a check list and a reason. -/
def Directive.wf (g : Directive) : Prop :=
  (g.cmd = "ignore" ∨ g.cmd = "file-ignore") ∧ 2 ≤ g.args.length

/-- The (case-folded) names of the first argument. -/
def Directive.names (g : Directive) : List String :=
  match g.args with
  | [] => []
  | a0 :: _ => checksOf a0

/-- The property's notion: directive `g` suppresses diagnostic `d` — `g` is well-formed,
`d` is in the file of the node `g` is attached to, on that node's line unless `g` is a
file directive, and one of `g`'s names glob-matches `d`'s check, case-folded. -/
def Directive.Suppresses (g : Directive) (d : Diag) : Prop :=
  g.wf ∧ d.pos.file = g.nodePos.file ∧
  (g.cmd = "file-ignore" ∨ d.pos.line = g.nodePos.line) ∧
  ∃ c ∈ g.names, glob c (lower d.cat) = true

instance (g : Directive) (d : Diag) : Decidable (g.Suppresses d) := by
  unfold Directive.Suppresses Directive.wf; infer_instance

/-- A line directive that suppressed nothing and names at least one enabled check other
than U1000. -/
def Directive.Useless (g : Directive) (diags : List Diag) (allowed : String → Bool) : Prop :=
  g.cmd = "ignore" ∧ g.wf ∧ (¬ ∃ d ∈ diags, g.Suppresses d) ∧
  ∃ c ∈ g.names, c ≠ "u1000" ∧ allowed c = true

instance (g : Directive) (diags : List Diag) (allowed : String → Bool) :
    Decidable (g.Useless diags allowed) := by
  unfold Directive.Useless Directive.wf; infer_instance

/-- A directive without a reason (fewer than two fields). -/
def Directive.Malformed (g : Directive) : Prop :=
  (g.cmd = "ignore" ∨ g.cmd = "file-ignore") ∧ g.args.length < 2

instance (g : Directive) : Decidable g.Malformed := by
  unfold Directive.Malformed; infer_instance

/-- what happens to one incoming diagnostic -/
def markBy (dirs : List Directive) (d : Diag) : Diag :=
  if ∃ g ∈ dirs, g.Suppresses d then { d with sev := .ignored } else d

def malformedOf (g : Directive) : Option Diag :=
  if g.Malformed then some (malformedDiag g) else none

def uselessOf (diags : List Diag) (allowed : String → Bool) (g : Directive) : Option Diag :=
  if g.Useless diags allowed then some (uselessDiag g.dirPos) else none

/-- The incoming diagnostics as they leave `filterIgnored` … -/
def kept (diags : List Diag) (dirs : List Directive) (allowed : String → Bool) : List Diag :=
  (filterIgnored diags dirs allowed).take diags.length

/-- … and the diagnostics `filterIgnored` adds. -/
def added (diags : List Diag) (dirs : List Directive) (allowed : String → Bool) : List Diag :=
  (filterIgnored diags dirs allowed).drop diags.length

/-! ## 2. Helper lemmas -/

theorem firstOfTwo_some {args : List String} {a0 : String} (h : firstOfTwo args = some a0) :
    ∃ a1 rest, args = a0 :: a1 :: rest := by
  rcases args with _ | ⟨x, _ | ⟨y, r⟩⟩ <;> simp [firstOfTwo] at h
  exact ⟨y, r, by rw [h]⟩

theorem firstOfTwo_none {args : List String} (h : firstOfTwo args = none) : args.length < 2 := by
  rcases args with _ | ⟨x, _ | ⟨y, r⟩⟩ <;> simp [firstOfTwo] at h ⊢

theorem firstOfTwo_isSome_iff (args : List String) : (firstOfTwo args).isSome = true ↔ 2 ≤ args.length := by
  rcases args with _ | ⟨x, _ | ⟨y, r⟩⟩ <;> simp [firstOfTwo]

def toIgnore (g : Directive) : Option Ignore :=
  if g.cmd = "ignore" ∨ g.cmd = "file-ignore" then
    match firstOfTwo g.args with
    | some a0 =>
      if g.cmd = "ignore" then
        some (Ignore.line g.nodePos.file g.nodePos.line (checksOf a0) g.dirPos)
      else some (Ignore.file g.nodePos.file (checksOf a0))
    | none => none
  else none

theorem parseStep_eq (acc : List Ignore × List Diag) (g : Directive) :
    parseStep acc g = (acc.1 ++ (toIgnore g).toList, acc.2 ++ (malformedOf g).toList) := by
  unfold parseStep toIgnore malformedOf Directive.Malformed
  by_cases hc : g.cmd = "ignore" ∨ g.cmd = "file-ignore"
  · cases hf : firstOfTwo g.args with
    | none =>
      have := firstOfTwo_none hf
      simp [hc, this]
    | some a0 =>
      obtain ⟨a1, rest, hargs⟩ := firstOfTwo_some hf
      by_cases hi : g.cmd = "ignore"
      · simp [hi, hargs]
      · have hfi : g.cmd = "file-ignore" := by rcases hc with h' | h'; exact absurd h' hi; exact h'
        simp [hfi, hargs]
  · simp [hc]

theorem parse_fold (dirs : List Directive) (acc : List Ignore × List Diag) :
    dirs.foldl parseStep acc =
      (acc.1 ++ dirs.filterMap toIgnore, acc.2 ++ dirs.filterMap malformedOf) := by
  induction dirs generalizing acc with
  | nil => simp
  | cons g gs ih =>
    rw [List.foldl_cons, ih, parseStep_eq]
    cases h1 : toIgnore g <;> cases h2 : malformedOf g <;> simp [h1, h2]

theorem parseDirectives_eq (dirs : List Directive) :
    parseDirectives dirs = (dirs.filterMap toIgnore, dirs.filterMap malformedOf) := by
  unfold parseDirectives; rw [parse_fold]; simp

/-- `match` looks at position and category only. -/
theorem matchB_sev (ig : Ignore) (d : Diag) (s : Sev) :
    ig.matchB { d with sev := s } = ig.matchB d := by
  cases ig <;> rfl

theorem checksMatch_iff (cs : List String) (cat : String) :
    checksMatch cs cat = true ↔ ∃ c ∈ cs, glob c (lower cat) = true := by
  simp [checksMatch, List.any_eq_true]

/-- what `toIgnore` returns, by cases -/
theorem toIgnore_cases (g : Directive) :
    (toIgnore g = none ∧ ¬ g.wf) ∨
    (∃ a0 a1 rest, g.args = a0 :: a1 :: rest ∧ g.cmd = "ignore" ∧
      toIgnore g = some (Ignore.line g.nodePos.file g.nodePos.line (checksOf a0) g.dirPos)) ∨
    (∃ a0 a1 rest, g.args = a0 :: a1 :: rest ∧ g.cmd = "file-ignore" ∧
      toIgnore g = some (Ignore.file g.nodePos.file (checksOf a0))) := by
  unfold toIgnore Directive.wf
  by_cases hc : g.cmd = "ignore" ∨ g.cmd = "file-ignore"
  · cases hf : firstOfTwo g.args with
    | none =>
      have := firstOfTwo_none hf
      left; simp [hc]; omega
    | some a0 =>
      obtain ⟨a1, rest, hargs⟩ := firstOfTwo_some hf
      by_cases hi : g.cmd = "ignore"
      · right; left; exact ⟨a0, a1, rest, hargs, hi, by simp [hi]⟩
      · have hfi : g.cmd = "file-ignore" := by rcases hc with h' | h'; exact absurd h' hi; exact h'
        right; right; exact ⟨a0, a1, rest, hargs, hfi, by simp [hfi]⟩
  · left; simp [hc]

theorem toIgnore_match (g : Directive) (ig : Ignore) (h : toIgnore g = some ig) (d : Diag) :
    ig.matchB d = true ↔ g.Suppresses d := by
  unfold Directive.Suppresses Directive.wf Directive.names
  rcases toIgnore_cases g with ⟨hn, _⟩ | ⟨a0, a1, rest, hargs, hi, hs⟩ | ⟨a0, a1, rest, hargs, hfi, hs⟩
  · rw [hn] at h; simp at h
  · rw [hs] at h
    have hf : g.cmd ≠ "file-ignore" := by rw [hi]; decide
    simp only [Option.some.injEq] at h
    subst h
    simp [Ignore.matchB, checksMatch_iff, hi, hargs]
    constructor
    · rintro ⟨⟨h1, h2⟩, h3⟩; exact ⟨h1, h2, h3⟩
    · rintro ⟨h1, h2, h3⟩; exact ⟨⟨h1, h2⟩, h3⟩
  · rw [hs] at h
    simp only [Option.some.injEq] at h
    subst h
    simp [Ignore.matchB, checksMatch_iff, hfi, hargs]

theorem toIgnore_none (g : Directive) (h : toIgnore g = none) (d : Diag) : ¬ g.Suppresses d := by
  rcases toIgnore_cases g with ⟨_, hn⟩ | ⟨a0, a1, rest, _, _, hs⟩ | ⟨a0, a1, rest, _, _, hs⟩
  · exact fun hs => hn hs.1
  · rw [hs] at h; simp at h
  · rw [hs] at h; simp at h

theorem any_match_iff (dirs : List Directive) (d : Diag) :
    (dirs.filterMap toIgnore).any (fun ig => ig.matchB d) = true ↔ ∃ g ∈ dirs, g.Suppresses d := by
  simp only [List.any_eq_true, List.mem_filterMap]
  constructor
  · rintro ⟨ig, ⟨g, hg, hig⟩, hm⟩
    exact ⟨g, hg, (toIgnore_match g ig hig d).1 hm⟩
  · rintro ⟨g, hg, hs⟩
    cases hig : toIgnore g with
    | none => exact absurd hs (toIgnore_none g hig d)
    | some ig => exact ⟨ig, ⟨g, hg, hig⟩, (toIgnore_match g ig hig d).2 hs⟩

def markByIgs (igs : List Ignore) (d : Diag) : Diag :=
  if igs.any (fun ig => ig.matchB d) then { d with sev := .ignored } else d

def uselessIg (allowed : String → Bool) (ds : List Diag) (ig : Ignore) : Option Diag :=
  match ig with
  | .line _ _ checks pos =>
    if !(ds.any ig.matchB) && couldHaveMatched allowed checks then some (uselessDiag pos) else none
  | .file _ _ => none

theorem any_markIgnored (ig ig' : Ignore) (ds : List Diag) :
    (markIgnored ig ds).any ig'.matchB = ds.any ig'.matchB := by
  unfold markIgnored
  rw [List.any_map]
  congr 1
  funext d
  simp only [Function.comp]
  split
  · exact matchB_sev ig' d .ignored
  · rfl

theorem uselessIg_markIgnored (allowed : String → Bool) (ig ig' : Ignore) (ds : List Diag) :
    uselessIg allowed (markIgnored ig ds) ig' = uselessIg allowed ds ig' := by
  cases ig' <;> simp [uselessIg, any_markIgnored]

theorem filterStep_eq (allowed : String → Bool) (st : List Diag × List Diag) (ig : Ignore) :
    filterStep allowed st ig = (markIgnored ig st.1, st.2 ++ (uselessIg allowed st.1 ig).toList) := by
  cases ig with
  | line f l cs p =>
    simp only [filterStep, uselessIg]
    split <;> simp
  | file f cs => simp [filterStep, uselessIg]

theorem markByIgs_cons (ig : Ignore) (igs : List Ignore) (d : Diag) :
    markByIgs igs (if ig.matchB d then { d with sev := .ignored } else d) = markByIgs (ig :: igs) d := by
  unfold markByIgs
  by_cases h : ig.matchB d = true
  · simp only [h, if_true, List.any_cons, Bool.true_or, matchB_sev]
    split <;> rfl
  · simp only [h, List.any_cons, Bool.false_eq_true, if_false]
    simp

theorem filter_fold (allowed : String → Bool) (igs : List Ignore) (ds more : List Diag) :
    igs.foldl (filterStep allowed) (ds, more) =
      (ds.map (markByIgs igs), more ++ igs.filterMap (uselessIg allowed ds)) := by
  induction igs generalizing ds more with
  | nil => simp; exact (List.map_id' ds).symm
  | cons ig igs ih =>
    rw [List.foldl_cons, filterStep_eq, ih]
    refine Prod.ext ?_ ?_
    · simp only [markIgnored, List.map_map]
      congr 1
      funext d
      exact markByIgs_cons ig igs d
    · simp only [List.filterMap_cons]
      have : igs.filterMap (uselessIg allowed (markIgnored ig ds)) = igs.filterMap (uselessIg allowed ds) := by
        congr 1; funext ig'; exact uselessIg_markIgnored allowed ig ig' ds
      rw [this]
      cases uselessIg allowed ds ig <;> simp

theorem couldHaveMatched_iff (allowed : String → Bool) (cs : List String) :
    couldHaveMatched allowed cs = true ↔ ∃ c ∈ cs, c ≠ "u1000" ∧ allowed c = true := by
  induction cs with
  | nil => simp [couldHaveMatched]
  | cons c cs ih =>
    unfold couldHaveMatched
    by_cases h1 : c = "u1000"
    · simp only [h1, if_true, ih, List.mem_cons]
      constructor
      · rintro ⟨x, hx, hp⟩; exact ⟨x, Or.inr hx, hp⟩
      · rintro ⟨x, hx | hx, hp⟩
        · exact absurd hx hp.1
        · exact ⟨x, hx, hp⟩
    · by_cases h2 : allowed c = true
      · simp only [h1, h2, if_true, if_false, true_iff]
        exact ⟨c, List.mem_cons_self, h1, h2⟩
      · simp only [h1, h2, if_false, ih, List.mem_cons, Bool.false_eq_true]
        constructor
        · rintro ⟨x, hx, hp⟩; exact ⟨x, Or.inr hx, hp⟩
        · rintro ⟨x, hx | hx, hp⟩
          · subst hx; exact absurd hp.2 h2
          · exact ⟨x, hx, hp⟩

theorem uselessIg_toIgnore (allowed : String → Bool) (diags : List Diag) (g : Directive) :
    (toIgnore g).bind (uselessIg allowed diags) = uselessOf diags allowed g := by
  rcases toIgnore_cases g with ⟨hn, hnwf⟩ | ⟨a0, a1, rest, hargs, hi, hs⟩ | ⟨a0, a1, rest, hargs, hfi, hs⟩
  · simp [hn, uselessOf, Directive.Useless, hnwf]
  · have hm := toIgnore_match g _ hs
    have hwf : g.wf := ⟨Or.inl hi, by simp [hargs]⟩
    have hany : diags.any (Ignore.line g.nodePos.file g.nodePos.line (checksOf a0) g.dirPos).matchB = true ↔
        ∃ d ∈ diags, g.Suppresses d := by
      simp only [List.any_eq_true, hm]
    have hnames : g.names = checksOf a0 := by simp [Directive.names, hargs]
    rw [hs]
    simp only [Option.bind_some, uselessIg, uselessOf, Directive.Useless, hi, hwf, true_and, hnames]
    by_cases hA : ∃ d ∈ diags, g.Suppresses d
    · have := hany.2 hA
      simp [this, hA]
    · have hf : diags.any (Ignore.line g.nodePos.file g.nodePos.line (checksOf a0) g.dirPos).matchB = false := by
        cases hb : diags.any (Ignore.line g.nodePos.file g.nodePos.line (checksOf a0) g.dirPos).matchB
        · rfl
        · exact absurd (hany.1 hb) hA
      simp only [hf, Bool.not_false, Bool.true_and, hA, not_false_eq_true, true_and]
      by_cases hC : couldHaveMatched allowed (checksOf a0) = true
      · have := (couldHaveMatched_iff allowed _).1 hC
        simp [hC, this]
      · have hC' : ¬ ∃ c ∈ checksOf a0, c ≠ "u1000" ∧ allowed c = true :=
          fun h => hC ((couldHaveMatched_iff allowed _).2 h)
        simp [hC, hC']
  · have hni : g.cmd ≠ "ignore" := by rw [hfi]; decide
    rw [hs]
    simp [uselessIg, uselessOf, Directive.Useless, hni]

theorem markByIgs_eq (dirs : List Directive) (d : Diag) :
    markByIgs (dirs.filterMap toIgnore) d = markBy dirs d := by
  unfold markByIgs markBy
  by_cases h : ∃ g ∈ dirs, g.Suppresses d
  · simp [(any_match_iff dirs d).2 h, h]
  · have : ¬ ((dirs.filterMap toIgnore).any (fun ig => ig.matchB d) = true) :=
      fun hh => h ((any_match_iff dirs d).1 hh)
    simp [this, h]

/-- The transliterated loops compute the specification. -/
theorem filterIgnored_eq (diags : List Diag) (dirs : List Directive) (allowed : String → Bool) :
    filterIgnored diags dirs allowed =
      diags.map (markBy dirs) ++
        (dirs.filterMap malformedOf ++ dirs.filterMap (uselessOf diags allowed)) := by
  unfold filterIgnored
  simp only [parseDirectives_eq, filter_fold]
  congr 1
  · congr 1; funext d; exact markByIgs_eq dirs d
  · congr 1
    rw [List.filterMap_filterMap]
    congr 1; funext g
    exact uselessIg_toIgnore allowed diags g

theorem kept_eq (diags : List Diag) (dirs : List Directive) (allowed : String → Bool) :
    kept diags dirs allowed = diags.map (markBy dirs) := by
  unfold kept; rw [filterIgnored_eq]; simp

/-! ## 3. Property theorems -/

/-- **Nothing but the two kinds of directive problems is added**: `filterIgnored` returns
the incoming diagnostics (same number, same order) followed by one `compile` error per
malformed directive and one "didn't match anything" problem per useless line directive. -/
theorem added_eq (diags : List Diag) (dirs : List Directive) (allowed : String → Bool) :
    added diags dirs allowed =
      dirs.filterMap malformedOf ++ dirs.filterMap (uselessOf diags allowed) := by
  unfold added; rw [filterIgnored_eq]; simp

theorem kept_length (diags : List Diag) (dirs : List Directive) (allowed : String → Bool) :
    (kept diags dirs allowed).length = diags.length := by
  rw [kept_eq]; simp

/-- **C10, suppression is exact**: the i-th incoming diagnostic leaves `filterIgnored`
ignored iff it already was or there is a well-formed directive attached to a node in the
same file — on the same line unless it is a file directive — one of whose names
glob-matches the diagnostic's check, case-folded.  For all diagnostic lists, directive
lists and check selections. -/
theorem ignored_iff (diags : List Diag) (dirs : List Directive) (allowed : String → Bool)
    (i : Nat) (h : i < diags.length) :
    ((kept diags dirs allowed)[i]'(by rw [kept_length]; exact h)).sev = .ignored ↔
      diags[i].sev = .ignored ∨
      ∃ g ∈ dirs, g.wf ∧ diags[i].pos.file = g.nodePos.file ∧
        (g.cmd = "file-ignore" ∨ diags[i].pos.line = g.nodePos.line) ∧
        ∃ c ∈ g.names, glob c (lower diags[i].cat) = true := by
  simp only [kept_eq, List.getElem_map]
  show (markBy dirs diags[i]).sev = .ignored ↔ diags[i].sev = .ignored ∨ ∃ g ∈ dirs, g.Suppresses diags[i]
  unfold markBy
  by_cases hs : ∃ g ∈ dirs, g.Suppresses diags[i]
  · simp [hs]
  · simp [hs]

example :
    let d : Diag := ⟨⟨"a.go", 5, 2⟩, "m", "SA4000", .error⟩
    let g : Directive := ⟨"ignore", ["sa4*,S1002", "why"], ⟨"a.go", 4, 2⟩, ⟨"a.go", 5, 2⟩⟩
    ((kept [d] [g] (fun _ => true))[0]'(by simp [kept_length])).sev = .ignored := by decide

/-- **C10, nothing else changes**: the incoming diagnostics come out in the same number
and order, every one with the same position, message and check; a diagnostic no directive
suppresses comes out identical, a suppressed one differs in `Severity` only. -/
theorem others_unchanged (diags : List Diag) (dirs : List Directive) (allowed : String → Bool) :
    (kept diags dirs allowed).length = diags.length ∧
    ∀ (i : Nat) (h : i < diags.length),
      let d' := (kept diags dirs allowed)[i]'(by rw [kept_length]; exact h)
      d'.pos = diags[i].pos ∧ d'.msg = diags[i].msg ∧ d'.cat = diags[i].cat ∧
      (d' = diags[i] ∨ d' = { diags[i] with sev := .ignored }) ∧
      ((¬ ∃ g ∈ dirs, g.Suppresses diags[i]) → d' = diags[i]) := by
  refine ⟨kept_length diags dirs allowed, ?_⟩
  intro i h
  simp only [kept_eq, List.getElem_map]
  unfold markBy
  by_cases hs : ∃ g ∈ dirs, g.Suppresses diags[i]
  · simp [hs]
  · simp [hs]

example :
    let d1 : Diag := ⟨⟨"a.go", 5, 2⟩, "m", "SA4000", .error⟩
    let d2 : Diag := ⟨⟨"b.go", 5, 2⟩, "m", "SA4000", .error⟩
    let d3 : Diag := ⟨⟨"a.go", 5, 9⟩, "m", "S1002", .error⟩
    let g : Directive := ⟨"ignore", ["SA4000", "why"], ⟨"a.go", 4, 2⟩, ⟨"a.go", 5, 2⟩⟩
    filterIgnored [d1, d2, d3] [g] (fun _ => true) = [{ d1 with sev := .ignored }, d2, d3] := by
  decide

theorem suppresses_sev (g : Directive) (d : Diag) (s : Sev) :
    g.Suppresses { d with sev := s } ↔ g.Suppresses d := by
  unfold Directive.Suppresses; exact Iff.rfl

theorem markBy_insert (pre post : List Directive) (g : Directive) (d : Diag) :
    markBy (pre ++ g :: post) d =
      (if g.Suppresses (markBy (pre ++ post) d) then { markBy (pre ++ post) d with sev := .ignored }
       else markBy (pre ++ post) d) := by
  have hmem : (∃ g' ∈ pre ++ g :: post, g'.Suppresses d) ↔
      (g.Suppresses d ∨ ∃ g' ∈ pre ++ post, g'.Suppresses d) := by
    constructor
    · rintro ⟨g', hm, hs⟩
      simp only [List.mem_append, List.mem_cons] at hm
      rcases hm with hm | hm | hm
      · exact Or.inr ⟨g', by simp [hm], hs⟩
      · subst hm; exact Or.inl hs
      · exact Or.inr ⟨g', by simp [hm], hs⟩
    · rintro (hs | ⟨g', hm, hs⟩)
      · exact ⟨g, by simp, hs⟩
      · simp only [List.mem_append] at hm
        rcases hm with hm | hm
        · exact ⟨g', by simp [hm], hs⟩
        · exact ⟨g', by simp [hm], hs⟩
  unfold markBy
  by_cases h2 : ∃ g' ∈ pre ++ post, g'.Suppresses d
  · have h1 := hmem.2 (Or.inr h2)
    rw [if_pos h1, if_pos h2]
    split <;> rfl
  · rw [if_neg h2]
    by_cases hg : g.Suppresses d
    · rw [if_pos (hmem.2 (Or.inl hg)), if_pos hg]
    · have h1 : ¬ ∃ g' ∈ pre ++ g :: post, g'.Suppresses d := fun h => by
        rcases hmem.1 h with h | h
        · exact hg h
        · exact h2 h
      rw [if_neg h1, if_neg hg]

/-- **C10, metamorphic form**: inserting one directive `g` anywhere into the directives of a
package changes the fate of the incoming diagnostics in exactly one way: those that `g`
suppresses become ignored; every other diagnostic leaves `filterIgnored` exactly as it did
without `g`. -/
theorem insert_directive (diags : List Diag) (pre post : List Directive) (g : Directive)
    (allowed : String → Bool) :
    kept diags (pre ++ g :: post) allowed =
      (kept diags (pre ++ post) allowed).map
        (fun d => if g.Suppresses d then { d with sev := .ignored } else d) := by
  simp only [kept_eq, List.map_map]
  apply List.map_congr_left
  intro d _
  exact markBy_insert pre post g d

example :
    let d1 : Diag := ⟨⟨"a.go", 5, 2⟩, "m", "SA4000", .error⟩
    let d2 : Diag := ⟨⟨"a.go", 6, 2⟩, "m", "SA4000", .error⟩
    let g : Directive := ⟨"ignore", ["sa4*", "why"], ⟨"a.go", 4, 2⟩, ⟨"a.go", 5, 2⟩⟩
    kept [d1, d2] [g] (fun _ => true) = [{ d1 with sev := .ignored }, d2] := by decide

/-- … and the only problems the insertion can add are `g`'s own: the malformed-directive
error or the "didn't match anything" problem; the problems reported for the other directives
stay (being useless depends on the directive itself and the incoming diagnostics only). -/
theorem insert_directive_added (diags : List Diag) (pre post : List Directive) (g : Directive)
    (allowed : String → Bool) (x : Diag) :
    x ∈ added diags (pre ++ g :: post) allowed ↔
      x ∈ added diags (pre ++ post) allowed ∨ malformedOf g = some x ∨
        uselessOf diags allowed g = some x := by
  simp only [added_eq, List.mem_append, List.mem_filterMap, List.mem_cons]
  constructor
  · rintro (⟨g', hm | hm | hm, h⟩ | ⟨g', hm | hm | hm, h⟩)
    · exact Or.inl (Or.inl ⟨g', Or.inl hm, h⟩)
    · subst hm; exact Or.inr (Or.inl h)
    · exact Or.inl (Or.inl ⟨g', Or.inr hm, h⟩)
    · exact Or.inl (Or.inr ⟨g', Or.inl hm, h⟩)
    · subst hm; exact Or.inr (Or.inr h)
    · exact Or.inl (Or.inr ⟨g', Or.inr hm, h⟩)
  · rintro ((⟨g', hm | hm, h⟩ | ⟨g', hm | hm, h⟩) | h | h)
    · exact Or.inl ⟨g', Or.inl hm, h⟩
    · exact Or.inl ⟨g', Or.inr (Or.inr hm), h⟩
    · exact Or.inr ⟨g', Or.inl hm, h⟩
    · exact Or.inr ⟨g', Or.inr (Or.inr hm), h⟩
    · exact Or.inl ⟨g, Or.inr (Or.inl rfl), h⟩
    · exact Or.inr ⟨g, Or.inr (Or.inl rfl), h⟩

/-- **C10, a directive without a reason is an error and suppresses nothing**: a directive
`ignore`/`file-ignore` with fewer than two fields yields a `compile` error at the position
of the node it is attached to, suppresses no diagnostic, is never reported as useless, and
removing it leaves the fate of every incoming diagnostic unchanged. -/
theorem no_reason_is_error (diags : List Diag) (pre post : List Directive) (g : Directive)
    (allowed : String → Bool) (hcmd : g.cmd = "ignore" ∨ g.cmd = "file-ignore")
    (hargs : g.args.length < 2) :
    (⟨g.nodePos, malformedMsg, "compile", .error⟩ : Diag) ∈ added diags (pre ++ g :: post) allowed ∧
    (∀ d, ¬ g.Suppresses d) ∧
    ¬ g.Useless diags allowed ∧
    kept diags (pre ++ g :: post) allowed = kept diags (pre ++ post) allowed := by
  have hns : ∀ d, ¬ g.Suppresses d := by
    intro d hs
    have := hs.1.2
    omega
  refine ⟨?_, hns, ?_, ?_⟩
  · rw [added_eq]
    apply List.mem_append_left
    rw [List.mem_filterMap]
    exact ⟨g, by simp, by simp [malformedOf, Directive.Malformed, hcmd, hargs, malformedDiag]⟩
  · intro hu
    have := hu.2.1.2
    omega
  · simp only [kept_eq]
    congr 1
    funext d
    unfold markBy
    have : (∃ g' ∈ pre ++ g :: post, g'.Suppresses d) ↔ (∃ g' ∈ pre ++ post, g'.Suppresses d) := by
      constructor
      · rintro ⟨g', hm, hs⟩
        simp only [List.mem_append, List.mem_cons] at hm
        rcases hm with hm | hm | hm
        · exact ⟨g', by simp [hm], hs⟩
        · subst hm; exact absurd hs (hns d)
        · exact ⟨g', by simp [hm], hs⟩
      · rintro ⟨g', hm, hs⟩
        simp only [List.mem_append] at hm
        rcases hm with hm | hm
        · exact ⟨g', by simp [hm], hs⟩
        · exact ⟨g', by simp [hm], hs⟩
    simp only [this]

example :
    let d : Diag := ⟨⟨"a.go", 5, 2⟩, "m", "SA4000", .error⟩
    let g : Directive := ⟨"ignore", ["SA4000"], ⟨"a.go", 4, 2⟩, ⟨"a.go", 5, 2⟩⟩
    filterIgnored [d] [g] (fun _ => true) = [d, ⟨⟨"a.go", 5, 2⟩, malformedMsg, "compile", .error⟩] := by
  decide

/-- **C10, useless line directives**: a directive (identified by its comment position) is
reported as "didn't match anything" iff it is a well-formed *line* directive that
suppressed none of the incoming diagnostics and names at least one enabled check other
than U1000 — i.e. it is reported unless it names only disabled checks or U1000,
irrespective of the order of the names. -/
theorem useless_reported_iff (diags : List Diag) (dirs : List Directive) (allowed : String → Bool)
    (g : Directive) (hg : g ∈ dirs) (hpos : ∀ g' ∈ dirs, g'.dirPos = g.dirPos → g' = g) :
    (⟨g.dirPos, uselessMsg, "staticcheck", .error⟩ : Diag) ∈ added diags dirs allowed ↔
      g.cmd = "ignore" ∧ g.wf ∧ (¬ ∃ d ∈ diags, g.Suppresses d) ∧
      ∃ c ∈ g.names, c ≠ "u1000" ∧ allowed c = true := by
  rw [added_eq]
  show _ ↔ g.Useless diags allowed
  simp only [List.mem_append, List.mem_filterMap]
  constructor
  · rintro (⟨g', _, h⟩ | ⟨g', hg', h⟩)
    · unfold malformedOf at h
      split at h
      · simp [malformedDiag] at h
      · simp at h
    · unfold uselessOf at h
      split at h
      · rename_i hu
        simp only [Option.some.injEq, uselessDiag, Diag.mk.injEq, and_true] at h
        rw [hpos g' hg' h] at hu
        exact hu
      · simp at h
  · intro hu
    exact Or.inr ⟨g, hg, by simp [uselessOf, hu, uselessDiag]⟩

example :
    let d : Diag := ⟨⟨"a.go", 9, 2⟩, "m", "SA4000", .error⟩
    let g : Directive := ⟨"ignore", ["U1000,SA4006", "why"], ⟨"a.go", 4, 2⟩, ⟨"a.go", 5, 2⟩⟩
    let allowed : String → Bool := fun c => c == "sa4006" || c == "sa4000"
    filterIgnored [d] [g] allowed = [d, ⟨⟨"a.go", 4, 2⟩, uselessMsg, "staticcheck", .error⟩] := by
  decide

/-- The order of the names in a directive is irrelevant for the useless-directive report. -/
theorem couldHaveMatched_perm (allowed : String → Bool) (cs cs' : List String) (h : cs.Perm cs') :
    couldHaveMatched allowed cs = couldHaveMatched allowed cs' := by
  have : couldHaveMatched allowed cs = true ↔ couldHaveMatched allowed cs' = true := by
    rw [couldHaveMatched_iff, couldHaveMatched_iff]
    constructor
    · rintro ⟨c, hc, hp⟩; exact ⟨c, h.mem_iff.1 hc, hp⟩
    · rintro ⟨c, hc, hp⟩; exact ⟨c, h.mem_iff.2 hc, hp⟩
  cases h1 : couldHaveMatched allowed cs <;> cases h2 : couldHaveMatched allowed cs' <;> simp_all

example : couldHaveMatched (fun c => c == "sa4006") ["u1000", "sa4006"] = true ∧
    couldHaveMatched (fun c => c == "sa4006") ["sa4006", "u1000"] = true := by decide

/-- Diagnostics of disabled checks never enter `filterIgnored`; the others pass `success`
unchanged and in order. -/
theorem success_spec (allowed : String → Bool) (raw : List Diag) :
    (success allowed raw).Sublist raw ∧
    ∀ d, d ∈ success allowed raw ↔ d ∈ raw ∧ allowed (lower d.cat) = true := by
  unfold success
  exact ⟨List.filter_sublist, fun d => by simp [List.mem_filter]⟩

example : success (fun c => c == "sa4000")
    [⟨⟨"a.go", 1, 1⟩, "m", "SA4000", .error⟩, ⟨⟨"a.go", 2, 1⟩, "m", "ST1003", .error⟩] =
    [⟨⟨"a.go", 1, 1⟩, "m", "SA4000", .error⟩] := by decide

/-- The U1000 graph honours a directive for an object at `file:line` exactly when the
directive would suppress a `U1000` diagnostic at that position — the same rule as for
every other check (reason required, case-folded glob names, same file, same line unless
file directive). -/
theorem u1000_ignores_iff (g : Directive) (file : String) (line col : Nat) (msg : String) (s : Sev) :
    u1000Ignores g file line = true ↔ g.Suppresses ⟨⟨file, line, col⟩, msg, "U1000", s⟩ := by
  unfold u1000Ignores Directive.Suppresses Directive.wf Directive.names
  cases hf : firstOfTwo g.args with
  | none =>
    have := firstOfTwo_none hf
    simp; intro _ h2; omega
  | some a0 =>
    obtain ⟨a1, rest, hargs⟩ := firstOfTwo_some hf
    simp only [hargs, checksMatch_iff, Bool.and_eq_true, Bool.or_eq_true, decide_eq_true_eq,
      List.length_cons]
    constructor
    · rintro ⟨⟨⟨h1, h2⟩, h3⟩, h4⟩
      exact ⟨⟨h1, by omega⟩, h3.symm, h4.imp id Eq.symm, h2⟩
    · rintro ⟨⟨h1, _⟩, h3, h4, h2⟩
      exact ⟨⟨⟨h1, h2⟩, h3.symm⟩, h4.imp id Eq.symm⟩

example : u1000Ignores ⟨"ignore", ["u1*", "why"], ⟨"a.go", 4, 1⟩, ⟨"a.go", 5, 1⟩⟩ "a.go" 5 = true ∧
    u1000Ignores ⟨"ignore", ["U1000"], ⟨"a.go", 4, 1⟩, ⟨"a.go", 5, 1⟩⟩ "a.go" 5 = false := by decide

/-! ### the `ignores` map of unused/unused.go (transliterated loop `u1000Keys`) -/

theorem lower_U1000 : lower "U1000" = "u1000" := by decide

theorem checksMatch_checksOf_U1000 (a0 : String) :
    checksMatch (checksOf a0) "U1000" =
      (splitOnChar ',' a0).any (fun check => glob (lower check) "u1000") := by
  simp [checksMatch, checksOf, List.any_map, lower_U1000, Function.comp_def]

/-- the key a directive puts into `ignores` covers `file:line` iff `u1000Ignores` says so -/
theorem u1000Key_iff (g : Directive) (file : String) (line : Nat) :
    (u1000Key g = some (file, some line) ∨ u1000Key g = some (file, none)) ↔
      u1000Ignores g file line = true := by
  unfold u1000Key u1000Ignores
  by_cases hi : g.cmd = "ignore"
  · cases hf : firstOfTwo g.args with
    | none => simp [hi]
    | some a0 =>
      simp only [checksMatch_checksOf_U1000]
      by_cases hm : (splitOnChar ',' a0).any (fun check => glob (lower check) "u1000") = true
      · simp [hi, hm]
      · simp [hi, hm]
  · by_cases hfi : g.cmd = "file-ignore"
    · cases hf : firstOfTwo g.args with
      | none => simp [hfi]
      | some a0 =>
        simp only [checksMatch_checksOf_U1000]
        by_cases hm : (splitOnChar ',' a0).any (fun check => glob (lower check) "u1000") = true
        · simp [hfi, hm]
        · simp [hfi, hm]
    · simp [hi, hfi]

theorem u1000_used_iff (dirs : List Directive) (file : String) (line : Nat) :
    u1000Used (u1000Keys dirs) file line = true ↔ ∃ g ∈ dirs, u1000Ignores g file line = true := by
  unfold u1000Used u1000Keys
  simp only [Bool.or_eq_true, List.contains_iff_mem, List.mem_filterMap]
  constructor
  · rintro (⟨g, hg, hk⟩ | ⟨g, hg, hk⟩)
    · exact ⟨g, hg, (u1000Key_iff g file line).1 (Or.inl hk)⟩
    · exact ⟨g, hg, (u1000Key_iff g file line).1 (Or.inr hk)⟩
  · rintro ⟨g, hg, hu⟩
    rcases (u1000Key_iff g file line).2 hu with hk | hk
    · exact Or.inl ⟨g, hg, hk⟩
    · exact Or.inr ⟨g, hg, hk⟩

/-- **C10, U1000**: the loop of `unused.(*graph).entry` marks the object declared at
`file:line` as used because of a directive iff some directive of the package would suppress a
`U1000` problem at that position by the rule that holds for every other check: reason
present, same file, same line unless it is a file directive, one of its names glob-matching
`u1000` after case folding.  (What else becomes used through that object is the U1000 graph's
business and outside this model — the statement's "U1000 aside".) -/
theorem u1000_marked_iff (dirs : List Directive) (objs : List (String × Nat)) (file : String)
    (line col : Nat) (msg : String) (s : Sev) :
    (file, line) ∈ u1000Marked dirs objs ↔
      (file, line) ∈ objs ∧ ∃ g ∈ dirs, g.Suppresses ⟨⟨file, line, col⟩, msg, "U1000", s⟩ := by
  unfold u1000Marked
  simp only [List.mem_filter, u1000_used_iff, u1000_ignores_iff _ file line col msg s]

example :
    u1000Marked [⟨"ignore", ["sa4000,U10*", "why"], ⟨"a.go", 4, 1⟩, ⟨"a.go", 5, 1⟩⟩,
                 ⟨"file-ignore", ["u1000", "generated"], ⟨"b.go", 1, 1⟩, ⟨"b.go", 3, 1⟩⟩,
                 ⟨"ignore", ["U1000"], ⟨"a.go", 6, 1⟩, ⟨"a.go", 7, 1⟩⟩]
      [("a.go", 5), ("a.go", 7), ("a.go", 9), ("b.go", 7), ("c.go", 5)] =
      [("a.go", 5), ("b.go", 7)] := by decide

/-- **C10, a U1000 directive without a reason suppresses nothing** in the U1000 graph either:
it contributes no key to `ignores`. -/
theorem u1000_no_reason (pre post : List Directive) (g : Directive) (hargs : g.args.length < 2) :
    u1000Keys (pre ++ g :: post) = u1000Keys (pre ++ post) := by
  have : u1000Key g = none := by
    unfold u1000Key
    rcases hg : g.args with _ | ⟨x, _ | ⟨y, r⟩⟩
    · simp [firstOfTwo]
    · simp [firstOfTwo]
    · rw [hg] at hargs; simp at hargs; omega
  simp [u1000Keys, List.filterMap_append, this]

example : u1000Keys [⟨"ignore", ["U1000"], ⟨"a.go", 4, 1⟩, ⟨"a.go", 5, 1⟩⟩] = [] ∧
    u1000Keys [⟨"ignore", ["U1000", "r"], ⟨"a.go", 4, 1⟩, ⟨"a.go", 5, 1⟩⟩] = [("a.go", some 5)] := by
  decide

/-! ### the comment text: `analysis/lint.parseDirective` -/

/-- `strings.Join` on character lists -/
def joinChars (sep : Char) : List (List Char) → List Char
  | [] => []
  | [x] => x
  | x :: y :: r => x ++ sep :: joinChars sep (y :: r)

theorem splitChars_nosep (sep : Char) (x : List Char) (hx : sep ∉ x) : splitChars sep x = [x] := by
  induction x with
  | nil => rfl
  | cons c cs ih =>
    have hc : c ≠ sep := fun h => hx (by simp [h])
    have hcs : sep ∉ cs := fun h => hx (List.mem_cons_of_mem _ h)
    simp [splitChars, hc, ih hcs]

theorem splitChars_append_sep (sep : Char) (x rest : List Char) (hx : sep ∉ x) :
    splitChars sep (x ++ sep :: rest) = x :: splitChars sep rest := by
  induction x with
  | nil => simp [splitChars]
  | cons c cs ih =>
    have hc : c ≠ sep := fun h => hx (by simp [h])
    have hcs : sep ∉ cs := fun h => hx (List.mem_cons_of_mem _ h)
    simp [splitChars, hc, ih hcs]

theorem splitChars_join (sep : Char) (x : List Char) (xs : List (List Char))
    (h : ∀ y ∈ x :: xs, sep ∉ y) : splitChars sep (joinChars sep (x :: xs)) = x :: xs := by
  induction xs generalizing x with
  | nil => exact splitChars_nosep sep x (h x List.mem_cons_self)
  | cons y ys ih =>
    simp only [joinChars]
    rw [splitChars_append_sep sep x _ (h x List.mem_cons_self)]
    rw [ih y (fun z hz => h z (List.mem_cons_of_mem _ hz))]

theorem stripPrefix_append (p s : List Char) : stripPrefix p (p ++ s) = some s := by
  induction p with
  | nil => cases s <;> rfl
  | cons c cs ih => simp [stripPrefix, ih]

/-- **C10, reading the comment**: a comment `//lint:<cmd> <field> … <field>` whose fields are
separated by single spaces is read as exactly that command and those fields; so the
directive has a reason (is well-formed for `parseDirectives`) iff at least two fields follow
the command — `//lint:ignore SA4000` alone is malformed whatever the names are. -/
theorem parseDirectiveText_fields (cmd : List Char) (args : List (List Char))
    (h : ∀ y ∈ cmd :: args, ' ' ∉ y) :
    parseDirectiveText (String.ofList ("//lint:".toList ++ joinChars ' ' (cmd :: args))) =
      some (String.ofList cmd, args.map String.ofList) := by
  unfold parseDirectiveText
  simp only [String.toList_ofList, stripPrefix_append, splitChars_join ' ' cmd args h, List.map_cons]

example : parseDirectiveText "//lint:ignore SA4000,U1000 some reason" =
    some ("ignore", ["SA4000,U1000", "some", "reason"]) ∧
    parseDirectiveText "//lint:ignore SA4000" = some ("ignore", ["SA4000"]) ∧
    parseDirectiveText "// lint:ignore SA4000 r" = none := by decide

/-! ### sanity of the glob model -/

theorem anySuffix_of_nil (f : List Char → Bool) (h : f [] = true) (s : List Char) :
    anySuffix f s = true := by
  induction s with
  | nil => simpa [anySuffix] using h
  | cons c s ih => simp [anySuffix, ih]

theorem glob_star (s : List Char) : globMatch ['*'] s = true := by
  have : tokenize 2 ['*'] = some [GTok.star] := by decide
  simp only [globMatch, List.length_singleton, this]
  exact anySuffix_of_nil _ (by simp [matchToks]) s

/-- a pattern without `*`, `?`, `[`, `\` matches exactly itself -/
theorem tokenize_literal (p : List Char) (h : ∀ c ∈ p, c ≠ '*' ∧ c ≠ '?' ∧ c ≠ '[' ∧ c ≠ '\\')
    (fuel : Nat) (hf : p.length < fuel) : tokenize fuel p = some (p.map GTok.lit) := by
  induction p generalizing fuel with
  | nil =>
    cases fuel with
    | zero => omega
    | succ f => simp [tokenize]
  | cons c p ih =>
    cases fuel with
    | zero => omega
    | succ f =>
      have hc := h c List.mem_cons_self
      have := ih (fun d hd => h d (List.mem_cons_of_mem _ hd)) f (by simp at hf; omega)
      simp [tokenize, hc.1, hc.2.1, hc.2.2.1, hc.2.2.2, this]

theorem matchToks_lits (p s : List Char) : matchToks (p.map GTok.lit) s = true ↔ p = s := by
  induction p generalizing s with
  | nil => cases s <;> simp [matchToks]
  | cons c p ih =>
    cases s with
    | nil => simp [matchToks]
    | cons d s => simp [matchToks, ih]

theorem glob_literal (p s : List Char) (h : ∀ c ∈ p, c ≠ '*' ∧ c ≠ '?' ∧ c ≠ '[' ∧ c ≠ '\\') :
    globMatch p s = true ↔ p = s := by
  simp only [globMatch, tokenize_literal p h (p.length + 1) (by omega)]
  exact matchToks_lits p s

example : glob "sa4*" "sa4000" = true ∧ glob "s?4000" "sa4000" = true ∧ glob "sa4" "sa4000" = false := by decide

example : glob "sa[14]000" "sa4000" = true ∧ glob "sa[^14]000" "sa4000" = false ∧ glob "sa400[0-9]" "sa4006" = true ∧
    glob "sa[" "sa[" = false ∧ glob "sa[]000" "sa]000" = false ∧ glob "sa4\\000" "sa4000" = true ∧
    glob "sa4000\\" "sa4000" = false ∧ glob "[a-]" "a" = false ∧ glob "\\*" "*" = true ∧ glob "[*]" "*" = true := by
  decide

end Verif.C10
