import Verif.C10.Model
/-!
C10 — from the comments of a file to the serialized directives `filterIgnored` reads.

* `go/ast.NewCommentMap` as used by `lint.ParseDirectives` (`ast.NewCommentMap(fset, f, f.Comments)`)
  ↦ `popStack`, `assocOf`, `drain`, `stepNode`, `commentMap`: a transliteration of the loop over
  the node list (pre-order, `ast.Inspect`) with the comment reader, the previous node `p`, the
  previous node group `pg` and the stack of "important" nodes.  Nodes and comments are abstract
  records holding exactly what the algorithm reads: byte offsets of `Pos()`/`End()`, the lines
  `fset.Position(…).Line` (adjusted by `//line`) and whether the node is a
  `*File, *Field, Decl, Spec, Stmt`.
* `analysis/lint/lint.go:ParseDirectives` ↦ `parseCM` (the three nested loops over the comment
  map: node → comment groups → comment lines; **every** line with the prefix `//lint:` yields a
  directive whatever its index in its group) and `parseAssigned` (the same over the
  (group, node) pairs `commentMap` produces).
* `analysis/report/report.go:DisplayPosition` ↦ `displayPos` (adjusted position iff it points
  into a `.go` file, else the raw one).
* `lintcmd/runner/runner.go:serializeDirective` ↦ `serialize`.
* `pipeline` = `ParseDirectives` followed by `serializeDirective` for one file.

Core Lean only (compiled into `c10driver`, op `att`).
-/
namespace Verif.C10

/-- A position of the source with both readings `token.FileSet` offers:
`raw = PositionFor(p, false)`, `adj = PositionFor(p, true)` (= `fset.Position(p)`). -/
structure SrcPos where
  raw : Pos
  adj : Pos
deriving DecidableEq, Repr

/-- What `NewCommentMap` reads of a syntax node. -/
structure NodeRec where
  id : Nat          -- index in the pre-order node list (identity of the node)
  pos : Nat         -- offset of `Pos()`
  end_ : Nat        -- offset of `End()`
  at_ : SrcPos      -- position of `Pos()`; `fset.Position(q.Pos()).Line = at_.adj.line`
  endLine : Nat     -- `fset.Position(End()).Line`
  important : Bool  -- `*File, *Field, Decl, Spec, Stmt`
deriving DecidableEq, Repr

/-- One `*ast.Comment`. -/
structure CommentRec where
  pos : Nat
  end_ : Nat
  at_ : SrcPos
  endLine : Nat
  text : String
deriving DecidableEq, Repr

/-- One `*ast.CommentGroup` (non-empty in Go; the empty group reads as position 0). -/
structure GroupRec where
  comments : List CommentRec
deriving DecidableEq, Repr

def GroupRec.pos (g : GroupRec) : Nat := match g.comments with | [] => 0 | c :: _ => c.pos
def GroupRec.posLine (g : GroupRec) : Nat := match g.comments with | [] => 0 | c :: _ => c.at_.adj.line
def GroupRec.end_ (g : GroupRec) : Nat := match g.comments.getLast? with | none => 0 | some c => c.end_
def GroupRec.endLine (g : GroupRec) : Nat := match g.comments.getLast? with | none => 0 | some c => c.endLine

/-! ### go/ast/commentmap.go -/

/-- `nodeStack.pop(pos)`: pops every node whose extent ended at or before `pos`; returns the
last node popped (the outermost of them) and the remaining stack (head = top of the stack). -/
def popStack (pos : Nat) : List NodeRec → Option NodeRec → Option NodeRec × List NodeRec
  | [], top => (top, [])
  | n :: s, top => if n.end_ ≤ pos then popStack pos s (some n) else (top, n :: s)

/-- `nodeStack.push(n)` -/
def pushStack (n : NodeRec) (s : List NodeRec) : List NodeRec := n :: (popStack n.pos s none).2

/-- `r.end.Line+1 < qpos.Line`; the sentinel (`none`) stands at line "infinity". -/
def gapBefore (r : GroupRec) : Option NodeRec → Bool
  | none => true
  | some q => r.endLine + 1 < q.at_.adj.line

/-- The `switch` of `NewCommentMap`: the node the comment group `r` is associated with, given
the previous node group `pg`, the previous node `p` and the current node `q` (`none` = the
sentinel; the `panic` branch reads as `none`). -/
def assocOf (pg p q : Option NodeRec) (r : GroupRec) : Option NodeRec :=
  match pg with
  | some g =>
    if g.endLine = r.posLine ∨ (g.endLine + 1 = r.posLine ∧ gapBefore r q = true) then some g
    else assocP p q r
  | none => assocP p q r
where
  assocP (p q : Option NodeRec) (r : GroupRec) : Option NodeRec :=
    match p with
    | some n =>
      if n.endLine = r.posLine ∨ (n.endLine + 1 = r.posLine ∧ gapBefore r q = true) ∨ q = none then some n
      else q
    | none => q

/-- The iteration variables of `NewCommentMap` (+ the comment reader and the result). -/
structure CMState where
  rest : List GroupRec                        -- comment groups not yet associated (sorted)
  p : Option NodeRec
  pg : Option NodeRec
  stack : List NodeRec
  out : List (GroupRec × Option NodeRec)      -- `cmap.addComment(assoc, r.comment)` in order
deriving Repr

/-- `for r.end.Offset <= qpos.Offset { … }` — the comments before the current node `q`. -/
def drain (q : Option NodeRec) : List GroupRec → CMState → CMState
  | [], st => { st with rest := [] }
  | r :: rs, st =>
    if (match q with | none => true | some n => decide (r.end_ ≤ n.pos)) then
      let pp := popStack r.pos st.stack none
      let pg' := match pp.1 with | some t => some t | none => st.pg
      drain q rs { st with pg := pg', stack := pp.2, out := st.out ++ [(r, assocOf pg' st.p q r)] }
    else { st with rest := r :: rs }

/-- One iteration of `for _, q := range nodes` for a real node. -/
def stepNode (st : CMState) (q : NodeRec) : CMState :=
  let st' := drain (some q) st.rest st
  { st' with p := some q, stack := if q.important then pushStack q st'.stack else st'.stack }

/-- `NewCommentMap(fset, f, f.Comments)`: the (group, node) associations in comment order. -/
def commentMap (nodes : List NodeRec) (groups : List GroupRec) : List (GroupRec × Option NodeRec) :=
  let st := nodes.foldl stepNode ⟨groups, none, none, [], []⟩
  (drain none st.rest st).out

/-! ### analysis/lint/lint.go: ParseDirectives -/

/-- `lint.Directive` before serialisation: command, arguments, the comment, the node. -/
structure RawDirective where
  cmd : String
  args : List String
  comment : CommentRec
  node : NodeRec
deriving DecidableEq, Repr

/-- the body of the innermost loop: `if !strings.HasPrefix(c.Text, "//lint:") { continue }; …` -/
def mkDirective (n : NodeRec) (c : CommentRec) : Option RawDirective :=
  match parseDirectiveText c.text with
  | none => none
  | some (cmd, args) => some ⟨cmd, args, c, n⟩

/-- `for node, cgs := range cm { for _, cg := range cgs { for _, c := range cg.List { … } } }`
over a comment map given as the list of its entries. -/
def parseCM (cm : List (NodeRec × List GroupRec)) : List RawDirective :=
  cm.flatMap fun e => e.2.flatMap fun g => g.comments.filterMap (mkDirective e.1)

/-- the same loops over the associations in comment order -/
def parseAssigned (out : List (GroupRec × Option NodeRec)) : List RawDirective :=
  out.flatMap fun e =>
    match e.2 with
    | some n => e.1.comments.filterMap (mkDirective n)
    | none => []

/-! ### analysis/report: DisplayPosition; lintcmd/runner: serializeDirective -/

/-- `filepath.Ext(name) == ".go"` -/
def extIsGo (name : String) : Bool :=
  match name.toList.reverse with
  | 'o' :: 'g' :: '.' :: _ => true
  | _ => false

/-- `report.DisplayPosition` -/
def displayPos (p : SrcPos) : Pos := if extIsGo p.adj.file then p.adj else p.raw

/-- `runner.serializeDirective` -/
def serialize (d : RawDirective) : Directive :=
  ⟨d.cmd, d.args, displayPos d.comment.at_, displayPos d.node.at_⟩

/-- comments of one file → the `SerializedDirective`s of `runner.ResultData` -/
def pipeline (nodes : List NodeRec) (groups : List GroupRec) : List Directive :=
  (parseAssigned (commentMap nodes groups)).map serialize

end Verif.C10
