import Verif.Common.Proto
import Verif.C10.Model
import Verif.C10.Attach
/-!
Line protocol of the C10 model driver (all strings hex-encoded, `-` = empty):

* `glob <pat> <name>`                       → `0|1`            (`filepath.Match`)
* `lower <s>`                               → `<s'>`           (`strings.ToLower`)
* `pd <comment text>`                       → `none` | `<cmd> <n> <arg>*`
* `sup <directive> <file> <line> <cat>`     → `0|1`  does the directive suppress a problem of
                                                      check `cat` at `file:line`
                                                      (`cat` = U1000: `u1000Ignores`)
* `fi <success 0|1> <nAllowed> <name>* <nDiags> <diag>* <nDirs> <directive>*`
                                            → `<n> <diag>*`    (`filterIgnored ∘ success?`)

* `u1k <nfiles> <nlines> <nDirs> <directive>*` → `<n> (<file> <line>)*`  the declarations of the
                                                      synthetic package (files `f<i>.go`, one unexported
                                                      declaration on each of the lines 3 … nlines+2) that
                                                      the U1000 graph marks as used because of the
                                                      directives (`u1000Marked`)

* `att <nNames> <name>* <nNodes> <node>* <nGroups> (<nComments> <comment>*)*`
                                            → `<n> <directive>*`  the serialized directives of one
                                                      file in comment order: `NewCommentMap` +
                                                      `ParseDirectives` + `serializeDirective` (`pipeline`)
  `<node>` = `<pos> <end> <srcpos> <endLine> <important 0|1>` (pre-order, as `ast.Inspect` visits),
  `<comment>` = `<pos> <end> <srcpos> <endLine> <text>`,
  `<srcpos>` = `<rawFile#> <rawLine> <rawCol> <adjFile#> <adjLine> <adjCol>` (file names by index
  into the name table)

`<diag>` = `<file> <line> <col> <cat> <msg> <sev e|w|i>`,
`<directive>` = `<cmd> <nargs> <arg>* <dfile> <dline> <dcol> <nfile> <nline> <ncol>`.
-/
namespace Verif.C10
open Verif.Proto

abbrev P (α : Type) := List String → Option (α × List String)

def pStr : P String
  | t :: r => (hexDecode t).map (·, r)
  | [] => none

def pNat : P Nat
  | t :: r => (parseNat t).map (·, r)
  | [] => none

def pMany {α : Type} (p : P α) : Nat → P (List α)
  | 0, ts => some ([], ts)
  | n + 1, ts => do
    let (x, ts) ← p ts
    let (xs, ts) ← pMany p n ts
    pure (x :: xs, ts)

def pList {α : Type} (p : P α) : P (List α) := fun ts => do
  let (n, ts) ← pNat ts
  pMany p n ts

def pPos : P Pos := fun ts => do
  let (f, ts) ← pStr ts
  let (l, ts) ← pNat ts
  let (c, ts) ← pNat ts
  pure (⟨f, l, c⟩, ts)

def pSev : P Sev
  | "e" :: r => some (.error, r)
  | "w" :: r => some (.warning, r)
  | "i" :: r => some (.ignored, r)
  | _ => none

def pDiag : P Diag := fun ts => do
  let (p, ts) ← pPos ts
  let (cat, ts) ← pStr ts
  let (msg, ts) ← pStr ts
  let (s, ts) ← pSev ts
  pure (⟨p, msg, cat, s⟩, ts)

def pDirective : P Directive := fun ts => do
  let (cmd, ts) ← pStr ts
  let (args, ts) ← pList pStr ts
  let (dp, ts) ← pPos ts
  let (np, ts) ← pPos ts
  pure (⟨cmd, args, dp, np⟩, ts)

def pSrcPos (names : Array String) : P SrcPos := fun ts => do
  let (rf, ts) ← pNat ts
  let (rl, ts) ← pNat ts
  let (rc, ts) ← pNat ts
  let (af, ts) ← pNat ts
  let (al, ts) ← pNat ts
  let (ac, ts) ← pNat ts
  let rfn ← names[rf]?
  let afn ← names[af]?
  pure (⟨⟨rfn, rl, rc⟩, ⟨afn, al, ac⟩⟩, ts)

def pBool : P Bool
  | "0" :: r => some (false, r)
  | "1" :: r => some (true, r)
  | _ => none

def pNodeRec (names : Array String) : P NodeRec := fun ts => do
  let (pos, ts) ← pNat ts
  let (e, ts) ← pNat ts
  let (sp, ts) ← pSrcPos names ts
  let (el, ts) ← pNat ts
  let (imp, ts) ← pBool ts
  pure (⟨0, pos, e, sp, el, imp⟩, ts)

def pCommentRec (names : Array String) : P CommentRec := fun ts => do
  let (pos, ts) ← pNat ts
  let (e, ts) ← pNat ts
  let (sp, ts) ← pSrcPos names ts
  let (el, ts) ← pNat ts
  let (text, ts) ← pStr ts
  pure (⟨pos, e, sp, el, text⟩, ts)

def pGroupRec (names : Array String) : P GroupRec := fun ts => do
  let (cs, ts) ← pList (pCommentRec names) ts
  pure (⟨cs⟩, ts)

def numberNodes : List NodeRec → Nat → List NodeRec
  | [], _ => []
  | n :: ns, i => { n with id := i } :: numberNodes ns (i + 1)

def showPos (p : Pos) : String := s!"{hexEncode p.file} {p.line} {p.col}"

def showDirective (d : Directive) : String :=
  " ".intercalate ([hexEncode d.cmd, toString d.args.length] ++ d.args.map hexEncode ++ [showPos d.dirPos, showPos d.nodePos])

def showSev : Sev → String
  | .error => "e" | .warning => "w" | .ignored => "i"

def showDiag (d : Diag) : String :=
  s!"{hexEncode d.pos.file} {d.pos.line} {d.pos.col} {hexEncode d.cat} {hexEncode d.msg} {showSev d.sev}"

def showDiags (ds : List Diag) : String :=
  " ".intercalate (toString ds.length :: ds.map showDiag)

def step (line : String) : String :=
  match tokens line with
  | ["glob", p, n] =>
    match hexDecode p, hexDecode n with
    | some p, some n => showBool (glob p n)
    | _, _ => "bad-op"
  | ["lower", s] =>
    match hexDecode s with
    | some s => hexEncode (lower s)
    | none => "bad-op"
  | ["pd", t] =>
    match hexDecode t with
    | some t =>
      match parseDirectiveText t with
      | none => "none"
      | some (cmd, args) => " ".intercalate (hexEncode cmd :: toString args.length :: args.map hexEncode)
    | none => "bad-op"
  | "sup" :: rest =>
    match (do
      let (g, ts) ← pDirective rest
      let (f, ts) ← pStr ts
      let (l, ts) ← pNat ts
      let (cat, ts) ← pStr ts
      if ts ≠ [] then none else
      pure (g, f, l, cat)) with
    | some (g, f, l, cat) =>
      if lower cat = "u1000" then showBool (u1000Ignores g f l)
      else
        match (parseDirectives [g]).1 with
        | [ig] => showBool (ig.matchB ⟨⟨f, l, 0⟩, "", cat, .error⟩)
        | _ => "0"
    | none => "bad-op"
  | "fi" :: rest =>
    match (do
      let (succ, ts) ← pNat rest
      let (allowed, ts) ← pList pStr ts
      let (diags, ts) ← pList pDiag ts
      let (dirs, ts) ← pList pDirective ts
      if ts ≠ [] ∨ succ > 1 then none else
      pure (succ, allowed, diags, dirs)) with
    | some (succ, allowed, diags, dirs) =>
      let al : String → Bool := fun c => allowed.contains c
      let ds := if succ = 1 then success al diags else diags
      showDiags (filterIgnored ds dirs al)
    | none => "bad-op"
  | "att" :: rest =>
    match (do
      let (names, ts) ← pList pStr rest
      let names := names.toArray
      let (nodes, ts) ← pList (pNodeRec names) ts
      let (groups, ts) ← pList (pGroupRec names) ts
      if ts ≠ [] ∨ groups.any (fun g => g.comments.isEmpty) then none else
      pure (numberNodes nodes 0, groups)) with
    | some (nodes, groups) =>
      let ds := pipeline nodes groups
      " ".intercalate (toString ds.length :: ds.map showDirective)
    | none => "bad-op"
  | "u1k" :: rest =>
    match (do
      let (nfiles, ts) ← pNat rest
      let (nlines, ts) ← pNat ts
      let (dirs, ts) ← pList pDirective ts
      if ts ≠ [] then none else
      pure (nfiles, nlines, dirs)) with
    | some (nfiles, nlines, dirs) =>
      let objs : List (String × Nat) :=
        (List.range nfiles).flatMap fun f => (List.range nlines).map fun l => (s!"f{f}.go", l + 3)
      let m := u1000Marked dirs objs
      " ".intercalate (toString m.length :: m.map fun o => s!"{hexEncode o.1} {o.2}")
    | none => "bad-op"
  | _ => "bad-op"

end Verif.C10
