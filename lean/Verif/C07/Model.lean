/- C07 model = the use/own graph and its colouring, see `Graph.lean` (shared with C17). -/
import Verif.C07.Graph
