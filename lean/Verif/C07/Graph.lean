/-
C07 / C17 — the use/own graph of `unused` and its colouring.

Transliteration of /repo/unused/unused.go:
  * `Node{uses, owns}`, `SerializedGraph{nodes}`            → `Node`, `Graph`
  * `(*SerializedGraph).color(rootID, states)`              → `dfs g.usesOf` (`color`)
  * `(*SerializedGraph).colorAndQuieten()`                  → `colorAndQuieten`
  * `(*SerializedGraph).Results()`                          → `results`

Go's `color` is a recursive DFS over `uses` with a visited bit (`nodeStateSeen`): it
returns at once on a seen node, otherwise marks it and recurses into every use.  The
Lean function has the same shape; the only addition is `fuel`, which bounds the
*depth* of the recursion (siblings share the same fuel).  Every nested call marks a
fresh node, so depth ≤ number of nodes and `fuel = N + 1` never runs out
(`Lemmas.dfs_closed`).

Go's `quieten` closure recurses over `owns` WITHOUT a visited bit: on a graph whose
`owns` relation has a cycle below an unseen node the Go code does not terminate
(stack overflow).  The model uses the same visited-bit DFS as `color`; it marks
exactly the nodes the Go code marks whenever the Go code terminates.

Core Lean only (compiled into `c07driver` / `c17driver`).
-/
namespace Verif.C07

structure Node where
  uses : List Nat
  owns : List Nat
  deriving Repr, Inhabited, DecidableEq

/-- `SerializedGraph.nodes`; node `i` has id `i`; node 0 is the root. -/
structure Graph where
  nodes : List Node
  deriving Repr, Inhabited, DecidableEq

namespace Graph

def N (g : Graph) : Nat := g.nodes.length

def usesOf (g : Graph) (n : Nat) : List Nat := (g.nodes.getD n ⟨[], []⟩).uses
def ownsOf (g : Graph) (n : Nat) : List Nat := (g.nodes.getD n ⟨[], []⟩).owns

/-- Every edge ends at an existing node and the root exists (Go would panic with an
index out of range otherwise). -/
def wf (g : Graph) : Bool :=
  decide (0 < g.N) &&
  g.nodes.all (fun nd => nd.uses.all (fun m => decide (m < g.N)) && nd.owns.all (fun m => decide (m < g.N)))

end Graph

/-- `color`: `if seen(id) return; mark id; for n in adj(id): color(n)`.  `seen` is the set
of marked ids (Go: the `nodeStateSeen` bit of `states[id]`). -/
def dfs (adj : Nat → List Nat) : Nat → Nat → List Nat → List Nat
  | 0, _, seen => seen
  | fuel + 1, id, seen =>
    if id ∈ seen then seen
    else (adj id).foldl (fun s n => dfs adj fuel n s) (id :: seen)

/-- the `for _, n := range xs { color(n) }` loop -/
def dfsList (adj : Nat → List Nat) (fuel : Nat) (xs : List Nat) (seen : List Nat) : List Nat :=
  xs.foldl (fun s n => dfs adj fuel n s) seen

namespace Graph

/-- `g.color(0, states)` from all-zero states. -/
def seenSet (g : Graph) : List Nat := dfs g.usesOf (g.N + 1) 0 []

/-- second half of `colorAndQuieten`: for every node that is not seen, quieten everything
it owns (transitively). -/
def quietSet (g : Graph) : List Nat :=
  let seen := g.seenSet
  (List.range g.N).foldl
    (fun q n => if n ∈ seen then q else dfsList g.ownsOf (g.N + 1) (g.ownsOf n) q) []

inductive Verdict | used | quiet | unused
  deriving Repr, DecidableEq, Inhabited

/-- the three-way branch of `Results()` for one node -/
def verdictWith (seen quiet : List Nat) (n : Nat) : Verdict :=
  if n ∈ seen then .used else if n ∈ quiet then .quiet else .unused

def verdict (g : Graph) (n : Nat) : Verdict := verdictWith g.seenSet g.quietSet n

structure Result where
  used : List Nat
  unused : List Nat
  quiet : List Nat
  deriving Repr, DecidableEq

/-- `Results()`: `for _, n := range g.nodes[1:]` in id order. -/
def results (g : Graph) : Result :=
  let seen := g.seenSet
  let quiet := g.quietSet
  let ids := (List.range g.N).filter (· ≠ 0)
  { used := ids.filter (fun n => verdictWith seen quiet n = .used)
    unused := ids.filter (fun n => verdictWith seen quiet n = .unused)
    quiet := ids.filter (fun n => verdictWith seen quiet n = .quiet) }

/-- All verdicts in id order (what `Dot()` prints as colours), computed once. -/
def verdicts (g : Graph) : List Verdict :=
  let seen := g.seenSet
  let quiet := g.quietSet
  ((List.range g.N).filter (· ≠ 0)).map (verdictWith seen quiet)

/-- executable reachability test used by the certificate checker -/
def reaches (g : Graph) (x y : Nat) : Bool :=
  x == y || (g.usesOf x).contains y || (dfs g.usesOf (g.N + 1) x []).contains y

/-- Certificate of deletion safety: every reference `(chain, y)` of the program (an
identifier denoting `y`, written inside the declarations of the objects `chain`; the root
when the chain is empty) is covered by a use-path from one of the enclosing objects. -/
def refsCovered (g : Graph) (refs : List (List Nat × Nat)) : Bool :=
  refs.all fun (c, y) => (if c.isEmpty then [0] else c).any fun x => g.reaches x y

end Graph
end Verif.C07
