/-
C07 line protocol, part 2 (part 1 = `Driver.lean`, also used by C17).

  walk <pkg>
      <pkg> = the abstract package of `Walk.lean` as a token stream (grammar below);
      → `ok=<0|1> n=<nodes> U=<by>used;…> O=<owner>owned;…> V=<obj>:<U|Q|X>,… Z=<obj,…> R=<d>y;…> H=<rankOk><closed>`
        the use / own edges of the graph built from `walk pkg` by `Verif.C17.build` as OBJECT
        pairs (sorted, `-` when empty), the verdict of every object that has a node, the
        zero-reference candidates (`zeroRef`), the reference relation `refsOf`, and the two
        hypotheses of `walk_deletion_safe` evaluated on the package (`rankOk p (depthOf p)`,
        no Used object declared inside an Unused one).
  emit <k> <variant>…
      <variant> = <pkgPath hex> <allowed 0|1> <n> <obj>… <m> <obj>…   (Used, then Unused)
      <obj> = <kind hex> <name hex> <base hex> <line> <col>
      → `keyinj=<0|1> <emitted objects, kind:name:base:line:col with hex strings | ->`

Grammar of <pkg> (all lists are length-prefixed: `k x1 … xk`):
  pkg    = isMain objs(linknames) list(top)
  top    = F func | G gen
  func   = obj fname(0 plain,1 exported,2 init,3 main,4 blank) isMethod list(item) list(obj unnamed)
  item   = s obj isVar | r objs | p obj objs | g gen
  gen    = T list(type) | V list(spec) | C list(spec) list(objs)
  spec   = list(obj cls) objs list(objs)
  type   = obj cls alias underIface body list(sel) list(sel)
  body   = S list(field) list(emb) | I list(imeth) objs list(name) | O objs
  field  = obj cls objs        emb = obj exported typeObj hasExportedField
  imeth  = obj name objs       sel = name exported objs obj
  cls    = 0 plain | 1 exported | 2 blank
-/
import Verif.Common.Proto
import Verif.C07.Driver
import Verif.C07.Walk
import Verif.C07.Emit
namespace Verif.C07
open Verif.Proto Verif.C07.Walk Verif.C17

abbrev P (α : Type) := List String → Option (α × List String)

def pNat : P Nat
  | t :: r => t.toNat?.map fun n => (n, r)
  | [] => none

def pBool : P Bool
  | "0" :: r => some (false, r)
  | "1" :: r => some (true, r)
  | _ => none

def pCount {α : Type} (p : P α) : Nat → P (List α)
  | 0, ts => some ([], ts)
  | n + 1, ts => do
    let (a, r) ← p ts
    let (as, r) ← pCount p n r
    pure (a :: as, r)

def pList {α : Type} (p : P α) : P (List α) := fun ts => do
  let (n, r) ← pNat ts
  pCount p n r

def pObjs : P (List Nat) := pList pNat

def pCls : P NameCls
  | "0" :: r => some (.plain, r)
  | "1" :: r => some (.exported, r)
  | "2" :: r => some (.blank, r)
  | _ => none

def pSel : P Sel := fun ts => do
  let (name, r) ← pNat ts
  let (ex, r) ← pBool r
  let (path, r) ← pObjs r
  let (obj, r) ← pNat r
  pure (⟨name, ex, path, obj⟩, r)

def pField : P FieldD := fun ts => do
  let (o, r) ← pNat ts
  let (c, r) ← pCls r
  let (tr, r) ← pObjs r
  pure (⟨o, c, tr⟩, r)

def pEmb : P EmbD := fun ts => do
  let (o, r) ← pNat ts
  let (ex, r) ← pBool r
  let (t, r) ← pNat r
  let (h, r) ← pBool r
  pure (⟨o, ex, t, h⟩, r)

def pIMeth : P IMethD := fun ts => do
  let (o, r) ← pNat ts
  let (n, r) ← pNat r
  let (sr, r) ← pObjs r
  pure (⟨o, n, sr⟩, r)

def pBody : P TBody
  | "S" :: r => do
    let (fs, r) ← pList pField r
    let (es, r) ← pList pEmb r
    pure (.struct fs es, r)
  | "I" :: r => do
    let (ms, r) ← pList pIMeth r
    let (em, r) ← pObjs r
    let (full, r) ← pObjs r
    pure (.iface ms em full, r)
  | "O" :: r => do
    let (rs, r) ← pObjs r
    pure (.other rs, r)
  | _ => none

def pType : P TypeD := fun ts => do
  let (o, r) ← pNat ts
  let (c, r) ← pCls r
  let (al, r) ← pBool r
  let (ui, r) ← pBool r
  let (b, r) ← pBody r
  let (mv, r) ← pList pSel r
  let (mp, r) ← pList pSel r
  pure (⟨o, c, al, ui, b, mv, mp⟩, r)

def pNameCls : P (Nat × NameCls) := fun ts => do
  let (o, r) ← pNat ts
  let (c, r) ← pCls r
  pure ((o, c), r)

def pSpec : P VarD := fun ts => do
  let (ns, r) ← pList pNameCls ts
  let (tr, r) ← pObjs r
  let (vs, r) ← pList pObjs r
  pure (⟨ns, tr, vs⟩, r)

def pGen : P GenD
  | "T" :: r => do
    let (l, r) ← pList pType r
    pure (.types l, r)
  | "V" :: r => do
    let (l, r) ← pList pSpec r
    pure (.vars l, r)
  | "C" :: r => do
    let (l, r) ← pList pSpec r
    let (g, r) ← pList pObjs r
    pure (.consts l g, r)
  | _ => none

def pItem : P Item
  | "s" :: r => do
    let (o, r) ← pNat r
    let (b, r) ← pBool r
    pure (.scope o b, r)
  | "r" :: r => do
    let (l, r) ← pObjs r
    pure (.reads l, r)
  | "p" :: r => do
    let (o, r) ← pNat r
    let (l, r) ← pObjs r
    pure (.param o l, r)
  | "g" :: r => do
    let (g, r) ← pGen r
    pure (.gen g, r)
  | _ => none

def pFName : P FName
  | "0" :: r => some (.plain, r)
  | "1" :: r => some (.exported, r)
  | "2" :: r => some (.init, r)
  | "3" :: r => some (.main, r)
  | "4" :: r => some (.blank, r)
  | _ => none

def pParam : P (Nat × Bool) := fun ts => do
  let (o, r) ← pNat ts
  let (b, r) ← pBool r
  pure ((o, b), r)

def pFunc : P FuncD := fun ts => do
  let (o, r) ← pNat ts
  let (n, r) ← pFName r
  let (m, r) ← pBool r
  let (its, r) ← pList pItem r
  let (ps, r) ← pList pParam r
  pure (⟨o, n, m, its, ps⟩, r)

def pTop : P Top
  | "F" :: r => do
    let (f, r) ← pFunc r
    pure (.func f, r)
  | "G" :: r => do
    let (g, r) ← pGen r
    pure (.gen g, r)
  | _ => none

def pPkg : P Pkg := fun ts => do
  let (m, r) ← pBool ts
  let (ln, r) ← pObjs r
  let (ds, r) ← pList pTop r
  pure (⟨m, ln, ds⟩, r)

/-- insertion into a sorted duplicate-free list of pairs -/
def insPair (x : Nat × Nat) : List (Nat × Nat) → List (Nat × Nat)
  | [] => [x]
  | y :: r =>
    if x == y then y :: r
    else if x.1 < y.1 || (x.1 == y.1 && x.2 < y.2) then x :: y :: r
    else y :: insPair x r

def sortPairs (l : List (Nat × Nat)) : List (Nat × Nat) := l.foldl (fun acc x => insPair x acc) []

def showPairs (l : List (Nat × Nat)) : String :=
  if l.isEmpty then "-" else ";".intercalate (l.map fun x => s!"{x.1}>{x.2}")

def showNats (l : List Nat) : String :=
  if l.isEmpty then "-" else ",".intercalate (l.map toString)

/-- the object of node `a` (0 for the root) -/
def objAt (s : BState) (a : Nat) : Nat := if a = 0 then 0 else s.objs.getD (a - 1) 0

/-- containment at any depth (the declaration language nests at most three levels; four
rounds of composition are more than enough and `rankOk` rules out cycles) -/
def insidePairs (p : Pkg) : List (Nat × Nat) :=
  let c := containsOf p
  let comp := fun (l : List (Nat × Nat)) => l ++ l.flatMap fun x => (c.filter fun y => y.1 == x.2).map fun y => (x.1, y.2)
  sortPairs (comp (comp (comp c)))

/-- the hypothesis `hclosed` of `walk_deletion_safe`, evaluated: no Used object is declared
inside an Unused one -/
def closedOk (p : Pkg) (look : Nat → Option Graph.Verdict) : Bool :=
  (insidePairs p).all fun x =>
    !(look x.1 == some Graph.Verdict.unused && look x.2 == some Graph.Verdict.used)

def stepWalk (ts : List String) : String :=
  match pPkg ts with
  | some (p, []) =>
    let s := build Cfg.all (walk p)
    let g := s.graph
    let ids := List.range g.N
    let us := sortPairs (ids.flatMap fun a => (g.usesOf a).map fun b => (objAt s a, objAt s b))
    let os := sortPairs (ids.flatMap fun a => (g.ownsOf a).map fun b => (objAt s a, objAt s b))
    let vs := g.verdicts
    let vstr := if s.objs.isEmpty then "-" else
      ",".intercalate ((s.objs.zip vs).map fun x => s!"{x.1}:{showVerdict x.2}")
    let zr := s.objs.filter (zeroRef p)
    let rs := sortPairs (refsOf p)
    s!"ok={showBool p.ok} n={g.N} U={showPairs us} O={showPairs os} V={vstr} Z={showNats zr} R={showPairs rs} H={showBool (rankOk p (depthOf p))}{showBool (closedOk p fun o => (s.objs.zip vs).lookup o)}"
  | _ => "bad-op"

open Verif.C07.Emit in
def pUObj : P UObj := fun ts =>
  match ts with
  | k :: n :: b :: l :: c :: r => do
    let k ← hexDecode k
    let n ← hexDecode n
    let b ← hexDecode b
    let l ← l.toNat?
    let c ← c.toNat?
    pure (⟨k, n, b, l, c⟩, r)
  | _ => none

open Verif.C07.Emit in
def pVariant : P Variant := fun ts =>
  match ts with
  | pk :: r => do
    let pk ← hexDecode pk
    let (al, r) ← pBool r
    let (us, r) ← pList pUObj r
    let (xs, r) ← pList pUObj r
    pure (⟨pk, al, us, xs⟩, r)
  | [] => none

open Verif.C07.Emit in
def showUObj (o : UObj) : String :=
  s!"{hexEncode o.kind}:{hexEncode o.name}:{hexEncode o.base}:{o.line}:{o.col}"

open Verif.C07.Emit in
def stepEmit (ts : List String) : String :=
  match pList pVariant ts with
  | some (vs, []) =>
    let em := emitted vs
    let body := if em.isEmpty then "-" else " ".intercalate (em.map showUObj)
    s!"keyinj={showBool (keyInjB vs)} {body}"
  | _ => "bad-op"

def step2 (line : String) : String :=
  match tokens line with
  | "walk" :: ts => stepWalk ts
  | "emit" :: ts => stepEmit ts
  | _ => step line

end Verif.C07
