/-
C07 — theorems about the model of the walk (`Walk.lean`), for EVERY abstract package.

  walk_refs_safe          deletion safety, references: an identifier written inside the
                          declaration of a Used object denotes a Used object
  walk_multi_init_safe    … in particular every name of `var a, b = f()` that is Used keeps
                          everything the shared initialiser mentions
  walk_impl_safe          deletion safety, implicit interface satisfaction: when a named type
                          (package-level OR function-local) that is Used implements a known
                          interface, the implementing methods and the embedded fields they are
                          promoted through are Used
  walk_zero_ref_reported  completeness: an unexported package-level func / type / var /
                          stand-alone const that no identifier refers to is reported (Unused)
-/
import Verif.C17.Theorems
import Verif.C07.Walk
namespace Verif.C07.Walk
open Verif.C17
open Verif.C07.Graph (Verdict)

/-! ### generic facts about events of the walk -/

theorem keep_all_use (y d : Nat) (hy : y ≠ 0) : keep Cfg.all (.use y d) = true := by
  simp [keep, Cfg.all, hy]

theorem keep_all_see (o w : Nat) (ho : o ≠ 0) : keep Cfg.all (.see o w) = true := by
  simp [keep, Cfg.all, ho]

/-- a `use(y, d)` call of the walk makes `y` Used as soon as `d` is Used (or is nil) -/
theorem use_propagates (p : Pkg) {y d : Obj} (he : Event.use y d ∈ walk p) (hy : y ≠ 0)
    (hd : d = 0 ∨ verdictOf p d = some .used) : verdictOf p y = some .used := by
  unfold verdictOf at *
  rw [build_used_iff]
  have hk : Event.use y d ∈ kept Cfg.all (walk p) := by
    simp only [kept, List.mem_filter]; exact ⟨he, keep_all_use y d hy⟩
  refine ⟨hy, .step ?_ ((mem_adjU _ d y).2 hk)⟩
  rcases hd with rfl | hd
  · exact .refl 0
  · exact ((build_used_iff _ _ _).1 hd).2

theorem mem_readsEv {by_ : Obj} {l : List Obj} {e : Event} :
    e ∈ readsEv by_ l ↔ ∃ o, o ∈ l ∧ e = .use o by_ := by
  simp only [readsEv, List.mem_map]
  constructor
  · rintro ⟨o, ho, rfl⟩; exact ⟨o, ho, rfl⟩
  · rintro ⟨o, ho, rfl⟩; exact ⟨o, ho, rfl⟩

theorem use_mem_readsEv {by_ y : Obj} {l : List Obj} (h : y ∈ l) : Event.use y by_ ∈ readsEv by_ l :=
  mem_readsEv.2 ⟨y, h, rfl⟩

theorem mem_pairs {d a b : Obj} {l : List Obj} : (a, b) ∈ pairs d l ↔ a = d ∧ b ∈ l := by
  simp only [pairs, List.mem_map, Prod.mk.injEq]
  constructor
  · rintro ⟨y, hy, rfl, rfl⟩; exact ⟨rfl, hy⟩
  · rintro ⟨rfl, hb⟩; exact ⟨b, hb, rfl, rfl⟩

/-! ### references are covered by use calls -/

theorem initOf_sub_varValue {v : VarD} (hok : v.ok = true) (i : Nat) {y : Obj} (hy : y ∈ initOf v i) :
    y ∈ varValue v i := by
  unfold initOf at hy
  unfold varValue
  by_cases h : v.names.length = v.values.length
  · rw [if_pos h] at hy ⊢; exact hy
  · rw [if_neg h] at hy ⊢
    unfold VarD.ok at hok
    simp only [Bool.or_eq_true, beq_iff_eq, decide_eq_true_eq] at hok
    rcases hok with hok | hok
    · exact absurd hok.symm h
    · match hv : v.values, hok with
      | [], _ => rw [hv] at hy; simp at hy
      | [a], _ => rw [hv] at hy; simpa using hy
      | _ :: _ :: _, hok => simp at hok

theorem initOf_sub_constValue {v : VarD} (hok : v.constOk = true) (i : Nat) {y : Obj} (hy : y ∈ initOf v i) :
    y ∈ constValue v i := by
  unfold initOf at hy
  unfold constValue
  unfold VarD.constOk at hok
  simp only [Bool.or_eq_true, beq_iff_eq] at hok
  by_cases h0 : v.values.length = 0
  · have hv : v.values = [] := List.eq_nil_of_length_eq_zero h0
    rw [hv] at hy
    by_cases h : v.names.length = ([] : List (List Obj)).length
    · rw [if_pos h] at hy; simp at hy
    · rw [if_neg h] at hy; simp at hy
  · rw [if_pos h0]
    rcases hok with hok | hok
    · rw [if_pos hok.symm] at hy; exact hy
    · exact absurd hok h0

theorem refs_walkVar {v : VarD} (hok : v.ok = true) (by_ : Obj) {d y : Obj}
    (h : (d, y) ∈ refsValueSpec v) : Event.use y d ∈ walkVar by_ v := by
  unfold refsValueSpec at h
  obtain ⟨x, hx, hm⟩ := List.mem_flatMap.1 h
  unfold walkVar
  refine List.mem_flatMap.2 ⟨x, hx, ?_⟩
  unfold walkVarName
  rcases List.mem_append.1 hm with hm | hm
  · obtain ⟨rfl, hy⟩ := mem_pairs.1 hm
    simp only [List.mem_append]
    exact .inl (.inl (.inl (.inr (use_mem_readsEv hy))))
  · obtain ⟨rfl, hy⟩ := mem_pairs.1 hm
    simp only [List.mem_append]
    exact .inl (.inl (.inr (use_mem_readsEv (initOf_sub_varValue hok _ hy))))

theorem refs_walkConst {v : VarD} (hok : v.constOk = true) (by_ : Obj) {d y : Obj}
    (h : (d, y) ∈ refsValueSpec v) : Event.use y d ∈ walkConst by_ v := by
  unfold refsValueSpec at h
  obtain ⟨x, hx, hm⟩ := List.mem_flatMap.1 h
  unfold walkConst
  refine List.mem_flatMap.2 ⟨x, hx, ?_⟩
  unfold walkConstName
  rcases List.mem_append.1 hm with hm | hm
  · obtain ⟨rfl, hy⟩ := mem_pairs.1 hm
    simp only [List.mem_append]
    exact .inl (.inl (.inr (use_mem_readsEv hy)))
  · obtain ⟨rfl, hy⟩ := mem_pairs.1 hm
    simp only [List.mem_append]
    exact .inl (.inr (use_mem_readsEv (initOf_sub_constValue hok _ hy)))

theorem refs_walkType (by_ : Obj) (t : TypeD) {d y : Obj} (h : (d, y) ∈ refsType t) :
    Event.use y d ∈ walkType by_ t := by
  unfold walkType
  simp only [List.mem_append]
  refine .inl (.inr ?_)
  unfold refsType at h
  unfold walkBody
  cases hb : t.body with
  | struct fs es =>
    rw [hb] at h
    simp only [List.mem_append] at h ⊢
    rcases h with h | h
    · obtain ⟨e, he, heq⟩ := List.mem_map.1 h
      injection heq with h1 h2
      subst h1 h2
      exact .inl (List.mem_flatMap.2 ⟨e, he, by simp [walkEmb]⟩)
    · obtain ⟨f, hf, hm⟩ := List.mem_flatMap.1 h
      obtain ⟨rfl, hy⟩ := mem_pairs.1 hm
      refine .inr (List.mem_flatMap.2 ⟨f, hf, ?_⟩)
      unfold walkField
      simp only [List.mem_append]
      exact .inl (.inr (use_mem_readsEv hy))
  | iface ms embeds full =>
    rw [hb] at h
    simp only [List.mem_append] at h ⊢
    rcases h with h | h
    · obtain ⟨rfl, hy⟩ := mem_pairs.1 h
      exact .inl (use_mem_readsEv hy)
    · obtain ⟨m, hm, hp⟩ := List.mem_flatMap.1 h
      obtain ⟨rfl, hy⟩ := mem_pairs.1 hp
      refine .inr (List.mem_flatMap.2 ⟨m, hm, ?_⟩)
      unfold walkIMeth
      simp only [List.mem_append]
      exact .inr (use_mem_readsEv hy)
  | other rs =>
    rw [hb] at h
    obtain ⟨rfl, hy⟩ := mem_pairs.1 h
    exact use_mem_readsEv hy

theorem refs_walkGen (by_ : Obj) (g : GenD) (hok : genOk g = true) {d y : Obj} (h : (d, y) ∈ refsGen g) :
    Event.use y d ∈ walkGen by_ g := by
  cases g with
  | types l =>
    obtain ⟨t, ht, hm⟩ := List.mem_flatMap.1 h
    exact List.mem_flatMap.2 ⟨t, ht, refs_walkType by_ t hm⟩
  | vars l =>
    obtain ⟨v, hv, hm⟩ := List.mem_flatMap.1 h
    have : v.ok = true := (List.all_eq_true.1 hok) v hv
    exact List.mem_flatMap.2 ⟨v, hv, refs_walkVar this by_ hm⟩
  | consts l groups =>
    obtain ⟨v, hv, hm⟩ := List.mem_flatMap.1 h
    have : v.constOk = true := (List.all_eq_true.1 hok) v hv
    exact List.mem_append.2 (.inl (List.mem_flatMap.2 ⟨v, hv, refs_walkConst this by_ hm⟩))

theorem refs_walkItem (f : Obj) (it : Item) (hok : itemOk it = true) {d y : Obj} (h : (d, y) ∈ refsItem f it) :
    Event.use y d ∈ walkItem f it := by
  cases it with
  | scope o b => simp [refsItem] at h
  | reads l =>
    obtain ⟨rfl, hy⟩ := mem_pairs.1 h
    exact use_mem_readsEv hy
  | param q tr =>
    obtain ⟨rfl, hy⟩ := mem_pairs.1 h
    exact List.mem_append.2 (.inr (use_mem_readsEv hy))
  | gen g => exact refs_walkGen f g hok h

theorem refs_walkTop (p : Pkg) (t : Top) (hok : topOk t = true) {d y : Obj} (h : (d, y) ∈ refsTop t) :
    Event.use y d ∈ walkTop p t := by
  cases t with
  | func f =>
    obtain ⟨it, hit, hm⟩ := List.mem_flatMap.1 h
    have : itemOk it = true := (List.all_eq_true.1 hok) it hit
    unfold walkTop walkFunc
    simp only [List.mem_append]
    exact .inl (.inr (List.mem_flatMap.2 ⟨it, hit, refs_walkItem f.obj it this hm⟩))
  | gen g => exact refs_walkGen 0 g hok h

/-- **Every reference is covered by a use call**: for every identifier of the abstract
package that denotes `y` and is written inside the declaration of `d`, the walk calls
`use(y, d)`. -/
theorem refs_covered (p : Pkg) (hok : p.ok = true) {d y : Obj} (h : (d, y) ∈ refsOf p) :
    Event.use y d ∈ walk p := by
  obtain ⟨t, ht, hm⟩ := List.mem_flatMap.1 h
  have : topOk t = true := (List.all_eq_true.1 hok) t ht
  unfold walk
  simp only [List.mem_append]
  exact .inl (.inr (List.mem_flatMap.2 ⟨t, ht, refs_walkTop p t this hm⟩))

/-- **Deletion safety, references.**  For every abstract package: if an identifier that
denotes `y` is written inside the declaration of `d` and `d` is Used (kept), then `y` is
Used (kept) — no reference of a surviving declaration dangles after everything that is
not Used has been removed. -/
theorem walk_refs_safe (p : Pkg) (hok : p.ok = true) {d y : Obj} (h : (d, y) ∈ refsOf p) (hy : y ≠ 0)
    (hd : verdictOf p d = some .used) : verdictOf p y = some .used :=
  use_propagates p (refs_covered p hok h) hy (.inr hd)

/-! ### one shared multi-value initialiser -/

def varsOfGen : GenD → List VarD
  | .vars l => l
  | _ => []

def varsOfItem : Item → List VarD
  | .gen d => varsOfGen d
  | _ => []

def varsOfTop : Top → List VarD
  | .func f => f.items.flatMap varsOfItem
  | .gen d => varsOfGen d

/-- every `var` spec of the package, package-level or function-local -/
def allVarSpecs (p : Pkg) : List VarD := p.decls.flatMap varsOfTop

theorem refsValueSpec_sub_refsGen {g : GenD} {v : VarD} (hv : v ∈ varsOfGen g) {x : Obj × Obj}
    (hx : x ∈ refsValueSpec v) : x ∈ refsGen g := by
  cases g with
  | types l => simp [varsOfGen] at hv
  | vars l => exact List.mem_flatMap.2 ⟨v, hv, hx⟩
  | consts l gr => simp [varsOfGen] at hv

theorem refsValueSpec_sub_refsOf {p : Pkg} {v : VarD} (hv : v ∈ allVarSpecs p) {x : Obj × Obj}
    (hx : x ∈ refsValueSpec v) : x ∈ refsOf p := by
  obtain ⟨t, ht, hvt⟩ := List.mem_flatMap.1 hv
  refine List.mem_flatMap.2 ⟨t, ht, ?_⟩
  cases t with
  | func f =>
    obtain ⟨it, hit, hvi⟩ := List.mem_flatMap.1 hvt
    refine List.mem_flatMap.2 ⟨it, hit, ?_⟩
    cases it with
    | scope o b => simp [varsOfItem] at hvi
    | reads l => simp [varsOfItem] at hvi
    | param q tr => simp [varsOfItem] at hvi
    | gen g => exact refsValueSpec_sub_refsGen hvi hx
  | gen g => exact refsValueSpec_sub_refsGen hvt hx

/-- **`var a, b = f()`**: for every `var` spec (package-level or local) whose names share one
multi-value initialiser, EACH name that is Used keeps every object the initialiser mentions —
not only the first name. -/
theorem walk_multi_init_safe (p : Pkg) (hok : p.ok = true) {v : VarD} (hv : v ∈ allVarSpecs p)
    (hshared : v.names.length ≠ v.values.length) {i : Nat} {nc : Obj × NameCls}
    (hi : v.names[i]? = some nc) (hu : verdictOf p nc.1 = some .used)
    {y : Obj} (hy : y ∈ v.values.flatten) (hy0 : y ≠ 0) : verdictOf p y = some .used := by
  refine walk_refs_safe p hok (d := nc.1) (refsValueSpec_sub_refsOf hv ?_) hy0 hu
  unfold refsValueSpec
  refine List.mem_flatMap.2 ⟨(nc, i), List.mem_zipIdx_iff_getElem?.2 hi, ?_⟩
  refine List.mem_append.2 (.inr (mem_pairs.2 ⟨rfl, ?_⟩))
  unfold initOf
  rw [if_neg hshared]
  exact hy

/-! ### implicit interface satisfaction -/

theorem lookupSel_spec {ms : List Sel} {n : Nat} {s : Sel} (h : lookupSel ms n = some s) :
    s ∈ ms ∧ s.name = n := by
  unfold lookupSel at h
  refine ⟨List.mem_of_find?_eq_some h, ?_⟩
  have := List.find?_some h
  simpa using this

theorem lookupSel_isSome {ms : List Sel} {n : Nat} (h : ∃ s, s ∈ ms ∧ s.name = n) :
    (lookupSel ms n).isSome = true := by
  unfold lookupSel
  rw [List.find?_isSome]
  obtain ⟨s, hs, hn⟩ := h
  exact ⟨s, hs, by simp [hn]⟩

theorem selEv_mem_procMS {ifs : List (List Nat)} {t : TypeD} {ms : List Sel} {full : List Nat} {s : Sel}
    (hi : t.underIface = false) (hfull : full ∈ ifs) (himpl : implementsB ms full = true)
    (hs : s ∈ selsFor ms full) {e : Event} (he : e ∈ selEv t.obj s) : e ∈ procMS ifs t ms := by
  unfold procMS
  refine List.mem_append.2 (.inr ?_)
  rw [hi]
  simp only [Bool.false_eq_true, if_false]
  refine List.mem_flatMap.2 ⟨full, hfull, ?_⟩
  rw [if_pos himpl]
  exact List.mem_flatMap.2 ⟨s, hs, he⟩

/-- **Deletion safety, implicit interface satisfaction.**  For every abstract package, every
named type `t` — declared at package level OR inside a function —, every known interface
(`full` = its complete method set) and both method sets (`T` and `*T`): if the method set
implements the interface and `t` is Used, then for every method of the interface the
implementing method is Used and so is every embedded field it is promoted through.  Removing
what is not Used therefore never breaks an implicit conversion of a kept type to a known
interface. -/
theorem walk_impl_safe (p : Pkg) {t : TypeD} (ht : t ∈ allTypes p) (ha : t.alias = false)
    (hi : t.underIface = false) {full : List Nat} (hfull : full ∈ ifaceLits p)
    {ms : List Sel} (hms : ms = t.msV ∨ ms = t.msP)
    (himpl : ∀ n, n ∈ full → ∃ s, s ∈ ms ∧ s.name = n)
    (hu : verdictOf p t.obj = some .used) :
    ∀ n, n ∈ full → ∃ s, s ∈ ms ∧ s.name = n ∧
      (∀ f, f ∈ s.path → f ≠ 0 → verdictOf p f = some .used) ∧
      (s.obj ≠ 0 → verdictOf p s.obj = some .used) := by
  intro n hn
  have himplB : implementsB ms full = true :=
    List.all_eq_true.2 (fun m hm => lookupSel_isSome (himpl m hm))
  obtain ⟨s, hs⟩ := Option.isSome_iff_exists.1 (lookupSel_isSome (himpl n hn))
  obtain ⟨hsm, hsn⟩ := lookupSel_spec hs
  have hsel : s ∈ selsFor ms full := List.mem_filterMap.2 ⟨n, hn, hs⟩
  have hnamed : t ∈ namedTypes p := by
    unfold namedTypes
    exact List.mem_filter.2 ⟨ht, by simp [ha]⟩
  have hev : ∀ e, e ∈ selEv t.obj s → e ∈ walk p := by
    intro e he
    have h1 : e ∈ procMS (ifaceLits p) t ms := selEv_mem_procMS hi hfull himplB hsel he
    have h2 : e ∈ procType (ifaceLits p) t := by
      unfold procType
      rcases hms with rfl | rfl
      · exact List.mem_append.2 (.inl h1)
      · exact List.mem_append.2 (.inr h1)
    unfold walk
    exact List.mem_append.2 (.inr (List.mem_flatMap.2 ⟨t, hnamed, h2⟩))
  refine ⟨s, hsm, hsn, ?_, ?_⟩
  · intro f hf hf0
    refine use_propagates p (hev _ ?_) hf0 (.inr hu)
    unfold selEv
    exact List.mem_append.2 (.inl (use_mem_readsEv hf))
  · intro h0
    refine use_propagates p (hev _ ?_) h0 (.inr hu)
    unfold selEv
    exact List.mem_append.2 (.inr (by simp))

/-! ### completeness: no identifier ⇒ no use edge ⇒ reported -/

theorem see_not_mem_readsEv {by_ o w : Obj} {l : List Obj} : Event.see o w ∉ readsEv by_ l := by
  intro h
  obtain ⟨_, _, h⟩ := mem_readsEv.1 h
  cases h

theorem use_mem_readsEv_iff {by_ u b : Obj} {l : List Obj} :
    Event.use u b ∈ readsEv by_ l ↔ u ∈ l ∧ b = by_ := by
  rw [mem_readsEv]
  constructor
  · rintro ⟨o, ho, h⟩; injection h with h1 h2; subst h1 h2; exact ⟨ho, rfl⟩
  · rintro ⟨hu, rfl⟩; exact ⟨u, hu, rfl⟩

theorem mem_of_mem_zipIdx {α : Type} {l : List α} {x : α × Nat} (h : x ∈ l.zipIdx) : x.1 ∈ l := by
  have := List.mem_zipIdx_iff_getElem?.1 (show (x.1, x.2) ∈ l.zipIdx from h)
  exact List.mem_of_getElem? this

theorem exists_zipIdx_of_mem {α : Type} {l : List α} {a : α} (h : a ∈ l) : ∃ i, (a, i) ∈ l.zipIdx := by
  obtain ⟨i, hi⟩ := List.mem_iff_getElem?.1 h
  exact ⟨i, List.mem_zipIdx_iff_getElem?.2 hi⟩

theorem getD_sub_flatten {l : List (List Obj)} {i : Nat} {y : Obj} (h : y ∈ l.getD i []) : y ∈ l.flatten := by
  rw [List.getD_eq_getElem?_getD] at h
  cases hq : l[i]? with
  | none => rw [hq] at h; simp at h
  | some x =>
    rw [hq] at h
    exact List.mem_flatten.2 ⟨x, List.mem_of_getElem? hq, by simpa using h⟩

theorem varValue_sub_initOf (v : VarD) (i : Nat) {y : Obj} (h : y ∈ varValue v i) : y ∈ initOf v i := by
  unfold varValue at h
  unfold initOf
  by_cases hl : v.names.length = v.values.length
  · rw [if_pos hl] at h ⊢; exact h
  · rw [if_neg hl] at h ⊢; exact getD_sub_flatten h

theorem constValue_sub_initOf (v : VarD) (i : Nat) {y : Obj} (h : y ∈ constValue v i) : y ∈ initOf v i := by
  unfold constValue at h
  unfold initOf
  by_cases h0 : v.values.length ≠ 0
  · rw [if_pos h0] at h
    by_cases hl : v.names.length = v.values.length
    · rw [if_pos hl]; exact h
    · rw [if_neg hl]; exact getD_sub_flatten h
  · rw [if_neg h0] at h; simp at h

/-- second components -/
abbrev tgts (l : List (Obj × Obj)) : List Obj := l.map (·.2)

theorem tgts_pairs {d y : Obj} {l : List Obj} (h : y ∈ l) : y ∈ tgts (pairs d l) := by
  simp only [tgts, List.mem_map]
  exact ⟨(d, y), mem_pairs.2 ⟨rfl, h⟩, rfl⟩

theorem tgts_mono {a b : List (Obj × Obj)} (h : ∀ x, x ∈ a → x ∈ b) {y : Obj} (hy : y ∈ tgts a) : y ∈ tgts b := by
  simp only [tgts, List.mem_map] at hy ⊢
  obtain ⟨x, hx, rfl⟩ := hy
  exact ⟨x, h x hx, rfl⟩

theorem tgts_flatMap {α : Type} {l : List α} {f : α → List (Obj × Obj)} {a : α} (ha : a ∈ l) {y : Obj}
    (hy : y ∈ tgts (f a)) : y ∈ tgts (l.flatMap f) :=
  tgts_mono (fun x hx => List.mem_flatMap.2 ⟨a, ha, hx⟩) hy

theorem use_walkVarName {by_ : Obj} {v : VarD} {x : (Obj × NameCls) × Nat} (hx : x ∈ v.names.zipIdx)
    {u b : Obj} (h : Event.use u b ∈ walkVarName by_ v x.2 x.1) :
    u ∈ tgts (refsValueSpec v) ∨ u ∈ extraValueSpec v := by
  unfold walkVarName at h
  simp only [List.mem_append, List.mem_singleton, reduceCtorEq, false_or, use_mem_readsEv_iff] at h
  have hr : ∀ y, y ∈ v.typeReads ∨ y ∈ initOf v x.2 → y ∈ tgts (refsValueSpec v) := by
    intro y hy
    unfold refsValueSpec
    refine tgts_flatMap hx ?_
    rcases hy with hy | hy
    · exact tgts_mono (fun z hz => List.mem_append.2 (.inl hz)) (tgts_pairs hy)
    · exact tgts_mono (fun z hz => List.mem_append.2 (.inr hz)) (tgts_pairs hy)
  have hex : u = x.1.1 → x.1.2 ≠ .plain → u ∈ extraValueSpec v := by
    intro hu hc
    unfold extraValueSpec
    exact List.mem_filterMap.2 ⟨x.1, mem_of_mem_zipIdx hx, by simp [hc, hu]⟩
  rcases h with ((h | h) | h) | h
  · exact .inl (hr u (.inl h.1))
  · exact .inl (hr u (.inr (varValue_sub_initOf v _ h.1)))
  · split at h
    · rename_i hc
      simp only [List.mem_singleton, Event.use.injEq] at h
      exact .inr (hex h.1 (by rw [hc.1]; decide))
    · cases h
  · split at h
    · rename_i hc
      simp only [List.mem_singleton, Event.use.injEq] at h
      exact .inr (hex h.1 (by rw [hc]; decide))
    · cases h

theorem use_walkConstName {by_ : Obj} {v : VarD} {x : (Obj × NameCls) × Nat} (hx : x ∈ v.names.zipIdx)
    {u b : Obj} (h : Event.use u b ∈ walkConstName by_ v x.2 x.1) :
    u ∈ tgts (refsValueSpec v) ∨ u ∈ extraValueSpec v := by
  unfold walkConstName at h
  simp only [List.mem_append, List.mem_singleton, reduceCtorEq, false_or, use_mem_readsEv_iff] at h
  have hr : ∀ y, y ∈ v.typeReads ∨ y ∈ initOf v x.2 → y ∈ tgts (refsValueSpec v) := by
    intro y hy
    unfold refsValueSpec
    refine tgts_flatMap hx ?_
    rcases hy with hy | hy
    · exact tgts_mono (fun z hz => List.mem_append.2 (.inl hz)) (tgts_pairs hy)
    · exact tgts_mono (fun z hz => List.mem_append.2 (.inr hz)) (tgts_pairs hy)
  have hex : u = x.1.1 → x.1.2 ≠ .plain → u ∈ extraValueSpec v := by
    intro hu hc
    unfold extraValueSpec
    exact List.mem_filterMap.2 ⟨x.1, mem_of_mem_zipIdx hx, by simp [hc, hu]⟩
  rcases h with (h | h) | h
  · exact .inl (hr u (.inl h.1))
  · exact .inl (hr u (.inr (constValue_sub_initOf v _ h.1)))
  · split at h
    · rename_i hc
      simp only [List.mem_singleton, Event.use.injEq] at h
      exact .inr (hex h.1 (by rw [hc]; decide))
    · split at h
      · rename_i hc
        simp only [List.mem_singleton, Event.use.injEq] at h
        exact .inr (hex h.1 (by rw [hc.1]; decide))
      · cases h

theorem use_ringEv {g : List Obj} {u b : Obj} (h : Event.use u b ∈ ringEv g) : u ∈ g ∧ 2 ≤ g.length := by
  match g, h with
  | [], h => simp [ringEv] at h
  | [a], h => simp [ringEv] at h
  | a :: c :: rest, h =>
    refine ⟨?_, by simp⟩
    unfold ringEv at h
    rcases List.mem_append.1 h with h | h
    · obtain ⟨x, hx, he⟩ := List.mem_map.1 h
      injection he with h1 h2
      subst h1
      have := (List.of_mem_zip hx).2
      exact List.mem_of_mem_tail this
    · simp only [List.head?_cons] at h
      split at h
      · rename_i f l hf hl
        split at h
        · simp only [List.mem_singleton, Event.use.injEq] at h
          injection hf with hf
          rw [h.1, ← hf]; simp
        · cases h
      · cases h

theorem use_walkType {by_ : Obj} {t : TypeD} {u b : Obj} (h : Event.use u b ∈ walkType by_ t) :
    u ∈ tgts (refsType t) ∨ u ∈ extraType t := by
  unfold walkType at h
  simp only [List.mem_append, List.mem_singleton, reduceCtorEq, false_or] at h
  have hnp : u = t.obj → t.cls ≠ .plain → u ∈ extraType t := by
    intro hu hc
    unfold extraType
    refine List.mem_append.2 (.inl ?_)
    simp [hc, hu]
  rcases h with (h | h) | h
  · split at h
    · rename_i hc
      simp only [List.mem_singleton, Event.use.injEq] at h
      exact .inr (hnp h.1 (by rw [hc.1]; decide))
    · cases h
  · unfold walkBody at h
    unfold refsType extraType
    cases hb : t.body with
    | struct fs es =>
      rw [hb] at h
      simp only []
      rcases List.mem_append.1 h with h | h
      · obtain ⟨e, he, hm⟩ := List.mem_flatMap.1 h
        unfold walkEmb at hm
        simp only [List.mem_append, List.mem_cons, reduceCtorEq, false_or, Event.use.injEq,
          List.not_mem_nil, or_false] at hm
        rcases hm with (hm | hm) | hm
        · refine .inl ?_
          simp only [tgts, List.mem_map]
          exact ⟨(e.obj, e.typeObj), List.mem_append.2 (.inl (List.mem_map.2 ⟨e, he, rfl⟩)), hm.1.symm⟩
        · split at hm
          · simp only [List.mem_singleton, Event.use.injEq] at hm
            exact .inr (List.mem_append.2 (.inr (List.mem_append.2 (.inl (List.mem_map.2 ⟨e, he, hm.1.symm⟩)))))
          · cases hm
        · split at hm
          · simp only [List.mem_singleton, Event.use.injEq] at hm
            exact .inr (List.mem_append.2 (.inr (List.mem_append.2 (.inl (List.mem_map.2 ⟨e, he, hm.1.symm⟩)))))
          · cases hm
      · obtain ⟨f, hf, hm⟩ := List.mem_flatMap.1 h
        unfold walkField at hm
        simp only [List.mem_append, List.mem_singleton, reduceCtorEq, false_or, use_mem_readsEv_iff] at hm
        rcases hm with hm | hm
        · refine .inl (tgts_mono (fun z hz => List.mem_append.2 (.inr hz)) ?_)
          exact tgts_flatMap hf (tgts_pairs hm.1)
        · split at hm
          · rename_i hc
            simp only [List.mem_singleton, Event.use.injEq] at hm
            refine .inr (List.mem_append.2 (.inr (List.mem_append.2 (.inr (List.mem_filterMap.2 ⟨f, hf, ?_⟩)))))
            have : f.cls ≠ .plain := by rcases hc with hc | hc <;> rw [hc] <;> decide
            simp [this, hm.1]
          · cases hm
    | iface ms embeds full =>
      rw [hb] at h
      simp only []
      rcases List.mem_append.1 h with h | h
      · exact .inl (tgts_mono (fun z hz => List.mem_append.2 (.inl hz)) (tgts_pairs (use_mem_readsEv_iff.1 h).1))
      · obtain ⟨m, hm, hq⟩ := List.mem_flatMap.1 h
        unfold walkIMeth at hq
        simp only [List.mem_append, List.mem_cons, reduceCtorEq, false_or, Event.use.injEq,
          List.not_mem_nil, or_false, use_mem_readsEv_iff] at hq
        rcases hq with hq | hq
        · exact .inr (List.mem_append.2 (.inr (List.mem_map.2 ⟨m, hm, hq.1.symm⟩)))
        · refine .inl (tgts_mono (fun z hz => List.mem_append.2 (.inr hz)) ?_)
          exact tgts_flatMap hm (tgts_pairs hq.1)
    | other rs =>
      rw [hb] at h
      simp only []
      exact .inl (tgts_pairs (use_mem_readsEv_iff.1 h).1)
  · split at h
    · rename_i hc
      simp only [List.mem_singleton, Event.use.injEq] at h
      exact .inr (hnp h.1 (by rw [hc]; decide))
    · cases h

theorem use_walkGen {by_ : Obj} {g : GenD} {u b : Obj} (h : Event.use u b ∈ walkGen by_ g) :
    u ∈ tgts (refsGen g) ∨ u ∈ extraGen g := by
  cases g with
  | types l =>
    obtain ⟨t, ht, hm⟩ := List.mem_flatMap.1 h
    rcases use_walkType hm with h1 | h1
    · exact .inl (tgts_flatMap ht h1)
    · exact .inr (List.mem_flatMap.2 ⟨t, ht, h1⟩)
  | vars l =>
    obtain ⟨v, hv, hm⟩ := List.mem_flatMap.1 h
    obtain ⟨x, hx, hm⟩ := List.mem_flatMap.1 hm
    rcases use_walkVarName hx hm with h1 | h1
    · exact .inl (tgts_flatMap hv h1)
    · exact .inr (List.mem_flatMap.2 ⟨v, hv, h1⟩)
  | consts l groups =>
    rcases List.mem_append.1 h with h | h
    · obtain ⟨v, hv, hm⟩ := List.mem_flatMap.1 h
      obtain ⟨x, hx, hm⟩ := List.mem_flatMap.1 hm
      rcases use_walkConstName hx hm with h1 | h1
      · exact .inl (tgts_flatMap hv h1)
      · exact .inr (List.mem_append.2 (.inl (List.mem_flatMap.2 ⟨v, hv, h1⟩)))
    · obtain ⟨g, hg, hm⟩ := List.mem_flatMap.1 h
      obtain ⟨hu, hl⟩ := use_ringEv hm
      refine .inr (List.mem_append.2 (.inr (List.mem_flatten.2 ⟨g, List.mem_filter.2 ⟨hg, by simpa using hl⟩, hu⟩)))

theorem use_walkItem {f : Obj} {it : Item} {u b : Obj} (h : Event.use u b ∈ walkItem f it) :
    u ∈ tgts (refsItem f it) ∨ u ∈ extraItem it := by
  cases it with
  | scope o isVar =>
    unfold walkItem at h
    simp only [List.mem_append, List.mem_singleton, reduceCtorEq, false_or] at h
    split at h
    · simp only [List.mem_singleton, Event.use.injEq] at h
      exact .inr (by simp [extraItem, h.1])
    · cases h
  | reads l => exact .inl (tgts_pairs (use_mem_readsEv_iff.1 h).1)
  | param q tr =>
    unfold walkItem at h
    simp only [List.mem_append, List.mem_singleton, Event.use.injEq, use_mem_readsEv_iff] at h
    rcases h with h | h
    · exact .inr (by simp [extraItem, h.1])
    · exact .inl (tgts_pairs h.1)
  | gen g => exact use_walkGen h

theorem use_walkTop {p : Pkg} {t : Top} {u b : Obj} (h : Event.use u b ∈ walkTop p t) :
    u ∈ tgts (refsTop t) ∨ u ∈ extraTop t := by
  cases t with
  | func f =>
    unfold walkTop walkFunc at h
    simp only [List.mem_append, List.mem_singleton, reduceCtorEq, false_or] at h
    unfold extraTop
    rcases h with ((h | h) | h)
    · split at h
      · rename_i hr
        simp only [List.mem_singleton, Event.use.injEq] at h
        refine .inr (List.mem_append.2 (.inl (List.mem_append.2 (.inl ?_))))
        have : f.name ≠ .plain := by
          intro hp; unfold rootFunc at hr; rw [hp] at hr; simp at hr
        simp [this, h.1]
      · cases h
    · obtain ⟨it, hit, hm⟩ := List.mem_flatMap.1 h
      rcases use_walkItem hm with h1 | h1
      · exact .inl (tgts_flatMap hit h1)
      · exact .inr (List.mem_append.2 (.inl (List.mem_append.2 (.inr (List.mem_flatMap.2 ⟨it, hit, h1⟩)))))
    · obtain ⟨q, hq, hm⟩ := List.mem_flatMap.1 h
      unfold walkParam at hm
      simp only [List.mem_append, List.mem_singleton, reduceCtorEq, false_or] at hm
      split at hm
      · simp only [List.mem_singleton, Event.use.injEq] at hm
        exact .inr (List.mem_append.2 (.inr (List.mem_map.2 ⟨q, hq, hm.1.symm⟩)))
      · cases hm
  | gen g => exact use_walkGen h

theorem use_selEv {by_ : Obj} {s : Sel} {u b : Obj} (h : Event.use u b ∈ selEv by_ s) : u ∈ selObjs s := by
  unfold selEv at h
  unfold selObjs
  rcases List.mem_append.1 h with h | h
  · exact List.mem_append.2 (.inl (use_mem_readsEv_iff.1 h).1)
  · simp only [List.mem_singleton, Event.use.injEq] at h
    exact List.mem_append.2 (.inr (by simp [h.1]))

theorem use_procMS {ifs : List (List Nat)} {t : TypeD} {ms : List Sel} {u b : Obj}
    (h : Event.use u b ∈ procMS ifs t ms) : u ∈ ms.flatMap selObjs := by
  unfold procMS at h
  rcases List.mem_append.1 h with h | h
  · obtain ⟨s, hs, hm⟩ := List.mem_flatMap.1 h
    exact List.mem_flatMap.2 ⟨s, (List.mem_filter.1 hs).1, use_selEv hm⟩
  · split at h
    · cases h
    · obtain ⟨full, _, hm⟩ := List.mem_flatMap.1 h
      split at hm
      · obtain ⟨s, hs, hm⟩ := List.mem_flatMap.1 hm
        obtain ⟨n, _, hl⟩ := List.mem_filterMap.1 hs
        exact List.mem_flatMap.2 ⟨s, (lookupSel_spec hl).1, use_selEv hm⟩
      · cases hm

/-- **Rule inventory of the walk.**  Whatever `use(u, by)` call the walk makes, `u` is named
by a `//go:linkname`, or is denoted by an identifier of the package, or is one of the
`extraTargets` (a name that is not plain, a scope object or parameter, an embedded field,
an interface method, a member of a constant group, part of a method-set selection). -/
theorem use_target_cases (p : Pkg) {u b : Obj} (h : Event.use u b ∈ walk p) :
    u ∈ p.linknames ∨ u ∈ tgts (refsOf p) ∨ u ∈ extraTargets p := by
  unfold walk at h
  rcases List.mem_append.1 h with h | h
  · rcases List.mem_append.1 h with h | h
    · exact .inl (use_mem_readsEv_iff.1 h).1
    · obtain ⟨t, ht, hm⟩ := List.mem_flatMap.1 h
      rcases use_walkTop hm with h1 | h1
      · exact .inr (.inl (tgts_flatMap ht h1))
      · exact .inr (.inr (List.mem_append.2 (.inl (List.mem_flatMap.2 ⟨t, ht, h1⟩))))
  · obtain ⟨t, ht, hm⟩ := List.mem_flatMap.1 h
    refine .inr (.inr (List.mem_append.2 (.inr (List.mem_flatMap.2 ⟨t, (List.mem_filter.1 ht).1, ?_⟩))))
    unfold procType at hm
    rcases List.mem_append.1 hm with hm | hm
    · obtain ⟨s, hs, hx⟩ := List.mem_flatMap.1 (use_procMS hm)
      exact List.mem_flatMap.2 ⟨s, List.mem_append.2 (.inl hs), hx⟩
    · obtain ⟨s, hs, hx⟩ := List.mem_flatMap.1 (use_procMS hm)
      exact List.mem_flatMap.2 ⟨s, List.mem_append.2 (.inr hs), hx⟩

/-! #### owners -/

theorem see_walkType {by_ : Obj} {t : TypeD} {o w : Obj} (h : Event.see o w ∈ walkType by_ t) :
    (w = by_ ∧ o = t.obj) ∨ o ∈ ownedType t := by
  unfold walkType at h
  simp only [List.mem_append, List.mem_singleton, Event.see.injEq] at h
  rcases h with ((h | h) | h) | h
  · exact .inl ⟨h.2, h.1⟩
  · split at h <;> simp at h
  · refine .inr ?_
    unfold walkBody at h
    unfold ownedType
    cases hb : t.body with
    | struct fs es =>
      rw [hb] at h
      simp only []
      rcases List.mem_append.1 h with h | h
      · obtain ⟨e, he, hm⟩ := List.mem_flatMap.1 h
        unfold walkEmb at hm
        simp only [List.mem_append, List.mem_cons, reduceCtorEq, false_or, Event.see.injEq,
          List.not_mem_nil, or_false] at hm
        rcases hm with (hm | hm) | hm
        · exact List.mem_append.2 (.inl (List.mem_map.2 ⟨e, he, hm.1.symm⟩))
        · split at hm <;> simp at hm
        · split at hm <;> simp at hm
      · obtain ⟨f, hf, hm⟩ := List.mem_flatMap.1 h
        unfold walkField at hm
        simp only [List.mem_append, List.mem_singleton, Event.see.injEq] at hm
        rcases hm with (hm | hm) | hm
        · exact List.mem_append.2 (.inr (List.mem_map.2 ⟨f, hf, hm.1.symm⟩))
        · exact absurd hm see_not_mem_readsEv
        · split at hm <;> simp at hm
    | iface ms embeds full =>
      rw [hb] at h
      simp only []
      rcases List.mem_append.1 h with h | h
      · exact absurd h see_not_mem_readsEv
      · obtain ⟨m, hm, hq⟩ := List.mem_flatMap.1 h
        unfold walkIMeth at hq
        simp only [List.mem_append, List.mem_cons, reduceCtorEq, false_or, Event.see.injEq,
          List.not_mem_nil, or_false] at hq
        rcases hq with hq | hq
        · exact List.mem_map.2 ⟨m, hm, hq.1.symm⟩
        · exact absurd hq see_not_mem_readsEv
    | other rs =>
      rw [hb] at h
      exact absurd h see_not_mem_readsEv
  · split at h <;> simp at h

theorem see_walkVarName {by_ : Obj} {v : VarD} {i : Nat} {nc : Obj × NameCls} {o w : Obj}
    (h : Event.see o w ∈ walkVarName by_ v i nc) : w = by_ ∧ o = nc.1 := by
  unfold walkVarName at h
  simp only [List.mem_append, List.mem_singleton, Event.see.injEq] at h
  rcases h with (((h | h) | h) | h) | h
  · exact ⟨h.2, h.1⟩
  · exact absurd h see_not_mem_readsEv
  · exact absurd h see_not_mem_readsEv
  · split at h <;> simp at h
  · split at h <;> simp at h

theorem see_walkConstName {by_ : Obj} {v : VarD} {i : Nat} {nc : Obj × NameCls} {o w : Obj}
    (h : Event.see o w ∈ walkConstName by_ v i nc) : w = by_ ∧ o = nc.1 := by
  unfold walkConstName at h
  simp only [List.mem_append, List.mem_singleton, Event.see.injEq] at h
  rcases h with ((h | h) | h) | h
  · exact ⟨h.2, h.1⟩
  · exact absurd h see_not_mem_readsEv
  · exact absurd h see_not_mem_readsEv
  · split at h
    · simp at h
    · split at h <;> simp at h

theorem see_not_mem_ringEv {g : List Obj} {o w : Obj} : Event.see o w ∉ ringEv g := by
  intro h
  unfold ringEv at h
  rcases List.mem_append.1 h with h | h
  · obtain ⟨_, _, he⟩ := List.mem_map.1 h
    cases he
  · split at h
    · split at h <;> simp at h
    · cases h

theorem see_walkGen {by_ : Obj} {g : GenD} {o w : Obj} (h : Event.see o w ∈ walkGen by_ g) :
    (w = by_ ∧ o ∈ declaredGen g) ∨ o ∈ ownedGenInner g := by
  cases g with
  | types l =>
    obtain ⟨t, ht, hm⟩ := List.mem_flatMap.1 h
    rcases see_walkType hm with ⟨h1, h2⟩ | h1
    · exact .inl ⟨h1, List.mem_map.2 ⟨t, ht, h2.symm⟩⟩
    · exact .inr (List.mem_flatMap.2 ⟨t, ht, h1⟩)
  | vars l =>
    obtain ⟨v, hv, hm⟩ := List.mem_flatMap.1 h
    obtain ⟨x, hx, hm⟩ := List.mem_flatMap.1 hm
    obtain ⟨h1, h2⟩ := see_walkVarName hm
    exact .inl ⟨h1, List.mem_flatMap.2 ⟨v, hv, List.mem_map.2 ⟨x.1, mem_of_mem_zipIdx hx, h2.symm⟩⟩⟩
  | consts l groups =>
    rcases List.mem_append.1 h with h | h
    · obtain ⟨v, hv, hm⟩ := List.mem_flatMap.1 h
      obtain ⟨x, hx, hm⟩ := List.mem_flatMap.1 hm
      obtain ⟨h1, h2⟩ := see_walkConstName hm
      exact .inl ⟨h1, List.mem_flatMap.2 ⟨v, hv, List.mem_map.2 ⟨x.1, mem_of_mem_zipIdx hx, h2.symm⟩⟩⟩
    · obtain ⟨g, _, hm⟩ := List.mem_flatMap.1 h
      exact absurd hm see_not_mem_ringEv

theorem see_walkItem {f : Obj} {it : Item} {o w : Obj} (h : Event.see o w ∈ walkItem f it) :
    o ∈ ownedItem it ∨ (w = 0 ∧ f = 0) := by
  cases it with
  | scope q isVar =>
    unfold walkItem at h
    simp only [List.mem_append, List.mem_singleton, Event.see.injEq] at h
    rcases h with h | h
    · exact .inl (by simp [ownedItem, h.1])
    · split at h <;> simp at h
  | reads l => exact absurd h see_not_mem_readsEv
  | param q tr =>
    unfold walkItem at h
    simp only [List.mem_append, List.mem_singleton, reduceCtorEq, false_or] at h
    exact absurd h see_not_mem_readsEv
  | gen g =>
    rcases see_walkGen h with ⟨_, h2⟩ | h2
    · exact .inl (List.mem_append.2 (.inl h2))
    · exact .inl (List.mem_append.2 (.inr h2))

theorem see_not_mem_selEv {by_ : Obj} {s : Sel} {o w : Obj} : Event.see o w ∉ selEv by_ s := by
  intro h
  unfold selEv at h
  rcases List.mem_append.1 h with h | h
  · exact absurd h see_not_mem_readsEv
  · simp at h

theorem see_not_mem_procMS {ifs : List (List Nat)} {t : TypeD} {ms : List Sel} {o w : Obj} :
    Event.see o w ∉ procMS ifs t ms := by
  intro h
  unfold procMS at h
  rcases List.mem_append.1 h with h | h
  · obtain ⟨s, _, hm⟩ := List.mem_flatMap.1 h
    exact absurd hm see_not_mem_selEv
  · split at h
    · cases h
    · obtain ⟨full, _, hm⟩ := List.mem_flatMap.1 h
      split at hm
      · obtain ⟨s, _, hm⟩ := List.mem_flatMap.1 hm
        exact absurd hm see_not_mem_selEv
      · cases hm

/-- every `see(o, w)` call with a non-nil owner is made for one of the `ownedObjs` -/
theorem see_owner_cases (p : Pkg) {o w : Obj} (h : Event.see o w ∈ walk p) (hw : w ≠ 0) : o ∈ ownedObjs p := by
  unfold walk at h
  rcases List.mem_append.1 h with h | h
  · rcases List.mem_append.1 h with h | h
    · exact absurd h see_not_mem_readsEv
    · obtain ⟨t, ht, hm⟩ := List.mem_flatMap.1 h
      refine List.mem_flatMap.2 ⟨t, ht, ?_⟩
      cases t with
      | func f =>
        unfold walkTop walkFunc at hm
        simp only [List.mem_append, List.mem_singleton, Event.see.injEq] at hm
        unfold ownedTop
        rcases hm with ((hm | hm) | hm) | hm
        · exact absurd hm.2 hw
        · split at hm <;> simp at hm
        · obtain ⟨it, hit, hq⟩ := List.mem_flatMap.1 hm
          rcases see_walkItem hq with h1 | h1
          · exact List.mem_append.2 (.inl (List.mem_flatMap.2 ⟨it, hit, h1⟩))
          · exact absurd h1.1 hw
        · obtain ⟨q, hq, hx⟩ := List.mem_flatMap.1 hm
          unfold walkParam at hx
          simp only [List.mem_append, List.mem_singleton, Event.see.injEq] at hx
          rcases hx with hx | hx
          · exact List.mem_append.2 (.inr (List.mem_map.2 ⟨q, hq, hx.1.symm⟩))
          · split at hx <;> simp at hx
      | gen g =>
        rcases see_walkGen hm with ⟨h1, _⟩ | h1
        · exact absurd h1 hw
        · exact h1
  · obtain ⟨t, _, hm⟩ := List.mem_flatMap.1 h
    unfold procType at hm
    rcases List.mem_append.1 hm with hm | hm <;> exact absurd hm see_not_mem_procMS

/-! #### package-level objects are seen without an owner -/

theorem see_plainNames_var {v : VarD} {o : Obj} (h : o ∈ plainNames v) : Event.see o 0 ∈ walkVar 0 v := by
  unfold plainNames at h
  obtain ⟨nc, hnc, hq⟩ := List.mem_filterMap.1 h
  obtain ⟨i, hi⟩ := exists_zipIdx_of_mem hnc
  split at hq
  · injection hq with hq
    subst hq
    exact List.mem_flatMap.2 ⟨(nc, i), hi, by simp [walkVarName]⟩
  · cases hq

theorem see_plainNames_const {v : VarD} {o : Obj} (h : o ∈ plainNames v) : Event.see o 0 ∈ walkConst 0 v := by
  unfold plainNames at h
  obtain ⟨nc, hnc, hq⟩ := List.mem_filterMap.1 h
  obtain ⟨i, hi⟩ := exists_zipIdx_of_mem hnc
  split at hq
  · injection hq with hq
    subst hq
    exact List.mem_flatMap.2 ⟨(nc, i), hi, by simp [walkConstName]⟩
  · cases hq

theorem see_pkgLevel (p : Pkg) {o : Obj} (h : o ∈ pkgLevelPlain p) : Event.see o 0 ∈ walk p := by
  obtain ⟨t, ht, hm⟩ := List.mem_flatMap.1 h
  unfold walk
  refine List.mem_append.2 (.inl (List.mem_append.2 (.inr (List.mem_flatMap.2 ⟨t, ht, ?_⟩))))
  cases t with
  | func f =>
    simp only [pkgLevelPlainTop] at hm
    split at hm
    · simp only [List.mem_singleton] at hm
      subst hm
      simp [walkTop, walkFunc]
    · cases hm
  | gen g =>
    cases g with
    | types l =>
      simp only [pkgLevelPlainTop] at hm
      obtain ⟨t, ht, hq⟩ := List.mem_filterMap.1 hm
      split at hq
      · injection hq with hq
        subst hq
        exact List.mem_flatMap.2 ⟨t, ht, by simp [walkType]⟩
      · cases hq
    | vars l =>
      simp only [pkgLevelPlainTop] at hm
      obtain ⟨v, hv, hq⟩ := List.mem_flatMap.1 hm
      exact List.mem_flatMap.2 ⟨v, hv, see_plainNames_var hq⟩
    | consts l gr =>
      simp only [pkgLevelPlainTop] at hm
      obtain ⟨v, hv, hq⟩ := List.mem_flatMap.1 hm
      exact List.mem_append.2 (.inl (List.mem_flatMap.2 ⟨v, hv, see_plainNames_const hq⟩))

/-- **Completeness.**  For every abstract package: an unexported package-level function,
type, variable or stand-alone constant that no identifier of the package refers to
(`zeroRef`, decidable: also not named by a `//go:linkname`, and none of the objects a rule
uses without an identifier) is reported: its verdict is Unused — not Used, not Quiet.
This is the step "no identifier ⇒ no use edge" over the modelled rules, composed with the
builder (`Verif.C17.build`) and the colouring (`zero_ref_unowned_reported`). -/
theorem walk_zero_ref_reported (p : Pkg) (o : Obj) (h : zeroRef p o = true) :
    verdictOf p o = some .unused := by
  unfold zeroRef at h
  simp only [Bool.and_eq_true, bne_iff_ne, ne_eq, List.contains_eq_mem, decide_eq_true_eq,
    Bool.not_eq_eq_eq_not, Bool.not_true, decide_eq_false_iff_not] at h
  obtain ⟨⟨⟨⟨⟨h0, hpl⟩, hln⟩, href⟩, hex⟩, hown⟩ := h
  obtain ⟨E, hi, hE⟩ := build_inv Cfg.all (walk p)
  have hwalk : ∀ e, e ∈ E → e ∈ walk p := fun e he => (List.mem_filter.1 ((hE e).1 he)).1
  have hsee : Event.see o 0 ∈ E :=
    (hE _).2 (List.mem_filter.2 ⟨see_pkgLevel p hpl, keep_all_see o 0 h0⟩)
  have hreg : (build Cfg.all (walk p)).Reg o := hi.reg _ hsee o (by simp [Event.mentions])
  have hmem : o ∈ (build Cfg.all (walk p)).objs := by
    rcases hreg with h | h
    · exact absurd h h0
    · exact h
  have hwf := build_wf Cfg.all (walk p)
  have hid0 : (build Cfg.all (walk p)).idOf o ≠ 0 := by
    unfold BState.idOf; simp [h0]
  have hlt : (build Cfg.all (walk p)).idOf o < (build Cfg.all (walk p)).graph.N := by
    rw [graph_N]; exact idOf_lt hi.wf hreg
  have hin : ∀ m, (build Cfg.all (walk p)).idOf o ∉ (build Cfg.all (walk p)).graph.usesOf m := by
    intro m hm
    obtain ⟨u, w, he, _, hu⟩ := (hi.uses_iff m _).1 hm
    have huo : u = o := idOf_inj (hi.reg _ he u (by simp [Event.mentions])) hreg hi.wf hu
    subst huo
    rcases use_target_cases p (hwalk _ he) with h1 | h1 | h1
    · exact hln h1
    · exact href h1
    · exact hex h1
  have hno : ∀ m, (build Cfg.all (walk p)).idOf o ∉ (build Cfg.all (walk p)).graph.ownsOf m := by
    intro m hm
    obtain ⟨o', w, he, hw0, _, hu⟩ := (hi.owns_iff m _).1 hm
    have huo : o' = o := idOf_inj (hi.reg _ he o' (by simp [Event.mentions])) hreg hi.wf hu
    subst huo
    exact hown (see_owner_cases p (hwalk _ he) hw0)
  have hun := Graph.zero_ref_unowned_reported hwf _ hid0 hlt hin hno
  have hv := ((Graph.mem_unused_iff _ _).1 hun).2.2
  unfold verdictOf objVerdict
  simp only []
  rw [if_pos ⟨h0, hmem⟩]
  exact congrArg some hv

/-! ### owners are containers; Quiet ⇒ declared inside a reported object -/

theorem see_walkType_c {by_ : Obj} {t : TypeD} {o w : Obj} (h : Event.see o w ∈ walkType by_ t) :
    (w = by_ ∧ o = t.obj) ∨ (w, o) ∈ containsType t := by
  unfold walkType at h
  simp only [List.mem_append, List.mem_singleton, Event.see.injEq] at h
  have key : Event.see o w ∈ walkBody t.obj t.body → w = t.obj := by
    intro hb
    unfold walkBody at hb
    cases hbody : t.body with
    | struct fs es =>
      rw [hbody] at hb
      rcases List.mem_append.1 hb with hb | hb
      · obtain ⟨e, _, hm⟩ := List.mem_flatMap.1 hb
        unfold walkEmb at hm
        simp only [List.mem_append, List.mem_cons, reduceCtorEq, Event.see.injEq,
          List.not_mem_nil, or_false] at hm
        rcases hm with (hm | hm) | hm
        · exact hm.2
        · split at hm <;> simp at hm
        · split at hm <;> simp at hm
      · obtain ⟨f, _, hm⟩ := List.mem_flatMap.1 hb
        unfold walkField at hm
        simp only [List.mem_append, List.mem_singleton, Event.see.injEq] at hm
        rcases hm with (hm | hm) | hm
        · exact hm.2
        · exact absurd hm see_not_mem_readsEv
        · split at hm <;> simp at hm
    | iface ms embeds full =>
      rw [hbody] at hb
      rcases List.mem_append.1 hb with hb | hb
      · exact absurd hb see_not_mem_readsEv
      · obtain ⟨m, _, hq⟩ := List.mem_flatMap.1 hb
        unfold walkIMeth at hq
        simp only [List.mem_append, List.mem_cons, reduceCtorEq, Event.see.injEq,
          List.not_mem_nil, or_false] at hq
        rcases hq with hq | hq
        · exact hq.2
        · exact absurd hq see_not_mem_readsEv
    | other rs =>
      rw [hbody] at hb
      exact absurd hb see_not_mem_readsEv
  rcases see_walkType (by_ := by_) (t := t) (o := o) (w := w) (by
      unfold walkType; simpa only [List.mem_append, List.mem_singleton, Event.see.injEq] using h) with h1 | h1
  · exact .inl h1
  · rcases h with ((h | h) | h) | h
    · exact .inl ⟨h.2, h.1⟩
    · split at h <;> simp at h
    · have hw := key h
      subst hw
      exact .inr (List.mem_map.2 ⟨o, h1, rfl⟩)
    · split at h <;> simp at h

theorem see_walkGen_c {by_ : Obj} {g : GenD} {o w : Obj} (h : Event.see o w ∈ walkGen by_ g) :
    (w = by_ ∧ o ∈ declaredGen g) ∨ (w, o) ∈ containsGenInner g := by
  cases g with
  | types l =>
    obtain ⟨t, ht, hm⟩ := List.mem_flatMap.1 h
    rcases see_walkType_c hm with ⟨h1, h2⟩ | h1
    · exact .inl ⟨h1, List.mem_map.2 ⟨t, ht, h2.symm⟩⟩
    · exact .inr (List.mem_flatMap.2 ⟨t, ht, h1⟩)
  | vars l =>
    rcases see_walkGen h with h1 | h1
    · exact .inl h1
    · simp [ownedGenInner] at h1
  | consts l groups =>
    rcases see_walkGen h with h1 | h1
    · exact .inl h1
    · simp [ownedGenInner] at h1

/-- **Owners are containers.**  Every `see(o, w)` call of the walk with a non-nil owner is made
for an object `o` that is declared directly inside the declaration of `w`: an `owns` edge
of the graph is always an instance of "declared inside". -/
theorem owners_are_containers (p : Pkg) {o w : Obj} (h : Event.see o w ∈ walk p) (hw : w ≠ 0) :
    (w, o) ∈ containsOf p := by
  unfold walk at h
  rcases List.mem_append.1 h with h | h
  · rcases List.mem_append.1 h with h | h
    · exact absurd h see_not_mem_readsEv
    · obtain ⟨t, ht, hm⟩ := List.mem_flatMap.1 h
      refine List.mem_flatMap.2 ⟨t, ht, ?_⟩
      cases t with
      | func f =>
        unfold walkTop walkFunc at hm
        simp only [List.mem_append, List.mem_singleton, Event.see.injEq] at hm
        unfold containsTop
        rcases hm with ((hm | hm) | hm) | hm
        · exact absurd hm.2 hw
        · split at hm <;> simp at hm
        · obtain ⟨it, hit, hq⟩ := List.mem_flatMap.1 hm
          refine List.mem_append.2 (.inl (List.mem_flatMap.2 ⟨it, hit, ?_⟩))
          cases it with
          | scope q isVar =>
            unfold walkItem at hq
            simp only [List.mem_append, List.mem_singleton, Event.see.injEq] at hq
            rcases hq with hq | hq
            · simp [containsItem, hq.1, hq.2]
            · split at hq <;> simp at hq
          | reads l => exact absurd hq see_not_mem_readsEv
          | param q tr =>
            unfold walkItem at hq
            simp only [List.mem_append, List.mem_singleton, reduceCtorEq, false_or] at hq
            exact absurd hq see_not_mem_readsEv
          | gen g =>
            rcases see_walkGen_c hq with ⟨h1, h2⟩ | h2
            · subst h1
              exact List.mem_append.2 (.inl (List.mem_map.2 ⟨o, h2, rfl⟩))
            · exact List.mem_append.2 (.inr h2)
        · obtain ⟨q, hq, hx⟩ := List.mem_flatMap.1 hm
          unfold walkParam at hx
          simp only [List.mem_append, List.mem_singleton, Event.see.injEq] at hx
          rcases hx with hx | hx
          · refine List.mem_append.2 (.inr (List.mem_map.2 ⟨q, hq, ?_⟩))
            rw [hx.1, hx.2]
          · split at hx <;> simp at hx
      | gen g =>
        rcases see_walkGen_c hm with ⟨h1, _⟩ | h1
        · exact absurd h1 hw
        · exact h1
  · obtain ⟨t, _, hm⟩ := List.mem_flatMap.1 h
    unfold procType at hm
    rcases List.mem_append.1 hm with hm | hm <;> exact absurd hm see_not_mem_procMS

theorem rankOk_spec {p : Pkg} {rk : Obj → Nat} (h : rankOk p rk = true) {w o : Obj}
    (hc : (w, o) ∈ containsOf p) : rk w < rk o := by
  unfold rankOk at h
  have := List.all_eq_true.1 h (w, o) hc
  simpa using this

/-- **Quiet ⇒ declared inside a reported object.**  For every abstract package whose
containment is well-founded (`rankOk`): an object whose verdict is Quiet is declared
inside — at some depth — an object whose verdict is Unused, i.e. one that U1000 reports.
Together with `Results()` being a partition: what is neither Used nor reported disappears
with the syntax of a reported object. -/
theorem walk_quiet_inside_reported (p : Pkg) (rk : Obj → Nat) (hrk : rankOk p rk = true) (o : Obj)
    (hq : verdictOf p o = some .quiet) :
    ∃ w, verdictOf p w = some .unused ∧ Inside p w o := by
  obtain ⟨E, hi, hE⟩ := build_inv Cfg.all (walk p)
  have hwalk : ∀ e, e ∈ E → e ∈ walk p := fun e he => (List.mem_filter.1 ((hE e).1 he)).1
  have hwf := build_wf Cfg.all (walk p)
  -- unpack the verdict of `o`
  unfold verdictOf objVerdict at hq
  simp only [] at hq
  by_cases hc : o ≠ 0 ∧ o ∈ (build Cfg.all (walk p)).objs
  · rw [if_pos hc] at hq
    have hv : (build Cfg.all (walk p)).graph.verdict ((build Cfg.all (walk p)).idOf o) = .quiet := by
      injection hq
    have hreg : (build Cfg.all (walk p)).Reg o := .inr hc.2
    have hid0 : (build Cfg.all (walk p)).idOf o ≠ 0 := by
      unfold BState.idOf; simp [hc.1]
    have hlt : (build Cfg.all (walk p)).idOf o < (build Cfg.all (walk p)).graph.N := by
      rw [graph_N]; exact idOf_lt hi.wf hreg
    have hmemq := (Graph.mem_quiet_iff _ _).2 ⟨hid0, hlt, hv⟩
    -- node rank from the object rank
    have hrkN : ∀ a b, b ∈ (build Cfg.all (walk p)).graph.ownsOf a →
        rk ((build Cfg.all (walk p)).objAt a) < rk ((build Cfg.all (walk p)).objAt b) := by
      intro a b hb
      obtain ⟨o', w, he, hw0, hwa, hob⟩ := (hi.owns_iff a b).1 hb
      have rw_ := hi.reg _ he w (by simp [Event.mentions])
      have ro := hi.reg _ he o' (by simp [Event.mentions])
      rw [← hwa, ← hob, objAt_idOf hi.wf rw_, objAt_idOf hi.wf ro]
      exact rankOk_spec hrk (owners_are_containers p (hwalk _ he) hw0)
    obtain ⟨m, hm, c, hcm, r⟩ := Graph.quiet_has_unused_ancestor hwf
      (fun a => rk ((build Cfg.all (walk p)).objAt a)) hrkN _ hmemq
    -- back to objects
    obtain ⟨hm0, hmlt, hmv⟩ := (Graph.mem_unused_iff _ _).1 hm
    obtain ⟨o1, w1, he1, hw10, hw1m, ho1c⟩ := (hi.owns_iff m c).1 hcm
    have rw1 := hi.reg _ he1 w1 (by simp [Event.mentions])
    have ro1 := hi.reg _ he1 o1 (by simp [Event.mentions])
    have hins1 : Inside p w1 o1 := .direct (owners_are_containers p (hwalk _ he1) hw10)
    -- along the owns-path every node is the node of an object inside `w1`
    have hpath : ∀ n, Reach (build Cfg.all (walk p)).graph.ownsOf c n →
        ∃ y, (build Cfg.all (walk p)).Reg y ∧ (build Cfg.all (walk p)).idOf y = n ∧ Inside p w1 y := by
      intro n rn
      induction rn with
      | refl => exact ⟨o1, ro1, ho1c, hins1⟩
      | step _ hstep ih =>
        obtain ⟨y, ry, hyid, hyin⟩ := ih
        obtain ⟨o2, w2, he2, hw20, hw2, ho2⟩ := (hi.owns_iff _ _).1 hstep
        have rw2 := hi.reg _ he2 w2 (by simp [Event.mentions])
        have ro2 := hi.reg _ he2 o2 (by simp [Event.mentions])
        have : w2 = y := idOf_inj rw2 ry hi.wf (by rw [hw2, hyid])
        subst this
        exact ⟨o2, ro2, ho2, .trans hyin (owners_are_containers p (hwalk _ he2) hw20)⟩
    obtain ⟨y, ry, hyid, hyin⟩ := hpath _ r
    have hyo : y = o := idOf_inj ry hreg hi.wf hyid
    subst hyo
    refine ⟨w1, ?_, hyin⟩
    have hw1mem : w1 ∈ (build Cfg.all (walk p)).objs := by
      rcases rw1 with h | h
      · exact absurd h hw10
      · exact h
    unfold verdictOf objVerdict
    simp only []
    rw [if_pos ⟨hw10, hw1mem⟩, hw1m]
    exact congrArg some hmv
  · rw [if_neg hc] at hq; cases hq

/-- what the statement removes: the reported objects and everything declared inside them -/
def Removed (p : Pkg) (o : Obj) : Prop :=
  verdictOf p o = some .unused ∨ ∃ w, verdictOf p w = some .unused ∧ Inside p w o

/-- an object that has a node and is not removed is Used -/
theorem kept_is_used (p : Pkg) (rk : Obj → Nat) (hrk : rankOk p rk = true) {o : Obj} {v : Verdict}
    (hv : verdictOf p o = some v) (hk : ¬ Removed p o) : verdictOf p o = some .used := by
  cases v with
  | used => exact hv
  | unused => exact absurd (.inl hv) hk
  | quiet => exact absurd (.inr (walk_quiet_inside_reported p rk hrk o hv)) hk

/-- **Deletion safety over the abstract language, in the statement's own terms.**  Remove
every reported object together with the objects declared inside it.  If no Used object is
declared inside a reported one (`hclosed`; probed on every fragment package), then every
identifier written inside a declaration that is kept still denotes an object that is kept,
and every kept named type — package-level or local — still implements every known
interface it implemented (`walk_impl_safe` gives the second part; this is the first). -/
theorem walk_deletion_safe (p : Pkg) (hok : p.ok = true) (rk : Obj → Nat) (hrk : rankOk p rk = true)
    (hclosed : ∀ w o, Inside p w o → verdictOf p w = some .unused → verdictOf p o ≠ some .used)
    {d y : Obj} (h : (d, y) ∈ refsOf p) (hy : y ≠ 0) {v : Verdict} (hv : verdictOf p d = some v)
    (hk : ¬ Removed p d) : ¬ Removed p y := by
  have hyu := walk_refs_safe p hok h hy (kept_is_used p rk hrk hv hk)
  rintro (h1 | ⟨w, hw, hin⟩)
  · rw [hyu] at h1; cases h1
  · exact hclosed w y hin hw hyu

/-! ### non-vacuity: the three seeded packages as abstract packages -/

/-- seeded C07-1-1 (`demo/pkg/p.go`): objects 1 `stepper`, 2 `stepper.step`, 3 `base`, 4 `n`,
5 `base.step`, 6 `drive`, 7 `s`, 8 `Run`, 9 `wrapper` (LOCAL type), 10 the embedded field
`base` of `wrapper`, 11 `tag`, 12 `w`, 13 `reallyUnused`, 14 receiver `b`; method name 1 = `step() int` -/
def exLocal : Pkg :=
  { isMain := false, linknames := [], decls := [
      .gen (.types [⟨1, .plain, false, true, .iface [⟨2, 1, []⟩] [] [1], [⟨1, false, [], 2⟩], [⟨1, false, [], 2⟩]⟩]),
      .gen (.types [⟨3, .plain, false, false, .struct [⟨4, .plain, []⟩] [], [⟨1, false, [], 5⟩], [⟨1, false, [], 5⟩]⟩]),
      .func ⟨5, .plain, true, [.scope 14 true, .param 14 [3], .reads [14, 4]], []⟩,
      .func ⟨6, .plain, false, [.scope 7 true, .param 7 [1], .reads [7, 2]], [(7, false)]⟩,
      .func ⟨8, .exported, false,
        [.scope 9 false, .scope 12 true,
         .gen (.types [⟨9, .plain, false, false, .struct [⟨11, .plain, []⟩] [⟨10, false, 3, false⟩],
                        [⟨1, false, [10], 5⟩], [⟨1, false, [10], 5⟩]⟩]),
         .reads [9, 11], .reads [12, 11], .reads [6, 12]], []⟩,
      .func ⟨13, .plain, false, [], []⟩ ] }

example : exLocal.ok = true := by decide
-- walk_impl_safe: the local type `wrapper` is Used and implements `stepper` through the
-- embedded field: the field, the promoted method and `base` are Used
set_option maxRecDepth 100000 in
example : verdictOf exLocal 9 = some .used ∧ verdictOf exLocal 10 = some .used ∧
    verdictOf exLocal 5 = some .used ∧ verdictOf exLocal 3 = some .used := by decide
example : [1] ∈ ifaceLits exLocal := by decide
-- walk_zero_ref_reported: `reallyUnused` — and only it — is a zero-reference candidate
set_option maxRecDepth 100000 in
example : ((List.range 15).filter (zeroRef exLocal)) = [13] := by decide
set_option maxRecDepth 100000 in
example : verdictOf exLocal 13 = some .unused := by decide
-- walk_refs_safe: `drive(w)` inside `Run`
set_option maxRecDepth 100000 in
example : (8, 6) ∈ refsOf exLocal ∧ verdictOf exLocal 8 = some .used ∧ verdictOf exLocal 6 = some .used := by decide

set_option maxRecDepth 100000 in
example : rankOk exLocal (depthOf exLocal) = true := by decide
-- walk_quiet_inside_reported is not vacuous: make `Run` unexported and everything inside it is Quiet
def exLocalUnused : Pkg := { exLocal with decls := exLocal.decls.map fun t =>
  match t with
  | .func f => if f.obj = 8 then .func { f with name := .plain } else t
  | _ => t }
set_option maxRecDepth 100000 in
example : verdictOf exLocalUnused 8 = some .unused ∧ verdictOf exLocalUnused 9 = some .quiet ∧
    verdictOf exLocalUnused 10 = some .quiet ∧ (8, 9) ∈ containsOf exLocalUnused ∧ (9, 10) ∈ containsOf exLocalUnused := by decide

/-- seeded C07-1-2: `func hostAndErr()` 1; `var host, hostErr = hostAndErr()` 2, 3;
`func Err() error { return hostErr }` 4; `func reallyUnused()` 5 -/
def exMulti : Pkg :=
  { isMain := false, linknames := [], decls := [
      .func ⟨1, .plain, false, [], []⟩,
      .gen (.vars [⟨[(2, .plain), (3, .plain)], [], [[1]]⟩]),
      .func ⟨4, .exported, false, [.reads [3]], []⟩,
      .func ⟨5, .plain, false, [], []⟩ ] }

example : exMulti.ok = true := by decide
-- walk_multi_init_safe: the SECOND name is Used, the first is not; the initialiser's callee is kept
example : verdictOf exMulti 3 = some .used ∧ verdictOf exMulti 2 = some .unused ∧
    verdictOf exMulti 1 = some .used := by decide
example : (3, 1) ∈ refsOf exMulti := by decide
example : ((List.range 6).filter (zeroRef exMulti)) = [2, 5] := by decide

/-- a constant group, a stand-alone constant, an exported type with an unexported field -/
def exConst : Pkg :=
  { isMain := false, linknames := [], decls := [
      .gen (.consts [⟨[(1, .plain)], [], [[]]⟩, ⟨[(2, .plain)], [], []⟩] [[1, 2]]),
      .gen (.consts [⟨[(3, .plain)], [], [[]]⟩] [[3]]),
      .gen (.types [⟨4, .exported, false, false, .struct [⟨5, .plain, [4]⟩] [], [], []⟩]) ] }

-- members of a group of two are not candidates (10.1); the stand-alone constant is
example : ((List.range 6).filter (zeroRef exConst)) = [3] := by decide
example : verdictOf exConst 3 = some .unused ∧ verdictOf exConst 1 = some .unused := by decide

end Verif.C07.Walk
