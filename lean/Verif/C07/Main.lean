import Verif.C07.Driver
def main : IO UInt32 := do
  Verif.Proto.runLines Verif.C07.step
  return 0
