import Verif.C07.Driver2
def main : IO UInt32 := do
  Verif.Proto.runLines Verif.C07.step2
  return 0
