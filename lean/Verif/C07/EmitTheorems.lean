/-
C07 — theorems about the U1000 merge/emission model (`Emit.lean`), for all result lists.

  emitted_iff          an object is emitted iff some variant with U1000 enabled has it as
                       Unused and NO variant has a Used object with the same key
  emit_deletion_safe   an emitted object is Used in no variant of its package (so what the
                       binary reports is unused in the plain AND the test variant)
  emit_complete        if keys identify objects (`KeyInj`: package, file, line and NAME
                       separate any two distinct objects), an object that is Unused in a variant
                       with U1000 enabled and Used in no variant of its package IS emitted
-/
import Verif.C07.Emit
namespace Verif.C07.Emit

def IsTrue (m : UsedMap) (k : Key) : Prop := m.lookup k = some true

theorem markUsed_true (pkg : String) (os : List UObj) : ∀ (m : UsedMap) (k : Key),
    IsTrue (markUsed pkg m os) k ↔ IsTrue m k ∨ ∃ o, o ∈ os ∧ keyOf pkg o = k := by
  induction os with
  | nil => intro m k; simp [markUsed]
  | cons a rest ih =>
    intro m k
    have : markUsed pkg m (a :: rest) = markUsed pkg ((keyOf pkg a, true) :: m) rest := rfl
    rw [this, ih]
    unfold IsTrue
    by_cases hka : k = keyOf pkg a
    · subst hka
      simp
    · have hb : (k == keyOf pkg a) = false := by simpa using hka
      have hne : ¬ keyOf pkg a = k := fun h => hka h.symm
      simp [List.lookup_cons, hb, hne]

theorem noteUnused_true (pkg : String) (os : List UObj) : ∀ (m : UsedMap) (k : Key),
    IsTrue (noteUnused pkg m os) k ↔ IsTrue m k := by
  induction os with
  | nil => intro m k; simp [noteUnused]
  | cons a rest ih =>
    intro m k
    have : noteUnused pkg m (a :: rest) =
        noteUnused pkg (if (m.lookup (keyOf pkg a)).isNone then (keyOf pkg a, false) :: m else m) rest := rfl
    rw [this, ih]
    unfold IsTrue
    by_cases hn : (m.lookup (keyOf pkg a)).isNone = true
    · rw [if_pos hn]
      by_cases hka : k = keyOf pkg a
      · subst hka
        have : m.lookup (keyOf pkg a) = none := by simpa using hn
        simp [this]
      · have hb : (k == keyOf pkg a) = false := by simpa using hka
        simp [List.lookup_cons, hb]
    · rw [if_neg hn]

/-- the `unuseds` contribution of one variant -/
def contrib (v : Variant) : List (Key × UObj) :=
  if v.allowed then v.unused.map fun o => (keyOf v.pkgPath o, o) else []

theorem fold_step_spec (vs : List Variant) : ∀ (st : UsedMap × List (Key × UObj)),
    (∀ k, IsTrue (vs.foldl step st).1 k ↔
      IsTrue st.1 k ∨ ∃ v, v ∈ vs ∧ ∃ o, o ∈ v.used ∧ keyOf v.pkgPath o = k) ∧
    (vs.foldl step st).2 = st.2 ++ vs.flatMap contrib := by
  induction vs with
  | nil => intro st; simp
  | cons v rest ih =>
    intro st
    obtain ⟨i1, i2⟩ := ih (step st v)
    simp only [List.foldl_cons]
    have hs1 : ∀ k, IsTrue (step st v).1 k ↔ IsTrue st.1 k ∨ ∃ o, o ∈ v.used ∧ keyOf v.pkgPath o = k := by
      intro k
      unfold step
      by_cases ha : v.allowed = true
      · simp only [ha, if_true]; rw [noteUnused_true, markUsed_true]
      · simp only [ha]; exact markUsed_true _ _ _ _
    have hs2 : (step st v).2 = st.2 ++ contrib v := by
      unfold step contrib
      by_cases ha : v.allowed = true <;> simp [ha]
    constructor
    · intro k
      rw [i1, hs1]
      constructor
      · rintro ((h | h) | ⟨w, hw, h⟩)
        · exact .inl h
        · exact .inr ⟨v, List.mem_cons_self, h⟩
        · exact .inr ⟨w, List.mem_cons_of_mem _ hw, h⟩
      · rintro (h | ⟨w, hw, h⟩)
        · exact .inl (.inl h)
        · rcases List.mem_cons.1 hw with rfl | hw
          · exact .inl (.inr h)
          · exact .inr ⟨w, hw, h⟩
    · rw [i2, hs2]; simp [List.flatMap_cons, List.append_assoc]

/-- `k` is the key of a Used object of some variant -/
def UsedKey (vs : List Variant) (k : Key) : Prop :=
  ∃ w, w ∈ vs ∧ ∃ u, u ∈ w.used ∧ keyOf w.pkgPath u = k

/-- **Merge rule.**  An object is emitted iff some variant in which U1000 is enabled has it as
Unused and no variant at all has a Used object with the same key. -/
theorem emitted_iff (vs : List Variant) (o : UObj) :
    o ∈ emitted vs ↔ ∃ v, v ∈ vs ∧ v.allowed = true ∧ o ∈ v.unused ∧ ¬ UsedKey vs (keyOf v.pkgPath o) := by
  unfold emitted
  obtain ⟨h1, h2⟩ := fold_step_spec vs ([], [])
  simp only [h2, List.nil_append]
  have hnil : ∀ k, ¬ IsTrue ([] : UsedMap) k := by intro k; simp [IsTrue]
  have hk : ∀ k, ((vs.foldl step ([], [])).1.lookup k).getD false = true ↔ UsedKey vs k := by
    intro k
    have := h1 k
    simp only [hnil, false_or] at this
    unfold UsedKey
    rw [← this]
    unfold IsTrue
    cases hl : (vs.foldl step ([], [])).1.lookup k with
    | none => simp
    | some b => cases b <;> simp
  simp only [List.mem_map, List.mem_filter, List.mem_flatMap]
  constructor
  · rintro ⟨ko, ⟨⟨v, hv, hc⟩, hf⟩, rfl⟩
    unfold contrib at hc
    by_cases ha : v.allowed = true
    · rw [if_pos ha] at hc
      obtain ⟨o, ho, rfl⟩ := List.mem_map.1 hc
      refine ⟨v, hv, ha, ho, ?_⟩
      intro hu
      have := (hk _).2 hu
      simp [this] at hf
    · rw [if_neg ha] at hc; cases hc
  · rintro ⟨v, hv, ha, ho, hnu⟩
    refine ⟨(keyOf v.pkgPath o, o), ⟨⟨v, hv, ?_⟩, ?_⟩, rfl⟩
    · unfold contrib
      rw [if_pos ha]
      exact List.mem_map.2 ⟨o, ho, rfl⟩
    · have : ((vs.foldl step ([], [])).1.lookup (keyOf v.pkgPath o)).getD false ≠ true :=
        fun h => hnu ((hk _).1 h)
      simpa using this

/-- **Deletion safety of the merge.**  An emitted object is Unused in a variant with U1000
enabled and is Used in NO variant of that package: deleting what the binary reports never
removes something the plain or the test variant of the package still uses. -/
theorem emit_deletion_safe (vs : List Variant) (o : UObj) (h : o ∈ emitted vs) :
    ∃ v, v ∈ vs ∧ v.allowed = true ∧ o ∈ v.unused ∧ ∀ w, w ∈ vs → w.pkgPath = v.pkgPath → o ∉ w.used := by
  obtain ⟨v, hv, ha, ho, hnu⟩ := (emitted_iff vs o).1 h
  refine ⟨v, hv, ha, ho, ?_⟩
  intro w hw hp hou
  exact hnu ⟨w, hw, o, hou, by rw [hp]⟩

/-- keys identify objects: two objects of the results with the same
(package, file, line, NAME) are the same object -/
def KeyInj (vs : List Variant) : Prop :=
  ∀ v w, v ∈ vs → w ∈ vs → ∀ a b, a ∈ v.objs → b ∈ w.objs → keyOf v.pkgPath a = keyOf w.pkgPath b → a = b

theorem keyInjB_sound (vs : List Variant) (h : keyInjB vs = true) : KeyInj vs := by
  intro v w hv hw a b ha hb hk
  unfold keyInjB at h
  have := List.all_eq_true.1 (List.all_eq_true.1 (List.all_eq_true.1 (List.all_eq_true.1 h v hv) w hw) a ha) b hb
  simp only [Bool.or_eq_true, Bool.not_eq_eq_eq_not, Bool.not_true, beq_eq_false_iff_ne, ne_eq, beq_iff_eq] at this
  rcases this with h1 | h1
  · exact absurd hk h1
  · exact h1

/-- **Completeness of the merge.**  If keys identify objects, an object that is Unused in a
variant with U1000 enabled and Used in no variant of that package is emitted — a Used
object never masks a different object. -/
theorem emit_complete (vs : List Variant) (hinj : KeyInj vs) (v : Variant) (hv : v ∈ vs)
    (ha : v.allowed = true) (o : UObj) (ho : o ∈ v.unused)
    (hnu : ∀ w, w ∈ vs → w.pkgPath = v.pkgPath → o ∉ w.used) : o ∈ emitted vs := by
  rw [emitted_iff]
  refine ⟨v, hv, ha, ho, ?_⟩
  rintro ⟨w, hw, u, hu, hk⟩
  have huo : u = o := hinj w v hw hv u o (List.mem_append.2 (.inl hu)) (List.mem_append.2 (.inr ho)) hk
  subst huo
  have hp : w.pkgPath = v.pkgPath := by
    have := congrArg Key.pkgPath hk
    simpa [keyOf] using this
  exact hnu w hw hp hu

/-! ### non-vacuity: `var limit, spare = 10, 20` (seeded change C07-1-3) and a test variant -/

def oLimit : UObj := ⟨"var", "limit", "p.go", 5, 5⟩
def oSpare : UObj := ⟨"var", "spare", "p.go", 5, 12⟩
def oHelper : UObj := ⟨"func", "helper", "p.go", 9, 6⟩
def vPlain : Variant := ⟨"example.com/p", true, [oLimit], [oSpare, oHelper]⟩
def vTest : Variant := ⟨"example.com/p", true, [oLimit, oHelper], [oSpare]⟩

example : emitted [vPlain, vTest] = [oSpare, oSpare] := by decide
example : keyInjB [vPlain, vTest] = true := by decide
-- emit_complete applies to `spare` (same line as the Used `limit`, different name) …
example : oSpare ∈ vPlain.unused ∧ oSpare ∉ vPlain.used ∧ oSpare ∉ vTest.used := by decide
-- … and emit_deletion_safe: `helper` is Used by the test variant, hence not emitted
example : oHelper ∉ emitted [vPlain, vTest] := by decide

end Verif.C07.Emit
