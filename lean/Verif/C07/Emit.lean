/-
C07 — model of the U1000 merge and emission of `lintcmd.(*linter).lint`
(/repo/lintcmd/lint.go): the loop over the runner results that fills
`used map[unusedKey]bool` / `unuseds []unusedPair`, and the loop that emits one
`"<kind> <name> is unused"` diagnostic per pair whose key is not marked used.

`unusedKey{pkgPath, base, line, name}`: package path of the RESULT, base name of the file,
line, and `obj.Name` — no column, no kind.

Core Lean only (compiled into `c07driver`).
-/
namespace Verif.C07.Emit

/-- `unused.Object` as far as `lint` reads it -/
structure UObj where
  kind : String
  /-- `obj.Name` (methods are qualified by their receiver) -/
  name : String
  /-- `filepath.Base(obj.Position.Filename)` -/
  base : String
  /-- `obj.Position.Line` -/
  line : Nat
  /-- column of `obj.DisplayPosition`: where the diagnostic points -/
  col : Nat
  deriving DecidableEq, Repr, Inhabited

/-- `unusedKey` -/
structure Key where
  pkgPath : String
  base : String
  line : Nat
  name : String
  deriving DecidableEq, Repr, Inhabited

/-- what `lint` reads from one runner result (`res.Initial`, not failed): the package path,
`allowedAnalyzers["U1000"]`, `resd.Unused.Used`, `resd.Unused.Unused` -/
structure Variant where
  pkgPath : String
  allowed : Bool
  used : List UObj
  unused : List UObj
  deriving Repr, Inhabited

def keyOf (pkg : String) (o : UObj) : Key := ⟨pkg, o.base, o.line, o.name⟩

/-- the Go map `used` as an association list, newest binding first -/
abbrev UsedMap := List (Key × Bool)

/-- `for _, obj := range resd.Unused.Used { used[key] = true }` -/
def markUsed (pkg : String) (m : UsedMap) (os : List UObj) : UsedMap :=
  os.foldl (fun m o => (keyOf pkg o, true) :: m) m

/-- `if _, ok := used[key]; !ok { used[key] = false }` -/
def noteUnused (pkg : String) (m : UsedMap) (os : List UObj) : UsedMap :=
  os.foldl (fun m o => if (m.lookup (keyOf pkg o)).isNone then (keyOf pkg o, false) :: m else m) m

/-- one iteration of `for _, res := range results`; state = (`used`, `unuseds`).  The
append to `unuseds` and the map update share a loop in Go but do not read each other. -/
def step (st : UsedMap × List (Key × UObj)) (v : Variant) : UsedMap × List (Key × UObj) :=
  let m1 := markUsed v.pkgPath st.1 v.used
  if v.allowed then
    (noteUnused v.pkgPath m1 v.unused, st.2 ++ v.unused.map fun o => (keyOf v.pkgPath o, o))
  else (m1, st.2)

/-- `for _, uo := range unuseds { if used[uo.key] { continue }; emit uo.obj }` — the objects
of the U1000 diagnostics in emission order -/
def emitted (vs : List Variant) : List UObj :=
  let st := vs.foldl step ([], [])
  (st.2.filter fun ko => !((st.1.lookup ko.1).getD false)).map (·.2)

/-- all objects of a variant -/
def Variant.objs (v : Variant) : List UObj := v.used ++ v.unused

/-- executable form of the hypothesis `KeyInj`: within the results, two objects with the
same key are the same object -/
def keyInjB (vs : List Variant) : Bool :=
  vs.all fun v => vs.all fun w => v.objs.all fun a => w.objs.all fun b =>
    !(keyOf v.pkgPath a == keyOf w.pkgPath b) || a == b

end Verif.C07.Emit
