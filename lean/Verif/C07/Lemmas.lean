/-
C07 lemmas: the fuel-bounded visited-bit DFS (`dfs`) computes exactly the set of nodes
reachable from its start (given enough fuel and in-range edges).
-/
import Verif.C07.Graph
namespace Verif.C07

/-- reflexive-transitive closure of an adjacency function -/
inductive Reach (adj : Nat → List Nat) : Nat → Nat → Prop
  | refl (a : Nat) : Reach adj a a
  | step {a b c : Nat} : Reach adj a b → c ∈ adj b → Reach adj a c

theorem Reach.head {adj : Nat → List Nat} {a c d : Nat} (h : c ∈ adj a) (r : Reach adj c d) :
    Reach adj a d := by
  induction r with
  | refl => exact .step (.refl a) h
  | step _ hc ih => exact .step ih hc

theorem Reach.trans {adj : Nat → List Nat} {a b c : Nat} (r1 : Reach adj a b) (r2 : Reach adj b c) :
    Reach adj a c := by
  induction r2 with
  | refl => exact r1
  | step _ hc ih => exact .step ih hc

/-- a set closed under `adj` contains everything reachable from its members -/
theorem Reach.mem_of_closed {adj : Nat → List Nat} {S : List Nat}
    (hcl : ∀ x, x ∈ S → ∀ y, y ∈ adj x → y ∈ S) {a b : Nat} (ha : a ∈ S) (r : Reach adj a b) : b ∈ S := by
  induction r with
  | refl => exact ha
  | step _ hc ih => exact hcl _ ih _ hc

/-- reachability is monotone in the edge relation -/
theorem Reach.mono {adj adj' : Nat → List Nat} (h : ∀ a b, b ∈ adj a → b ∈ adj' a) {a b : Nat}
    (r : Reach adj a b) : Reach adj' a b := by
  induction r with
  | refl => exact .refl _
  | step _ hc ih => exact .step ih (h _ _ hc)

/-- transport of reachability along a map that preserves edges on an invariant set -/
theorem Reach.map {adj adj' : Nat → List Nat} (f : Nat → Nat) (P : Nat → Prop)
    (hP : ∀ a b, P a → b ∈ adj a → P b)
    (h : ∀ a b, P a → b ∈ adj a → f b ∈ adj' (f a)) {a b : Nat} (pa : P a) (r : Reach adj a b) :
    Reach adj' (f a) (f b) ∧ P b := by
  induction r with
  | refl => exact ⟨.refl _, pa⟩
  | step _ hc ih => exact ⟨.step ih.1 (h _ _ ih.2 hc), hP _ _ ih.2 hc⟩

/-! ### counting unseen nodes -/

def unseen (N : Nat) (S : List Nat) : Nat := (List.range N).countP (fun n => decide (n ∉ S))

theorem unseen_le (N : Nat) (S : List Nat) : unseen N S ≤ N := by
  unfold unseen
  have := List.countP_le_length (p := fun n => decide (n ∉ S)) (l := List.range N)
  simpa using this

theorem unseen_mono (N : Nat) {S S' : List Nat} (h : ∀ x, x ∈ S → x ∈ S') : unseen N S' ≤ unseen N S := by
  unfold unseen
  apply List.countP_mono_left
  intro x _ hx
  simp only [decide_eq_true_eq] at hx ⊢
  exact fun hs => hx (h x hs)

theorem countP_lt_of_witness {α : Type} (p q : α → Bool) :
    ∀ (l : List α), (∀ x ∈ l, p x = true → q x = true) → ∀ a, a ∈ l → q a = true → p a = false →
      l.countP p < l.countP q := by
  intro l
  induction l with
  | nil => intro _ a ha; cases ha
  | cons b t ih =>
    intro himp a ha hq hp
    have himp' : ∀ x ∈ t, p x = true → q x = true := fun x hx => himp x (List.mem_cons_of_mem _ hx)
    rcases List.mem_cons.1 ha with rfl | hat
    · have hle : t.countP p ≤ t.countP q := List.countP_mono_left himp'
      simp only [List.countP_cons, hq, hp]
      simp
      omega
    · have hlt := ih himp' a hat hq hp
      simp only [List.countP_cons]
      by_cases hpb : p b = true
      · have hqb := himp b (List.mem_cons_self) hpb
        simp [hpb, hqb]; omega
      · have hpb' : p b = false := by simpa using hpb
        by_cases hqb : q b = true
        · simp [hpb', hqb]; omega
        · have hqb' : q b = false := by simpa using hqb
          simp [hpb', hqb']; omega

theorem unseen_cons_lt (N : Nat) {S : List Nat} {id : Nat} (hid : id < N) (hns : id ∉ S) :
    unseen N (id :: S) < unseen N S := by
  unfold unseen
  apply countP_lt_of_witness _ _ _ _ id (List.mem_range.2 hid)
  · simpa using hns
  · simp
  · intro x _ hx
    simp only [decide_eq_true_eq, List.mem_cons, not_or] at hx ⊢
    exact hx.2

/-! ### closure (completeness) of `dfs` -/

/-- what one call `f n S` of a marking procedure guarantees -/
def MarkSpec (adj : Nat → List Nat) (N k : Nat) (f : Nat → List Nat → List Nat) : Prop :=
  ∀ n S, n < N → unseen N S < k →
    (∀ x, x ∈ S → x ∈ f n S) ∧ n ∈ f n S ∧ (∀ x, x ∈ f n S → x ∉ S → ∀ y, y ∈ adj x → y ∈ f n S)

theorem fold_closed {adj : Nat → List Nat} {N k : Nat} {f : Nat → List Nat → List Nat}
    (hf : MarkSpec adj N k f) :
    ∀ (L S : List Nat), (∀ n, n ∈ L → n < N) → unseen N S < k →
      (∀ x, x ∈ S → x ∈ L.foldl (fun s n => f n s) S) ∧ (∀ n, n ∈ L → n ∈ L.foldl (fun s n => f n s) S) ∧
      (∀ x, x ∈ L.foldl (fun s n => f n s) S → x ∉ S → ∀ y, y ∈ adj x → y ∈ L.foldl (fun s n => f n s) S) := by
  intro L
  induction L with
  | nil =>
    intro S _ _
    simp only [List.foldl_nil]
    refine ⟨fun x hx => hx, ?_, fun x hx hnx => absurd hx hnx⟩
    intro n hn
    cases hn
  | cons n rest ih =>
    intro S hL hk
    have hn : n < N := hL n List.mem_cons_self
    obtain ⟨h1, h2, h3⟩ := hf n S hn hk
    have hk2 : unseen N (f n S) < k := Nat.lt_of_le_of_lt (unseen_mono N h1) hk
    obtain ⟨i1, i2, i3⟩ := ih (f n S) (fun m hm => hL m (List.mem_cons_of_mem _ hm)) hk2
    simp only [List.foldl_cons]
    refine ⟨fun x hx => i1 x (h1 x hx), ?_, ?_⟩
    · intro m hm
      rcases List.mem_cons.1 hm with rfl | hm
      · exact i1 _ h2
      · exact i2 m hm
    · intro x hx hxS y hy
      by_cases hx2 : x ∈ f n S
      · exact i1 y (h3 x hx2 hxS y hy)
      · exact i3 x hx hx2 y hy

theorem dfs_markSpec (adj : Nat → List Nat) (N : Nat) (hadj : ∀ a b, b ∈ adj a → b < N) :
    ∀ fuel, MarkSpec adj N fuel (dfs adj fuel) := by
  intro fuel
  induction fuel with
  | zero => intro n S _ hk; omega
  | succ fuel ih =>
    intro id S hid hk
    by_cases hmem : id ∈ S
    · simp only [dfs]
      rw [if_pos hmem]
      exact ⟨fun x hx => hx, hmem, fun x hx hxS => absurd hx hxS⟩
    · simp only [dfs]
      rw [if_neg hmem]
      have hlt := unseen_cons_lt N hid hmem
      have hk2 : unseen N (id :: S) < fuel := by omega
      obtain ⟨i1, i2, i3⟩ := fold_closed ih (adj id) (id :: S) (fun m hm => hadj id m hm) hk2
      refine ⟨fun x hx => i1 x (List.mem_cons_of_mem _ hx), i1 id List.mem_cons_self, ?_⟩
      intro x hx hxS y hy
      by_cases hxid : x = id
      · subst hxid; exact i2 y hy
      · exact i3 x hx (by simp [hxid, hxS]) y hy

/-! ### soundness of `dfs` -/

theorem fold_sound {adj : Nat → List Nat} {f : Nat → List Nat → List Nat}
    (hf : ∀ n S x, x ∈ f n S → x ∈ S ∨ Reach adj n x) :
    ∀ (L S : List Nat) x, x ∈ L.foldl (fun s n => f n s) S → x ∈ S ∨ ∃ n, n ∈ L ∧ Reach adj n x := by
  intro L
  induction L with
  | nil => intro S x hx; exact .inl hx
  | cons n rest ih =>
    intro S x hx
    simp only [List.foldl_cons] at hx
    rcases ih (f n S) x hx with h | ⟨m, hm, r⟩
    · rcases hf n S x h with h | r
      · exact .inl h
      · exact .inr ⟨n, List.mem_cons_self, r⟩
    · exact .inr ⟨m, List.mem_cons_of_mem _ hm, r⟩

theorem dfs_sound (adj : Nat → List Nat) :
    ∀ fuel id S x, x ∈ dfs adj fuel id S → x ∈ S ∨ Reach adj id x := by
  intro fuel
  induction fuel with
  | zero => intro id S x hx; exact .inl hx
  | succ fuel ih =>
    intro id S x hx
    by_cases hmem : id ∈ S
    · simp only [dfs] at hx; rw [if_pos hmem] at hx; exact .inl hx
    · simp only [dfs] at hx; rw [if_neg hmem] at hx
      rcases fold_sound (adj := adj) ih (adj id) (id :: S) x hx with h | ⟨m, hm, r⟩
      · rcases List.mem_cons.1 h with rfl | h
        · exact .inr (.refl _)
        · exact .inl h
      · exact .inr (Reach.head hm r)

theorem dfsList_sound (adj : Nat → List Nat) (fuel : Nat) (L S : List Nat) (x : Nat)
    (hx : x ∈ dfsList adj fuel L S) : x ∈ S ∨ ∃ n, n ∈ L ∧ Reach adj n x :=
  fold_sound (dfs_sound adj fuel) L S x hx

theorem dfsList_closed (adj : Nat → List Nat) (N : Nat) (hadj : ∀ a b, b ∈ adj a → b < N)
    (fuel : Nat) (L S : List Nat) (hL : ∀ n, n ∈ L → n < N) (hk : unseen N S < fuel) :
    (∀ x, x ∈ S → x ∈ dfsList adj fuel L S) ∧ (∀ n, n ∈ L → n ∈ dfsList adj fuel L S) ∧
    (∀ x, x ∈ dfsList adj fuel L S → x ∉ S → ∀ y, y ∈ adj x → y ∈ dfsList adj fuel L S) :=
  fold_closed (dfs_markSpec adj N hadj fuel) L S hL hk

end Verif.C07
