/-
C07 — model of the RULES of the AST walk of `unused` (/repo/unused/unused.go:
`graph.entry`, `decl`, `namedType`, `embeddedField`, `read` for the forms below,
`seeScope`, `processMethodSet`, and `implements` of /repo/unused/implements.go) for a small
declaration language, as a function from an abstract package to the list of builder calls
(`Verif.C17.Event`: `g.use(used, by)` / `g.see(obj, owner)`).  The builder itself
(`node/newNode/addEdge/addUse/addOwned`) is `Verif.C17.build`; the colouring is
`Verif.C07.Graph`.

The abstract package (`Pkg`) is what is left of a Go package when
  * every object (`types.Object`) is a natural number ≠ 0 (0 = nil); objects of other
    packages and of the universe are dropped (the early returns of `use`/`see` drop them);
  * every expression / type expression of the fragment is replaced by the list of objects
    that `graph.read` passes to `g.use(_, by)` for it (identifiers, plus the embedded fields
    of the implicit path of a selector expression, `readSelectorExpr`/`readSelection`);
  * the facts the walk asks go/types for are part of the input: method sets
    (`types.NewMethodSet(T)`, `types.NewMethodSet(*T)`) as lists of selections with their
    embedded-field paths, the full method set of every interface literal, `isGlobal`,
    "embedded struct has an exported field".  A method *name* of the model is the pair
    (name, signature): `implements` looks a method up by name and then unifies signatures.

FRAGMENT (what has a constructor): package-level and function-local `type` / `var` /
`const` declarations (multi-name specs, one shared multi-value initialiser, const groups),
named struct types with named and embedded fields, named interface types with methods and
embedded interfaces, other named types, aliases, functions and methods whose body is
flattened to scope objects / read expressions / parameters / local declarations (the walk
passes the same `by` to everything inside one function, closures included), rules
1.1-1.5, 1.7, 1.8, 2.1, 2.2, 4.1, 4.11, 6.2-6.5, 7.1, 7.2, 8.2-8.4, 9.2, 9.9, 10.1.
NOT in the fragment (labelled, no constructor): type parameters / instances (2.5, 2.6, 12.1),
struct conversions (5.1, 5.2), unkeyed composite literals, anonymous struct / interface
literals (11.1), NoCopy (6.1), HostLayout (6.6), generated files (1.9), cgo (1.6), runtime
(9.8), writes in test files (4.9), `//lint:ignore` directives, non-default `Options`.

Core Lean only (compiled into `c07driver`).
-/
import Verif.C17.Build
namespace Verif.C07.Walk
open Verif.C17 (Event Cfg)

abbrev Obj := Nat

/-- how the declared name looks to the walk: `token.IsExported(name)`, `name == "_"` -/
inductive NameCls | plain | exported | blank
  deriving DecidableEq, Repr, Inhabited

/-- one `*types.Selection` of a method set: `sel.Index()[:len-1]` as field objects, `sel.Obj()` -/
structure Sel where
  name : Nat
  exported : Bool
  path : List Obj
  obj : Obj
  deriving Repr, Inhabited

/-- named field of a named struct type; one entry per name of `a, b T` -/
structure FieldD where
  obj : Obj
  cls : NameCls
  typeReads : List Obj
  deriving Repr, Inhabited

/-- embedded field `T` / `*T` of a named struct type -/
structure EmbD where
  obj : Obj
  exported : Bool
  /-- the named type or alias that is embedded (0: basic type or type of another package) -/
  typeObj : Obj
  /-- `hasExportedField(fieldVar.Type())` (6.5) -/
  hasExportedField : Bool
  deriving Repr, Inhabited

/-- method of an interface type literal -/
structure IMethD where
  obj : Obj
  name : Nat
  sigReads : List Obj
  deriving Repr, Inhabited

inductive TBody
  /-- `struct{…}` -/
  | struct (fields : List FieldD) (embs : List EmbD)
  /-- `interface{…}`: explicit methods, embedded interfaces, and the names of the complete
  method set (`T.Methods()`, explicit and inherited) -/
  | iface (methods : List IMethD) (embeds : List Obj) (full : List Nat)
  /-- any other type expression: the objects `read(spec, typ)` uses -/
  | other (reads : List Obj)
  deriving Repr, Inhabited

/-- one `TypeSpec` -/
structure TypeD where
  obj : Obj
  cls : NameCls
  /-- `tspec.Assign.IsValid()` -/
  alias : Bool
  /-- `named.Type().Underlying()` is an interface -/
  underIface : Bool
  body : TBody
  /-- `types.NewMethodSet(named.Type())` -/
  msV : List Sel
  /-- `types.NewMethodSet(types.NewPointer(named.Type()))` -/
  msP : List Sel
  deriving Repr, Inhabited

/-- one `ValueSpec` of a `var` or `const` declaration -/
structure VarD where
  names : List (Obj × NameCls)
  typeReads : List Obj
  /-- per right-hand-side expression: the objects `read` uses -/
  values : List (List Obj)
  deriving Repr, Inhabited

/-- `GenDecl` (imports dropped) -/
inductive GenD
  | types (l : List TypeD)
  | vars (l : List VarD)
  /-- `groups` = `astutil.GroupSpecs`: per group the non-blank constants in order -/
  | consts (l : List VarD) (groups : List (List Obj))
  deriving Repr, Inhabited

/-- what the walk does inside one function (receiver, signature, body, nested blocks and
closures flattened: all of it is walked with `by` = the function) -/
inductive Item
  /-- one object of a scope handed to `seeScope`; `isVar`: a `*types.Var` that is not a field -/
  | scope (o : Obj) (isVar : Bool)
  /-- `read(expr, by)` -/
  | reads (l : List Obj)
  /-- a named entry of a parameter / result / receiver list: `use(p, by); read(type, p)` -/
  | param (p : Obj) (typeReads : List Obj)
  /-- `DeclStmt` -/
  | gen (d : GenD)
  deriving Repr, Inhabited

/-- the cases of the name test of the `FuncDecl` branch -/
inductive FName | plain | exported | init | main | blank
  deriving DecidableEq, Repr, Inhabited

structure FuncD where
  obj : Obj
  name : FName
  /-- `decl.Recv != nil` -/
  isMethod : Bool
  items : List Item
  /-- `fn.Params()`: (parameter, `Name() == ""`) -/
  params : List (Obj × Bool)
  deriving Repr, Inhabited

inductive Top
  | func (f : FuncD)
  | gen (d : GenD)
  deriving Repr, Inhabited

structure Pkg where
  /-- `g.pkg.Name() == "main"` -/
  isMain : Bool
  /-- objects named by `//go:linkname` comments (1.8) -/
  linknames : List Obj
  decls : List Top
  deriving Repr, Inhabited

/-! ### the walk -/

/-- `read(e, by)` on an expression of the fragment: `g.use(o, by)` for every object in it -/
def readsEv (by_ : Obj) (l : List Obj) : List Event := l.map fun o => Event.use o by_

/-- which initialiser the VAR branch reads for the `i`-th name:
`if len(Names) == len(Values) { Values[i] } else if len(Values) != 0 { Values[0] }` -/
def varValue (v : VarD) (i : Nat) : List Obj :=
  if v.names.length = v.values.length then v.values.getD i [] else v.values.getD 0 []

/-- body of `for i, name := range vspec.Names` in the VAR branch of `decl` -/
def walkVarName (by_ : Obj) (v : VarD) (i : Nat) (nc : Obj × NameCls) : List Event :=
  [Event.see nc.1 by_] ++ readsEv nc.1 v.typeReads ++ readsEv nc.1 (varValue v i) ++
  (if nc.2 = .exported ∧ by_ = 0 then [Event.use nc.1 0] else []) ++
  (if nc.2 = .blank then [Event.use nc.1 by_] else [])

def walkVar (by_ : Obj) (v : VarD) : List Event :=
  v.names.zipIdx.flatMap fun x => walkVarName by_ v x.2 x.1

/-- `if len(vspec.Values) != 0 { read(Values[i], obj) }` (lengths are equal then) -/
def constValue (v : VarD) (i : Nat) : List Obj :=
  if v.values.length ≠ 0 then v.values.getD i [] else []

/-- body of the loop over names in the CONST branch -/
def walkConstName (by_ : Obj) (v : VarD) (i : Nat) (nc : Obj × NameCls) : List Event :=
  [Event.see nc.1 by_] ++ readsEv nc.1 v.typeReads ++ readsEv nc.1 (constValue v i) ++
  (if nc.2 = .blank then [Event.use nc.1 by_]
   else if nc.2 = .exported ∧ by_ = 0 then [Event.use nc.1 0] else [])

def walkConst (by_ : Obj) (v : VarD) : List Event :=
  v.names.zipIdx.flatMap fun x => walkConstName by_ v x.2 x.1

/-- (10.1) the ring `a → b → c → a` over one group: `use(obj, prev)` for consecutive
constants, `use(first, last)` when they differ -/
def ringEv (g : List Obj) : List Event :=
  (g.zip g.tail).map (fun x => Event.use x.2 x.1) ++
  (match g.head?, g.getLast? with
   | some f, some l => if f ≠ l then [Event.use f l] else []
   | _, _ => [])

/-- `embeddedField(field.Type, typ)` followed by (6.2) and (6.5) of `namedType` -/
def walkEmb (typ : Obj) (e : EmbD) : List Event :=
  [Event.see e.obj typ, Event.use e.typeObj e.obj] ++
  (if e.exported then [Event.use e.obj typ] else []) ++
  (if e.hasExportedField then [Event.use e.obj typ] else [])

/-- named field of a named struct: `see(obj, typ); read(field.Type, obj)`, (9.9), (6.2) -/
def walkField (typ : Obj) (f : FieldD) : List Event :=
  [Event.see f.obj typ] ++ readsEv f.obj f.typeReads ++
  (if f.cls = .blank ∨ f.cls = .exported then [Event.use f.obj typ] else [])

/-- `see(obj, by); use(obj, by); read(meth.Type, obj)` (8.3) -/
def walkIMeth (typ : Obj) (m : IMethD) : List Event :=
  [Event.see m.obj typ, Event.use m.obj typ] ++ readsEv m.obj m.sigReads

/-- `namedType(typ, spec)` -/
def walkBody (typ : Obj) : TBody → List Event
  | .struct fs es => es.flatMap (walkEmb typ) ++ fs.flatMap (walkField typ)
  | .iface ms embeds _ => readsEv typ embeds ++ ms.flatMap (walkIMeth typ)
  | .other rs => readsEv typ rs

/-- one spec of the TYPE branch (`isGlobal(obj)` ⇔ the declaration is walked with `by = nil`) -/
def walkType (by_ : Obj) (t : TypeD) : List Event :=
  [Event.see t.obj by_] ++
  (if t.cls = .exported ∧ by_ = 0 then [Event.use t.obj 0] else []) ++
  walkBody t.obj t.body ++
  (if t.cls = .blank then [Event.use t.obj by_] else [])

def walkGen (by_ : Obj) : GenD → List Event
  | .types l => l.flatMap (walkType by_)
  | .vars l => l.flatMap (walkVar by_)
  | .consts l groups => l.flatMap (walkConst by_) ++ groups.flatMap ringEv

def walkItem (f : Obj) : Item → List Event
  | .scope o isVar => [Event.see o f] ++ (if isVar then [Event.use o f] else [])
  | .reads l => readsEv f l
  | .param q tr => [Event.use q f] ++ readsEv q tr
  | .gen d => walkGen f d

/-- the `if … else if …` chain of the `FuncDecl` branch plus the `_` test (1.2, 1.5, 1.7, 9.9).
A method named `init` is used too: the Go code tests the name only. -/
def rootFunc (p : Pkg) (f : FuncD) : Bool :=
  match f.name with
  | .exported => !f.isMethod
  | .init => true
  | .main => p.isMain
  | .blank => true
  | .plain => false

def walkParam (f : Obj) (q : Obj × Bool) : List Event :=
  [Event.see q.1 f] ++ (if q.2 then [Event.use q.1 f] else [])

def walkFunc (p : Pkg) (f : FuncD) : List Event :=
  [Event.see f.obj 0] ++ (if rootFunc p f then [Event.use f.obj 0] else []) ++
  f.items.flatMap (walkItem f.obj) ++ f.params.flatMap (walkParam f.obj)

def walkTop (p : Pkg) : Top → List Event
  | .func f => walkFunc p f
  | .gen d => walkGen 0 d

/-! ### `g.namedTypes`, `g.interfaceTypes`, `processMethodSet` -/

def typesOfGen : GenD → List TypeD
  | .types l => l
  | _ => []

def typesOfItem : Item → List TypeD
  | .gen d => typesOfGen d
  | _ => []

def typesOfTop : Top → List TypeD
  | .func f => f.items.flatMap typesOfItem
  | .gen d => typesOfGen d

/-- every type spec of the package, package-level or function-local -/
def allTypes (p : Pkg) : List TypeD := p.decls.flatMap typesOfTop

/-- `g.namedTypes`: `if !tspec.Assign.IsValid() { append }` — for EVERY type spec the TYPE
branch sees, local ones included -/
def namedTypes (p : Pkg) : List TypeD := (allTypes p).filter fun t => !t.alias

/-- the complete method set of an interface literal `read` registers in `g.interfaceTypes`
(`len(node.Methods.List) != 0`) -/
def ifaceOfType (t : TypeD) : Option (List Nat) :=
  match t.body with
  | .iface ms embeds full => if ms.isEmpty && embeds.isEmpty then none else some full
  | _ => none

/-- `allInterfaces` -/
def ifaceLits (p : Pkg) : List (List Nat) := (allTypes p).filterMap ifaceOfType

/-- `readSelection(sel, by)` -/
def selEv (by_ : Obj) (s : Sel) : List Event := readsEv by_ s.path ++ [Event.use s.obj by_]

/-- `msV.Lookup(m.Pkg(), m.Name())` and the unification of the signatures -/
def lookupSel (ms : List Sel) (n : Nat) : Option Sel := ms.find? fun s => s.name == n

/-- `implements(V, T, msV)` of implements.go for a concrete `V`: every method of `T` is found -/
def implementsB (ms : List Sel) (full : List Nat) : Bool := full.all fun n => (lookupSel ms n).isSome

def selsFor (ms : List Sel) (full : List Nat) : List Sel := full.filterMap (lookupSel ms)

/-- `processMethodSet(named, ms)`: (2.1)/(6.4) exported methods, then (8.2)/(6.3) for every
known interface the type implements -/
def procMS (ifs : List (List Nat)) (t : TypeD) (ms : List Sel) : List Event :=
  (ms.filter (·.exported)).flatMap (selEv t.obj) ++
  (if t.underIface then []
   else ifs.flatMap fun full => if implementsB ms full then (selsFor ms full).flatMap (selEv t.obj) else [])

def procType (ifs : List (List Nat)) (t : TypeD) : List Event :=
  procMS ifs t t.msV ++ procMS ifs t t.msP

/-- `graph.entry` for the fragment: linknames, every declaration, then the method sets -/
def walk (p : Pkg) : List Event :=
  readsEv 0 p.linknames ++ p.decls.flatMap (walkTop p) ++ (namedTypes p).flatMap (procType (ifaceLits p))

/-- what `Results()` says about object `o` of the abstract package -/
def verdictOf (p : Pkg) (o : Obj) : Option Graph.Verdict := Verif.C17.objVerdict Cfg.all (walk p) o

/-! ### the specification side: references, satisfaction, zero-reference objects

None of the functions below is used by `walk`. -/

def pairs (d : Obj) (l : List Obj) : List (Obj × Obj) := l.map fun y => (d, y)

/-- the initialiser text that belongs to the declaration of the `i`-th name: its own
expression, or — one shared multi-value initialiser — the whole right-hand side (it stays
in the program as long as ANY of the names is kept) -/
def initOf (v : VarD) (i : Nat) : List Obj :=
  if v.names.length = v.values.length then v.values.getD i [] else v.values.flatten

def refsValueSpec (v : VarD) : List (Obj × Obj) :=
  v.names.zipIdx.flatMap fun x => pairs x.1.1 v.typeReads ++ pairs x.1.1 (initOf v x.2)

def refsType (t : TypeD) : List (Obj × Obj) :=
  match t.body with
  | .struct fs es => (es.map fun e => (e.obj, e.typeObj)) ++ fs.flatMap fun f => pairs f.obj f.typeReads
  | .iface ms embeds _ => pairs t.obj embeds ++ ms.flatMap fun m => pairs m.obj m.sigReads
  | .other rs => pairs t.obj rs

def refsGen : GenD → List (Obj × Obj)
  | .types l => l.flatMap refsType
  | .vars l => l.flatMap refsValueSpec
  | .consts l _ => l.flatMap refsValueSpec

def refsItem (f : Obj) : Item → List (Obj × Obj)
  | .scope _ _ => []
  | .reads l => pairs f l
  | .param q tr => pairs q tr
  | .gen d => refsGen d

def refsTop : Top → List (Obj × Obj)
  | .func f => f.items.flatMap (refsItem f.obj)
  | .gen d => refsGen d

/-- **The reference relation of the abstract package**: `(d, y)` — an identifier that
denotes `y` is written inside the declaration of `d`, and `d` is the innermost declared
object around it. -/
def refsOf (p : Pkg) : List (Obj × Obj) := p.decls.flatMap refsTop

/-- a spec the VAR branch does not panic on -/
def VarD.ok (v : VarD) : Bool := v.values.length == v.names.length || v.values.length ≤ 1

/-- a const spec the `assert` of the CONST branch accepts -/
def VarD.constOk (v : VarD) : Bool := v.values.length == v.names.length || v.values.length == 0

def genOk : GenD → Bool
  | .types _ => true
  | .vars l => l.all VarD.ok
  | .consts l _ => l.all VarD.constOk

def itemOk : Item → Bool
  | .gen d => genOk d
  | _ => true

def topOk : Top → Bool
  | .func f => f.items.all itemOk
  | .gen d => genOk d

/-- every value spec has as many values as names, one value, or none (anything else does
not type-check) -/
def Pkg.ok (p : Pkg) : Bool := p.decls.all topOk

/-! #### targets of use edges that do not come from an identifier, owned objects -/

def extraValueSpec (v : VarD) : List Obj :=
  v.names.filterMap fun nc => if nc.2 = .plain then none else some nc.1

def extraType (t : TypeD) : List Obj :=
  (if t.cls = .plain then [] else [t.obj]) ++
  (match t.body with
   | .struct fs es => es.map (·.obj) ++ fs.filterMap fun f => if f.cls = .plain then none else some f.obj
   | .iface ms _ _ => ms.map (·.obj)
   | .other _ => [])

def extraGen : GenD → List Obj
  | .types l => l.flatMap extraType
  | .vars l => l.flatMap extraValueSpec
  | .consts l groups => l.flatMap extraValueSpec ++ (groups.filter fun g => 2 ≤ g.length).flatten

def extraItem : Item → List Obj
  | .scope o _ => [o]
  | .reads _ => []
  | .param q _ => [q]
  | .gen d => extraGen d

def extraTop : Top → List Obj
  | .func f => (if f.name = .plain then [] else [f.obj]) ++ f.items.flatMap extraItem ++ f.params.map (·.1)
  | .gen d => extraGen d

def selObjs (s : Sel) : List Obj := s.path ++ [s.obj]

/-- every object that can be the target of a use edge NOT caused by an identifier that
denotes it (and not by a `//go:linkname`): objects whose name is not plain (exported /
`_` / `init` / `main`), scope objects, parameters, embedded fields, interface methods,
members of constant groups of two or more, everything in a method-set selection -/
def extraTargets (p : Pkg) : List Obj :=
  p.decls.flatMap extraTop ++ (allTypes p).flatMap fun t => (t.msV ++ t.msP).flatMap selObjs

def ownedType (t : TypeD) : List Obj :=
  match t.body with
  | .struct fs es => es.map (·.obj) ++ fs.map (·.obj)
  | .iface ms _ _ => ms.map (·.obj)
  | .other _ => []

/-- objects declared by a declaration statement inside a function, and everything owned by types -/
def declaredGen : GenD → List Obj
  | .types l => l.map (·.obj)
  | .vars l => l.flatMap fun v => v.names.map (·.1)
  | .consts l _ => l.flatMap fun v => v.names.map (·.1)

def ownedGenInner : GenD → List Obj
  | .types l => l.flatMap ownedType
  | _ => []

def ownedItem : Item → List Obj
  | .scope o _ => [o]
  | .reads _ => []
  | .param _ _ => []
  | .gen d => declaredGen d ++ ownedGenInner d

def ownedTop : Top → List Obj
  | .func f => f.items.flatMap ownedItem ++ f.params.map (·.1)
  | .gen d => ownedGenInner d

/-- every object some `see(obj, owner)` call with a non-nil owner is made for -/
def ownedObjs (p : Pkg) : List Obj := p.decls.flatMap ownedTop

def plainNames (v : VarD) : List Obj := v.names.filterMap fun nc => if nc.2 = .plain then some nc.1 else none

def pkgLevelPlainTop : Top → List Obj
  | .func f => if f.name = .plain ∧ f.isMethod = false then [f.obj] else []
  | .gen (.types l) => l.filterMap fun t => if t.cls = .plain then some t.obj else none
  | .gen (.vars l) => l.flatMap plainNames
  | .gen (.consts l _) => l.flatMap plainNames

/-- the unexported, non-blank package-level functions (not methods, not `init`/`main`),
types, variables and constants -/
def pkgLevelPlain (p : Pkg) : List Obj := p.decls.flatMap pkgLevelPlainTop

/-- **Zero-reference candidate**, decidable: an unexported package-level func / type / var /
const that no identifier refers to, that no `//go:linkname` names, and that is none of the
objects a rule of the walk uses without an identifier (for a constant: it is alone in its
group) nor a function-local / owned object. -/
def zeroRef (p : Pkg) (o : Obj) : Bool :=
  o != 0 && (pkgLevelPlain p).contains o && !p.linknames.contains o &&
  !((refsOf p).map (·.2)).contains o && !(extraTargets p).contains o && !(ownedObjs p).contains o

/-! #### syntactic containment ("declared inside") -/

def containsType (t : TypeD) : List (Obj × Obj) := (ownedType t).map fun o => (t.obj, o)

def containsGenInner : GenD → List (Obj × Obj)
  | .types l => l.flatMap containsType
  | _ => []

def containsItem (f : Obj) : Item → List (Obj × Obj)
  | .scope o _ => [(f, o)]
  | .reads _ => []
  | .param _ _ => []
  | .gen d => (declaredGen d).map (fun o => (f, o)) ++ containsGenInner d

def containsTop : Top → List (Obj × Obj)
  | .func f => f.items.flatMap (containsItem f.obj) ++ f.params.map fun q => (f.obj, q.1)
  | .gen d => containsGenInner d

/-- `(w, o)`: `o` is declared directly inside the declaration of `w` — a field, embedded
field or method inside its type; a parameter, local variable, constant or type inside its
function.  Independent of the walk. -/
def containsOf (p : Pkg) : List (Obj × Obj) := p.decls.flatMap containsTop

/-- declared inside, at any depth -/
inductive Inside (p : Pkg) : Obj → Obj → Prop
  | direct {w o : Obj} : (w, o) ∈ containsOf p → Inside p w o
  | trans {w x o : Obj} : Inside p w x → (x, o) ∈ containsOf p → Inside p w o

/-- executable: `rk` strictly grows along containment (containment is a forest of bounded depth) -/
def rankOk (p : Pkg) (rk : Obj → Nat) : Bool := (containsOf p).all fun x => decide (rk x.1 < rk x.2)

/-- the depth ranking of a well-formed package: 0 for what is declared at package level,
1 for what is declared in a function or in a package-level type, 2 for members of local types -/
def depthOf (p : Pkg) (o : Obj) : Nat :=
  let c := containsOf p
  match c.find? (fun x => x.2 == o) with
  | none => 0
  | some x =>
    match c.find? (fun y => y.2 == x.1) with
    | none => 1
    | some _ => 2

end Verif.C07.Walk
